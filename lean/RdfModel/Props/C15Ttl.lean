/-
  C15 — truncation and reader failures are reported (statement layer of Turtle / TriG).

  The decoder model consumes `List Rune × End` (`End = eof | ioerr`); that `bufio` turns every
  chunking of the bytes into that stream is outside the model (recorded assumption, checked by the
  harness with 1-, 2-, 3-, 7-byte and random chunk readers, which split multi-byte runes).
  Determinism ("decoding twice gives the same") is functionhood of `run`.

  PROVED for every input and configuration (repaired code, D13):
    * `ioerr_reported`         a failing reader never yields a clean end;
    * `clean_only_at_eof`      the contrapositive form: verdict `clean` ⇒ the stream ended with EOF;
    * `ttl_truncation_reported_partial`  when the input ends (possibly after white space and
      comments, also a comment without final newline) while any scan function other than the
      top-level one is the next to run, that call returns the stream's error (`eof` / `io`) — for
      all scan functions that look at their `err` argument (`Cont.checksErr`).
    * `ttl_truncation_errIgnoring` — the six closures that IGNORE `err` (`(`/`[` in subject position,
      the collection-opening closure, `GRAPH [`, `E1` after a TriG label): Go hands them the zero
      `DecodedRune`, they push a NUL back and a later scan function fails with "unexpected rune
      '\x00'".  Proved: from every such frame (satisfying the machine invariant `FrameOK`) at the end
      of the input, `Next()` answers false with a SYNTAX error latched after 1–6 scan calls
      (`Reach`, the fuel-free form of the loop in `Next`; `ttl_truncation_errIgnoring_next` for
      `nextLoop` with any fuel) — a later error, never a clean end.  Hypothesis `NulPlain`: NUL is
      neither white space nor PN_CHARS_BASE (`nulPlain_real`: true for the driver's configuration).
    * `ttl_truncation_reported` — the union: whatever scan function other than the top-level one is
      the next to run when the input ends, `Next()` answers false with an error.
    * `top_level_clean`        conversely the top-level function at EOF ends the run cleanly.
    * `real_producers_local` — the token-producer half of prefix monotonicity: each of the eight real
      producers (IRIREF, strings, PNAME_NS, prefixed names, blank-node labels, LANGTAG, numbers, the
      boolean keywords), when it succeeds on an input and leaves something other than nothing or a
      lone `.` in the buffer (`1.` + EOF is the integer `1` with the `.` pushed back, `1.5` a decimal),
      returns the same token and the same remainder + `s` on the input extended by any `s`
      (`Producers.Local`, Proofs/TtlDocLocal.lean; closing-delimiter producers need no condition).
    * `scan_local`, `prefix_lockstep_partial` — the statement-layer half, first part (Proofs/TtlDocPrefix.lean):
      every scan function is local in the same sense (a call that is handed a rune, succeeds and leaves
      more than nothing / a lone `.` gives the same `rsNext`, pushes, statement and environment on every
      extension of the input, buffer extended alike), hence the run on a prefix `p` and the run on
      `p ++ s` move in LOCK-STEP through every `Next()` call all of whose scan calls are of that kind:
      the statements of those calls (`commonRun`, computed) are, in order, the first statements of
      both runs.
    * `prefix_monotone_d43_partial` — PREFIX MONOTONICITY WITH EXACTLY THE D43 ALLOWANCE, for every input, cut point,
      base, prefix table and resolver: the statements decoded from a prefix `p` are, in order, statements
      of the run on `p ++ s`, except possibly the last TWO.  Proof (Proofs/TtlDocPrefix2.lean): lock-step
      up to the first scan call that touches the end of the prefix; from then on the buffer is
      exhausted (empty / white space, a lone pushed-back `.`, a lone NUL) and every scan function either
      fails, passes the buffer on, or — the collection closures, D43 — yields ONE statement and hands
      over to `Object`, which fails on such a buffer; together with the touching call's own statement
      that makes two.  Hypotheses on the producers: `Consumes`, `Local` and `TinyFail` (a lone `.` or NUL
      starts no token), all proved for the real producers (`prefix_monotone_real_partial`).
      `_partial` only because the property text allows ONE trailing statement: that version
      (`prefix_monotone`, kept as a `def`) is FALSE on the code — finding D43 (known, not repaired): a cut
      right after a `.` inside a number or name in a collection yields the shortened item AND the eagerly
      emitted rdf:rest link (witness proved below by `decide`).
-/
import RdfModel.Props.C06Ttl
import RdfModel.Proofs.TtlDocTrunc
import RdfModel.Proofs.TtlDocLocal
import RdfModel.Proofs.TtlDocPrefix
import RdfModel.Proofs.TtlDocPrefix2
import RdfModel.Gen.NQTables
namespace RdfModel.C15
open RdfModel RdfModel.TtlDoc

/-- A reader error is never swallowed: the run does not end cleanly. -/
theorem ioerr_reported (C : Cfg) (hP : C.P.NoPanic) (hL : C.P.LangNonEmpty)
    (base : Option (List Nat)) (pf : List (List Nat × List Nat)) (inp : List Nat) :
    (run C .ioerr base pf inp).2 ≠ .clean :=
  (runLoop_ok hP hL _ _ (mInv_init C .ioerr base pf inp)).2.2 rfl

theorem clean_only_at_eof (C : Cfg) (e : End) (hP : C.P.NoPanic) (hL : C.P.LangNonEmpty)
    (base : Option (List Nat)) (pf : List (List Nat × List Nat)) (inp : List Nat)
    (h : (run C e base pf inp).2 = .clean) : e = .eof := by
  cases e with
  | eof => rfl
  | ioerr => exact absurd h (ioerr_reported C hP hL base pf inp)

theorem ioerr_reported_real (trig : Bool) (resolve) (isSpace) (base : Option (List Nat))
    (pf : List (List Nat × List Nat)) (inp : List Nat) :
    (run (C05.realCfg trig resolve isSpace) .ioerr base pf inp).2 ≠ .clean := by
  have hT : inRanges (if trig then Gen.trig else Gen.turtle).pnCharsBase 0 = false := by
    cases trig
    · exact C05.gen_tables_nul.1
    · exact C05.gen_tables_nul.2
  obtain ⟨h1, _, h3⟩ := C05.real_producers_ok _ hT
  exact ioerr_reported _ h1 h3 base pf inp

/-- scan functions that test `err != nil` before anything else -/
def Cont.checksErr : Cont → Bool
  | .statement | .collOpenSubj _ | .parenTop _ | .parenBlock _ | .graphAnonClose | .tgE1 _ | .tgBracket _ => false
  | _ => true

/-- End of input inside a statement: the pending scan function reports it. -/
theorem ttl_truncation_reported_partial (C : Cfg) (e : End) (f : Frame) (st : St)
    (hk : Cont.checksErr f.k = true) (hend : skipWs C e false st.inp = .end_) :
    scan C e f st = .err (endCls e) := by
  have : stepFn C e f.k f.x st.env .fail = .err (endCls e) := by
    cases hf : f.k <;> first | rfl | (rw [hf] at hk; simp [Cont.checksErr] at hk)
  simp [scan, scanFn, hend, this]

/-- … and `Next()` then returns false with that error latched. -/
theorem ttl_truncation_next (C : Cfg) (e : End) (f : Frame) (st : St) (fuel : Nat)
    (hk : Cont.checksErr f.k = true) (hend : skipWs C e false st.inp = .end_)
    (herr : st.err = none) (hst : st.stmts = []) :
    ∃ st', nextLoop C e (fuel + 2) (some f) st = .no st' ∧ st'.err = some (endCls e) := by
  refine ⟨{ st with err := some (endCls e) }, ?_, rfl⟩
  unfold nextLoop
  simp only [herr, hst, popFrame, ttl_truncation_reported_partial C e f st hk hend]
  unfold nextLoop
  simp

/-- The closures that ignore `err`: at the end of the input `Next()` answers false with a syntax error
    ("unexpected rune '\x00'" in Go) — later than the others, but never a clean end. -/
theorem ttl_truncation_errIgnoring (C : Cfg) (e : End) (hN : NulPlain C) (f : Frame) (st : St)
    (hf : FrameOK C.trig f) (hk : Cont.checksErr f.k = false) (hns : f.k ≠ .statement)
    (hend : skipWs C e false st.inp = .end_) (herr : st.err = none) (hst : st.stmts = []) :
    ∃ st', Reach C e (some f) st (.no st') ∧ st'.err = some .syntax := by
  obtain ⟨x, k⟩ := f
  obtain ⟨_, hc⟩ := hf
  simp only at hk hns hc
  cases k with
  | statement => exact absurd rfl hns
  | collOpenSubj o => exact collOpenSubj_nul hN x o hc.1 herr hst (Or.inl hend)
  | parenTop bn => exact paren_end hN true x bn hc.1 herr hst hend
  | graphAnonClose => exact graphAnonClose_end x herr hst hend
  | tgE1 v => exact tgE1_end hN x v hc.2.2 herr hst hend
  | tgBracket bn => exact tgBracket_end hN x bn herr hst hend
  | parenBlock bn => exact paren_end hN false x bn hc.1 herr hst hend
  | _ => simp [Cont.checksErr] at hk

/-- … in terms of the fuelled loop: with whatever fuel, the answer is that `false` (or the fuel ran out). -/
theorem ttl_truncation_errIgnoring_next (C : Cfg) (e : End) (hN : NulPlain C) (f : Frame) (st : St)
    (hf : FrameOK C.trig f) (hk : Cont.checksErr f.k = false) (hns : f.k ≠ .statement)
    (hend : skipWs C e false st.inp = .end_) (herr : st.err = none) (hst : st.stmts = []) :
    ∃ st', st'.err = some .syntax ∧
      ∀ fuel, nextLoop C e fuel (some f) st = .no st' ∨ nextLoop C e fuel (some f) st = .outOfFuel := by
  obtain ⟨st', h1, h2⟩ := ttl_truncation_errIgnoring C e hN f st hf hk hns hend herr hst
  exact ⟨st', h2, nextLoop_of_reach h1⟩

/-- UNION: when the input ends in front of ANY scan function other than the top-level one, `Next()`
    answers false with an error — the stream's own error for the functions that look at `err`, a
    syntax error for those that do not. -/
theorem ttl_truncation_reported (C : Cfg) (e : End) (hN : NulPlain C) (f : Frame) (st : St)
    (hf : FrameOK C.trig f) (hns : f.k ≠ .statement)
    (hend : skipWs C e false st.inp = .end_) (herr : st.err = none) (hst : st.stmts = []) :
    ∃ st' k, Reach C e (some f) st (.no st') ∧ st'.err = some k ∧
      k = (if Cont.checksErr f.k then endCls e else .syntax) := by
  cases hk : Cont.checksErr f.k with
  | false =>
    obtain ⟨st', h1, h2⟩ := ttl_truncation_errIgnoring C e hN f st hf hk hns hend herr hst
    exact ⟨st', .syntax, h1, h2, by simp⟩
  | true =>
    refine ⟨{ st with err := some (endCls e) }, endCls e, ?_, rfl, by simp⟩
    refine reach_latch (k := endCls e) (iter_cur_err herr hst ?_) rfl
    have := ttl_truncation_reported_partial C e f st hk hend
    simp only [scan] at this
    cases hsc : scanFn C e f st.inp st.env with
    | ok o => rw [hsc] at this; cases this
    | panic => rw [hsc] at this; cases this
    | err k => rw [hsc] at this; injection this with this; rw [this]

/-- `NulPlain` holds for the configuration the driver runs (T1 tables regenerated on every run). -/
theorem nulPlain_real (trig : Bool) (resolve : Option (List Nat) → List Nat → Option (List Nat)) :
    NulPlain (C05.realCfg trig resolve (inRanges Gen.unicodeSpace)) where
  space := by show inRanges Gen.unicodeSpace 0 = false; decide
  base := by
    cases trig
    · exact C05.gen_tables_nul.1
    · exact C05.gen_tables_nul.2

/-- non-vacuity (and the Go behaviour these theorems describe): `<a> <b> (` + EOF in Turtle, `<g>` + EOF
    and `[` + EOF in TriG end with a syntax error, not with `eof` and not cleanly -/
example :
    (run (C05.realCfg false (fun _ r => some r) (inRanges Gen.unicodeSpace)) .eof none [] (asc "(")).2 = .error .syntax ∧
    (run (C05.realCfg true (fun _ r => some r) (inRanges Gen.unicodeSpace)) .eof none [] (asc "<a:g> ")).2 = .error .syntax ∧
    (run (C05.realCfg true (fun _ r => some r) (inRanges Gen.unicodeSpace)) .eof none [] (asc "[ # c")).2 = .error .syntax := by
  decide

/-- D13 (repaired): a comment that runs to the end of the input is such an end of input. -/
example (C : Cfg) : skipWs C .eof false (asc "  # c") = .end_ := by
  simp [asc, skipWs, isWs]

/-- The top-level function at a clean end of input terminates the run. -/
theorem top_level_clean (C : Cfg) (x : Ectx) (st : St) (hend : skipWs C .eof false st.inp = .end_) :
    scan C .eof ⟨x, .statement⟩ st = .ok none { st with stack := [], inp := [] } := by
  simp [scan, scanFn, hend, stepFn, applyOut]

/-- Token-producer half of prefix monotonicity: the real producers are local (see the header). -/
theorem real_producers_local (T : Ttl.Tables) : (Producers.real T).Local := real_local T

/-- non-vacuity of `Producers.Local` and the reason for the "lone `.`" exclusion: `1.` + EOF versus `1.5` -/
example :
    Ttl.produceNumericLiteral .eof (asc "1.") = .ok (.integer, asc "1") (asc ".") ∧
    Ttl.produceNumericLiteral .eof (asc "1.5 ") = .ok (.decimal, asc "1.5") (asc " ") ∧
    Ttl.produceNumericLiteral .eof (asc "1. x") = .ok (.integer, asc "1") (asc ". x") := ⟨by rfl, by rfl, by rfl⟩

/-- Statement-layer half, one call: a scan function that is handed a rune, succeeds and does not exhaust
    the buffer behaves the same on every extension of the input. -/
theorem scan_local (C : Cfg) (hL : C.P.Local) (f : Frame) (i : List Nat) (env : Env) (o : Out) (s : List Nat)
    (hne : skipWs C .eof false i ≠ .end_) (h : scanFn C .eof f i env = .ok o) (hr : Rem o.inp) :
    scanFn C .eof f (i ++ s) env = .ok (extOut s o) :=
  scanFn_local hL f i env o s hne h hr

/-- Statement-layer half, whole runs (LOCK-STEP): the statements yielded by the leading `Next()` calls of the
    run on `p` whose scan calls are all local (`commonRun`, an executable function; `n` bounds how many
    calls are followed) are, in order, the first statements of the run on `p` and of the run on
    every extension `p ++ s`.  (`prefix_monotone_d43_partial` adds the bound on what the prefix run yields beyond them.) -/
theorem prefix_lockstep_partial (C : Cfg) (hC : C.P.Consumes) (hL : C.P.Local) (base : Option (List Nat))
    (pf : List (List Nat × List Nat)) (p s : List Nat) (n : Nat) :
    commonRun C n (init base pf p) <+: (run C .eof base pf p).1 ∧
    commonRun C n (init base pf p) <+: (run C .eof base pf (p ++ s)).1 :=
  prefix_lockstep_exec hC hL base pf p s n

/-- … for the configuration the driver runs. -/
theorem prefix_lockstep_real_partial (trig : Bool) (resolve) (isSpace) (base : Option (List Nat))
    (pf : List (List Nat × List Nat)) (p s : List Nat) (n : Nat) :
    commonRun (C05.realCfg trig resolve isSpace) n (init base pf p) <+:
      (run (C05.realCfg trig resolve isSpace) .eof base pf (p ++ s)).1 := by
  have hT : inRanges (if trig then Gen.trig else Gen.turtle).pnCharsBase 0 = false := by
    cases trig
    · exact C05.gen_tables_nul.1
    · exact C05.gen_tables_nul.2
  obtain ⟨_, h2, _⟩ := C05.real_producers_ok _ hT
  exact (prefix_lockstep_partial _ h2 (real_local _) base pf p s n).2

/-- non-vacuity: on the D43 witness cut after `1.` the lock-step part consists of the first two statements
    (the statement before the collection and the list head); the two bogus trailing statements of the
    prefix run lie beyond it -/
example :
    let C := C05.realCfg false (fun _ r => some r) (inRanges Gen.unicodeSpace)
    (commonRun C 10 (init none [] (asc "<a> <b> <c> , ( 1."))).length = 2 ∧
    (run C .eof none [] (asc "<a> <b> <c> , ( 1.")).1.length = 4 := by
  decide

/-- FULL STATEMENT of the property text (at most ONE trailing statement from the cut token). False on the
    code: D43. -/
def prefix_monotone : Prop :=
  ∀ (C : Cfg) (base : Option (List Nat)) (pf : List (List Nat × List Nat)) (p s : List Nat) (ts : List Stmt),
    C.P.NoPanic → C.P.Consumes →
    run C .eof base pf (p ++ s) = (ts, .clean) →
    ((run C .eof base pf p).1.dropLast <+: ts)

/-- D43 in the model: `<a> <b> ( 1.5 ) .` cut after `1.` — the shortened item AND the eagerly emitted
    rdf:rest link are yielded, neither is a statement of the complete document. -/
example :
    let C := C05.realCfg false (fun _ r => some r) (inRanges Gen.unicodeSpace)
    (run C .eof none [] (asc "<a> <b> ( 1.5 ) .")).2 = .clean ∧
    ¬ ((run C .eof none [] (asc "<a> <b> ( 1.")).1.dropLast <+: (run C .eof none [] (asc "<a> <b> ( 1.5 ) .")).1) := by
  decide

/-- PREFIX MONOTONICITY WITH EXACTLY THE D43 ALLOWANCE: the statements decoded from a prefix are, in order,
    statements of the run on every extension of it (in particular of the whole document), except
    possibly the last TWO (the cut token's statement and, inside a collection, the rdf:rest link
    emitted before the next item is read). No assumption on how the longer run ends. -/
theorem prefix_monotone_d43_partial (C : Cfg) (hT : TinyFail C) (hC : C.P.Consumes) (hL : C.P.Local)
    (base : Option (List Nat)) (pf : List (List Nat × List Nat)) (p s : List Nat) :
    (run C .eof base pf p).1.dropLast.dropLast <+: (run C .eof base pf (p ++ s)).1 :=
  prefix_monotone_two hT hC hL base pf p s

/-- `TinyFail` for the configuration the driver runs. -/
theorem tinyFail_real (trig : Bool) (resolve : Option (List Nat) → List Nat → Option (List Nat)) :
    TinyFail (C05.realCfg trig resolve (inRanges Gen.unicodeSpace)) := by
  cases trig
  · exact real_tinyFail Gen.turtle false resolve _ C05.gen_tables_nul.1 (by decide) (by decide)
  · exact real_tinyFail Gen.trig true resolve _ C05.gen_tables_nul.2 (by decide) (by decide)

/-- … for the configuration the driver runs (either package): every document, every cut point. -/
theorem prefix_monotone_real_partial (trig : Bool) (resolve : Option (List Nat) → List Nat → Option (List Nat))
    (base : Option (List Nat)) (pf : List (List Nat × List Nat)) (p s : List Nat) :
    (run (C05.realCfg trig resolve (inRanges Gen.unicodeSpace)) .eof base pf p).1.dropLast.dropLast <+:
      (run (C05.realCfg trig resolve (inRanges Gen.unicodeSpace)) .eof base pf (p ++ s)).1 := by
  have hT : inRanges (if trig then Gen.trig else Gen.turtle).pnCharsBase 0 = false := by
    cases trig
    · exact C05.gen_tables_nul.1
    · exact C05.gen_tables_nul.2
  obtain ⟨_, h2, _⟩ := C05.real_producers_ok _ hT
  exact prefix_monotone_d43_partial _ (tinyFail_real trig resolve) h2 (real_local _) base pf p s

end RdfModel.C15
