/-
  C07 — every Turtle document is TriG, every N-Triples document is Turtle (statement layer).

  The Turtle and TriG packages are ~4000 lines of copies; here they are ONE model with a flag
  (`Cfg.trig`), and the correspondence check (`go/cmd/c05ttl`, op `ttld.dec`) runs every document
  against BOTH Go packages: a drift of one copy shows as a disagreement of that package with the
  shared model. What is PROVED about the flag:

    * `step_flag_independent`, `ttl_sub_trig_partial` — every scan function except the top-level one
      (`reader_scanStatement` / `reader_scan_trigDoc`) behaves identically in both packages;
    * `ttl_sub_trig_sim_partial` — THE SIMULATION (Proofs/TtlDocSim.lean), for ALL inputs, grammatical
      or not: a document the Turtle run accepts with statements `ts` is accepted by the TriG run with
      the same `ts`, all in the default graph.  The two top-level functions differ in *when* they read
      the subject token (Turtle pushes `Triples_End`, backtracks and re-scans the token through
      `Triples_Subject_*`; TriG produces it at once and decides in `E1` after looking for `{`; after
      `[` Turtle runs `Subject_AnonOrBlankNode`, TriG its own closures and `triples2`); the proof is a
      stuttering simulation (one Turtle iteration of the loop in `Next` ↦ one or two TriG
      iterations) up to the white space `scan` skips and the context of `Triples_End` frames.
      Hypothesis `KwSafe` (beyond `NoPanic`/`Consumes`/`LangNonEmpty`): where the top-level
      functions branch apart the Turtle side finds no subject — `{` is no PN_CHARS_BASE rune, and
      `GRAPH` + white space is not the beginning of a prefixed name.  `real_kwSafe` proves it for
      the real producers and every white-space predicate that contains no PN_CHARS rune, `:` or `.`
      (`SpaceOK`; Props/C07Doc.lean instantiates it: `ttl_sub_trig_real_partial`).
    * `ttl_sub_trig_refuted` — the statement WITHOUT that hypothesis (`ttl_sub_trig`, as it stood) is
      FALSE for the configuration the driver runs: Go's `unicode.IsSpace` contains U+1680 OGHAM
      SPACE MARK, a PN_CHARS_BASE rune, so the prefix label `GRAPH\u1680x` is a name for the Turtle
      decoder and the keyword `GRAPH` + white space for the TriG decoder (finding C07-graph-ogham,
      replayed on the Go code: Turtle yields the triple, TriG fails with "unknown prefix: x").
    * `ttl_default_graph` (Props/C06Ttl.lean) — Turtle statements have no graph name.

  N-Triples ⊂ Turtle: the unconditional `def nt_sub_ttl` below is FALSE (finding C07-bnode-label-colon:
  `C07.nt_sub_ttl_refuted`, Props/C07Doc.lean); with the exclusion of blank-node labels containing ':'
  it is PROVED at document level for all inputs and both packages: `C07.nt_sub_ttl_partial`
  (Props/C07Doc.lean, Proofs/TtlDocNT.lean).
-/
import RdfModel.Props.C06Ttl
import RdfModel.Proofs.TtlDocSim
import RdfModel.Spec.NQuadsGrammar
import RdfModel.Gen.NQTables
namespace RdfModel.C07
open RdfModel RdfModel.TtlDoc

/-- Outside the top-level scan function the package flag is irrelevant. -/
theorem step_flag_independent (C : Cfg) (b : Bool) (e : End) (k : Cont) (x : Ectx) (env : Env) (a : Arg)
    (hk : k ≠ .statement) : stepFn { C with trig := b } e k x env a = stepFn C e k x env a :=
  stepFn_flag C b e k x env a hk

/-- `ttl_sub_trig_partial`: the same, for a whole `scan` call (white-space skipping included). -/
theorem ttl_sub_trig_partial (C : Cfg) (b : Bool) (e : End) (f : Frame) (inp : List Nat) (env : Env)
    (hk : f.k ≠ .statement) : scanFn { C with trig := b } e f inp env = scanFn C e f inp env :=
  scanFn_flag C b e f inp env hk

/-- Turtle statements as TriG statements in the default graph are the same values (`g = none`). -/
def sameTriples (ts qs : List Stmt) : Prop := ts = qs ∧ ∀ q ∈ qs, q.g = none

/-- FULL STATEMENT as it stood (no hypothesis on the keyword/white-space interplay): a document the
    Turtle run accepts is accepted by the TriG run with the same triples, all in the default graph.
    REFUTED below (`ttl_sub_trig_refuted`); proved with the hypothesis `KwSafe`
    (`ttl_sub_trig_sim_partial`). -/
def ttl_sub_trig : Prop :=
  ∀ (C : Cfg) (base : Option (List Nat)) (pf : List (List Nat × List Nat)) (inp : List Nat) (ts : List Stmt),
    C.P.NoPanic → C.P.Consumes →
    run { C with trig := false } .eof base pf inp = (ts, .clean) →
    ∃ qs, run { C with trig := true } .eof base pf inp = (qs, .clean) ∧ sameTriples ts qs

/-- THE SIMULATION. For every input (grammatical or not), every base, prefix table, resolver, stream
    ending and token producers satisfying `NoPanic`, `Consumes`, `LangNonEmpty` and `KwSafe`: what the
    Turtle run accepts, the TriG run accepts with the same statements, all in the default graph.
    `_partial` because of `KwSafe` (see the header; false for `unicode.IsSpace`, finding C07-graph-ogham). -/
theorem ttl_sub_trig_sim_partial (C : Cfg) (e : End) (hP : C.P.NoPanic) (hC : C.P.Consumes) (hL : C.P.LangNonEmpty)
    (hK : KwSafe C) (base : Option (List Nat)) (pf : List (List Nat × List Nat)) (inp : List Nat) (ts : List Stmt)
    (h : run { C with trig := false } e base pf inp = (ts, .clean)) :
    ∃ qs, run { C with trig := true } e base pf inp = (qs, .clean) ∧ sameTriples ts qs := by
  refine ⟨ts, sim_run hP hC hK base pf inp ts h, rfl, ?_⟩
  intro q hq
  have := (C06.doc_emits_wf { C with trig := false } e hP hL base pf inp q (by rw [h]; exact hq)).graph
  cases hg : q.g with
  | none => rfl
  | some g => exact absurd (this g hg).1 (by simp)

/-- `KwSafe` for the real token producers (either package's tables) and the grammar's white space. -/
theorem kwSafe_real (trig : Bool) (resolve : Option (List Nat) → List Nat → Option (List Nat)) (isSpace : Nat → Bool)
    (hsp : SpaceOK (if trig then Gen.trig else Gen.turtle) isSpace) : KwSafe (C05.realCfg trig resolve isSpace) := by
  cases trig
  · exact real_kwSafe Gen.turtle false resolve isSpace (by decide) hsp
  · exact real_kwSafe Gen.trig true resolve isSpace (by decide) hsp

/-- non-vacuity of `SpaceOK` / `KwSafe`: the white space of the Turtle grammar (SP, TAB, LF, CR) -/
example : SpaceOK Gen.turtle (fun c => c = 0x20 || c = 0x09 || c = 0x0a || c = 0x0d) := by
  intro c hc
  simp only [Bool.or_eq_true, decide_eq_true_eq] at hc
  rcases hc with ((rfl | rfl) | rfl) | rfl <;> decide

/-- non-vacuity of the simulation theorem: documents with the kinds of subject on which the two
    top-level functions differ, accepted by both runs -/
example :
    let C := C05.realCfg false (fun _ r => some r) (fun c => c = 0x20 || c = 0x09 || c = 0x0a || c = 0x0d)
    let doc := asc "<a:s> <a:p> 1 . [] <a:p> () . [ <a:p> 2 ] <a:q> 3 ."
    (run { C with trig := false } .eof none [] doc).2 = .clean ∧
    run { C with trig := true } .eof none [] doc = run { C with trig := false } .eof none [] doc := by
  decide

/-- FINDING C07-graph-ogham (known, not repaired): with Go's `unicode.IsSpace` (which contains the
    PN_CHARS_BASE rune U+1680) as white-space predicate — the configuration the driver runs — a
    Turtle document whose prefix label is `GRAPH` U+1680 `x` is decoded by the Turtle run and
    rejected by the TriG run, which reads the keyword `GRAPH`. Replayed on the Go code. -/
theorem finding_graph_ogham :
    let C := C05.realCfg false (fun _ r => some r) (inRanges Gen.unicodeSpace)
    let doc := asc "@prefix GRAPH\u1680x: <a:> . GRAPH\u1680x:a <a:b> <a:c> ."
    run { C with trig := false } .eof none [] doc =
      ([⟨some (.iri (asc "a:a")), some (.iri (asc "a:b")), .iri (asc "a:c"), none⟩], .clean) ∧
    run { C with trig := true } .eof none [] doc = ([], .error .pfx) := by
  decide

/-- Hence the unconditional statement is false. -/
theorem ttl_sub_trig_refuted : ¬ ttl_sub_trig := by
  intro h
  obtain ⟨h1, h2, _⟩ := C05.real_producers_ok Gen.turtle C05.gen_tables_nul.1
  obtain ⟨hrun, hbad⟩ := finding_graph_ogham
  obtain ⟨qs, hq, _⟩ := h (C05.realCfg false (fun _ r => some r) (inRanges Gen.unicodeSpace)) none [] _ _ h1 h2 hrun
  rw [hbad] at hq
  cases hq

/-- label-carrying blank nodes of the N-Triples model as blank nodes of the Turtle model -/
def ntTerm : Term (List Nat) → T := Term.map BN.lbl

/-- UNCONDITIONAL STATEMENT: a grammatical N-Triples document whose IRIs pass the N-Triples decoder's
    check decodes with the Turtle run (no base, no prefixes) to the same triples. REFUTED
    (`nt_sub_ttl_refuted`, labels containing ':'); proved with that exclusion: `nt_sub_ttl_partial`. -/
def nt_sub_ttl : Prop :=
  ∀ (urlOk : List Nat → Bool) (resolve) (isSpace : Nat → Bool) (inp : List Nat) (qs : List (Quad (List Nat))),
    (∀ c, isSpace c = inRanges Gen.unicodeSpace c) →
    Spec.NQG.accepts (inRanges Gen.ntriples.pnCharsU) (inRanges Gen.ntriples.pnChars) false inp = true →
    NQ.run Gen.ntriples urlOk .eof false inp = (qs, .clean) →
    run (C05.realCfg false resolve isSpace) .eof none [] inp =
      (qs.map (fun q => ⟨some (ntTerm q.s), some (ntTerm q.p), ntTerm q.o, none⟩), .clean)

/-- non-vacuity of `nt_sub_ttl`'s conclusion on one document -/
example :
    run (C05.realCfg false (fun _ r => some r) (inRanges Gen.unicodeSpace)) .eof none [] (asc "<a:a> <a:b> _:c .\n") =
      ([⟨some (.iri (asc "a:a")), some (.iri (asc "a:b")), .bnode (.lbl (asc "c")), none⟩], .clean) := by decide

end RdfModel.C07
