/-
  C08, document level — runs of the statement machine on printed subjects, statements, directives,
  graph blocks and whole documents (nesting-free subjects; the predicate-object lists are generic
  in `POFit`).
-/
import RdfModel.Proofs.C08DocRun
set_option linter.unusedSimpArgs false
set_option linter.unusedSectionVars false
set_option linter.unusedVariables false
namespace RdfModel.C08
open RdfModel RdfModel.TA RdfModel.C02 RdfModel.Ttl RdfModel.Spec.TtlPrint RdfModel.TtlDoc

/-! ### well-formedness of lists -/

theorem itemsWf_mem {T : Tables} : ∀ {os : List Obj}, itemsWf T os = true → ∀ o ∈ os, objWf T o = true := by
  intro os
  induction os with
  | nil => intro _ o ho; cases ho
  | cons a os ih =>
    intro h o ho
    simp only [itemsWf, Bool.and_eq_true] at h
    rcases List.mem_cons.1 ho with rfl | ho
    · exact h.1
    · exact ih h.2 o ho

theorem itemsNoBool_mem : ∀ {os : List Obj}, itemsNoBoolPfx os = true → ∀ o ∈ os, objNoBoolPfx o = true := by
  intro os
  induction os with
  | nil => intro _ o ho; cases ho
  | cons a os ih =>
    intro h o ho
    simp only [itemsNoBoolPfx, Bool.and_eq_true] at h
    rcases List.mem_cons.1 ho with rfl | ho
    · exact h.1
    · exact ih h.2 o ho

theorem posWf_mem {T : Tables} : ∀ {pos : List PO}, posWf T pos = true → ∀ po ∈ pos, poWf T po = true := by
  intro pos
  induction pos with
  | nil => intro _ o ho; cases ho
  | cons a os ih =>
    intro h o ho
    simp only [posWf, Bool.and_eq_true] at h
    rcases List.mem_cons.1 ho with rfl | ho
    · exact h.1
    · exact ih h.2 o ho

theorem posNoBool_mem : ∀ {pos : List PO}, posNoBoolPfx pos = true → ∀ po ∈ pos, poNoBoolPfx po = true := by
  intro pos
  induction pos with
  | nil => intro _ o ho; cases ho
  | cons a os ih =>
    intro h o ho
    simp only [posNoBoolPfx, Bool.and_eq_true] at h
    rcases List.mem_cons.1 ho with rfl | ho
    · exact h.1
    · exact ih h.2 o ho

section
variable {T : Tables} (hT : TablesOK T) (hT2 : TablesOK2 T) {C : Cfg} (hC : CfgOK T C)
variable {ch : Choices} (hch : choicesOK ch = true)

include hT hT2 hC hch in
/-- predicate-object lists of the nesting-free fragment are fit for `posGood` -/
theorem poFit_flat (pos : List PO) (hwf : posWf T pos = true) (hfl : pos.all poFlat = true)
    (hnb : posNoBoolPfx pos = true) : ∀ po ∈ pos, POFit T C ch po := by
  intro po hpo
  obtain ⟨v, os⟩ := po
  have h1 := posWf_mem hwf _ hpo
  have h2 := List.all_eq_true.1 hfl _ hpo
  have h3 := posNoBool_mem hnb _ hpo
  simp only [poWf, Bool.and_eq_true, Bool.not_eq_true', List.isEmpty_eq_false_iff] at h1
  simp only [poFlat, List.all_eq_true] at h2
  simp only [poNoBoolPfx] at h3
  exact ⟨h1.1.1, h1.1.2, fun o ho => objGood_flat hT hT2 hC hch o (itemsWf_mem h1.2 o ho) (h2 o ho) (itemsNoBool_mem h3 o ho)⟩

/-! ### what a predicate-object list starts with -/

include hT2 hC hch in
theorem pVerb_follows (v : Verb) (hwf : verbWf T v = true) (i : Nat) (R : List Nat) :
    ∃ c r, Follows C (pVerb ⟨T, ch⟩ i v R) c r ∧ c ≠ 0x7b ∧ c ≠ 0x7d ∧ c ≠ 0x5d := by
  cases v with
  | a =>
    exact ⟨0x61, _, follows_solid hT2 hC (solid_pn (pnB_pn hT2 (hT2.alpha 0x61 (by decide))) (by decide)) (by decide) _, by decide, by decide, by decide⟩
  | iri x0 =>
    cases x0 with
    | ref rr =>
      refine ⟨0x3c, printIriBody (ch.at i).cs rr ++ [0x3e] ++ after T .punct (ch.at i) R, ?_, by decide, by decide, by decide⟩
      have : pVerb ⟨T, ch⟩ i (.iri (.ref rr)) R = 0x3c :: (printIriBody (ch.at i).cs rr ++ [0x3e] ++ after T .punct (ch.at i) R) := by
        simp [pVerb, pIri, iriText, iriKind, printIRIREF]
      rw [this]
      exact follows_solid hT2 hC (solid_delim (by decide) (by decide)) (by decide) _
    | pn p l =>
      simp only [verbWf, iriWf, Bool.and_eq_true] at hwf
      obtain ⟨⟨⟨hp, hps⟩, hls⟩, hpl⟩ := hwf
      obtain ⟨out, hout⟩ := pname_printable (p := p) (ch.at i).cs hpl
      obtain ⟨lo, hlo⟩ := pname_shape hout
      obtain ⟨c0, tl0, htext⟩ : ∃ c0 tl0, p ++ 0x3a :: (lo ++ after T .name (ch.at i) R) = c0 :: tl0 := by
        cases p <;> simp
      have hns := prefix_head hp _ c0 tl0 htext
      obtain ⟨hso, h23⟩ := nameStart_solid hT2 hns
      refine ⟨c0, tl0, ?_, nameStart_ne hT2 hns (by decide) (by decide), nameStart_ne hT2 hns (by decide) (by decide),
        nameStart_ne hT2 hns (by decide) (by decide)⟩
      have : pVerb ⟨T, ch⟩ i (.iri (.pn p l)) R = c0 :: tl0 := by
        rw [← htext]; simp [pVerb, pIri, iriText, iriKind, hout, hlo]
      rw [this]
      exact follows_solid hT2 hC hso h23 _

include hT2 hC hch in
theorem pPOs_follows (pos : List PO) (hne : pos ≠ []) (hfit : ∀ po ∈ pos, POFit T C ch po) (i : Nat) (R : List Nat) :
    ∃ c r, Follows C (pPOs ⟨T, ch⟩ i pos R) c r ∧ c ≠ 0x7b ∧ c ≠ 0x7d ∧ c ≠ 0x5d := by
  cases pos with
  | nil => exact absurd rfl hne
  | cons po pos' =>
    obtain ⟨v, os⟩ := po
    have hv := (hfit _ List.mem_cons_self).1
    cases pos' with
    | nil => simpa [pPOs, pPO] using pVerb_follows hT2 hC hch v hv i _
    | cons po' pos'' => simpa [pPOs, pPO] using pVerb_follows hT2 hC hch v hv i _

/-! ### subjects at the top level -/

/-- The run from the top-level scan function over a printed subject up to the point where the
    predicate-object list is read. -/
def SubjTopGood (T : Tables) (C : Cfg) (ch : Choices) (sj : Subj) : Prop :=
  ∀ (i : Nat) (x0 : Ectx) (s : List Frame) (inp R : List Nat) (c : Nat) (r : List Nat) (st st1 : DState) (sT : TermB)
    (qs : List QuadB),
    Follows C R c r → c ≠ 0x7b → x0.subj = none → x0.graph = none →
    dSubj C.resolve none st sj = some (sT, qs, st1) →
    SkEq C inp (pSubj ⟨T, ch⟩ i sj R) →
    ∃ (inp' : List Nat) (req : Bool) (x' xe : Ectx), SkEq C inp' R ∧ x'.subj = some (toT sT) ∧ x'.graph = none ∧
      (subjIsBnpl sj = true → req = false) ∧
      Steps C .eof ⟨⟨x0, .statement⟩ :: s, inp, envOf st⟩ (qs.map toStmt)
        ⟨⟨x', if req then .polRequired else .pol⟩ :: ⟨x', .polContinue⟩ :: ⟨xe, .triplesEnd⟩ :: ⟨x0, .statement⟩ :: s, inp',
          envOf st1⟩

theorem toT_notLit_iri (i : List Nat) : ∀ a b c, (Term.iri i : TtlDoc.T) ≠ .lit a b c := by intro a b c h; cases h
theorem toT_notLit_bn (b : TtlDoc.BN) : ∀ a b' c, (Term.bnode b : TtlDoc.T) ≠ .lit a b' c := by intro a b' c h; cases h

include hT hT2 hC hch in
theorem subjTop_iri (x1 : IriS) (hwf : iriWf T x1 = true) : SubjTopGood T C ch (.iri x1) := by
  intro i x0 s inp R c r st st1 sT qs hf h7b hxs hxg hd hin
  simp only [dSubj, dObj, Option.map_eq_some_iff] at hd
  obtain ⟨ii, hii, heq⟩ := hd
  simp only [Prod.mk.injEq] at heq
  obtain ⟨rfl, rfl, rfl⟩ := heq
  cases htr : C.trig with
  | false =>
    cases x1 with
    | ref rr =>
      have hs : Scalars rr := scalars_of_B (by simpa [iriWf] using hwf)
      have hres : resolveIRI C (envOf st) rr = some ii := by rw [← iriOf_ref]; exact hii
      have htext : printIRIREF (ch.at i).cs rr ++ after T .punct (ch.at i) R =
          0x3c :: (printIriBody (ch.at i).cs rr ++ [0x3e] ++ after T .punct (ch.at i) R) := by simp [printIRIREF]
      have htx : pSubj ⟨T, ch⟩ i (.iri (.ref rr)) R = 0x3c :: (printIriBody (ch.at i).cs rr ++ [0x3e] ++ after T .punct (ch.at i) R) := by
        simp [pSubj, pObj, pIri, iriText, iriKind, printIRIREF]
      refine ⟨_, true, { x0 with subj := some (.iri ii) }, x0, after_skip (T := T) hC .punct (ch.at i) (slot_ok hch i) R, rfl, hxg, (by simp [subjIsBnpl]), ?_⟩
      have s2 := Steps.tok hT2 hC (f := ⟨x0, .subjIRIREF⟩) (s := ⟨x0, .triplesEnd⟩ :: ⟨x0, .statement⟩ :: s) (env := envOf st)
        (inp := 0x3c :: (printIriBody (ch.at i).cs rr ++ [0x3e] ++ after T .punct (ch.at i) R)) SkEq.rfl' rfl
        (solid_delim (by decide) (by decide)) (by decide)
        ((fn_subjIRIREF hT hC x0 (envOf st) _ rr ii _ _ _ htext hs hres).trans (subjectTail_eq _ _ _ _)) (Steps.refl _)
      have s1 := Steps.tok hT2 hC (f := ⟨x0, .statement⟩) (s := s) (env := envOf st) hin htx
        (solid_delim (by decide) (by decide)) (by decide) (fn_statement_ttl_iriref htr x0 (envOf st) _) (by simpa using s2)
      simpa using s1
    | pn p l =>
      simp only [iriWf, Bool.and_eq_true] at hwf
      obtain ⟨⟨⟨hp, hps⟩, hls⟩, hpl⟩ := hwf
      obtain ⟨out, hout⟩ := pname_printable (p := p) (ch.at i).cs hpl
      have hex : (envOf st).expand p l = some ii := by rw [← iriOf_pn]; exact hii
      have hcl := after_noclash hT2 .name (ch.at i) R (T := T)
      obtain ⟨lo, hlo⟩ := pname_shape hout
      obtain ⟨c0, tl0, htext⟩ : ∃ c0 tl0, out ++ after T .name (ch.at i) R = c0 :: tl0 := by rw [hlo]; cases p <;> simp
      have htext' : p ++ 0x3a :: (lo ++ after T .name (ch.at i) R) = c0 :: tl0 := by rw [← htext, hlo]; simp
      obtain ⟨hso, h23⟩ := nameStart_solid hT2 (prefix_head hp _ c0 tl0 htext')
      have htx : pSubj ⟨T, ch⟩ i (.iri (.pn p l)) R = c0 :: tl0 := by simp [pSubj, pObj, pIri, iriText, iriKind, hout, htext]
      refine ⟨_, true, { x0 with subj := some (.iri ii) }, x0, after_skip (T := T) hC .name (ch.at i) (slot_ok hch i) R, rfl, hxg, (by simp [subjIsBnpl]), ?_⟩
      have s2 := Steps.tok hT2 hC (f := ⟨x0, .subjPName⟩) (s := ⟨x0, .triplesEnd⟩ :: ⟨x0, .statement⟩ :: s) (env := envOf st)
        (inp := c0 :: tl0) SkEq.rfl' rfl hso h23
        ((fn_subjPName hT hC x0 (envOf st) _ p l out ii _ c0 tl0 htext hp (scalars_of_B hps) (scalars_of_B hls) hout hcl hex).trans
          (subjectTail_eq _ _ _ _)) (Steps.refl _)
      have s1 := Steps.tok hT2 hC (f := ⟨x0, .statement⟩) (s := s) (env := envOf st) hin htx hso h23
        (fn_statement_ttl_pname hT2 hC htr x0 (envOf st) hp _ c0 tl0 htext') (by simpa using s2)
      simpa using s1
  | true =>
    -- TriG: token, then `E1` decides between graph block and triples
    have hE1 : ∀ (A : List Nat), SkEq C A R →
        Steps C .eof ⟨⟨x0, .tgE1 (.iri ii)⟩ :: ⟨x0, .statement⟩ :: s, A, envOf st⟩ []
          ⟨⟨{ x0 with subj := some (.iri ii) }, .polRequired⟩ :: ⟨{ x0 with subj := some (.iri ii) }, .polContinue⟩ ::
            ⟨{ x0 with subj := some (.iri ii) }, .triplesEnd⟩ :: ⟨x0, .statement⟩ :: s, c :: r, envOf st⟩ := by
      intro A hA
      have := Steps.fol hT2 hC (f := ⟨x0, .tgE1 (.iri ii)⟩) (s := ⟨x0, .statement⟩ :: s) (env := envOf st) hA hf
        (fn_tgE1_subj x0 (envOf st) (.iri ii) (toT_notLit_iri ii) c r h7b) (Steps.refl _)
      simpa using this
    refine ⟨c :: r, true, { x0 with subj := some (.iri ii) }, { x0 with subj := some (.iri ii) },
      by rw [hf.1]; exact SkEq.rfl', rfl, hxg, (by simp [subjIsBnpl]), ?_⟩
    cases x1 with
    | ref rr =>
      have hs : Scalars rr := scalars_of_B (by simpa [iriWf] using hwf)
      have hres : resolveIRI C (envOf st) rr = some ii := by rw [← iriOf_ref]; exact hii
      have htext : printIRIREF (ch.at i).cs rr ++ after T .punct (ch.at i) R =
          0x3c :: (printIriBody (ch.at i).cs rr ++ [0x3e] ++ after T .punct (ch.at i) R) := by simp [printIRIREF]
      have htx : pSubj ⟨T, ch⟩ i (.iri (.ref rr)) R = 0x3c :: (printIriBody (ch.at i).cs rr ++ [0x3e] ++ after T .punct (ch.at i) R) := by
        simp [pSubj, pObj, pIri, iriText, iriKind, printIRIREF]
      have s1 := Steps.tok hT2 hC (f := ⟨x0, .statement⟩) (s := s) (env := envOf st) hin htx
        (solid_delim (by decide) (by decide)) (by decide)
        (fn_statement_trig_term htr x0 (envOf st) _ _ _ _ _
          (stepStatementRune_trig_iriref hT hC htr x0 (envOf st) _ rr ii _ _ _ htext hs hres))
        (by simpa using hE1 _ (after_skip (T := T) hC .punct (ch.at i) (slot_ok hch i) R))
      simpa using s1
    | pn p l =>
      simp only [iriWf, Bool.and_eq_true] at hwf
      obtain ⟨⟨⟨hp, hps⟩, hls⟩, hpl⟩ := hwf
      obtain ⟨out, hout⟩ := pname_printable (p := p) (ch.at i).cs hpl
      have hex : (envOf st).expand p l = some ii := by rw [← iriOf_pn]; exact hii
      have hcl := after_noclash hT2 .name (ch.at i) R (T := T)
      obtain ⟨lo, hlo⟩ := pname_shape hout
      obtain ⟨c0, tl0, htext⟩ : ∃ c0 tl0, out ++ after T .name (ch.at i) R = c0 :: tl0 := by rw [hlo]; cases p <;> simp
      have htext' : p ++ 0x3a :: (lo ++ after T .name (ch.at i) R) = c0 :: tl0 := by rw [← htext, hlo]; simp
      obtain ⟨hso, h23⟩ := nameStart_solid hT2 (prefix_head hp _ c0 tl0 htext')
      have htx : pSubj ⟨T, ch⟩ i (.iri (.pn p l)) R = c0 :: tl0 := by simp [pSubj, pObj, pIri, iriText, iriKind, hout, htext]
      have s1 := Steps.tok hT2 hC (f := ⟨x0, .statement⟩) (s := s) (env := envOf st) hin htx hso h23
        (fn_statement_trig_term htr x0 (envOf st) _ _ _ _ _
          (stepStatementRune_trig_pname hT hT2 hC htr x0 (envOf st) _ p l out ii _ c0 tl0 htext hp (scalars_of_B hps)
            (scalars_of_B hls) hout hcl hex))
        (by simpa using hE1 _ (after_skip (T := T) hC .name (ch.at i) (slot_ok hch i) R))
      simpa using s1

include hT hT2 hC hch in
theorem subjTop_bn (l : List Nat) (hwf : labelWf T l = true) : SubjTopGood T C ch (.bn l) := by
  intro i x0 s inp R c r st st1 sT qs hf h7b hxs hxg hd hin
  simp only [dSubj, dObj, Option.some.injEq, Prod.mk.injEq] at hd
  obtain ⟨rfl, rfl, rfl⟩ := hd
  simp only [labelWf, Bool.and_eq_true] at hwf
  have hcl := after_noclash hT2 .label (ch.at i) R (T := T)
  have hA := after_skip (T := T) hC .label (ch.at i) (slot_ok hch i) R
  have htx : pSubj ⟨T, ch⟩ i (.bn l) R = 0x5f :: (0x3a :: l ++ after T .label (ch.at i) R) := by simp [pSubj, pObj, pBNode]
  have hus : solid T 0x5f = true := solid_pn (hT2.u_sub 0x5f hT2.us) (by decide)
  cases htr : C.trig with
  | false =>
    refine ⟨_, true, { x0 with subj := some (.bnode (.lbl l)) }, x0, hA, rfl, hxg, (by simp [subjIsBnpl]), ?_⟩
    have s2 := Steps.tok hT2 hC (f := ⟨x0, .subjBNode⟩) (s := ⟨x0, .triplesEnd⟩ :: ⟨x0, .statement⟩ :: s) (env := envOf st)
      (inp := 0x5f :: (0x3a :: l ++ after T .label (ch.at i) R)) SkEq.rfl' rfl hus (by decide)
      ((fn_subjBNode hT hC x0 (envOf st) l _ (scalars_of_B hwf.1) hwf.2 hcl).trans (subjectTail_eq _ _ _ _)) (Steps.refl _)
    have s1 := Steps.tok hT2 hC (f := ⟨x0, .statement⟩) (s := s) (env := envOf st) hin htx hus (by decide)
      (fn_statement_ttl_bnode htr x0 (envOf st) _) (by simpa using s2)
    simpa [toT, Term.map, toBN] using s1
  | true =>
    refine ⟨c :: r, true, { x0 with subj := some (.bnode (.lbl l)) }, { x0 with subj := some (.bnode (.lbl l)) },
      by rw [hf.1]; exact SkEq.rfl', rfl, hxg, (by simp [subjIsBnpl]), ?_⟩
    have s2 := Steps.fol hT2 hC (f := ⟨x0, .tgE1 (.bnode (.lbl l))⟩) (s := ⟨x0, .statement⟩ :: s) (env := envOf st) hA hf
      (fn_tgE1_subj x0 (envOf st) _ (toT_notLit_bn _) c r h7b) (Steps.refl _)
    have s1 := Steps.tok hT2 hC (f := ⟨x0, .statement⟩) (s := s) (env := envOf st) hin htx hus (by decide)
      (fn_statement_trig_term htr x0 (envOf st) _ _ _ _ _
        (stepStatementRune_trig_bnode hT hC htr x0 (envOf st) l _ (scalars_of_B hwf.1) hwf.2 hcl))
      (by simpa using s2)
    simpa [toT, Term.map, toBN] using s1

include hT hT2 hC hch in
theorem subjTop_anon : SubjTopGood T C ch .anon := by
  intro i x0 s inp R c r st st1 sT qs hf h7b hxs hxg hd hin
  simp only [dSubj, dObj, Option.some.injEq, Prod.mk.injEq] at hd
  obtain ⟨rfl, rfl, rfl⟩ := hd
  have hA1 := after_skip (T := T) hC .punct (ch.at i) (slot_ok hch i) (0x5d :: after T .punct (ch.at (i + 1)) R)
  have hA2 := after_skip (T := T) hC .punct (ch.at (i + 1)) (slot_ok hch (i + 1)) R
  have htx : pSubj ⟨T, ch⟩ i .anon R = 0x5b :: after T .punct (ch.at i) (0x5d :: after T .punct (ch.at (i + 1)) R) := by
    simp [pSubj, pObj, pPunct]
  have hf5d : Follows C (0x5d :: after T .punct (ch.at (i + 1)) R) 0x5d (after T .punct (ch.at (i + 1)) R) :=
    follows_solid hT2 hC (solid_delim (by decide) (by decide)) (by decide) _
  cases htr : C.trig with
  | false =>
    refine ⟨_, true, { x0 with subj := some (envOf st).fresh.1 }, { x0 with subj := some (envOf st).fresh.1 }, hA2, rfl, hxg, (by simp [subjIsBnpl]), ?_⟩
    have s2 := Steps.fol hT2 hC (f := ⟨{ x0 with subj := some (envOf st).fresh.1 }, .subjAnonOrBNPL⟩) (s := ⟨x0, .statement⟩ :: s)
      (env := (envOf st).fresh.2) hA1 hf5d (fn_subjAnon_close _ _ _) (Steps.refl _)
    have s1 := Steps.tok hT2 hC (f := ⟨x0, .statement⟩) (s := s) (env := envOf st) hin htx
      (solid_delim (by decide) (by decide)) (by decide) (fn_statement_ttl_bracket htr x0 (envOf st) _) (by simpa using s2)
    simpa [envOf_fresh] using s1
  | true =>
    refine ⟨c :: r, true, { x0 with subj := some (envOf st).fresh.1 }, { x0 with subj := some (envOf st).fresh.1 },
      by rw [hf.1]; exact SkEq.rfl', rfl, hxg, (by simp [subjIsBnpl]), ?_⟩
    have s3 := Steps.fol hT2 hC (f := ⟨x0, .tgE1 (envOf st).fresh.1⟩) (s := ⟨x0, .statement⟩ :: s) (env := (envOf st).fresh.2) hA2 hf
      (fn_tgE1_subj x0 _ _ (toT_notLit_bn _) c r h7b) (Steps.refl _)
    have s2 := Steps.fol hT2 hC (f := ⟨x0, .tgBracket (envOf st).fresh.1⟩) (s := ⟨x0, .statement⟩ :: s)
      (env := (envOf st).fresh.2) hA1 hf5d (fn_tgBracket_close _ _ _ _) (by simpa using s3)
    have s1 := Steps.tok hT2 hC (f := ⟨x0, .statement⟩) (s := s) (env := envOf st) hin htx
      (solid_delim (by decide) (by decide)) (by decide) (fn_statement_trig_bracket htr x0 (envOf st) _) (by simpa using s2)
    simpa [envOf_fresh, toT, Term.map, toBN, DState.fresh, Env.fresh, envOf] using s1

include hT hT2 hC hch in
theorem subjTop_nil : SubjTopGood T C ch (.coll []) := by
  intro i x0 s inp R c r st st1 sT qs hf h7b hxs hxg hd hin
  simp only [dSubj, dObj, Option.some.injEq, Prod.mk.injEq] at hd
  obtain ⟨rfl, rfl, rfl⟩ := hd
  have hA1 := after_skip (T := T) hC .punct (ch.at i) (slot_ok hch i) (0x29 :: after T .punct (ch.at (i + 1)) R)
  have hA2 := after_skip (T := T) hC .punct (ch.at (i + 1)) (slot_ok hch (i + 1)) R
  have htx : pSubj ⟨T, ch⟩ i (.coll []) R = 0x28 :: after T .punct (ch.at i) (0x29 :: after T .punct (ch.at (i + 1)) R) := by
    simp [pSubj, pObj, pPunct, pItems, itemsSlots]
  refine ⟨_, true, { x0 with subj := some (.iri TtlDoc.rdfNil) }, x0, hA2, rfl, hxg, (by simp [subjIsBnpl]), ?_⟩
  have s2 := Steps.fol hT2 hC (f := ⟨x0, .parenTop (envOf st).fresh.1⟩) (s := ⟨x0, .statement⟩ :: s)
    (env := (envOf st).fresh.2) hA1 (follows_solid hT2 hC (solid_delim (by decide) (by decide)) (by decide) _)
    (fn_parenTop_close _ _ _ _) (Steps.refl _)
  have s1 := Steps.tok hT2 hC (f := ⟨x0, .statement⟩) (s := s) (env := envOf st) hin htx
    (solid_delim (by decide) (by decide)) (by decide) (fn_statement_paren x0 (envOf st) _) (by simpa using s2)
  simpa [envOf_fresh] using s1

include hT hT2 hC hch in
theorem subjTop_flat (sj : Subj) (hwf : subjWf T sj = true) (hfl : subjFlat sj = true) : SubjTopGood T C ch sj := by
  cases sj with
  | iri x1 => exact subjTop_iri hT hT2 hC hch x1 (by simpa [subjWf] using hwf)
  | bn l => exact subjTop_bn hT hT2 hC hch l (by simpa [subjWf] using hwf)
  | anon => exact subjTop_anon hT hT2 hC hch
  | bnpl pos => simp [subjFlat] at hfl
  | coll items =>
    cases items with
    | nil => exact subjTop_nil hT hT2 hC hch
    | cons a b => simp [subjFlat] at hfl

/-! ### the predicate-object list after a subject (possibly empty after `[ … ]`) -/

include hT hT2 hC hch in
theorem pos_phase (pos : List PO) (hfit : ∀ po ∈ pos, POFit T C ch po) (j : Nat) (x' : Ectx) (req : Bool) (S : List Frame)
    (inp1 rest : List Nat) (c : Nat) (r : List Nat) (g : Option TermB) (st1 st2 : DState) (qs2 : List QuadB) (sT : TermB)
    (hf : Follows C rest c r) (hc : c = 0x2e ∨ c = 0x5d ∨ c = 0x7d) (hs : x'.subj = some (toT sT)) (hg : x'.graph = g.map toT)
    (hreq : pos = [] → req = false) (hd : dPOs C.resolve sT g st1 pos = some (qs2, st2))
    (hin : SkEq C inp1 (pPOs ⟨T, ch⟩ j pos rest)) :
    ∃ inp2, SkEq C inp2 rest ∧
      Steps C .eof ⟨⟨x', if req then .polRequired else .pol⟩ :: ⟨x', .polContinue⟩ :: S, inp1, envOf st1⟩ (qs2.map toStmt)
        ⟨S, inp2, envOf st2⟩ := by
  by_cases hpe : pos = []
  · subst hpe
    have hr := hreq rfl
    subst hr
    simp only [dPOs, Option.some.injEq, Prod.mk.injEq] at hd
    obtain ⟨rfl, rfl⟩ := hd
    have hne : c ≠ 0x3b := by rcases hc with h | h | h <;> subst h <;> decide
    refine ⟨c :: r, by rw [hf.1]; exact SkEq.rfl', ?_⟩
    have s2 : Steps C .eof ⟨⟨x', .polContinue⟩ :: S, c :: r, envOf st1⟩ [] ⟨S, c :: r, envOf st1⟩ := by
      simpa using Steps.fol hT2 hC (f := ⟨x', .polContinue⟩) (s := S) (env := envOf st1) (inp := c :: r)
        (by rw [hf.1]; exact SkEq.rfl') hf (fn_polContinue_pop x' _ c r hne) (Steps.refl _)
    simpa using Steps.fol hT2 hC (f := ⟨x', .pol⟩) (s := ⟨x', .polContinue⟩ :: S) (env := envOf st1) (by simpa [pPOs] using hin) hf
      (fn_pol_pop hT2 hC x' _ c r (by rcases hc with h | h | h <;> simp [h])) (by simpa using s2)
  · exact posGood hT hT2 hC hch pos hfit j x' S inp1 rest c r g st1 st2 qs2 sT req hf hc hs hg hpe hd hin

/-! ### `triples .` at the top level -/

/-- The run over one top-level statement `subject predicateObjectList .` -/
def StatementGood (T : Tables) (C : Cfg) (ch : Choices) (t : Triples) : Prop :=
  ∀ (i : Nat) (x0 : Ectx) (s : List Frame) (inp rest : List Nat) (st st' : DState) (qs : List QuadB),
    x0.subj = none → x0.graph = none →
    dTriples C.resolve none st t = some (qs, st') →
    SkEq C inp (pStatement ⟨T, ch⟩ i t rest) →
    ∃ inp', SkEq C inp' rest ∧
      Steps C .eof ⟨⟨x0, .statement⟩ :: s, inp, envOf st⟩ (qs.map toStmt) ⟨⟨x0, .statement⟩ :: s, inp', envOf st'⟩

include hT hT2 hC hch in
theorem statementGood (t : Triples) (hsj : SubjTopGood T C ch t.s) (hne : t.pos ≠ [] ∨ subjIsBnpl t.s = true)
    (hfit : ∀ po ∈ t.pos, POFit T C ch po) : StatementGood T C ch t := by
  intro i x0 s inp rest st st' qs hxs hxg hd hin
  simp only [dTriples] at hd
  cases hds : dSubj C.resolve none st t.s with
  | none => simp [hds] at hd
  | some res =>
    obtain ⟨sT, qs1, st1⟩ := res
    simp only [hds] at hd
    cases hdp : dPOs C.resolve sT none st1 t.pos with
    | none => simp [hdp] at hd
    | some res2 =>
      obtain ⟨qs2, st2⟩ := res2
      simp only [hdp, Option.some.injEq, Prod.mk.injEq] at hd
      obtain ⟨rfl, rfl⟩ := hd
      let j := i + triplesSlots t - 1
      have hfd : Follows C (pPunct ⟨T, ch⟩ j 0x2e rest) 0x2e (after T .punct (ch.at j) rest) :=
        follows_solid hT2 hC (solid_delim (by decide) (by decide)) (by decide) _
      obtain ⟨c, r, hfv, h7b⟩ : ∃ c r, Follows C (pPOs ⟨T, ch⟩ (i + subjSlots t.s) t.pos (pPunct ⟨T, ch⟩ j 0x2e rest)) c r ∧ c ≠ 0x7b := by
        by_cases hpe : t.pos = []
        · rw [hpe]; exact ⟨0x2e, _, by simpa [pPOs] using hfd, by decide⟩
        · obtain ⟨c, r, h1, h2, _⟩ := pPOs_follows hT2 hC hch t.pos hpe hfit (i + subjSlots t.s) (pPunct ⟨T, ch⟩ j 0x2e rest)
          exact ⟨c, r, h1, h2⟩
      obtain ⟨inp1, req, x', xe, he1, hx's, hx'g, hbn, s1⟩ := hsj i x0 s inp _ c r st st1 sT qs1 hfv h7b hxs hxg hds
        (by simpa [pStatement, pTriples, j] using hin)
      obtain ⟨inp2, he2, s2⟩ := pos_phase hT hT2 hC hch t.pos hfit (i + subjSlots t.s) x' req
        (⟨xe, .triplesEnd⟩ :: ⟨x0, .statement⟩ :: s) inp1 _ 0x2e _ none st1 st2 qs2 sT hfd (Or.inl rfl) hx's (by simpa using hx'g)
        (fun hpe => hbn (by rcases hne with h | h; exact absurd hpe h; exact h)) hdp he1
      refine ⟨_, after_skip (T := T) hC .punct (ch.at j) (slot_ok hch j) rest, ?_⟩
      have s3 : Steps C .eof ⟨⟨xe, .triplesEnd⟩ :: ⟨x0, .statement⟩ :: s, inp2, envOf st2⟩ []
          ⟨⟨x0, .statement⟩ :: s, after T .punct (ch.at j) rest, envOf st2⟩ := by
        simpa using Steps.fol hT2 hC (f := ⟨xe, .triplesEnd⟩) (s := ⟨x0, .statement⟩ :: s) (env := envOf st2) he2 hfd
          (fn_triplesEnd xe _ _) (Steps.refl _)
      have s23 := s2.trans s3
      rw [List.append_nil] at s23
      simpa using s1.trans s23

/-! ### directives -/

include hT hT2 hC hch in
theorem dir_good (d : Dir) (hwf : dirWf T d = true) (i : Nat) (x0 : Ectx) (s : List Frame) (inp rest : List Nat)
    (st st' : DState) (hd : dDir C.resolve st d = some st') (hin : SkEq C inp (pDir ⟨T, ch⟩ i d rest)) :
    ∃ inp', SkEq C inp' rest ∧
      Steps C .eof ⟨⟨x0, .statement⟩ :: s, inp, envOf st⟩ [] ⟨⟨x0, .statement⟩ :: ⟨x0, .statement⟩ :: s, inp', envOf st'⟩ := by
  have hdot : ∀ j R, Follows C (pPunct ⟨T, ch⟩ j 0x2e R) 0x2e (after T .punct (ch.at j) R) := fun j R =>
    follows_solid hT2 hC (solid_delim (by decide) (by decide)) (by decide) _
  have hiriref : ∀ j (rr R : List Nat), pIriRef ⟨T, ch⟩ j rr R =
      0x3c :: (printIriBody (ch.at j).cs rr ++ [0x3e] ++ after T .punct (ch.at j) R) := by
    intro j rr R; simp [pIriRef, printIRIREF]
  have hiriref' : ∀ j (rr R : List Nat), printIRIREF (ch.at j).cs rr ++ after T .punct (ch.at j) R =
      0x3c :: (printIriBody (ch.at j).cs rr ++ [0x3e] ++ after T .punct (ch.at j) R) := by
    intro j rr R; simp [printIRIREF]
  have hns : ∀ j (p R : List Nat), prefixOK2 T p = true → ∃ c0 tl0, pNs ⟨T, ch⟩ j p R = c0 :: tl0 ∧
      p ++ 0x3a :: after T .punct (ch.at j) R = c0 :: tl0 ∧ solid T c0 = true ∧ c0 ≠ 0x23 := by
    intro j p R hp
    obtain ⟨c0, tl0, h⟩ : ∃ c0 tl0, p ++ 0x3a :: after T .punct (ch.at j) R = c0 :: tl0 := by cases p <;> simp
    obtain ⟨h1, h2⟩ := nameStart_solid hT2 (prefix_head hp _ c0 tl0 h)
    exact ⟨c0, tl0, by simpa [pNs] using h, h, h1, h2⟩
  cases d with
  | prefixAt p rr =>
    simp only [dDir, Option.map_eq_some_iff] at hd
    obtain ⟨b, hb, rfl⟩ := hd
    simp only [dirWf, Bool.and_eq_true] at hwf
    obtain ⟨⟨hp, hps⟩, hrs⟩ := hwf
    refine ⟨_, after_skip (T := T) hC .punct (ch.at (i + 3)) (slot_ok hch _) rest, ?_⟩
    obtain ⟨c0, tl0, hn1, hn2, hn3, hn4⟩ := hns (i + 1) p (pIriRef ⟨T, ch⟩ (i + 2) rr (pPunct ⟨T, ch⟩ (i + 3) 0x2e rest)) hp
    have s4 := Steps.fol hT2 hC (f := ⟨x0, .atPrefixDot p b⟩) (s := ⟨x0, .statement⟩ :: s) (env := envOf st)
      (after_skip (T := T) hC .punct (ch.at (i + 2)) (slot_ok hch _) _) (hdot (i + 3) rest) (fn_atPrefixDot x0 _ p b _) (Steps.refl _)
    have s3 := Steps.tok hT2 hC (f := ⟨x0, .atPrefixIRI p⟩) (s := ⟨x0, .statement⟩ :: s) (env := envOf st)
      (after_skip (T := T) hC .punct (ch.at (i + 1)) (slot_ok hch _) _) (hiriref (i + 2) rr _)
      (solid_delim (by decide) (by decide)) (by decide)
      (fn_atPrefixIRI hT hC x0 (envOf st) p _ rr b _ _ _ (hiriref' (i + 2) rr _) (scalars_of_B hrs) hb) (by simpa using s4)
    have s2 := Steps.tok hT2 hC (f := ⟨x0, .atPrefixNS⟩) (s := ⟨x0, .statement⟩ :: s) (env := envOf st)
      (after_skip (T := T) hC .lang (ch.at i) (slot_ok hch _) _) hn1 hn3 hn4
      (fn_prefixNS hT hC true x0 (envOf st) p _ c0 tl0 hn2 hp (scalars_of_B hps)) (by simpa using s3)
    have s1 := Steps.tok hT2 hC (f := ⟨x0, .statement⟩) (s := s) (env := envOf st) hin
      (show pDir ⟨T, ch⟩ i (.prefixAt p rr) rest = 0x40 :: (0x70 :: (asc "refix" ++ after T .lang (ch.at i) (pNs ⟨T, ch⟩ (i + 1) p
          (pIriRef ⟨T, ch⟩ (i + 2) rr (pPunct ⟨T, ch⟩ (i + 3) 0x2e rest))))) by simp [pDir, asc_atprefix])
      (solid_delim (by decide) (by decide)) (by decide) (fn_statement_atprefix x0 (envOf st) _) (by simpa using s2)
    simpa [envOf, Env.addPrefix] using s1
  | baseAt rr =>
    simp only [dDir, Option.map_eq_some_iff] at hd
    obtain ⟨b, hb, rfl⟩ := hd
    have hrs : scalarsB rr = true := by simpa [dirWf] using hwf
    refine ⟨_, after_skip (T := T) hC .punct (ch.at (i + 2)) (slot_ok hch _) rest, ?_⟩
    have s3 := Steps.fol hT2 hC (f := ⟨x0, .atBaseDot b⟩) (s := ⟨x0, .statement⟩ :: s) (env := envOf st)
      (after_skip (T := T) hC .punct (ch.at (i + 1)) (slot_ok hch _) _) (hdot (i + 2) rest) (fn_atBaseDot x0 _ b _) (Steps.refl _)
    have s2 := Steps.tok hT2 hC (f := ⟨x0, .atBaseIRI⟩) (s := ⟨x0, .statement⟩ :: s) (env := envOf st)
      (after_skip (T := T) hC .lang (ch.at i) (slot_ok hch _) _) (hiriref (i + 1) rr _)
      (solid_delim (by decide) (by decide)) (by decide)
      (fn_atBaseIRI hT hC x0 (envOf st) _ rr b _ _ _ (hiriref' (i + 1) rr _) (scalars_of_B hrs) hb) (by simpa using s3)
    have s1 := Steps.tok hT2 hC (f := ⟨x0, .statement⟩) (s := s) (env := envOf st) hin
      (show pDir ⟨T, ch⟩ i (.baseAt rr) rest = 0x40 :: (0x62 :: (asc "ase" ++ after T .lang (ch.at i)
          (pIriRef ⟨T, ch⟩ (i + 1) rr (pPunct ⟨T, ch⟩ (i + 2) 0x2e rest)))) by simp [pDir, asc_atbase])
      (solid_delim (by decide) (by decide)) (by decide) (fn_statement_atbase x0 (envOf st) _) (by simpa using s2)
    simpa [envOf] using s1
  | prefixKw p rr =>
    simp only [dDir, Option.map_eq_some_iff] at hd
    obtain ⟨b, hb, rfl⟩ := hd
    simp only [dirWf, Bool.and_eq_true] at hwf
    obtain ⟨⟨hp, hps⟩, hrs⟩ := hwf
    refine ⟨_, after_skip (T := T) hC .punct (ch.at (i + 2)) (slot_ok hch _) rest, ?_⟩
    obtain ⟨c0, tl0, hn1, hn2, hn3, hn4⟩ := hns (i + 1) p (pIriRef ⟨T, ch⟩ (i + 2) rr rest) hp
    rcases afterKw_form (T := T) hC false (ch.at i) (slot_ok hch i) (pNs ⟨T, ch⟩ (i + 1) p (pIriRef ⟨T, ch⟩ (i + 2) rr rest))
      with ⟨w, tl, hform, hw, hsk⟩ | ⟨hlt, _⟩
    · have s3 := Steps.tok hT2 hC (f := ⟨x0, .sparqlPrefixIRI p⟩) (s := ⟨x0, .statement⟩ :: s) (env := envOf st)
        (after_skip (T := T) hC .punct (ch.at (i + 1)) (slot_ok hch _) (pIriRef ⟨T, ch⟩ (i + 2) rr rest)) (hiriref (i + 2) rr rest)
        (solid_delim (by decide) (by decide)) (by decide)
        (fn_sparqlPrefixIRI hT hC x0 (envOf st) p _ rr b _ _ _ (hiriref' (i + 2) rr rest) (scalars_of_B hrs) hb) (Steps.refl _)
      have s2 := Steps.tok hT2 hC (f := ⟨x0, .sparqlPrefixNS⟩) (s := ⟨x0, .statement⟩ :: s) (env := envOf st) hsk hn1 hn3 hn4
        (fn_prefixNS hT hC false x0 (envOf st) p _ c0 tl0 hn2 hp (scalars_of_B hps)) (by simpa using s3)
      obtain ⟨k0, ktl, hk⟩ : ∃ k0 ktl, kwCase (ch.at i).n (asc "PREFIX") ++ w :: tl = k0 :: ktl := by
        rw [asc_PREFIX]; simp [kwCase]
      have hk0 : isAlpha k0 = true := by
        rw [asc_PREFIX] at hk
        simp only [kwCase, List.cons_append, List.cons.injEq] at hk
        rw [← hk.1]; by_cases hn : (ch.at i).n % 2 = 1 <;> simp [hn] <;> decide
      have s1 := Steps.tok hT2 hC (f := ⟨x0, .statement⟩) (s := s) (env := envOf st) hin
        (show pDir ⟨T, ch⟩ i (.prefixKw p rr) rest = k0 :: ktl by rw [← hk]; simp [pDir, hform])
        (solid_pn (pnB_pn hT2 (hT2.alpha k0 hk0)) (by simp [isAlpha, NQ.isAlpha] at hk0; omega)) (fun hh => by subst hh; simp [isAlpha, NQ.isAlpha] at hk0)
        (fn_statement_PREFIX hC x0 (envOf st) _ w tl hw k0 ktl hk) (by simpa using s2)
      simpa [envOf, Env.addPrefix] using s1
    · cases hlt
  | baseKw rr =>
    simp only [dDir, Option.map_eq_some_iff] at hd
    obtain ⟨b, hb, rfl⟩ := hd
    have hrs : scalarsB rr = true := by simpa [dirWf] using hwf
    refine ⟨_, after_skip (T := T) hC .punct (ch.at (i + 1)) (slot_ok hch _) rest, ?_⟩
    have hk0 : ∀ k0 ktl R, kwCase (ch.at i).n (asc "BASE") ++ R = k0 :: ktl → isAlpha k0 = true := by
      intro k0 ktl R hk
      rw [asc_BASE] at hk
      simp only [kwCase, List.cons_append, List.cons.injEq] at hk
      rw [← hk.1]; by_cases hn : (ch.at i).n % 2 = 1 <;> simp [hn] <;> decide
    have s2 : ∀ inp2, SkEq C inp2 (pIriRef ⟨T, ch⟩ (i + 1) rr rest) →
        Steps C .eof ⟨⟨x0, .sparqlBaseIRI⟩ :: ⟨x0, .statement⟩ :: s, inp2, envOf st⟩ []
          ⟨⟨x0, .statement⟩ :: ⟨x0, .statement⟩ :: s, after T .punct (ch.at (i + 1)) rest,
            { (envOf st) with base := some b }⟩ := by
      intro inp2 h2
      simpa using Steps.tok hT2 hC (f := ⟨x0, .sparqlBaseIRI⟩) (s := ⟨x0, .statement⟩ :: s) (env := envOf st) h2 (hiriref (i + 1) rr _)
        (solid_delim (by decide) (by decide)) (by decide)
        (fn_sparqlBaseIRI hT hC x0 (envOf st) _ rr b _ _ _ (hiriref' (i + 1) rr _) (scalars_of_B hrs) hb) (Steps.refl _)
    rcases afterKw_form (T := T) hC true (ch.at i) (slot_ok hch i) (pIriRef ⟨T, ch⟩ (i + 1) rr rest)
      with ⟨w, tl, hform, hw, hsk⟩ | ⟨_, hform⟩
    · obtain ⟨k0, ktl, hk⟩ : ∃ k0 ktl, kwCase (ch.at i).n (asc "BASE") ++ w :: tl = k0 :: ktl := by
        rw [asc_BASE]; simp [kwCase]
      have hk0' := hk0 k0 ktl _ hk
      have hwne : w ≠ 0x3c := by intro hh; subst hh; simp [isWsRune] at hw
      have s1 := Steps.tok hT2 hC (f := ⟨x0, .statement⟩) (s := s) (env := envOf st) hin
        (show pDir ⟨T, ch⟩ i (.baseKw rr) rest = k0 :: ktl by rw [← hk]; simp [pDir, hform])
        (solid_pn (pnB_pn hT2 (hT2.alpha k0 hk0')) (by simp [isAlpha, NQ.isAlpha] at hk0'; omega)) (fun hh => by subst hh; simp [isAlpha, NQ.isAlpha] at hk0')
        (fn_statement_BASE hC x0 (envOf st) _ w tl (Or.inl hw) k0 ktl hk) (by simpa [hwne] using s2 tl hsk)
      simpa [envOf] using s1
    · obtain ⟨k0, ktl, hk⟩ : ∃ k0 ktl, kwCase (ch.at i).n (asc "BASE") ++ 0x3c ::
          (printIriBody (ch.at (i + 1)).cs rr ++ [0x3e] ++ after T .punct (ch.at (i + 1)) rest) = k0 :: ktl := by
        rw [asc_BASE]; simp [kwCase]
      have hk0' := hk0 k0 ktl _ hk
      have s1 := Steps.tok hT2 hC (f := ⟨x0, .statement⟩) (s := s) (env := envOf st) hin
        (show pDir ⟨T, ch⟩ i (.baseKw rr) rest = k0 :: ktl by rw [← hk, ← hiriref (i + 1) rr rest]; simp [pDir, hform])
        (solid_pn (pnB_pn hT2 (hT2.alpha k0 hk0')) (by simp [isAlpha, NQ.isAlpha] at hk0'; omega)) (fun hh => by subst hh; simp [isAlpha, NQ.isAlpha] at hk0')
        (fn_statement_BASE hC x0 (envOf st) _ 0x3c _ (Or.inr rfl) k0 ktl hk)
        (by simpa using s2 _ (by rw [hiriref]; simp [SkEq]))
      simpa [envOf] using s1

/-! ### inside `{ … }` (TriG) -/

theorem steps_trans_nil {C : Cfg} {c1 c2 c3 : Conf} {ss : List Stmt} (h1 : Steps C .eof c1 ss c2) (h2 : Steps C .eof c2 [] c3) :
    Steps C .eof c1 ss c3 := by simpa using h1.trans h2

/-- The run from `reader_scan_triples` over a printed subject up to the predicate-object list. -/
def SubjBodyGood (T : Tables) (C : Cfg) (ch : Choices) (sj : Subj) : Prop :=
  ∀ (i : Nat) (xg : Ectx) (g : Option TermB) (s : List Frame) (inp R : List Nat) (st st1 : DState) (sT : TermB)
    (qs : List QuadB),
    xg.subj = none → xg.graph = g.map toT →
    dSubj C.resolve g st sj = some (sT, qs, st1) →
    SkEq C inp (pSubj ⟨T, ch⟩ i sj R) →
    ∃ (inp' : List Nat) (req : Bool) (x' : Ectx), SkEq C inp' R ∧ x'.subj = some (toT sT) ∧ x'.graph = g.map toT ∧
      (subjIsBnpl sj = true → req = false) ∧
      Steps C .eof ⟨⟨xg, .triples⟩ :: s, inp, envOf st⟩ (qs.map toStmt)
        ⟨⟨x', if req then .polRequired else .pol⟩ :: ⟨x', .polContinue⟩ :: s, inp', envOf st1⟩

include hT hT2 hC hch in
theorem subjBody_flat (sj : Subj) (hwf : subjWf T sj = true) (hfl : subjFlat sj = true) : SubjBodyGood T C ch sj := by
  intro i xg g s inp R st st1 sT qs hxs hxg hd hin
  cases sj with
  | iri x1 =>
    simp only [dSubj, dObj, Option.map_eq_some_iff] at hd
    obtain ⟨ii, hii, heq⟩ := hd
    simp only [Prod.mk.injEq] at heq
    obtain ⟨rfl, rfl, rfl⟩ := heq
    have hwf : iriWf T x1 = true := by simpa [subjWf] using hwf
    cases x1 with
    | ref rr =>
      have hs : Scalars rr := scalars_of_B (by simpa [iriWf] using hwf)
      have hres : resolveIRI C (envOf st) rr = some ii := by rw [← iriOf_ref]; exact hii
      have htext : printIRIREF (ch.at i).cs rr ++ after T .punct (ch.at i) R =
          0x3c :: (printIriBody (ch.at i).cs rr ++ [0x3e] ++ after T .punct (ch.at i) R) := by simp [printIRIREF]
      have htx : pSubj ⟨T, ch⟩ i (.iri (.ref rr)) R = 0x3c :: (printIriBody (ch.at i).cs rr ++ [0x3e] ++ after T .punct (ch.at i) R) := by
        simp [pSubj, pObj, pIri, iriText, iriKind, printIRIREF]
      refine ⟨_, true, { xg with subj := some (.iri ii) }, after_skip (T := T) hC .punct (ch.at i) (slot_ok hch i) R, rfl, hxg, (by simp [subjIsBnpl]), ?_⟩
      have s2 := Steps.tok hT2 hC (f := ⟨xg, .subjIRIREF⟩) (s := s) (env := envOf st)
        (inp := 0x3c :: (printIriBody (ch.at i).cs rr ++ [0x3e] ++ after T .punct (ch.at i) R)) SkEq.rfl' rfl
        (solid_delim (by decide) (by decide)) (by decide)
        ((fn_subjIRIREF hT hC xg (envOf st) _ rr ii _ _ _ htext hs hres).trans (subjectTail_eq _ _ _ _)) (Steps.refl _)
      have s1 := Steps.tok hT2 hC (f := ⟨xg, .triples⟩) (s := s) (env := envOf st) hin htx
        (solid_delim (by decide) (by decide)) (by decide) (fn_triples_iriref xg (envOf st) _) (by simpa using s2)
      simpa using s1
    | pn p l =>
      simp only [iriWf, Bool.and_eq_true] at hwf
      obtain ⟨⟨⟨hp, hps⟩, hls⟩, hpl⟩ := hwf
      obtain ⟨out, hout⟩ := pname_printable (p := p) (ch.at i).cs hpl
      have hex : (envOf st).expand p l = some ii := by rw [← iriOf_pn]; exact hii
      have hcl := after_noclash hT2 .name (ch.at i) R (T := T)
      obtain ⟨lo, hlo⟩ := pname_shape hout
      obtain ⟨c0, tl0, htext⟩ : ∃ c0 tl0, out ++ after T .name (ch.at i) R = c0 :: tl0 := by rw [hlo]; cases p <;> simp
      have htext' : p ++ 0x3a :: (lo ++ after T .name (ch.at i) R) = c0 :: tl0 := by rw [← htext, hlo]; simp
      obtain ⟨hso, h23⟩ := nameStart_solid hT2 (prefix_head hp _ c0 tl0 htext')
      have htx : pSubj ⟨T, ch⟩ i (.iri (.pn p l)) R = c0 :: tl0 := by simp [pSubj, pObj, pIri, iriText, iriKind, hout, htext]
      refine ⟨_, true, { xg with subj := some (.iri ii) }, after_skip (T := T) hC .name (ch.at i) (slot_ok hch i) R, rfl, hxg, (by simp [subjIsBnpl]), ?_⟩
      have s2 := Steps.tok hT2 hC (f := ⟨xg, .subjPName⟩) (s := s) (env := envOf st)
        (inp := c0 :: tl0) SkEq.rfl' rfl hso h23
        ((fn_subjPName hT hC xg (envOf st) _ p l out ii _ c0 tl0 htext hp (scalars_of_B hps) (scalars_of_B hls) hout hcl hex).trans
          (subjectTail_eq _ _ _ _)) (Steps.refl _)
      have s1 := Steps.tok hT2 hC (f := ⟨xg, .triples⟩) (s := s) (env := envOf st) hin htx hso h23
        (fn_triples_pname hT2 hC xg (envOf st) hp _ c0 tl0 htext') (by simpa using s2)
      simpa using s1
  | bn l =>
    simp only [dSubj, dObj, Option.some.injEq, Prod.mk.injEq] at hd
    obtain ⟨rfl, rfl, rfl⟩ := hd
    have hwf : labelWf T l = true := by simpa [subjWf] using hwf
    simp only [labelWf, Bool.and_eq_true] at hwf
    have hcl := after_noclash hT2 .label (ch.at i) R (T := T)
    have htx : pSubj ⟨T, ch⟩ i (.bn l) R = 0x5f :: (0x3a :: l ++ after T .label (ch.at i) R) := by simp [pSubj, pObj, pBNode]
    have hus : solid T 0x5f = true := solid_pn (hT2.u_sub 0x5f hT2.us) (by decide)
    refine ⟨_, true, { xg with subj := some (.bnode (.lbl l)) }, after_skip (T := T) hC .label (ch.at i) (slot_ok hch i) R, rfl, hxg, (by simp [subjIsBnpl]), ?_⟩
    have s2 := Steps.tok hT2 hC (f := ⟨xg, .subjBNode⟩) (s := s) (env := envOf st)
      (inp := 0x5f :: (0x3a :: l ++ after T .label (ch.at i) R)) SkEq.rfl' rfl hus (by decide)
      ((fn_subjBNode hT hC xg (envOf st) l _ (scalars_of_B hwf.1) hwf.2 hcl).trans (subjectTail_eq _ _ _ _)) (Steps.refl _)
    have s1 := Steps.tok hT2 hC (f := ⟨xg, .triples⟩) (s := s) (env := envOf st) hin htx hus (by decide)
      (fn_triples_bnode xg (envOf st) _) (by simpa using s2)
    simpa [toT, Term.map, toBN] using s1
  | anon =>
    simp only [dSubj, dObj, Option.some.injEq, Prod.mk.injEq] at hd
    obtain ⟨rfl, rfl, rfl⟩ := hd
    have hA1 := after_skip (T := T) hC .punct (ch.at i) (slot_ok hch i) (0x5d :: after T .punct (ch.at (i + 1)) R)
    have hA2 := after_skip (T := T) hC .punct (ch.at (i + 1)) (slot_ok hch (i + 1)) R
    have htx : pSubj ⟨T, ch⟩ i .anon R = 0x5b :: after T .punct (ch.at i) (0x5d :: after T .punct (ch.at (i + 1)) R) := by
      simp [pSubj, pObj, pPunct]
    have hf5d : Follows C (0x5d :: after T .punct (ch.at (i + 1)) R) 0x5d (after T .punct (ch.at (i + 1)) R) :=
      follows_solid hT2 hC (solid_delim (by decide) (by decide)) (by decide) _
    let x' : Ectx := { xg with subj := some (envOf st).fresh.1 }
    refine ⟨_, false, x', hA2, rfl, hxg, (by simp [subjIsBnpl]), ?_⟩
    have s4 := Steps.fol hT2 hC (f := ⟨x', .bnplEnd⟩) (s := ⟨x', .pol⟩ :: ⟨x', .polContinue⟩ :: s)
      (env := (envOf st).fresh.2) (inp := 0x5d :: after T .punct (ch.at (i + 1)) R) SkEq.rfl' hf5d
      (fn_bnplEnd _ _ _) (Steps.refl _)
    have s3 := Steps.fol hT2 hC (f := ⟨x', .polContinue⟩) (s := ⟨x', .bnplEnd⟩ :: ⟨x', .pol⟩ :: ⟨x', .polContinue⟩ :: s)
      (env := (envOf st).fresh.2) (inp := 0x5d :: after T .punct (ch.at (i + 1)) R) SkEq.rfl' hf5d
      (fn_polContinue_pop _ _ _ _ (by decide)) (by simpa using s4)
    have s2 := Steps.fol hT2 hC (f := ⟨x', .pol⟩)
      (s := ⟨x', .polContinue⟩ :: ⟨x', .bnplEnd⟩ :: ⟨x', .pol⟩ :: ⟨x', .polContinue⟩ :: s)
      (env := (envOf st).fresh.2) hA1 hf5d (fn_pol_pop hT2 hC _ _ _ _ (Or.inr (Or.inl rfl))) (by simpa using s3)
    have s1 := Steps.tok hT2 hC (f := ⟨xg, .triples⟩) (s := s) (env := envOf st) hin htx
      (solid_delim (by decide) (by decide)) (by decide) (fn_triples_bracket xg (envOf st) _) (by simpa [x'] using s2)
    simpa [envOf_fresh, toT, Term.map, toBN, DState.fresh, Env.fresh, envOf, x'] using s1
  | bnpl pos => simp [subjFlat] at hfl
  | coll items =>
    cases items with
    | cons a b => simp [subjFlat] at hfl
    | nil =>
      simp only [dSubj, dObj, Option.some.injEq, Prod.mk.injEq] at hd
      obtain ⟨rfl, rfl, rfl⟩ := hd
      have hA1 := after_skip (T := T) hC .punct (ch.at i) (slot_ok hch i) (0x29 :: after T .punct (ch.at (i + 1)) R)
      have hA2 := after_skip (T := T) hC .punct (ch.at (i + 1)) (slot_ok hch (i + 1)) R
      have htx : pSubj ⟨T, ch⟩ i (.coll []) R = 0x28 :: after T .punct (ch.at i) (0x29 :: after T .punct (ch.at (i + 1)) R) := by
        simp [pSubj, pObj, pPunct, pItems, itemsSlots]
      refine ⟨_, true, { xg with subj := some (.iri TtlDoc.rdfNil) }, hA2, rfl, hxg, (by simp [subjIsBnpl]), ?_⟩
      have s2 := Steps.fol hT2 hC (f := ⟨xg, .parenBlock (envOf st).fresh.1⟩) (s := s)
        (env := (envOf st).fresh.2) hA1 (follows_solid hT2 hC (solid_delim (by decide) (by decide)) (by decide) _)
        (fn_parenBlock_close _ _ _ _) (Steps.refl _)
      have s1 := Steps.tok hT2 hC (f := ⟨xg, .triples⟩) (s := s) (env := envOf st) hin htx
        (solid_delim (by decide) (by decide)) (by decide) (fn_triples_paren xg (envOf st) _) (by simpa using s2)
      simpa [envOf_fresh] using s1

include hT2 hC hch in
/-- a (nesting-free) subject starts with a token other than `}` -/
theorem pSubj_follows (sj : Subj) (hwf : subjWf T sj = true) (hfl : subjFlat sj = true) (i : Nat) (R : List Nat) :
    ∃ c r, Follows C (pSubj ⟨T, ch⟩ i sj R) c r ∧ c ≠ 0x7d := by
  cases sj with
  | iri x1 =>
    have := pVerb_follows hT2 hC hch (.iri x1) (by simpa [subjWf, verbWf] using hwf) i R
    obtain ⟨c, r, h1, _, h3, _⟩ := this
    exact ⟨c, r, by simpa [pSubj, pObj, pVerb] using h1, h3⟩
  | bn l =>
    exact ⟨0x5f, _, by
      have : pSubj ⟨T, ch⟩ i (.bn l) R = 0x5f :: (0x3a :: l ++ after T .label (ch.at i) R) := by simp [pSubj, pObj, pBNode]
      rw [this]; exact follows_solid hT2 hC (solid_pn (hT2.u_sub 0x5f hT2.us) (by decide)) (by decide) _, by decide⟩
  | anon =>
    exact ⟨0x5b, _, by
      have : pSubj ⟨T, ch⟩ i .anon R = 0x5b :: after T .punct (ch.at i) (0x5d :: after T .punct (ch.at (i + 1)) R) := by
        simp [pSubj, pObj, pPunct]
      rw [this]; exact follows_solid hT2 hC (solid_delim (by decide) (by decide)) (by decide) _, by decide⟩
  | bnpl pos => simp [subjFlat] at hfl
  | coll items =>
    cases items with
    | cons a b => simp [subjFlat] at hfl
    | nil =>
      exact ⟨0x28, _, by
        have : pSubj ⟨T, ch⟩ i (.coll []) R = 0x28 :: after T .punct (ch.at i) (0x29 :: after T .punct (ch.at (i + 1)) R) := by
          simp [pSubj, pObj, pPunct, pItems, itemsSlots]
        rw [this]; exact follows_solid hT2 hC (solid_delim (by decide) (by decide)) (by decide) _, by decide⟩

/-- what the body lemma needs of one `triples` -/
structure TriplesFit (T : Tables) (C : Cfg) (ch : Choices) (t : Triples) : Prop where
  subj : SubjBodyGood T C ch t.s
  head : ∀ i R, ∃ c r, Follows C (pSubj ⟨T, ch⟩ i t.s R) c r ∧ c ≠ 0x7d
  ne : t.pos ≠ [] ∨ subjIsBnpl t.s = true
  fit : ∀ po ∈ t.pos, POFit T C ch po

include hT hT2 hC hch in
/-- `subject predicateObjectList` inside a graph block, up to the `.` or `}` after it -/
theorem triples_body (t : Triples) (hfit : TriplesFit T C ch t) (i : Nat) (xg : Ectx) (g : Option TermB) (s : List Frame)
    (inp R : List Nat) (c : Nat) (r : List Nat) (st st' : DState) (qs : List QuadB)
    (hxs : xg.subj = none) (hxg : xg.graph = g.map toT) (hf : Follows C R c r) (hc : c = 0x2e ∨ c = 0x7d)
    (hd : dTriples C.resolve g st t = some (qs, st')) (hin : SkEq C inp (pTriples ⟨T, ch⟩ i t R)) :
    ∃ inp', SkEq C inp' R ∧ Steps C .eof ⟨⟨xg, .triples⟩ :: s, inp, envOf st⟩ (qs.map toStmt) ⟨s, inp', envOf st'⟩ := by
  simp only [dTriples] at hd
  cases hds : dSubj C.resolve g st t.s with
  | none => simp [hds] at hd
  | some res =>
    obtain ⟨sT, qs1, st1⟩ := res
    simp only [hds] at hd
    cases hdp : dPOs C.resolve sT g st1 t.pos with
    | none => simp [hdp] at hd
    | some res2 =>
      obtain ⟨qs2, st2⟩ := res2
      simp only [hdp, Option.some.injEq, Prod.mk.injEq] at hd
      obtain ⟨rfl, rfl⟩ := hd
      obtain ⟨inp1, req, x', he1, hx's, hx'g, hbn, s1⟩ := hfit.subj i xg g s inp _ st st1 sT qs1 hxs hxg hds
        (by simpa [pTriples] using hin)
      obtain ⟨inp2, he2, s2⟩ := pos_phase hT hT2 hC hch t.pos hfit.fit (i + subjSlots t.s) x' req s inp1 R c r g st1 st2 qs2 sT hf
        (by rcases hc with h | h; exact Or.inl h; exact Or.inr (Or.inr h)) hx's hx'g
        (fun hpe => hbn (by rcases hfit.ne with h | h; exact absurd hpe h; exact h)) hdp he1
      exact ⟨inp2, he2, by simpa using s1.trans s2⟩

include hT hT2 hC hch in
/-- the body of a graph block, from `reader_scan_triplesBlock` to the closing `}` (left in the buffer) -/
theorem body_good (body : List Triples) (hfit : ∀ t ∈ body, TriplesFit T C ch t) : ∀ (i : Nat) (xg : Ectx) (g : Option TermB)
    (s : List Frame) (inp R : List Nat) (r : List Nat) (st st' : DState) (qs : List QuadB),
    xg.subj = none → xg.graph = g.map toT → Follows C R 0x7d r →
    dBody C.resolve g st body = some (qs, st') → SkEq C inp (pBody ⟨T, ch⟩ i body R) →
    ∃ inp', SkEq C inp' R ∧ Steps C .eof ⟨⟨xg, .triplesBlock⟩ :: s, inp, envOf st⟩ (qs.map toStmt) ⟨s, inp', envOf st'⟩ := by
  induction body with
  | nil =>
    intro i xg g s inp R r st st' qs hxs hxg hf hd hin
    simp only [dBody, Option.some.injEq, Prod.mk.injEq] at hd
    obtain ⟨rfl, rfl⟩ := hd
    refine ⟨0x7d :: r, by rw [hf.1]; exact SkEq.rfl', ?_⟩
    simpa using Steps.fol hT2 hC (f := ⟨xg, .triplesBlock⟩) (s := s) (env := envOf st) (by simpa [pBody] using hin) hf
      (fn_triplesBlock_close xg _ r) (Steps.refl _)
  | cons t ts ih =>
    intro i xg g s inp R r st st' qs hxs hxg hf hd hin
    have ht := hfit t List.mem_cons_self
    simp only [dBody] at hd
    cases hdt : dTriples C.resolve g st t with
    | none => simp [hdt] at hd
    | some res =>
      obtain ⟨qs1, st1⟩ := res
      simp only [hdt] at hd
      cases hdb : dBody C.resolve g st1 ts with
      | none => simp [hdb] at hd
      | some res2 =>
        obtain ⟨qs2, st2⟩ := res2
        simp only [hdb, Option.some.injEq, Prod.mk.injEq] at hd
        obtain ⟨rfl, rfl⟩ := hd
        -- the pop of `reader_scan_triplesBlock` / `…_QUEST` on `}`
        have hclose : ∀ (k : Cont) (hk : k = .triplesBlock ∨ k = .triplesBlockQuest) (inp1 : List Nat) (env : Env), SkEq C inp1 R →
            Steps C .eof ⟨⟨xg, k⟩ :: s, inp1, env⟩ [] ⟨s, 0x7d :: r, env⟩ := by
          intro k hk inp1 env h1
          rcases hk with rfl | rfl
          · simpa using Steps.fol hT2 hC (f := ⟨xg, .triplesBlock⟩) (s := s) (env := env) h1 hf
              (fn_triplesBlock_close xg _ r) (Steps.refl _)
          · simpa using Steps.fol hT2 hC (f := ⟨xg, .triplesBlockQuest⟩) (s := s) (env := env) h1 hf
              (fn_triplesBlockQuest_close xg _ r) (Steps.refl _)
        let j := i + triplesSlots t - 1
        have hdotf : ∀ R', Follows C (pPunct ⟨T, ch⟩ j 0x2e R') 0x2e (after T .punct (ch.at j) R') := fun R' =>
          follows_solid hT2 hC (solid_delim (by decide) (by decide)) (by decide) _
        -- first step: `reader_scan_triplesBlock` sees the subject
        have hopen : ∀ (R' : List Nat) (inp0 : List Nat) (env : Env) {ss cf}, SkEq C inp0 (pTriples ⟨T, ch⟩ i t R') →
            (∀ inp1, SkEq C inp1 (pTriples ⟨T, ch⟩ i t R') →
              Steps C .eof ⟨⟨xg, .triples⟩ :: ⟨xg, .triplesBlockQuest⟩ :: s, inp1, env⟩ ss cf) →
            Steps C .eof ⟨⟨xg, .triplesBlock⟩ :: s, inp0, env⟩ ss cf := by
          intro R' inp0 env ss cf h0 hnext
          obtain ⟨c0, r0, hf0, hne0⟩ := ht.head i (pPOs ⟨T, ch⟩ (i + subjSlots t.s) t.pos R')
          have := Steps.fol hT2 hC (f := ⟨xg, .triplesBlock⟩) (s := s) (env := env) h0 (by simpa [pTriples] using hf0)
            (fn_triplesBlock_open xg _ c0 r0 hne0)
            (by simpa using hnext (c0 :: r0) (by rw [show pTriples ⟨T, ch⟩ i t R' = c0 :: r0 from by simpa [pTriples] using hf0.1]; exact SkEq.rfl'))
          simpa using this
        cases ts with
        | nil =>
          refine ⟨0x7d :: r, by rw [hf.1]; exact SkEq.rfl', ?_⟩
          simp only [dBody, Option.some.injEq, Prod.mk.injEq] at hdb
          obtain ⟨rfl, rfl⟩ := hdb
          by_cases hdot : (ch.at j).n % 2 = 1
          · -- `t . }`
            have hin' : SkEq C inp (pTriples ⟨T, ch⟩ i t (pPunct ⟨T, ch⟩ j 0x2e R)) := by
              simpa [pBody, pStatement, j, hdot] using hin
            apply hopen _ inp (envOf st) hin'
            intro inp1 h1
            obtain ⟨inp2, he2, s2⟩ := triples_body hT hT2 hC hch t ht i xg g (⟨xg, .triplesBlockQuest⟩ :: s) inp1 _ 0x2e _ st st1 qs1
              hxs hxg (hdotf R) (Or.inl rfl) hdt h1
            have s3 : Steps C .eof ⟨⟨xg, .triplesBlockQuest⟩ :: s, inp2, envOf st1⟩ [] ⟨s, 0x7d :: r, envOf st1⟩ := by
              simpa using Steps.fol hT2 hC (f := ⟨xg, .triplesBlockQuest⟩) (s := s) (env := envOf st1) he2 (hdotf R)
                (fn_triplesBlockQuest_dot xg _ _)
                (by simpa using hclose .triplesBlock (Or.inl rfl) _ (envOf st1) (after_skip (T := T) hC .punct (ch.at j) (slot_ok hch j) R))
            simpa using steps_trans_nil s2 s3
          · -- `t }`
            have hin' : SkEq C inp (pTriples ⟨T, ch⟩ i t R) := by simpa [pBody, j, hdot] using hin
            apply hopen _ inp (envOf st) hin'
            intro inp1 h1
            obtain ⟨inp2, he2, s2⟩ := triples_body hT hT2 hC hch t ht i xg g (⟨xg, .triplesBlockQuest⟩ :: s) inp1 R 0x7d r st st1 qs1
              hxs hxg hf (Or.inr rfl) hdt h1
            simpa using steps_trans_nil s2 (hclose .triplesBlockQuest (Or.inr rfl) inp2 (envOf st1) he2)
        | cons t' ts' =>
          have hin' : SkEq C inp (pTriples ⟨T, ch⟩ i t (pPunct ⟨T, ch⟩ j 0x2e (pBody ⟨T, ch⟩ (i + triplesSlots t) (t' :: ts') R))) := by
            simpa [pBody, pStatement, j] using hin
          obtain ⟨inp3, he3, s4⟩ := ih (fun t2 ht2 => hfit t2 (List.mem_cons_of_mem _ ht2)) (i + triplesSlots t) xg g s
            (after T .punct (ch.at j) (pBody ⟨T, ch⟩ (i + triplesSlots t) (t' :: ts') R)) R r st1 st2 qs2 hxs hxg hf hdb
            (after_skip (T := T) hC .punct (ch.at j) (slot_ok hch j) _)
          refine ⟨inp3, he3, ?_⟩
          apply hopen _ inp (envOf st) hin'
          intro inp1 h1
          obtain ⟨inp2, he2, s2⟩ := triples_body hT hT2 hC hch t ht i xg g (⟨xg, .triplesBlockQuest⟩ :: s) inp1 _ 0x2e _ st st1 qs1
            hxs hxg (hdotf _) (Or.inl rfl) hdt h1
          have s3 : Steps C .eof ⟨⟨xg, .triplesBlockQuest⟩ :: s, inp2, envOf st1⟩ (qs2.map toStmt) ⟨s, inp3, envOf st2⟩ := by
            simpa using Steps.fol hT2 hC (f := ⟨xg, .triplesBlockQuest⟩) (s := s) (env := envOf st1) he2 (hdotf _)
              (fn_triplesBlockQuest_dot xg _ _) (by simpa using s4)
          simpa using s2.trans s3

/-! ### graph blocks (TriG) -/

include hT hT2 hC hch in
/-- from `reader_scan_triplesBlock` after `{` to after the closing `}` -/
theorem graph_tail (body : List Triples) (hfit : ∀ t ∈ body, TriplesFit T C ch t) (j k : Nat) (xg : Ectx) (g : Option TermB)
    (S : List Frame) (inp rest : List Nat) (st st' : DState) (qs : List QuadB)
    (hxs : xg.subj = none) (hxg : xg.graph = g.map toT) (hd : dBody C.resolve g st body = some (qs, st'))
    (hin : SkEq C inp (pBody ⟨T, ch⟩ j body (pPunct ⟨T, ch⟩ k 0x7d rest))) :
    ∃ inp', SkEq C inp' rest ∧
      Steps C .eof ⟨⟨xg, .triplesBlock⟩ :: ⟨xg, .wrappedGraphEnd⟩ :: S, inp, envOf st⟩ (qs.map toStmt) ⟨S, inp', envOf st'⟩ := by
  have hfc : Follows C (pPunct ⟨T, ch⟩ k 0x7d rest) 0x7d (after T .punct (ch.at k) rest) :=
    follows_solid hT2 hC (solid_delim (by decide) (by decide)) (by decide) _
  obtain ⟨inp1, he1, s1⟩ := body_good hT hT2 hC hch body hfit j xg g (⟨xg, .wrappedGraphEnd⟩ :: S) inp _ _ st st' qs hxs hxg hfc hd hin
  refine ⟨_, after_skip (T := T) hC .punct (ch.at k) (slot_ok hch k) rest, ?_⟩
  have s2 : Steps C .eof ⟨⟨xg, .wrappedGraphEnd⟩ :: S, inp1, envOf st'⟩ [] ⟨S, after T .punct (ch.at k) rest, envOf st'⟩ := by
    simpa using Steps.fol hT2 hC (f := ⟨xg, .wrappedGraphEnd⟩) (s := S) (env := envOf st') he1 hfc (fn_wrappedGraphEnd xg _ _)
      (Steps.refl _)
  exact steps_trans_nil s1 s2

include hT hT2 hC hch in
/-- a graph label (no `GRAPH` keyword): token, then `E1` sees `{` -/
theorem label_top (htr : C.trig = true) (lab : GLabel) (hwf : glabelWf T lab = true) (j k : Nat) (x0 : Ectx) (s : List Frame)
    (inp R : List Nat) (st st1 : DState) (gt : Option TermB) (hxs : x0.subj = none)
    (hd : dLabel C.resolve st (some lab) = some (gt, st1))
    (hin : SkEq C inp (pLabel ⟨T, ch⟩ j (some lab) (pPunct ⟨T, ch⟩ k 0x7b R))) :
    ∃ (xg : Ectx), xg.subj = none ∧ xg.graph = gt.map toT ∧
      Steps C .eof ⟨⟨x0, .statement⟩ :: s, inp, envOf st⟩ []
        ⟨⟨xg, .triplesBlock⟩ :: ⟨xg, .wrappedGraphEnd⟩ :: ⟨x0, .statement⟩ :: s, after T .punct (ch.at k) R, envOf st1⟩ := by
  have hfb : Follows C (pPunct ⟨T, ch⟩ k 0x7b R) 0x7b (after T .punct (ch.at k) R) :=
    follows_solid hT2 hC (solid_delim (by decide) (by decide)) (by decide) _
  have hE1 : ∀ (v : TtlDoc.T) (A : List Nat) (env : Env), SkEq C A (pPunct ⟨T, ch⟩ k 0x7b R) →
      Steps C .eof ⟨⟨x0, .tgE1 v⟩ :: ⟨x0, .statement⟩ :: s, A, env⟩ []
        ⟨⟨{ x0 with graph := some v }, .triplesBlock⟩ :: ⟨{ x0 with graph := some v }, .wrappedGraphEnd⟩ :: ⟨x0, .statement⟩ :: s,
          after T .punct (ch.at k) R, env⟩ := by
    intro v A env hA
    simpa using Steps.fol hT2 hC (f := ⟨x0, .tgE1 v⟩) (s := ⟨x0, .statement⟩ :: s) (env := env) hA hfb
      (fn_tgE1_brace x0 env v _) (Steps.refl _)
  cases lab with
  | iri x1 =>
    simp only [dLabel, Option.map_eq_some_iff] at hd
    obtain ⟨ii, hii, heq⟩ := hd
    simp only [Prod.mk.injEq] at heq
    obtain ⟨rfl, rfl⟩ := heq
    have hwf : iriWf T x1 = true := by simpa [glabelWf] using hwf
    refine ⟨{ x0 with graph := some (.iri ii) }, hxs, rfl, ?_⟩
    cases x1 with
    | ref rr =>
      have hs : Scalars rr := scalars_of_B (by simpa [iriWf] using hwf)
      have hres : resolveIRI C (envOf st) rr = some ii := by rw [← iriOf_ref]; exact hii
      have htext : printIRIREF (ch.at j).cs rr ++ after T .punct (ch.at j) (pPunct ⟨T, ch⟩ k 0x7b R) =
          0x3c :: (printIriBody (ch.at j).cs rr ++ [0x3e] ++ after T .punct (ch.at j) (pPunct ⟨T, ch⟩ k 0x7b R)) := by simp [printIRIREF]
      have s1 := Steps.tok hT2 hC (f := ⟨x0, .statement⟩) (s := s) (env := envOf st) hin
        (show pLabel ⟨T, ch⟩ j (some (.iri (.ref rr))) (pPunct ⟨T, ch⟩ k 0x7b R) = _ by
          simpa [pLabel, pIri, iriText, iriKind] using htext)
        (solid_delim (by decide) (by decide)) (by decide)
        (fn_statement_trig_term htr x0 (envOf st) _ _ _ _ _
          (stepStatementRune_trig_iriref hT hC htr x0 (envOf st) _ rr ii _ _ _ htext hs hres))
        (by simpa using hE1 _ _ _ (after_skip (T := T) hC .punct (ch.at j) (slot_ok hch j) _))
      simpa [toT, Term.map] using s1
    | pn p l =>
      simp only [iriWf, Bool.and_eq_true] at hwf
      obtain ⟨⟨⟨hp, hps⟩, hls⟩, hpl⟩ := hwf
      obtain ⟨out, hout⟩ := pname_printable (p := p) (ch.at j).cs hpl
      have hex : (envOf st).expand p l = some ii := by rw [← iriOf_pn]; exact hii
      have hcl := after_noclash hT2 .name (ch.at j) (pPunct ⟨T, ch⟩ k 0x7b R) (T := T)
      obtain ⟨lo, hlo⟩ := pname_shape hout
      obtain ⟨c0, tl0, htext⟩ : ∃ c0 tl0, out ++ after T .name (ch.at j) (pPunct ⟨T, ch⟩ k 0x7b R) = c0 :: tl0 := by
        rw [hlo]; cases p <;> simp
      have htext' : p ++ 0x3a :: (lo ++ after T .name (ch.at j) (pPunct ⟨T, ch⟩ k 0x7b R)) = c0 :: tl0 := by rw [← htext, hlo]; simp
      obtain ⟨hso, h23⟩ := nameStart_solid hT2 (prefix_head hp _ c0 tl0 htext')
      have s1 := Steps.tok hT2 hC (f := ⟨x0, .statement⟩) (s := s) (env := envOf st) hin
        (show pLabel ⟨T, ch⟩ j (some (.iri (.pn p l))) (pPunct ⟨T, ch⟩ k 0x7b R) = c0 :: tl0 by
          simp [pLabel, pIri, iriText, iriKind, hout, htext]) hso h23
        (fn_statement_trig_term htr x0 (envOf st) _ _ _ _ _
          (stepStatementRune_trig_pname hT hT2 hC htr x0 (envOf st) _ p l out ii _ c0 tl0 htext hp (scalars_of_B hps)
            (scalars_of_B hls) hout hcl hex))
        (by simpa using hE1 _ _ _ (after_skip (T := T) hC .name (ch.at j) (slot_ok hch j) _))
      simpa [toT, Term.map] using s1
  | bn l =>
    simp only [dLabel, Option.some.injEq, Prod.mk.injEq] at hd
    obtain ⟨rfl, rfl⟩ := hd
    have hwf : labelWf T l = true := by simpa [glabelWf] using hwf
    simp only [labelWf, Bool.and_eq_true] at hwf
    have hcl := after_noclash hT2 .label (ch.at j) (pPunct ⟨T, ch⟩ k 0x7b R) (T := T)
    refine ⟨{ x0 with graph := some (.bnode (.lbl l)) }, hxs, rfl, ?_⟩
    have s1 := Steps.tok hT2 hC (f := ⟨x0, .statement⟩) (s := s) (env := envOf st) hin
      (show pLabel ⟨T, ch⟩ j (some (.bn l)) (pPunct ⟨T, ch⟩ k 0x7b R) =
        0x5f :: (0x3a :: l ++ after T .label (ch.at j) (pPunct ⟨T, ch⟩ k 0x7b R)) by simp [pLabel, pBNode])
      (solid_pn (hT2.u_sub 0x5f hT2.us) (by decide)) (by decide)
      (fn_statement_trig_term htr x0 (envOf st) _ _ _ _ _
        (stepStatementRune_trig_bnode hT hC htr x0 (envOf st) l _ (scalars_of_B hwf.1) hwf.2 hcl))
      (by simpa using hE1 _ _ _ (after_skip (T := T) hC .label (ch.at j) (slot_ok hch j) _))
    simpa [toT, Term.map, toBN] using s1
  | anon =>
    simp only [dLabel, Option.some.injEq, Prod.mk.injEq] at hd
    obtain ⟨rfl, rfl⟩ := hd
    have hA1 := after_skip (T := T) hC .punct (ch.at j) (slot_ok hch j) (0x5d :: after T .punct (ch.at (j + 1)) (pPunct ⟨T, ch⟩ k 0x7b R))
    have hA2 := after_skip (T := T) hC .punct (ch.at (j + 1)) (slot_ok hch (j + 1)) (pPunct ⟨T, ch⟩ k 0x7b R)
    refine ⟨{ x0 with graph := some (envOf st).fresh.1 }, hxs, rfl, ?_⟩
    have s2 := Steps.fol hT2 hC (f := ⟨x0, .tgBracket (envOf st).fresh.1⟩) (s := ⟨x0, .statement⟩ :: s)
      (env := (envOf st).fresh.2) hA1 (follows_solid hT2 hC (solid_delim (by decide) (by decide)) (by decide) _)
      (fn_tgBracket_close _ _ _ _) (by simpa using hE1 _ _ _ hA2)
    have s1 := Steps.tok hT2 hC (f := ⟨x0, .statement⟩) (s := s) (env := envOf st) hin
      (show pLabel ⟨T, ch⟩ j (some .anon) (pPunct ⟨T, ch⟩ k 0x7b R) =
        0x5b :: after T .punct (ch.at j) (0x5d :: after T .punct (ch.at (j + 1)) (pPunct ⟨T, ch⟩ k 0x7b R)) by simp [pLabel, pPunct])
      (solid_delim (by decide) (by decide)) (by decide) (fn_statement_trig_bracket htr x0 (envOf st) _) (by simpa using s2)
    simpa [envOf_fresh] using s1

include hT hT2 hC hch in
/-- a graph label after `GRAPH`, then `{` -/
theorem label_kw (lab : GLabel) (hwf : glabelWf T lab = true) (j k : Nat) (x0 : Ectx) (S : List Frame)
    (inp R : List Nat) (st st1 : DState) (gt : Option TermB) (hxs : x0.subj = none)
    (hd : dLabel C.resolve st (some lab) = some (gt, st1))
    (hin : SkEq C inp (pLabel ⟨T, ch⟩ j (some lab) (pPunct ⟨T, ch⟩ k 0x7b R))) :
    ∃ (xg : Ectx), xg.subj = none ∧ xg.graph = gt.map toT ∧
      Steps C .eof ⟨⟨x0, .graphLabel⟩ :: S, inp, envOf st⟩ []
        ⟨⟨xg, .triplesBlock⟩ :: ⟨xg, .wrappedGraphEnd⟩ :: S, after T .punct (ch.at k) R, envOf st1⟩ := by
  have hfb : Follows C (pPunct ⟨T, ch⟩ k 0x7b R) 0x7b (after T .punct (ch.at k) R) :=
    follows_solid hT2 hC (solid_delim (by decide) (by decide)) (by decide) _
  have hW : ∀ (xg : Ectx) (A : List Nat) (env : Env), SkEq C A (pPunct ⟨T, ch⟩ k 0x7b R) →
      Steps C .eof ⟨⟨xg, .wrappedGraph⟩ :: S, A, env⟩ []
        ⟨⟨xg, .triplesBlock⟩ :: ⟨xg, .wrappedGraphEnd⟩ :: S, after T .punct (ch.at k) R, env⟩ := by
    intro xg A env hA
    simpa using Steps.fol hT2 hC (f := ⟨xg, .wrappedGraph⟩) (s := S) (env := env) hA hfb (fn_wrappedGraph xg env _) (Steps.refl _)
  cases lab with
  | iri x1 =>
    simp only [dLabel, Option.map_eq_some_iff] at hd
    obtain ⟨ii, hii, heq⟩ := hd
    simp only [Prod.mk.injEq] at heq
    obtain ⟨rfl, rfl⟩ := heq
    have hwf : iriWf T x1 = true := by simpa [glabelWf] using hwf
    refine ⟨{ x0 with graph := some (.iri ii) }, hxs, rfl, ?_⟩
    cases x1 with
    | ref rr =>
      have hs : Scalars rr := scalars_of_B (by simpa [iriWf] using hwf)
      have hres : resolveIRI C (envOf st) rr = some ii := by rw [← iriOf_ref]; exact hii
      have htext : printIRIREF (ch.at j).cs rr ++ after T .punct (ch.at j) (pPunct ⟨T, ch⟩ k 0x7b R) =
          0x3c :: (printIriBody (ch.at j).cs rr ++ [0x3e] ++ after T .punct (ch.at j) (pPunct ⟨T, ch⟩ k 0x7b R)) := by simp [printIRIREF]
      have hterm := termIRIREF_print hT hC (envOf st) (ch.at j).cs rr ii (after T .punct (ch.at j) (pPunct ⟨T, ch⟩ k 0x7b R)) hs hres
      rw [htext] at hterm
      have s1 := Steps.tok hT2 hC (f := ⟨x0, .graphLabel⟩) (s := S) (env := envOf st) hin
        (show pLabel ⟨T, ch⟩ j (some (.iri (.ref rr))) (pPunct ⟨T, ch⟩ k 0x7b R) = _ by
          simpa [pLabel, pIri, iriText, iriKind] using htext)
        (solid_delim (by decide) (by decide)) (by decide)
        (fn_graphLabel_term x0 (envOf st) 0x3c _ (by decide) _ _ _ (by simpa using hterm))
        (by simpa using hW _ _ _ (after_skip (T := T) hC .punct (ch.at j) (slot_ok hch j) _))
      simpa [toT, Term.map] using s1
    | pn p l =>
      simp only [iriWf, Bool.and_eq_true] at hwf
      obtain ⟨⟨⟨hp, hps⟩, hls⟩, hpl⟩ := hwf
      obtain ⟨out, hout⟩ := pname_printable (p := p) (ch.at j).cs hpl
      have hex : (envOf st).expand p l = some ii := by rw [← iriOf_pn]; exact hii
      have hcl := after_noclash hT2 .name (ch.at j) (pPunct ⟨T, ch⟩ k 0x7b R) (T := T)
      obtain ⟨lo, hlo⟩ := pname_shape hout
      obtain ⟨c0, tl0, htext⟩ : ∃ c0 tl0, out ++ after T .name (ch.at j) (pPunct ⟨T, ch⟩ k 0x7b R) = c0 :: tl0 := by
        rw [hlo]; cases p <;> simp
      have htext' : p ++ 0x3a :: (lo ++ after T .name (ch.at j) (pPunct ⟨T, ch⟩ k 0x7b R)) = c0 :: tl0 := by rw [← htext, hlo]; simp
      have hns := prefix_head hp _ c0 tl0 htext'
      obtain ⟨hso, h23⟩ := nameStart_solid hT2 hns
      have hterm := termPName_print hT hC (envOf st) (ch.at j).cs p l out ii (after T .name (ch.at j) (pPunct ⟨T, ch⟩ k 0x7b R)) hp (scalars_of_B hps) (scalars_of_B hls) hout hcl hex
      rw [htext] at hterm
      obtain ⟨_, _, nu⟩ := nameStart_not_digit hT2 hns
      have s1 := Steps.tok hT2 hC (f := ⟨x0, .graphLabel⟩) (s := S) (env := envOf st) hin
        (show pLabel ⟨T, ch⟩ j (some (.iri (.pn p l))) (pPunct ⟨T, ch⟩ k 0x7b R) = c0 :: tl0 by
          simp [pLabel, pIri, iriText, iriKind, hout, htext]) hso h23
        (fn_graphLabel_term x0 (envOf st) c0 tl0 (nameStart_ne hT2 hns (by decide) (by decide)) _ _ _
          (by rw [if_neg nu, if_neg (nameStart_ne hT2 hns (by decide) (by decide))]; exact hterm))
        (by simpa using hW _ _ _ (after_skip (T := T) hC .name (ch.at j) (slot_ok hch j) _))
      simpa [toT, Term.map] using s1
  | bn l =>
    simp only [dLabel, Option.some.injEq, Prod.mk.injEq] at hd
    obtain ⟨rfl, rfl⟩ := hd
    have hwf : labelWf T l = true := by simpa [glabelWf] using hwf
    simp only [labelWf, Bool.and_eq_true] at hwf
    have hcl := after_noclash hT2 .label (ch.at j) (pPunct ⟨T, ch⟩ k 0x7b R) (T := T)
    refine ⟨{ x0 with graph := some (.bnode (.lbl l)) }, hxs, rfl, ?_⟩
    have hterm := termBNode_print hT hC (envOf st) l (after T .label (ch.at j) (pPunct ⟨T, ch⟩ k 0x7b R)) (scalars_of_B hwf.1) hwf.2 hcl
    simp only [List.cons_append] at hterm
    have s1 := Steps.tok hT2 hC (f := ⟨x0, .graphLabel⟩) (s := S) (env := envOf st) hin
      (show pLabel ⟨T, ch⟩ j (some (.bn l)) (pPunct ⟨T, ch⟩ k 0x7b R) =
        0x5f :: (0x3a :: l ++ after T .label (ch.at j) (pPunct ⟨T, ch⟩ k 0x7b R)) by simp [pLabel, pBNode])
      (solid_pn (hT2.u_sub 0x5f hT2.us) (by decide)) (by decide)
      (fn_graphLabel_term x0 (envOf st) 0x5f _ (by decide) _ _ _ (by simpa using hterm))
      (by simpa using hW _ _ _ (after_skip (T := T) hC .label (ch.at j) (slot_ok hch j) _))
    simpa [toT, Term.map, toBN] using s1
  | anon =>
    simp only [dLabel, Option.some.injEq, Prod.mk.injEq] at hd
    obtain ⟨rfl, rfl⟩ := hd
    have hA1 := after_skip (T := T) hC .punct (ch.at j) (slot_ok hch j) (0x5d :: after T .punct (ch.at (j + 1)) (pPunct ⟨T, ch⟩ k 0x7b R))
    have hA2 := after_skip (T := T) hC .punct (ch.at (j + 1)) (slot_ok hch (j + 1)) (pPunct ⟨T, ch⟩ k 0x7b R)
    refine ⟨{ x0 with graph := some (envOf st).fresh.1 }, hxs, rfl, ?_⟩
    have s2 := Steps.fol hT2 hC (f := ⟨x0, .graphAnonClose⟩) (s := S)
      (env := envOf st) hA1 (follows_solid hT2 hC (solid_delim (by decide) (by decide)) (by decide) _)
      (fn_graphAnonClose _ _ _) (by simpa using hW _ _ _ hA2)
    have s1 := Steps.tok hT2 hC (f := ⟨x0, .graphLabel⟩) (s := S) (env := envOf st) hin
      (show pLabel ⟨T, ch⟩ j (some .anon) (pPunct ⟨T, ch⟩ k 0x7b R) =
        0x5b :: after T .punct (ch.at j) (0x5d :: after T .punct (ch.at (j + 1)) (pPunct ⟨T, ch⟩ k 0x7b R)) by simp [pLabel, pPunct])
      (solid_delim (by decide) (by decide)) (by decide) (fn_graphLabel_bracket x0 (envOf st) _) (by simpa using s2)
    simpa [envOf_fresh] using s1

/-! ### blocks and documents -/

/-- what the block lemma needs -/
def BlockFit (T : Tables) (C : Cfg) (ch : Choices) : Block → Prop
  | .dir d => dirWf T d = true
  | .triples t => SubjTopGood T C ch t.s ∧ (t.pos ≠ [] ∨ subjIsBnpl t.s = true) ∧ ∀ po ∈ t.pos, POFit T C ch po
  | .graph kw g body =>
    C.trig = true ∧ (match g with | none => kw = false | some l => glabelWf T l = true) ∧ ∀ t ∈ body, TriplesFit T C ch t

include hT hT2 hC hch in
theorem block_good (b : Block) (hfit : BlockFit T C ch b) (i : Nat) (x0 : Ectx) (s : List Frame) (inp rest : List Nat)
    (st st' : DState) (qs : List QuadB) (hxs : x0.subj = none) (hxg : x0.graph = none)
    (hd : dBlock C.resolve st b = some (qs, st')) (hin : SkEq C inp (pBlock ⟨T, ch⟩ i b rest)) :
    ∃ inp' s', SkEq C inp' rest ∧
      Steps C .eof ⟨⟨x0, .statement⟩ :: s, inp, envOf st⟩ (qs.map toStmt) ⟨⟨x0, .statement⟩ :: s', inp', envOf st'⟩ := by
  cases b with
  | dir d =>
    simp only [dBlock, Option.map_eq_some_iff] at hd
    obtain ⟨st2, hd2, heq⟩ := hd
    simp only [Prod.mk.injEq] at heq
    obtain ⟨rfl, rfl⟩ := heq
    obtain ⟨inp', he, st1⟩ := dir_good hT hT2 hC hch d hfit i x0 s inp rest st st2 hd2 (by simpa [pBlock] using hin)
    exact ⟨inp', _, he, by simpa using st1⟩
  | triples t =>
    obtain ⟨h1, h2, h3⟩ := hfit
    obtain ⟨inp', he, st1⟩ := statementGood hT hT2 hC hch t h1 h2 h3 i x0 s inp rest st st' qs hxs hxg
      (by simpa [dBlock] using hd) (by simpa [pBlock] using hin)
    exact ⟨inp', s, he, st1⟩
  | graph kw g body =>
    obtain ⟨htr, hg, hbody⟩ := hfit
    simp only [dBlock] at hd
    cases hdl : dLabel C.resolve st g with
    | none => simp [hdl] at hd
    | some res =>
      obtain ⟨gt, st1⟩ := res
      simp only [hdl] at hd
      let jb := i + 2 + labelSlots g
      let kc := i + 2 + labelSlots g + bodySlots body
      cases g with
      | none =>
        simp only at hg
        subst hg
        simp only [dLabel, Option.some.injEq, Prod.mk.injEq] at hdl
        obtain ⟨rfl, rfl⟩ := hdl
        obtain ⟨inp', he, s2⟩ := graph_tail hT hT2 hC hch body hbody jb kc x0 none (⟨x0, .statement⟩ :: s)
          (after T .punct (ch.at (i + 1)) (pBody ⟨T, ch⟩ jb body (pPunct ⟨T, ch⟩ kc 0x7d rest))) rest st st' qs hxs (by simpa using hxg) hd
          (after_skip (T := T) hC .punct (ch.at (i + 1)) (slot_ok hch _) _)
        refine ⟨inp', s, he, ?_⟩
        have s1 := Steps.tok hT2 hC (f := ⟨x0, .statement⟩) (s := s) (env := envOf st) hin
          (show pBlock ⟨T, ch⟩ i (.graph false none body) rest =
            0x7b :: after T .punct (ch.at (i + 1)) (pBody ⟨T, ch⟩ jb body (pPunct ⟨T, ch⟩ kc 0x7d rest)) by
            simp [pBlock, pLabel, pPunct, labelSlots, jb, kc])
          (solid_delim (by decide) (by decide)) (by decide) (fn_statement_trig_brace htr x0 (envOf st) _) (by simpa using s2)
        simpa using s1
      | some lab =>
        simp only at hg
        have hopen : pLabel ⟨T, ch⟩ (i + 1) (some lab) (pPunct ⟨T, ch⟩ (i + 1 + labelSlots (some lab)) 0x7b
            (pBody ⟨T, ch⟩ jb body (pPunct ⟨T, ch⟩ kc 0x7d rest))) =
            pLabel ⟨T, ch⟩ (i + 1) (some lab) (pPunct ⟨T, ch⟩ (i + 1 + labelSlots (some lab)) 0x7b
            (pBody ⟨T, ch⟩ jb body (pPunct ⟨T, ch⟩ kc 0x7d rest))) := rfl
        cases kw with
        | false =>
          obtain ⟨xg, hgs, hgg, s1⟩ := label_top hT hT2 hC hch htr lab hg (i + 1) (i + 1 + labelSlots (some lab)) x0 s inp
            (pBody ⟨T, ch⟩ jb body (pPunct ⟨T, ch⟩ kc 0x7d rest)) st st1 gt hxs hdl (by simpa [pBlock, jb, kc] using hin)
          obtain ⟨inp', he, s2⟩ := graph_tail hT hT2 hC hch body hbody jb kc xg gt (⟨x0, .statement⟩ :: s) _ rest st1 st' qs hgs hgg hd
            (after_skip (T := T) hC .punct (ch.at (i + 1 + labelSlots (some lab))) (slot_ok hch _) _)
          exact ⟨inp', s, he, by simpa using s1.trans s2⟩
        | true =>
          rcases afterKw_form (T := T) hC false (ch.at i) (slot_ok hch i) (pLabel ⟨T, ch⟩ (i + 1) (some lab)
              (pPunct ⟨T, ch⟩ (i + 1 + labelSlots (some lab)) 0x7b (pBody ⟨T, ch⟩ jb body (pPunct ⟨T, ch⟩ kc 0x7d rest))))
            with ⟨w, tl, hform, hw, hsk⟩ | ⟨hlt, _⟩
          · obtain ⟨xg, hgs, hgg, s2⟩ := label_kw hT hT2 hC hch lab hg (i + 1) (i + 1 + labelSlots (some lab)) x0
              (⟨x0, .statement⟩ :: s) tl (pBody ⟨T, ch⟩ jb body (pPunct ⟨T, ch⟩ kc 0x7d rest)) st st1 gt hxs hdl hsk
            obtain ⟨inp', he, s3⟩ := graph_tail hT hT2 hC hch body hbody jb kc xg gt (⟨x0, .statement⟩ :: s) _ rest st1 st' qs hgs hgg hd
              (after_skip (T := T) hC .punct (ch.at (i + 1 + labelSlots (some lab))) (slot_ok hch _) _)
            refine ⟨inp', s, he, ?_⟩
            obtain ⟨k0, ktl, hk⟩ : ∃ k0 ktl, kwCase (ch.at i).n (asc "GRAPH") ++ w :: tl = k0 :: ktl := by
              rw [asc_GRAPH]; simp [kwCase]
            have hk0 : isAlpha k0 = true := by
              rw [asc_GRAPH] at hk
              simp only [kwCase, List.cons_append, List.cons.injEq] at hk
              rw [← hk.1]; by_cases hn : (ch.at i).n % 2 = 1 <;> simp [hn] <;> decide
            have s1 := Steps.tok hT2 hC (f := ⟨x0, .statement⟩) (s := s) (env := envOf st) hin
              (show pBlock ⟨T, ch⟩ i (.graph true (some lab) body) rest = k0 :: ktl by
                rw [← hk, ← hform]; simp [pBlock, jb, kc])
              (solid_pn (pnB_pn hT2 (hT2.alpha k0 hk0)) (by simp [isAlpha, NQ.isAlpha] at hk0; omega)) (fun hh => by subst hh; simp [isAlpha, NQ.isAlpha] at hk0)
              (fn_statement_GRAPH hC htr x0 (envOf st) _ w tl hw k0 ktl hk) (by simpa using s2.trans s3)
            simpa using s1
          · cases hlt

theorem stepConf_end {C : Cfg} (x : Ectx) (s : List Frame) (inp : List Nat) (env : Env)
    (h : skipWs C .eof false inp = .end_) :
    stepConf C .eof ⟨⟨x, .statement⟩ :: s, inp, env⟩ = some (⟨[], [], env⟩, none) := by
  simp [stepConf, scanFn, h, stepFn]

include hT hT2 hC hch in
theorem doc_good (doc : Doc) (hfit : ∀ b ∈ doc, BlockFit T C ch b) : ∀ (i : Nat) (x0 : Ectx) (s : List Frame) (inp : List Nat)
    (st st' : DState) (qs : List QuadB), x0.subj = none → x0.graph = none →
    dDoc C.resolve st doc = some (qs, st') → SkEq C inp (pBlocks ⟨T, ch⟩ i doc []) →
    Steps C .eof ⟨⟨x0, .statement⟩ :: s, inp, envOf st⟩ (qs.map toStmt) ⟨[], [], envOf st'⟩ := by
  induction doc with
  | nil =>
    intro i x0 s inp st st' qs _ _ hd hin
    simp only [dDoc, Option.some.injEq, Prod.mk.injEq] at hd
    obtain ⟨rfl, rfl⟩ := hd
    have : skipWs C .eof false inp = .end_ := by
      have : skipWs C .eof false inp = skipWs C .eof false [] := by simpa [pBlocks, SkEq] using hin
      rw [this]; rfl
    exact Steps.quiet (stepConf_end x0 s inp _ this) (Steps.refl _)
  | cons b bs ih =>
    intro i x0 s inp st st' qs hxs hxg hd hin
    simp only [dDoc] at hd
    cases hdb : dBlock C.resolve st b with
    | none => simp [hdb] at hd
    | some res =>
      obtain ⟨qs1, st1⟩ := res
      simp only [hdb] at hd
      cases hdr : dDoc C.resolve st1 bs with
      | none => simp [hdr] at hd
      | some res2 =>
        obtain ⟨qs2, st2⟩ := res2
        simp only [hdr, Option.some.injEq, Prod.mk.injEq] at hd
        obtain ⟨rfl, rfl⟩ := hd
        obtain ⟨inp1, s', he1, s1⟩ := block_good hT hT2 hC hch b (hfit b List.mem_cons_self) i x0 s inp _ st st1 qs1 hxs hxg hdb
          (by simpa [pBlocks] using hin)
        have s2 := ih (fun b2 hb2 => hfit b2 (List.mem_cons_of_mem _ hb2)) (i + blockSlots b) x0 s' inp1 st1 st2 qs2 hxs hxg hdr he1
        simpa using s1.trans s2

include hT hT2 hC hch in
/-- blocks of well-formed documents of the nesting-free fragment are fit -/
theorem blockFit_flat (b : Block) (hwf : blockWf T C.trig b = true) (hfl : blockFlat b = true) (hnb : blockNoBoolPfx b = true) :
    BlockFit T C ch b := by
  have htr : ∀ t, triplesWf T t = true → triplesFlat t = true → triplesNoBoolPfx t = true →
      subjWf T t.s = true ∧ subjFlat t.s = true ∧ t.pos ≠ [] ∧ ∀ po ∈ t.pos, POFit T C ch po := by
    intro t h1 h2 h3
    simp only [triplesWf, Bool.and_eq_true, Bool.or_eq_true, Bool.not_eq_true', List.isEmpty_eq_false_iff] at h1
    simp only [triplesFlat, Bool.and_eq_true] at h2
    simp only [triplesNoBoolPfx, Bool.and_eq_true] at h3
    refine ⟨h1.1.1, h2.1, ?_, poFit_flat hT hT2 hC hch t.pos h1.1.2 h2.2 h3.2⟩
    rcases h1.2 with h | h
    · exact h
    · exfalso
      cases hs : t.s <;> simp [hs, subjIsBnpl, subjFlat] at h h2
  cases b with
  | dir d => simpa [BlockFit, blockWf] using hwf
  | triples t =>
    obtain ⟨a, b', c, d⟩ := htr t (by simpa [blockWf] using hwf) (by simpa [blockFlat] using hfl) (by simpa [blockNoBoolPfx] using hnb)
    exact ⟨subjTop_flat hT hT2 hC hch t.s a b', Or.inl c, d⟩
  | graph kw g body =>
    simp only [blockWf, Bool.and_eq_true, List.all_eq_true] at hwf
    simp only [blockFlat, List.all_eq_true] at hfl
    simp only [blockNoBoolPfx, List.all_eq_true] at hnb
    refine ⟨hwf.1.1, ?_, ?_⟩
    · cases g with
      | none => simpa using hwf.1.2
      | some l => simpa using hwf.1.2
    · intro t ht
      obtain ⟨a, b', c, d⟩ := htr t (hwf.2 t ht) (hfl t ht) (hnb t ht)
      exact ⟨subjBody_flat hT hT2 hC hch t.s a b', fun i R => pSubj_follows hT2 hC hch t.s a b' i R, Or.inl c, d⟩

end
end RdfModel.C08
