/-
  Proofs for C10D (1): the deserialize-to-RDF model never panics on an expanded tree satisfying
  `ExpOK`; by mutual structural recursion following the definitions of Model/JsonLdToRdf.lean.
-/
import RdfModel.Props.C10DDefs
namespace RdfModel.Proofs.C10D
open RdfModel RdfModel.Desc RdfModel.JLD RdfModel.C10D

theorem andThen_np {r : R} {f : Nat → R} (hr : r ≠ .panic) (hf : ∀ n, f n ≠ .panic) : r.andThen f ≠ .panic := by
  cases r with
  | panic => exact absurd rfl hr
  | err e q => simp [R.andThen]
  | ok q n =>
    have := hf n
    simp only [R.andThen]
    cases h : f n with
    | panic => exact absurd h this
    | err e q => simp
    | ok q n => simp

theorem pre_np {qs : List RQ} {r : R} (hr : r ≠ .panic) : R.pre qs r ≠ .panic := by
  cases r <;> simp_all [R.pre]

theorem ite_np {c : Prop} [Decidable c] {a b : R} (ha : a ≠ .panic) (hb : b ≠ .panic) : (if c then a else b) ≠ .panic := by
  split <;> assumption

theorem wrapList_np {r : R} (hr : r ≠ .panic) : r.wrapList ≠ .panic := by
  cases r <;> simp_all [R.wrapList]

theorem lookup_ok {k : Str} : ∀ {ms : List (Str × Exp)} {v : Exp}, okMembers ms = true → JLD.lookup k ms = some v → ExpOK v = true
  | [], _, _, h => by simp [JLD.lookup] at h
  | (k', v') :: ms, v, hok, h => by
    simp only [okMembers, Bool.and_eq_true] at hok
    simp only [JLD.lookup] at h
    split at h
    · cases h; exact hok.1
    · exact lookup_ok hok.2 h

theorem typeStage_np (g : Option T) (s : T) (ms : List (Str × Exp)) (n : Nat) : typeStage g s ms n ≠ .panic := by
  unfold typeStage
  split
  · simp
  · split <;> simp
  · simp

theorem taggedString_np (cfg : Cfg) (g s : Option T) (p lex : Str) (lang? dir? : Option Str) (n : Nat) :
    taggedString cfg g s p lex lang? dir? n ≠ .panic := by
  unfold taggedString
  simp only []
  repeat' split
  all_goals simp

theorem decodeStringValue_np (cfg : Cfg) (g s : Option T) (p dt0 lex : Str) (atLang atDir : Option Exp) (n : Nat) :
    decodeStringValue cfg g s p dt0 lex atLang atDir n ≠ .panic := by
  unfold decodeStringValue
  simp only []
  repeat' split
  all_goals first
    | exact taggedString_np _ _ _ _ _ _ _ _
    | simp

theorem decodeValuePrim_np (cfg : Cfg) (g s : Option T) (p dt0 : Str) (atLang atDir : Option Exp) (v : PVal) (jt : JText) (n : Nat)
    (h1 : v ≠ .nil) (h2 : jt ≠ .panics) : decodeValuePrim cfg g s p dt0 atLang atDir v jt n ≠ .panic := by
  unfold decodeValuePrim
  simp only []
  split
  · split <;> simp_all
  · split
    · exact decodeStringValue_np _ _ _ _ _ _ _ _ _
    all_goals simp_all

theorem decodeValueNode_np (cfg : Cfg) (g s : Option T) (p : Str) (ms : List (Str × Exp)) (n : Nat)
    (hok : okMembers ms = true) : decodeValueNode cfg g s p ms n ≠ .panic := by
  unfold decodeValueNode
  simp only []
  split
  · simp
  · split
    · simp
    · split
      · rename_i v jt hv
        have := lookup_ok hok hv
        simp only [ExpOK, Bool.and_eq_true, bne_iff_ne, ne_eq] at this
        exact decodeValuePrim_np _ _ _ _ _ _ _ _ _ _ this.1 this.2
      · simp
      · simp

mutual
theorem decodeElement_np (cfg : Cfg) (c : ECtx) : ∀ (e : Exp) (n : Nat), ExpOK e = true → decodeElement cfg c e n ≠ .panic
  | .nil, n, _ => by simp [decodeElement]
  | .arr xs, n, h => by
    rw [decodeElement]; exact decodeItems_np cfg c xs n (by simpa [ExpOK] using h)
  | .prim _ _, n, _ => by simp [decodeElement]
  | .obj ms, n, h => by
    have hms : okMembers ms = true := by simpa [ExpOK] using h
    rw [decodeElement]
    split
    · exact decodeValueNode_np cfg _ _ _ ms n hms
    · split
      · exact findList_np cfg c ms n hms
      · split
        · simp
        · simp
        · apply pre_np
          apply andThen_np (findReverse_np cfg _ ms _ hms)
          intro n2
          apply andThen_np (typeStage_np _ _ _ _)
          intro n3
          apply andThen_np (ite_np (findKeyArr_np cfg _ _ ms _ hms) (by simp))
          intro n4
          apply andThen_np (findKeyArr_np cfg _ _ ms _ hms)
          intro n5
          exact members_np cfg _ ms _ hms

theorem decodeItems_np (cfg : Cfg) (c : ECtx) : ∀ (xs : List Exp) (n : Nat), okList xs = true → decodeItems cfg c xs n ≠ .panic
  | [], n, _ => by simp [decodeItems]
  | x :: xs, n, h => by
    simp only [okList, Bool.and_eq_true] at h
    rw [decodeItems]
    exact andThen_np (decodeElement_np cfg c x n h.1) (fun n1 => decodeItems_np cfg c xs n1 h.2)

theorem findList_np (cfg : Cfg) (c : ECtx) : ∀ (ms : List (Str × Exp)) (n : Nat), okMembers ms = true → findList cfg c ms n ≠ .panic
  | [], n, _ => by simp [findList]
  | (k, v) :: rest, n, h => by
    simp only [okMembers, Bool.and_eq_true] at h
    have ih := findList_np cfg c rest n h.2
    by_cases hk : k = kList
    · cases v with
      | arr xs =>
        cases xs with
        | nil => rw [findList, if_pos hk]; split <;> simp
        | cons x xs =>
          have hx : okList (x :: xs) = true := by simpa [ExpOK] using h.1
          rw [findList, if_pos hk]
          exact pre_np (listCells_np cfg c _ true (x :: xs) _ hx)
      | nil => rw [findList, if_pos hk] <;> simp
      | obj _ => rw [findList, if_pos hk] <;> simp
      | prim _ _ => rw [findList, if_pos hk] <;> simp
    · cases v with
      | arr xs =>
        cases xs with
        | nil => rw [findList, if_neg hk] <;> first | exact ih | simp
        | cons x xs => rw [findList, if_neg hk] <;> first | exact ih | simp
      | nil => rw [findList, if_neg hk] <;> first | exact ih | simp
      | obj _ => rw [findList, if_neg hk] <;> first | exact ih | simp
      | prim _ _ => rw [findList, if_neg hk] <;> first | exact ih | simp

theorem listCells_np (cfg : Cfg) (c : ECtx) (cell : T) (first : Bool) : ∀ (xs : List Exp) (n : Nat), okList xs = true →
    JLD.listCells cfg c cell first xs n ≠ .panic
  | [], n, _ => by rw [JLD.listCells]; split <;> simp
  | x :: xs, n, h => by
    simp only [okList, Bool.and_eq_true] at h
    rw [JLD.listCells]
    split
    · exact pre_np (andThen_np (wrapList_np (decodeElement_np cfg _ x _ h.1)) (fun n1 => listCells_np cfg c _ false xs n1 h.2))
    · exact andThen_np (wrapList_np (decodeElement_np cfg _ x _ h.1)) (fun n1 => listCells_np cfg c _ false xs n1 h.2)

theorem findKeyArr_np (cfg : Cfg) (c : ECtx) (key : Str) : ∀ (ms : List (Str × Exp)) (n : Nat), okMembers ms = true →
    findKeyArr cfg c key ms n ≠ .panic
  | [], n, _ => by simp [findKeyArr]
  | (k, v) :: rest, n, h => by
    simp only [okMembers, Bool.and_eq_true] at h
    have ih := findKeyArr_np cfg c key rest n h.2
    by_cases hk : k = key
    · cases v with
      | arr xs =>
        rw [findKeyArr, if_pos hk]
        exact decodeItems_np cfg c xs n (by simpa [ExpOK] using h.1)
      | nil => rw [findKeyArr, if_pos hk] <;> simp
      | obj _ => rw [findKeyArr, if_pos hk] <;> simp
      | prim _ _ => rw [findKeyArr, if_pos hk] <;> simp
    · cases v <;> (rw [findKeyArr, if_neg hk] <;> first | exact ih | simp)

theorem findReverse_np (cfg : Cfg) (c : ECtx) : ∀ (ms : List (Str × Exp)) (n : Nat), okMembers ms = true →
    findReverse cfg c ms n ≠ .panic
  | [], n, _ => by simp [findReverse]
  | (k, v) :: rest, n, h => by
    simp only [okMembers, Bool.and_eq_true] at h
    have ih := findReverse_np cfg c rest n h.2
    by_cases hk : k = kReverse
    · cases v with
      | obj rms =>
        rw [findReverse, if_pos hk]
        exact reverseMembers_np cfg c rms n (by simpa [ExpOK] using h.1)
      | nil => rw [findReverse, if_pos hk] <;> simp
      | arr _ => rw [findReverse, if_pos hk] <;> simp
      | prim _ _ => rw [findReverse, if_pos hk] <;> simp
    · cases v <;> (rw [findReverse, if_neg hk] <;> first | exact ih | simp)

theorem reverseMembers_np (cfg : Cfg) (c : ECtx) : ∀ (ms : List (Str × Exp)) (n : Nat), okMembers ms = true →
    reverseMembers cfg c ms n ≠ .panic
  | [], n, _ => by simp [reverseMembers]
  | (k, v) :: rest, n, h => by
    simp only [okMembers, Bool.and_eq_true] at h
    have ih := fun n1 => reverseMembers_np cfg c rest n1 h.2
    cases v with
    | arr xs =>
      rw [reverseMembers]
      split
      · exact ih n
      · exact andThen_np (decodeItems_np cfg _ xs n (by simpa [ExpOK] using h.1)) ih
    | nil =>
      rw [reverseMembers]
      · split
        · exact ih n
        · exact andThen_np (by simp) ih
      all_goals simp
    | obj _ =>
      rw [reverseMembers]
      · split
        · exact ih n
        · exact andThen_np (by simp) ih
      all_goals simp
    | prim _ _ =>
      rw [reverseMembers]
      · split
        · exact ih n
        · exact andThen_np (by simp) ih
      all_goals simp

theorem members_np (cfg : Cfg) (c : ECtx) : ∀ (ms : List (Str × Exp)) (n : Nat), okMembers ms = true →
    members cfg c ms n ≠ .panic
  | [], n, _ => by simp [members]
  | (k, v) :: rest, n, h => by
    simp only [okMembers, Bool.and_eq_true] at h
    have ih := fun n1 => members_np cfg c rest n1 h.2
    cases v with
    | arr xs =>
      rw [members]
      split
      · exact ih n
      · exact andThen_np (decodeItems_np cfg _ xs n (by simpa [ExpOK] using h.1)) ih
    | nil =>
      rw [members]
      · split
        · exact ih n
        · exact andThen_np (by simp) ih
      all_goals simp
    | obj _ =>
      rw [members]
      · split
        · exact ih n
        · exact andThen_np (by simp) ih
      all_goals simp
    | prim _ _ =>
      rw [members]
      · split
        · exact ih n
        · exact andThen_np (by simp) ih
      all_goals simp
end

end RdfModel.Proofs.C10D
