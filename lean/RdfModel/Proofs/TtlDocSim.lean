/-
  Statement layer of Turtle/TriG: the simulation behind C07 "every Turtle document is TriG".

  `Next`'s loop is cut into single iterations (`iter`), `Reach` is its fuel-free big-step form
  (tied to `nextLoop` in both directions), and `Rel` relates a state of the Turtle run
  (`trig := false`) with a state of the TriG run (`trig := true`) on the same input:

    * `main`  same `rsNext`, same environment / statements / error, stacks equal up to the evaluation
              context of `Triples_End` frames (which never look at it), buffers equal up to the white
              space and comments `scan` skips anyway;
    * `tok`   Turtle has pushed `Triples_End` and is about to RE-SCAN the subject token through
              `Triples_Subject_*`; TriG has produced it already and is about to run `E1`;
    * `br`    after `[` in subject position (`Subject_AnonOrBlankNode` vs the `[` closure of trigDoc);
    * `pol`   Turtle runs `PredicateObjectList_Required` where TriG (`triples2`) runs the optional
              `PredicateObjectList` inside a subject `[ … ]`.

  Every Turtle iteration is answered by one or two TriG iterations (stuttering), unless the Turtle
  run is doomed to end with an error (`Doomed`), in which case nothing is claimed.
-/
import RdfModel.Proofs.TtlDocInv
import RdfModel.Proofs.TtlDocFuel
namespace RdfModel.TtlDoc
open RdfModel

/-! ### One iteration of the loop in `Next`, and its fuel-free closure -/

inductive Iter where
  | done (r : NextRes)
  | cont (cur : Option Frame) (st : St)

def iter (C : Cfg) (e : End) (cur : Option Frame) (st : St) : Iter :=
  if st.err.isSome then .done (.no st)
  else if !st.stmts.isEmpty then .done (.yes (pushCur cur st))
  else
    match popFrame cur st with
    | none => .done (.no st)
    | some (f, st1) =>
      match scan C e f st1 with
      | .panic => .done .panic
      | .err k => .cont none { st1 with err := some k }
      | .ok cur' st2 => .cont cur' st2

theorem nextLoop_succ (C : Cfg) (e : End) (n : Nat) (cur : Option Frame) (st : St) :
    nextLoop C e (n + 1) cur st =
      match iter C e cur st with
      | .done r => r
      | .cont c s => nextLoop C e n c s := by
  rw [nextLoop]
  unfold iter
  split
  · rfl
  · split
    · rfl
    · cases popFrame cur st with
      | none => rfl
      | some p =>
        obtain ⟨f, st1⟩ := p
        simp only []
        cases scan C e f st1 <;> rfl

inductive Reach (C : Cfg) (e : End) : Option Frame → St → NextRes → Prop where
  | done {cur st r} : iter C e cur st = .done r → Reach C e cur st r
  | step {cur st c s r} : iter C e cur st = .cont c s → Reach C e c s r → Reach C e cur st r

theorem reach_of_nextLoop (C : Cfg) (e : End) : ∀ n cur st, nextLoop C e n cur st ≠ .outOfFuel →
    Reach C e cur st (nextLoop C e n cur st) := by
  intro n
  induction n with
  | zero => intro cur st h; simp [nextLoop] at h
  | succ n ih =>
    intro cur st h
    rw [nextLoop_succ] at h ⊢
    cases hi : iter C e cur st with
    | done r => simp only []; exact .done hi
    | cont c s => simp only [hi] at h ⊢; exact .step hi (ih c s h)

theorem nextLoop_of_reach {C : Cfg} {e : End} {cur : Option Frame} {st : St} {r : NextRes}
    (h : Reach C e cur st r) : ∀ n, nextLoop C e n cur st = r ∨ nextLoop C e n cur st = .outOfFuel := by
  induction h with
  | done hi =>
    intro n
    cases n with
    | zero => right; rfl
    | succ n => left; rw [nextLoop_succ, hi]
  | step hi _ ih =>
    intro n
    cases n with
    | zero => right; rfl
    | succ n => rw [nextLoop_succ, hi]; exact ih n

/-- the answers of `Next` that matter for a clean run: `true`, or `false` without an error -/
def Good : NextRes → Prop
  | .yes _ => True
  | .no s => s.err = none
  | _ => False

/-- from here `Next` can only end with an error (or a panic) -/
def Doomed (C : Cfg) (e : End) (cur : Option Frame) (st : St) : Prop := ∀ r, Reach C e cur st r → ¬ Good r

theorem iter_of_err {C : Cfg} {e : End} {cur : Option Frame} {st : St} (h : st.err.isSome = true) :
    iter C e cur st = .done (.no st) := by
  simp [iter, h]

theorem doomed_err {C : Cfg} {e : End} {cur : Option Frame} {st : St} (h : st.err.isSome = true) :
    Doomed C e cur st := by
  intro r hr hg
  cases hr with
  | done hi =>
    rw [iter_of_err h] at hi
    injection hi with hi; subst hi
    simp [Good] at hg; simp [hg] at h
  | step hi _ => rw [iter_of_err h] at hi; cases hi

theorem doomed_step {C : Cfg} {e : End} {cur : Option Frame} {st : St} {c : Option Frame} {s : St}
    (hi : iter C e cur st = .cont c s) (hd : Doomed C e c s) : Doomed C e cur st := by
  intro r hr
  cases hr with
  | done hi' => rw [hi] at hi'; cases hi'
  | step hi' hr' =>
    rw [hi] at hi'
    injection hi' with h1 h2; subst h1; subst h2
    exact hd r hr'

theorem doomed_panic {C : Cfg} {e : End} {cur : Option Frame} {st : St}
    (hi : iter C e cur st = .done .panic) : Doomed C e cur st := by
  intro r hr
  cases hr with
  | done hi' => rw [hi] at hi'; injection hi' with h; subst h; simp [Good]
  | step hi' _ => rw [hi] at hi'; cases hi'

/-- `iter` when `rsNext` is set: that scan function runs -/
theorem iter_cur (C : Cfg) (e : End) (f : Frame) {st : St} (herr : st.err = none) (hs : st.stmts = []) :
    iter C e (some f) st =
      match scanFn C e f st.inp st.env with
      | .panic => .done .panic
      | .err k => .cont none { st with err := some k }
      | .ok o => .cont o.cur (applyOut st o) := by
  simp only [iter, herr, hs, popFrame, scan]
  cases scanFn C e f st.inp st.env <;> simp

theorem iter_pop (C : Cfg) (e : End) {cur : Option Frame} {st : St} {f : Frame} {st1 : St}
    (herr : st.err = none) (hs : st.stmts = []) (hp : popFrame cur st = some (f, st1)) :
    iter C e cur st =
      match scanFn C e f st1.inp st1.env with
      | .panic => .done .panic
      | .err k => .cont none { st1 with err := some k }
      | .ok o => .cont o.cur (applyOut st1 o) := by
  simp only [iter, herr, hs, hp, scan]
  cases scanFn C e f st1.inp st1.env <;> simp

theorem doomed_of_scan_err {C : Cfg} {e : End} {f : Frame} {st : St} {k : EClass}
    (herr : st.err = none) (hs : st.stmts = []) (h : scanFn C e f st.inp st.env = .err k) :
    Doomed C e (some f) st := by
  refine doomed_step (c := none) (s := { st with err := some k }) ?_ (doomed_err rfl)
  rw [iter_cur C e f herr hs, h]

/-! ### The package flag -/

theorem skipWs_flag (C : Cfg) (b : Bool) (e : End) : ∀ bb i, skipWs { C with trig := b } e bb i = skipWs C e bb i := by
  intro bb i
  induction i generalizing bb with
  | nil => cases bb <;> rfl
  | cons c r ih =>
    cases bb
    · simp only [skipWs, isWs, ih]; rfl
    · simp only [skipWs, ih]

/-- Outside the top-level scan function the package flag is irrelevant. -/
theorem stepFn_flag (C : Cfg) (b : Bool) (e : End) (k : Cont) (x : Ectx) (env : Env) (a : Arg)
    (hk : k ≠ .statement) : stepFn { C with trig := b } e k x env a = stepFn C e k x env a := by
  cases k <;> first | rfl | exact absurd rfl hk

theorem scanFn_flag (C : Cfg) (b : Bool) (e : End) (f : Frame) (inp : List Nat) (env : Env)
    (hk : f.k ≠ .statement) : scanFn { C with trig := b } e f inp env = scanFn C e f inp env := by
  unfold scanFn
  rw [skipWs_flag]
  split <;> simp [stepFn_flag C b e f.k f.x env _ hk]

/-! ### The relation between the Turtle run and the TriG run -/

/-- frames equal up to the evaluation context of `Triples_End`, which that function never reads -/
def FrameEq (f g : Frame) : Prop := f = g ∨ (f.k = .triplesEnd ∧ g.k = .triplesEnd)

theorem FrameEq.rfl' (f : Frame) : FrameEq f f := Or.inl rfl

inductive StackEq : List Frame → List Frame → Prop where
  | nil : StackEq [] []
  | cons {f g l l'} : FrameEq f g → StackEq l l' → StackEq (f :: l) (g :: l')

theorem forall2_frameEq_refl : ∀ l : List Frame, StackEq l l
  | [] => .nil
  | _ :: l => .cons (Or.inl rfl) (forall2_frameEq_refl l)

theorem StackEq.append_left : ∀ (p : List Frame) {l l' : List Frame}, StackEq l l' → StackEq (p ++ l) (p ++ l')
  | [], _, _, h => h
  | _ :: p, _, _, h => .cons (Or.inl rfl) (StackEq.append_left p h)

structure Main (C : Cfg) (e : End) (s t : St) : Prop where
  env : s.env = t.env
  stmts : s.stmts = t.stmts
  err : s.err = t.err
  stack : StackEq s.stack t.stack
  inp : skipWs C e false s.inp = skipWs C e false t.inp

theorem Main.refl (C : Cfg) (e : End) (s : St) : Main C e s s :=
  ⟨rfl, rfl, rfl, forall2_frameEq_refl _, rfl⟩

theorem stepFn_frameEq (C : Cfg) (e : End) {f g : Frame} (h : FrameEq f g) (hk : f.k ≠ .statement)
    (env : Env) (a : Arg) :
    stepFn { C with trig := false } e f.k f.x env a = stepFn { C with trig := true } e g.k g.x env a := by
  rcases h with rfl | ⟨h1, h2⟩
  · rw [stepFn_flag C false e f.k f.x env a hk, stepFn_flag C true e f.k f.x env a hk]
  · rw [h1, h2]; cases a <;> rfl

theorem scanFn_frameEq (C : Cfg) (e : End) {f g : Frame} (h : FrameEq f g) (hk : f.k ≠ .statement)
    {s t : St} (hm : Main C e s t) :
    scanFn { C with trig := false } e f s.inp s.env = scanFn { C with trig := true } e g t.inp t.env := by
  have h1 := skipWs_flag C false e false s.inp
  have h2 := skipWs_flag C true e false t.inp
  unfold scanFn
  rw [h1, h2, hm.inp, hm.env]
  cases skipWs C e false t.inp <;> simp [stepFn_frameEq C e h hk]

theorem Main.applyOut {C : Cfg} {e : End} {s t : St} (hm : Main C e s t) (o : Out) :
    Main C e (applyOut s o) (applyOut t o) := by
  refine ⟨rfl, ?_, hm.err, ?_, rfl⟩
  · simp [TtlDoc.applyOut, hm.stmts]
  · simp only [TtlDoc.applyOut]
    split
    · exact .nil
    · exact StackEq.append_left _ hm.stack

theorem Main.pop {C : Cfg} {e : End} {s t : St} (hm : Main C e s t) (cur : Option Frame) :
    (popFrame cur s = none → popFrame cur t = none) ∧
    (∀ f s1, popFrame cur s = some (f, s1) →
      ∃ g t1, popFrame cur t = some (g, t1) ∧ FrameEq f g ∧ Main C e s1 t1) := by
  have hst := hm.stack
  cases cur with
  | some f0 =>
    refine ⟨fun h => by simp [popFrame] at h, fun f s1 h => ?_⟩
    simp [popFrame] at h
    obtain ⟨rfl, rfl⟩ := h
    exact ⟨f0, t, rfl, Or.inl rfl, hm⟩
  | none =>
    cases hs : s.stack with
    | nil =>
      cases ht : t.stack with
      | nil => exact ⟨fun _ => by simp [popFrame, ht], fun f s1 h => by simp [popFrame, hs] at h⟩
      | cons b l' => rw [hs, ht] at hst; cases hst
    | cons a l =>
      cases ht : t.stack with
      | nil => rw [hs, ht] at hst; cases hst
      | cons b l' =>
        rw [hs, ht] at hst
        cases hst with
        | cons hab hl =>
        refine ⟨fun h => by simp [popFrame, hs] at h, fun f s1 h => ?_⟩
        simp [popFrame, hs] at h
        obtain ⟨rfl, rfl⟩ := h
        exact ⟨b, { t with stack := l' }, by simp [popFrame, ht], hab, ⟨hm.env, hm.stmts, hm.err, hl, hm.inp⟩⟩

theorem Main.pushCur {C : Cfg} {e : End} {s t : St} (hm : Main C e s t) (cur : Option Frame) :
    Main C e (pushCur cur s) (pushCur cur t) := by
  cases cur with
  | none => exact hm
  | some f => exact ⟨hm.env, hm.stmts, hm.err, .cons (Or.inl rfl) hm.stack, hm.inp⟩

/-- the three subject tokens -/
inductive Kind where
  | iriref | pname | bnode

def Kind.cont : Kind → Cont
  | .iriref => .subjIRIREF
  | .pname => .subjPName
  | .bnode => .subjBNode

def Kind.term (C : Cfg) (e : End) (env : Env) (inp : List Nat) : Kind → TermRes
  | .iriref => termIRIREF C e env inp
  | .pname => termPName C e env inp
  | .bnode => termBNode C e env inp

theorem Kind.term_flag (C : Cfg) (b : Bool) (e : End) (env : Env) (inp : List Nat) (K : Kind) :
    K.term { C with trig := b } e env inp = K.term C e env inp := by
  cases K <;> rfl

theorem Kind.term_cases {C : Cfg} {e : End} (hP : C.P.NoPanic) (env : Env) (inp : List Nat) (K : Kind) :
    (∃ v r env', K.term C e env inp = .ok v r env' ∧ nodeShape v) ∨ (∃ k, K.term C e env inp = .err k) := by
  cases K with
  | iriref =>
    rcases termIRIREF_cases (e := e) hP env inp with ⟨i, r, h⟩ | ⟨k, h⟩
    · exact Or.inl ⟨_, _, _, h, trivial⟩
    · exact Or.inr ⟨k, h⟩
  | pname =>
    rcases termPName_cases (e := e) hP env inp with ⟨i, r, h⟩ | ⟨k, h⟩
    · exact Or.inl ⟨_, _, _, h, trivial⟩
    · exact Or.inr ⟨k, h⟩
  | bnode =>
    rcases termBNode_cases (e := e) hP env inp with ⟨i, r, env', h⟩ | ⟨k, h⟩
    · exact Or.inl ⟨_, _, _, h, trivial⟩
    · exact Or.inr ⟨k, h⟩

theorem Kind.stepFn (C : Cfg) (e : End) (K : Kind) (x : Ectx) (env : Env) (c : Nat) (rest : List Nat) :
    TtlDoc.stepFn C e K.cont x env (.rune c rest) = subjectOf x (K.term C e env (c :: rest)) := by
  cases K <;> rfl

inductive Rel (C : Cfg) (e : End) : Option Frame → St → Option Frame → St → Prop where
  | main {cur s t} : Main C e s t → Rel C e cur s cur t
  | tok {K x c rest v r env' s t S S'} :
      s.stack = ⟨x, .triplesEnd⟩ :: ⟨x, .statement⟩ :: S → s.inp = c :: rest →
      skipWs C e false (c :: rest) = .rune c rest → s.stmts = [] → s.err = none →
      Kind.term C e s.env (c :: rest) K = .ok v r env' → nodeShape v →
      t.stack = ⟨x, .statement⟩ :: S' → t.inp = r → t.env = env' → t.stmts = [] → t.err = none →
      StackEq S S' →
      Rel C e (some ⟨x, K.cont⟩) s (some ⟨x, .tgE1 v⟩) t
  | br {x bn s t} : nodeShape bn → s.stmts = [] → s.err = none → Main C e s t →
      Rel C e (some ⟨{ x with subj := some bn }, .subjAnonOrBNPL⟩) s (some ⟨x, .tgBracket bn⟩) t
  | pol {x s t} : s.stmts = [] → s.err = none → Main C e s t →
      Rel C e (some ⟨x, .polRequired⟩) s (some ⟨x, .pol⟩) t

def ResRel (C : Cfg) (e : End) : NextRes → NextRes → Prop
  | .yes s', .yes t' => Main C e s' t'
  | .no _, .no t' => t'.err = none
  | _, _ => False

/-! ### What the Turtle decoder must refuse for the inclusion to hold -/

/-- the runes after a `G`/`g` make TriG read the keyword `GRAPH` (or fail inside it) -/
def graphKwHit (C : Cfg) (rest : List Nat) : Bool :=
  match matchKw (kwCI "RAPH") rest with
  | .eoi => true
  | .mismatch => false
  | .ok [] => true
  | .ok (r6 :: _) => C.isSpace r6

/-- Where the two top-level functions branch apart, the Turtle side must not find a subject:
    `{` starts no prefixed name, and `GRAPH` + white space is no prefix label.  The second clause
    FAILS for Go's `unicode.IsSpace` (finding C07-graph-ogham: U+1680 is a PN_CHARS rune). -/
structure KwSafe (C : Cfg) : Prop where
  brace : C.pnBase 0x7b = false
  graph : ∀ e c rest, (c = 0x47 ∨ c = 0x67) → graphKwHit C rest = true → ∃ k, C.P.pname e (c :: rest) = .err k

/-! ### The two top-level functions side by side -/

/-- Turtle's answer to a subject token: push `Triples_End`, hand the *unread* input to `Triples_Subject_*` -/
def tokOut (x : Ectx) (K : Kind) (inp : List Nat) (env : Env) : FnRes :=
  .ok { cur := some ⟨x, K.cont⟩, push := [⟨x, .triplesEnd⟩], inp := inp, env := env }

/-- How `reader_scanStatement` (A) and `reader_scan_trigDoc` (B) answer the same rune. -/
def StmtCases (C : Cfg) (e : End) (x : Ectx) (env : Env) (c : Nat) (rest : List Nat) (A B : FnRes) : Prop :=
  A = B ∨ (∃ k, A = .err k) ∨
  (∃ K, A = tokOut x K (c :: rest) env ∧
    (B = labelOrSubject x (Kind.term C e env (c :: rest) K) ∨ ∃ k, Kind.term C e env (c :: rest) K = .err k)) ∨
  (A = .ok { cur := some ⟨{ x with subj := some env.fresh.1 }, .subjAnonOrBNPL⟩, inp := rest, env := env.fresh.2 } ∧
   B = .ok { cur := some ⟨x, .tgBracket env.fresh.1⟩, inp := rest, env := env.fresh.2 })

variable {C : Cfg} {e : End}

theorem kwFallback_cases (x : Ectx) (env : Env) (c : Nat) (rest : List Nat) :
    StmtCases C e x env c rest (kwFallback { C with trig := false } e x env (c :: rest))
      (kwFallback { C with trig := true } e x env (c :: rest)) :=
  Or.inr (Or.inr (Or.inl ⟨.pname, rfl, Or.inl rfl⟩))

theorem kwBase_cases (x : Ectx) (env : Env) (c : Nat) (rest : List Nat) :
    StmtCases C e x env c rest (stepKwBase { C with trig := false } e x env c rest)
      (stepKwBase { C with trig := true } e x env c rest) := by
  cases hm : matchKw (kwCI "ASE") rest with
  | eoi => simp only [stepKwBase, hm]; exact Or.inl rfl
  | mismatch => simp only [stepKwBase, hm]; exact kwFallback_cases x env c rest
  | ok r =>
    cases r with
    | nil => simp only [stepKwBase, hm]; exact Or.inl rfl
    | cons r4 rest4 =>
      simp only [stepKwBase, hm]
      by_cases h1 : r4 = 0x3c
      · simp only [h1, if_true]; exact Or.inl rfl
      · simp only [h1, if_false]
        cases h2 : C.isSpace r4 with
        | true => simp only [Bool.not_true, Bool.false_eq_true, if_false]; exact Or.inl rfl
        | false => simp only [Bool.not_false, if_true]; exact kwFallback_cases x env c rest

theorem kwSpace_cases (x : Ectx) (env : Env) (kw : List (Nat × Nat)) (k : Cont) (c : Nat) (rest : List Nat) :
    StmtCases C e x env c rest (stepKwSpace { C with trig := false } e x env kw k c rest)
      (stepKwSpace { C with trig := true } e x env kw k c rest) := by
  cases hm : matchKw kw rest with
  | eoi => simp only [stepKwSpace, hm]; exact Or.inl rfl
  | mismatch => simp only [stepKwSpace, hm]; exact kwFallback_cases x env c rest
  | ok r =>
    cases r with
    | nil => simp only [stepKwSpace, hm]; exact Or.inl rfl
    | cons r6 rest6 =>
      simp only [stepKwSpace, hm]
      cases h2 : C.isSpace r6 with
      | true => simp only [Bool.not_true, Bool.false_eq_true, if_false]; exact Or.inl rfl
      | false => simp only [Bool.not_false, if_true]; exact kwFallback_cases x env c rest

theorem subjStart_cases (x : Ectx) (env : Env) (c : Nat) (rest : List Nat) :
    StmtCases C e x env c rest (stepSubjectStart { C with trig := false } e x env c rest)
      (stepSubjectStart { C with trig := true } e x env c rest) := by
  unfold stepSubjectStart
  by_cases h1 : c = 0x3c
  · simp only [h1, if_true]
    exact Or.inr (Or.inr (Or.inl ⟨.iriref, rfl, Or.inl rfl⟩))
  · simp only [h1, if_false]
    by_cases h2 : c = 0x5f
    · simp only [h2, if_true]
      exact Or.inr (Or.inr (Or.inl ⟨.bnode, rfl, Or.inl rfl⟩))
    · simp only [h2, if_false]
      by_cases h3 : c = 0x5b
      · simp only [h3, if_true]
        exact Or.inr (Or.inr (Or.inr ⟨rfl, rfl⟩))
      · simp only [h3, if_false]
        by_cases h4 : c = 0x28
        · simp only [h4, if_true]; exact Or.inl rfl
        · simp only [h4, if_false]
          by_cases h5 : c = 0x3a ∨ C.pnBase c = true
          · simp only [h5, if_true]
            exact Or.inr (Or.inr (Or.inl ⟨.pname, rfl, Or.inl rfl⟩))
          · simp only [h5, if_false]; exact Or.inl rfl

/-- a letter in subject position -/
theorem subjStart_letter (b : Bool) (x : Ectx) (env : Env) (c : Nat) (rest : List Nat)
    (h1 : c ≠ 0x3c) (h2 : c ≠ 0x5f) (h3 : c ≠ 0x5b) (h4 : c ≠ 0x28) :
    stepSubjectStart { C with trig := b } e x env c rest =
      if c = 0x3a ∨ C.pnBase c = true then
        (if b then labelOrSubject x (Kind.term C e env (c :: rest) .pname) else tokOut x .pname (c :: rest) env)
      else .err .syntax := by
  unfold stepSubjectStart
  simp only [h1, h2, h3, h4, if_false]
  cases b <;> rfl

theorem termPName_err {e : End} {env : Env} {inp : List Nat} {k : NQ.EClass} (h : C.P.pname e inp = .err k) :
    Kind.term C e env inp .pname = .err (ofTok k) := by
  simp [Kind.term, termPName, iriPName, h, IriRes.toTerm]

theorem graph_cases (hK : KwSafe C) (x : Ectx) (env : Env) (c : Nat) (rest : List Nat) (hc : c = 0x47 ∨ c = 0x67) :
    StmtCases C e x env c rest (stepSubjectStart { C with trig := false } e x env c rest)
      (stepKwSpace { C with trig := true } e x env (kwCI "RAPH") .graphLabel c rest) := by
  have hA := subjStart_letter (C := C) (e := e) false x env c rest (by omega) (by omega) (by omega) (by omega)
  have hB := subjStart_letter (C := C) (e := e) true x env c rest (by omega) (by omega) (by omega) (by omega)
  rw [hA]
  -- TriG falls back to the prefixed name: same as the letter branch
  have hfall : StmtCases C e x env c rest
      (if c = 0x3a ∨ C.pnBase c = true then
        (if false then labelOrSubject x (Kind.term C e env (c :: rest) .pname) else tokOut x .pname (c :: rest) env)
      else .err .syntax) (kwFallback { C with trig := true } e x env (c :: rest)) := by
    by_cases h5 : c = 0x3a ∨ C.pnBase c = true
    · simp only [h5, if_true]
      exact Or.inr (Or.inr (Or.inl ⟨.pname, rfl, Or.inl rfl⟩))
    · simp only [h5, if_false]; exact Or.inr (Or.inl ⟨_, rfl⟩)
  -- TriG reads the keyword: Turtle must fail on the name
  have hhit : graphKwHit C rest = true → StmtCases C e x env c rest
      (if c = 0x3a ∨ C.pnBase c = true then
        (if false then labelOrSubject x (Kind.term C e env (c :: rest) .pname) else tokOut x .pname (c :: rest) env)
      else .err .syntax) (stepKwSpace { C with trig := true } e x env (kwCI "RAPH") .graphLabel c rest) := by
    intro hh
    obtain ⟨k, hk⟩ := hK.graph e c rest hc hh
    by_cases h5 : c = 0x3a ∨ C.pnBase c = true
    · simp only [h5, if_true]
      exact Or.inr (Or.inr (Or.inl ⟨.pname, rfl, Or.inr ⟨_, termPName_err hk⟩⟩))
    · simp only [h5, if_false]; exact Or.inr (Or.inl ⟨_, rfl⟩)
  cases hm : matchKw (kwCI "RAPH") rest with
  | eoi => exact hhit (by simp [graphKwHit, hm])
  | mismatch => simp only [stepKwSpace, hm]; exact hfall
  | ok r =>
    cases r with
    | nil => exact hhit (by simp [graphKwHit, hm])
    | cons r6 rest6 =>
      cases h2 : C.isSpace r6 with
      | true => exact hhit (by simp [graphKwHit, hm, h2])
      | false =>
        simp only [stepKwSpace, hm, h2, Bool.not_false, if_true]; exact hfall

theorem stmt_cases (hK : KwSafe C) (x : Ectx) (env : Env) (c : Nat) (rest : List Nat) :
    StmtCases C e x env c rest (stepStatementRune { C with trig := false } e x env c rest)
      (stepStatementRune { C with trig := true } e x env c rest) := by
  unfold stepStatementRune
  by_cases h1 : c = 0x40
  · simp only [h1, if_true]; exact Or.inl rfl
  · simp only [h1, if_false]
    by_cases h2 : c = 0x42 ∨ c = 0x62
    · simp only [h2, if_true]; exact kwBase_cases x env c rest
    · simp only [h2, if_false]
      by_cases h3 : c = 0x50 ∨ c = 0x70
      · simp only [h3, if_true]; exact kwSpace_cases x env _ _ c rest
      · simp only [h3, if_false]
        simp only [Bool.false_eq_true, false_and, if_false, true_and]
        by_cases h4 : c = 0x47 ∨ c = 0x67
        · simp only [h4, if_true]; exact graph_cases hK x env c rest h4
        · simp only [h4, if_false]
          by_cases h5 : c = 0x7b
          · simp only [h5, if_true]
            refine Or.inr (Or.inl ⟨.syntax, ?_⟩)
            have := subjStart_letter (C := C) (e := e) false x env 0x7b rest (by omega) (by omega) (by omega) (by omega)
            rw [this]
            simp [hK.brace]
          · simp only [h5, if_false]; exact subjStart_cases x env c rest

/-! ### Single iterations under the relation -/

theorem Main.applyOut2 {s t : St} (hm : Main C e s t) {o o' : Out} (hp : o.push = o'.push) (hi : o.inp = o'.inp)
    (hv : o.env = o'.env) (he : o.emit = o'.emit) (ht : o.term = o'.term) :
    Main C e (TtlDoc.applyOut s o) (TtlDoc.applyOut t o') := by
  refine ⟨hv, ?_, hm.err, ?_, by simp [TtlDoc.applyOut, hi]⟩
  · simp [TtlDoc.applyOut, hm.stmts, he]
  · simp only [TtlDoc.applyOut, hp, ht]
    split
    · exact .nil
    · exact StackEq.append_left _ hm.stack

theorem iter_cont_inv {C : Cfg} {e : End} {cur : Option Frame} {st : St} {c : Option Frame} {s : St}
    (h : iter C e cur st = .cont c s) :
    st.err = none ∧ st.stmts = [] ∧ ∃ f st1, popFrame cur st = some (f, st1) := by
  unfold iter at h
  split at h
  · cases h
  · next h1 =>
    split at h
    · cases h
    · next h2 =>
      refine ⟨by cases hh : st.err <;> simp_all, isEmpty_false_of h2, ?_⟩
      cases hp : popFrame cur st with
      | none => simp [hp] at h
      | some p => exact ⟨p.1, p.2, rfl⟩

theorem polRequired_bad (hK : KwSafe C) (b : Bool) (x : Ectx) (inp : List Nat) (env : Env)
    (h : ∀ c r, skipWs C e false inp = .rune c r → c = 0x7b) :
    ∃ k, scanFn { C with trig := b } e ⟨x, .polRequired⟩ inp env = .err k := by
  have h1 := skipWs_flag C b e false inp
  unfold scanFn
  rw [h1]
  cases hs : skipWs C e false inp with
  | commentIo => exact ⟨_, rfl⟩
  | end_ => exact ⟨_, rfl⟩
  | rune c r =>
    have := h c r hs; subst this
    refine ⟨.syntax, ?_⟩
    simp [stepFn, stepPOL, hK.brace]

theorem doomed_polRequired (hK : KwSafe C) {x : Ectx} {st : St} (herr : st.err = none) (hs : st.stmts = [])
    (h : ∀ c r, skipWs C e false st.inp = .rune c r → c = 0x7b) :
    Doomed { C with trig := false } e (some ⟨x, .polRequired⟩) st := by
  obtain ⟨k, hk⟩ := polRequired_bad (e := e) hK false x st.inp st.env h
  exact doomed_of_scan_err herr hs hk

theorem tgE1_go (x : Ectx) (v : T) (r : List Nat) (env : Env) (c' : Nat) (rest' : List Nat) (hv : nodeShape v)
    (hs : skipWs C e false r = .rune c' rest') (hc : c' ≠ 0x7b) :
    scanFn { C with trig := true } e ⟨x, .tgE1 v⟩ r env =
      .ok { cur := some ⟨{ x with subj := some v }, .polRequired⟩,
            push := [⟨{ x with subj := some v }, .triplesEnd⟩, ⟨{ x with subj := some v }, .polContinue⟩],
            inp := c' :: rest', env := env } := by
  have h1 := skipWs_flag C true e false r
  unfold scanFn
  rw [h1, hs]
  simp only [stepFn, Arg.orNul, hc, if_false]
  cases v <;> first | rfl | exact hv.elim

/-- not `{`, or nothing at all: what makes `PredicateObjectList_Required` fail right after a subject -/
theorem skip_cases (inp : List Nat) :
    (∀ c r, skipWs C e false inp = .rune c r → c = 0x7b) ∨
    (∃ c r, skipWs C e false inp = .rune c r ∧ c ≠ 0x7b) := by
  cases hs : skipWs C e false inp with
  | commentIo => left; intro c r h; cases h
  | end_ => left; intro c r h; cases h
  | rune c r =>
    by_cases hc : c = 0x7b
    · left; intro c' r' h; injection h with h1 h2; omega
    · right; exact ⟨c, r, rfl, hc⟩

theorem polReq_ok {x : Ectx} {env : Env} {a : Arg} {o : Out}
    (h : stepFn C e .polRequired x env a = .ok o) : stepFn C e .pol x env a = .ok o := by
  cases a with
  | fail => simp [stepFn] at h
  | rune c r =>
    simp only [stepFn] at h ⊢
    cases hp : stepPOL C e x env c r with
    | ok o' =>
      rw [hp] at h
      simp only [] at h
      split at h
      · cases h
      · exact h
    | err k => rw [hp] at h; simp at h
    | panic => rw [hp] at h; simp at h

theorem rel_done {cur cur' : Option Frame} {s t : St} {r : NextRes} (hrel : Rel C e cur s cur' t)
    (hi : iter { C with trig := false } e cur s = .done r) (hg : Good r) :
    ∃ r', Reach { C with trig := true } e cur' t r' ∧ ResRel C e r r' := by
  have mid : ∀ f, s.err = none → s.stmts = [] → iter { C with trig := false } e (some f) s = .done r → False := by
    intro f herr hst hi
    rw [iter_cur _ e f herr hst] at hi
    cases hsc : scanFn { C with trig := false } e f s.inp s.env <;> rw [hsc] at hi <;> simp at hi
    subst hi; exact hg
  cases hrel with
  | main hm =>
    unfold iter at hi
    split at hi
    · next h1 => injection hi with hi; subst hi; simp [Good] at hg; simp [hg] at h1
    · next h1 =>
      split at hi
      · next h2 =>
        injection hi with hi; subst hi
        refine ⟨.yes (pushCur cur t), .done ?_, hm.pushCur cur⟩
        simp only [iter]; rw [← hm.err, ← hm.stmts]; simp [h1, h2]
      · next h2 =>
        cases hp : popFrame cur s with
        | none =>
          rw [hp] at hi; injection hi with hi; subst hi
          refine ⟨.no t, .done ?_, ?_⟩
          · simp only [iter]; rw [← hm.err, ← hm.stmts]; simp [h1, h2, (hm.pop cur).1 hp]
          · show t.err = none
            rw [← hm.err]; exact hg
        | some p =>
          obtain ⟨f, s1⟩ := p
          rw [hp] at hi; simp only [] at hi
          cases hsc : scan { C with trig := false } e f s1 <;> rw [hsc] at hi <;> simp at hi
          subst hi; exact hg.elim
  | tok _ _ _ hst herr => exact (mid _ herr hst hi).elim
  | br _ hst herr => exact (mid _ herr hst hi).elim
  | pol hst herr => exact (mid _ herr hst hi).elim

/-- What one Turtle iteration is answered with: the Turtle run is doomed, or the TriG run gets (in
    one or two iterations) to a related state. -/
def Answer (C : Cfg) (e : End) (c2 : Option Frame) (s2 : St) (cur' : Option Frame) (t : St) : Prop :=
  Doomed { C with trig := false } e c2 s2 ∨
  ∃ c2' t2, (∀ r', Reach { C with trig := true } e c2' t2 r' → Reach { C with trig := true } e cur' t r') ∧
    Rel C e c2 s2 c2' t2

theorem answer_one {c2 : Option Frame} {s2 : St} {cur' : Option Frame} {t : St} {c2' : Option Frame} {t2 : St}
    (hi : iter { C with trig := true } e cur' t = .cont c2' t2) (hr : Rel C e c2 s2 c2' t2) :
    Answer C e c2 s2 cur' t :=
  Or.inr ⟨c2', t2, fun _ h => .step hi h, hr⟩

theorem main_step (hP : C.P.NoPanic) (hK : KwSafe C) {cur : Option Frame} {s t : St} (hm : Main C e s t)
    {c2 : Option Frame} {s2 : St} (hi : iter { C with trig := false } e cur s = .cont c2 s2) :
    Answer C e c2 s2 cur t := by
  obtain ⟨herr, hst, f, s1, hp⟩ := iter_cont_inv hi
  obtain ⟨g, t1, hpt, hfg, hm1⟩ := (hm.pop cur).2 f s1 hp
  have herr' : t.err = none := hm.err ▸ herr
  have hst' : t.stmts = [] := hm.stmts ▸ hst
  obtain ⟨hs1, he1, _, _, _⟩ := popFrame_some hp
  obtain ⟨ht1, het1, _, _, _⟩ := popFrame_some hpt
  rw [iter_pop _ e herr hst hp] at hi
  have hit := iter_pop { C with trig := true } e herr' hst' hpt
  by_cases hk : f.k = .statement
  · -- the top-level function
    have hfg' : f = g := by
      rcases hfg with h | ⟨h, _⟩
      · exact h
      · rw [hk] at h; cases h
    subst hfg'
    obtain ⟨x, k⟩ := f
    simp only at hk; subst hk
    have e1 := skipWs_flag C false e false s1.inp
    have e2 := skipWs_flag C true e false t1.inp
    unfold scanFn at hi hit
    rw [e1] at hi
    rw [e2, ← hm1.inp, ← hm1.env] at hit
    cases hsk : skipWs C e false s1.inp with
    | commentIo =>
      rw [hsk] at hi; simp only [] at hi
      injection hi with h1 h2; subst h1; subst h2
      exact Or.inl (doomed_err rfl)
    | end_ =>
      rw [hsk] at hi hit; simp only [stepFn] at hi hit
      cases e with
      | eof =>
        simp only [] at hi hit
        injection hi with h1 h2; subst h1; subst h2
        exact answer_one hit (.main (hm1.applyOut _))
      | ioerr =>
        simp only [] at hi
        injection hi with h1 h2; subst h1; subst h2
        exact Or.inl (doomed_err rfl)
    | rune c rest =>
      rw [hsk] at hi hit; simp only [stepFn] at hi hit
      have hidem := skipWs_idem C e _ _ _ _ hsk
      rcases stmt_cases (e := e) hK x s1.env c rest with hAB | ⟨k, hA⟩ | ⟨K, hA, hB⟩ | ⟨hA, hB⟩
      · rw [← hAB] at hit
        cases hA : stepStatementRune { C with trig := false } e x s1.env c rest with
        | panic => rw [hA] at hi; simp [withSelf] at hi
        | err k =>
          rw [hA] at hi; simp only [withSelf] at hi
          injection hi with h1 h2; subst h1; subst h2
          exact Or.inl (doomed_err rfl)
        | ok o =>
          rw [hA] at hi hit; simp only [withSelf] at hi hit
          injection hi with h1 h2; subst h1; subst h2
          exact answer_one hit (.main (hm1.applyOut _))
      · rw [hA] at hi; simp only [withSelf] at hi
        injection hi with h1 h2; subst h1; subst h2
        exact Or.inl (doomed_err rfl)
      · rw [hA] at hi; simp only [withSelf, tokOut] at hi
        injection hi with h1 h2; subst h1; subst h2
        -- Turtle's next iteration re-scans the token
        have hnext : ∀ k, Kind.term C e s1.env (c :: rest) K = .err k →
            Doomed { C with trig := false } e (some ⟨x, K.cont⟩)
              (TtlDoc.applyOut s1 { cur := some ⟨x, K.cont⟩, push := [⟨x, .statement⟩, ⟨x, .triplesEnd⟩], inp := c :: rest, env := s1.env }) := by
          intro k hk
          refine doomed_of_scan_err (k := k) (by simp [TtlDoc.applyOut, he1, herr]) (by simp [TtlDoc.applyOut, hs1, hst]) ?_
          have e3 := skipWs_flag C false e false (c :: rest)
          simp only [TtlDoc.applyOut, scanFn]
          rw [e3, hidem]
          simp only [Kind.stepFn, Kind.term_flag, hk, subjectOf]
        rcases Kind.term_cases (e := e) hP s1.env (c :: rest) K with ⟨v, r, env', hv, hns⟩ | ⟨k, hk⟩
        · rcases hB with hB | ⟨k, hk⟩
          · rw [hB, hv] at hit; simp only [labelOrSubject, withSelf] at hit
            refine answer_one hit ?_
            refine Rel.tok (K := K) (x := x) (c := c) (rest := rest) (v := v) (r := r) (env' := env') (S := s1.stack) (S' := t1.stack)
              ?_ ?_ hidem ?_ ?_ ?_ hns ?_ ?_ ?_ ?_ ?_ hm1.stack
            · simp [TtlDoc.applyOut]
            · simp [TtlDoc.applyOut]
            · simp [TtlDoc.applyOut, hs1, hst]
            · simp [TtlDoc.applyOut, he1, herr]
            · simpa [TtlDoc.applyOut] using hv
            · simp [TtlDoc.applyOut]
            · simp [TtlDoc.applyOut]
            · simp [TtlDoc.applyOut]
            · simp [TtlDoc.applyOut, ht1, hst']
            · simp [TtlDoc.applyOut, het1, herr']
          · rw [hv] at hk; cases hk
        · exact Or.inl (hnext k hk)
      · rw [hA] at hi; rw [hB] at hit; simp only [withSelf] at hi hit
        injection hi with h1 h2; subst h1; subst h2
        refine answer_one hit (.br (by trivial) ?_ ?_ ?_)
        · simp [TtlDoc.applyOut, hs1, hst]
        · simp [TtlDoc.applyOut, he1, herr]
        · exact hm1.applyOut2 rfl rfl rfl rfl rfl
  · -- every other scan function: identical calls
    have hsc := scanFn_frameEq C e hfg hk hm1
    rw [← hsc] at hit
    cases hA : scanFn { C with trig := false } e f s1.inp s1.env with
    | panic => rw [hA] at hi; simp at hi
    | err k =>
      rw [hA] at hi; simp only [] at hi
      injection hi with h1 h2; subst h1; subst h2
      exact Or.inl (doomed_err rfl)
    | ok o =>
      rw [hA] at hi hit; simp only [] at hi hit
      injection hi with h1 h2; subst h1; subst h2
      exact answer_one hit (.main (hm1.applyOut _))

theorem scanFn_congr (b : Bool) (f : Frame) {i1 i2 : List Nat} (env : Env)
    (h : skipWs C e false i1 = skipWs C e false i2) :
    scanFn { C with trig := b } e f i1 env = scanFn { C with trig := b } e f i2 env := by
  have h1 := skipWs_flag C b e false i1
  have h2 := skipWs_flag C b e false i2
  unfold scanFn
  rw [h1, h2, h]

theorem scanFn_polReq {x : Ectx} {inp : List Nat} {env : Env} {o : Out}
    (h : scanFn { C with trig := false } e ⟨x, .polRequired⟩ inp env = .ok o) :
    scanFn { C with trig := true } e ⟨x, .pol⟩ inp env = .ok o := by
  have h1 := skipWs_flag C false e false inp
  have h2 := skipWs_flag C true e false inp
  unfold scanFn at h ⊢
  rw [h1] at h; rw [h2]
  cases hs : skipWs C e false inp with
  | commentIo => rw [hs] at h; cases h
  | end_ =>
    rw [hs] at h; simp only [] at h ⊢
    rw [stepFn_flag C false e _ _ _ _ (by simp)] at h
    rw [stepFn_flag C true e _ _ _ _ (by simp)]
    exact polReq_ok h
  | rune c r =>
    rw [hs] at h; simp only [] at h ⊢
    rw [stepFn_flag C false e _ _ _ _ (by simp)] at h
    rw [stepFn_flag C true e _ _ _ _ (by simp)]
    exact polReq_ok h

theorem pol_step {x : Ectx} {s t : St} (hst : s.stmts = []) (herr : s.err = none) (hm : Main C e s t)
    {c2 : Option Frame} {s2 : St} (hi : iter { C with trig := false } e (some ⟨x, .polRequired⟩) s = .cont c2 s2) :
    Answer C e c2 s2 (some ⟨x, .pol⟩) t := by
  have herr' : t.err = none := hm.err ▸ herr
  have hst' : t.stmts = [] := hm.stmts ▸ hst
  rw [iter_cur _ e _ herr hst] at hi
  have hit := iter_cur { C with trig := true } e ⟨x, .pol⟩ herr' hst'
  cases hA : scanFn { C with trig := false } e ⟨x, .polRequired⟩ s.inp s.env with
  | panic => rw [hA] at hi; simp at hi
  | err k =>
    rw [hA] at hi; simp only [] at hi
    injection hi with h1 h2; subst h1; subst h2
    exact Or.inl (doomed_err rfl)
  | ok o =>
    rw [hA] at hi; simp only [] at hi
    injection hi with h1 h2; subst h1; subst h2
    have := scanFn_polReq hA
    rw [scanFn_congr true _ _ hm.inp, hm.env] at this
    rw [this] at hit
    exact answer_one hit (.main (hm.applyOut _))

theorem tok_step (hK : KwSafe C) {K : Kind} {x : Ectx} {c : Nat} {rest : List Nat} {v : T} {r : List Nat} {env' : Env}
    {s t : St} {S S' : List Frame}
    (h1 : s.stack = ⟨x, .triplesEnd⟩ :: ⟨x, .statement⟩ :: S) (h2 : s.inp = c :: rest)
    (h3 : skipWs C e false (c :: rest) = .rune c rest) (hst : s.stmts = []) (herr : s.err = none)
    (hv : Kind.term C e s.env (c :: rest) K = .ok v r env') (hns : nodeShape v)
    (g1 : t.stack = ⟨x, .statement⟩ :: S') (g2 : t.inp = r) (g3 : t.env = env') (hst' : t.stmts = []) (herr' : t.err = none)
    (hS : StackEq S S')
    {c2 : Option Frame} {s2 : St} (hi : iter { C with trig := false } e (some ⟨x, K.cont⟩) s = .cont c2 s2) :
    Answer C e c2 s2 (some ⟨x, .tgE1 v⟩) t := by
  rw [iter_cur _ e _ herr hst] at hi
  have hit := iter_cur { C with trig := true } e ⟨x, .tgE1 v⟩ herr' hst'
  have hA : scanFn { C with trig := false } e ⟨x, K.cont⟩ s.inp s.env = subjectTail x v r env' := by
    have e3 := skipWs_flag C false e false (c :: rest)
    simp only [scanFn, h2]
    rw [e3, h3]
    simp only [Kind.stepFn, Kind.term_flag, hv, subjectOf]
  rw [hA] at hi; simp only [subjectTail] at hi
  injection hi with q1 q2; subst q1; subst q2
  rcases skip_cases (C := C) (e := e) r with hbad | ⟨c', rest', hsk, hne⟩
  · exact Or.inl (doomed_polRequired hK (by simp [TtlDoc.applyOut, herr]) (by simp [TtlDoc.applyOut, hst])
      (by simpa [TtlDoc.applyOut] using hbad))
  · rw [g2, g3, tgE1_go x v r env' c' rest' hns hsk hne] at hit
    simp only [] at hit
    refine answer_one hit (.main ⟨?_, ?_, ?_, ?_, ?_⟩)
    · simp [TtlDoc.applyOut]
    · simp [TtlDoc.applyOut, hst, hst']
    · simp [TtlDoc.applyOut, herr, herr']
    · simp only [TtlDoc.applyOut, h1, g1, Bool.false_eq_true, if_false, List.reverse_cons, List.reverse_nil,
        List.nil_append, List.cons_append]
      exact .cons (Or.inl rfl) (.cons (Or.inr ⟨rfl, rfl⟩) (.cons (Or.inl rfl) hS))
    · simp only [TtlDoc.applyOut]
      rw [hsk, skipWs_idem C e _ _ _ _ hsk]

theorem br_step (hK : KwSafe C) {x : Ectx} {bn : T} {s t : St} (hbn : nodeShape bn) (hst : s.stmts = [])
    (herr : s.err = none) (hm : Main C e s t) {c2 : Option Frame} {s2 : St}
    (hi : iter { C with trig := false } e (some ⟨{ x with subj := some bn }, .subjAnonOrBNPL⟩) s = .cont c2 s2) :
    Answer C e c2 s2 (some ⟨x, .tgBracket bn⟩) t := by
  have herr' : t.err = none := hm.err ▸ herr
  have hst' : t.stmts = [] := hm.stmts ▸ hst
  rw [iter_cur _ e _ herr hst] at hi
  have hit := iter_cur { C with trig := true } e ⟨x, .tgBracket bn⟩ herr' hst'
  have e1 := skipWs_flag C false e false s.inp
  have e2 := skipWs_flag C true e false t.inp
  unfold scanFn at hi hit
  rw [e1] at hi
  rw [e2, ← hm.inp] at hit
  cases hsk : skipWs C e false s.inp with
  | commentIo =>
    rw [hsk] at hi; simp only [] at hi
    injection hi with q1 q2; subst q1; subst q2
    exact Or.inl (doomed_err rfl)
  | end_ =>
    rw [hsk] at hi; simp only [stepFn] at hi
    injection hi with q1 q2; subst q1; subst q2
    exact Or.inl (doomed_err rfl)
  | rune c rest =>
    rw [hsk] at hi hit; simp only [stepFn, Arg.orNul] at hi hit
    have hidem := skipWs_idem C e _ _ _ _ hsk
    by_cases hc : c = 0x5d
    · simp only [hc, if_true] at hi hit
      injection hi with q1 q2; subst q1; subst q2
      rcases skip_cases (C := C) (e := e) rest with hbad | ⟨c', rest', hsk', hne⟩
      · exact Or.inl (doomed_polRequired hK (by simp [TtlDoc.applyOut, herr]) (by simp [TtlDoc.applyOut, hst])
          (by simpa [TtlDoc.applyOut] using hbad))
      · -- TriG: `E1` looks for `{` and then catches up
        have hit2 := iter_cur { C with trig := true } e ⟨x, .tgE1 bn⟩
          (st := TtlDoc.applyOut t { cur := some ⟨x, .tgE1 bn⟩, inp := rest, env := t.env })
          (by simp [TtlDoc.applyOut, herr']) (by simp [TtlDoc.applyOut, hst'])
        have hgo := tgE1_go (C := C) (e := e) x bn rest t.env c' rest' hbn hsk' hne
        simp only [TtlDoc.applyOut] at hit2
        rw [hgo] at hit2
        simp only [] at hit2
        refine Or.inr ⟨_, _, fun r' h => .step hit (.step hit2 h), .main ⟨?_, ?_, ?_, ?_, ?_⟩⟩
        · simp [TtlDoc.applyOut, hm.env]
        · simp [TtlDoc.applyOut, hst, hst']
        · simp [TtlDoc.applyOut, herr, herr']
        · simp only [TtlDoc.applyOut, Bool.false_eq_true, if_false, List.reverse_cons, List.reverse_nil,
            List.nil_append, List.cons_append]
          exact .cons (Or.inl rfl) (.cons (Or.inl rfl) hm.stack)
        · simp only [TtlDoc.applyOut]
          rw [hsk', skipWs_idem C e _ _ _ _ hsk']
    · simp only [hc, if_false] at hi hit
      injection hi with q1 q2; subst q1; subst q2
      have hit2 := iter_cur { C with trig := true } e ⟨{ x with subj := some bn }, .triples2BNPL⟩
        (st := TtlDoc.applyOut t { cur := some ⟨{ x with subj := some bn }, .triples2BNPL⟩, inp := c :: rest, env := t.env })
        (by simp [TtlDoc.applyOut, herr']) (by simp [TtlDoc.applyOut, hst'])
      have e3 := skipWs_flag C true e false (c :: rest)
      simp only [TtlDoc.applyOut, scanFn] at hit2
      rw [e3, hidem] at hit2
      simp only [stepFn, hc, if_false] at hit2
      refine Or.inr ⟨_, _, fun r' h => .step hit (.step hit2 h), .pol ?_ ?_ ⟨?_, ?_, ?_, ?_, ?_⟩⟩
      · simp [TtlDoc.applyOut, hst]
      · simp [TtlDoc.applyOut, herr]
      · simp [TtlDoc.applyOut, hm.env]
      · simp [TtlDoc.applyOut, hst, hst']
      · simp [TtlDoc.applyOut, herr, herr']
      · simp only [TtlDoc.applyOut, Bool.false_eq_true, if_false, List.reverse_cons, List.reverse_nil,
          List.nil_append, List.cons_append]
        exact StackEq.append_left [_, _, _, _, _] hm.stack
      · simp [TtlDoc.applyOut]

theorem rel_step (hP : C.P.NoPanic) (hK : KwSafe C) {cur cur' : Option Frame} {s t : St} (hrel : Rel C e cur s cur' t)
    {c2 : Option Frame} {s2 : St} (hi : iter { C with trig := false } e cur s = .cont c2 s2) :
    Answer C e c2 s2 cur' t := by
  cases hrel with
  | main hm => exact main_step hP hK hm hi
  | tok h1 h2 h3 hst herr hv hns g1 g2 g3 hst' herr' hS =>
    exact tok_step hK h1 h2 h3 hst herr hv hns g1 g2 g3 hst' herr' hS hi
  | br hbn hst herr hm => exact br_step hK hbn hst herr hm hi
  | pol hst herr hm => exact pol_step hst herr hm hi

/-- THE SIMULATION: whatever `Next` answers in the Turtle run (true, or false without an error), it
    answers in the TriG run from a related state, and the states afterwards are related again. -/
theorem sim (hP : C.P.NoPanic) (hK : KwSafe C) {cur : Option Frame} {s : St} {r : NextRes}
    (h : Reach { C with trig := false } e cur s r) :
    ∀ cur' t, Rel C e cur s cur' t → Good r → ∃ r', Reach { C with trig := true } e cur' t r' ∧ ResRel C e r r' := by
  induction h with
  | done hi => intro cur' t hrel hg; exact rel_done hrel hi hg
  | step hi hr ih =>
    intro cur' t hrel hg
    rcases rel_step hP hK hrel hi with hd | ⟨c2', t2, hreach, hrel2⟩
    · exact absurd hg (hd _ hr)
    · obtain ⟨r', h1, h2⟩ := ih c2' t2 hrel2 hg
      exact ⟨r', hreach r' h1, h2⟩

/-! ### From iterations to `Next()` and to whole runs -/

theorem sim_next (hP : C.P.NoPanic) (hC : C.P.Consumes) (hK : KwSafe C) {s t : St} (hm : Main C e s t) {r : NextRes}
    (h : next { C with trig := false } e s = r) (hg : Good r) :
    ∃ r', next { C with trig := true } e t = r' ∧ ResRel C e r r' := by
  have hm0 : Main C e { s with stmts := s.stmts.drop 1 } { t with stmts := t.stmts.drop 1 } :=
    ⟨hm.env, by simp [hm.stmts], hm.err, hm.stack, hm.inp⟩
  have hne : nextLoop { C with trig := false } e (({ s with stmts := s.stmts.drop 1 } : St).cost + 1) none
      { s with stmts := s.stmts.drop 1 } ≠ .outOfFuel := by
    intro h'
    have : next { C with trig := false } e s = .outOfFuel := h'
    rw [this] at h; subst h; exact hg
  have hreach := reach_of_nextLoop _ e _ _ _ hne
  have h' : nextLoop { C with trig := false } e (({ s with stmts := s.stmts.drop 1 } : St).cost + 1) none
      { s with stmts := s.stmts.drop 1 } = r := h
  rw [h'] at hreach
  obtain ⟨r', hr', hres⟩ := sim hP hK hreach none _ (.main hm0) hg
  refine ⟨r', ?_, hres⟩
  have hfuel := (next_fuel (C := { C with trig := true }) (e := e) hC t).1
  rcases nextLoop_of_reach hr' (({ t with stmts := t.stmts.drop 1 } : St).cost + 1) with h1 | h1
  · exact h1
  · exact absurd h1 hfuel

theorem sim_runLoop (hP : C.P.NoPanic) (hC : C.P.Consumes) (hK : KwSafe C) :
    ∀ n s t ts, Main C e s t → runLoop { C with trig := false } e n s = (ts, .clean) →
      ∀ m, runLoop { C with trig := true } e m t = (ts, .clean) ∨ (runLoop { C with trig := true } e m t).2 = .outOfFuel := by
  intro n
  induction n with
  | zero => intro s t ts _ h; simp [runLoop] at h
  | succ n ih =>
    intro s t ts hm h m
    cases m with
    | zero => right; rfl
    | succ m =>
      unfold runLoop at h
      cases hn : next { C with trig := false } e s with
      | panic => rw [hn] at h; simp at h
      | outOfFuel => rw [hn] at h; simp at h
      | no s' =>
        rw [hn] at h; simp only [Prod.mk.injEq] at h
        obtain ⟨rfl, hv⟩ := h
        have hg : Good (.no s') := by
          cases he : s'.err with
          | none => exact he
          | some k => rw [he] at hv; simp at hv
        obtain ⟨r', h1, h2⟩ := sim_next hP hC hK hm hn hg
        cases r' with
        | no t' =>
          left
          have : t'.err = none := h2
          unfold runLoop
          rw [h1]; simp [this]
        | yes _ => exact h2.elim
        | panic => exact h2.elim
        | outOfFuel => exact h2.elim
      | yes s' =>
        rw [hn] at h; simp only [] at h
        obtain ⟨r', h1, h2⟩ := sim_next hP hC hK hm hn trivial
        cases r' with
        | yes t' =>
          have hm' : Main C e s' t' := h2
          unfold runLoop
          rw [h1]; simp only []
          rw [← hm'.stmts]
          cases hs : s'.stmts with
          | nil => rw [hs] at h; simp at h
          | cons a l =>
            rw [hs] at h; simp only [] at h
            cases hr : runLoop { C with trig := false } e n s' with
            | mk ss v =>
              rw [hr] at h
              simp only [Prod.mk.injEq] at h
              obtain ⟨rfl, rfl⟩ := h
              rcases ih s' t' ss hm' hr m with h3 | h3
              · left; simp [h3]
              · right; simp only []; exact h3
        | no _ => exact h2.elim
        | panic => exact h2.elim
        | outOfFuel => exact h2.elim

/-- A document the Turtle run accepts is accepted by the TriG run with the same statements. -/
theorem sim_run (hP : C.P.NoPanic) (hC : C.P.Consumes) (hK : KwSafe C) (base : Option (List Nat))
    (pf : List (List Nat × List Nat)) (inp : List Nat) (ts : List Stmt)
    (h : run { C with trig := false } e base pf inp = (ts, .clean)) :
    run { C with trig := true } e base pf inp = (ts, .clean) := by
  unfold run at h ⊢
  simp only [] at h ⊢
  rcases sim_runLoop hP hC hK _ _ _ ts (Main.refl C e (init base pf inp)) h ((init base pf inp).cost + 1) with h1 | h1
  · exact h1
  · exact absurd h1 (runLoop_fuel (C := { C with trig := true }) (e := e) hC _ _ (Nat.lt_succ_self _))

/-! ### `KwSafe` for the real token producers -/

/-- `producePNAME_NS`'s loop fails when the runes of a keyword (none of them `:`) are followed by the
    end of the input or by a rune on which the loop fails. -/
theorem pnameNsLoop_kw (T : Ttl.Tables) (e : End) :
    ∀ (kw : List (Nat × Nat)) (rest acc : List Nat), (∀ p ∈ kw, p.1 ≠ 0x3a ∧ p.2 ≠ 0x3a) →
      match matchKw kw rest with
      | .eoi => ∃ k, Ttl.pnameNsLoop T e rest acc = .err k
      | .ok r => (∀ acc', ∃ k, Ttl.pnameNsLoop T e r acc' = .err k) → ∃ k, Ttl.pnameNsLoop T e rest acc = .err k
      | .mismatch => True := by
  intro kw
  induction kw with
  | nil => intro rest acc _; simp only [matchKw]; exact fun h => h acc
  | cons p kw ih =>
    intro rest acc hkw
    obtain ⟨u, l⟩ := p
    cases rest with
    | nil => simp only [matchKw]; exact ⟨_, rfl⟩
    | cons c r =>
      simp only [matchKw]
      by_cases hc : c = u ∨ c = l
      · simp only [hc, if_true]
        have hne : c ≠ 0x3a := by
          have := hkw (u, l) List.mem_cons_self
          rcases hc with rfl | rfl
          · exact this.1
          · exact this.2
        have hstep : Ttl.pnameNsLoop T e (c :: r) acc =
            if inRanges T.pnChars c || c = 0x2e then Ttl.pnameNsLoop T e r (c :: acc) else .err .syntax := by
          simp [Ttl.pnameNsLoop, hne]
        have := ih r (c :: acc) (fun p hp => hkw p (List.mem_cons_of_mem _ hp))
        cases hm : matchKw kw r with
        | eoi =>
          rw [hm] at this; simp only [] at this ⊢
          rw [hstep]; split
          · exact this
          · exact ⟨_, rfl⟩
        | mismatch => trivial
        | ok r' =>
          rw [hm] at this; simp only [] at this ⊢
          intro h
          rw [hstep]; split
          · exact this h
          · exact ⟨_, rfl⟩
      · simp only [hc, if_false]

/-- what the white-space predicate must satisfy: no rune of it continues (or ends) a prefix label -/
def SpaceOK (T : Ttl.Tables) (isSpace : Nat → Bool) : Prop :=
  ∀ c, isSpace c = true → c ≠ 0x3a ∧ c ≠ 0x2e ∧ inRanges T.pnChars c = false

theorem real_kwSafe (T : Ttl.Tables) (trig : Bool) (resolve : Option (List Nat) → List Nat → Option (List Nat))
    (isSpace : Nat → Bool) (hb : inRanges T.pnCharsBase 0x7b = false) (hsp : SpaceOK T isSpace) :
    KwSafe { trig := trig, P := Producers.real T, resolve := resolve, isSpace := isSpace, pnBase := inRanges T.pnCharsBase } where
  brace := hb
  graph := by
    intro e c rest hc hhit
    show ∃ k, Ttl.producePrefixedName T e (c :: rest) = .err k
    have hloop : ∃ k, Ttl.pnameNsLoop T e rest [c] = .err k := by
      have := pnameNsLoop_kw T e (kwCI "RAPH") rest [c] (by decide)
      unfold graphKwHit at hhit
      cases hm : matchKw (kwCI "RAPH") rest with
      | eoi => rw [hm] at this; exact this
      | mismatch => rw [hm] at hhit; cases hhit
      | ok r =>
        rw [hm] at this hhit
        refine this ?_
        intro acc'
        cases r with
        | nil => exact ⟨_, rfl⟩
        | cons r6 rest6 =>
          obtain ⟨h1, h2, h3⟩ := hsp r6 hhit
          exact ⟨.syntax, by simp [Ttl.pnameNsLoop, h1, h2, h3]⟩
    obtain ⟨k, hk⟩ := hloop
    have hne : c ≠ 0x3a := by omega
    have hns : ∃ k', Ttl.producePNAME_NS T e (c :: rest) = .err k' := by
      unfold Ttl.producePNAME_NS
      simp only [hne, if_false]
      split
      · exact ⟨_, hk⟩
      · exact ⟨_, rfl⟩
    obtain ⟨k', hk'⟩ := hns
    exact ⟨k', by simp [Ttl.producePrefixedName, hk']⟩

end RdfModel.TtlDoc
