/-
  Proofs.C02DocPrintTok — the text the Turtle *encoder* model writes for a token (`formatIRI`,
  `formatLiteralLexicalForm`, `format_PN_LOCAL` of Model/TurtleTokens.lean) is a text the abstract
  *printer* (Spec/TurtlePrinter.lean) writes for the same value under some choice list.

  Table facts beyond `C02.TablesOK` are collected in `PrintTablesOK` and proved for the regenerated
  tables by `decide` on a Boolean check over the table *entries* (checkers and soundness lemmas of
  Proofs/C02TokCheck.lean).
-/
import RdfModel.Props.C02TokensTables
namespace RdfModel.Proofs.C02Doc
open RdfModel RdfModel.Ttl RdfModel.C02 RdfModel.Spec.TtlPrint

/-! ### table facts -/

/-- Facts about the regenerated tables the printer comparison needs on top of `TablesOK`.
    Each is a statement over every code point. -/
structure PrintTablesOK (T : Tables) : Prop where
  /-- a rune `formatLiteralLexicalForm` leaves raw is neither LF nor CR (it may stand raw in `"…"`) -/
  lit_raw_nl : ∀ a c, lookup (T.litEsc a) 0 c = 0 → c ≠ 0x0a ∧ c ≠ 0x0d
  /-- a rune written `\UXXXXXXXX` is a code point (the top nibble Go masks with `0x7` is zero) -/
  lit_u8 : ∀ a c, lookup (T.litEsc a) 0 c = 3 → c ≤ 0x10FFFF

def printTablesChk (T : Tables) : Bool :=
  C02Tok.both (fun t => C02Tok.badNZ t [(0x0a, 0x0a), (0x0d, 0x0d)]) T.litEsc &&
  C02Tok.both (fun t => C02Tok.entAll t (fun _ hi v => v != 3 || decide (hi ≤ 0x10FFFF))) T.litEsc

theorem printTablesOK_of_chk (T : Tables) (h : printTablesChk T = true) : PrintTablesOK T := by
  simp only [printTablesChk, Bool.and_eq_true] at h
  obtain ⟨h1, h2⟩ := h
  exact {
    lit_raw_nl := fun a c h0 => by
      have := C02Tok.raw_of_bad _ _ (C02Tok.both_elim h1 a) c h0
      simp only [inRanges, Bool.or_eq_false_iff, Bool.and_eq_false_iff,
        decide_eq_false_iff_not] at this
      omega
    lit_u8 := fun a => C02Tok.mode_bound 3 0x10FFFF (by decide) _ (C02Tok.both_elim h2 a) }

theorem gen_turtle_print_ok : PrintTablesOK Gen.turtle := printTablesOK_of_chk _ (by decide)

theorem gen_trig_print_ok : PrintTablesOK Gen.trig := printTablesOK_of_chk _ (by decide)

/-! ### hex payloads -/

theorem pt_hex4_eq (c : Nat) : hex4c false c = hex4 c := by
  simp [hex4c, hex4, hexD]

theorem pt_hex8_eq (c : Nat) (hc : c ≤ 0x10FFFF) : hex8c false c = hex8 c := by
  have h0 : c / 0x10000000 = 0 := by omega
  simp [hex8c, hex8, hexD, h0]

theorem pt_uchar4 (c : Nat) (hc : c ≤ 0xFFFF) : uchar false false c = 0x5c :: 0x75 :: hex4 c := by
  simp [uchar, hc, pt_hex4_eq]

theorem pt_uchar8 (c : Nat) (hc : c ≤ 0x10FFFF) : uchar true false c = 0x5c :: 0x55 :: hex8 c := by
  simp [uchar, pt_hex8_eq c hc]

theorem pt_scalar_le {c : Nat} (h : IsScalar c) : c ≤ 0x10FFFF := by
  unfold IsScalar at h; omega

/-! ### IRIREF -/

/-- The printer choice that reproduces `escIRIRune T false c`. -/
def iriChoice (T : Tables) (c : Nat) : Choice :=
  match lookup (T.iriEsc false) 0 c with
  | 1 => .u4 false
  | 2 => .u8 false
  | _ => .raw

theorem pt_iriRawOK {c : Nat} (h : iriForbidden c = false ∧ c ≠ 0x3e ∧ c ≠ 0x5c) :
    iriRawOK c = true := by
  obtain ⟨h1, h2, h3⟩ := h
  simp only [iriForbidden, Bool.or_eq_false_iff, decide_eq_false_iff_not] at h1
  simp only [iriRawOK, Bool.not_eq_true', Bool.or_eq_false_iff, decide_eq_false_iff_not]
  omega

theorem pt_iriRune (T : Tables) (hT : TablesOK T) (c : Nat) (hc : c ≤ 0x10FFFF) :
    printIriRune (iriChoice T c) c = escIRIRune T false c := by
  have hm := hT.iri_mode false c
  have h0 := hT.iri_raw false c
  have h1 := hT.iri_u4 false c
  unfold iriChoice escIRIRune
  generalize lookup (T.iriEsc false) 0 c = m at hm h0 h1 ⊢
  have hcases : m = 0 ∨ m = 1 ∨ m = 2 := by omega
  rcases hcases with rfl | rfl | rfl
  · simp [printIriRune, pt_iriRawOK (h0 rfl)]
  · simp only [printIriRune]
    exact pt_uchar4 c (h1 rfl)
  · simp only [printIriRune]
    exact pt_uchar8 c hc

theorem pt_iriBody (T : Tables) (hT : TablesOK T) (r : List Nat) (hr : ∀ c ∈ r, c ≤ 0x10FFFF) :
    printIriBody (r.map (iriChoice T)) r = formatIRI T false r := by
  induction r with
  | nil => simp [printIriBody, formatIRI]
  | cons c rest ih =>
    have ih' := ih (fun x hx => hr x (List.mem_cons_of_mem _ hx))
    simp only [formatIRI] at ih' ⊢
    simp only [List.map_cons, printIriBody, List.head?_cons, Option.getD_some, List.tail_cons,
      List.flatMap_cons, ih', pt_iriRune T hT c (hr c List.mem_cons_self)]

theorem print_iri_eq (T : Tables) (hT : TablesOK T) (r : List Nat) (hr : Scalars r) :
    ∃ cs : List Choice, printIRIREF cs r = 0x3c :: (formatIRI T false r ++ [0x3e]) := by
  refine ⟨r.map (iriChoice T), ?_⟩
  simp only [printIRIREF, pt_iriBody T hT r (fun c hc => pt_scalar_le (hr c hc))]

/-! ### String -/

/-- The printer choice that reproduces `escLitRune T false c`. -/
def litChoice (T : Tables) (c : Nat) : Choice :=
  match lookup (T.litEsc false) 0 c with
  | 1 => .echar
  | 2 => .u4 false
  | 3 => .u8 false
  | _ => .raw

theorem pt_echarOf_of_decode {x c : Nat} (h : echarDecode x = some c) : echarOf c = some x := by
  simp only [echarDecode, NQ.echarDecode] at h
  repeat' split at h
  all_goals first
    | (simp only [Option.some.injEq] at h; subst h; subst_vars; decide)
    | (simp at h)

theorem pt_litRune (T : Tables) (hT : TablesOK T) (hP : PrintTablesOK T) (c : Nat) :
    printStrRune .dq (litChoice T c) c = escLitRune T false c := by
  have hm := hT.lit_mode false c
  have h0 := hT.lit_raw false c
  have h0' := hP.lit_raw_nl false c
  have h1 := hT.lit_echar false c
  have h2 := hT.lit_u4 false c
  have h3 := hP.lit_u8 false c
  unfold litChoice escLitRune
  generalize lookup (T.litEsc false) 0 c = m at hm h0 h0' h1 h2 h3 ⊢
  have hcases : m = 0 ∨ m = 1 ∨ m = 2 ∨ m = 3 := by omega
  rcases hcases with rfl | rfl | rfl | rfl
  · have a := h0 rfl
    have b := h0' rfl
    simp [printStrRune, strRawOK, Style.delim, Style.long, a.1, a.2, b.1, b.2]
  · simp only [printStrRune, strEsc, pt_echarOf_of_decode (h1 rfl)]
  · simp only [printStrRune]
    exact pt_uchar4 c (h2 rfl)
  · simp only [printStrRune]
    exact pt_uchar8 c (h3 rfl)

theorem pt_strBody (T : Tables) (hT : TablesOK T) (hP : PrintTablesOK T) (lex : List Nat) :
    ∀ k, printStrBody .dq k (lex.map (litChoice T)) lex = litBody T false lex := by
  induction lex with
  | nil => intro k; simp [printStrBody, litBody]
  | cons c rest ih =>
    intro k
    have ih' := ih 0
    simp only [litBody] at ih' ⊢
    simp [printStrBody, Style.long, ih', pt_litRune T hT hP c]

theorem print_string_eq (T : Tables) (hT : TablesOK T) (hP : PrintTablesOK T) (lex : List Nat) :
    ∃ cs : List Choice, printString .dq cs lex = formatLiteralLexicalForm T false lex := by
  refine ⟨lex.map (litChoice T), ?_⟩
  simp [printString, quotes, Style.long, Style.delim, formatLiteralLexicalForm,
    pt_strBody T hT hP lex 0]

/-! ### PN_LOCAL -/

/-- The printer choices that reproduce `formatLocalFrom T first loc` (position-dependent). -/
def locChoices (T : Tables) : Bool → List Nat → List Choice
  | _, [] => []
  | first, c :: rest =>
    (if lookup (T.localEsc first rest.isEmpty) 0 c = 2 then Choice.echar else Choice.raw)
      :: locChoices T false rest

theorem pt_localRaw (T : Tables) (hT : TablesOK T) (first last : Bool) (c : Nat)
    (hc : c ≤ 0x10FFFF) (h0 : lookup (T.localEsc first last) 0 c = 0) :
    localRawOK T first last c = true ∧ c ≠ 0x25 := by
  cases first
  · have hb := hT.loc_raw_body last c hc h0
    simp only [Bool.or_eq_true, decide_eq_true_eq] at hb
    have hpct : c ≠ 0x25 := by
      intro he; subst he
      simp [hT.pn_pct] at hb
    refine ⟨?_, hpct⟩
    cases last
    · simp only [localRawOK, Bool.false_eq_true, if_false, Bool.or_eq_true, decide_eq_true_eq]
      rcases hb with (hb | hb) | hb
      · exact Or.inl (Or.inl hb)
      · exact Or.inr hb
      · exact Or.inl (Or.inr hb)
    · have hdot := hT.loc_raw_last false c h0
      simp only [localRawOK, Bool.false_eq_true, if_false, if_true, Bool.or_eq_true,
        decide_eq_true_eq]
      rcases hb with (hb | hb) | hb
      · exact Or.inl hb
      · exact absurd hb hdot
      · exact Or.inr hb
  · have hb := hT.loc_raw_first last c hc h0
    refine ⟨by simpa [localRawOK] using hb, ?_⟩
    intro he; subst he
    simp [hT.pnU_pct, isDigit, NQ.isDigit] at hb

theorem pt_localFrom (T : Tables) (hT : TablesOK T) (loc : List Nat) :
    ∀ (first : Bool) (out : List Nat), (∀ c ∈ loc, c ≤ 0x10FFFF) →
      localOKFrom T first loc = true → formatLocalFrom T first loc = some out →
      printLocalFrom T first (locChoices T first loc) loc = some out := by
  induction loc with
  | nil =>
    intro first out _ _ hfmt
    simpa [formatLocalFrom, printLocalFrom] using hfmt
  | cons c rest ih =>
    intro first out hs hok hfmt
    simp only [localOKFrom, Bool.and_eq_true, Bool.or_eq_true, decide_eq_true_eq] at hok
    obtain ⟨hm, hrest⟩ := hok
    have hs' : ∀ x ∈ rest, x ≤ 0x10FFFF := fun x hx => hs x (List.mem_cons_of_mem _ hx)
    have hc : c ≤ 0x10FFFF := hs c List.mem_cons_self
    simp only [formatLocalFrom] at hfmt
    rcases hm with hm | hm
    · rw [hm] at hfmt
      obtain ⟨t, ht, rfl⟩ := Option.map_eq_some_iff.1 hfmt
      have hp := ih false t hs' hrest ht
      obtain ⟨hraw, hpct⟩ := pt_localRaw T hT first rest.isEmpty c hc hm
      simp [printLocalFrom, locChoices, hm, hp, hpct, hraw]
    · rw [hm] at hfmt
      obtain ⟨t, ht, rfl⟩ := Option.map_eq_some_iff.1 hfmt
      have hp := ih false t hs' hrest ht
      have hesc : localEscapable c = true := hT.loc_esc first rest.isEmpty c hm
      by_cases hpct : c = 0x25
      · subst hpct
        simp [printLocalFrom, locChoices, hm, hp]
      · simp [printLocalFrom, locChoices, hm, hp, hpct, hesc]

theorem print_local_eq (T : Tables) (hT : TablesOK T) (loc out : List Nat) (hs : Scalars loc)
    (hok : PNLocalOK T loc = true) (hfmt : format_PN_LOCAL T loc = some out) :
    ∃ cs : List Choice, printLocal T cs loc = some out :=
  ⟨locChoices T true loc,
    pt_localFrom T hT loc true out (fun c hc => pt_scalar_le (hs c hc)) hok hfmt⟩

end RdfModel.Proofs.C02Doc
