/-
  Property C08, document level — the additional table facts (`C08.TablesOK2`) for the tables
  regenerated from /repo on this run (T1), and `C08.CfgOK` for the configuration the driver runs
  (`C05.realCfg`: real token producers, `unicode.IsSpace` as regenerated).  Every proof is `decide`
  on Boolean checks over table *entries*.
-/
import RdfModel.Props.C08DocDefs
import RdfModel.Props.C05Ttl
import RdfModel.Gen.TtlTables
import RdfModel.Gen.NQTables
namespace RdfModel.C08
open RdfModel RdfModel.Ttl RdfModel.TA

/-- Boolean form of `TablesOK2` over the entries -/
def tables2Chk (T : Tables) : Bool :=
  delims.all (fun d => !inRanges T.pnChars d) &&
  T.pnCharsBase.all (fun e => rangeWithin T.pnCharsU e.1 e.2) &&
  T.pnCharsU.all (fun e => rangeWithin T.pnChars e.1 e.2) &&
  rangeWithin T.pnCharsBase 0x61 0x7a && rangeWithin T.pnCharsBase 0x41 0x5a &&
  rangeAvoids T.pnCharsU 0x30 0x39 && rangeAvoids T.pnCharsU 0x2d 0x2d &&
  !inRanges T.pnCharsBase 0x5f && inRanges T.pnCharsU 0x5f && inRanges T.pnChars 0x2d && !inRanges T.pnCharsBase 0

theorem sub_of_chk {a b : RangeSet} (h : a.all (fun e => rangeWithin b e.1 e.2) = true) :
    ∀ c, inRanges a c = true → inRanges b c = true := by
  intro c hc
  rw [inRanges_iff] at hc
  obtain ⟨e, he, h1, h2⟩ := hc
  exact rangeWithin_sound (List.all_eq_true.1 h e he) h1 h2

theorem tablesOK2_of_chk (T : Tables) (h : tables2Chk T = true) : TablesOK2 T := by
  simp only [tables2Chk, Bool.and_eq_true, Bool.not_eq_true'] at h
  obtain ⟨⟨⟨⟨⟨⟨⟨⟨⟨⟨h1, h2⟩, h3⟩, h4⟩, h5⟩, h6⟩, h7⟩, h8⟩, h9⟩, h10⟩, h11⟩ := h
  refine ⟨?_, sub_of_chk h2, sub_of_chk h3, ?_, ?_, h8, h9, h10, h11⟩
  · intro d hd
    simpa using List.all_eq_true.1 h1 d hd
  · intro c hc
    simp only [isAlpha, NQ.isAlpha, Bool.or_eq_true, Bool.and_eq_true, decide_eq_true_eq] at hc
    rcases hc with hc | hc
    · exact rangeWithin_sound h4 hc.1 hc.2
    · exact rangeWithin_sound h5 hc.1 hc.2
  · intro c hc
    rcases hc with hc | hc
    · simp only [isDigit, NQ.isDigit, Bool.and_eq_true, decide_eq_true_eq] at hc
      exact rangeAvoids_sound h6 hc.1 hc.2
    · subst hc
      exact rangeAvoids_sound h7 (Nat.le_refl _) (Nat.le_refl _)

theorem gen_turtle_ok2 : TablesOK2 Gen.turtle := tablesOK2_of_chk _ (by decide)
theorem gen_trig_ok2 : TablesOK2 Gen.trig := tablesOK2_of_chk _ (by decide)

/-- `unicode.IsSpace` (regenerated) contains no name character other than U+1680 and no delimiter
    other than the four white-space characters -/
def spaceChk (T : Tables) (sp : RangeSet) : Bool :=
  sp.all (fun e => ((e.1 == 0x1680 && e.2 == 0x1680) || rangeAvoids T.pnChars e.1 e.2) &&
    delims.all (fun d => !(decide (e.1 ≤ d) && decide (d ≤ e.2)) || isWsRune d))

theorem space_not_solid (T : Tables) (sp : RangeSet) (h : spaceChk T sp = true) :
    ∀ c, solid T c = true → inRanges sp c = false := by
  intro c hs
  cases hc : inRanges sp c with
  | false => rfl
  | true =>
    exfalso
    rw [inRanges_iff] at hc
    obtain ⟨e, he, h1, h2⟩ := hc
    have := List.all_eq_true.1 h e he
    simp only [Bool.and_eq_true, Bool.or_eq_true, beq_iff_eq] at this
    have hpn : (inRanges T.pnChars c && c != 0x1680) = false := by
      rcases this.1 with h16 | hav
      · have : c = 0x1680 := by omega
        simp [this]
      · simp [rangeAvoids_sound hav h1 h2]
    simp only [solid, hpn, Bool.false_or, Bool.and_eq_true, Bool.not_eq_true'] at hs
    have hd := List.all_eq_true.1 this.2 c (by simpa using hs.1)
    simp [h1, h2, hs.2] at hd

theorem cfgOK_real (trig : Bool) (resolve : Option (List Nat) → List Nat → Option (List Nat)) :
    CfgOK (if trig then Gen.trig else Gen.turtle) (C05.realCfg trig resolve (inRanges Gen.unicodeSpace)) where
  prod := rfl
  pnb := fun _ => rfl
  ws := by
    intro c hc
    simp only [isWsRune, Bool.or_eq_true, decide_eq_true_eq] at hc
    show inRanges Gen.unicodeSpace c = true
    rcases hc with ((hc | hc) | hc) | hc <;> subst hc <;> decide
  nsp := by
    cases trig
    · exact space_not_solid Gen.turtle Gen.unicodeSpace (by decide)
    · exact space_not_solid Gen.trig Gen.unicodeSpace (by decide)

end RdfModel.C08
