/-
  C06 — every statement the Turtle / TriG decoder yields is a well-formed triple or quad
  (statement layer). For ALL inputs, grammatical or not; statements yielded before an error
  count too (`run` collects every statement of every `Next() = true`).

  `WFStmt` (Props/C05TtlDefs.lean): subject present and IRI/blank node, predicate present and an
  IRI, object present (by type), graph name absent or (TriG only) IRI/blank node; a literal carries
  a (non-empty) language tag EXACTLY when its datatype is rdf:langString and rdf:dirLangString never
  occurs (repaired code, D41: `"x"^^rdf:langString` is an error). Blank nodes carry an identity by
  construction (`BN.anon n` from the factory counter, `BN.lbl l` from a label). Every literal has
  a datatype by construction (`Term.lit` has no optional datatype).

  Absoluteness of IRIs under an absolute base depends on the IRI resolver (`/repo/iri`, a
  `net/url` wrapper) and is checked by the harness oracle only.
-/
import RdfModel.Props.C05Ttl
namespace RdfModel.C06
open RdfModel RdfModel.TtlDoc

/-- Every statement of every run is well formed (`trig` is the package flag of `C`). -/
theorem doc_emits_wf (C : Cfg) (e : End) (hP : C.P.NoPanic) (hL : C.P.LangNonEmpty)
    (base : Option (List Nat)) (pf : List (List Nat × List Nat)) (inp : List Nat) :
    ∀ s ∈ (run C e base pf inp).1, WFStmt C.trig s :=
  (runLoop_ok hP hL _ _ (mInv_init C e base pf inp)).2.1

/-- Turtle: subject and predicate are never nil, no graph name (repaired code, D11). -/
theorem ttl_emits_wf (resolve) (isSpace) (e : End) (base : Option (List Nat)) (pf : List (List Nat × List Nat))
    (inp : List Nat) : ∀ s ∈ (run (C05.realCfg false resolve isSpace) e base pf inp).1, WFStmt false s := by
  obtain ⟨h1, _, h3⟩ := C05.real_producers_ok _ C05.gen_tables_nul.1
  exact doc_emits_wf (C05.realCfg false resolve isSpace) e h1 h3 base pf inp

/-- TriG (repaired code, D40). -/
theorem trig_emits_wf (resolve) (isSpace) (e : End) (base : Option (List Nat)) (pf : List (List Nat × List Nat))
    (inp : List Nat) : ∀ s ∈ (run (C05.realCfg true resolve isSpace) e base pf inp).1, WFStmt true s := by
  obtain ⟨h1, _, h3⟩ := C05.real_producers_ok _ C05.gen_tables_nul.2
  exact doc_emits_wf (C05.realCfg true resolve isSpace) e h1 h3 base pf inp

/-- In Turtle no statement has a graph name. -/
theorem ttl_default_graph (resolve) (isSpace) (e : End) (base : Option (List Nat)) (pf : List (List Nat × List Nat))
    (inp : List Nat) : ∀ s ∈ (run (C05.realCfg false resolve isSpace) e base pf inp).1, s.g = none := by
  intro s hs
  have := (ttl_emits_wf resolve isSpace e base pf inp s hs).graph
  cases hg : s.g with
  | none => rfl
  | some g => exact absurd (this g hg).1 (by simp)

/-- The literal condition of C06 spelled out: tag present ⇔ datatype rdf:langString. -/
theorem literal_tag_iff (C : Cfg) (e : End) (hP : C.P.NoPanic) (hL : C.P.LangNonEmpty)
    (base : Option (List Nat)) (pf : List (List Nat × List Nat)) (inp : List Nat) :
    ∀ s ∈ (run C e base pf inp).1, ∀ lex dt lang, s.o = .lit lex dt lang →
      ((∃ t, lang = some t ∧ t ≠ []) ↔ dt = rdfLangString) ∧ dt ≠ rdfDirLangString := by
  intro s hs lex dt lang ho
  have := (doc_emits_wf C e hP hL base pf inp s hs).obj
  rw [ho] at this
  cases lang with
  | none => exact ⟨⟨(fun ⟨t, h, _⟩ => by cases h), (fun h => absurd h this.1)⟩, this.2⟩
  | some t =>
    refine ⟨⟨fun _ => this.1, fun _ => ⟨t, rfl, this.2⟩⟩, ?_⟩
    rw [this.1]; decide

/-- D41 (repaired): the explicit datatype is rejected; nothing is yielded for that statement. -/
example :
    run (C05.realCfg false (fun _ r => some r) (fun c => c = 0x20)) .eof none []
      (asc "<a> <b> \"x\"^^<http://www.w3.org/1999/02/22-rdf-syntax-ns#langString> .") = ([], .error .syntax) := by
  decide

end RdfModel.C06
