/-
  Proofs.C02Tok — the encoder's formatters are inverted by the decoder's producers
  (formatIRI / produceIRIREF, formatLiteralLexicalForm / produceString,
   format_PN_LOCAL / producePrefixedName).
-/
import RdfModel.Props.C02TokensDefs
namespace RdfModel.Proofs.C02Tok
open RdfModel RdfModel.Ttl RdfModel.C02

theorem isScalar_le {c : Nat} (h : IsScalar c) : c ≤ 0x10FFFF := by
  unfold IsScalar at h; omega

/-! ### IRIREF -/

theorem scanIRIREF_body_bs (T : Tables) (e : End) (r acc : List Nat) :
    scanIRIREF T e .body (0x5c :: r) acc = scanIRIREF T e .esc r acc := by
  simp [scanIRIREF]

theorem scanIRIREF_esc_u (T : Tables) (e : End) (r acc : List Nat) :
    scanIRIREF T e .esc (0x75 :: r) acc = scanIRIREF T e (.hex uchar4Maxs 0) r acc := by
  simp [scanIRIREF]

theorem scanIRIREF_esc_U (T : Tables) (e : End) (r acc : List Nat) :
    scanIRIREF T e .esc (0x55 :: r) acc = scanIRIREF T e (.hex uchar8Maxs 0) r acc := by
  simp [scanIRIREF]

theorem scanIRIREF_hex_more (T : Tables) (e : End) (m m' : Nat) (ms : List Nat)
    (v d x : Nat) (hx : lookup T.hexDec 0 x = d + 1) (hm : d ≤ m) (r acc : List Nat) :
    scanIRIREF T e (.hex (m :: m' :: ms) v) (x :: r) acc
      = scanIRIREF T e (.hex (m' :: ms) (v * 16 + d)) r acc := by
  rw [scanIRIREF]
  rw [hx]
  simp only
  rw [if_neg (by omega)]

theorem scanIRIREF_hex_last (T : Tables) (e : End) (m : Nat)
    (v d x : Nat) (hx : lookup T.hexDec 0 x = d + 1) (hm : d ≤ m) (r acc : List Nat) :
    scanIRIREF T e (.hex [m] v) (x :: r) acc
      = scanIRIREF T e .body r ((v * 16 + d) :: acc) := by
  rw [scanIRIREF]
  rw [hx]
  simp only
  rw [if_neg (by omega)]

theorem scanIRIREF_u4 (T : Tables) (hT : TablesOK T) (e : End) (c : Nat) (hc : c ≤ 0xFFFF)
    (r acc : List Nat) :
    scanIRIREF T e .body (0x5c :: 0x75 :: (hex4 c ++ r)) acc = scanIRIREF T e .body r (c :: acc) := by
  rw [scanIRIREF_body_bs, scanIRIREF_esc_u]
  simp only [hex4, uchar4Maxs, NQ.uchar4Maxs, List.cons_append, List.nil_append]
  rw [scanIRIREF_hex_more T e _ _ _ _ _ _ (hT.hex _ (by omega)) (by omega),
      scanIRIREF_hex_more T e _ _ _ _ _ _ (hT.hex _ (by omega)) (by omega),
      scanIRIREF_hex_more T e _ _ _ _ _ _ (hT.hex _ (by omega)) (by omega),
      scanIRIREF_hex_last T e _ _ _ _ (hT.hex _ (by omega)) (by omega)]
  congr 2
  omega

theorem scanIRIREF_u8 (T : Tables) (hT : TablesOK T) (e : End) (c : Nat) (hc : c ≤ 0x10FFFF)
    (r acc : List Nat) :
    scanIRIREF T e .body (0x5c :: 0x55 :: (hex8 c ++ r)) acc = scanIRIREF T e .body r (c :: acc) := by
  rw [scanIRIREF_body_bs, scanIRIREF_esc_U]
  simp only [hex8, uchar8Maxs, NQ.uchar8Maxs, List.cons_append, List.nil_append]
  rw [scanIRIREF_hex_more T e _ _ _ _ _ _ (hT.hex _ (by omega)) (by omega),
      scanIRIREF_hex_more T e _ _ _ _ _ _ (hT.hex _ (by omega)) (by omega),
      scanIRIREF_hex_more T e _ _ _ _ _ _ (hT.hex _ (by omega)) (by omega),
      scanIRIREF_hex_more T e _ _ _ _ _ _ (hT.hex _ (by omega)) (by omega),
      scanIRIREF_hex_more T e _ _ _ _ _ _ (hT.hex _ (by omega)) (by omega),
      scanIRIREF_hex_more T e _ _ _ _ _ _ (hT.hex _ (by omega)) (by omega),
      scanIRIREF_hex_more T e _ _ _ _ _ _ (hT.hex _ (by omega)) (by omega),
      scanIRIREF_hex_last T e _ _ _ _ (hT.hex _ (by omega)) (by omega)]
  congr 2
  omega

theorem escIRIRune_0 {T : Tables} {a : Bool} {c : Nat} (h : lookup (T.iriEsc a) 0 c = 0) :
    escIRIRune T a c = [c] := by simp [escIRIRune, h]
theorem escIRIRune_1 {T : Tables} {a : Bool} {c : Nat} (h : lookup (T.iriEsc a) 0 c = 1) :
    escIRIRune T a c = 0x5c :: 0x75 :: hex4 c := by simp [escIRIRune, h]
theorem escIRIRune_2 {T : Tables} {a : Bool} {c : Nat} (h : lookup (T.iriEsc a) 0 c = 2) :
    escIRIRune T a c = 0x5c :: 0x55 :: hex8 c := by simp [escIRIRune, h]

/-- The IRIREF scanner inverts `formatIRI` on scalar strings. -/
theorem scanIRIREF_format (T : Tables) (hT : TablesOK T) (e : End) (ascii : Bool) (s : List Nat)
    (hs : Scalars s) (rest acc : List Nat) :
    scanIRIREF T e .body (formatIRI T ascii s ++ 0x3e :: rest) acc
      = .ok (goString (acc.reverse ++ s)) rest := by
  induction s generalizing acc with
  | nil => simp [formatIRI, scanIRIREF]
  | cons c s ih =>
    have hc : IsScalar c := hs c List.mem_cons_self
    have hs' : Scalars s := fun x hx => hs x (List.mem_cons_of_mem _ hx)
    have hmode := hT.iri_mode ascii c
    have ih' := fun acc => ih hs' acc
    simp only [formatIRI, List.flatMap_cons, List.append_assoc] at ih' ⊢
    obtain h0 | h1 | h2 : lookup (T.iriEsc ascii) 0 c = 0 ∨ lookup (T.iriEsc ascii) 0 c = 1 ∨
        lookup (T.iriEsc ascii) 0 c = 2 := by omega
    · obtain ⟨hf, h3e, h5c⟩ := hT.iri_raw ascii c h0
      rw [escIRIRune_0 h0]
      simp only [List.cons_append, List.nil_append]
      rw [scanIRIREF]
      rw [if_neg h3e, if_neg h5c, hf]
      simp only [Bool.false_eq_true, if_false]
      rw [ih']
      simp
    · have := hT.iri_u4 ascii c h1
      rw [escIRIRune_1 h1]
      simp only [List.cons_append]
      rw [scanIRIREF_u4 T hT e c this, ih']
      simp
    · rw [escIRIRune_2 h2]
      simp only [List.cons_append]
      rw [scanIRIREF_u8 T hT e c (isScalar_le hc), ih']
      simp

theorem iriref_roundtrip (T : Tables) (hT : TablesOK T) (e : End) (ascii : Bool) (s : List Nat)
    (hs : Scalars s) (rest : List Nat) :
    produceIRIREF T e (0x3c :: (formatIRI T ascii s ++ 0x3e :: rest)) = .ok s rest := by
  simp only [produceIRIREF, if_true]
  rw [scanIRIREF_format T hT e ascii s hs]
  simp [goString_id_of_scalar hs]

/-! ### String (the `"…"` style the encoder writes) -/

theorem scanString_body_bs (T : Tables) (e : End) (q : Nat) (t : Bool) (r acc : List Nat) :
    scanString T e q t .body (0x5c :: r) acc = scanString T e q t .esc r acc := by
  simp [scanString]

theorem scanString_esc_u (T : Tables) (e : End) (q : Nat) (t : Bool) (r acc : List Nat) :
    scanString T e q t .esc (0x75 :: r) acc = scanString T e q t (.hex uchar4Maxs 0) r acc := by
  simp [scanString]

theorem scanString_esc_U (T : Tables) (e : End) (q : Nat) (t : Bool) (r acc : List Nat) :
    scanString T e q t .esc (0x55 :: r) acc = scanString T e q t (.hex uchar8Maxs 0) r acc := by
  simp [scanString]

theorem scanString_hex_more (T : Tables) (e : End) (q : Nat) (t : Bool) (m m' : Nat) (ms : List Nat)
    (v d x : Nat) (hx : lookup T.hexDec 0 x = d + 1) (hm : d ≤ m) (r acc : List Nat) :
    scanString T e q t (.hex (m :: m' :: ms) v) (x :: r) acc
      = scanString T e q t (.hex (m' :: ms) (v * 16 + d)) r acc := by
  rw [scanString]
  rw [hx]
  simp only
  rw [if_neg (by omega)]

theorem scanString_hex_last (T : Tables) (e : End) (q : Nat) (t : Bool) (m : Nat)
    (v d x : Nat) (hx : lookup T.hexDec 0 x = d + 1) (hm : d ≤ m) (r acc : List Nat) :
    scanString T e q t (.hex [m] v) (x :: r) acc
      = scanString T e q t .body r ((v * 16 + d) :: acc) := by
  rw [scanString]
  rw [hx]
  simp only
  rw [if_neg (by omega)]

theorem scanString_u4 (T : Tables) (hT : TablesOK T) (e : End) (q : Nat) (t : Bool) (c : Nat)
    (hc : c ≤ 0xFFFF) (r acc : List Nat) :
    scanString T e q t .body (0x5c :: 0x75 :: (hex4 c ++ r)) acc
      = scanString T e q t .body r (c :: acc) := by
  rw [scanString_body_bs, scanString_esc_u]
  simp only [hex4, uchar4Maxs, NQ.uchar4Maxs, List.cons_append, List.nil_append]
  rw [scanString_hex_more T e q t _ _ _ _ _ _ (hT.hex _ (by omega)) (by omega),
      scanString_hex_more T e q t _ _ _ _ _ _ (hT.hex _ (by omega)) (by omega),
      scanString_hex_more T e q t _ _ _ _ _ _ (hT.hex _ (by omega)) (by omega),
      scanString_hex_last T e q t _ _ _ _ (hT.hex _ (by omega)) (by omega)]
  congr 2
  omega

theorem scanString_u8 (T : Tables) (hT : TablesOK T) (e : End) (q : Nat) (t : Bool) (c : Nat)
    (hc : c ≤ 0x10FFFF) (r acc : List Nat) :
    scanString T e q t .body (0x5c :: 0x55 :: (hex8 c ++ r)) acc
      = scanString T e q t .body r (c :: acc) := by
  rw [scanString_body_bs, scanString_esc_U]
  simp only [hex8, uchar8Maxs, NQ.uchar8Maxs, List.cons_append, List.nil_append]
  rw [scanString_hex_more T e q t _ _ _ _ _ _ (hT.hex _ (by omega)) (by omega),
      scanString_hex_more T e q t _ _ _ _ _ _ (hT.hex _ (by omega)) (by omega),
      scanString_hex_more T e q t _ _ _ _ _ _ (hT.hex _ (by omega)) (by omega),
      scanString_hex_more T e q t _ _ _ _ _ _ (hT.hex _ (by omega)) (by omega),
      scanString_hex_more T e q t _ _ _ _ _ _ (hT.hex _ (by omega)) (by omega),
      scanString_hex_more T e q t _ _ _ _ _ _ (hT.hex _ (by omega)) (by omega),
      scanString_hex_more T e q t _ _ _ _ _ _ (hT.hex _ (by omega)) (by omega),
      scanString_hex_last T e q t _ _ _ _ (hT.hex _ (by omega)) (by omega)]
  congr 2
  omega

/-- The letters `echarDecode` accepts. -/
theorem echarDecode_some {x c : Nat} (h : echarDecode x = some c) :
    (x = 0x74 ∨ x = 0x62 ∨ x = 0x6e ∨ x = 0x72 ∨ x = 0x66 ∨ x = 0x22 ∨ x = 0x27 ∨ x = 0x5c) := by
  unfold echarDecode NQ.echarDecode at h
  repeat' split at h
  all_goals first | omega | (simp at h)

theorem scanString_echar (T : Tables) (e : End) (q : Nat) (t : Bool) (x c : Nat)
    (h : echarDecode x = some c) (r acc : List Nat) :
    scanString T e q t .body (0x5c :: x :: r) acc = scanString T e q t .body r (c :: acc) := by
  have hx := echarDecode_some h
  rw [scanString_body_bs, scanString]
  rw [if_neg (by omega), if_neg (by omega), h]

theorem escLitRune_0 {T : Tables} {a : Bool} {c : Nat} (h : lookup (T.litEsc a) 0 c = 0) :
    escLitRune T a c = [c] := by simp [escLitRune, h]
theorem escLitRune_1 {T : Tables} {a : Bool} {c : Nat} (h : lookup (T.litEsc a) 0 c = 1) :
    escLitRune T a c = [0x5c, lookup T.echar 0 c] := by simp [escLitRune, h]
theorem escLitRune_2 {T : Tables} {a : Bool} {c : Nat} (h : lookup (T.litEsc a) 0 c = 2) :
    escLitRune T a c = 0x5c :: 0x75 :: hex4 c := by simp [escLitRune, h]
theorem escLitRune_3 {T : Tables} {a : Bool} {c : Nat} (h : lookup (T.litEsc a) 0 c = 3) :
    escLitRune T a c = 0x5c :: 0x55 :: hex8 c := by simp [escLitRune, h]

/-- A raw rune other than `"` and `\` is appended by the short-`"` scanner. -/
theorem scanString_raw (T : Tables) (e : End) (c : Nat) (h22 : c ≠ 0x22) (h5c : c ≠ 0x5c)
    (r acc : List Nat) :
    scanString T e 0x22 false .body (c :: r) acc = scanString T e 0x22 false .body r (c :: acc) := by
  conv => lhs; unfold scanString
  by_cases h27 : c = 0x27
  · subst h27; simp
  · simp [h22, h27, h5c]

/-- The short-`"` scanner inverts `litBody` on scalar strings. -/
theorem scanString_format (T : Tables) (hT : TablesOK T) (e : End) (ascii : Bool) (s : List Nat)
    (hs : Scalars s) (rest acc : List Nat) :
    scanString T e 0x22 false .body (litBody T ascii s ++ 0x22 :: rest) acc
      = .ok (goString (acc.reverse ++ s)) rest := by
  induction s generalizing acc with
  | nil => simp [litBody, scanString]
  | cons c s ih =>
    have hc : IsScalar c := hs c List.mem_cons_self
    have hs' : Scalars s := fun x hx => hs x (List.mem_cons_of_mem _ hx)
    have hmode := hT.lit_mode ascii c
    have ih' := fun acc => ih hs' acc
    simp only [litBody, List.flatMap_cons, List.append_assoc] at ih' ⊢
    obtain h0 | h1 | h2 | h3 : lookup (T.litEsc ascii) 0 c = 0 ∨ lookup (T.litEsc ascii) 0 c = 1 ∨
        lookup (T.litEsc ascii) 0 c = 2 ∨ lookup (T.litEsc ascii) 0 c = 3 := by omega
    · have hr := hT.lit_raw ascii c h0
      rw [escLitRune_0 h0]
      simp only [List.cons_append, List.nil_append]
      rw [scanString_raw T e c hr.1 hr.2, ih']
      simp
    · have := hT.lit_echar ascii c h1
      rw [escLitRune_1 h1]
      simp only [List.cons_append, List.nil_append]
      rw [scanString_echar T e _ _ _ c this, ih']
      simp
    · have := hT.lit_u4 ascii c h2
      rw [escLitRune_2 h2]
      simp only [List.cons_append]
      rw [scanString_u4 T hT e _ _ c this, ih']
      simp
    · rw [escLitRune_3 h3]
      simp only [List.cons_append]
      rw [scanString_u8 T hT e _ _ c (isScalar_le hc), ih']
      simp

/-- First rune of `litBody s ++ '"' :: rest`, when `s` is not empty, is not `"`. -/
theorem litBody_head (T : Tables) (hT : TablesOK T) (ascii : Bool) (c : Nat) (s rest : List Nat) :
    ∃ x tl, litBody T ascii (c :: s) ++ 0x22 :: rest = x :: tl ∧ x ≠ 0x22 := by
  have hmode := hT.lit_mode ascii c
  simp only [litBody, List.flatMap_cons, List.append_assoc]
  obtain h0 | h1 | h2 | h3 : lookup (T.litEsc ascii) 0 c = 0 ∨ lookup (T.litEsc ascii) 0 c = 1 ∨
      lookup (T.litEsc ascii) 0 c = 2 ∨ lookup (T.litEsc ascii) 0 c = 3 := by omega
  · rw [escLitRune_0 h0]; exact ⟨c, _, rfl, (hT.lit_raw ascii c h0).1⟩
  · rw [escLitRune_1 h1]; exact ⟨0x5c, _, rfl, by decide⟩
  · rw [escLitRune_2 h2]; exact ⟨0x5c, _, rfl, by decide⟩
  · rw [escLitRune_3 h3]; exact ⟨0x5c, _, rfl, by decide⟩

theorem string_roundtrip (T : Tables) (hT : TablesOK T) (e : End) (ascii : Bool) (s : List Nat)
    (hs : Scalars s) (rest : List Nat) (hstop : s = [] → EmptyStrStop e rest) :
    produceString T e (formatLiteralLexicalForm T ascii s ++ rest) = .ok s rest := by
  cases s with
  | nil =>
    have hstop := hstop rfl
    simp only [formatLiteralLexicalForm, litBody, List.flatMap_nil, List.nil_append, List.cons_append]
    cases rest with
    | nil =>
      simp only [EmptyStrStop] at hstop
      subst hstop
      simp [produceString]
    | cons c r =>
      simp only [EmptyStrStop] at hstop
      simp [produceString, hstop]
  | cons c s =>
    obtain ⟨x, tl, hxt, hx⟩ := litBody_head T hT ascii c s rest
    have hfmt : formatLiteralLexicalForm T ascii (c :: s) ++ rest
        = 0x22 :: (litBody T ascii (c :: s) ++ 0x22 :: rest) := by
      simp [formatLiteralLexicalForm]
    rw [hfmt, hxt]
    simp only [produceString, true_or, if_true]
    rw [if_neg hx, ← hxt, scanString_format T hT e ascii (c :: s) hs]
    simp [goString_id_of_scalar hs]

/-! ### prefixed names -/

theorem pnameNsLoop_ok (T : Tables) (e : End) (xs : List Nat) :
    ∀ acc rest, (∀ x ∈ xs, ((inRanges T.pnChars x || x = 0x2e) && x != 0x3a) = true) →
      pnameNsLoop T e (xs ++ 0x3a :: rest) acc = .ok (goString (acc.reverse ++ xs)) rest := by
  induction xs with
  | nil => intro acc rest _; simp [pnameNsLoop]
  | cons x xs ih =>
    intro acc rest h
    have hx := h x List.mem_cons_self
    simp only [Bool.and_eq_true, bne_iff_ne, ne_eq] at hx
    simp only [List.cons_append]
    unfold pnameNsLoop
    rw [if_neg hx.2, if_pos hx.1, ih _ _ (fun y hy => h y (List.mem_cons_of_mem _ hy))]
    simp

/-- `producePNAME_NS` reads a well-formed prefix label followed by ':'. -/
theorem pnameNs_ok (T : Tables) (e : End) (p rest : List Nat) (hp : prefixOK T p = true)
    (hs : Scalars p) : producePNAME_NS T e (p ++ 0x3a :: rest) = .ok p rest := by
  cases p with
  | nil => simp [producePNAME_NS]
  | cons c xs =>
    simp only [prefixOK, Bool.and_eq_true, List.all_eq_true, bne_iff_ne, ne_eq] at hp
    obtain ⟨⟨h1, h2⟩, h3⟩ := hp
    simp only [List.cons_append, producePNAME_NS]
    rw [if_neg h2, if_pos h1, pnameNsLoop_ok T e xs [c] rest
      (fun x hx => by simpa [Bool.and_eq_true] using h3 x hx)]
    simp [goString_id_of_scalar hs]

/-- Whether the last rune of the local name was written as `\x` (for `localDone`). -/
def lastEscFrom (T : Tables) : Bool → List Nat → Bool → Bool
  | _, [], le => le
  | first, c :: rest, _ =>
    lastEscFrom T false rest (lookup (T.localEsc first rest.isEmpty) 0 c = 2)

theorem scanLocal_stop (T : Tables) (e : End) (rest acc : List Nat) (le : Bool)
    (hstop : LocalStop T e rest) :
    scanLocal T e .body rest acc le = localDone acc le rest := by
  cases rest with
  | nil => simp only [LocalStop] at hstop; subst hstop; simp [scanLocal]
  | cons c r =>
    simp only [LocalStop] at hstop
    obtain ⟨h1, _, _, h4, h5, h6, h7⟩ := hstop
    rw [scanLocal]
    simp [h1, h4, h5, h6, h7]

/-- Body loop on the formatted rest of a local name. -/
theorem scanLocal_body (T : Tables) (hT : TablesOK T) (e : End) (loc : List Nat) :
    ∀ (out acc : List Nat) (le : Bool) (rest : List Nat), Scalars loc →
      localOKFrom T false loc = true → formatLocalFrom T false loc = some out →
      LocalStop T e rest →
      scanLocal T e .body (out ++ rest) acc le
        = localDone (loc.reverse ++ acc) (lastEscFrom T false loc le) rest := by
  induction loc with
  | nil =>
    intro out acc le rest _ _ hf hstop
    simp only [formatLocalFrom, Option.some.injEq] at hf
    subst hf
    simpa [lastEscFrom] using scanLocal_stop T e rest acc le hstop
  | cons c loc ih =>
    intro out acc le rest hs hok hf hstop
    have hc : c ≤ 0x10FFFF := isScalar_le (hs c List.mem_cons_self)
    have hs' : Scalars loc := fun x hx => hs x (List.mem_cons_of_mem _ hx)
    simp only [localOKFrom, Bool.and_eq_true, Bool.or_eq_true, decide_eq_true_eq] at hok
    obtain ⟨hm, hok'⟩ := hok
    unfold formatLocalFrom at hf
    rcases hm with hm | hm
    · -- raw
      rw [hm] at hf
      simp only [Option.map_eq_some_iff] at hf
      obtain ⟨t, ht, rfl⟩ := hf
      have hacc := hT.loc_raw_body _ c hc hm
      simp only [List.cons_append]
      rw [scanLocal, if_pos hacc, ih t (c :: acc) false rest hs' hok' ht hstop]
      simp [lastEscFrom, hm]
    · -- escaped
      rw [hm] at hf
      simp only [Option.map_eq_some_iff] at hf
      obtain ⟨t, ht, rfl⟩ := hf
      have hesc := hT.loc_esc _ _ c hm
      simp only [List.cons_append]
      rw [scanLocal]
      have h1 : ¬ ((inRanges T.pnChars 0x5c || decide ((0x5c : Nat) = 0x2e) || decide ((0x5c : Nat) = 0x3a)) = true) := by
        simp [hT.pn_bs]
      rw [if_neg h1, if_neg (by decide), if_pos rfl, scanLocal, if_pos hesc,
        ih t (c :: acc) true rest hs' hok' ht hstop]
      simp [lastEscFrom, hm]

/-- For a local name the encoder writes unchanged, a final '.' was escaped. -/
theorem lastEsc_dot (T : Tables) (hT : TablesOK T) (loc : List Nat) :
    ∀ (first : Bool) (le : Bool) (acc : List Nat), loc ≠ [] → localOKFrom T first loc = true →
      (loc.reverse ++ acc).head? = some 0x2e → lastEscFrom T first loc le = true := by
  induction loc with
  | nil => intro _ _ _ h; exact absurd rfl h
  | cons c loc ih =>
    intro first le acc _ hok hhead
    simp only [localOKFrom, Bool.and_eq_true, Bool.or_eq_true, decide_eq_true_eq] at hok
    obtain ⟨hm, hok'⟩ := hok
    cases loc with
    | nil =>
      simp only [List.reverse_cons, List.reverse_nil, List.nil_append, List.cons_append,
        List.head?_cons, Option.some.injEq] at hhead
      subst hhead
      simp only [List.isEmpty_nil] at hm
      rcases hm with hm | hm
      · exact absurd rfl (hT.loc_raw_last first _ hm)
      · simp [lastEscFrom, hm]
    | cons d loc' =>
      have hstep : lastEscFrom T first (c :: d :: loc') le
          = lastEscFrom T false (d :: loc')
              (decide (lookup (T.localEsc first (d :: loc').isEmpty) 0 c = 2)) := rfl
      rw [hstep]
      exact ih false _ (c :: acc) (by simp) hok'
        (by simpa [List.reverse_cons, List.append_assoc] using hhead)

theorem localDone_keep (acc : List Nat) (le : Bool) (rest : List Nat) (hne : acc ≠ [])
    (h : acc.head? = some 0x2e → le = true) :
    localDone acc le rest = .ok (goString acc.reverse) rest := by
  cases acc with
  | nil => exact absurd rfl hne
  | cons l more =>
    simp only [localDone]
    by_cases hl : l = 0x2e
    · subst hl
      have := h rfl
      subst this
      simp
    · simp [hl]

/-- The PN_LOCAL scanner inverts `format_PN_LOCAL` on local names it writes unchanged. -/
theorem scanLocal_format (T : Tables) (hT : TablesOK T) (e : End) (loc out rest : List Nat)
    (hs : Scalars loc) (hok : PNLocalOK T loc = true) (hf : format_PN_LOCAL T loc = some out)
    (hstop : LocalStop T e rest) :
    scanLocal T e .first (out ++ rest) [] false = .ok loc rest := by
  cases loc with
  | nil =>
    simp only [format_PN_LOCAL, formatLocalFrom, Option.some.injEq] at hf
    subst hf
    cases rest with
    | nil => simp only [LocalStop] at hstop; subst hstop; simp [scanLocal]
    | cons c r =>
      simp only [LocalStop] at hstop
      obtain ⟨_, h2, h3, _, h5, h6, h7⟩ := hstop
      simp only [List.nil_append]
      rw [scanLocal]
      simp [h2, h3, h5, h6, h7]
  | cons c loc =>
    have hc : c ≤ 0x10FFFF := isScalar_le (hs c List.mem_cons_self)
    have hs' : Scalars loc := fun x hx => hs x (List.mem_cons_of_mem _ hx)
    have hok0 := hok
    simp only [PNLocalOK, localOKFrom, Bool.and_eq_true, Bool.or_eq_true, decide_eq_true_eq] at hok
    obtain ⟨hm, hok'⟩ := hok
    simp only [format_PN_LOCAL] at hf
    unfold formatLocalFrom at hf
    have hfin : ∀ le0, localDone ((c :: loc).reverse ++ []) (lastEscFrom T true (c :: loc) le0) rest
        = .ok (c :: loc) rest := by
      intro le0
      rw [localDone_keep _ _ _ (by simp)
        (fun hh => lastEsc_dot T hT (c :: loc) true le0 [] (by simp) hok0 hh)]
      simp [goString_id_of_scalar hs]
    rcases hm with hm | hm
    · rw [hm] at hf
      simp only [Option.map_eq_some_iff] at hf
      obtain ⟨t, ht, rfl⟩ := hf
      have hacc := hT.loc_raw_first _ c hc hm
      simp only [List.cons_append]
      rw [scanLocal, if_pos hacc, scanLocal_body T hT e loc t [c] false rest hs' hok' ht hstop]
      have := hfin false
      simpa [lastEscFrom, hm, List.reverse_cons, List.append_assoc] using this
    · rw [hm] at hf
      simp only [Option.map_eq_some_iff] at hf
      obtain ⟨t, ht, rfl⟩ := hf
      have hesc := hT.loc_esc _ _ c hm
      simp only [List.cons_append]
      rw [scanLocal]
      have h1 : ¬ ((inRanges T.pnCharsU 0x5c || decide ((0x5c : Nat) = 0x3a) || isDigit 0x5c) = true) := by
        simp [hT.pnU_bs, isDigit, NQ.isDigit]
      rw [if_neg h1, if_neg (by decide), if_pos rfl, scanLocal, if_pos hesc,
        scanLocal_body T hT e loc t [c] true rest hs' hok' ht hstop]
      have := hfin false
      simpa [lastEscFrom, hm, List.reverse_cons, List.append_assoc] using this

/-- `PNLocalOK` names are exactly those `format_PN_LOCAL` writes with modes 0/2 only; in particular it succeeds. -/
theorem format_some_of_ok (T : Tables) (loc : List Nat) :
    ∀ first, localOKFrom T first loc = true → ∃ out, formatLocalFrom T first loc = some out := by
  induction loc with
  | nil => intro _ _; exact ⟨[], rfl⟩
  | cons c loc ih =>
    intro first hok
    simp only [localOKFrom, Bool.and_eq_true, Bool.or_eq_true, decide_eq_true_eq] at hok
    obtain ⟨hm, hok'⟩ := hok
    obtain ⟨t, ht⟩ := ih false hok'
    unfold formatLocalFrom
    rcases hm with hm | hm <;> rw [hm] <;> simp [ht]

theorem pname_roundtrip (T : Tables) (hT : TablesOK T) (e : End) (pfx loc rest : List Nat)
    (hp : prefixOK T pfx = true) (hps : Scalars pfx) (hs : Scalars loc)
    (hok : PNLocalOK T loc = true) (hstop : LocalStop T e rest) :
    ∃ out, format_PN_LOCAL T loc = some out ∧
      producePrefixedName T e (pfx ++ 0x3a :: (out ++ rest)) = .ok (pfx, loc) rest := by
  obtain ⟨out, hout⟩ := format_some_of_ok T loc true hok
  refine ⟨out, hout, ?_⟩
  unfold producePrefixedName
  rw [pnameNs_ok T e pfx _ hp hps]
  simp only
  rw [scanLocal_format T hT e loc out rest hs hok hout hstop]

end RdfModel.Proofs.C02Tok
