/-
  Part C10C (serves C10, C05): theorems about the executable model of the JSON-LD context machinery
  (Model/JsonLdContext.lean; the driver component `ctx` runs exactly these definitions with
  Model/JsonLdContextIri.piriOps).
-/
import RdfModel.Model.JsonLdContextIri
import RdfModel.Proofs.C10CtxPanic
import RdfModel.Proofs.C10CtxPrefix
import RdfModel.Proofs.C12WrapPanic
namespace RdfModel.C10Ctx
open RdfModel RdfModel.JL RdfModel.JLC

/-! ## C05: no panic -/

/-- the model of `iri.ParsedIRI` / `net/url` never panics (Props/C12Wrap) -/
theorem piriOps_total : OpsTotal piriOps where
  parse s := by
    have := C12W.parseIRI_no_panic s
    simp only [piriOps]
    split <;> simp_all
  resolve b r := by
    have := C12W.resolveReference_no_panic b r
    simp only [piriOps]
    split <;> simp_all
  goAbs s := by
    have := C12W.parse_no_panic s
    simp only [piriOps]
    split <;> (try split) <;> simp_all

/-- Context Processing (with every nested Create Term Definition, IRI Expansion and scoped-context
    validation) never panics: for every parsed-IRI implementation that does not panic, every
    processing mode, fuel, active context, local context (any JSON value), base URL and flags. -/
theorem ctx_no_panic {P : Type} (ops : IriOps P) (ht : OpsTotal ops) (mode : Mode) (fuel : Nat)
    (active : Context P) (loc : Json) (base : Option Str) (overrideProtected propagate : Bool) :
    processCtx ops mode fuel active loc base overrideProtected propagate ≠ .panic := by
  have h := (all_noPanic ht mode fuel).2.2 active loc base overrideProtected propagate
  intro hp
  rw [hp] at h
  exact h

/-- the same for the instance the driver runs -/
theorem ctx_no_panic_piri (mode : Mode) (fuel : Nat) (active : Context PIRI.ParsedIRI) (loc : Json) (base : Option Str)
    (overrideProtected propagate : Bool) :
    processCtx piriOps mode fuel active loc base overrideProtected propagate ≠ .panic :=
  ctx_no_panic piriOps piriOps_total mode fuel active loc base overrideProtected propagate

/-- IRI Expansion under any context, of any JSON value, never panics -/
theorem iri_expand_no_panic {P : Type} (ops : IriOps P) (ht : OpsTotal ops) (mode : Mode) (c : Context P) (v : Json)
    (docRel vocab : Bool) : iriExpand ops mode c v docRel vocab ≠ .panic := by
  unfold iriExpand
  split
  · simp
  · rename_i s
    have h := (all_noPanic ht mode 1).1 none { ctx := c, defined := [] } s docRel vocab
    split <;> simp_all
  · simp

/-- Create Term Definition never panics when the term is a member of the local context (every call site
    checks that); without the hypothesis it does: `valueValue.GetGrammarName()` on a nil interface -/
theorem ctd_no_panic {P : Type} (ops : IriOps P) (ht : OpsTotal ops) (mode : Mode) (fuel : Nat)
    (loc : List (Str × Json)) (st : St P) (term : Str) (base : Option Str) (prot ov : Bool)
    (hk : hasKey term loc = true) : ctd ops mode fuel loc st term base prot ov ≠ .panic := by
  have h := (all_noPanic ht mode fuel).2.1 loc st term base prot ov hk
  intro hp
  rw [hp] at h
  exact h

example : hasKey (asc "t") [(asc "t", Json.str (asc "http://e/"))] = true := by decide

/-- the hypothesis of `ctd_no_panic` is needed -/
example : ctd (P := Unit) ⟨fun _ => .err, fun _ => false, fun _ _ => none, fun _ => [], fun _ => .no⟩ .v11 1 []
    { ctx := Context.initial none, defined := [] } (asc "t") none false false = .panic := by
  simp [ctd, ctdBody, mget, getKey, asc]

/-! ## the prefix flag -/

/-- Step 14.2.5 as coded: the prefix flag of a definition that has an `@id` string is set exactly when the
    processing mode is json-ld-1.0, or the term has no inner colon and no slash, the definition is a
    simple term, and the IRI mapping is a blank node identifier or an IRI ending in a gen-delim. -/
theorem prefix_flag_spec (mode : Mode) (term : Str) (simple : Bool) (e : SIri) :
    prefixFlag145 mode term simple e = true ↔
      (mode = .v10 ∨ (hasColonOrSlash term = false ∧ simple = true ∧
        ((∃ t c, e = .iri t ∧ t.getLast? = some c ∧ c ∈ genDelims) ∨ (∃ t, e = .bnode t)))) :=
  prefixFlag145_iff mode term simple e

/-- Step 25 as coded: with an `@prefix` entry the flag is that boolean (and the step fails in
    json-ld-1.0, for a term with a colon or slash, for `true` on a keyword mapping, for a non-boolean);
    without one it is the flag of step 14.2.5. -/
theorem prefix_entry_spec (mode : Mode) (term : Str) (vo : List (Str × Json)) (e : SIri) (p0 p : Bool)
    (h : prefixStep mode term vo e p0 = .ok p) :
    (getKey kPrefix vo = none ∧ p = p0) ∨
    (getKey kPrefix vo = some (.bool p) ∧ mode ≠ .v10 ∧ term.contains cColon = false ∧ term.contains cSlash = false ∧
      (p = true → ∀ k, e ≠ .kw k)) :=
  prefixStep_ok mode term vo e p0 p h

/-! ## clone -/

/-- `Context.clone` as coded copies every field but `VocabularyMappingValue` -/
theorem clone_fields {P : Type} (c : Context P) :
    c.clone = { c with core := { c.core with vocabValue := none } } := rfl

/-- Clone independence at the level of Go's heap (micro-model of Proofs/C10CtxPrefix.lean: map objects
    addressed by number, `cloneH` = `clone` as coded, a write = `m[k] = d` or `delete(m, k)` as Create Term
    Definition performs them through the context it is given): after any sequence of writes through the
    clone, the original's map is what it was. The executable model itself has value semantics (no
    aliasing by construction); that the real code behaves like it is what T3 checks on every history,
    and the oracle `go:active-context-mutated` renders the original before and after every step. -/
theorem clone_independent (h : Heap) (ref : Nat) (hr : ref < h.length) (ws : List Write) :
    (ws.foldl (fun hp w => hp.write (cloneH h ref).2 w) (cloneH h ref).1).getD ref [] = h.getD ref [] :=
  cloneH_independent h ref hr ws

example : (0 : Nat) < ([[(asc "a", default)]] : Heap).length := by decide

/-- a clone sharing the map (the seeded defect) fails the same statement -/
theorem shallow_clone_not_independent :
    ∃ (h : Heap) (ref : Nat) (ws : List Write), ref < h.length ∧
      (ws.foldl (fun hp w => hp.write (shallowH h ref).2 w) (shallowH h ref).1).getD ref [] ≠ h.getD ref [] :=
  shallowH_not_independent

end RdfModel.C10Ctx
