/-
  Proofs.C04Fuel — fuel monotonicity of the Spec.RDFC10 transcription of RDFC-1.0: once Hash
  N-Degree Quads (and everything built on it) succeeds with some recursion fuel, every larger fuel
  gives the same result.  Hence the fuel-free relation `Canon` is functional (`Canon_unique`).
-/
import RdfModel.Spec.RDFC10
namespace RdfModel.Proofs.C04
open RdfModel RdfModel.Spec.RDFC10

variable {β : Type} [DecidableEq β]

/-- `rec'` extends `rec`: wherever `rec` has a result, `rec'` has the same one. -/
def Ext (rec rec' : β → Issuer β → Option (NDResult β)) : Prop :=
  ∀ b i r, rec b i = some r → rec' b i = some r

omit [DecidableEq β] in
theorem Ext.refl (rec : β → Issuer β → Option (NDResult β)) : Ext rec rec :=
  fun _ _ _ h => h

omit [DecidableEq β] in
theorem Ext.trans {r1 r2 r3 : β → Issuer β → Option (NDResult β)}
    (h12 : Ext r1 r2) (h23 : Ext r2 r3) : Ext r1 r3 :=
  fun b i r h => h23 b i r (h12 b i r h)

/-- A definite outcome of `recLoop` (anything but `.out`) is preserved. -/
theorem recLoop_mono_ne_out {rec rec' : β → Issuer β → Option (NDResult β)} (hE : Ext rec rec')
    (chosen : Str) (l : List β) :
    ∀ (path : Str) (ic : Issuer β), recLoop rec chosen l path ic ≠ .out →
      recLoop rec' chosen l path ic = recLoop rec chosen l path ic := by
  induction l with
  | nil => intro path ic _; simp [recLoop]
  | cons related rest ih =>
    intro path ic h
    cases hr : rec related ic with
    | none => simp [recLoop, hr] at h
    | some result =>
      have hr' := hE _ _ _ hr
      simp only [recLoop, hr] at h
      simp only [recLoop, hr, hr']
      split
      · rfl
      · rename_i hp
        simp only [hp] at h
        exact ih _ _ h

theorem recLoop_mono {rec rec' : β → Issuer β → Option (NDResult β)} (hE : Ext rec rec')
    {chosen : Str} {l : List β} {path : Str} {ic : Issuer β} {x : Str × Issuer β}
    (h : recLoop rec chosen l path ic = .ok x) : recLoop rec' chosen l path ic = .ok x := by
  rw [recLoop_mono_ne_out hE chosen l path ic (by rw [h]; exact fun e => nomatch e), h]

theorem recLoop_mono_skip {rec rec' : β → Issuer β → Option (NDResult β)} (hE : Ext rec rec')
    {chosen : Str} {l : List β} {path : Str} {ic : Issuer β}
    (h : recLoop rec chosen l path ic = .skip) : recLoop rec' chosen l path ic = .skip := by
  rw [recLoop_mono_ne_out hE chosen l path ic (by rw [h]; exact fun e => nomatch e), h]

theorem permLoop_mono {rec rec' : β → Issuer β → Option (NDResult β)} (hE : Ext rec rec')
    {canon issuer : Issuer β} {ps : List (List β)} {cp : Str} {ci : Issuer β}
    {x : Str × Issuer β}
    (h : permLoop rec canon issuer ps cp ci = some x) :
    permLoop rec' canon issuer ps cp ci = some x := by
  induction ps generalizing cp ci with
  | nil => simpa [permLoop] using h
  | cons p ps ih =>
    cases hp : pathLoop canon cp p ([], issuer, []) with
    | none =>
      simp only [permLoop, hp] at h ⊢
      exact ih h
    | some st =>
      obtain ⟨path, ic, recl⟩ := st
      cases hr : recLoop rec cp recl path ic with
      | out => simp [permLoop, hp, hr] at h
      | skip =>
        have hr' := recLoop_mono_skip hE hr
        simp only [permLoop, hp, hr] at h
        simp only [permLoop, hp, hr']
        exact ih h
      | ok a =>
        obtain ⟨path2, ic2⟩ := a
        have hr' := recLoop_mono hE hr
        simp only [permLoop, hp, hr] at h
        simp only [permLoop, hp, hr']
        split
        · rename_i hc; simp only [hc, if_true] at h; exact ih h
        · rename_i hc; simp only [hc] at h; exact ih h

theorem groupLoop_mono {rec rec' : β → Issuer β → Option (NDResult β)} (hE : Ext rec rec')
    {canon : Issuer β} {perms : List β → List (List β)} {gs : List (Str × List β)} {data : Str}
    {issuer : Issuer β} {x : Str × Issuer β}
    (h : groupLoop rec canon perms gs data issuer = some x) :
    groupLoop rec' canon perms gs data issuer = some x := by
  induction gs generalizing data issuer with
  | nil => simpa [groupLoop] using h
  | cons g gs ih =>
    obtain ⟨relatedHash, blankNodeList⟩ := g
    cases hp : permLoop rec canon issuer (perms blankNodeList) [] issuer with
    | none => simp [groupLoop, hp] at h
    | some c =>
      obtain ⟨chosenPath, chosenIssuer⟩ := c
      have hp' := permLoop_mono hE hp
      simp only [groupLoop, hp] at h
      simp only [groupLoop, hp']
      exact ih h

theorem hashNDegree_mono (H : Str → Str) (perms : List β → List (List β)) (b2q : B2Q β)
    (canon : Issuer β) :
    ∀ (f f' : Nat), f ≤ f' →
      Ext (hashNDegree H perms b2q canon f) (hashNDegree H perms b2q canon f') := by
  intro f
  induction f with
  | zero => intro f' _ b i r h; simp [hashNDegree] at h
  | succ f ih =>
    intro f' hle b i r h
    cases f' with
    | zero => omega
    | succ f' =>
      have hE := ih f' (by omega)
      cases hg : groupLoop (hashNDegree H perms b2q canon f) canon perms
          (sortByKey (hashToRelated H b2q canon i b)) [] i with
      | none => simp [hashNDegree, hg] at h
      | some di =>
        have hg' := groupLoop_mono hE hg
        simp only [hashNDegree, hg] at h
        simp only [hashNDegree, hg']
        exact h

theorem hashPathList_mono (H : Str → Str) (perms : List β → List (List β)) (b2q : B2Q β)
    (canon : Issuer β) {f f' : Nat} (hle : f ≤ f') (l : List β) {x : List (NDResult β)}
    (h : hashPathList H perms b2q canon f l = some x) :
    hashPathList H perms b2q canon f' l = some x := by
  induction l generalizing x with
  | nil => simpa [hashPathList] using h
  | cons n rest ih =>
    by_cases hc : (canon.get? n).isSome = true
    · simp only [hashPathList, hc, if_true] at h ⊢
      exact ih h
    · cases hn : hashNDegree H perms b2q canon f n ((Issuer.new [0x62]).issue n).2 with
      | none => simp [hashPathList, hc, hn] at h
      | some r =>
        have hn' := hashNDegree_mono H perms b2q canon f f' hle _ _ _ hn
        simp only [hashPathList, hc, hn] at h
        simp only [hashPathList, hc, hn']
        cases ht : hashPathList H perms b2q canon f rest with
        | none => simp [ht] at h
        | some t =>
          rw [ih ht]
          simpa [ht] using h

theorem step5_mono (H : Str → Str) (perms : List β → List (List β)) (b2q : B2Q β)
    {f f' : Nat} (hle : f ≤ f') (l : List (Str × List β)) (canon : Issuer β) {x : Issuer β}
    (h : step5 H perms b2q f l canon = some x) :
    step5 H perms b2q f' l canon = some x := by
  induction l generalizing canon with
  | nil => simpa [step5] using h
  | cons e rest ih =>
    obtain ⟨k, identifierList⟩ := e
    cases hh : hashPathList H perms b2q canon f identifierList with
    | none => simp [step5, hh] at h
    | some hpl =>
      have hh' := hashPathList_mono H perms b2q canon hle identifierList hh
      simp only [step5, hh] at h
      simp only [step5, hh']
      exact ih _ h

theorem canonFuel_mono (H : Str → Str) (ord : List β → List β) (perms : List β → List (List β))
    (twice : Bool) (qs : List (Quad β)) {f f' : Nat} {r : Result β}
    (h : canonFuel H ord perms twice f qs = some r) (hle : f ≤ f') :
    canonFuel H ord perms twice f' qs = some r := by
  unfold canonFuel at h ⊢
  simp only at h ⊢
  split at h
  · exact absurd h (by simp)
  · rename_i c hc
    rw [step5_mono H perms _ hle _ _ hc]
    exact h

theorem Canon_unique (H : Str → Str) (ord : List β → List β) (perms : List β → List (List β))
    (twice : Bool) (qs : List (Quad β)) {r r' : Result β}
    (h : Canon H ord perms twice qs r) (h' : Canon H ord perms twice qs r') : r = r' := by
  obtain ⟨f, hf⟩ := h
  obtain ⟨f', hf'⟩ := h'
  have h1 := canonFuel_mono H ord perms twice qs hf (Nat.le_max_left f f')
  have h2 := canonFuel_mono H ord perms twice qs hf' (Nat.le_max_right f f')
  rw [h1] at h2
  exact Option.some.inj h2

end RdfModel.Proofs.C04
