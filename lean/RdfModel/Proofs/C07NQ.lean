/-
  Proofs.C07NQ — N-Triples ⊆ N-Quads at the decoder level, and independence of the decoder model
  from the encoder-only tables.  No table facts are used.
-/
import RdfModel.Proofs.C05NQLen
import RdfModel.Props.C07NQDefs
namespace RdfModel.Proofs.C07NQ
open RdfModel RdfModel.NQ RdfModel.C07NQ

/-! ### per-step inclusion -/

theorem afterObject_of_expectDot (T : Tables) (e : End) (b : Bool) (inp r : List Nat)
    (h : expectDot T e b inp = .ok () r) : afterObject T e b inp = .ok none r := by
  fun_induction expectDot T e b inp
  all_goals (try (simp at h; done))
  all_goals (try (simp_all [afterObject]; done))

theorem statement_nt_quad (T : Tables) (urlOk : List Nat → Bool) (e : End) (inp rest : List Nat)
    (q : Quad (List Nat)) (h : statement T urlOk e false inp = .quad q rest) :
    statement T urlOk e true inp = .quad q rest ∧ q.g = none := by
  obtain ⟨inp', s, r1, p, r2, o, r3, hsk, hs, hp, ho, hrest⟩ :=
    Proofs.C05NQ.statement_quad _ _ _ _ _ _ _ h
  rcases hrest with ⟨hq, _⟩ | ⟨hq, _⟩ | ⟨_, hd, rfl⟩
  · cases hq
  · cases hq
  · refine ⟨?_, rfl⟩
    unfold statement
    rw [hsk]; simp only
    rw [hs]; simp only
    rw [hp]; simp only
    rw [ho]; simp only [if_true]
    rw [afterObject_of_expectDot T e _ _ _ hd]

theorem statement_done_iff (T : Tables) (urlOk : List Nat → Bool) (e : End) (quads quads' : Bool)
    (inp : List Nat) (h : statement T urlOk e quads inp = .done) :
    statement T urlOk e quads' inp = .done := by
  have := Proofs.C05NQ.done_only_on_blank T urlOk e quads inp h
  obtain ⟨rfl, hb⟩ := this
  simp only [allBlank, Option.isNone_iff_eq_none] at hb
  simp [statement, hb]

theorem next_nt_quad (T : Tables) (urlOk : List Nat → Bool) (e : End) (started : Bool)
    (inp rest : List Nat) (q : Quad (List Nat))
    (h : next T urlOk e false started inp = .quad q rest) :
    next T urlOk e true started inp = .quad q rest ∧ q.g = none := by
  unfold next at h ⊢
  split at h
  · next hst =>
    rw [if_pos hst]
    split at h
    · simp at h
    · simp at h
    · next r ht => exact statement_nt_quad T urlOk e _ _ q h
  · next hst =>
    rw [if_neg hst]
    exact statement_nt_quad T urlOk e _ _ q h

theorem next_nt_done (T : Tables) (urlOk : List Nat → Bool) (e : End) (started : Bool)
    (inp : List Nat) (h : next T urlOk e false started inp = .done) :
    next T urlOk e true started inp = .done := by
  unfold next at h ⊢
  split at h
  · next hst =>
    rw [if_pos hst]
    split at h
    · rfl
    · simp at h
    · next r ht => exact statement_done_iff T urlOk e _ _ _ h
  · next hst =>
    rw [if_neg hst]
    exact statement_done_iff T urlOk e _ _ _ h

theorem runFuel_nt_sub_nq (T : Tables) (urlOk : List Nat → Bool) (e : End) :
    ∀ (fuel : Nat) (started : Bool) (inp : List Nat) (qs : List (Quad (List Nat))),
      runFuel T urlOk e false fuel started inp = (qs, .clean) →
      runFuel T urlOk e true fuel started inp = (qs, .clean) := by
  intro fuel
  induction fuel with
  | zero => intro _ _ _ h; simp [runFuel] at h
  | succ f ih =>
    intro started inp qs h
    unfold runFuel at h ⊢
    split at h
    · next hn => rw [next_nt_done T urlOk e started inp hn]; exact h
    · simp at h
    · next q rest hn =>
      rw [(next_nt_quad T urlOk e started inp rest q hn).1]
      simp only at h ⊢
      generalize hr : runFuel T urlOk e false f true rest = res at h
      obtain ⟨qs', v⟩ := res
      simp only [Prod.mk.injEq] at h
      obtain ⟨rfl, rfl⟩ := h
      rw [ih true rest qs' hr]

theorem nt_sub_nq (T : Tables) (urlOk : List Nat → Bool) (e : End) (inp : List Nat)
    (qs : List (Quad (List Nat))) (h : run T urlOk e false inp = (qs, .clean)) :
    run T urlOk e true inp = (qs, .clean) :=
  runFuel_nt_sub_nq T urlOk e _ false inp qs h

theorem runFuel_default_graph (T : Tables) (urlOk : List Nat → Bool) (e : End) :
    ∀ (fuel : Nat) (started : Bool) (inp : List Nat),
      ∀ q ∈ (runFuel T urlOk e false fuel started inp).1, q.g = none := by
  intro fuel
  induction fuel with
  | zero => intro _ _ q hq; simp [runFuel] at hq
  | succ f ih =>
    intro started inp q hq
    unfold runFuel at hq
    split at hq
    · simp at hq
    · simp at hq
    · next q' rest hn =>
      simp only [List.mem_cons] at hq
      rcases hq with rfl | hq
      · exact (next_nt_quad T urlOk e started inp rest _ hn).2
      · exact ih true rest q hq

theorem nt_statements_default_graph (T : Tables) (urlOk : List Nat → Bool) (e : End) (inp : List Nat) :
    ∀ q ∈ (run T urlOk e false inp).1, q.g = none :=
  runFuel_default_graph T urlOk e _ false inp

/-! ### the decoder reads only `hexDec`, `pnCharsU`, `pnChars`, `space` -/

variable {T T' : Tables}

theorem scanIRI_congr (hh : T.hexDec = T'.hexDec) (e : End) (st : SState) (inp acc : List Nat) :
    scanIRI T e st inp acc = scanIRI T' e st inp acc := by
  fun_induction scanIRI T e st inp acc <;> simp_all [scanIRI]
  all_goals (intro hx; omega)

theorem scanLit_congr (hh : T.hexDec = T'.hexDec) (e : End) (st : SState) (inp acc : List Nat) :
    scanLit T e st inp acc = scanLit T' e st inp acc := by
  fun_induction scanLit T e st inp acc <;> simp_all [scanLit]
  all_goals (intro hx; omega)

theorem captureIRI_congr (hh : T.hexDec = T'.hexDec) (urlOk : List Nat → Bool) (e : End)
    (inp : List Nat) : captureIRI T urlOk e inp = captureIRI T' urlOk e inp := by
  simp only [captureIRI, scanIRI_congr hh]

theorem captureLiteral_congr {β : Type} (hh : T.hexDec = T'.hexDec) (urlOk : List Nat → Bool) (e : End)
    (inp : List Nat) : (captureLiteral T urlOk e inp : R (Term β)) = captureLiteral T' urlOk e inp := by
  simp only [captureLiteral, scanLit_congr hh, captureIRI_congr hh]

theorem bnFinish_congr (hp : T.pnChars = T'.pnChars) (acc rest : List Nat) :
    bnFinish T acc rest = bnFinish T' acc rest := by
  simp only [bnFinish, hp]

theorem bnLoop_congr (hp : T.pnChars = T'.pnChars) (e : End) (inp acc : List Nat) :
    bnLoop T e inp acc = bnLoop T' e inp acc := by
  fun_induction bnLoop T e inp acc <;> simp_all [bnLoop, bnFinish_congr hp]

theorem captureBNode_congr (hu : T.pnCharsU = T'.pnCharsU) (hp : T.pnChars = T'.pnChars) (e : End)
    (inp : List Nat) : captureBNode T e inp = captureBNode T' e inp := by
  cases inp <;> simp [captureBNode, hu, bnLoop_congr hp]


theorem isSpace_congr (hs : T.space = T'.space) (c : Nat) : isSpace T c = isSpace T' c := by
  simp only [isSpace, hs]

theorem captureTerm_congr (h : DecoderTablesEqual T T') (urlOk : List Nat → Bool) (e : End) (pos : Pos)
    (b : Bool) (inp : List Nat) :
    captureTerm T urlOk e pos b inp = captureTerm T' urlOk e pos b inp := by
  fun_induction captureTerm T urlOk e pos b inp
  all_goals
    simp_all [captureTerm, ← captureIRI_congr h.hexDec, ← captureLiteral_congr h.hexDec,
      ← captureBNode_congr h.pnCharsU h.pnChars, ← isSpace_congr h.space]
  all_goals
    rw [if_neg (by rintro ⟨h1, h2⟩; simp_all), if_neg (by rintro ⟨h1, h2⟩; simp_all)]

theorem afterObject_congr (hs : T.space = T'.space) (e : End) (b : Bool) (inp : List Nat) :
    afterObject T e b inp = afterObject T' e b inp := by
  fun_induction afterObject T e b inp <;> simp_all [afterObject, ← isSpace_congr hs]

theorem expectDot_congr (hs : T.space = T'.space) (e : End) (b : Bool) (inp : List Nat) :
    expectDot T e b inp = expectDot T' e b inp := by
  fun_induction expectDot T e b inp <;> simp_all [expectDot, ← isSpace_congr hs]

theorem skipToStmt_congr (hs : T.space = T'.space) (b : Bool) (inp : List Nat) :
    skipToStmt T b inp = skipToStmt T' b inp := by
  fun_induction skipToStmt T b inp <;> simp_all [skipToStmt, ← isSpace_congr hs]

theorem toEOL_congr (hs : T.space = T'.space) (e : End) (b : Bool) (inp : List Nat) :
    toEOL T e b inp = toEOL T' e b inp := by
  fun_induction toEOL T e b inp <;> simp_all [toEOL, ← isSpace_congr hs]

theorem statement_congr (h : DecoderTablesEqual T T') (urlOk : List Nat → Bool) (e : End) (quads : Bool)
    (inp : List Nat) : statement T urlOk e quads inp = statement T' urlOk e quads inp := by
  simp only [statement, skipToStmt_congr h.space, captureTerm_congr h, afterObject_congr h.space,
    expectDot_congr h.space]

theorem next_congr (h : DecoderTablesEqual T T') (urlOk : List Nat → Bool) (e : End)
    (quads started : Bool) (inp : List Nat) :
    next T urlOk e quads started inp = next T' urlOk e quads started inp := by
  simp only [next, toEOL_congr h.space, statement_congr h]

theorem runFuel_congr (h : DecoderTablesEqual T T') (urlOk : List Nat → Bool) (e : End) (quads : Bool) :
    ∀ (fuel : Nat) (started : Bool) (inp : List Nat),
      runFuel T urlOk e quads fuel started inp = runFuel T' urlOk e quads fuel started inp := by
  intro fuel
  induction fuel with
  | zero => intro _ _; rfl
  | succ f ih => intro started inp; simp only [runFuel, next_congr h, ih]

/-- `run` depends only on the decoder-relevant tables. -/
theorem run_congr (h : DecoderTablesEqual T T') (urlOk : List Nat → Bool) (e : End) (quads : Bool)
    (inp : List Nat) : run T urlOk e quads inp = run T' urlOk e quads inp :=
  runFuel_congr h urlOk e quads _ false inp

/-- (1) across two table sets that agree on what the decoder reads. -/
theorem nt_sub_nq_tables (h : DecoderTablesEqual T T') (urlOk : List Nat → Bool) (e : End)
    (inp : List Nat) (qs : List (Quad (List Nat))) (hr : run T urlOk e false inp = (qs, .clean)) :
    run T' urlOk e true inp = (qs, .clean) := by
  rw [← run_congr h]; exact nt_sub_nq T urlOk e inp qs hr

end RdfModel.Proofs.C07NQ
