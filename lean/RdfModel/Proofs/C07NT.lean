/-
  C07 — the N-Triples text the repository's encoder writes (model `NQ.encodeDoc`, any option) lies in
  the image of the Turtle printer of `Spec/TurtleAbstract.lean`: it is `TA.print` of a document of
  plain triples with choices that mimic the encoder's escaping.  With `C08.decode_print_partial`
  this gives `Props/C07Doc.lean: nt_encoder_sub_ttl_partial`.
-/
import RdfModel.Props.C08Doc
import RdfModel.Props.C01
set_option linter.unusedSimpArgs false
set_option linter.unusedSectionVars false
set_option linter.unusedVariables false
namespace RdfModel.C07NT
open RdfModel RdfModel.TA RdfModel.Spec.TtlPrint RdfModel.C08

/-! ### per-rune choices that reproduce the encoder -/

def chIri (Tn : NQ.Tables) (a : Bool) (c : Nat) : Choice :=
  match lookup (Tn.iriEsc a) 0 c with
  | 1 => .u4 false
  | 2 => .u8 false
  | _ => .raw

def chLit (Tn : NQ.Tables) (a : Bool) (c : Nat) : Choice :=
  match lookup (Tn.litEsc a) 0 c with
  | 1 => .echar
  | 2 => .u4 false
  | 3 => .u8 false
  | _ => .raw

theorem hex4c_eq (c : Nat) : hex4c false c = hex4 c := rfl

theorem hex8c_eq (c : Nat) (h : c ≤ 0x10FFFF) : hex8c false c = hex8 c := by
  have : c / 0x10000000 = 0 := by omega
  simp [hex8c, hex8, hexD, this]

theorem iriRawOK_of {c : Nat} (h : C01.iriRawOK c) : Spec.TtlPrint.iriRawOK c = true := by
  unfold C01.iriRawOK at h
  simp only [Spec.TtlPrint.iriRawOK, Bool.not_eq_true', Bool.or_eq_false_iff, decide_eq_false_iff_not]
  omega

theorem iriRune_eq (Tn : NQ.Tables) (hTn : C01.TablesOK Tn) (a : Bool) (c : Nat) (hc : c ≤ 0x10FFFF) :
    printIriRune (chIri Tn a c) c = NQ.escIRIRune Tn a c := by
  unfold chIri NQ.escIRIRune
  have hm := hTn.iri_mode a c
  match hl : lookup (Tn.iriEsc a) 0 c with
  | 0 => simp [printIriRune, iriRawOK_of (hTn.iri_raw a c hl)]
  | 1 => simp [printIriRune, uchar, hTn.iri_u4 a c hl, hex4c_eq]
  | 2 => simp [printIriRune, uchar, hex8c_eq c hc]
  | n + 3 => rw [hl] at hm; omega

theorem iriBody_eq (Tn : NQ.Tables) (hTn : C01.TablesOK Tn) (a : Bool) : ∀ (v : List Nat), (∀ c ∈ v, c ≤ 0x10FFFF) →
    printIriBody (v.map (chIri Tn a)) v = NQ.iriBody Tn a v := by
  intro v
  induction v with
  | nil => intro _; rfl
  | cons c v ih =>
    intro h
    simp only [List.map_cons, printIriBody, List.head?_cons, Option.getD_some, List.tail_cons, NQ.iriBody, List.flatMap_cons]
    rw [iriRune_eq Tn hTn a c (h c List.mem_cons_self), ih (fun x hx => h x (List.mem_cons_of_mem _ hx))]
    rfl

theorem writeIRI_eq (Tn : NQ.Tables) (hTn : C01.TablesOK Tn) (a : Bool) (v : List Nat) (h : ∀ c ∈ v, c ≤ 0x10FFFF) :
    printIRIREF (v.map (chIri Tn a)) v = NQ.writeIRI Tn a v := by
  simp [printIRIREF, NQ.writeIRI, iriBody_eq Tn hTn a v h]

theorem echarOf_of_decode {x c : Nat} (h : NQ.echarDecode x = some c) : echarOf c = some x := by
  unfold NQ.echarDecode at h
  repeat' split at h
  all_goals first
    | (simp only [Option.some.injEq] at h; subst h; subst_vars; decide)
    | (simp at h)

theorem litRune_eq (Tn : NQ.Tables) (hTn : C01.TablesOK Tn) (hGn : C01.TablesGrammar Tn) (a : Bool) (c : Nat)
    (hc : c ≤ 0x10FFFF) : printStrRune .dq (chLit Tn a c) c = NQ.escLitRune Tn a c := by
  unfold chLit NQ.escLitRune
  have hm := hTn.lit_mode a c
  match hl : lookup (Tn.litEsc a) 0 c with
  | 0 =>
    have h1 := hTn.lit_raw a c hl
    have h2 := hGn.lit_raw_eol a c hl
    simp [printStrRune, strRawOK, Style.delim, Style.long, h1.1, h1.2, h2.1, h2.2]
  | 1 => simp [printStrRune, strEsc, echarOf_of_decode (hTn.lit_echar a c hl)]
  | 2 => simp [printStrRune, uchar, hTn.lit_u4 a c hl, hex4c_eq]
  | 3 => simp [printStrRune, uchar, hex8c_eq c hc]
  | n + 4 => rw [hl] at hm; omega

theorem litBody_eq (Tn : NQ.Tables) (hTn : C01.TablesOK Tn) (hGn : C01.TablesGrammar Tn) (a : Bool) :
    ∀ (v : List Nat) (k : Nat), (∀ c ∈ v, c ≤ 0x10FFFF) →
    printStrBody .dq k (v.map (chLit Tn a)) v = NQ.litBody Tn a v := by
  intro v
  induction v with
  | nil => intro _ _; rfl
  | cons c v ih =>
    intro k h
    simp only [List.map_cons, printStrBody, Style.long, Bool.false_and, Bool.false_eq_true, if_false, List.head?_cons,
      Option.getD_some, List.tail_cons, NQ.litBody, List.flatMap_cons]
    rw [litRune_eq Tn hTn hGn a c (h c List.mem_cons_self), ih 0 (fun x hx => h x (List.mem_cons_of_mem _ hx))]
    rfl

theorem quoted_eq (Tn : NQ.Tables) (hTn : C01.TablesOK Tn) (hGn : C01.TablesGrammar Tn) (a : Bool) (v : List Nat)
    (h : ∀ c ∈ v, c ≤ 0x10FFFF) :
    printString .dq (v.map (chLit Tn a)) v = 0x22 :: (NQ.litBody Tn a v ++ [0x22]) := by
  simp [printString, quotes, Style.long, Style.delim, litBody_eq Tn hTn hGn a v 0 h]

/-! ### the document and the choices of an encoded dataset -/

section doc
variable {β : Type}

def subjOf (label : β → List Nat) : Term β → Subj
  | .iri v => .iri (.ref v)
  | .bnode b => .bn (label b)
  | .lit .. => .anon

def objOf (label : β → List Nat) : Term β → Obj
  | .iri v => .iri (.ref v)
  | .bnode b => .bn (label b)
  | .lit l d t =>
    if d = xsdString then .lit (.plain l)
    else if d = rdfLangString then (match t with | some tag => .lit (.lang l tag) | none => .lit (.plain l))
    else .lit (.typed l (.ref d))

def verbOfT : Term β → Verb
  | .iri v => .iri (.ref v)
  | _ => .a

def blockOf (label : β → List Nat) (q : Quad β) : Block :=
  .triples ⟨subjOf label q.s, [.mk (verbOfT q.p) [objOf label q.o]]⟩

def nodeSlot (Tn : NQ.Tables) (a : Bool) : Term β → Slot
  | .iri v => { cs := v.map (chIri Tn a), lay := [.ws 0] }
  | _ => { lay := [.ws 0] }

def objSlotsOf (Tn : NQ.Tables) (a : Bool) : Term β → List Slot
  | .lit l d _ =>
    if d = xsdString ∨ d = rdfLangString then [{ cs := l.map (chLit Tn a), lay := [.ws 0] }]
    else [{ cs := l.map (chLit Tn a) }, { cs := d.map (chIri Tn a), lay := [.ws 0] }]
  | t => [nodeSlot Tn a t]

def slotsOf (Tn : NQ.Tables) (a : Bool) (q : Quad β) : List Slot :=
  nodeSlot Tn a q.s :: nodeSlot Tn a q.p :: (objSlotsOf Tn a q.o ++ [{ n := 0 }, { n := 0 }, { lay := [.ws 2] }])

def docOf (label : β → List Nat) (qs : List (Quad β)) : Doc := qs.map (blockOf label)
def choicesOf (Tn : NQ.Tables) (a : Bool) (qs : List (Quad β)) : Choices := { n := 0 } :: qs.flatMap (slotsOf Tn a)

theorem clash_punct (T : Ttl.Tables) (l : List Nat) : clash T .punct l = false := by
  cases l <;> rfl

theorem after_sp (T : Ttl.Tables) (k : Prev) (s : Slot) (rest : List Nat) (h : s.lay = [.ws 0]) :
    after T k s rest = 0x20 :: rest := by
  simp [after, h, renderLay, renderItem, wsRune]

theorem after_lf (T : Ttl.Tables) (k : Prev) (s : Slot) (rest : List Nat) (h : s.lay = [.ws 2]) :
    after T k s rest = 0x0a :: rest := by
  simp [after, h, renderLay, renderItem, wsRune]

theorem at_mid (pre l post : List Slot) (k : Nat) (hk : k < l.length) :
    Choices.at (pre ++ l ++ post) (pre.length + k) = l.getD k { n := 0 } := by
  simp only [Choices.at, List.getD_eq_getElem?_getD]
  rw [List.append_assoc, List.getElem?_append_right (by omega)]
  simp only [Nat.add_sub_cancel_left]
  rw [List.getElem?_append_left hk]

theorem at_zero (pre l post : List Slot) (hk : 0 < l.length) :
    Choices.at (pre ++ l ++ post) pre.length = l.getD 0 { n := 0 } := by
  have := at_mid pre l post 0 hk
  simpa using this

/-- what the printer reads from the choices of one statement: six or seven slots -/
structure SlotsAt (ch : Choices) (i : Nat) (sl : List Slot) : Prop where
  h : ∀ k, k < sl.length → ch.at (i + k) = sl.getD k { n := 0 }

theorem slotsAt_mid (pre l post : List Slot) : SlotsAt (pre ++ l ++ post) pre.length l := ⟨fun k hk => at_mid pre l post k hk⟩

theorem encode_eq (Tn : NQ.Tables) (a : Bool) (label : β → List Nat) (q : Quad β) (s p o : List Nat)
    (hs : NQ.writeNode Tn a label q.s = some s) (hp : NQ.writePredicate Tn a q.p = some p)
    (ho : NQ.writeObject Tn a label q.o = some o) :
    (NQ.encodeQuad Tn a label false q).getD [] = s ++ 0x20 :: p ++ 0x20 :: o ++ [0x20, 0x2e, 0x0a] := by
  simp [NQ.encodeQuad, hs, hp, ho, bind, Option.bind]

/-- the text of one encoded triple is the printed statement -/
theorem block_text (T : Ttl.Tables) (Tn : NQ.Tables) (hTn : C01.TablesOK Tn) (hGn : C01.TablesGrammar Tn) (a : Bool)
    (label : β → List Nat) (urlOk : List Nat → Bool) (q : Quad β) (hwf : C01.WFQuad urlOk q)
    (ch : Choices) (i : Nat) (hsl : SlotsAt ch i (slotsOf Tn a q)) (rest : List Nat) :
    pBlock ⟨T, ch⟩ i (blockOf label q) rest = (NQ.encodeQuad Tn a label false q).getD [] ++ rest := by
  obtain ⟨s, p, o, g⟩ := q
  obtain ⟨hs, hp, ho, _⟩ := hwf
  simp only at hs hp ho
  have rng : ∀ {v : List Nat}, C01.Scalars v → ∀ c ∈ v, c ≤ 0x10FFFF := by
    intro v hv c hc
    have := hv c hc
    unfold IsScalar at this; omega
  -- subject text
  have hsub : ∀ (R : List Nat), ∃ st, NQ.writeNode Tn a label s = some st ∧
      pSubj ⟨T, ch⟩ i (subjOf label s) R = st ++ 0x20 :: R := by
    intro R
    have h0 := hsl.h 0 (by simp [slotsOf])
    simp only [slotsOf, List.getD_cons_zero, Nat.add_zero] at h0
    cases s with
    | lit l d t => exact absurd hs (by simp [C01.WFNode])
    | iri sv =>
      refine ⟨_, rfl, ?_⟩
      simp [pSubj, pObj, pIri, iriText, iriKind, subjOf, h0, nodeSlot, after_sp, writeIRI_eq Tn hTn a sv (rng hs.1)]
    | bnode b =>
      refine ⟨_, rfl, ?_⟩
      simp [pSubj, pObj, pBNode, subjOf, h0, nodeSlot, after_sp]
  -- verb text
  have hverb : ∀ (R : List Nat), ∃ pt, NQ.writePredicate Tn a p = some pt ∧
      pVerb ⟨T, ch⟩ (i + 1) (verbOfT p) R = pt ++ 0x20 :: R := by
    intro R
    have h1 := hsl.h 1 (by simp [slotsOf])
    simp only [slotsOf, List.getD_cons_succ, List.getD_cons_zero] at h1
    cases p with
    | bnode b => exact absurd hp (by simp [C01.WFPredicate])
    | lit l d t => exact absurd hp (by simp [C01.WFPredicate])
    | iri pv =>
      refine ⟨_, rfl, ?_⟩
      simp [pVerb, pIri, iriText, iriKind, verbOfT, h1, nodeSlot, after_sp, writeIRI_eq Tn hTn a pv (rng hp.1)]
  -- object text
  have hobj : ∀ (R : List Nat), ∃ ot, NQ.writeObject Tn a label o = some ot ∧
      pObj ⟨T, ch⟩ (i + 2) (objOf label o) R = ot ++ 0x20 :: R := by
    intro R
    have h2 := hsl.h 2 (by simp [slotsOf])
    simp only [slotsOf, List.getD_cons_succ] at h2
    cases o with
    | iri ov =>
      refine ⟨_, rfl, ?_⟩
      simp only [objSlotsOf, List.cons_append, List.nil_append, List.getD_cons_zero] at h2
      simp [pObj, pIri, iriText, iriKind, objOf, h2, nodeSlot, after_sp, writeIRI_eq Tn hTn a ov (rng ho.1)]
    | bnode b =>
      refine ⟨_, rfl, ?_⟩
      simp only [objSlotsOf, List.cons_append, List.nil_append, List.getD_cons_zero] at h2
      simp [pObj, pBNode, objOf, h2, nodeSlot, after_sp]
    | lit l d t =>
      obtain ⟨hl, hd, hlang⟩ := ho
      have hlr := rng hl
      by_cases hx : d = xsdString
      · subst hx
        refine ⟨_, rfl, ?_⟩
        simp only [objSlotsOf, true_or, if_true, List.cons_append, List.nil_append, List.getD_cons_zero] at h2
        simp [pObj, pLit, objOf, h2, after_sp, quoted_eq Tn hTn hGn a l hlr, NQ.writeObject, NQ.writeLiteral]
      · by_cases hy : d = rdfLangString
        · subst hy
          refine ⟨_, rfl, ?_⟩
          simp only [objSlotsOf, or_true, if_true, List.cons_append, List.nil_append, List.getD_cons_zero] at h2
          cases t with
          | none => simp at hlang
          | some tag =>
            simp [pObj, pLit, objOf, hx, h2, after_sp, quoted_eq Tn hTn hGn a l hlr, NQ.writeObject, NQ.writeLiteral]
        · refine ⟨_, rfl, ?_⟩
          have h3 := hsl.h 3 (by simp [slotsOf, objSlotsOf, hx, hy])
          simp only [slotsOf, objSlotsOf, hx, hy, or_self, if_false, List.cons_append, List.nil_append, List.getD_cons_succ,
            List.getD_cons_zero] at h2 h3
          have hdr := rng hd.1
          have e3 : i + 2 + 1 = i + 3 := by omega
          simp [pObj, pLit, pIri, iriText, iriKind, objOf, hx, hy, h2, h3, e3, after_sp, quoted_eq Tn hTn hGn a l hlr,
            writeIRI_eq Tn hTn a d hdr, NQ.writeObject, NQ.writeLiteral]
  -- slot arithmetic
  have hss : subjSlots (subjOf label s) = 1 := by
    cases s with
    | lit l d t => exact absurd hs (by simp [C01.WFNode])
    | iri sv => rfl
    | bnode b => rfl
  have hm : objSlots (objOf label o) = (objSlotsOf Tn a o).length := by
    cases o with
    | iri ov => rfl
    | bnode b => rfl
    | lit l d t =>
      obtain ⟨_, _, hlang⟩ := ho
      by_cases hx : d = xsdString
      · simp [objOf, objSlotsOf, hx, objSlots, litSlots]
      · by_cases hy : d = rdfLangString
        · subst hy
          cases t with
          | none => simp at hlang
          | some tag => simp [objOf, objSlotsOf, hx, objSlots, litSlots]
        · simp [objOf, objSlotsOf, hx, hy, objSlots, litSlots]
  have hlen : (slotsOf Tn a ⟨s, p, o, g⟩).length = (objSlotsOf Tn a o).length + 5 := by simp [slotsOf]
  have hsemi := hsl.h ((objSlotsOf Tn a o).length + 3) (by rw [hlen]; omega)
  have hdot := hsl.h ((objSlotsOf Tn a o).length + 4) (by rw [hlen]; omega)
  have g3 : (slotsOf Tn a ⟨s, p, o, g⟩).getD ((objSlotsOf Tn a o).length + 3) { n := 0 } = { n := 0 } := by
    simp only [slotsOf]
    rw [show (objSlotsOf Tn a o).length + 3 = ((objSlotsOf Tn a o).length + 1) + 1 + 1 from by omega]
    simp only [List.getD_cons_succ]
    rw [List.getD_eq_getElem?_getD, List.getElem?_append_right (by omega)]
    simp
  have g4 : (slotsOf Tn a ⟨s, p, o, g⟩).getD ((objSlotsOf Tn a o).length + 4) { n := 0 } = { lay := [.ws 2] } := by
    simp only [slotsOf]
    rw [show (objSlotsOf Tn a o).length + 4 = ((objSlotsOf Tn a o).length + 2) + 1 + 1 from by omega]
    simp only [List.getD_cons_succ]
    rw [List.getD_eq_getElem?_getD, List.getElem?_append_right (by omega)]
    simp
  rw [g3] at hsemi
  rw [g4] at hdot
  obtain ⟨ot, ho1, ho2⟩ := hobj (pPunct ⟨T, ch⟩ (i + ((objSlotsOf Tn a o).length + 4)) 0x2e rest)
  obtain ⟨pt, hp1, hp2⟩ := hverb (pObj ⟨T, ch⟩ (i + 2) (objOf label o)
    (pPunct ⟨T, ch⟩ (i + ((objSlotsOf Tn a o).length + 4)) 0x2e rest))
  obtain ⟨st, hs1, hs2⟩ := hsub (pVerb ⟨T, ch⟩ (i + 1) (verbOfT p) (pObj ⟨T, ch⟩ (i + 2) (objOf label o)
    (pPunct ⟨T, ch⟩ (i + ((objSlotsOf Tn a o).length + 4)) 0x2e rest)))
  rw [encode_eq Tn a label ⟨s, p, o, g⟩ st pt ot hs1 hp1 ho1]
  have e1 : i + 1 + 1 = i + 2 := by omega
  have e2 : i + 1 + (1 + ((objSlotsOf Tn a o).length + 1) + 1) - 1 = i + ((objSlotsOf Tn a o).length + 3) := by omega
  have e3 : i + (1 + (1 + ((objSlotsOf Tn a o).length + 1) + 1 + 0) + 1) - 1 = i + ((objSlotsOf Tn a o).length + 4) := by omega
  simp only [pBlock, blockOf, pStatement, pTriples, triplesSlots, hss, posSlots, poSlots, objsSlots, hm, pPOs, pPO, pObjs, e1, e2,
    e3, hsemi, Nat.zero_mod, semis]
  rw [hs2, hp2, ho2]
  simp [pPunct, after_lf, hdot]

theorem blockSlots_eq (Tn : NQ.Tables) (a : Bool) (label : β → List Nat) (urlOk : List Nat → Bool) (q : Quad β)
    (hwf : C01.WFQuad urlOk q) : blockSlots (blockOf label q) = (slotsOf Tn a q).length := by
  obtain ⟨s, p, o, g⟩ := q
  obtain ⟨hs, hp, ho, _⟩ := hwf
  simp only at hs hp ho
  have hss : subjSlots (subjOf label s) = 1 := by
    cases s with
    | lit l d t => exact absurd hs (by simp [C01.WFNode])
    | iri sv => rfl
    | bnode b => rfl
  have hm : objSlots (objOf label o) = (objSlotsOf Tn a o).length := by
    cases o with
    | iri ov => rfl
    | bnode b => rfl
    | lit l d t =>
      obtain ⟨_, _, hlang⟩ := ho
      by_cases hx : d = xsdString
      · simp [objOf, objSlotsOf, hx, objSlots, litSlots]
      · by_cases hy : d = rdfLangString
        · subst hy
          cases t with
          | none => simp at hlang
          | some tag => simp [objOf, objSlotsOf, hx, objSlots, litSlots]
        · simp [objOf, objSlotsOf, hx, hy, objSlots, litSlots]
  simp [blockSlots, blockOf, triplesSlots, hss, posSlots, poSlots, objsSlots, hm, slotsOf]
  omega

/-- the text of an encoded dataset is the printed document (choices from position `pre.length` on) -/
theorem doc_text (T : Ttl.Tables) (Tn : NQ.Tables) (hTn : C01.TablesOK Tn) (hGn : C01.TablesGrammar Tn) (a : Bool)
    (label : β → List Nat) (urlOk : List Nat → Bool) : ∀ (qs : List (Quad β)), (∀ q ∈ qs, C01.WFQuad urlOk q) →
    ∀ (pre : List Slot) (rest : List Nat),
      pBlocks ⟨T, pre ++ qs.flatMap (slotsOf Tn a)⟩ pre.length (docOf label qs) rest =
        NQ.encodeDoc Tn a label false qs ++ rest := by
  intro qs
  induction qs with
  | nil => intro _ pre rest; simp [docOf, pBlocks, NQ.encodeDoc]
  | cons q qs ih =>
    intro hwf pre rest
    have hq := hwf q List.mem_cons_self
    have hsl : SlotsAt (pre ++ (q :: qs).flatMap (slotsOf Tn a)) pre.length (slotsOf Tn a q) := by
      have := slotsAt_mid pre (slotsOf Tn a q) (qs.flatMap (slotsOf Tn a))
      simpa [List.flatMap_cons, List.append_assoc] using this
    have hb := block_text T Tn hTn hGn a label urlOk q hq _ _ hsl
    have ih' := ih (fun q' hq' => hwf q' (List.mem_cons_of_mem _ hq')) (pre ++ slotsOf Tn a q) rest
    have hlen : pre.length + (slotsOf Tn a q).length = (pre ++ slotsOf Tn a q).length := by simp
    simp only [List.flatMap_cons] at hb
    simp only [docOf, List.map_cons, pBlocks, NQ.encodeDoc, List.flatMap_cons, blockSlots_eq Tn a label urlOk q hq]
    rw [hb, List.append_assoc]
    congr 1
    rw [hlen]
    simpa [docOf, NQ.encodeDoc, List.append_assoc] using ih'

theorem print_eq (T : Ttl.Tables) (Tn : NQ.Tables) (hTn : C01.TablesOK Tn) (hGn : C01.TablesGrammar Tn) (a : Bool)
    (label : β → List Nat) (urlOk : List Nat → Bool) (qs : List (Quad β)) (hwf : ∀ q ∈ qs, C01.WFQuad urlOk q) :
    print T (docOf label qs) (choicesOf Tn a qs) = NQ.encodeDoc Tn a label false qs := by
  have := doc_text T Tn hTn hGn a label urlOk qs hwf [{ n := 0 }] []
  simp only [List.length_singleton, List.append_nil, List.singleton_append] at this
  simp [print, choicesOf, after, Choices.at, renderLay, clash_punct, this]

/-! ### well-formedness and denotation of `docOf` -/

theorem langRest_eq : ∀ (t : List Nat) (b : Bool), C01.langRest t b = C02.langRest t b := by
  intro t
  induction t with
  | nil => intro b; rfl
  | cons c t ih => intro b; simp only [C01.langRest, C02.langRest, ih]; rfl

theorem langPrim_eq : ∀ (t : List Nat) (b : Bool), C01.langPrim t b = C02.langPrim t b := by
  intro t
  induction t with
  | nil => intro b; rfl
  | cons c t ih => intro b; simp only [C01.langPrim, C02.langPrim, ih, langRest_eq]; rfl

theorem langOK_eq (t : List Nat) : C01.langOK t = C02.langOK t := langPrim_eq t false

theorem scalarsB_of {v : List Nat} (h : C01.Scalars v) : scalarsB v = true := by
  simp only [scalarsB, List.all_eq_true]
  intro c hc
  exact (isScalarB_iff c).2 (h c hc)

theorem xsd_ne_lang : xsdString ≠ rdfLangString := by decide

/-- the quad a triple of the dataset denotes (blank nodes by their labels, default graph) -/
def qB (label : β → List Nat) (q : Quad β) : QuadB :=
  { s := q.s.map (fun b => B.lbl (label b)), p := q.p.map (fun b => B.lbl (label b)),
    o := q.o.map (fun b => B.lbl (label b)), g := none }

theorem block_wf_denote (T : Ttl.Tables) (R : Resolver) (label : β → List Nat) (urlOk : List Nat → Bool)
    (hlab : ∀ b, labelWf T (label b) = true) (q : Quad β) (hwf : C01.WFQuad urlOk q) (st : DState) (hb : st.base = none) :
    blockWf T false (blockOf label q) = true ∧ blockNoBoolPfx (blockOf label q) = true ∧
      dBlock R st (blockOf label q) = some ([qB label q], st) := by
  obtain ⟨s, p, o, g⟩ := q
  obtain ⟨hs, hp, ho, _⟩ := hwf
  simp only at hs hp ho
  cases p with
  | bnode b => exact absurd hp (by simp [C01.WFPredicate])
  | lit l d t => exact absurd hp (by simp [C01.WFPredicate])
  | iri pv =>
    have hpv := scalarsB_of hp.1
    -- subject
    have hsub : subjWf T (subjOf label s) = true ∧ subjIsBnpl (subjOf label s) = false ∧
        dSubj R none st (subjOf label s) = some (s.map (fun b => B.lbl (label b)), [], st) := by
      cases s with
      | lit l d t => exact absurd hs (by simp [C01.WFNode])
      | iri sv => simp [subjOf, subjWf, iriWf, scalarsB_of hs.1, subjIsBnpl, dSubj, dObj, iriOf, hb, Term.map]
      | bnode b => simp [subjOf, subjWf, hlab b, subjIsBnpl, dSubj, dObj, Term.map]
    -- object
    have hobj : objWf T (objOf label o) = true ∧ objNoBoolPfx (objOf label o) = true ∧
        dObj R none st (objOf label o) = some (o.map (fun b => B.lbl (label b)), [], st) := by
      cases o with
      | iri ov => simp [objOf, objWf, iriWf, scalarsB_of ho.1, objNoBoolPfx, dObj, iriOf, hb, Term.map]
      | bnode b => simp [objOf, objWf, hlab b, objNoBoolPfx, dObj, Term.map]
      | lit l d t =>
        obtain ⟨hl, hd, hlang⟩ := ho
        have hls := scalarsB_of hl
        by_cases hx : d = xsdString
        · subst hx
          cases t with
          | some tag => exact absurd hlang.1 xsd_ne_lang
          | none => simp [objOf, objWf, litWf, hls, objNoBoolPfx, dObj, litOf, Term.map]
        · by_cases hy : d = rdfLangString
          · subst hy
            cases t with
            | none => simp at hlang
            | some tag =>
              have : C02.langOK tag = true := by rw [← langOK_eq]; exact hlang.2
              simp [objOf, hx, objWf, litWf, hls, this, objNoBoolPfx, dObj, litOf, Term.map]
          · cases t with
            | some tag => exact absurd hlang.1 hy
            | none =>
              simp [objOf, hx, hy, objWf, litWf, iriWf, hls, scalarsB_of hd.1, objNoBoolPfx, dObj, litOf, iriOf, hb, Term.map,
                hlang.1, hlang.2]
    obtain ⟨w1, w2, w3⟩ := hsub
    obtain ⟨o1, o2, o3⟩ := hobj
    refine ⟨?_, ?_, ?_⟩
    · simp [blockWf, blockOf, triplesWf, w1, posWf, poWf, verbOfT, verbWf, iriWf, hpv, itemsWf, o1]
    · simp [blockNoBoolPfx, blockOf, triplesNoBoolPfx, posNoBoolPfx, poNoBoolPfx, itemsNoBoolPfx, o2, subjNoBoolPfx]
      cases s <;> simp [subjOf, subjNoBoolPfx]
    · simp [dBlock, blockOf, dTriples, w3, dPOs, dPO, verbOfT, verbOf, iriOf, hb, dObjs, o3, qB, Term.map]

theorem doc_wf_denote (T : Ttl.Tables) (R : Resolver) (label : β → List Nat) (urlOk : List Nat → Bool)
    (hlab : ∀ b, labelWf T (label b) = true) : ∀ (qs : List (Quad β)), (∀ q ∈ qs, C01.WFQuad urlOk q) →
    ∀ (st : DState), st.base = none →
    docWf T false (docOf label qs) = true ∧ docNoBoolPfx (docOf label qs) = true ∧
      dDoc R st (docOf label qs) = some (qs.map (qB label), st) := by
  intro qs
  induction qs with
  | nil => intro _ st _; simp [docOf, docWf, docNoBoolPfx, dDoc]
  | cons q qs ih =>
    intro hwf st hb
    obtain ⟨b1, b2, b3⟩ := block_wf_denote T R label urlOk hlab q (hwf q List.mem_cons_self) st hb
    obtain ⟨i1, i2, i3⟩ := ih (fun q' hq' => hwf q' (List.mem_cons_of_mem _ hq')) st hb
    simp only [docWf, docNoBoolPfx, docOf] at i1 i2 i3 ⊢
    refine ⟨by simp [b1, i1], by simp [b2, i2], by simp [dDoc, b3, i3]⟩

theorem choicesOK_of (Tn : NQ.Tables) (a : Bool) (qs : List (Quad β)) : choicesOK (choicesOf Tn a qs) = true := by
  simp only [choicesOK, choicesOf, List.all_cons, List.all_eq_true, List.mem_flatMap, Bool.and_eq_true]
  refine ⟨rfl, ?_⟩
  rintro s ⟨q, _, hs⟩
  simp only [slotsOf, List.mem_cons, List.mem_append, List.not_mem_nil, or_false] at hs
  have hn : ∀ t : Term β, slotOK (nodeSlot Tn a t) = true := by intro t; cases t <;> rfl
  rcases hs with rfl | rfl | hs | rfl | rfl | rfl
  · exact hn _
  · exact hn _
  · cases ho : q.o with
    | iri v => simp [ho, objSlotsOf] at hs; subst hs; exact hn _
    | bnode b => simp [ho, objSlotsOf] at hs; subst hs; exact hn _
    | lit l d t =>
      simp only [ho, objSlotsOf] at hs
      split at hs
      · simp at hs; subst hs; rfl
      · simp at hs; rcases hs with rfl | rfl <;> rfl
  · rfl
  · rfl
  · rfl

end doc
end RdfModel.C07NT
