/-
  Model of the decoder option plumbing shared by every decoder with offset capture
  (`encoding/{turtle,trig,ntriples,nquads,rdfxml,jsonld,rdfjson}/decoder_config.go`,
  `encoding/html/document_config.go`, `encoding/html/htmldefaults/decoder_config.go`).

  Go shape (identical in all nine packages, up to the set of fields):

      type DecoderConfig struct { captureTextOffsets *bool; initialTextOffset *cursorio.TextOffset; … }
      func (b DecoderConfig) SetCaptureTextOffsets(v bool) DecoderConfig { b.captureTextOffsets = &v; return b }
      func (b DecoderConfig) SetInitialTextOffset(v cursorio.TextOffset) DecoderConfig {
        t := true; b.captureTextOffsets = &t; b.initialTextOffset = &v; return b }
      func (o DecoderConfig) apply(s *DecoderConfig) { if o.f != nil { s.f = o.f } … }   -- per field
      func NewDecoder(r, opts ...DecoderOption) { c := DecoderConfig{}; for _, o := range opts { o.apply(&c) }; c.newDecoder(r) }
      newDecoder: if c.captureTextOffsets != nil && *c.captureTextOffsets {
                     var init TextOffset; if c.initialTextOffset != nil { init = *c.initialTextOffset }
                     doc = NewTextWriter(init) … }

  A configuration is a record of optional fields (`none` = nil = unset). The fields that do not
  exist in a package (no base for N-Quads, no factory for the HTML document …) are simply never set by
  the setters the harness generates for that package. `base`, `factory`, `listener` carry an index into
  the harness' tables of base IRIs / blank-node factories / listener closures.

  Core Lean only (imported by the driver).
-/
import RdfModel.Model.TextWriter
namespace RdfModel.DecOpts
open RdfModel.TW

/-- `DecoderConfig` (the union of the fields of the nine packages that matter to what a decoder does). -/
structure Cfg where
  capture : Option Bool := none
  init : Option Offset := none
  base : Option Nat := none
  factory : Option Nat := none
  listener : Option Nat := none
  deriving Repr, DecidableEq, Inhabited

/-- `DecoderConfig{}` -/
def Cfg.empty : Cfg := {}

/-- One setter call of the fluent builder. -/
inductive Setter where
  | capture (v : Bool)       -- SetCaptureTextOffsets(v)
  | initial (o : Offset)     -- SetInitialTextOffset(o): also turns capture on
  | base (n : Nat)           -- SetDefaultBase / SetLocation
  | factory (n : Nat)        -- SetBlankNodeStringFactory
  | listener (n : Nat)       -- SetPrefixDirectiveListener (+ SetBaseDirectiveListener)
  deriving Repr, DecidableEq

/-- `b.SetX(v)` -/
def Setter.set : Setter → Cfg → Cfg
  | .capture v, c => { c with capture := some v }
  | .initial o, c => { c with capture := some true, init := some o }
  | .base n, c => { c with base := some n }
  | .factory n, c => { c with factory := some n }
  | .listener n, c => { c with listener := some n }

/-- One option value: `DecoderConfig{}.SetA(…).SetB(…)…` -/
def build (ss : List Setter) : Cfg := ss.foldl (fun c s => s.set c) Cfg.empty

/-- `o.apply(&s)`: every field `o` sets overwrites the field of `s`; unset fields leave it alone. -/
def Cfg.apply (o s : Cfg) : Cfg :=
  { capture := match o.capture with | some v => some v | none => s.capture
    init := match o.init with | some v => some v | none => s.init
    base := match o.base with | some v => some v | none => s.base
    factory := match o.factory with | some v => some v | none => s.factory
    listener := match o.listener with | some v => some v | none => s.listener }

/-- `NewDecoder(r, opts...)`: the compiled options. -/
def compile (opts : List Cfg) : Cfg := opts.foldl (fun s o => o.apply s) Cfg.empty

/-- What `newDecoder` makes of the compiled options: `writer = some init` when a text writer is created
    (capture on) with that initial offset, `none` when offsets are not captured. -/
structure Eff where
  writer : Option Offset
  base : Option Nat
  factory : Option Nat
  listener : Option Nat
  deriving Repr, DecidableEq

def Cfg.effective (c : Cfg) : Eff :=
  { writer := if c.capture = some true then some (c.init.getD ⟨0, 0, 0⟩) else none
    base := c.base, factory := c.factory, listener := c.listener }

/-- `NewDecoder(r, opts...)` for option values given as setter chains. -/
def newDecoder (opts : List (List Setter)) : Eff := (compile (opts.map build)).effective

/-- `encoding/html/htmldefaults` `Decoder.init`: the compiled configuration is not used directly but re-issued
    as setter calls on a fresh `html.DocumentConfig` (`SetLocation`, then the two offset setters). Unrepaired
    code (`legacy`): `SetCaptureTextOffsets(*capture)` BEFORE `SetInitialTextOffset(*initial)`, so a compiled
    `capture = false, initial = o` (e.g. `SetInitialTextOffset(o).SetCaptureTextOffsets(false)`) comes out with
    capture on. Repaired code (patch c16opts-1): initial offset first, capture flag last. -/
def htmlDefaultsForward (legacy : Bool) (c : Cfg) : List Setter :=
  let b := match c.base with | some n => [Setter.base n] | none => []
  let cap := match c.capture with | some v => [Setter.capture v] | none => []
  let ini := match c.init with | some o => [Setter.initial o] | none => []
  if legacy then b ++ cap ++ ini else b ++ ini ++ cap

/-- `htmldefaults.NewDecoder(r, opts...)` followed by `init` -/
def newDecoderHtmlDefaults (legacy : Bool) (opts : List (List Setter)) : Eff :=
  (build (htmlDefaultsForward legacy (compile (opts.map build)))).effective

end RdfModel.DecOpts
