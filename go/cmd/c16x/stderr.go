package main

// The third-party text cursor (github.com/dpb587/cursorio-go, TextWriter.Write) prints
// `FATAL: no grapheme cluster found for bytes: "…"` to os.Stderr immediately before it panics on
// ill-formed UTF-8. The panic is what matters and is handled as such (recovered by decode(): class
// panic-on, C05 finding D28; or recovered by x/net/html.Parse into an error: capture-changes-outcome,
// finding C16X-H4); the printed line carries no further information and, merged into the output of
// ./check, looks like a failure of the check. filterStderr swaps os.Stderr (the variable cursorio writes
// through) for a pipe whose reader drops exactly those lines, counts them into the report histogram
// `stderr-dropped:cursorio-no-grapheme-cluster` and forwards every other line unchanged to the real
// stderr. Crashes of the Go runtime do not go through the os.Stderr variable and are unaffected.
//
// The same goes for `inspecthtml: regex attr failed (raw="…", key="…", val="…")` (inspecthtml-go
// parser_reader.go, printed WITHOUT a newline when its regular expression cannot re-find an attribute the
// HTML tokenizer reported): a debug print of the third-party library; what it means for C16 (the
// attribute has no range) is observed by the oracle itself. Counted as
// `stderr-dropped:inspecthtml-regex-attr-failed`.

import (
	"bufio"
	"os"
	"regexp"
	"strings"
	"sync"

	"verifharness/vh"
)

const cursorioNoise = "FATAL: no grapheme cluster found for bytes:"

var inspecthtmlNoise = regexp.MustCompile(`inspecthtml: regex attr failed \(raw="(?:[^"\\]|\\.)*", key="(?:[^"\\]|\\.)*", val="(?:[^"\\]|\\.)*"\)`)

// filterStderr installs the filter; the returned function restores os.Stderr, waits for the reader and
// (when rep != nil) records the number of dropped lines. Safe to call more than once.
func filterStderr() func(rep *vh.Report) {
	orig := os.Stderr
	r, w, err := os.Pipe()
	if err != nil {
		return func(*vh.Report) {}
	}
	os.Stderr = w
	dropped, droppedHTML := 0, 0
	var wg sync.WaitGroup
	wg.Add(1)
	go func() {
		defer wg.Done()
		br := bufio.NewReaderSize(r, 1<<16)
		for {
			line, err := br.ReadString('\n')
			if line != "" {
				if strings.Contains(line, "inspecthtml: regex attr failed") {
					line = inspecthtmlNoise.ReplaceAllStringFunc(line, func(string) string { droppedHTML++; return "" })
				}
				if strings.HasPrefix(line, cursorioNoise) {
					dropped++
				} else if line != "" && line != "\n" {
					orig.WriteString(line)
				}
			}
			if err != nil {
				return
			}
		}
	}()
	var once sync.Once
	return func(rep *vh.Report) {
		once.Do(func() {
			os.Stderr = orig
			w.Close()
			wg.Wait()
			r.Close()
		})
		if rep != nil {
			if rep.Hist == nil {
				rep.Hist = map[string]int{}
			}
			if dropped > 0 {
				rep.Hist["stderr-dropped:cursorio-no-grapheme-cluster"] = dropped
			}
			if droppedHTML > 0 {
				rep.Hist["stderr-dropped:inspecthtml-regex-attr-failed"] = droppedHTML
			}
		}
	}
}
