/-
  Proofs.C01Check — Boolean checkers over range-table *entries* and their soundness lemmas.
  `Props/C01Tables.lean` discharges each checker on the regenerated tables by `decide`.
-/
import RdfModel.Props.C01Defs
namespace RdfModel.Proofs.C01
open RdfModel RdfModel.NQ RdfModel.C01

/-! ### per-entry checks (properties also true of the default value) -/

def entAll (tbl : RangeTable) (chk : Nat → Nat → Nat → Bool) : Bool :=
  tbl.all (fun e => chk e.1 e.2.1 e.2.2)

theorem lookup_entries (tbl : RangeTable) (d : Nat) (chk : Nat → Nat → Nat → Bool)
    (P : Nat → Nat → Prop)
    (sound : ∀ lo hi v, chk lo hi v = true → ∀ c, lo ≤ c → c ≤ hi → P c v)
    (hd : ∀ c, P c d) (h : entAll tbl chk = true) : ∀ c, P c (lookup tbl d c) := by
  apply lookup_forall tbl d P _ hd
  intro e he c h1 h2
  simp only [entAll, List.all_eq_true] at h
  exact sound e.1 e.2.1 e.2.2 (h e he) c h1 h2

/-! ### range checks (properties of every code point of a bounded interval) -/

/-- `q (lookup tbl d c)` for every `c ∈ [lo, hi]`, decided on the entries. -/
def checkRange (q : Nat → Bool) (d : Nat) : RangeTable → Nat → Nat → Bool
  | [], _, _ => q d
  | (l, h, v) :: rest, lo, hi =>
    (if max lo l ≤ min hi h then q v else true) &&
    (if lo < l then checkRange q d rest lo (min hi (l - 1)) else true) &&
    (if h < hi then checkRange q d rest (max lo (h + 1)) hi else true)

theorem checkRange_sound (q : Nat → Bool) (d : Nat) (tbl : RangeTable) :
    ∀ lo hi, checkRange q d tbl lo hi = true → ∀ c, lo ≤ c → c ≤ hi → q (lookup tbl d c) = true := by
  induction tbl with
  | nil => intro lo hi h c _ _; simpa [checkRange, lookup] using h
  | cons e rest ih =>
    obtain ⟨l, h, v⟩ := e
    intro lo hi hchk c h1 h2
    simp only [checkRange, Bool.and_eq_true] at hchk
    obtain ⟨⟨hA, hB⟩, hC⟩ := hchk
    unfold lookup
    split
    · next hin =>
      rw [if_pos (by omega)] at hA
      exact hA
    · next hout =>
      rcases Nat.lt_or_ge c l with hc | hc
      · rw [if_pos (by omega)] at hB
        exact ih _ _ hB c h1 (by omega)
      · have : h < c := by omega
        rw [if_pos (by omega)] at hC
        exact ih _ _ hC c (by omega) h2

def nz (v : Nat) : Bool := v != 0

/-- every code point of every range of `bad` has a non-zero table value -/
def badNZ (tbl : RangeTable) (bad : RangeSet) : Bool :=
  bad.all (fun r => checkRange nz 0 tbl r.1 r.2)

theorem badNZ_sound {tbl : RangeTable} {bad : RangeSet} (h : badNZ tbl bad = true) {c : Nat}
    (hc : inRanges bad c = true) : lookup tbl 0 c ≠ 0 := by
  rw [inRanges_iff] at hc
  obtain ⟨r, hr, h1, h2⟩ := hc
  simp only [badNZ, List.all_eq_true] at h
  have := checkRange_sound nz 0 tbl _ _ (h r hr) c h1 h2
  simpa [nz] using this

/-! ### the fields of `TablesOK` -/

def both (p : RangeTable → Bool) (f : Bool → RangeTable) : Bool := p (f true) && p (f false)

theorem both_elim {p : RangeTable → Bool} {f : Bool → RangeTable} (h : both p f = true) (a : Bool) :
    p (f a) = true := by
  simp only [both, Bool.and_eq_true] at h
  cases a; exact h.2; exact h.1

def iriBad : RangeSet :=
  [(0, 0x20), (0x3c, 0x3c), (0x3e, 0x3e), (0x22, 0x22), (0x7b, 0x7d), (0x5e, 0x5e), (0x60, 0x60),
   (0x5c, 0x5c)]

theorem iriRawOK_of_not_bad {c : Nat} (h : inRanges iriBad c = false) : iriRawOK c := by
  simp only [iriBad, inRanges, Bool.or_eq_false_iff, Bool.and_eq_false_iff,
    decide_eq_false_iff_not] at h
  unfold iriRawOK
  omega

theorem mode_le (n : Nat) (tbl : RangeTable)
    (h : entAll tbl (fun _ _ v => decide (v ≤ n)) = true) : ∀ c, lookup tbl 0 c ≤ n :=
  lookup_entries tbl 0 _ (fun _ v => v ≤ n)
    (fun _ _ _ hv _ _ _ => by simpa using hv) (fun _ => Nat.zero_le _) h

theorem raw_of_bad (tbl : RangeTable) (bad : RangeSet) (h : badNZ tbl bad = true) (c : Nat)
    (h0 : lookup tbl 0 c = 0) : inRanges bad c = false := by
  cases hb : inRanges bad c with
  | false => rfl
  | true => exact absurd h0 (badNZ_sound h hb)

/-- entries with value `m` end at or below `bound` -/
theorem mode_bound (m bound : Nat) (hm : m ≠ 0) (tbl : RangeTable)
    (h : entAll tbl (fun _ hi v => v != m || decide (hi ≤ bound)) = true) :
    ∀ c, lookup tbl 0 c = m → c ≤ bound :=
  lookup_entries tbl 0 _ (fun c v => v = m → c ≤ bound)
    (fun lo hi v hv c _ h2 hvm => by
      simp only [Bool.or_eq_true, bne_iff_ne, ne_eq, decide_eq_true_eq] at hv
      rcases hv with hv | hv
      · exact absurd hvm hv
      · omega)
    (fun _ h0 => absurd h0.symm hm) h

/-- ECHAR entries: every code point of the (short: `echarDecode` has eight values) entry is mapped
    back by `echarDecode`. Only the points of mode-1 entries are enumerated. -/
def echarChk (echar : RangeTable) (lo hi v : Nat) : Bool :=
  v != 1 || (decide (hi - lo < 16) &&
    (List.range (hi - lo + 1)).all (fun i => echarDecode (lookup echar 0 (lo + i)) == some (lo + i)))

theorem echar_ok (echar tbl : RangeTable) (h : entAll tbl (echarChk echar) = true) :
    ∀ c, lookup tbl 0 c = 1 → echarDecode (lookup echar 0 c) = some c :=
  lookup_entries tbl 0 _ (fun c v => v = 1 → echarDecode (lookup echar 0 c) = some c)
    (fun lo hi v hv c h1 h2 hv1 => by
      simp only [echarChk, Bool.or_eq_true, bne_iff_ne, ne_eq, Bool.and_eq_true, beq_iff_eq,
        List.all_eq_true, List.mem_range, decide_eq_true_eq] at hv
      rcases hv with hv | ⟨_, hdec⟩
      · exact absurd hv1 hv
      · have := hdec (c - lo) (by omega)
        rwa [show lo + (c - lo) = c by omega] at this)
    (fun _ h0 => by omega) h

def hexChk (hexDec : RangeTable) : Bool :=
  (List.range 16).all (fun d => lookup hexDec 0 (hexUpper d) == d + 1)

theorem hex_ok (hexDec : RangeTable) (h : hexChk hexDec = true) :
    ∀ d, d < 16 → lookup hexDec 0 (hexUpper d) = d + 1 := by
  intro d hd
  simp only [hexChk, List.all_eq_true, List.mem_range, beq_iff_eq] at h
  exact h d hd

/-- All the Boolean checks behind `TablesOK`. -/
def tablesOKChk (T : Tables) : Bool :=
  both (fun t => entAll t (fun _ _ v => decide (v ≤ 2))) T.iriEsc &&
  both (fun t => badNZ t iriBad) T.iriEsc &&
  both (fun t => entAll t (fun _ hi v => v != 1 || decide (hi ≤ 0xFFFF))) T.iriEsc &&
  both (fun t => entAll t (fun _ _ v => decide (v ≤ 3))) T.litEsc &&
  both (fun t => badNZ t [(0x22, 0x22), (0x5c, 0x5c)]) T.litEsc &&
  both (fun t => entAll t (echarChk T.echar)) T.litEsc &&
  both (fun t => entAll t (fun _ hi v => v != 2 || decide (hi ≤ 0xFFFF))) T.litEsc &&
  hexChk T.hexDec &&
  inRanges T.space 0x20 && !inRanges T.pnChars 0x20 && !inRanges T.pnChars 0x2e &&
  !inRanges T.space 0x3c && !inRanges T.space 0x5f

theorem tablesOK_of_chk (T : Tables) (h : tablesOKChk T = true) : TablesOK T := by
  simp only [tablesOKChk, Bool.and_eq_true, Bool.not_eq_true'] at h
  obtain ⟨⟨⟨⟨⟨⟨⟨⟨⟨⟨⟨⟨h1, h2⟩, h3⟩, h4⟩, h5⟩, h6⟩, h7⟩, h8⟩, h9⟩, h10⟩, h11⟩, h12⟩, h13⟩ := h
  exact {
    iri_mode := fun a => mode_le 2 _ (both_elim h1 a)
    iri_raw := fun a c h0 => iriRawOK_of_not_bad (raw_of_bad _ _ (both_elim h2 a) c h0)
    iri_u4 := fun a => mode_bound 1 0xFFFF (by decide) _ (both_elim h3 a)
    lit_mode := fun a => mode_le 3 _ (both_elim h4 a)
    lit_raw := fun a c h0 => by
      have := raw_of_bad _ _ (both_elim h5 a) c h0
      simp only [inRanges, Bool.or_eq_false_iff, Bool.and_eq_false_iff,
        decide_eq_false_iff_not] at this
      omega
    lit_echar := fun a => echar_ok _ _ (both_elim h6 a)
    lit_u4 := fun a => mode_bound 2 0xFFFF (by decide) _ (both_elim h7 a)
    hex := hex_ok _ h8
    space_sp := h9
    pn_sp := h10
    pn_dot := h11
    space_lt := h12
    space_us := h13 }

/-! ### `TablesAscii`, `TablesGrammar` -/

def tablesAsciiChk (T : Tables) : Bool :=
  badNZ (T.iriEsc true) [(0x80, 0x10FFFF)] &&
  badNZ (T.litEsc true) [(0x80, 0x10FFFF)] &&
  entAll T.echar (fun _ _ v => decide (v < 0x80)) &&
  entAll (T.iriEsc true) (fun _ _ v => decide (v ≤ 2)) &&
  entAll (T.litEsc true) (fun _ _ v => decide (v ≤ 3))

theorem tablesAscii_of_chk (T : Tables) (h : tablesAsciiChk T = true) : TablesAscii T := by
  simp only [tablesAsciiChk, Bool.and_eq_true] at h
  obtain ⟨⟨⟨⟨h1, h2⟩, h3⟩, h4⟩, h5⟩ := h
  exact {
    iri_ascii := fun c hc h0 => by
      have := raw_of_bad _ _ h1 c h0
      simp only [inRanges, Bool.or_eq_false_iff, Bool.and_eq_false_iff,
        decide_eq_false_iff_not] at this
      omega
    lit_ascii := fun c hc h0 => by
      have := raw_of_bad _ _ h2 c h0
      simp only [inRanges, Bool.or_eq_false_iff, Bool.and_eq_false_iff,
        decide_eq_false_iff_not] at this
      omega
    echar_ascii := lookup_entries T.echar 0 _ (fun _ v => v < 0x80)
      (fun _ _ _ hv _ _ _ => by simpa using hv) (fun _ => by omega) h3
    iri_mode_a := mode_le 2 _ h4
    lit_mode_a := mode_le 3 _ h5 }

def tablesGrammarChk (T : Tables) : Bool :=
  both (fun t => badNZ t [(0x0a, 0x0a), (0x0d, 0x0d)]) T.litEsc &&
  !inRanges T.pnCharsU 0x0a && !inRanges T.pnChars 0x0a

theorem tablesGrammar_of_chk (T : Tables) (h : tablesGrammarChk T = true) : TablesGrammar T := by
  simp only [tablesGrammarChk, Bool.and_eq_true, Bool.not_eq_true'] at h
  obtain ⟨⟨h1, h2⟩, h3⟩ := h
  exact {
    lit_raw_eol := fun a c h0 => by
      have := raw_of_bad _ _ (both_elim h1 a) c h0
      simp only [inRanges, Bool.or_eq_false_iff, Bool.and_eq_false_iff,
        decide_eq_false_iff_not] at this
      omega
    pnU_lf := h2
    pn_lf := h3 }

end RdfModel.Proofs.C01
