/- Axiom audit for property C14 (T2 part): output parsed by ./check. -/
import RdfModel.Props.C14Locks

#print axioms RdfModel.C14.all_ops_atomic
#print axioms RdfModel.C14.methods_as_expected
#print axioms RdfModel.C14.maps_have_mutex
