/-
  Helper lemmas for property C13 — the written form of a CURIE (CURIE.String) read back by ParseCURIE.
-/
import RdfModel.Proofs.C13Rfc
import RdfModel.Proofs.C13PM
namespace RdfModel.Proofs.C13
open RdfModel.Spec.RFC3986Lite RdfModel.Prefix RdfModel.C13

theorem splitColon_with (a b : Str) (ha : ∀ x ∈ a, x ≠ cColon) : splitColon (a ++ cColon :: b) = (a, some b) := by
  have := cut_at (fun c => c == cColon) a (cColon :: b) (by intro c hc; simpa using ha c hc)
    (Or.inr ⟨cColon, b, rfl, by simp⟩)
  unfold splitColon
  rw [this.1, this.2]

theorem splitColon_without (a : Str) (ha : ∀ x ∈ a, x ≠ cColon) : splitColon a = (a, none) := by
  have := upTo_all (fun c => c == cColon) a (by intro c hc; simpa using ha c hc)
  unfold splitColon
  rw [this.2]

/-- the text between the brackets (or the whole text), as `ParseCURIE` splits it -/
def curieBody (c : CURIE) : Str := if c.defaultPrefix then c.reference else c.pfx ++ cColon :: c.reference

theorem parse_body (c : CURIE) (hdp : c.defaultPrefix = true → c.pfx = [])
    (hp : ∀ x ∈ c.pfx, x ≠ cColon) (hd : c.defaultPrefix = true → ∀ x ∈ c.reference, x ≠ cColon) (safe : Bool) :
    curieOfSplit safe (splitColon (curieBody c)) = ⟨safe, c.defaultPrefix, c.pfx, c.reference⟩ := by
  unfold curieBody
  cases hdf : c.defaultPrefix with
  | true => simp only [if_true]; rw [splitColon_without _ (hd hdf), hdp hdf]; rfl
  | false => simp only [Bool.false_eq_true, if_false]; rw [splitColon_with _ _ hp]; rfl

theorem parse_string (c : CURIE) (hdp : c.defaultPrefix = true → c.pfx = [])
    (hp : ∀ x ∈ c.pfx, x ≠ cColon) (hb : c.pfx.head? ≠ some cLBr)
    (hd : c.defaultPrefix = true → ∀ x ∈ c.reference, x ≠ cColon)
    (hu : c.defaultPrefix = true → c.safe = false →
      c.reference ≠ [] ∧ ¬ (c.reference.head? = some cLBr ∧ c.reference.getLast? = some cRBr)) :
    parseCURIE c.string = some c := by
  have hbody := parse_body c hdp hp hd
  cases hs : c.safe with
  | true =>
    have hstr : c.string = cLBr :: (curieBody c ++ [cRBr]) := by
      unfold CURIE.string CURIE.safeString curieBody
      rw [hs]; cases c.defaultPrefix <;> simp
    unfold parseCURIE
    rw [hstr]
    have h2 : (cLBr :: (curieBody c ++ [cRBr])).getLast? = some cRBr := by
      rw [show cLBr :: (curieBody c ++ [cRBr]) = (cLBr :: curieBody c) ++ [cRBr] from rfl, List.getLast?_concat]
    have h3 : ((cLBr :: (curieBody c ++ [cRBr])).drop 1).take ((cLBr :: (curieBody c ++ [cRBr])).length - 2) = curieBody c := by
      simp
    have hne : cLBr :: (curieBody c ++ [cRBr]) ≠ [] := by simp
    simp only [hne, if_false, List.head?_cons, h2, and_self, if_true, h3, decide_true]
    rw [hbody true, ← hs]
  | false =>
    have hstr : c.string = curieBody c := by
      unfold CURIE.string curieBody
      rw [hs]; cases c.defaultPrefix <;> simp
    unfold parseCURIE
    rw [hstr]
    have hne : curieBody c ≠ [] := by
      unfold curieBody
      cases hdf : c.defaultPrefix with
      | true => simp only [if_true]; exact (hu hdf hs).1
      | false => simp
    have hnb : ¬ ((curieBody c).head? = some cLBr ∧ (curieBody c).getLast? = some cRBr) := by
      unfold curieBody
      cases hdf : c.defaultPrefix with
      | true => simp only [if_true]; exact (hu hdf hs).2
      | false =>
        simp only [Bool.false_eq_true, if_false]
        intro h
        cases hpf : c.pfx with
        | nil => rw [hpf] at h; simp [cColon, cLBr] at h
        | cons x xs => rw [hpf] at h hb; simp at h hb; exact hb h.1
    simp only [hne, if_false, hnb, decide_false]
    rw [hbody false, ← hs]

/-- the written form of what CompactCURIE builds, read back by ParseCURIE and expanded in the same scope -/
theorem curie_string_roundtrip (sc : Scope) (p : PM) (hinv : Inv p) (v : Str) (pr : PrefixRef)
    (hc : compact p v = some pr)
    (hp : ∀ x ∈ pr.pfx, x ≠ cColon) (hb : pr.pfx.head? ≠ some cLBr)
    (hd : (compactCURIE sc p v).defaultPrefix = true →
      (∀ x ∈ pr.reference, x ≠ cColon) ∧
      (sc.safe = false → pr.reference ≠ [] ∧ ¬ (pr.reference.head? = some cLBr ∧ pr.reference.getLast? = some cRBr))) :
    (parseCURIE (compactCURIE sc p v).string).bind (expandCURIE sc p) = some v := by
  have hrt := curie_roundtrip sc p hinv v pr hc
  have hparse : parseCURIE (compactCURIE sc p v).string = some (compactCURIE sc p v) := by
    have hform : compactCURIE sc p v = ⟨sc.safe, true, [], pr.reference⟩ ∨
        compactCURIE sc p v = ⟨sc.safe, false, pr.pfx, pr.reference⟩ := by
      unfold compactCURIE; rw [hc]; simp only; split
      · left; rfl
      · right; rfl
    rcases hform with hf | hf
    · rw [hf] at hd ⊢
      apply parse_string
      · intro _; rfl
      · intro x hx; simp at hx
      · simp
      · intro _; exact (hd rfl).1
      · intro _ hs; exact (hd rfl).2 hs
    · rw [hf]
      apply parse_string
      · intro h; simp at h
      · exact hp
      · exact hb
      · intro h; simp at h
      · intro h; simp at h
  rw [hparse]
  exact hrt

end RdfModel.Proofs.C13
