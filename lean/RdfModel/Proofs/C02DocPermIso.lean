/-
  RdfModel.Proofs.C02DocPermIso — flattening a resource list is invariant, up to graph isomorphism,
  under deep permutation (reordering nested statement lists, reordering resources, dropping
  resources without statements).
-/
import RdfModel.Spec.GraphIso
import RdfModel.Proofs.C02DocDP
namespace RdfModel.Proofs.C02Doc
open RdfModel RdfModel.Desc

-- `DP`, `RP`, `resStmts`, `resSubj` and their closure lemmas: Proofs/C02DocDP.lean

variable {β : Type}

/-! ## node counts -/

mutual
def cnt : Stmt β → Nat
  | .obj _ _ => 0
  | .anon _ l => 1 + cnts l
def cnts : List (Stmt β) → Nat
  | [] => 0
  | x :: xs => cnt x + cnts xs
end

@[simp] theorem cnt_obj (p : List Nat) (o : Term β) : cnt (Stmt.obj p o) = 0 := by simp [cnt]
@[simp] theorem cnt_anon (p : List Nat) (l : List (Stmt β)) : cnt (Stmt.anon p l) = 1 + cnts l := by simp [cnt]
@[simp] theorem cnts_nil : cnts ([] : List (Stmt β)) = 0 := by simp [cnts]
@[simp] theorem cnts_cons (x : Stmt β) (l : List (Stmt β)) : cnts (x :: l) = cnt x + cnts l := by simp [cnts]

mutual
theorem newTriples_snd (s : Term (BN β)) (x : Stmt β) (n : Nat) : (Stmt.newTriples s x n).2 = n + cnt x :=
  match x with
  | .obj p o => by simp [Stmt.newTriples]
  | .anon p l => by
    simp only [Stmt.newTriples, cnt_anon]
    rw [stmtsNewTriples_snd _ l (n + 1)]; omega
theorem stmtsNewTriples_snd (s : Term (BN β)) (l : List (Stmt β)) (n : Nat) : (stmtsNewTriples s l n).2 = n + cnts l :=
  match l with
  | [] => by simp [stmtsNewTriples]
  | x :: xs => by
    simp only [stmtsNewTriples, cnts_cons]
    rw [stmtsNewTriples_snd s xs, newTriples_snd s x n]; omega
end

theorem DP.cnts_eq {l l' : List (Stmt β)} (h : DP l l') : cnts l' = cnts l := by
  induction h with
  | nil => rfl
  | obj p o _ ih => simp [ih]
  | anon p _ _ ih1 ih2 => simp [ih1, ih2]
  | swap x y l => simp; omega
  | trans _ _ ih1 ih2 => omega

/-! ## flattening with a naming function `ν` for the fresh nodes -/

/-- renaming of fresh ids -/
def ren (g : Nat → Nat) : BN β → BN β
  | .orig b => .orig b
  | .fresh k => .fresh (g k)

mutual
/-- `Stmt.newTriples` (triples only) where the node made from counter value `k` is `fresh (ν k)` -/
def gS (ν : Nat → Nat) (s : Term (BN β)) : Stmt β → Nat → List (Triple (BN β))
  | .obj p o, _ => [⟨s, p, o.map BN.orig⟩]
  | .anon p l, n => gL ν (Term.bnode (BN.fresh (ν n))) l (n + 1) ++ [⟨s, p, Term.bnode (BN.fresh (ν n))⟩]
def gL (ν : Nat → Nat) (s : Term (BN β)) : List (Stmt β) → Nat → List (Triple (BN β))
  | [], _ => []
  | x :: xs, n => gS ν s x n ++ gL ν s xs (n + cnt x)
end

@[simp] theorem gS_obj (ν : Nat → Nat) (s : Term (BN β)) (p : List Nat) (o : Term β) (n : Nat) :
    gS ν s (Stmt.obj p o) n = [⟨s, p, o.map BN.orig⟩] := by simp [gS]
@[simp] theorem gS_anon (ν : Nat → Nat) (s : Term (BN β)) (p : List Nat) (l : List (Stmt β)) (n : Nat) :
    gS ν s (Stmt.anon p l) n =
      gL ν (Term.bnode (BN.fresh (ν n))) l (n + 1) ++ [⟨s, p, Term.bnode (BN.fresh (ν n))⟩] := by simp [gS]
@[simp] theorem gL_nil (ν : Nat → Nat) (s : Term (BN β)) (n : Nat) : gL ν s ([] : List (Stmt β)) n = [] := by
  simp [gL]
@[simp] theorem gL_cons (ν : Nat → Nat) (s : Term (BN β)) (x : Stmt β) (l : List (Stmt β)) (n : Nat) :
    gL ν s (x :: l) n = gS ν s x n ++ gL ν s l (n + cnt x) := by simp [gL]

theorem term_map_ren_orig (g : Nat → Nat) (o : Term β) : (o.map BN.orig).map (ren g) = o.map BN.orig := by
  cases o <;> simp [Term.map, ren]

mutual
theorem gS_map (ν : Nat → Nat) (s : Term (BN β)) (x : Stmt β) (n : Nat) :
    gS ν (s.map (ren ν)) x n = (Stmt.newTriples s x n).1.map (Triple.map (ren ν)) :=
  match x with
  | .obj p o => by simp [Stmt.newTriples, Triple.map, term_map_ren_orig]
  | .anon p l => by
    have ih := gL_map ν (Term.bnode (BN.fresh n)) l (n + 1)
    simp only [Term.map, ren] at ih
    simp [Stmt.newTriples, Triple.map, ih, Term.map, ren]
theorem gL_map (ν : Nat → Nat) (s : Term (BN β)) (l : List (Stmt β)) (n : Nat) :
    gL ν (s.map (ren ν)) l n = (stmtsNewTriples s l n).1.map (Triple.map (ren ν)) :=
  match l with
  | [] => by simp [stmtsNewTriples]
  | x :: xs => by
    simp only [gL_cons, stmtsNewTriples, List.map_append]
    rw [gS_map ν s x n, gL_map ν s xs, newTriples_snd]
end

mutual
/-- the flattening only looks at `ν` on its own range, and only relative to the start -/
theorem gS_congr (ν ν' : Nat → Nat) (s : Term (BN β)) (x : Stmt β) (m n : Nat)
    (h : ∀ i, i < cnt x → ν' (m + i) = ν (n + i)) : gS ν' s x m = gS ν s x n :=
  match x with
  | .obj p o => by simp
  | .anon p l => by
    have h0 : ν' m = ν n := by simpa using h 0 (by simp; omega)
    have ih := gL_congr ν ν' (Term.bnode (BN.fresh (ν n))) l (m + 1) (n + 1) (by
      intro i hi
      have := h (1 + i) (by simp; omega)
      simpa [Nat.add_assoc] using this)
    simp [h0, ih]
theorem gL_congr (ν ν' : Nat → Nat) (s : Term (BN β)) (l : List (Stmt β)) (m n : Nat)
    (h : ∀ i, i < cnts l → ν' (m + i) = ν (n + i)) : gL ν' s l m = gL ν s l n :=
  match l with
  | [] => by simp
  | x :: xs => by
    have h1 := gS_congr ν ν' s x m n (fun i hi => h i (by simp; omega))
    have h2 := gL_congr ν ν' s xs (m + cnt x) (n + cnt x) (by
      intro i hi
      have := h (cnt x + i) (by simp; omega)
      simpa [Nat.add_assoc] using this)
    simp [h1, h2]
end

/-! ## window permutations -/

/-- `g`, `h` are mutually inverse and `g` is the identity outside `[lo, hi)` -/
structure WinPerm (lo hi : Nat) (g h : Nat → Nat) : Prop where
  hg : ∀ k, h (g k) = k
  gh : ∀ k, g (h k) = k
  out : ∀ k, (k < lo ∨ hi ≤ k) → g k = k

theorem WinPerm.id (lo hi : Nat) : WinPerm lo hi id id := ⟨fun _ => rfl, fun _ => rfl, fun _ _ => rfl⟩

theorem WinPerm.comp {lo hi : Nat} {g1 h1 g2 h2 : Nat → Nat} (w1 : WinPerm lo hi g1 h1) (w2 : WinPerm lo hi g2 h2) :
    WinPerm lo hi (g1 ∘ g2) (h2 ∘ h1) :=
  ⟨fun k => by simp [w1.hg, w2.hg], fun k => by simp [w1.gh, w2.gh],
   fun k hk => by simp [w2.out k hk, w1.out k hk]⟩

theorem WinPerm.widen {lo hi lo' hi' : Nat} {g h : Nat → Nat} (w : WinPerm lo hi g h) (h1 : lo' ≤ lo) (h2 : hi ≤ hi') :
    WinPerm lo' hi' g h :=
  ⟨w.hg, w.gh, fun k hk => w.out k (by omega)⟩

/-- swap the adjacent blocks `[n, n+a)` and `[n+a, n+a+b)` -/
def bswap (n a b k : Nat) : Nat :=
  if k < n then k else if k < n + a then k + b else if k < n + a + b then k - a else k

theorem bswap_fst (n a b i : Nat) (h : i < a) : bswap n a b (n + i) = n + b + i := by
  grind [bswap]
theorem bswap_snd (n a b i : Nat) (h : i < b) : bswap n a b (n + a + i) = n + i := by
  grind [bswap]
theorem bswap_out (n a b k : Nat) (h : k < n ∨ n + a + b ≤ k) : bswap n a b k = k := by
  grind [bswap]
theorem bswap_bswap (n a b k : Nat) : bswap n b a (bswap n a b k) = k := by
  grind [bswap]

theorem bswap_win (n a b : Nat) : WinPerm n (n + a + b) (bswap n a b) (bswap n b a) :=
  ⟨bswap_bswap n a b, bswap_bswap n b a, bswap_out n a b⟩

/-! ## statement level -/

theorem DP.win {l l' : List (Stmt β)} (d : DP l l') :
    ∀ n : Nat, ∃ g h : Nat → Nat, WinPerm n (n + cnts l) g h ∧
      ∀ (ν : Nat → Nat) (s : Term (BN β)), (gL (ν ∘ g) s l' n).Perm (gL ν s l n) := by
  induction d with
  | nil => intro n; exact ⟨id, id, WinPerm.id _ _, fun ν s => by simp⟩
  | obj p o _ ih =>
    intro n
    obtain ⟨g, h, w, hp⟩ := ih n
    refine ⟨g, h, by simpa using w, fun ν s => ?_⟩
    simpa using hp ν s
  | @anon p a a' l l' da dl iha ihl =>
    intro n
    obtain ⟨g1, h1, w1, hp1⟩ := iha (n + 1)
    obtain ⟨g2, h2, w2, hp2⟩ := ihl (n + 1 + cnts a)
    have ea := da.cnts_eq
    have el := dl.cnts_eq
    refine ⟨g1 ∘ g2, h2 ∘ h1, ?_, fun ν s => ?_⟩
    · exact (w1.widen (by omega) (by simp; omega)).comp (w2.widen (by omega) (by simp; omega))
    · have gn : (g1 ∘ g2) n = n := by
        simp [w2.out n (by omega), w1.out n (by omega)]
      have e1 : gL (ν ∘ g1 ∘ g2) (Term.bnode (BN.fresh (ν n))) a' (n + 1) =
          gL (ν ∘ g1) (Term.bnode (BN.fresh (ν n))) a' (n + 1) :=
        gL_congr _ _ _ _ _ _ (fun i hi => by simp [w2.out (n + 1 + i) (by omega)])
      have e2 : gL (ν ∘ g1) s l (n + 1 + cnts a) = gL ν s l (n + 1 + cnts a) :=
        gL_congr _ _ _ _ _ _ (fun i hi => by simp [w1.out (n + 1 + cnts a + i) (by omega)])
      have q1 := hp1 ν (Term.bnode (BN.fresh (ν n)))
      have q2 := hp2 (ν ∘ g1) s
      rw [e2] at q2
      rw [← e1] at q1
      have gn' : (ν ∘ g1 ∘ g2) n = ν n := by
        show ν ((g1 ∘ g2) n) = ν n
        rw [gn]
      simp only [gL_cons, gS_anon, cnt_anon, gn', ea]
      have q2' : (gL (ν ∘ g1 ∘ g2) s l' (n + (1 + cnts a))).Perm (gL ν s l (n + (1 + cnts a))) := by
        rw [← Nat.add_assoc]; exact q2
      exact (q1.append_right _).append q2'
  | swap x y l =>
    intro n
    refine ⟨bswap n (cnt y) (cnt x), bswap n (cnt x) (cnt y), ?_, fun ν s => ?_⟩
    · exact (bswap_win n (cnt y) (cnt x)).widen (Nat.le_refl _) (by simp; omega)
    · have e1 : gS (ν ∘ bswap n (cnt y) (cnt x)) s y n = gS ν s y (n + cnt x) :=
        gS_congr _ _ _ _ _ _ (fun i hi => by simp [bswap_fst n (cnt y) (cnt x) i hi])
      have e2 : gS (ν ∘ bswap n (cnt y) (cnt x)) s x (n + cnt y) = gS ν s x n :=
        gS_congr _ _ _ _ _ _ (fun i hi => by simp [bswap_snd n (cnt y) (cnt x) i hi])
      have e3 : gL (ν ∘ bswap n (cnt y) (cnt x)) s l (n + cnt y + cnt x) = gL ν s l (n + cnt x + cnt y) :=
        gL_congr _ _ _ _ _ _ (fun i hi => by
          simp [bswap_out n (cnt y) (cnt x) (n + cnt y + cnt x + i) (by omega)]
          congr 1; omega)
      simp only [gL_cons, e1, e2, e3, ← List.append_assoc]
      exact List.perm_append_comm.append_right _
  | @trans a b c d1 d2 ih1 ih2 =>
    intro n
    obtain ⟨g1, h1, w1, hp1⟩ := ih1 n
    obtain ⟨g2, h2, w2, hp2⟩ := ih2 n
    have e := d1.cnts_eq
    refine ⟨g1 ∘ g2, h2 ∘ h1, w1.comp (w2.widen (Nat.le_refl _) (by omega)), fun ν s => ?_⟩
    exact (hp2 (ν ∘ g1) s).trans (hp1 ν s)

/-! ## resource level -/

/-- ids consumed by the root itself -/
def rootOff (r : Resource β) : Nat := match resSubj r with | some _ => 0 | none => 1
/-- the subject the statements of `r` are flattened with -/
def rootT (ν : Nat → Nat) (r : Resource β) (n : Nat) : Term (BN β) :=
  match resSubj r with | some s => s.map BN.orig | none => Term.bnode (BN.fresh (ν n))
def cntR (r : Resource β) : Nat := rootOff r + cnts (resStmts r)
def cntRs : List (Resource β) → Nat
  | [] => 0
  | r :: rs => cntR r + cntRs rs
def gR (ν : Nat → Nat) (r : Resource β) (n : Nat) : List (Triple (BN β)) :=
  gL ν (rootT ν r n) (resStmts r) (n + rootOff r)
def gRs (ν : Nat → Nat) : List (Resource β) → Nat → List (Triple (BN β))
  | [], _ => []
  | r :: rs, n => gR ν r n ++ gRs ν rs (n + cntR r)

@[simp] theorem cntRs_nil : cntRs ([] : List (Resource β)) = 0 := rfl
@[simp] theorem cntRs_cons (r : Resource β) (rs : List (Resource β)) : cntRs (r :: rs) = cntR r + cntRs rs := rfl
@[simp] theorem gRs_nil (ν : Nat → Nat) (n : Nat) : gRs ν ([] : List (Resource β)) n = [] := rfl
@[simp] theorem gRs_cons (ν : Nat → Nat) (r : Resource β) (rs : List (Resource β)) (n : Nat) :
    gRs ν (r :: rs) n = gR ν r n ++ gRs ν rs (n + cntR r) := rfl

theorem resNewTriples_snd (r : Resource β) (n : Nat) : (r.newTriples n).2 = n + cntR r := by
  cases r with
  | subject s st =>
    cases s <;> simp [Resource.newTriples, stmtsNewTriples_snd, cntR, rootOff, resSubj, resStmts] <;> omega
  | anon st => simp [Resource.newTriples, stmtsNewTriples_snd, cntR, rootOff, resSubj, resStmts]; omega

theorem newTriplesList_snd (rs : List (Resource β)) (n : Nat) : (newTriplesList rs n).2 = n + cntRs rs := by
  induction rs generalizing n with
  | nil => simp [newTriplesList]
  | cons r rs ih => simp [newTriplesList, ih, resNewTriples_snd]; omega

theorem gR_map (ν : Nat → Nat) (r : Resource β) (n : Nat) :
    gR ν r n = (r.newTriples n).1.map (Triple.map (ren ν)) := by
  cases r with
  | subject s st =>
    cases s with
    | none =>
      have := gL_map ν (Term.bnode (BN.fresh n)) st (n + 1)
      simpa [gR, rootT, rootOff, resSubj, resStmts, Resource.newTriples, Term.map, ren] using this
    | some s =>
      have := gL_map ν (s.map BN.orig) st n
      simpa [gR, rootT, rootOff, resSubj, resStmts, Resource.newTriples, term_map_ren_orig] using this
  | anon st =>
    have := gL_map ν (Term.bnode (BN.fresh n)) st (n + 1)
    simpa [gR, rootT, rootOff, resSubj, resStmts, Resource.newTriples, Term.map, ren] using this

theorem gRs_map (ν : Nat → Nat) (rs : List (Resource β)) (n : Nat) :
    gRs ν rs n = (newTriplesList rs n).1.map (Triple.map (ren ν)) := by
  induction rs generalizing n with
  | nil => simp [newTriplesList]
  | cons r rs ih => simp [newTriplesList, ih, gR_map, resNewTriples_snd]

theorem rootT_congr (ν ν' : Nat → Nat) (r r' : Resource β) (m n : Nat) (hs : resSubj r = resSubj r')
    (h : rootOff r = 1 → ν' m = ν n) : rootT ν' r' m = rootT ν r n := by
  unfold rootT
  unfold rootOff at h
  rw [← hs]
  cases hr : resSubj r with
  | none => rw [hr] at h; simp [h rfl]
  | some s => rfl

theorem rootOff_congr (r r' : Resource β) (hs : resSubj r = resSubj r') : rootOff r' = rootOff r := by
  unfold rootOff; rw [hs]

theorem rootOff_le (r : Resource β) : rootOff r ≤ 1 := by
  unfold rootOff; cases resSubj r <;> simp

theorem gR_congr (ν ν' : Nat → Nat) (r : Resource β) (m n : Nat)
    (h : ∀ i, i < cntR r → ν' (m + i) = ν (n + i)) : gR ν' r m = gR ν r n := by
  unfold gR
  unfold cntR at h
  have := rootOff_le r
  rw [rootT_congr ν ν' r r m n rfl (fun e => by simpa using h 0 (by omega))]
  exact gL_congr _ _ _ _ _ _ (fun i hi => by
    have := h (rootOff r + i) (by omega)
    simpa [Nat.add_assoc] using this)

theorem gRs_congr (ν ν' : Nat → Nat) (rs : List (Resource β)) (m n : Nat)
    (h : ∀ i, i < cntRs rs → ν' (m + i) = ν (n + i)) : gRs ν' rs m = gRs ν rs n := by
  induction rs generalizing m n with
  | nil => rfl
  | cons r rs ih =>
    have h1 := gR_congr ν ν' r m n (fun i hi => h i (by simp; omega))
    have h2 := ih (m + cntR r) (n + cntR r) (by
      intro i hi
      have := h (cntR r + i) (by simp; omega)
      simpa [Nat.add_assoc] using this)
    simp [h1, h2]

theorem RP.cntRs_le {rs rs' : List (Resource β)} (h : RP rs rs') : cntRs rs' ≤ cntRs rs := by
  induction h with
  | nil => exact Nat.le_refl _
  | @cons r r' rs rs' hs hd _ ih =>
    simp only [cntRs_cons, cntR, rootOff_congr r r' hs, hd.cnts_eq]; omega
  | drop _ _ ih => simp; omega
  | swap x y l => simp; omega
  | trans _ _ ih1 ih2 => omega

theorem RP.win {rs rs' : List (Resource β)} (d : RP rs rs') :
    ∀ n : Nat, ∃ g h : Nat → Nat, WinPerm n (n + cntRs rs) g h ∧
      ∀ ν : Nat → Nat, (gRs (ν ∘ g) rs' n).Perm (gRs ν rs n) := by
  induction d with
  | nil => intro n; exact ⟨id, id, WinPerm.id _ _, fun ν => by simp⟩
  | @cons r r' rs rs' hs hd dr ih =>
    intro n
    obtain ⟨g1, h1, w1, hp1⟩ := hd.win (n + rootOff r)
    obtain ⟨g2, h2, w2, hp2⟩ := ih (n + cntR r)
    have ec := hd.cnts_eq
    have eo := rootOff_congr r r' hs
    have eR : cntR r' = cntR r := by simp [cntR, ec, eo]
    have hle := rootOff_le r
    refine ⟨g1 ∘ g2, h2 ∘ h1, ?_, fun ν => ?_⟩
    · exact (w1.widen (by omega) (by simp [cntR]; omega)).comp (w2.widen (by omega) (by simp only [cntRs_cons]; omega))
    · have gn : rootOff r = 1 → (ν ∘ g1 ∘ g2) n = ν n := by
        intro e
        show ν (g1 (g2 n)) = ν n
        rw [w2.out n (by simp [cntR]; omega), w1.out n (by omega)]
      have eT : rootT (ν ∘ g1 ∘ g2) r' n = rootT ν r n := rootT_congr _ _ r r' n n hs gn
      have e1 : gL (ν ∘ g1 ∘ g2) (rootT ν r n) (resStmts r') (n + rootOff r) =
          gL (ν ∘ g1) (rootT ν r n) (resStmts r') (n + rootOff r) :=
        gL_congr _ _ _ _ _ _ (fun i hi => by
          simp [w2.out (n + rootOff r + i) (by simp [cntR]; omega)])
      have e2 : gRs (ν ∘ g1) rs (n + cntR r) = gRs ν rs (n + cntR r) :=
        gRs_congr _ _ _ _ _ (fun i hi => by
          simp [w1.out (n + cntR r + i) (by simp [cntR]; omega)])
      have q1 := hp1 ν (rootT ν r n)
      have q2 := hp2 (ν ∘ g1)
      rw [e2] at q2
      rw [← e1] at q1
      simp only [gRs_cons, gR, eT, eo, eR]
      exact q1.append q2
  | @drop r rs rs' hst dr ih =>
    intro n
    obtain ⟨g1, h1, w1, hp1⟩ := ih (n + rootOff r)
    have hle := dr.cntRs_le
    have eR : cntR r = rootOff r := by simp [cntR, hst]
    refine ⟨g1 ∘ bswap n (cntRs rs) (rootOff r), bswap n (rootOff r) (cntRs rs) ∘ h1, ?_, fun ν => ?_⟩
    · exact (w1.widen (by omega) (by simp [eR]; omega)).comp
        ((bswap_win n (cntRs rs) (rootOff r)).widen (Nat.le_refl _) (by simp [eR]; omega))
    · have e1 : gRs (ν ∘ g1 ∘ bswap n (cntRs rs) (rootOff r)) rs' n = gRs (ν ∘ g1) rs' (n + rootOff r) :=
        gRs_congr _ _ _ _ _ (fun i hi => by
          simp [bswap_fst n (cntRs rs) (rootOff r) i (by omega)])
      rw [e1]
      simpa [gR, hst, eR] using hp1 ν
  | swap x y l =>
    intro n
    refine ⟨bswap n (cntR y) (cntR x), bswap n (cntR x) (cntR y), ?_, fun ν => ?_⟩
    · exact (bswap_win n (cntR y) (cntR x)).widen (Nat.le_refl _) (by simp; omega)
    · have e1 : gR (ν ∘ bswap n (cntR y) (cntR x)) y n = gR ν y (n + cntR x) :=
        gR_congr _ _ _ _ _ (fun i hi => by simp [bswap_fst n (cntR y) (cntR x) i hi])
      have e2 : gR (ν ∘ bswap n (cntR y) (cntR x)) x (n + cntR y) = gR ν x n :=
        gR_congr _ _ _ _ _ (fun i hi => by simp [bswap_snd n (cntR y) (cntR x) i hi])
      have e3 : gRs (ν ∘ bswap n (cntR y) (cntR x)) l (n + cntR y + cntR x) = gRs ν l (n + cntR x + cntR y) :=
        gRs_congr _ _ _ _ _ (fun i hi => by
          simp [bswap_out n (cntR y) (cntR x) (n + cntR y + cntR x + i) (by omega)]
          congr 1; omega)
      simp only [gRs_cons, e1, e2, e3, ← List.append_assoc]
      exact List.perm_append_comm.append_right _
  | @trans a b c d1 d2 ih1 ih2 =>
    intro n
    obtain ⟨g1, h1, w1, hp1⟩ := ih1 n
    obtain ⟨g2, h2, w2, hp2⟩ := ih2 n
    have e := d1.cntRs_le
    refine ⟨g1 ∘ g2, h2 ∘ h1, w1.comp (w2.widen (Nat.le_refl _) (by omega)), fun ν => ?_⟩
    exact (hp2 (ν ∘ g1)).trans (hp1 ν)

/-! ## main theorem -/

theorem term_map_id {γ : Type} (t : Term γ) : t.map (fun b => b) = t := by cases t <;> rfl

theorem ren_of_inv (g h : Nat → Nat) (e : ∀ k, h (g k) = k) (b : BN β) : ren h (ren g b) = b := by
  cases b <;> simp [ren, e]

theorem triple_map_ren_id (g : Nat → Nat) (e : ∀ k, g k = k) (t : Triple (BN β)) : Triple.map (ren g) t = t := by
  have : (ren g : BN β → BN β) = fun b => b := by
    funext b; cases b <;> simp [ren, e]
  cases t; simp [Triple.map, this, term_map_id]

theorem newTriplesList_iso_of_RP {β : Type} {rs rs' : List (Resource β)} (h : RP rs rs') (n : Nat) :
    Spec.Iso (newTriplesList rs' n).1 (newTriplesList rs n).1 := by
  obtain ⟨g, k, w, hp⟩ := h.win n
  refine ⟨ren k, ?_, ?_⟩
  · intro a b hab
    have := congrArg (ren g) hab
    simpa [ren_of_inv k g w.gh] using this
  · have q := hp k
    rw [gRs_map, gRs_map] at q
    have e : (newTriplesList rs' n).1.map (Triple.map (ren (k ∘ g))) = (newTriplesList rs' n).1 := by
      conv => rhs; rw [← List.map_id (newTriplesList rs' n).1]
      apply List.map_congr_left
      intro t _
      exact triple_map_ren_id _ (fun i => by simp [w.hg]) t
    rw [e] at q
    exact q

end RdfModel.Proofs.C02Doc
