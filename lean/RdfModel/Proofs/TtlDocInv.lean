/-
  Statement layer of Turtle/TriG: the frame invariant behind C05 (no panic) and C06 (every emitted
  statement is well formed).
-/
import RdfModel.Proofs.TtlDocBasic
namespace RdfModel.TtlDoc
open RdfModel

/-- What is known about an evaluation context wherever it occurs. -/
structure XOk (trig : Bool) (x : Ectx) : Prop where
  subj : ∀ s, x.subj = some s → nodeShape s
  pred : ∀ p, x.pred = some p → isIRI p
  graph : ∀ g, x.graph = some g → trig = true ∧ nodeShape g

def isCOS : Cont → Bool
  | .collOpenSubj _ => true
  | _ => false

/-- Per scan function: what its evaluation context and captured values satisfy. -/
def ContOK (trig : Bool) (x : Ectx) : Cont → Prop
  | .object | .objectPName | .objListContinue | .collOpenObj | .collContinue => x.subj.isSome ∧ x.pred.isSome
  | .pol | .polContinue | .polRequired | .subjAnonOrBNPL | .triples2BNPL => x.subj.isSome
  | .statement | .atBaseIRI | .atBaseDot _ | .atPrefixNS | .atPrefixIRI _ | .atPrefixDot _ _
  | .sparqlBaseIRI | .sparqlPrefixNS | .sparqlPrefixIRI _ => x.subj = none
  | .wrappedGraph | .triplesBlock | .triplesBlockQuest | .triples => x.subj = none
  | .graphLabel | .graphAnonClose => x.subj = none ∧ trig = true
  | .parenTop bn | .parenBlock bn => x.subj = none ∧ nodeShape bn
  | .collOpenSubj o => x.subj = none ∧ nodeShape o
  | .tgE1 v => x.subj = none ∧ trig = true ∧ nodeShape v
  | .tgBracket bn => x.subj = none ∧ trig = true ∧ nodeShape bn
  | .triplesEnd | .subjIRIREF | .subjPName | .subjBNode | .bnplEnd | .wrappedGraphEnd => True

def FrameOK (trig : Bool) (f : Frame) : Prop := XOk trig f.x ∧ ContOK trig f.x f.k

/-- look-ahead: the next significant rune is not `)` -/
def LA (C : Cfg) (e : End) (inp : List Nat) : Prop := ∀ c r, skipWs C e false inp = .rune c r → c ≠ 0x29

structure OutOK (C : Cfg) (e : End) (o : Out) : Prop where
  push : ∀ f ∈ o.push, FrameOK C.trig f ∧ isCOS f.k = false
  cur : ∀ f, o.cur = some f → FrameOK C.trig f ∧ (isCOS f.k = true → o.emit = none ∧ LA C e o.inp)
  emit : ∀ s, o.emit = some s → WFStmt C.trig s
  /-- `terminate()` is only ever called on a clean end of input -/
  term : o.term = true → e = .eof

def ResOK (C : Cfg) (e : End) : FnRes → Prop
  | .ok o => OutOK C e o
  | .err _ => True
  | .panic => False

def ArgOK (C : Cfg) (e : End) : Arg → Prop
  | .fail => True
  | .rune c r => skipWs C e false (c :: r) = .rune c r

theorem skipWs_idem (C : Cfg) (e : End) : ∀ (b : Bool) (inp : List Nat) (c : Nat) (r : List Nat),
    skipWs C e b inp = .rune c r → skipWs C e false (c :: r) = .rune c r := by
  intro b inp
  induction inp generalizing b with
  | nil => intro c r h; cases b <;> simp [skipWs] at h; cases e <;> simp at h
  | cons a rest ih =>
    intro c r h
    cases b with
    | true =>
      unfold skipWs at h
      split at h <;> exact ih _ _ _ h
    | false =>
      unfold skipWs at h
      split at h
      · exact ih _ _ _ h
      · split at h
        · exact ih _ _ _ h
        · next h1 h2 =>
          injection h with hc hr; subst hc; subst hr
          unfold skipWs; simp [h1, h2]

theorem LA_nul (C : Cfg) (e : End) : LA C e [0] := by
  intro c r h
  unfold skipWs at h
  simp at h
  split at h
  · simp [skipWs] at h
  · injection h with h1 h2; omega

theorem LA_of_argOK (C : Cfg) (e : End) {c : Nat} {r : List Nat} (h : ArgOK C e (.rune c r)) (hc : c ≠ 0x29) :
    LA C e (c :: r) := by
  intro c' r' h'
  simp [ArgOK] at h
  rw [h] at h'
  injection h' with h1 h2
  omega

end RdfModel.TtlDoc

namespace RdfModel.TtlDoc

variable {C : Cfg} {e : End}

theorem XOk.setSubj {t : Bool} {x : Ectx} (h : XOk t x) {s : T} (hs : nodeShape s) :
    XOk t { x with subj := some s } :=
  ⟨fun s' h' => by simp at h'; subst h'; exact hs, h.pred, h.graph⟩

theorem XOk.setPred {t : Bool} {x : Ectx} (h : XOk t x) {p : T} (hp : isIRI p) :
    XOk t { x with pred := some p } :=
  ⟨h.subj, fun p' h' => by simp at h'; subst h'; exact hp, h.graph⟩

theorem XOk.clearPred {t : Bool} {x : Ectx} (h : XOk t x) {s : T} (hs : nodeShape s) :
    XOk t { x with subj := some s, pred := none } :=
  ⟨fun s' h' => by simp at h'; subst h'; exact hs, fun p' h' => by simp at h', h.graph⟩

theorem XOk.setGraph {t : Bool} {x : Ectx} (h : XOk t x) {g : T} (ht : t = true) (hg : nodeShape g) :
    XOk t { x with graph := some g } :=
  ⟨h.subj, h.pred, fun g' h' => by simp at h'; subst h'; exact ⟨ht, hg⟩⟩

theorem wf_mkStmt {t : Bool} {x : Ectx} (h : XOk t x) (hs : x.subj.isSome) (hp : x.pred.isSome) {o : T}
    (ho : litShape o) : WFStmt t (mkStmt x o) := by
  obtain ⟨s, hs'⟩ := Option.isSome_iff_exists.mp hs
  obtain ⟨p, hp'⟩ := Option.isSome_iff_exists.mp hp
  exact ⟨⟨s, hs', h.subj s hs'⟩, ⟨p, hp', h.pred p hp'⟩, ho, h.graph⟩

/-- outputs without a `collOpenSubj` frame -/
theorem outOK_simple {o : Out} (hpush : ∀ f ∈ o.push, FrameOK C.trig f ∧ isCOS f.k = false)
    (hcur : ∀ f, o.cur = some f → FrameOK C.trig f ∧ isCOS f.k = false)
    (hemit : ∀ s, o.emit = some s → WFStmt C.trig s) (hterm : o.term = false := by rfl) : OutOK C e o :=
  ⟨hpush, fun f hf => ⟨(hcur f hf).1, fun h => by rw [(hcur f hf).2] at h; cases h⟩, hemit,
   fun h => by rw [hterm] at h; cases h⟩

def TermResOK : TermRes → Prop
  | .ok t _ _ => nodeShape t
  | .err _ => True
  | .panic => False

theorem iriIRIREF_np (hP : C.P.NoPanic) (env : Env) (inp : List Nat) : iriIRIREF C e env inp ≠ .panic := by
  unfold iriIRIREF
  have := hP.iriref e inp
  split <;> simp_all
  split <;> simp

theorem iriPName_np (hP : C.P.NoPanic) (env : Env) (inp : List Nat) : iriPName C e env inp ≠ .panic := by
  unfold iriPName
  have := hP.pname e inp
  split <;> simp_all
  split <;> simp

theorem termIRIREF_cases (hP : C.P.NoPanic) (env : Env) (inp : List Nat) :
    (∃ i r, termIRIREF C e env inp = .ok (.iri i) r env) ∨ (∃ k, termIRIREF C e env inp = .err k) := by
  unfold termIRIREF
  have := iriIRIREF_np (e := e) hP env inp
  cases h : iriIRIREF C e env inp with
  | ok i r => exact Or.inl ⟨i, r, rfl⟩
  | err k => exact Or.inr ⟨k, rfl⟩
  | panic => exact absurd h this

theorem termPName_cases (hP : C.P.NoPanic) (env : Env) (inp : List Nat) :
    (∃ i r, termPName C e env inp = .ok (.iri i) r env) ∨ (∃ k, termPName C e env inp = .err k) := by
  unfold termPName
  have := iriPName_np (e := e) hP env inp
  cases h : iriPName C e env inp with
  | ok i r => exact Or.inl ⟨i, r, rfl⟩
  | err k => exact Or.inr ⟨k, rfl⟩
  | panic => exact absurd h this

theorem termBNode_cases (hP : C.P.NoPanic) (env : Env) (inp : List Nat) :
    (∃ b r env', termBNode C e env inp = .ok (.bnode b) r env') ∨ (∃ k, termBNode C e env inp = .err k) := by
  unfold termBNode
  have := hP.bnode e inp
  cases h : C.P.bnode e inp with
  | panic => exact absurd h this
  | err k => exact Or.inr ⟨_, rfl⟩
  | ok l r =>
    left
    simp only [Env.labelled, Env.fresh]
    split <;> exact ⟨_, _, _, rfl⟩

theorem termIRIREF_ok (hP : C.P.NoPanic) (env : Env) (inp : List Nat) : TermResOK (termIRIREF C e env inp) := by
  rcases termIRIREF_cases (e := e) hP env inp with ⟨i, r, h⟩ | ⟨k, h⟩ <;> rw [h] <;> trivial

theorem termPName_ok (hP : C.P.NoPanic) (env : Env) (inp : List Nat) : TermResOK (termPName C e env inp) := by
  rcases termPName_cases (e := e) hP env inp with ⟨i, r, h⟩ | ⟨k, h⟩ <;> rw [h] <;> trivial

theorem termBNode_ok (hP : C.P.NoPanic) (env : Env) (inp : List Nat) : TermResOK (termBNode C e env inp) := by
  rcases termBNode_cases (e := e) hP env inp with ⟨i, r, env', h⟩ | ⟨k, h⟩ <;> rw [h] <;> trivial

theorem subjectTail_ok {x : Ectx} (hx : XOk C.trig x) {s : T} (hs : nodeShape s) (inp : List Nat) (env : Env) :
    ResOK C e (subjectTail x s inp env) := by
  unfold subjectTail
  refine outOK_simple ?_ ?_ ?_
  · intro f hf; simp at hf; subst hf; exact ⟨⟨hx.setSubj hs, rfl⟩, rfl⟩
  · intro f hf; simp at hf; subst hf; exact ⟨⟨hx.setSubj hs, rfl⟩, rfl⟩
  · intro s h; simp at h

theorem subjectOf_ok {x : Ectx} (hx : XOk C.trig x) {tr : TermRes} (h : TermResOK tr) : ResOK C e (subjectOf x tr) := by
  cases tr with
  | ok t r env => exact subjectTail_ok hx h r env
  | err k => trivial
  | panic => exact h

theorem labelOrSubject_ok {x : Ectx} (hx : XOk C.trig x) (hn : x.subj = none) (ht : C.trig = true) {tr : TermRes}
    (h : TermResOK tr) : ResOK C e (labelOrSubject x tr) := by
  cases tr with
  | ok t r env =>
    refine outOK_simple ?_ ?_ ?_
    · intro f hf; simp [labelOrSubject] at hf
    · intro f hf; simp [labelOrSubject] at hf; subst hf; exact ⟨⟨hx, hn, ht, h⟩, rfl⟩
    · intro s h; simp [labelOrSubject] at h
  | err k => trivial
  | panic => exact h

theorem kwFallback_ok (hP : C.P.NoPanic) {x : Ectx} (hx : XOk C.trig x) (hn : x.subj = none) (env : Env) (inp : List Nat) :
    ResOK C e (kwFallback C e x env inp) := by
  unfold kwFallback
  split
  · next ht => exact labelOrSubject_ok hx hn ht (termPName_ok hP env inp)
  · refine outOK_simple ?_ ?_ ?_
    · intro f hf; simp at hf; subst hf; exact ⟨⟨hx, trivial⟩, rfl⟩
    · intro f hf; simp at hf; subst hf; exact ⟨⟨hx, trivial⟩, rfl⟩
    · intro s h; simp at h

theorem stepWrappedGraph_ok {x : Ectx} (hx : XOk C.trig x) (hn : x.subj = none) (env : Env) (a : Arg) :
    ResOK C e (stepWrappedGraph e x env a) := by
  unfold stepWrappedGraph
  split
  · trivial
  · split
    · trivial
    · refine outOK_simple ?_ ?_ ?_
      · intro f hf; simp at hf; subst hf; exact ⟨⟨hx, trivial⟩, rfl⟩
      · intro f hf; simp at hf; subst hf; exact ⟨⟨hx, hn⟩, rfl⟩
      · intro s h; simp at h

theorem resOK_withSelf {x : Ectx} (hx : XOk C.trig x) (hn : x.subj = none) {r : FnRes} (h : ResOK C e r) :
    ResOK C e (withSelf x r) := by
  cases r with
  | ok o =>
    refine ⟨?_, h.cur, h.emit, h.term⟩
    intro f hf
    simp at hf
    rcases hf with rfl | hf
    · exact ⟨⟨hx, hn⟩, rfl⟩
    · exact h.push f hf
  | err k => trivial
  | panic => exact h

end RdfModel.TtlDoc

namespace RdfModel.TtlDoc

variable {C : Cfg} {e : End}

/-- a plain output: one optional `cur`, pushes, no emission; all frames satisfy `FrameOK` and none is
    a `collOpenSubj` -/
theorem outOK_noemit {cur : Option Frame} {push : List Frame} {inp : List Nat} {env : Env}
    (hpush : ∀ f ∈ push, FrameOK C.trig f ∧ isCOS f.k = false)
    (hcur : ∀ f, cur = some f → FrameOK C.trig f ∧ isCOS f.k = false) :
    ResOK C e (.ok { cur := cur, push := push, inp := inp, env := env }) :=
  outOK_simple hpush hcur (fun s h => by simp at h)

theorem resOK_self {x : Ectx} (hx : XOk C.trig x) {k : Cont} (hk : ContOK C.trig x k) (hc : isCOS k = false)
    (inp : List Nat) (env' : Env) : ResOK C e (.ok { cur := some ⟨x, k⟩, inp := inp, env := env' }) := by
  refine outOK_noemit ?_ ?_
  · intro f hf; simp at hf
  · intro f hf; simp at hf; subst hf; exact ⟨⟨hx, hk⟩, hc⟩

theorem resOK_subj {x : Ectx} (hx : XOk C.trig x) {k : Cont} (hk : ContOK C.trig x k) (hc : isCOS k = false)
    (inp : List Nat) (env' : Env) :
    ResOK C e (.ok { cur := some ⟨x, k⟩, push := [⟨x, .triplesEnd⟩], inp := inp, env := env' }) := by
  refine outOK_noemit ?_ ?_
  · intro f hf; simp at hf; subst hf; exact ⟨⟨hx, trivial⟩, rfl⟩
  · intro f hf; simp at hf; subst hf; exact ⟨⟨hx, hk⟩, hc⟩

theorem stepAtDirective_ok {x : Ectx} (hx : XOk C.trig x) (hn : x.subj = none) (env : Env) (rest : List Nat) :
    ResOK C e (stepAtDirective e x env rest) := by
  unfold stepAtDirective
  split
  · trivial
  · split
    · split <;> first | trivial | exact resOK_self hx (by exact hn) (by rfl) _ _
    · split
      · split <;> first | trivial | exact resOK_self hx (by exact hn) (by rfl) _ _
      · trivial

theorem stepKwBase_ok (hP : C.P.NoPanic) {x : Ectx} (hx : XOk C.trig x) (hn : x.subj = none)
    (env : Env) (c : Nat) (rest : List Nat) : ResOK C e (stepKwBase C e x env c rest) := by
  unfold stepKwBase
  split
  · trivial
  · exact kwFallback_ok hP hx hn _ _
  · split
    · trivial
    · split
      · exact resOK_self hx (by exact hn) (by rfl) _ _
      · split
        · exact kwFallback_ok hP hx hn _ _
        · exact resOK_self hx (by exact hn) (by rfl) _ _

theorem stepKwSpace_ok (hP : C.P.NoPanic) {x : Ectx} (hx : XOk C.trig x) (hn : x.subj = none)
    (env : Env) (kw : List (Nat × Nat)) {k : Cont} (hk : ContOK C.trig x k) (hc : isCOS k = false) (c : Nat)
    (rest : List Nat) : ResOK C e (stepKwSpace C e x env kw k c rest) := by
  unfold stepKwSpace
  split
  · trivial
  · exact kwFallback_ok hP hx hn _ _
  · split
    · trivial
    · split
      · exact kwFallback_ok hP hx hn _ _
      · exact resOK_self hx hk hc _ _

theorem stepSubjectStart_ok (hP : C.P.NoPanic) {x : Ectx} (hx : XOk C.trig x) (hn : x.subj = none)
    (env : Env) (c : Nat) (rest : List Nat) : ResOK C e (stepSubjectStart C e x env c rest) := by
  unfold stepSubjectStart
  split
  · split
    · next ht => exact labelOrSubject_ok hx hn ht (termIRIREF_ok hP _ _)
    · exact resOK_subj hx (by exact trivial) (by rfl) _ _
  · split
    · split
      · next ht => exact labelOrSubject_ok hx hn ht (termBNode_ok hP _ _)
      · exact resOK_subj hx (by exact trivial) (by rfl) _ _
    · split
      · split
        · next ht => exact resOK_self hx (by exact ⟨hn, ht, trivial⟩) (by rfl) _ _
        · refine outOK_noemit ?_ ?_
          · intro f hf; simp at hf
          · intro f hf; simp at hf; subst hf
            exact ⟨⟨hx.setSubj trivial, rfl⟩, rfl⟩
      · split
        · exact resOK_self hx (by exact ⟨hn, trivial⟩) (by rfl) _ _
        · split
          · split
            · next ht => exact labelOrSubject_ok hx hn ht (termPName_ok hP _ _)
            · exact resOK_subj hx (by exact trivial) (by rfl) _ _
          · trivial

theorem stepStatementRune_ok (hP : C.P.NoPanic) {x : Ectx} (hx : XOk C.trig x) (hn : x.subj = none)
    (env : Env) (c : Nat) (rest : List Nat) : ResOK C e (stepStatementRune C e x env c rest) := by
  unfold stepStatementRune
  split
  · exact stepAtDirective_ok hx hn _ _
  · split
    · exact stepKwBase_ok hP hx hn _ _ _
    · split
      · exact stepKwSpace_ok hP hx hn _ _ (by exact hn) (by rfl) _ _
      · split
        · next hg => exact stepKwSpace_ok hP hx hn _ _ (by exact ⟨hn, hg.1⟩) (by rfl) _ _
        · split
          · exact stepWrappedGraph_ok hx hn _ _
          · exact stepSubjectStart_ok hP hx hn _ _ _

theorem stepCollection_ok {x : Ectx} (hx : XOk C.trig x) (env : Env) (c : Nat) (rest : List Nat) {o : T}
    (ho : nodeShape o) (h : (x.subj.isSome ∧ x.pred.isSome) ∨ (x.subj = none ∧ c ≠ 0x29)) :
    ResOK C e (stepCollection x env c rest o) := by
  have hnx : XOk C.trig { x with subj := some o, pred := some (.iri rdfFirst) } :=
    ⟨fun s' h' => by simp at h'; subst h'; exact ho, fun p' h' => by simp at h'; subst h'; trivial, hx.graph⟩
  unfold stepCollection
  split
  · next hc =>
    rcases h with ⟨hs, hp⟩ | ⟨_, hne⟩
    · refine outOK_simple ?_ ?_ ?_
      · intro f hf; simp at hf
      · intro f hf; simp at hf
      · intro s h; simp at h; subst h; exact wf_mkStmt hx hs hp trivial
    · exact absurd hc hne
  · split
    · refine outOK_noemit ?_ ?_
      · intro f hf; simp at hf; subst hf; exact ⟨⟨hnx, rfl, rfl⟩, rfl⟩
      · intro f hf; simp at hf; subst hf; exact ⟨⟨hnx, rfl, rfl⟩, rfl⟩
    · next s hs =>
      rcases h with ⟨hs', hp⟩ | ⟨hn, _⟩
      · refine outOK_simple ?_ ?_ ?_
        · intro f hf; simp at hf; subst hf; exact ⟨⟨hnx, rfl, rfl⟩, rfl⟩
        · intro f hf; simp at hf; subst hf; exact ⟨⟨hnx, rfl, rfl⟩, rfl⟩
        · intro s h; simp at h; subst h
          refine wf_mkStmt hx hs' hp ?_
          cases o <;> trivial
      · rw [hn] at hs; cases hs

theorem polGo_ok {x : Ectx} (hx : XOk C.trig x) (hs : x.subj.isSome) {p : T} (hp : isIRI p) (inp : List Nat)
    (env : Env) : ResOK C e (polGo x p inp env) := by
  unfold polGo
  refine outOK_noemit ?_ ?_
  · intro f hf; simp at hf; subst hf; exact ⟨⟨hx.setPred hp, hs, rfl⟩, rfl⟩
  · intro f hf; simp at hf; subst hf; exact ⟨⟨hx.setPred hp, hs, rfl⟩, rfl⟩

theorem polOfTerm_iriref (hP : C.P.NoPanic) {x : Ectx} (hx : XOk C.trig x) (hs : x.subj.isSome) (env : Env)
    (inp : List Nat) : ResOK C e (polOfTerm x (termIRIREF C e env inp)) := by
  rcases termIRIREF_cases (e := e) hP env inp with ⟨i, r, h⟩ | ⟨k, h⟩ <;> rw [h]
  · exact polGo_ok hx hs (by trivial) _ _
  · trivial

theorem polOfTerm_pname (hP : C.P.NoPanic) {x : Ectx} (hx : XOk C.trig x) (hs : x.subj.isSome) (env : Env)
    (inp : List Nat) : ResOK C e (polOfTerm x (termPName C e env inp)) := by
  rcases termPName_cases (e := e) hP env inp with ⟨i, r, h⟩ | ⟨k, h⟩ <;> rw [h]
  · exact polGo_ok hx hs (by trivial) _ _
  · trivial

theorem stepPOL_ok (hP : C.P.NoPanic) {x : Ectx} (hx : XOk C.trig x) (hs : x.subj.isSome) (env : Env) (c : Nat)
    (rest : List Nat) : ResOK C e (stepPOL C e x env c rest) := by
  unfold stepPOL
  split
  · exact polOfTerm_iriref hP hx hs _ _
  · split
    · split
      · trivial
      · split
        · exact polOfTerm_pname hP hx hs _ _
        · exact polGo_ok hx hs (by trivial) _ _
    · split
      · exact polOfTerm_pname hP hx hs _ _
      · refine outOK_noemit ?_ ?_ <;> intro f hf <;> simp at hf

end RdfModel.TtlDoc

namespace RdfModel.TtlDoc

variable {C : Cfg} {e : End}

theorem resOK_emit {x : Ectx} (hx : XOk C.trig x) (hs : x.subj.isSome) (hp : x.pred.isSome) {o : T} (ho : litShape o)
    (inp : List Nat) (env : Env) : ResOK C e (.ok { emit := some (mkStmt x o), inp := inp, env := env }) := by
  refine outOK_simple ?_ ?_ ?_
  · intro f hf; simp at hf
  · intro f hf; simp at hf
  · intro s h; simp at h; subst h; exact wf_mkStmt hx hs hp ho

theorem emitOfTerm_ok {x : Ectx} (hx : XOk C.trig x) (hs : x.subj.isSome) (hp : x.pred.isSome) {tr : TermRes}
    (h : TermResOK tr) : ResOK C e (emitOfTerm x tr) := by
  cases tr with
  | ok t r env => exact resOK_emit hx hs hp (by cases t <;> trivial) _ _
  | err k => trivial
  | panic => exact h

theorem stepLiteralTail_ok (hP : C.P.NoPanic) (hL : C.P.LangNonEmpty) {x : Ectx} (hx : XOk C.trig x)
    (hs : x.subj.isSome) (hp : x.pred.isSome) (env : Env) (lex rest : List Nat) :
    ResOK C e (stepLiteralTail C e x env lex rest) := by
  unfold stepLiteralTail
  split
  · trivial
  · split
    · have := hP.langtag e
      split
      · next h => exact absurd h (this _)
      · trivial
      · next tag r h => exact resOK_emit hx hs hp (by exact ⟨rfl, hL _ _ _ _ h⟩) _ _
    · split
      · split
        · trivial
        · split
          · trivial
          · split
            · trivial
            · next c2 rest2 =>
              have h1 := iriIRIREF_np (e := e) hP env (c2 :: rest2)
              have h2 := iriPName_np (e := e) hP env (c2 :: rest2)
              simp only []
              split
              · next h => split at h <;> simp_all
              · trivial
              · split
                · trivial
                · next hdt => exact resOK_emit hx hs hp (by simpa [litShape, not_or] using hdt) _ _
      · exact resOK_emit hx hs hp (by exact ⟨by decide, by decide⟩) _ _

theorem emitOfNumeric_ok {x : Ectx} (hx : XOk C.trig x) (hs : x.subj.isSome) (hp : x.pred.isSome) (env : Env)
    {r : Ttl.Res (Ttl.NumKind × List Nat)} (h : r ≠ .panic) : ResOK C e (emitOfNumeric x env r) := by
  cases r with
  | ok v rest => obtain ⟨k, lex⟩ := v; exact resOK_emit hx hs hp (by cases k <;> exact ⟨by decide, by decide⟩) _ _
  | err k => trivial
  | panic => exact absurd rfl h

theorem stepObject_ok (hP : C.P.NoPanic) (hL : C.P.LangNonEmpty) {x : Ectx} (hx : XOk C.trig x)
    (hs : x.subj.isSome) (hp : x.pred.isSome) (env : Env) (c : Nat) (rest : List Nat) :
    ResOK C e (stepObject C e x env c rest) := by
  unfold stepObject
  split
  · exact emitOfTerm_ok hx hs hp (termIRIREF_ok hP _ _)
  · split
    · exact emitOfTerm_ok hx hs hp (termBNode_ok hP _ _)
    · split
      · exact resOK_self hx (by exact ⟨hs, hp⟩) (by rfl) _ _
      · split
        · -- '['
          have hnx : XOk C.trig { x with subj := some env.fresh.1, pred := none } := hx.clearPred trivial
          refine outOK_simple ?_ ?_ ?_
          · intro f hf
            simp at hf
            rcases hf with rfl | rfl | rfl <;> exact ⟨⟨hnx, by first | trivial | rfl⟩, rfl⟩
          · intro f hf; simp at hf
          · intro s h; simp at h; subst h; exact wf_mkStmt hx hs hp (by trivial)
        · split
          · have := hP.string e
            split
            · next h => exact absurd h (this _)
            · trivial
            · exact stepLiteralTail_ok hP hL hx hs hp _ _ _
          · split
            · split
              · split
                · trivial
                · split
                  · trivial
                  · exact emitOfNumeric_ok hx hs hp _ (hP.numeric _ _)
              · exact emitOfNumeric_ok hx hs hp _ (hP.numeric _ _)
            · split
              · split
                · trivial
                · exact resOK_self hx (by exact ⟨hs, hp⟩) (by rfl) _ _
                · exact resOK_emit hx hs hp (by trivial) _ _
              · split
                · exact resOK_self hx (by exact ⟨hs, hp⟩) (by rfl) _ _
                · trivial

theorem stepTriples_ok {x : Ectx} (hx : XOk C.trig x) (hn : x.subj = none) (env : Env) (c : Nat) (rest : List Nat) :
    ResOK C e (stepTriples C x env c rest) := by
  unfold stepTriples
  split
  · exact resOK_self hx (by trivial) (by rfl) _ _
  · split
    · exact resOK_self hx (by trivial) (by rfl) _ _
    · split
      · have hnx : XOk C.trig { x with subj := some env.fresh.1 } := hx.setSubj trivial
        refine outOK_noemit ?_ ?_
        · intro f hf
          simp at hf
          rcases hf with rfl | rfl | rfl | rfl <;> exact ⟨⟨hnx, by first | trivial | rfl⟩, rfl⟩
        · intro f hf; simp at hf; subst hf; exact ⟨⟨hnx, rfl⟩, rfl⟩
      · split
        · exact resOK_self hx (by exact ⟨hn, trivial⟩) (by rfl) _ _
        · split
          · exact resOK_self hx (by trivial) (by rfl) _ _
          · trivial

theorem stepParen_ok (top : Bool) {x : Ectx} (hx : XOk C.trig x) (hn : x.subj = none) (env : Env) {bn : T}
    (hb : nodeShape bn) {a : Arg} (ha : ArgOK C e a) : ResOK C e (stepParen top x env bn a) := by
  have hla : a.orNul.1 ≠ 0x29 → LA C e (a.orNul.1 :: a.orNul.2) := by
    intro hne
    cases a with
    | fail => exact LA_nul C e
    | rune c r => exact LA_of_argOK C e ha hne
  have htail : ∀ f ∈ (if top then [(⟨x, .triplesEnd⟩ : Frame)] else []), FrameOK C.trig f ∧ isCOS f.k = false := by
    intro f hf
    cases top <;> simp at hf
    subst hf; exact ⟨⟨hx, trivial⟩, rfl⟩
  unfold stepParen
  simp only []
  split
  · have hnx : XOk C.trig { x with subj := some (.iri rdfNil) } := hx.setSubj trivial
    refine outOK_noemit ?_ ?_
    · intro f hf
      simp only [List.mem_append, List.mem_singleton] at hf
      rcases hf with hf | rfl
      · exact htail f hf
      · exact ⟨⟨hnx, rfl⟩, rfl⟩
    · intro f hf; simp at hf; subst hf; exact ⟨⟨hnx, rfl⟩, rfl⟩
  · next hne =>
    have hnx : XOk C.trig { x with subj := some bn } := hx.setSubj hb
    refine ⟨?_, ?_, ?_, (fun h => by cases h)⟩
    · intro f hf
      simp only [List.mem_append, List.mem_cons, List.not_mem_nil, or_false] at hf
      rcases hf with hf | rfl | rfl
      · exact htail f hf
      · exact ⟨⟨hnx, rfl⟩, rfl⟩
      · exact ⟨⟨hnx, rfl⟩, rfl⟩
    · intro f hf
      simp at hf; subst hf
      exact ⟨⟨hx, hn, hb⟩, fun _ => ⟨rfl, hla hne⟩⟩
    · intro s h; simp at h

end RdfModel.TtlDoc

namespace RdfModel.TtlDoc

variable {C : Cfg} {e : End}

theorem iriref_split (hP : C.P.NoPanic) (inp : List Nat) :
    (∃ v r, C.P.iriref e inp = .ok v r) ∨ (∃ k, C.P.iriref e inp = .err k) := by
  cases h : C.P.iriref e inp with
  | ok v r => exact Or.inl ⟨v, r, rfl⟩
  | err k => exact Or.inr ⟨k, rfl⟩
  | panic => exact absurd h (hP.iriref e inp)

/-- The invariant step: under `FrameOK`, a scan function neither panics nor breaks the invariant,
    and what it emits is well formed. -/
theorem stepFn_ok (hP : C.P.NoPanic) (hL : C.P.LangNonEmpty) {x : Ectx} {k : Cont} (hf : FrameOK C.trig ⟨x, k⟩)
    (env : Env) {a : Arg} (ha : ArgOK C e a) (hcos : isCOS k = true → a.orNul.1 ≠ 0x29) :
    ResOK C e (stepFn C e k x env a) := by
  obtain ⟨hx, hk⟩ := hf
  simp only at hx hk
  cases k with
  | statement =>
    simp only [stepFn]
    cases a with
    | fail =>
      cases e with
      | eof => exact ⟨(fun f h => by simp at h), (fun f h => by simp at h), (fun f h => by simp at h), (fun _ => rfl)⟩
      | ioerr => trivial
    | rune c r => exact resOK_withSelf hx hk (stepStatementRune_ok hP hx hk _ _ _)
  | atBaseIRI =>
    simp only [stepFn]
    cases a with
    | fail => trivial
    | rune c r =>
      simp only []
      rcases iriref_split (e := e) hP (c :: r) with ⟨v, r', h⟩ | ⟨k, h⟩ <;> rw [h]
      · simp only []
        split
        · trivial
        · simp only [ite_true]; exact resOK_self hx (by exact hk) (by rfl) _ _
      · trivial
  | sparqlBaseIRI =>
    simp only [stepFn]
    cases a with
    | fail => trivial
    | rune c r =>
      simp only []
      rcases iriref_split (e := e) hP (c :: r) with ⟨v, r', h⟩ | ⟨k, h⟩ <;> rw [h]
      · simp only []
        split
        · trivial
        · simp only [reduceCtorEq, ite_false]; exact resOK_self hx (by exact hk) (by rfl) _ _
      · trivial
  | atBaseDot b =>
    simp only [stepFn]
    cases a with
    | fail => trivial
    | rune c r => simp only []; split <;> first | trivial | exact resOK_self hx (by exact hk) (by rfl) _ _
  | atPrefixNS =>
    simp only [stepFn]
    cases a with
    | fail => trivial
    | rune c r =>
      simp only []
      have := hP.pnameNS e (c :: r)
      split
      · next h => exact absurd h this
      · trivial
      · simp only [ite_true]; exact resOK_self hx (by exact hk) (by rfl) _ _
  | sparqlPrefixNS =>
    simp only [stepFn]
    cases a with
    | fail => trivial
    | rune c r =>
      simp only []
      have := hP.pnameNS e (c :: r)
      split
      · next h => exact absurd h this
      · trivial
      · simp only [reduceCtorEq, ite_false]; exact resOK_self hx (by exact hk) (by rfl) _ _
  | atPrefixIRI ns =>
    simp only [stepFn]
    cases a with
    | fail => trivial
    | rune c r =>
      simp only []
      rcases iriref_split (e := e) hP (c :: r) with ⟨v, r', h⟩ | ⟨k, h⟩ <;> rw [h]
      · simp only []
        split <;> first | trivial | exact resOK_self hx (by exact hk) (by rfl) _ _
      · trivial
  | sparqlPrefixIRI ns =>
    simp only [stepFn]
    cases a with
    | fail => trivial
    | rune c r =>
      simp only []
      rcases iriref_split (e := e) hP (c :: r) with ⟨v, r', h⟩ | ⟨k, h⟩ <;> rw [h]
      · simp only []
        split <;> first | trivial | exact resOK_self hx (by exact hk) (by rfl) _ _
      · trivial
  | atPrefixDot ns b =>
    simp only [stepFn]
    cases a with
    | fail => trivial
    | rune c r => simp only []; split <;> first | trivial | exact resOK_self hx (by exact hk) (by rfl) _ _
  | subjAnonOrBNPL =>
    simp only [stepFn]
    cases a with
    | fail => trivial
    | rune c r =>
      simp only []
      split
      · refine outOK_noemit ?_ ?_
        · intro f h; simp at h; rcases h with rfl | rfl <;> exact ⟨⟨hx, by first | trivial | exact hk⟩, rfl⟩
        · intro f h; simp at h; subst h; exact ⟨⟨hx, hk⟩, rfl⟩
      · refine outOK_noemit ?_ ?_
        · intro f h; simp at h; rcases h with rfl | rfl | rfl | rfl | rfl <;> exact ⟨⟨hx, by first | trivial | exact hk⟩, rfl⟩
        · intro f h; simp at h; subst h; exact ⟨⟨hx, hk⟩, rfl⟩
  | triplesEnd =>
    simp only [stepFn]
    cases a with
    | fail => trivial
    | rune c r =>
      simp only []; split
      · refine outOK_noemit ?_ ?_ <;> intro f h <;> simp at h
      · trivial
  | subjIRIREF =>
    simp only [stepFn]
    cases a with
    | fail => trivial
    | rune c r => exact subjectOf_ok hx (termIRIREF_ok hP _ _)
  | subjPName =>
    simp only [stepFn]
    cases a with
    | fail => trivial
    | rune c r => exact subjectOf_ok hx (termPName_ok hP _ _)
  | subjBNode =>
    simp only [stepFn]
    cases a with
    | fail => trivial
    | rune c r => exact subjectOf_ok hx (termBNode_ok hP _ _)
  | pol =>
    simp only [stepFn]
    cases a with
    | fail => trivial
    | rune c r => exact stepPOL_ok hP hx hk _ _ _
  | polContinue =>
    simp only [stepFn]
    cases a with
    | fail => trivial
    | rune c r =>
      simp only []; split
      · refine outOK_noemit ?_ ?_
        · intro f h; simp at h; subst h; exact ⟨⟨hx, hk⟩, rfl⟩
        · intro f h; simp at h; subst h; exact ⟨⟨hx, hk⟩, rfl⟩
      · refine outOK_noemit ?_ ?_ <;> intro f h <;> simp at h
  | polRequired =>
    simp only [stepFn]
    cases a with
    | fail => trivial
    | rune c r =>
      simp only []
      have := stepPOL_ok (e := e) hP hx hk env c r
      split
      · next o ho => rw [ho] at this; split <;> first | trivial | exact this
      · next r' hr => cases hr' : stepPOL C e x env c r with
        | ok o => exact absurd hr' (hr o)
        | err k => trivial
        | panic => rw [hr'] at this; exact this
  | objListContinue =>
    simp only [stepFn]
    cases a with
    | fail => trivial
    | rune c r =>
      simp only []; split
      · refine outOK_noemit ?_ ?_
        · intro f h; simp at h; subst h; exact ⟨⟨hx, hk⟩, rfl⟩
        · intro f h; simp at h; subst h; exact ⟨⟨hx, hk⟩, rfl⟩
      · refine outOK_noemit ?_ ?_ <;> intro f h <;> simp at h
  | object =>
    simp only [stepFn]
    cases a with
    | fail => trivial
    | rune c r => exact stepObject_ok hP hL hx hk.1 hk.2 _ _ _
  | objectPName =>
    simp only [stepFn]
    cases a with
    | fail => trivial
    | rune c r => exact emitOfTerm_ok hx hk.1 hk.2 (termPName_ok hP _ _)
  | collOpenObj =>
    simp only [stepFn]
    cases a with
    | fail => trivial
    | rune c r => exact stepCollection_ok hx _ _ _ (by trivial) (Or.inl hk)
  | collOpenSubj o =>
    simp only [stepFn]
    exact stepCollection_ok hx _ _ _ hk.2 (Or.inr ⟨hk.1, hcos rfl⟩)
  | collContinue =>
    simp only [stepFn]
    cases a with
    | fail => trivial
    | rune c r =>
      simp only []
      obtain ⟨s, hs⟩ := Option.isSome_iff_exists.mp hk.1
      have hwf : ∀ o : T, litShape o → WFStmt C.trig { s := x.subj, p := some (.iri rdfRest), o := o, g := x.graph } :=
        fun o ho => ⟨⟨s, hs, hx.subj s hs⟩, ⟨_, rfl, trivial⟩, ho, hx.graph⟩
      split
      · refine outOK_simple ?_ ?_ ?_
        · intro f h; simp at h
        · intro f h; simp at h
        · intro s' h; simp at h; subst h; exact hwf _ trivial
      · have hnx : XOk C.trig { x with subj := some env.fresh.1 } := hx.setSubj trivial
        have hpred : ({ x with subj := some env.fresh.1 } : Ectx).pred.isSome := hk.2
        refine outOK_simple ?_ ?_ ?_
        · intro f h; simp at h; subst h; exact ⟨⟨hnx, rfl, hpred⟩, rfl⟩
        · intro f h; simp at h; subst h; exact ⟨⟨hnx, rfl, hpred⟩, rfl⟩
        · intro s' h; simp at h; subst h; exact hwf _ trivial
  | bnplEnd =>
    simp only [stepFn]
    cases a with
    | fail => trivial
    | rune c r =>
      simp only []; split
      · refine outOK_noemit ?_ ?_ <;> intro f h <;> simp at h
      · trivial
  | parenTop bn => simp only [stepFn]; exact stepParen_ok true hx hk.1 _ hk.2 ha
  | parenBlock bn => simp only [stepFn]; exact stepParen_ok false hx hk.1 _ hk.2 ha
  | graphLabel =>
    simp only [stepFn]
    cases a with
    | fail => trivial
    | rune c r =>
      simp only []
      split
      · exact resOK_self hx (by exact hk) (by rfl) _ _
      · have htr : TermResOK (if c = 0x5f then termBNode C e env (c :: r)
                  else if c = 0x3c then termIRIREF C e env (c :: r) else termPName C e env (c :: r)) := by
          split
          · exact termBNode_ok hP _ _
          · split
            · exact termIRIREF_ok hP _ _
            · exact termPName_ok hP _ _
        split
        · next h => rw [h] at htr; exact htr
        · trivial
        · next g r' env' h =>
          rw [h] at htr
          refine outOK_noemit ?_ ?_
          · intro f h; simp at h
          · intro f h; simp at h; subst h; exact ⟨⟨hx.setGraph hk.2 htr, hk.1⟩, rfl⟩
  | graphAnonClose =>
    simp only [stepFn]
    split
    · trivial
    · refine outOK_noemit ?_ ?_
      · intro f h; simp at h
      · intro f h; simp at h; subst h; exact ⟨⟨hx.setGraph hk.2 trivial, hk.1⟩, rfl⟩
  | wrappedGraph => simp only [stepFn]; exact stepWrappedGraph_ok hx hk _ _
  | wrappedGraphEnd =>
    simp only [stepFn]
    cases a with
    | fail => trivial
    | rune c r =>
      simp only []; split
      · trivial
      · refine outOK_noemit ?_ ?_ <;> intro f h <;> simp at h
  | triplesBlock =>
    simp only [stepFn]
    cases a with
    | fail => trivial
    | rune c r =>
      simp only []; split
      · refine outOK_noemit ?_ ?_ <;> intro f h <;> simp at h
      · refine outOK_noemit ?_ ?_
        · intro f h; simp at h; subst h; exact ⟨⟨hx, hk⟩, rfl⟩
        · intro f h; simp at h; subst h; exact ⟨⟨hx, hk⟩, rfl⟩
  | triplesBlockQuest =>
    simp only [stepFn]
    cases a with
    | fail => trivial
    | rune c r =>
      simp only []; split
      · exact resOK_self hx (by exact hk) (by rfl) _ _
      · split
        · refine outOK_noemit ?_ ?_ <;> intro f h <;> simp at h
        · exact resOK_self hx (by exact hk) (by rfl) _ _
  | triples =>
    simp only [stepFn]
    cases a with
    | fail => trivial
    | rune c r => exact stepTriples_ok hx hk _ _ _
  | tgE1 v =>
    simp only [stepFn]
    split
    · have hnx : XOk C.trig { x with graph := some v } := hx.setGraph hk.2.1 hk.2.2
      refine outOK_noemit ?_ ?_
      · intro f h; simp at h; subst h; exact ⟨⟨hnx, trivial⟩, rfl⟩
      · intro f h; simp at h; subst h; exact ⟨⟨hnx, hk.1⟩, rfl⟩
    · have hnx : XOk C.trig { x with subj := some v } := hx.setSubj hk.2.2
      split
      · exact False.elim hk.2.2
      · refine outOK_noemit ?_ ?_
        · intro f h; simp at h; rcases h with rfl | rfl <;> exact ⟨⟨hnx, by first | trivial | rfl⟩, rfl⟩
        · intro f h; simp at h; subst h; exact ⟨⟨hnx, rfl⟩, rfl⟩
  | tgBracket bn =>
    simp only [stepFn]
    split
    · exact resOK_self hx (by exact hk) (by rfl) _ _
    · refine outOK_noemit ?_ ?_
      · intro f h; simp at h
      · intro f h; simp at h; subst h; exact ⟨⟨hx.setSubj hk.2.2, rfl⟩, rfl⟩
  | triples2BNPL =>
    simp only [stepFn]
    cases a with
    | fail => trivial
    | rune c r =>
      simp only []
      split
      · refine outOK_noemit ?_ ?_
        · intro f h; simp at h; rcases h with rfl | rfl <;> exact ⟨⟨hx, by first | trivial | exact hk⟩, rfl⟩
        · intro f h; simp at h; subst h; exact ⟨⟨hx, hk⟩, rfl⟩
      · refine outOK_noemit ?_ ?_
        · intro f h; simp at h; rcases h with rfl | rfl | rfl | rfl | rfl <;> exact ⟨⟨hx, by first | trivial | exact hk⟩, rfl⟩
        · intro f h; simp at h; subst h; exact ⟨⟨hx, hk⟩, rfl⟩

end RdfModel.TtlDoc

namespace RdfModel.TtlDoc

variable {C : Cfg} {e : End}

theorem scanFn_ok (hP : C.P.NoPanic) (hL : C.P.LangNonEmpty) {f : Frame} (hf : FrameOK C.trig f)
    (inp : List Nat) (env : Env) (hla : isCOS f.k = true → LA C e inp) : ResOK C e (scanFn C e f inp env) := by
  unfold scanFn
  split
  · trivial
  · exact stepFn_ok hP hL hf env trivial (fun _ => by simp [Arg.orNul])
  · next c r h =>
    exact stepFn_ok hP hL hf env (skipWs_idem C e _ _ _ _ h) (fun hc => by simpa [Arg.orNul] using hla hc c r h)

theorem withSelf_push {x : Ectx} {r : FnRes} {o : Out} (h : withSelf x r = .ok o) :
    ∃ ps, o.push = ⟨x, .statement⟩ :: ps := by
  cases r with
  | ok o' => simp [withSelf] at h; subst h; exact ⟨_, rfl⟩
  | err k => simp [withSelf] at h
  | panic => simp [withSelf] at h

/-- the bottom of the scan-function stack is the top-level function (`reader_scanStatement` /
    `reader_scan_trigDoc`): it re-pushes itself before it does anything else -/
def Bot (cur : Option Frame) (st : St) : Prop := ∃ fs x, cur.toList ++ st.stack = fs ++ [⟨x, .statement⟩]

/-- invariant of the decoder between two iterations of the loop in `Next` -/
structure MInv (C : Cfg) (e : End) (cr : Option Frame) (st : St) : Prop where
  stack : ∀ f ∈ st.stack, FrameOK C.trig f ∧ isCOS f.k = false
  cur : ∀ f, cr = some f → FrameOK C.trig f ∧ (isCOS f.k = true → st.stmts = [] ∧ LA C e st.inp)
  stmts : ∀ s ∈ st.stmts, WFStmt C.trig s
  /-- as long as the stack has not been dropped by `terminate()`, which needs a clean end of input -/
  bot : e = .ioerr → st.err = none → Bot cr st

def NextResOK (C : Cfg) (e : End) : NextRes → Prop
  | .yes st' => MInv C e none st'
  | .no st' => e = .ioerr → st'.err.isSome
  | .panic => False
  | .outOfFuel => True

theorem last_of_append_singleton {α} {a b : α} {l1 l2 : List α} (h : a :: l1 = l2 ++ [b]) :
    (l1 = [] ∧ a = b ∧ l2 = []) ∨ (∃ l2', l1 = l2' ++ [b]) := by
  cases l2 with
  | nil => simp at h; exact Or.inl ⟨h.2, h.1, rfl⟩
  | cons c l2 => simp at h; exact Or.inr ⟨l2, h.2⟩

theorem nextLoop_inv (hP : C.P.NoPanic) (hL : C.P.LangNonEmpty) :
    ∀ fuel cur st, MInv C e cur st → NextResOK C e (nextLoop C e fuel cur st) := by
  intro fuel
  induction fuel with
  | zero => intro cur st _; simp [nextLoop, NextResOK]
  | succ n ih =>
    intro cur st hinv
    unfold nextLoop
    split
    · next herr => exact fun _ => herr
    · next herr =>
      have herr' : st.err = none := by cases h : st.err <;> simp_all
      split
      · next hne =>
        -- Next() = true: rsNext (if any) is pushed
        refine ⟨?_, (fun f h => by cases h), ?_, ?_⟩
        · intro f hf
          cases cur with
          | none => exact hinv.stack f hf
          | some g =>
            simp [pushCur] at hf
            rcases hf with rfl | hf
            · refine ⟨(hinv.cur f rfl).1, ?_⟩
              cases hc : isCOS f.k with
              | false => rfl
              | true =>
                have := ((hinv.cur f rfl).2 hc).1
                simp [this] at hne
            · exact hinv.stack f hf
        · intro s hs
          cases cur <;> exact hinv.stmts s (by simpa [pushCur] using hs)
        · intro he _
          obtain ⟨fs, x, h⟩ := hinv.bot he herr'
          refine ⟨fs, x, ?_⟩
          cases cur <;> simpa [pushCur] using h
      · next hne =>
        have hempty : st.stmts = [] := isEmpty_false_of hne
        split
        · next hp =>
          -- nothing left to run: only after `terminate()`
          intro he
          obtain ⟨fs, x, h⟩ := hinv.bot he herr'
          obtain ⟨rfl, hs⟩ := popFrame_none hp
          simp [hs] at h
        · next f st1 hp =>
          obtain ⟨hs1, he1, hi1, hv1, hfrom⟩ := popFrame_some hp
          have hfr : cur.toList ++ st.stack = f :: st1.stack := by
            rcases hfrom with ⟨rfl, h'⟩ | ⟨rfl, h'⟩ <;> simp [h']
          have hf : FrameOK C.trig f ∧ (isCOS f.k = true → LA C e st1.inp) := by
            rcases hfrom with ⟨rfl, _⟩ | ⟨_, hst⟩
            · exact ⟨(hinv.cur f rfl).1, fun hc => by rw [hi1]; exact ((hinv.cur f rfl).2 hc).2⟩
            · have := hinv.stack f (by rw [hst]; exact List.mem_cons_self)
              exact ⟨this.1, fun hc => by rw [this.2] at hc; cases hc⟩
          have hstack1 : ∀ g ∈ st1.stack, FrameOK C.trig g ∧ isCOS g.k = false := by
            intro g hg
            rcases hfrom with ⟨_, hst⟩ | ⟨_, hst⟩
            · exact hinv.stack g (by rw [← hst]; exact hg)
            · exact hinv.stack g (by rw [hst]; exact List.mem_cons_of_mem _ hg)
          have hres := scanFn_ok (e := e) hP hL hf.1 st1.inp st1.env hf.2
          unfold scan
          cases hsc : scanFn C e f st1.inp st1.env with
          | panic => rw [hsc] at hres; exact hres.elim
          | err k =>
            simp only []
            refine ih none { st1 with err := some k } ⟨hstack1, (fun f h => by cases h), ?_, (fun _ h => by cases h)⟩
            intro s hs
            simp [hs1, hempty] at hs
          | ok o =>
            rw [hsc] at hres
            simp only []
            have hres : OutOK C e o := hres
            have : MInv C e o.cur (applyOut st1 o) := by
              refine ⟨?_, ?_, ?_, ?_⟩
              · intro g hg
                simp only [applyOut] at hg
                split at hg
                · cases hg
                · rcases List.mem_append.mp hg with hg | hg
                  · exact hres.push g (List.mem_reverse.mp hg)
                  · exact hstack1 g hg
              · intro g hg
                refine ⟨(hres.cur g hg).1, fun hc => ?_⟩
                have := (hres.cur g hg).2 hc
                refine ⟨?_, this.2⟩
                simp [applyOut, this.1, hs1, hempty]
              · intro s hs
                simp [applyOut, hs1, hempty] at hs
                exact hres.emit s hs
              · intro he _
                have hterm : o.term = false := by
                  cases ht : o.term with
                  | false => rfl
                  | true => have := hres.term ht; rw [he] at this; cases this
                obtain ⟨fs, x, hb⟩ := hinv.bot he herr'
                rw [hfr] at hb
                simp only [Bot, applyOut, hterm, Bool.false_eq_true, ite_false]
                rcases last_of_append_singleton hb with ⟨hnil, hfx, _⟩ | ⟨l2, hl2⟩
                · -- the top-level function itself ran: it has pushed itself first
                  have hk : f.k = .statement := by rw [hfx]
                  unfold scanFn at hsc
                  rw [hk] at hsc
                  have : ∃ ps, o.push = ⟨f.x, .statement⟩ :: ps := by
                    split at hsc
                    · cases hsc
                    · simp only [stepFn] at hsc; subst he; simp at hsc
                    · simp only [stepFn] at hsc; exact withSelf_push hsc
                  obtain ⟨ps, hps⟩ := this
                  refine ⟨o.cur.toList ++ ps.reverse, f.x, ?_⟩
                  simp [hps, hnil]
                · refine ⟨o.cur.toList ++ o.push.reverse ++ l2, x, ?_⟩
                  simp [hl2]
            exact ih o.cur (applyOut st1 o) this

theorem mInv_init (C : Cfg) (e : End) (base : Option (List Nat)) (pf : List (List Nat × List Nat))
    (inp : List Nat) : MInv C e none (init base pf inp) := by
  refine ⟨?_, (fun f h => by cases h), (fun s h => by simp [init] at h), (fun _ _ => ⟨[], {}, by simp [init]⟩)⟩
  intro f hf
  simp [init] at hf; subst hf
  exact ⟨⟨⟨(fun s h => by cases h), (fun s h => by cases h), (fun s h => by cases h)⟩, rfl⟩, rfl⟩

theorem mInv_drop {st : St} (h : MInv C e none st) : MInv C e none { st with stmts := st.stmts.drop 1 } :=
  ⟨h.stack, (fun f hf => by cases hf), (fun s hs => h.stmts s (List.mem_of_mem_drop hs)), h.bot⟩

/-- `run`: never a panic, every statement well formed, and a failing reader never ends cleanly. -/
theorem runLoop_ok (hP : C.P.NoPanic) (hL : C.P.LangNonEmpty) :
    ∀ n st, MInv C e none st →
      (runLoop C e n st).2 ≠ .panic ∧ (∀ s ∈ (runLoop C e n st).1, WFStmt C.trig s) ∧
      (e = .ioerr → (runLoop C e n st).2 ≠ .clean) := by
  intro n
  induction n with
  | zero => intro st _; simp [runLoop]
  | succ n ih =>
    intro st hinv
    unfold runLoop
    have hstep := nextLoop_inv (e := e) hP hL (({ st with stmts := st.stmts.drop 1 } : St).cost + 1) none _ (mInv_drop hinv)
    have hyes := nextLoop_yes C e (({ st with stmts := st.stmts.drop 1 } : St).cost + 1) none { st with stmts := st.stmts.drop 1 }
    unfold next
    simp only []
    split
    · next h => rw [h] at hstep; exact hstep.elim
    · simp
    · next st' h =>
      rw [h] at hstep
      refine ⟨by cases st'.err <;> simp, by simp, fun he => ?_⟩
      have := hstep he
      cases hh : st'.err with
      | none => simp [hh] at this
      | some k => simp
    · next st' h =>
      rw [h] at hstep
      change MInv C e none st' at hstep
      have hne := hyes st' h
      split
      · next hnil => exact absurd hnil hne
      · next s rest hcons =>
        have := ih st' hstep
        refine ⟨this.1, ?_, this.2.2⟩
        intro s' hs'
        simp at hs'
        rcases hs' with rfl | hs'
        · exact hstep.stmts _ (by rw [hcons]; exact List.mem_cons_self)
        · exact this.2.1 s' hs'

end RdfModel.TtlDoc
