package main

// The lexical spaces of XSD 1.1 Part 2 as the regular expressions printed in the standard (plus the
// constraints the standard states in prose: day-of-month, integer ranges). This is the judge of
// the property oracle and is also diffed against the Lean recognisers of Spec/XsdLexical.lean
// (written by hand as recursive functions), so neither stands alone.

import (
	"fmt"
	"math/big"
	"regexp"
	"strconv"
	"strings"
	"time"
	"unicode/utf8"
)

const (
	reYear = `-?([1-9][0-9]{3,}|0[0-9]{3})`
	reTZ   = `(Z|(\+|-)((0[0-9]|1[0-3]):[0-5][0-9]|14:00))`
	reTime = `(([01][0-9]|2[0-3]):[0-5][0-9]:[0-5][0-9](\.[0-9]+)?|(24:00:00(\.0+)?))`
	reMon  = `(0[1-9]|1[0-2])`
	reDay  = `(0[1-9]|[12][0-9]|3[01])`
	reDurT = `(T(([0-9]+H)([0-9]+M)?([0-9]+(\.[0-9]+)?S)?|([0-9]+M)([0-9]+(\.[0-9]+)?S)?|([0-9]+(\.[0-9]+)?S)))`
)

func full(s string) *regexp.Regexp { return regexp.MustCompile(`^(?:` + s + `)$`) }

var specRE = map[string]*regexp.Regexp{
	"boolean":       full(`true|false|1|0`),
	"decimal":       full(`(\+|-)?([0-9]+(\.[0-9]*)?|\.[0-9]+)`),
	"double":        full(`(\+|-)?([0-9]+(\.[0-9]*)?|\.[0-9]+)([Ee](\+|-)?[0-9]+)?|(\+|-)?INF|NaN`),
	"float":         full(`(\+|-)?([0-9]+(\.[0-9]*)?|\.[0-9]+)([Ee](\+|-)?[0-9]+)?|(\+|-)?INF|NaN`),
	"integer":       full(`[\-+]?[0-9]+`),
	"dateTime":      full(reYear + `-` + reMon + `-` + reDay + `T` + reTime + reTZ + `?`),
	"dateTimeStamp": full(reYear + `-` + reMon + `-` + reDay + `T` + reTime + reTZ),
	"time":          full(reTime + reTZ + `?`),
	"date":          full(reYear + `-` + reMon + `-` + reDay + reTZ + `?`),
	"gYearMonth":    full(reYear + `-` + reMon + reTZ + `?`),
	"gYear":         full(reYear + reTZ + `?`),
	"gMonthDay":     full(`--` + reMon + `-` + reDay + reTZ + `?`),
	"gDay":          full(`---` + reDay + reTZ + `?`),
	"gMonth":        full(`--` + reMon + reTZ + `?`),
	"duration":      full(`-?P((([0-9]+Y([0-9]+M)?([0-9]+D)?|([0-9]+M)([0-9]+D)?|([0-9]+D))` + reDurT + `?)|` + reDurT + `)`),
	"hexBinary":     full(`([0-9a-fA-F]{2})*`),
	"base64Binary":  full(`((([A-Za-z0-9+/] ?){4})*(([A-Za-z0-9+/] ?){3}[A-Za-z0-9+/]|([A-Za-z0-9+/] ?){2}[AEIMQUYcgkosw048] ?=|[A-Za-z0-9+/] ?[AQgw] ?= ?=))?`),
}

var intRange = map[string][2]string{
	"long": {"-9223372036854775808", "9223372036854775807"}, "int": {"-2147483648", "2147483647"},
	"short": {"-32768", "32767"}, "byte": {"-128", "127"},
	"unsignedLong": {"0", "18446744073709551615"}, "unsignedInt": {"0", "4294967295"},
	"unsignedShort": {"0", "65535"}, "unsignedByte": {"0", "255"},
}

// goRange: what the Go type of the mapped value can represent (integer is an int64).
var goRange = map[string][2]string{"integer": {"-9223372036854775808", "9223372036854775807"}}

func bigOf(s string) *big.Int {
	n, _ := new(big.Int).SetString(s, 10)
	return n
}

func isXMLWs(r rune) bool { return r == ' ' || r == '\t' || r == '\n' || r == '\r' }

// refCollapse: whiteSpace = collapse of XSD, independent of xsdutil.
func refCollapse(s string) string {
	var words []string
	cur := []byte{}
	for i := 0; i < len(s); i++ {
		if c := s[i]; c == ' ' || c == '\t' || c == '\n' || c == '\r' {
			if len(cur) > 0 {
				words = append(words, string(cur))
				cur = cur[:0]
			}
		} else {
			cur = append(cur, c)
		}
	}
	if len(cur) > 0 {
		words = append(words, string(cur))
	}
	return strings.Join(words, " ")
}

func specNormalize(t *xtype, s string) string {
	if t.name == "string" {
		return s
	}
	return refCollapse(s)
}

func xmlCharsOK(s string) bool {
	if !utf8.ValidString(s) {
		return false
	}
	for _, c := range s {
		if !(c == 0x9 || c == 0xA || c == 0xD || (0x20 <= c && c <= 0xD7FF) || (0xE000 <= c && c <= 0xFFFD) || (0x10000 <= c && c <= 0x10FFFF)) {
			return false
		}
	}
	return true
}

func leap(y *big.Int) bool {
	m := func(k int64) bool { return new(big.Int).Mod(y, big.NewInt(k)).Sign() == 0 }
	return (m(4) && !m(100)) || m(400)
}

func daysIn(y *big.Int, m int) int {
	switch m {
	case 2:
		if y == nil || leap(y) {
			return 29
		}
		return 28
	case 4, 6, 9, 11:
		return 30
	}
	return 31
}

var reDateHead = regexp.MustCompile(`^(-?[0-9]+)-([0-9]{2})-([0-9]{2})`)
var reMonthDay = regexp.MustCompile(`^--([0-9]{2})-([0-9]{2})`)

// specLexOK: s (already normalised) is in the lexical space of t.
func specLexOK(t *xtype, s string) bool {
	switch t.name {
	case "string", "anyURI":
		return xmlCharsOK(s)
	}
	if t.family == "int" {
		if !specRE["integer"].MatchString(s) {
			return false
		}
		if r, bounded := intRange[t.name]; bounded {
			v := bigOf(strings.TrimPrefix(s, "+"))
			return v.Cmp(bigOf(r[0])) >= 0 && v.Cmp(bigOf(r[1])) <= 0
		}
		return true
	}
	re := specRE[t.name]
	if re == nil || !re.MatchString(s) {
		return false
	}
	switch t.name {
	case "date", "dateTime", "dateTimeStamp":
		m := reDateHead.FindStringSubmatch(s)
		mo, _ := strconv.Atoi(m[2])
		d, _ := strconv.Atoi(m[3])
		return d <= daysIn(bigOf(m[1]), mo)
	case "gMonthDay":
		m := reMonthDay.FindStringSubmatch(s)
		mo, _ := strconv.Atoi(m[1])
		d, _ := strconv.Atoi(m[2])
		return d <= daysIn(nil, mo)
	}
	return true
}

func sameTime(a, b time.Time) bool {
	_, oa := a.Zone()
	_, ob := b.Zone()
	return a.Equal(b) && oa == ob
}

var reTZEnd = regexp.MustCompile(`(Z|[+-][0-9]{2}:[0-9]{2})$`)
var reFrac = regexp.MustCompile(`(:[0-9]{2})\.([0-9]+)`)

// timeDenote: a canonical text of the value of a date/time lexical form that is in the lexical
// space: fraction without trailing zeros, time zone as signed minutes (Z = +00:00 = -00:00).
// (24:00:00 is not normalised to the next day: the implementation rejects it, so it never
// reaches a comparison.)
func timeDenote(s string) string {
	tz := "none"
	if m := reTZEnd.FindString(s); m != "" {
		s = strings.TrimSuffix(s, m)
		if m == "Z" {
			tz = "0"
		} else {
			h, _ := strconv.Atoi(m[1:3])
			mi, _ := strconv.Atoi(m[4:6])
			off := h*60 + mi
			if m[0] == '-' {
				off = -off
			}
			tz = strconv.Itoa(off)
		}
	}
	s = reFrac.ReplaceAllStringFunc(s, func(x string) string {
		m := reFrac.FindStringSubmatch(x)
		f := strings.TrimRight(m[2], "0")
		if f == "" {
			return m[1]
		}
		return m[1] + "." + f
	})
	return s + " tz=" + tz
}

// sameValue: two strings of the lexical space of t denote the same value (independent of the
// implementation where that is cheap; float-valued types compare through big.Float at the
// precision of the Go type, which is what "the value the Go type can represent" means).
func sameValue(t *xtype, a, b string) (bool, string) {
	switch t.family {
	case "int":
		x, y := bigOf(strings.TrimPrefix(a, "+")), bigOf(strings.TrimPrefix(b, "+"))
		return x.Cmp(y) == 0, fmt.Sprintf("%v vs %v", x, y)
	case "bool":
		tv := func(s string) bool { return s == "true" || s == "1" }
		return tv(a) == tv(b), ""
	case "str":
		return a == b, "strings differ"
	case "time":
		x, y := timeDenote(a), timeDenote(b)
		return x == y, x + " vs " + y
	case "float":
		if t.name == "decimal" || !(strings.Contains(a, "N") || strings.Contains(b, "N")) {
			// parse exactly (enough precision for every generated string), then round once to the type
			x, _, e1 := big.ParseFloat(a, 10, 6000, big.ToNearestEven)
			y, _, e2 := big.ParseFloat(b, 10, 6000, big.ToNearestEven)
			if e1 != nil || e2 != nil {
				return true, "" // exponent beyond big.Float's range: not judged here
			}
			fx, _ := x.Float64()
			fy, _ := y.Float64()
			if t.name == "float" {
				f32x, _ := x.Float32()
				f32y, _ := y.Float32()
				fx, fy = float64(f32x), float64(f32y)
			}
			return fx == fy && (fx != 0 || x.Signbit() == y.Signbit()), fmt.Sprintf("%v vs %v", fx, fy)
		}
		n := func(s string) string { return strings.TrimPrefix(s, "+") }
		return n(a) == n(b), "specials differ"
	}
	return true, "" // duration: values are float64 components; covered by idempotence
}
