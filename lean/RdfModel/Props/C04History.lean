/-
  History for C03/C04 (not part of any check): the pre-fix behaviour of the three defects repaired
  in /repo, as facts about the *old* table / the old code shape, so that the repairs are documented in
  the formal development too.  D8 8320fed, D9 b60404d, D10 1a22bc9, D10b be56ffc.
-/
import RdfModel.Props.C04Defs
namespace RdfModel.C04.History
open RdfModel

/-- D10 / D10b: `literalStringMustEscapeRune` before the fixes (UTF-8 mode): ECHAR for LF CR " \ only. -/
def oldLitEsc : RangeTable := [(0xA, 0xA, 1), (0xD, 0xD, 1), (0x22, 0x22, 1), (0x5C, 0x5C, 1)]
def oldEchar : RangeTable := [(0xA, 0xA, 110), (0xD, 0xD, 114), (0x22, 0x22, 34), (0x5C, 0x5C, 92)]
def oldTables : NQ.Tables :=
  { iriEsc := fun _ => [], litEsc := fun _ => oldLitEsc, echar := oldEchar, hexDec := [],
    pnCharsU := [], pnChars := [], space := [] }

/-- TAB, BS, FF, the other C0 controls, DEL and U+FFFE were written raw: not canonical N-Quads
    (W3C vector test060 for all but the last). -/
theorem d10_witness :
    [0x09, 0x08, 0x0c, 0x00, 0x1f, 0x7f, 0xFFFE].all
      (fun c => decide (NQ.escLitRune oldTables false c ≠ Spec.RDFC10.escLitRune c)) = true := by decide

/-- D8: the related-hash input wrapped the already serialized predicate `<p>` in another `<` `>`,
    so it never was the Recommendation's `position ++ "<" ++ p ++ ">" ++ …`. -/
theorem d8_witness (pos : Nat) (v rest : Str) :
    [pos] ++ ([0x3c] ++ Spec.RDFC10.iriRef v ++ [0x3e]) ++ rest ≠ [pos] ++ Spec.RDFC10.iriRef v ++ rest := by
  intro h
  have := congrArg List.length h
  simp [Spec.RDFC10.iriRef] at this
  omega

/-- D9: issuer copies shared one `Int64StringProvider`; two copies of an issuer that each issue one
    new identifier got `b1` and `b2` instead of `b1` and `b1` (§4.8.3 step 5.4.1 wants an independent
    copy).  Old behaviour modelled by threading the shared provider through both copies. -/
theorem d9_witness :
    let sp0 : Rdfcanon.Int64SP Nat := ⟨[0x62], 1, [(0, 0)]⟩          -- the shared provider after issuing b0 to node 0
    let r1 := sp0.get 1                                                 -- first copy issues node 1
    let r2 := r1.2.get 2                                                -- second copy issues node 2: counter moved on
    r1.1 = [0x62, 0x31] ∧ r2.1 = [0x62, 0x32] ∧
    ((⟨none, [0x62], [(0, [0x62, 0x30])], [0]⟩ : Rdfcanon.Issuer Nat).get 2).1 = [0x62, 0x31] := by
  decide

end RdfModel.C04.History
