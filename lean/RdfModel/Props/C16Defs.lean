/-
  Definitions used by the C16 theorems (`Props/C16.lean`) and their proofs (`Proofs/C16*.lean`).
-/
import RdfModel.Model.NQOffsets
namespace RdfModel.C16
open RdfModel RdfModel.NQ RdfModel.TW RdfModel.NQO

/-- `<…>` -/
def IriTok (t : List Nat) : Prop := ∃ body, t = 0x3c :: body ++ [0x3e]

/-- `"…"` -/
def StrTok (t : List Nat) : Prop := ∃ body, t = 0x22 :: body ++ [0x22]

/-- The text `t` is a token of term `x` as far as its delimiters go: `<…>` for an IRI, exactly
    `_:label` for a blank node, `"…"` for a plain string, `"…"@tag` with exactly the decoded tag,
    `"…"^^<…>` for a typed literal. (That the text *denotes* `x` is `token_reparses`.) -/
def TokenOf : Term (List Nat) → List Nat → Prop
  | .iri _, t => IriTok t
  | .bnode l, t => t = 0x5f :: 0x3a :: l
  | .lit _ _ (some tag), t => ∃ s, StrTok s ∧ t = s ++ 0x40 :: tag
  | .lit _ dt none, t => (StrTok t ∧ dt = xsdString) ∨ ∃ s i, StrTok s ∧ IriTok i ∧ t = s ++ 0x5e :: 0x5e :: i

/-- The two facts about the regenerated `PN_CHARS` table that re-decoding a blank node label needs:
    a space ends a label, and `.` is not itself a `PN_CHARS` rune (so a label that ends in a
    `PN_CHARS` rune does not end in `.`). Proved for the current tables in `Props/C16.lean`. -/
structure PnFacts (T : Tables) : Prop where
  pn_sp : inRanges T.pnChars 0x20 = false
  pn_dot : inRanges T.pnChars 0x2e = false

/-- Largest byte position (relative to the start of the input) an error offset refers to. -/
def EOff.bound : EOff → Nat
  | .none => 0
  | .byte n => n
  | .text h unc => size (histRunes h) + size unc
  | .range f u => max (size (histRunes f)) (size (histRunes u))

/-- A reported range `r` for term `t` (decoded at a position accepting the openers `pos`) is exact
    with respect to the whole input: the writer histories delimit a segment `tok` of the input
    (`pre ++ tok ++ post`), that segment is a token of `t`, and the base decoder reads the segment
    followed by a space back to `t` (under the two `PN_CHARS` table facts). -/
def RangeOK (T : Tables) (urlOk : List Nat → Bool) (input : List RP) (pos : Pos)
    (t : Term (List Nat)) (r : SRange) : Prop :=
  ∃ pre tok post, input = pre ++ tok ++ post ∧ histRunes r.1 = pre ∧ histRunes r.2 = pre ++ tok ∧
    TokenOf t (runes tok) ∧
    (PnFacts T → ∀ e' y, NQ.captureTerm T urlOk e' pos false (runes tok ++ 0x20 :: y) = .ok t (0x20 :: y))

/-- With capture on a slot has an exact range; with capture off it has none. -/
def SlotOK (T : Tables) (urlOk : List Nat → Bool) (input : List RP) (cap : Bool) (pos : Pos)
    (t : Term (List Nat)) (r : Option SRange) : Prop :=
  if cap then ∃ x, r = some x ∧ RangeOK T urlOk input pos t x else r = none

/-- All ranges of one statement (a graph range exactly when the quad has a graph name). -/
def StmtOK (T : Tables) (urlOk : List Nat → Bool) (input : List RP) (cap : Bool)
    (q : Quad (List Nat)) (rg : Ranges) : Prop :=
  SlotOK T urlOk input cap posSubject q.s rg.s ∧ SlotOK T urlOk input cap posPredicate q.p rg.p ∧
  SlotOK T urlOk input cap posObject q.o rg.o ∧
  (match q.g with
    | some g => SlotOK T urlOk input cap posSubject g rg.g
    | none => rg.g = none)

/-- Discipline invariant of the decoder object between two `Next()` calls: the buffer offset is the
    size of the consumed prefix and, when a writer exists, the committed runes are exactly the
    consumed prefix (each once, in order). -/
def Disc (input : List RP) (s : S) (rest : List RP) : Prop :=
  s.bo + size rest = size input ∧ ∀ h, s.doc = some h → histRunes h ++ rest = input

/-- The ranges of a statement, each with its term and the position it was decoded at (the graph
    name is decoded by the subject routine). -/
def slots (q : Quad (List Nat)) (rg : Ranges) : List (Pos × Term (List Nat) × Option SRange) :=
  [(posSubject, q.s, rg.s), (posPredicate, q.p, rg.p), (posObject, q.o, rg.o)] ++
    (match q.g with | some g => [(posSubject, g, rg.g)] | none => [])

/-- The concrete offsets `f`, `u` reported for a token `tok` that follows `pre` in the input, for a
    writer started at `init`: byte and line values for every cluster counter; the full
    `posAfter` position (line and column) when the text up to the end of the token is simple and
    the counter counts one cluster per rune on simple text. -/
def RangeAt (cols : List Nat → Nat) (init : Offset) (pre tok : List RP) (f u : Offset) : Prop :=
  f.byte = init.byte + size pre ∧ u.byte = init.byte + size pre + size tok ∧
  f.line = init.line + countLF pre ∧ u.line = init.line + countLF pre + countLF tok ∧
  (ColsSimple cols → simple (runes (pre ++ tok)) = true →
    f = posAfter init pre ∧ u = posAfter init (pre ++ tok))

/-! ### What a run reports through the API, and its translation by an initial offset -/

def evalRanges (cols : List Nat → Nat) (init : Offset) (rg : Ranges) : List (Option (Offset × Offset)) :=
  [rg.s, rg.p, rg.o, rg.g].map (Option.map (evalRange cols init))

/-- Statements with their concrete ranges (subject, predicate, object, graph), verdict, concrete
    error position. -/
def report (cols : List Nat → Nat) (init : Offset) (out : Out) :
    List (Quad (List Nat) × List (Option (Offset × Offset))) × Verdict × ErrPos :=
  (out.stmts.map (fun x => (x.1, evalRanges cols init x.2)), out.verdict, evalEOff cols init out.eoff)

def shiftPair (o : Offset) (p : Offset × Offset) : Offset × Offset := (shift o p.1, shift o p.2)

/-- A bare byte offset (capture off) is not translated: no initial offset can be configured then. -/
def shiftErrPos (o : Offset) : ErrPos → ErrPos
  | .none => .none
  | .byte n => .byte n
  | .text p => .text (TW.shift o p)
  | .range f u => .range (TW.shift o f) (TW.shift o u)

def shiftReport (o : Offset)
    (r : List (Quad (List Nat) × List (Option (Offset × Offset))) × Verdict × ErrPos) :
    List (Quad (List Nat) × List (Option (Offset × Offset))) × Verdict × ErrPos :=
  (r.1.map (fun x => (x.1, x.2.map (Option.map (shiftPair o)))), r.2.1, shiftErrPos o r.2.2)

/-- An error position lies inside the document that started at `init` and has `n` bytes. A bare
    byte offset (capture off) is relative to the start of the input. -/
def ErrInside (init : Offset) (n : Nat) : ErrPos → Prop
  | .none => True
  | .byte b => b ≤ n
  | .text p => init.byte ≤ p.byte ∧ p.byte ≤ init.byte + n
  | .range f u => init.byte ≤ f.byte ∧ f.byte ≤ init.byte + n ∧ init.byte ≤ u.byte ∧ u.byte ≤ init.byte + n

instance (init : Offset) (n : Nat) (p : ErrPos) : Decidable (ErrInside init n p) := by
  cases p <;> simp only [ErrInside] <;> exact inferInstance

end RdfModel.C16
