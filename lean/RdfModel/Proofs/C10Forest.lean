/-
  C10 helper lemmas, part 1: the certificate lemma.

  A forest `F` whose anonymised blank nodes (`tagsForest F`) are pairwise distinct and disjoint from the
  blank nodes written with their identifier (`namedForest F`) denotes, under the numbering of fresh blank
  nodes in document order (`denForest`), the image of its own quads (`flatForest F`) under an
  *injective* renaming `σ` of blank nodes. Together with `flatForest F ~ d` this is dataset isomorphism.
-/
import RdfModel.Spec.JsonLdWriter
import RdfModel.Spec.GraphIso
namespace RdfModel.Proofs.C10
open RdfModel RdfModel.Desc RdfModel.JL

variable {β : Type}

/-- `σ` sends the `i`-th element of `tags` to the fresh node `n + i` -/
def Agree (σ : β → B) (tags : List β) (n : Nat) : Prop := ∀ b k, (b, k) ∈ tags.zipIdx n → σ b = BN.fresh k

/-- `σ` keeps the identifier of every element of `bs` -/
def Keeps (name : β → Str) (σ : β → B) (bs : List β) : Prop := ∀ b ∈ bs, σ b = BN.orig (name b)

theorem agree_nil (σ : β → B) (n : Nat) : Agree σ [] n := by
  intro b k h; simp at h

theorem agree_append {σ : β → B} {l₁ l₂ : List β} {n : Nat} :
    Agree σ (l₁ ++ l₂) n ↔ Agree σ l₁ n ∧ Agree σ l₂ (n + l₁.length) := by
  unfold Agree
  simp only [List.zipIdx_append, List.mem_append]
  constructor
  · intro h; exact ⟨fun b k hb => h b k (Or.inl hb), fun b k hb => h b k (Or.inr hb)⟩
  · rintro ⟨h₁, h₂⟩ b k (hb | hb)
    · exact h₁ b k hb
    · exact h₂ b k hb

theorem agree_cons {σ : β → B} {b : β} {l : List β} {n : Nat} :
    Agree σ (b :: l) n ↔ σ b = BN.fresh n ∧ Agree σ l (n + 1) := by
  unfold Agree
  simp only [List.zipIdx_cons, List.mem_cons]
  constructor
  · intro h; exact ⟨h b n (Or.inl rfl), fun b' k hb => h b' k (Or.inr hb)⟩
  · rintro ⟨h₁, h₂⟩ b' k (hb | hb)
    · cases hb; exact h₁
    · exact h₂ b' k hb

theorem keeps_append {name : β → Str} {σ : β → B} {l₁ l₂ : List β} :
    Keeps name σ (l₁ ++ l₂) ↔ Keeps name σ l₁ ∧ Keeps name σ l₂ := by
  unfold Keeps
  simp only [List.mem_append]
  constructor
  · intro h; exact ⟨fun b hb => h b (Or.inl hb), fun b hb => h b (Or.inr hb)⟩
  · rintro ⟨h₁, h₂⟩ b (hb | hb)
    · exact h₁ b hb
    · exact h₂ b hb

theorem keeps_cons {name : β → Str} {σ : β → B} {b : β} {l : List β} :
    Keeps name σ (b :: l) ↔ σ b = BN.orig (name b) ∧ Keeps name σ l := by
  unfold Keeps
  simp only [List.mem_cons]
  constructor
  · intro h; exact ⟨h b (Or.inl rfl), fun b' hb => h b' (Or.inr hb)⟩
  · rintro ⟨h₁, h₂⟩ b' (hb | hb)
    · cases hb; exact h₁
    · exact h₂ b' hb

theorem keeps_nil (name : β → Str) (σ : β → B) : Keeps name σ [] := by
  intro b h; cases h

/-- a term all of whose blank nodes keep their identifier -/
theorem outTerm_eq {name : β → Str} {σ : β → B} {t : Term β} (h : Keeps name σ (termBN t)) :
    outTerm name t = t.map σ := by
  cases t with
  | iri v => rfl
  | lit l d g => rfl
  | bnode b =>
    have := h b (by simp [termBN])
    simp [outTerm, Term.map, this]

abbrev mq (σ : β → B) (q : DQuad β) : Q := DQuad.map σ q

theorem mq_mk (σ : β → B) (s : Term β) (p : Str) (o : Term β) (g : Option (Term β)) :
    mq σ ⟨⟨s, p, o⟩, g⟩ = quad (s.map σ) p (o.map σ) (g.map (Term.map σ)) := rfl

/-! ### list cells -/

theorem denCells_eq (name : β → Str) (σ : β → B) (g : Option (Term β)) :
    ∀ (cells : List (β × Term β)) (cell : β) (n : Nat),
      Agree σ (cells.map (·.1)) n → Keeps name σ (cells.flatMap (fun c => termBN c.2)) →
      denCells name (g.map (Term.map σ)) (.bnode (σ cell)) cells n =
        ((flatCells g cell cells).map (mq σ), n + cells.length) := by
  intro cells
  induction cells with
  | nil => intro cell n _ _; simp [denCells, flatCells, mq_mk, Term.map, quad]
  | cons c rest ih =>
    intro cell n ha hk
    obtain ⟨b, x⟩ := c
    simp only [List.map_cons, agree_cons] at ha
    simp only [List.flatMap_cons, keeps_append] at hk
    have hb : σ b = BN.fresh n := ha.1
    have := ih b (n + 1) ha.2 hk.2
    rw [hb] at this
    simp only [denCells, flatCells, List.map_cons, this, mq_mk, Term.map, hb, outTerm_eq hk.1, List.length_cons]
    exact Prod.ext rfl (by simp only []; omega)

theorem denList_eq (name : β → Str) (σ : β → B) (g : Option (Term β)) (s : Term β) (p : Str)
    (cells : List (β × Term β)) (n : Nat)
    (ha : Agree σ (cells.map (·.1)) n) (hk : Keeps name σ (cells.flatMap (fun c => termBN c.2))) :
    denList name (g.map (Term.map σ)) (s.map σ) p cells n =
      ((flatVal g s p (Tree.list cells)).map (mq σ), n + cells.length) := by
  cases cells with
  | nil => simp [denList, flatVal, mq_mk, Term.map]
  | cons c rest =>
    obtain ⟨b, x⟩ := c
    simp only [List.map_cons, agree_cons] at ha
    simp only [List.flatMap_cons, keeps_append] at hk
    have hb : σ b = BN.fresh n := ha.1
    have := denCells_eq name σ g rest b (n + 1) ha.2 hk.2
    rw [hb] at this
    simp only [denList, flatVal, List.map_cons, this, mq_mk, Term.map, hb, outTerm_eq hk.1, List.length_cons]
    exact Prod.ext rfl (by simp only []; omega)

/-! ### trees -/

/-- the statement for one value -/
def ValOK (name : β → Str) (σ : β → B) (t : Tree β) : Prop :=
  ∀ (g : Option (Term β)) (s : Term β) (p : Str) (n : Nat),
    Agree σ (tagsTree t) n → Keeps name σ (namedTree t) →
    denVal name (g.map (Term.map σ)) (s.map σ) p t n =
      ((flatVal g s p t).map (mq σ), n + (tagsTree t).length)

/-- the statement for the values of one property -/
def ValsOK (name : β → Str) (σ : β → B) (vs : List (Tree β)) : Prop :=
  ∀ (g : Option (Term β)) (s : Term β) (p : Str) (n : Nat),
    Agree σ (tagsVals vs) n → Keeps name σ (namedVals vs) →
    denVals name (g.map (Term.map σ)) (s.map σ) p vs n =
      ((flatVals g s p vs).map (mq σ), n + (tagsVals vs).length)

def GroupsOK (name : β → Str) (σ : β → B) (gs : List (Str × List (Tree β))) : Prop :=
  ∀ (g : Option (Term β)) (s : Term β) (n : Nat),
    Agree σ (tagsGroups gs) n → Keeps name σ (namedGroups gs) →
    denGroups name (g.map (Term.map σ)) (s.map σ) gs n =
      ((flatGroups g s gs).map (mq σ), n + (tagsGroups gs).length)

theorem node_step (name : β → Str) (σ : β → B) (id : NodeId β) (groups : List (Str × List (Tree β)))
    (ih : GroupsOK name σ groups) : ValOK name σ (.node id groups) := by
  intro g s p n ha hk
  cases id with
  | iri v =>
    have ha' : Agree σ (tagsGroups groups) n := by simpa [tagsTree] using ha
    have hk' : Keeps name σ (namedGroups groups) := by simpa [namedTree] using hk
    have := ih g (Term.iri v) n ha' hk'
    simp only [Term.map] at this
    simp [denVal, denId, flatVal, NodeId.subj, this, mq_mk, Term.map, tagsTree]
  | named b =>
    have ha' : Agree σ (tagsGroups groups) n := by simpa [tagsTree] using ha
    have hk0 : Keeps name σ (b :: namedGroups groups) := by simpa [namedTree] using hk
    have hk' := keeps_cons.1 hk0
    have := ih g (Term.bnode b) n ha' hk'.2
    simp only [Term.map, hk'.1] at this
    simp [denVal, denId, flatVal, NodeId.subj, this, mq_mk, Term.map, tagsTree, hk'.1]
  | anon b =>
    have ha0 : Agree σ (b :: tagsGroups groups) n := by simpa [tagsTree] using ha
    have ha' := agree_cons.1 ha0
    have hk' : Keeps name σ (namedGroups groups) := by simpa [namedTree] using hk
    have := ih g (Term.bnode b) (n + 1) ha'.2 hk'
    simp only [Term.map, ha'.1] at this
    simp only [denVal, denId, flatVal, NodeId.subj, this, mq_mk, Term.map, tagsTree, ha'.1,
      List.map_append, List.map_cons, List.map_nil, List.length_cons]
    exact Prod.ext rfl (by simp only []; omega)

theorem groups_cons_step (name : β → Str) (σ : β → B) (p : Str) (vs : List (Tree β))
    (tail : List (Str × List (Tree β))) (ihh : ValsOK name σ vs) (iht : GroupsOK name σ tail) :
    GroupsOK name σ ((p, vs) :: tail) := by
  intro g s n ha hk
  simp only [tagsGroups, agree_append] at ha
  simp only [namedGroups, keeps_append] at hk
  have h₁ := ihh g s p n ha.1 hk.1
  have h₂ := iht g s (n + (tagsVals vs).length) ha.2 hk.2
  simp only [denGroups, flatGroups, h₁, h₂, List.map_append, tagsGroups, List.length_append]
  exact Prod.ext rfl (by simp only []; omega)

theorem vals_cons_step (name : β → Str) (σ : β → B) (v : Tree β) (vs : List (Tree β))
    (ihv : ValOK name σ v) (ihvs : ValsOK name σ vs) : ValsOK name σ (v :: vs) := by
  intro g s p n ha hk
  simp only [tagsVals, agree_append] at ha
  simp only [namedVals, keeps_append] at hk
  have h₁ := ihv g s p n ha.1 hk.1
  have h₂ := ihvs g s p (n + (tagsTree v).length) ha.2 hk.2
  simp only [denVals, flatVals, h₁, h₂, List.map_append, tagsVals, List.length_append]
  exact Prod.ext rfl (by simp only []; omega)

theorem tree_ok (name : β → Str) (σ : β → B) (t : Tree β) : ValOK name σ t := by
  refine Tree.rec
    (motive_1 := fun t => ValOK name σ t)
    (motive_2 := fun gs => GroupsOK name σ gs)
    (motive_3 := fun pv => ValsOK name σ pv.2)
    (motive_4 := fun vs => ValsOK name σ vs) ?node ?term ?list ?gnil ?gcons ?mk ?vnil ?vcons t
  case node => intro id groups ih; exact node_step name σ id groups ih
  case term =>
    intro t g s p n _ hk
    have hk' : Keeps name σ (termBN t) := by simpa [namedTree] using hk
    simp [denVal, flatVal, mq_mk, outTerm_eq hk', tagsTree]
  case list =>
    intro cells g s p n ha hk
    have ha' : Agree σ (cells.map (·.1)) n := by simpa [tagsTree] using ha
    have hk' : Keeps name σ (cells.flatMap (fun c => termBN c.2)) := by simpa [namedTree] using hk
    have := denList_eq name σ g s p cells n ha' hk'
    simp [denVal, this, tagsTree]
  case gnil =>
    intro g s n _ _
    simp [denGroups, flatGroups, tagsGroups]
  case gcons =>
    intro head tail ihh iht
    obtain ⟨p, vs⟩ := head
    exact groups_cons_step name σ p vs tail ihh iht
  case mk => intro p vs ih; exact ih
  case vnil =>
    intro g s p n _ _
    simp [denVals, flatVals, tagsVals]
  case vcons => intro v vs ihv ihvs; exact vals_cons_step name σ v vs ihv ihvs

/-- the groups of a node, from the statement for the node as a value -/
theorem groups_ok (name : β → Str) (σ : β → B) (gs : List (Str × List (Tree β))) : GroupsOK name σ gs := by
  refine Tree.rec_1
    (motive_1 := fun t => ValOK name σ t)
    (motive_2 := fun gs => GroupsOK name σ gs)
    (motive_3 := fun pv => ValsOK name σ pv.2)
    (motive_4 := fun vs => ValsOK name σ vs) ?node ?term ?list ?gnil ?gcons ?mk ?vnil ?vcons gs
  case node => intro id groups ih; exact node_step name σ id groups ih
  case term => intro t; exact tree_ok name σ (.term t)
  case list => intro cells; exact tree_ok name σ (.list cells)
  case gnil =>
    intro g s n _ _
    simp [denGroups, flatGroups, tagsGroups]
  case gcons =>
    intro head tail ihh iht
    obtain ⟨p, vs⟩ := head
    exact groups_cons_step name σ p vs tail ihh iht
  case mk => intro p vs ih; exact ih
  case vnil =>
    intro g s p n _ _
    simp [denVals, flatVals, tagsVals]
  case vcons => intro v vs ihv ihvs; exact vals_cons_step name σ v vs ihv ihvs

/-! ### node objects, graphs, forests -/

theorem denNode_eq (name : β → Str) (σ : β → B) (g : Option (Term β)) (t : Tree β) (n : Nat)
    (hn : isNode t = true) (ha : Agree σ (tagsTree t) n) (hk : Keeps name σ (namedTree t)) :
    denNode name (g.map (Term.map σ)) t n = ((flatTree g t).map (mq σ), n + (tagsTree t).length) := by
  cases t with
  | term t => simp [isNode] at hn
  | list cells => simp [isNode] at hn
  | node id groups =>
    have ih := groups_ok name σ groups
    cases id with
    | iri v =>
      have := ih g (Term.iri v) n (by simpa [tagsTree] using ha) (by simpa [namedTree] using hk)
      simp only [Term.map] at this
      simp [denNode, denId, flatTree, NodeId.subj, this, tagsTree]
    | named b =>
      have hk0 : Keeps name σ (b :: namedGroups groups) := by simpa [namedTree] using hk
      have hk' := keeps_cons.1 hk0
      have := ih g (Term.bnode b) n (by simpa [tagsTree] using ha) hk'.2
      simp only [Term.map, hk'.1] at this
      simp [denNode, denId, flatTree, NodeId.subj, this, tagsTree]
    | anon b =>
      have ha0 : Agree σ (b :: tagsGroups groups) n := by simpa [tagsTree] using ha
      have ha' := agree_cons.1 ha0
      have := ih g (Term.bnode b) (n + 1) ha'.2 (by simpa [namedTree] using hk)
      simp only [Term.map, ha'.1] at this
      simp only [denNode, denId, flatTree, NodeId.subj, this, tagsTree, List.length_cons]
      exact Prod.ext rfl (by simp only []; omega)

theorem denNodes_eq (name : β → Str) (σ : β → B) (g : Option (Term β)) :
    ∀ (ts : List (Tree β)) (n : Nat), ts.all isNode = true → Agree σ (tagsNodes ts) n → Keeps name σ (namedNodes ts) →
      denNodes name (g.map (Term.map σ)) ts n = ((flatNodes g ts).map (mq σ), n + (tagsNodes ts).length) := by
  intro ts
  induction ts with
  | nil => intro n _ _ _; simp [denNodes, flatNodes, tagsNodes]
  | cons t ts ih =>
    intro n hn ha hk
    simp only [List.all_cons, Bool.and_eq_true] at hn
    simp only [tagsNodes, agree_append] at ha
    simp only [namedNodes, keeps_append] at hk
    have h₁ := denNode_eq name σ g t n hn.1 ha.1 hk.1
    have h₂ := ih (n + (tagsTree t).length) hn.2 ha.2 hk.2
    simp only [denNodes, flatNodes, h₁, h₂, List.map_append, tagsNodes, List.length_append]
    exact Prod.ext rfl (by simp only []; omega)

theorem denForest_eq (name : β → Str) (σ : β → B) :
    ∀ (F : Forest β) (n : Nat), F.all (fun blk => blk.2.all isNode) = true →
      Agree σ (tagsForest F) n → Keeps name σ (namedForest F) →
      denForest name F n = ((flatForest F).map (mq σ), n + (tagsForest F).length) := by
  intro F
  induction F with
  | nil => intro n _ _ _; simp [denForest, flatForest, tagsForest]
  | cons blk rest ih =>
    intro n hn ha hk
    obtain ⟨g, ns⟩ := blk
    simp only [List.all_cons, Bool.and_eq_true] at hn
    simp only [tagsForest, agree_append] at ha
    simp only [namedForest, keeps_append] at hk
    have hg : g.map (outTerm name) = g.map (Term.map σ) := by
      cases g with
      | none => rfl
      | some t => simp only [Option.map_some]; rw [outTerm_eq hk.1.1]
    have h₁ := denNodes_eq name σ g ns n hn.1 ha.1 hk.1.2
    have h₂ := ih (n + (tagsNodes ns).length) hn.2 ha.2 hk.2
    simp only [denForest, flatForest, hg, h₁, h₂, List.map_append, tagsForest, List.length_append]
    exact Prod.ext rfl (by simp only []; omega)

/-! ### the renaming -/

/-- the renaming read off a forest: anonymised nodes get their number, the others keep their identifier -/
def sigma (name : β → Str) [DecidableEq β] (F : Forest β) (n0 : Nat) (b : β) : B :=
  match ((tagsForest F).zipIdx n0).lookup b with
  | some k => BN.fresh k
  | none => BN.orig (name b)

theorem lookup_zipIdx_of_mem [DecidableEq β] {l : List β} (hnd : l.Nodup) :
    ∀ {n : Nat} {b : β} {k : Nat}, (b, k) ∈ l.zipIdx n → (l.zipIdx n).lookup b = some k := by
  induction l with
  | nil => intro n b k h; simp at h
  | cons a l ih =>
    intro n b k h
    simp only [List.zipIdx_cons, List.mem_cons, Prod.mk.injEq] at h
    simp only [List.zipIdx_cons, List.lookup_cons]
    rcases h with ⟨rfl, rfl⟩ | h
    · simp
    · have hne : b ≠ a := by
        intro e; subst e
        have := (List.mem_zipIdx h).2.2
        have hmem : b ∈ l := by rw [this]; exact List.getElem_mem _
        exact (List.nodup_cons.1 hnd).1 hmem
      have : (b == a) = false := by simpa using hne
      rw [this]
      exact ih (List.nodup_cons.1 hnd).2 h

theorem lookup_zipIdx_none [DecidableEq β] {l : List β} {b : β} (h : b ∉ l) (n : Nat) :
    (l.zipIdx n).lookup b = none := by
  induction l generalizing n with
  | nil => simp
  | cons a l ih =>
    simp only [List.mem_cons, not_or] at h
    simp only [List.zipIdx_cons, List.lookup_cons]
    have : (b == a) = false := by simpa using h.1
    rw [this]
    exact ih h.2 (n + 1)

theorem mem_of_lookup_zipIdx [DecidableEq β] {l : List β} {n : Nat} {b : β} {k : Nat}
    (h : (l.zipIdx n).lookup b = some k) : (b, k) ∈ l.zipIdx n := by
  induction l generalizing n with
  | nil => simp at h
  | cons a l ih =>
    simp only [List.zipIdx_cons, List.lookup_cons] at h
    simp only [List.zipIdx_cons, List.mem_cons, Prod.mk.injEq]
    by_cases e : b = a
    · subst e; simp at h; exact Or.inl ⟨rfl, h.symm⟩
    · have : (b == a) = false := by simpa using e
      rw [this] at h
      exact Or.inr (ih h)

theorem sigma_injective (name : β → Str) [DecidableEq β] (hname : Function.Injective name) (F : Forest β) (n0 : Nat) :
    Function.Injective (sigma name F n0) := by
  intro b₁ b₂ h
  unfold sigma at h
  cases h₁ : ((tagsForest F).zipIdx n0).lookup b₁ with
  | none =>
    cases h₂ : ((tagsForest F).zipIdx n0).lookup b₂ with
    | none => rw [h₁, h₂] at h; simp only [BN.orig.injEq] at h; exact hname h
    | some k => rw [h₁, h₂] at h; cases h
  | some k₁ =>
    cases h₂ : ((tagsForest F).zipIdx n0).lookup b₂ with
    | none => rw [h₁, h₂] at h; cases h
    | some k₂ =>
      rw [h₁, h₂] at h
      simp only [BN.fresh.injEq] at h
      subst h
      have m₁ := List.mem_zipIdx (mem_of_lookup_zipIdx h₁)
      have m₂ := List.mem_zipIdx (mem_of_lookup_zipIdx h₂)
      rw [m₁.2.2, m₂.2.2]

/-- The certificate theorem: a validated forest denotes a dataset isomorphic to `d`. -/
theorem forest_iso (name : β → Str) [DecidableEq β] (hname : Function.Injective name) (F : Forest β)
    (d : List (DQuad β)) (h : forestOK F d = true) (n0 : Nat) :
    Spec.IsoQ (denForest name F n0).1 d := by
  unfold forestOK at h
  simp only [Bool.and_eq_true, List.isPerm_iff, decide_eq_true_eq, List.all_eq_true, Bool.not_eq_true',
    List.contains_eq_mem, decide_eq_false_iff_not] at h
  obtain ⟨⟨⟨hperm, hnd⟩, hdisj⟩, hnodes⟩ := h
  refine ⟨sigma name F n0, sigma_injective name hname F n0, ?_⟩
  have ha : Agree (sigma name F n0) (tagsForest F) n0 := by
    intro b k hb
    unfold sigma
    rw [lookup_zipIdx_of_mem hnd hb]
  have hk : Keeps name (sigma name F n0) (namedForest F) := by
    intro b hb
    unfold sigma
    have : b ∉ tagsForest F := fun hm => hdisj b hm hb
    rw [lookup_zipIdx_none this]
  have hn : F.all (fun blk => blk.2.all isNode) = true := by
    simp only [List.all_eq_true]; exact hnodes
  rw [denForest_eq name _ F n0 hn ha hk]
  exact hperm.map _

end RdfModel.Proofs.C10
