/-
  Line-protocol handler for the model of the JSON-LD context machinery (component `ctx`, part C10C):
  Model/JsonLdContext.lean instantiated with Model/ParsedIRI.lean (Model/JsonLdContextIri.lean).

  Tokens (produced by the hook encoding/jsonld/internal/jsonldinternal/export_verif_ctx.go):
    json  := n | t | f | i[-]digits; | d hex; | s hex; | [ json* ] | { (hex; json)* }     strings are BYTES
    ctx   := core ('|' core)*
    core  := C piri ostr piri eiri ostr ostr ostr [ (hex = tdef)* ]
    tdef  := eiri oostr bool bool bool ostr ojson olist oostr ostr oostr ostr eiri ostr
    eiri  := - | N | K hex; | I hex; | B hex; | R json       piri := - | P hex; bool bool
    ostr  := - | x hex;    oostr := - | n | x hex;    ojson := - | j json    olist := - | L (hex;)* .

  Ops
    ctx.run <mode 10|11|xx> <original base x<hex>|-> <steps> <queries>
        steps   := - | step (',' step)*     step  := <overrideProtected><propagate> ':' <base URL x<hex>|-> ':' json
        queries := - | query (',' query)*   query := <documentRelative><vocab> json
      → <step results joined by ','|-> <query results joined by ','|->
        step result  := ok:<ctx> | err:<code> | unmodelled | panic | fuel     (a failed step leaves the active context as it was)
        query result := ok:<eiri> | err:<code> | unmodelled | panic | fuel    (IRI expansion under the final active context)
    ctx.pfx <mode> <term x<hex>> <simple 0|1> <iri eiri> → 0|1        (prefixFlag145)
    ctx.frag <mode 10|11> <base x<hex>|-> json → outside | unmodelled | agree:<number of terms> | DISAGREE:<what>
        the fragment semantics `JL.processLocal` (Spec/JsonLdFragment.lean) on the initial context against the
        model's `processCtx`: when the fragment accepts the local context, the model must succeed with a
        corresponding context (same terms; IRI, prefix flag, type, container, language mapping; @vocab,
        @language, @base)
-/
import RdfModel.Driver.Wire
import RdfModel.Model.JsonLdContextIri
namespace RdfModel.Driver.JsonLdCtx
open RdfModel RdfModel.Wire RdfModel.JL RdfModel.JLC

abbrev L := List Nat

def takeUntilSemi : List Char → Option (List Char × List Char)
  | [] => none
  | c :: cs =>
    if c = ';' then some ([], cs)
    else (takeUntilSemi cs).map fun (a, r) => (c :: a, r)

def parseDec (cs : List Char) : Option Int :=
  let (neg, ds) := match cs with
    | '-' :: r => (true, r)
    | r => (false, r)
  if ds = [] ∨ !ds.all Char.isDigit then none
  else
    let n : Nat := ds.foldl (fun (acc : Nat) d => acc * 10 + (d.toNat - 48)) 0
    some (if neg then - (Int.ofNat n) else Int.ofNat n)

mutual
def parseVal : Nat → List Char → Option (Json × List Char)
  | 0, _ => none
  | fuel + 1, cs =>
    match cs with
    | 'n' :: r => some (.null, r)
    | 't' :: r => some (.bool true, r)
    | 'f' :: r => some (.bool false, r)
    | 'i' :: r => do
      let (a, r') ← takeUntilSemi r
      let i ← parseDec a
      pure (.int i, r')
    | 'd' :: r => do
      let (a, r') ← takeUntilSemi r
      let b ← unhexChars a
      pure (.dbl b, r')
    | 's' :: r => do
      let (a, r') ← takeUntilSemi r
      let b ← unhexChars a
      pure (.str b, r')
    | '[' :: r => do
      let (xs, r') ← parseVals fuel r
      pure (.arr xs, r')
    | '{' :: r => do
      let (ms, r') ← parseMembers fuel r
      pure (.obj ms, r')
    | _ => none
def parseVals : Nat → List Char → Option (List Json × List Char)
  | 0, _ => none
  | fuel + 1, cs =>
    match cs with
    | ']' :: r => some ([], r)
    | _ => do
      let (x, r) ← parseVal fuel cs
      let (xs, r') ← parseVals fuel r
      pure (x :: xs, r')
def parseMembers : Nat → List Char → Option (List (L × Json) × List Char)
  | 0, _ => none
  | fuel + 1, cs =>
    match cs with
    | '}' :: r => some ([], r)
    | _ => do
      let (a, r) ← takeUntilSemi cs
      let b ← unhexChars a
      let (v, r) ← parseVal fuel r
      let (ms, r') ← parseMembers fuel r
      pure ((b, v) :: ms, r')
end

def parseJsonChars (cs : List Char) : Option Json :=
  match parseVal (cs.length + 1) cs with
  | some (j, []) => some j
  | _ => none

def parseJson (s : String) : Option Json := parseJsonChars s.toList

mutual
def showJson : Json → String
  | .null => "n"
  | .bool true => "t"
  | .bool false => "f"
  | .int i => "i" ++ toString i ++ ";"
  | .dbl l => "d" ++ hexOfBytes l ++ ";"
  | .str s => "s" ++ hexOfBytes s ++ ";"
  | .arr xs => "[" ++ showJsons xs ++ "]"
  | .obj ms => "{" ++ showMembers ms ++ "}"
def showJsons : List Json → String
  | [] => ""
  | x :: xs => showJson x ++ showJsons xs
def showMembers : List (L × Json) → String
  | [] => ""
  | (k, v) :: ms => hexOfBytes k ++ ";" ++ showJson v ++ showMembers ms
end

def b01 (b : Bool) : String := if b then "1" else "0"

def showOStr : Option L → String
  | none => "-"
  | some s => "x" ++ hexOfBytes s ++ ";"

def showOOStr : Option (Option L) → String
  | none => "-"
  | some none => "n"
  | some (some s) => "x" ++ hexOfBytes s ++ ";"

def showSIri : SIri → String
  | .nil => "N"
  | .kw k => "K" ++ hexOfBytes k ++ ";"
  | .iri v => "I" ++ hexOfBytes v ++ ";"
  | .bnode v => "B" ++ hexOfBytes v ++ ";"

def showOSIri : Option SIri → String
  | none => "-"
  | some e => showSIri e

def showEIri : EIri → String
  | .s e => showSIri e
  | .raw j => "R" ++ showJson j

def showPiri : Option PIRI.ParsedIRI → String
  | none => "-"
  | some p => "P" ++ hexOfBytes p.str ++ ";" ++ b01 p.forceFragment ++ b01 p.isOpaque

def showTermDef (d : JLC.TermDef) : String :=
  showSIri d.iri ++ showOOStr d.iriValue ++ b01 d.pfx ++ b01 d.prot ++ b01 d.reverse ++ showOStr d.baseURL ++
  (match d.context with | none => "-" | some j => "j" ++ showJson j) ++
  (if d.container.isEmpty then "-" else "L" ++ String.join (d.container.map fun c => hexOfBytes c ++ ";") ++ ".") ++
  showOOStr d.direction ++ showOStr d.index ++ showOOStr d.language ++ showOStr d.nest ++
  showOSIri d.typeMapping ++ showOStr d.typeValue

def showCore (c : Core PIRI.ParsedIRI) : String :=
  "C" ++ showPiri c.base ++ showOStr c.baseValue ++ showPiri c.origBase ++ showOSIri c.vocab ++ showOStr c.vocabValue ++
  showOStr c.lang ++ showOStr c.dir ++ "[" ++
  String.join (c.terms.map fun e => hexOfBytes e.1 ++ "=" ++ showTermDef e.2) ++ "]"

def showCtx (c : Context PIRI.ParsedIRI) : String :=
  String.intercalate "|" ((c.core :: c.prev).map showCore)

def errName : Err → String
  | .cyclicIRIMapping => "cyclic_IRI_mapping"
  | .invalidTermDefinition => "invalid_term_definition"
  | .keywordRedefinition => "keyword_redefinition"
  | .invalidAtProtectedValue => "invalid_@protected_value"
  | .invalidTypeMapping => "invalid_type_mapping"
  | .invalidReverseProperty => "invalid_reverse_property"
  | .invalidIRIMapping => "invalid_IRI_mapping"
  | .invalidKeywordAlias => "invalid_keyword_alias"
  | .invalidContainerMapping => "invalid_container_mapping"
  | .invalidScopedContext => "invalid_scoped_context"
  | .invalidLanguageMapping => "invalid_language_mapping"
  | .invalidBaseDirection => "invalid_base_direction"
  | .invalidAtNestValue => "invalid_@nest_value"
  | .invalidAtPrefixValue => "invalid_@prefix_value"
  | .protectedTermRedefinition => "protected_term_redefinition"
  | .invalidContextNullification => "invalid_context_nullification"
  | .invalidLocalContext => "invalid_local_context"
  | .invalidAtVersionValue => "invalid_@version_value"
  | .processingModeConflict => "processing_mode_conflict"
  | .invalidContextEntry => "invalid_context_entry"
  | .invalidAtImportValue => "invalid_@import_value"
  | .invalidBaseIRI => "invalid_base_IRI"
  | .invalidVocabMapping => "invalid_vocab_mapping"
  | .invalidDefaultLanguage => "invalid_default_language"
  | .invalidAtPropagateValue => "invalid_@propagate_value"
  | .plainPrefixType => "plain:unexpected_prefix_definition_iri_type"
  | .plainVocabType => "plain:unexpected_vocab_mapping_iri_type"

def parseMode (s : String) : Option Mode :=
  if s = "10" then some .v10 else if s = "11" then some .v11 else if s = "xx" then some .other else none

def parseOBytes (s : String) : Option (Option L) :=
  if s = "-" then some none else (bytesTok s).map some

structure Step where
  overrideProtected : Bool
  propagate : Bool
  base : Option L
  loc : Json

def parseStep (s : String) : Option Step :=
  match s.splitOn ":" with
  | [o, b, j] =>
    match o.toList with
    | [op, pr] => do
      let b ← parseOBytes b
      let j ← parseJson j
      pure { overrideProtected := op == '1', propagate := pr == '1', base := b, loc := j }
    | _ => none
  | _ => none

def parseQuery (s : String) : Option (Bool × Bool × Json) :=
  match s.toList with
  | d :: v :: rest => (parseJsonChars rest).map fun j => (d == '1', v == '1', j)
  | _ => none

def splitList (s : String) : List String := if s = "-" then [] else s.splitOn ","

def joinList (xs : List String) : String := if xs.isEmpty then "-" else String.intercalate "," xs

/-- the `BaseURL` argument of Context Processing, as the algorithms use it (its `String()`); the harness
    only sends strings `ParseIRI` accepts -/
def baseStrOf (b : Option L) : Option L :=
  match b with
  | none => none
  | some s =>
    match PIRI.parseIRI s with
    | .ok p => some p.str
    | .error _ => some s

def runSteps (mode : Mode) : Context PIRI.ParsedIRI → List Step → List String × Context PIRI.ParsedIRI
  | c, [] => ([], c)
  | c, st :: rest =>
    match processCtx piriOps mode (fuelFor st.loc) c st.loc (baseStrOf st.base) st.overrideProtected st.propagate with
    | .ok c' => let r := runSteps mode c' rest; (("ok:" ++ showCtx c') :: r.1, r.2)
    | .err e => let r := runSteps mode c rest; (("err:" ++ errName e) :: r.1, r.2)
    | .panic => let r := runSteps mode c rest; ("panic" :: r.1, r.2)
    | .unmodelled => let r := runSteps mode c rest; ("unmodelled" :: r.1, r.2)
    | .fuel => let r := runSteps mode c rest; ("fuel" :: r.1, r.2)

def showOut : Out EIri → String
  | .ok e => "ok:" ++ showEIri e
  | .err e => "err:" ++ errName e
  | .panic => "panic"
  | .unmodelled => "unmodelled"
  | .fuel => "fuel"

def parseSIriTok (s : String) : Option SIri :=
  match s.toList with
  | ['N'] => some .nil
  | 'K' :: r => (takeUntilSemi r).bind fun (a, _) => (unhexChars a).map SIri.kw
  | 'I' :: r => (takeUntilSemi r).bind fun (a, _) => (unhexChars a).map SIri.iri
  | 'B' :: r => (takeUntilSemi r).bind fun (a, _) => (unhexChars a).map SIri.bnode
  | _ => none

/-! ### the fragment semantics (Spec/JsonLdFragment.lean) against the model -/

def typCorr : JL.TypeMap → Option SIri → Bool
  | .none, none => true
  | .id, some (.kw k) => k == kId
  | .vocab, some (.kw k) => k == kVocab
  | .dt d, some (.iri v) => d == v
  | _, _ => false

def contCorr : JL.Container → List L → Bool
  | .none, [] => true
  | .list, [c] => c == kList
  | .set, [c] => c == kSet
  | .language, [c] => c == kLanguage
  | _, _ => false

def termCorr (td : JL.TermDef) (d : JLC.TermDef) : Bool :=
  d.iri == .iri td.iri && d.pfx == td.pfx && typCorr td.typ d.typeMapping && contCorr td.cont d.container &&
  (td.typ != .none || d.language == td.lang) && !d.reverse && d.direction.isNone && d.index.isNone && d.nest.isNone && d.context.isNone

/-- what differs between a context of the fragment semantics and one of the model (empty = they correspond) -/
def fragDiff (sc : JL.Ctx) (c : Context PIRI.ParsedIRI) : List String :=
  (if sc.terms.all (fun e => match mget e.1 c.core.terms with
      | some d => termCorr e.2 d
      | none => false) then [] else ["term"]) ++
  (if c.core.terms.all (fun e => (sc.term? e.1).isSome) then [] else ["extra-term"]) ++
  (if c.core.vocab == sc.vocab.map SIri.iri then [] else ["vocab"]) ++
  (if c.core.lang == sc.lang then [] else ["language"]) ++
  (if c.core.base.map (·.str) == sc.base then [] else ["base"]) ++
  (if c.core.dir.isNone && c.prev.isEmpty then [] else ["direction-or-previous"])

def handle (op : String) (args : List String) : Option String :=
  match op, args with
  | "run", [m, ob, steps, queries] => do
    let m ← parseMode m
    let ob ← parseOBytes ob
    let steps ← (splitList steps).mapM parseStep
    let queries ← (splitList queries).mapM parseQuery
    let init : Option (Context PIRI.ParsedIRI) :=
      match ob with
      | none => some (Context.initial none)
      | some s =>
        match PIRI.parseIRI s with
        | .ok p => some (Context.initial (some p))
        | .error _ => none
    let init ← init
    let (rs, final) := runSteps m init steps
    let qs := queries.map fun (d, v, j) => showOut (iriExpand piriOps m final j d v)
    pure (joinList rs ++ " " ++ joinList qs)
  | "pfx", [m, t, simple, e] => do
    let m ← parseMode m
    let t ← bytesTok t
    let e ← parseSIriTok e
    pure (b01 (prefixFlag145 m t (simple == "1") e))
  | "frag", [m, ob, j] => do
    let m ← parseMode m
    let ob ← parseOBytes ob
    let j ← parseJson j
    let m11 := m == Mode.v11
    if m == Mode.other then none else
    match JL.processLocal (JL.Ctx.initial m11 ob) j with
    | none => pure "outside"
    | some sc =>
      let init : Option (Context PIRI.ParsedIRI) :=
        match ob with
        | none => some (Context.initial none)
        | some s =>
          match PIRI.parseIRI s with
          | .ok p => some (Context.initial (some p))
          | .error _ => none
      match init with
      | none => pure "outside"
      | some init =>
        match processCtx piriOps m (fuelFor j) init j none false true with
        | .ok c =>
          let d := fragDiff sc c
          pure (if d.isEmpty then "agree:" ++ toString sc.terms.length else "DISAGREE:" ++ String.intercalate "+" d)
        | .err e =>
          -- the fragment's `absIri` is coarser than the IRI parser: a `@base`/`@vocab` string net/url rejects
          let ctxObjs : List (List (L × Json)) := match j with
            | .obj ms => [ms]
            | .arr xs => xs.filterMap fun x => match x with | .obj ms => some ms | _ => none
            | _ => []
          let baseRejected := ctxObjs.any fun ms => match getKey kBase ms with
            | some (.str s) => (match piriOps.parse s with | .err => true | _ => false)
            | _ => false
          let vocabRejected := ctxObjs.any fun ms => match getKey kVocab ms with
            | some (.str s) => piriOps.goAbs s == .no
            | _ => false
          if e == .invalidBaseIRI && baseRejected then pure "outside:iri-syntax"
          else if e == .invalidVocabMapping && m == Mode.v10 && vocabRejected then pure "outside:iri-syntax"
          else pure ("DISAGREE:model-error:" ++ errName e)
        | .unmodelled => pure "unmodelled"
        | .panic => pure "DISAGREE:panic"
        | .fuel => pure "DISAGREE:fuel"
  | "echo", [j] => do
    let j ← parseJson j
    pure (showJson j)
  | _, _ => none

end RdfModel.Driver.JsonLdCtx
