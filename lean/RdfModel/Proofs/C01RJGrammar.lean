/-
  The token stream written by the RDF/JSON encoder model is accepted by the independent
  recogniser `Spec.RJG.accepts`.
-/
import RdfModel.Props.C01RJDefs
import RdfModel.Spec.RdfJsonGrammar
import RdfModel.Proofs.C01RJRound
namespace RdfModel.Proofs.C01RJ
open RdfModel RdfModel.RJ RdfModel.C01RJ RdfModel.Spec.RJG

variable {β : Type}

/-- The record as the recogniser collects it. -/
def specRec (r : ObjRec) : Rec := ⟨some r.type, some r.value, r.lang, r.datatype⟩

def RecOK (r : ObjRec) : Prop := (specRec r).ok = true

theorem accepts_rec (r : ObjRec) (rest : List Tok) (h : RecOK r) :
    acceptsFrom .objFirst (recTokens r ++ rest) = acceptsFrom .objAfter rest ∧
    acceptsFrom .objNext (recTokens r ++ rest) = acceptsFrom .objAfter rest := by
  obtain ⟨ty, val, lang, dt⟩ := r
  simp only [RecOK, specRec] at h
  cases dt <;> cases lang <;>
    simp [recTokens, joinSep, member, acceptsFrom, step, Rec.add, kType, kValue, kLang, kDatatype,
      sType, sValue, sLang, sDatatype, h]

theorem accepts_recs_sep (rest : List Tok) :
    ∀ os : List ObjRec, (∀ r ∈ os, RecOK r) →
      acceptsFrom .objAfter (os.flatMap (fun r => Tok.valueSep :: recTokens r) ++ rest)
        = acceptsFrom .objAfter rest := by
  intro os
  induction os with
  | nil => intro _; simp
  | cons r os ih =>
    intro h
    simp only [List.flatMap_cons, List.cons_append, List.append_assoc]
    rw [show acceptsFrom .objAfter (Tok.valueSep :: (recTokens r ++ (os.flatMap (fun r => Tok.valueSep :: recTokens r) ++ rest)))
          = acceptsFrom .objNext (recTokens r ++ (os.flatMap (fun r => Tok.valueSep :: recTokens r) ++ rest)) by
        simp [acceptsFrom, step]]
    rw [(accepts_rec r _ (h r (by simp))).2]
    exact ih (fun r' hr' => h r' (by simp [hr']))

/-- A predicate entry after its key. -/
theorem accepts_pred_body (os : List ObjRec) (rest : List Tok) (h : ∀ r ∈ os, RecOK r) :
    acceptsFrom .predColon (Tok.nameSep :: Tok.beginArray :: (joinSep (os.map recTokens) ++ Tok.endArray :: rest))
      = acceptsFrom .predAfter rest := by
  cases os with
  | nil => simp [joinSep, acceptsFrom, step]
  | cons r os =>
    simp only [List.map_cons, joinSep, List.append_assoc, acceptsFrom, step]
    rw [List.flatMap_map]
    rw [(accepts_rec r _ (h r (by simp))).1]
    rw [accepts_recs_sep _ os (fun r' hr' => h r' (by simp [hr']))]
    simp [acceptsFrom, step]

def PMapOK (ps : PMap) : Prop := ∀ pe ∈ ps, ∀ r ∈ pe.2, RecOK r

theorem accepts_pred (pe : List Nat × List ObjRec) (rest : List Tok) (h : ∀ r ∈ pe.2, RecOK r) :
    acceptsFrom .predFirst (predTokens pe ++ rest) = acceptsFrom .predAfter rest ∧
    acceptsFrom .predKey (predTokens pe ++ rest) = acceptsFrom .predAfter rest := by
  have := accepts_pred_body pe.2 rest h
  constructor <;> simpa [predTokens, acceptsFrom, step] using this

theorem accepts_preds_sep (rest : List Tok) :
    ∀ ps : PMap, PMapOK ps →
      acceptsFrom .predAfter (ps.flatMap (fun pe => Tok.valueSep :: predTokens pe) ++ rest)
        = acceptsFrom .predAfter rest := by
  intro ps
  induction ps with
  | nil => intro _; simp
  | cons pe ps ih =>
    intro h
    simp only [List.flatMap_cons, List.cons_append, List.append_assoc]
    rw [show acceptsFrom .predAfter (Tok.valueSep :: (predTokens pe ++ (ps.flatMap (fun pe => Tok.valueSep :: predTokens pe) ++ rest)))
          = acceptsFrom .predKey (predTokens pe ++ (ps.flatMap (fun pe => Tok.valueSep :: predTokens pe) ++ rest)) by
        simp [acceptsFrom, step]]
    rw [(accepts_pred pe _ (h pe (by simp))).2]
    exact ih (fun pe' hpe' => h pe' (by simp [hpe']))

theorem accepts_subj_body (ps : PMap) (rest : List Tok) (h : PMapOK ps) :
    acceptsFrom .subjColon (Tok.nameSep :: Tok.beginObject :: (joinSep (ps.map predTokens) ++ Tok.endObject :: rest))
      = acceptsFrom .subjAfter rest := by
  cases ps with
  | nil => simp [joinSep, acceptsFrom, step]
  | cons pe ps =>
    simp only [List.map_cons, joinSep, List.append_assoc, acceptsFrom, step]
    rw [List.flatMap_map]
    rw [(accepts_pred pe _ (h pe (by simp))).1]
    rw [accepts_preds_sep _ ps (fun pe' hpe' => h pe' (by simp [hpe']))]
    simp [acceptsFrom, step]

theorem accepts_subj (se : List Nat × PMap) (rest : List Tok) (h : PMapOK se.2) :
    acceptsFrom .subjFirst (subjTokens se ++ rest) = acceptsFrom .subjAfter rest ∧
    acceptsFrom .subjKey (subjTokens se ++ rest) = acceptsFrom .subjAfter rest := by
  have := accepts_subj_body se.2 rest h
  constructor <;> simpa [subjTokens, acceptsFrom, step] using this

def StateOK (st : State) : Prop := ∀ se ∈ st, PMapOK se.2

theorem accepts_subjs_sep (rest : List Tok) :
    ∀ st : State, StateOK st →
      acceptsFrom .subjAfter (st.flatMap (fun se => Tok.valueSep :: subjTokens se) ++ rest)
        = acceptsFrom .subjAfter rest := by
  intro st
  induction st with
  | nil => intro _; simp
  | cons se st ih =>
    intro h
    simp only [List.flatMap_cons, List.cons_append, List.append_assoc]
    rw [show acceptsFrom .subjAfter (Tok.valueSep :: (subjTokens se ++ (st.flatMap (fun se => Tok.valueSep :: subjTokens se) ++ rest)))
          = acceptsFrom .subjKey (subjTokens se ++ (st.flatMap (fun se => Tok.valueSep :: subjTokens se) ++ rest)) by
        simp [acceptsFrom, step]]
    rw [(accepts_subj se _ (h se (by simp))).2]
    exact ih (fun se' hse' => h se' (by simp [hse']))

theorem accepts_rawTokens (st : State) (h : StateOK st) : accepts (rawTokens st) = true := by
  unfold accepts rawTokens
  cases st with
  | nil => simp [joinSep, acceptsFrom, step]
  | cons se st =>
    simp only [List.map_cons, joinSep, List.append_assoc, acceptsFrom, step]
    rw [List.flatMap_map]
    rw [(accepts_subj se _ (h se (by simp))).1]
    rw [accepts_subjs_sep _ st (fun se' hse' => h se' (by simp [hse']))]
    simp [acceptsFrom, step]

/-! ## Every record the encoder makes of a well-formed object is legal -/

theorem recOK_of_wf (label : β → List Nat) (o : Term β) (ho : WFObject o) : RecOK (objRec label o) := by
  have h4 : vUri = sUri := rfl
  have h5 : vBnode = sBnode := rfl
  have h6 : vLiteral = sLiteral := rfl
  cases o with
  | iri x => simp [RecOK, specRec, objRec, Rec.ok, h4]
  | bnode b => simp [RecOK, specRec, objRec, Rec.ok, h5, bnKey, startsWithBN]
  | lit lex dt tag =>
    obtain ⟨_, _, htag⟩ := ho
    simp only [objRec]
    by_cases hlang : dt = rdfLangString
    · subst hlang
      cases tag with
      | none => exact absurd rfl htag
      | some l =>
        obtain ⟨_, hl0⟩ := htag
        cases l with
        | nil => exact absurd rfl hl0
        | cons a l => simp [RecOK, specRec, Rec.ok, h6]
    · cases tag with
      | some l => exact absurd htag.1 hlang
      | none =>
        by_cases hx : dt = xsdString
        · subst hx; simp [hlang, RecOK, specRec, Rec.ok, h6]
        · simp [hlang, hx, RecOK, specRec, Rec.ok, h6]

theorem pmapOK_insert (p : List Nat) (o : ObjRec) (ho : RecOK o) :
    ∀ ps : PMap, PMapOK ps → PMapOK (insertObj p o ps) := by
  intro ps
  induction ps with
  | nil =>
    intro _ pe hpe r hr
    simp only [insertObj, List.mem_singleton] at hpe
    subst hpe
    simp only [List.mem_singleton] at hr
    subst hr; exact ho
  | cons pe ps ih =>
    obtain ⟨k, os⟩ := pe
    intro h
    simp only [insertObj]
    split
    · intro pe' hpe' r hr
      simp only [List.mem_cons] at hpe'
      rcases hpe' with rfl | hpe'
      · simp only [List.mem_append, List.mem_singleton] at hr
        rcases hr with hr | rfl
        · exact h (k, os) (by simp) r hr
        · exact ho
      · exact h pe' (by simp [hpe']) r hr
    · intro pe' hpe' r hr
      simp only [List.mem_cons] at hpe'
      rcases hpe' with rfl | hpe'
      · exact h (k, os) (by simp) r hr
      · exact ih (fun pe'' h'' => h pe'' (by simp [h''])) pe' hpe' r hr

theorem stateOK_insert (s p : List Nat) (o : ObjRec) (ho : RecOK o) :
    ∀ st : State, StateOK st → StateOK (insertSPO s p o st) := by
  intro st
  induction st with
  | nil =>
    intro _ se hse
    simp only [insertSPO, List.mem_singleton] at hse
    subst hse
    exact pmapOK_insert p o ho [] (by intro pe hpe; cases hpe)
  | cons se st ih =>
    obtain ⟨k, ps⟩ := se
    intro h
    simp only [insertSPO]
    split
    · intro se' hse'
      simp only [List.mem_cons] at hse'
      rcases hse' with rfl | hse'
      · exact pmapOK_insert p o ho ps (h (k, ps) (by simp))
      · exact h se' (by simp [hse'])
    · intro se' hse'
      simp only [List.mem_cons] at hse'
      rcases hse' with rfl | hse'
      · exact h (k, ps) (by simp)
      · exact ih (fun se'' h'' => h se'' (by simp [h''])) se' hse'

theorem stateOK_sort (st : State) (h : StateOK st) : StateOK (sortState st) := by
  intro se hse
  have hmem := (sortKeys_perm _).mem_iff.1 hse
  simp only [List.mem_map] at hmem
  obtain ⟨se0, h0, rfl⟩ := hmem
  intro pe hpe
  exact h se0 h0 pe ((sortKeys_perm _).mem_iff.1 hpe)

theorem stateOK_addAllFrom (label : β → List Nat) :
    ∀ (ts : List (Triple β)) (st : State), (∀ t ∈ ts, WFTriple t) → StateOK st →
      StateOK (addAllFrom label st ts) := by
  intro ts
  induction ts with
  | nil => intro st _ h; exact h
  | cons t ts ih =>
    intro st hwf h
    have ht := hwf t (by simp)
    obtain ⟨p, _, hadd⟩ := addTriple_wf label st t ht
    simp only [addAllFrom, hadd, Option.getD_some]
    exact ih _ (fun t' ht' => hwf t' (by simp [ht'])) (stateOK_insert _ p _ (recOK_of_wf label t.o ht.o) st h)

theorem output_grammatical (label : β → List Nat) (ts : List (Triple β)) (hwf : ∀ t ∈ ts, WFTriple t) :
    accepts (encodeTokens (addAll label ts)) = true := by
  have hnil : StateOK ([] : State) := by intro se hse; cases hse
  exact accepts_rawTokens _ (stateOK_sort _ (stateOK_addAllFrom label ts [] hwf hnil))

end RdfModel.Proofs.C01RJ
