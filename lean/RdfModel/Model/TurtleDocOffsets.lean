/-
  RdfModel.Model.TurtleDocOffsets — the Turtle / TriG STATEMENT LAYER (`Model.TurtleDoc`, namespace
  `TtlDoc`) once more, now with the text-offset bookkeeping of the Go code: an instrumented copy of the
  scan-function stack machine over sized runes `(code point, byte size)` that threads the bookkeeping
  state `NQO.S` (rune-buffer byte offset `RuneBuffer.o` + history of the `cursorio.TextWriter`, `none`
  when capture is off), calls `commit` / `commitForTextOffsetRange` exactly where
  encoding/{turtle,trig}/decoder*.go do, records the `…Location` fields of the evaluation context and
  the ranges captured by closures, and emits every statement WITH the four optional ranges handed to
  `buildTextOffsets`.  Errors carry the offset `newOffsetError` / `ErrWithTextOffsetRange` attach.

  Same control structure as `Model/TurtleDoc.lean`: the SAME defunctionalised continuations
  (`TtlDoc.Cont`; a frame additionally holds the one `*cursorio.TextOffsetRange` its Go closure
  captures: `blankNodeRange`, `cursor`, `valueRange`, `openSubjectRange`), explicit panic outcomes,
  flag `trig`.  The token producers are those of `Model/TurtleOffsets.lean` (`TtlO`, repaired code:
  `legacy = false`, `labelOnly = false`).  `Props/C16TtlDocO.lean` proves: forgetting sizes, writer and
  ranges gives exactly `TtlDoc.run` (erasure); commit discipline after any number of `Next()` calls; every
  reported range inside the document; every error offset inside the document.  The driver runs this
  model (op `ttlo.dec`, Driver/TtlDocO.lean); go/cmd/c16d compares it with both Go packages (T3);
  `Props/C16TtlDocOSites.lean` ties the number of commit / hand-back / error-offset call sites per Go
  function (T2).

  Commit sites of the statement layer (every `commit(` / `commitForTextOffsetRange(` outside the
  producers; checked against the sources side by side):
    scan               white space and comments: ONE chunk per scan call, committed just before the scan
                       function is called with a rune (also the empty chunk), or at EOF inside a comment;
                       white space read before a failing read is NOT committed
    directives         `@base` / `@prefix` (5 / 7 runes, one chunk), `BASE` + white-space rune (5) or
                       `BASE` alone before `<` (4), `PREFIX`/`GRAPH` + white-space rune (7 / 6), the
                       final `.` of `@base` / `@prefix`
    punctuation        `.` (Triples_End, triplesBlock_QUEST), `;`, `,`, `[` (range), `]`, `(` (range),
                       `)` (range), `{`, `}`
    keywords           `a` (range) and the white-space rune after it (separate chunk), `true` / `false`
                       (range), `^^` (one chunk)
  Hand-backs (`BacktrackRunes`): a rune handed back is modelled as not read (`bo` unchanged); where Go
  hands a rune back and THEN computes a capture-off error offset with that rune as `readIgnored`
  (TriG `reader_scan_triples_End`, `reader_scan_wrappedGraph(_End)`, `…_Required`, the `.`-not-followed-
  by-a-digit object) the rune's size is subtracted twice with `CfgO.dbl = true`, as in Go before patch c16d-1
  (defect D45); `dbl = false` is the repaired code: nothing is subtracted at these sites.

  A scan function is called with `ArgO.rune c rest` and the state BEFORE `c` was read (`s.read c` is
  the state Go is in when the function starts), or with `ArgO.fail`.

  Core-only, total, executable.  Not modelled: directive listeners, error message texts.
-/
import RdfModel.Model.TurtleDoc
import RdfModel.Model.TurtleOffsets
namespace RdfModel.TtlDocO
open RdfModel RdfModel.TW RdfModel.NQO RdfModel.TtlDoc

/-- `*cursorio.TextOffsetRange` (symbolic: writer history before / after). -/
abbrev Rg := Option SRange

/-- `evaluationContext` with its `…Location` fields. -/
structure EctxO where
  x : Ectx := {}
  sl : Rg := none     -- CurSubjectLocation
  pl : Rg := none     -- CurPredicateLocation
  gl : Rg := none     -- CurGraphNameLocation (TriG)
  deriving Repr

/-- A statement with the ranges handed to `buildTextOffsets` (subject, predicate, object, graph name). -/
structure StmtO where
  st : Stmt
  rg : Ranges
  deriving Repr

/-- `readerStack`; `r` is the range the closure captures (none for the named functions). -/
structure FrameO where
  x : EctxO
  k : Cont
  r : Rg := none
  deriving Repr

def FrameO.erase (f : FrameO) : Frame := ⟨f.x.x, f.k⟩

inductive ArgO where
  | rune (c : RP) (rest : List RP)
  | fail
  deriving Repr

def ArgO.erase : ArgO → Arg
  | .rune c rest => .rune c.1 (runes rest)
  | .fail => .fail

/-- On a failed read `r0` is the zero `DecodedRune` (`Rune: 0, Size: 0`). -/
def ArgO.orNul : ArgO → RP × List RP
  | .rune c rest => (c, rest)
  | .fail => ((0, 0), [])

structure OutO where
  cur : Option FrameO := none
  push : List FrameO := []
  emit : Option StmtO := none
  inp : List RP
  env : Env
  s : S
  term : Bool := false
  deriving Repr

def OutO.erase (o : OutO) : TtlDoc.Out :=
  { cur := o.cur.map FrameO.erase, push := o.push.map FrameO.erase, emit := o.emit.map (·.st),
    inp := runes o.inp, env := o.env, term := o.term }

inductive FnResO where
  | ok (o : OutO)
  | err (e : EClass) (o : EOff)
  | panic
  deriving Repr

def FnResO.erase : FnResO → FnRes
  | .ok o => .ok o.erase
  | .err e _ => .err e
  | .panic => .panic

structure CfgO where
  trig : Bool
  T : Ttl.Tables
  resolve : Option (List Nat) → List Nat → Option (List Nat)
  isSpace : Nat → Bool
  pnBase : Nat → Bool
  /-- `true` = before patch c16d-1 (defect D45): the seven sites that hand the offending rune back to the
      buffer and THEN pass it as `readIgnored` subtract its size twice from the capture-off byte offset
      (short by the rune's size; negative in Go, truncated at 0 here, when the rune is larger than what
      precedes it). `false` = the repaired code: nothing is subtracted at these sites. -/
  dbl : Bool := false

/-- The configuration of the base machine this one refines. -/
def CfgO.base (C : CfgO) : Cfg :=
  { trig := C.trig, P := Producers.real C.T, resolve := C.resolve, isSpace := C.isSpace, pnBase := C.pnBase }

/-- State after `NextRune` returned the runes `l`. -/
def readL (s : S) (l : List RP) : S := { s with bo := s.bo + size l }

/-! ### Keyword matching, with the runes read -/

inductive KwO where
  | ok (read : List RP) (rest : List RP)
  | mismatch (read : List RP) (c : RP)     -- `c`: the rune that did not match (read as well)
  | eoi (read : List RP)
  deriving Repr

def KwO.erase : KwO → Kw
  | .ok _ rest => .ok (runes rest)
  | .mismatch _ _ => .mismatch
  | .eoi _ => .eoi

/-- `acc`: runes matched so far (reversed). -/
def matchKwO : List (Nat × Nat) → List RP → List RP → KwO
  | [], inp, acc => .ok acc.reverse inp
  | _ :: _, [], acc => .eoi acc.reverse
  | (u, l) :: ks, c :: rest, acc =>
    if c.1 = u ∨ c.1 = l then matchKwO ks rest (c :: acc) else .mismatch acc.reverse c

/-- `Ttl.matchKeyword` with the runes read. -/
def matchKeywordO : List Nat → List RP → List RP → KwO
  | [], rest, acc => .ok acc.reverse rest
  | _ :: _, [], acc => .eoi acc.reverse
  | k :: ks, c :: rest, acc => if c.1 = k then matchKeywordO ks rest (c :: acc) else .mismatch acc.reverse c

inductive BoolResO where
  | bool (b : Bool) (read : List RP) (rest : List RP)   -- `read`: the runes after `r0`
  | other
  | err (read : List RP)                                 -- reader failed after `r0 :: read`
  deriving Repr

def BoolResO.erase (e : End) : BoolResO → Ttl.BoolRes
  | .bool b _ rest => .bool b (runes rest)
  | .other => .other
  | .err _ => .err e.cls

/-- `Ttl.scanBoolean` with the runes read; `[]` does not occur (callers pass `r0 :: rest`). -/
def scanBooleanO : List RP → BoolResO
  | [] => .err []
  | c :: rest =>
    if c.1 = 0x74 then
      (match matchKeywordO (asc "rue") rest [] with
        | .eoi rd => .err rd
        | .mismatch _ _ => .other
        | .ok rd r => .bool true rd r)
    else if c.1 = 0x66 then
      (match matchKeywordO (asc "alse") rest [] with
        | .eoi rd => .err rd
        | .mismatch _ _ => .other
        | .ok rd r => .bool false rd r)
    else .other

/-! ### Tokens → terms -/

def mkStmtO (x : EctxO) (o : T) (ol : Rg) : StmtO := ⟨mkStmt x.x o, ⟨x.sl, x.pl, ol, x.gl⟩⟩

inductive TermResO where
  | ok (t : T) (rg : Rg) (s : S) (rest : List RP) (env : Env)
  | err (e : EClass) (o : EOff)
  | panic

def TermResO.erase : TermResO → TermRes
  | .ok t _ _ rest env => .ok t (runes rest) env
  | .err e _ => .err e
  | .panic => .panic

inductive IriResO where
  | ok (i : List Nat) (rg : Rg) (s : S) (rest : List RP)
  | err (e : EClass) (o : EOff)
  | panic

def IriResO.erase : IriResO → IriRes
  | .ok i _ _ rest => .ok i (runes rest)
  | .err e _ => .err e
  | .panic => .panic

/-- `produceIRIREF` + `ectx.ResolveIRI`; a resolution error carries the token's range. -/
def iriIRIREFO (C : CfgO) (e : End) (env : Env) (s : S) (inp : List RP) : IriResO :=
  match TtlO.produceIRIREF C.T e s inp with
  | .panic => .panic
  | .err c o => .err (ofTok c) o
  | .ok v rg s' rest =>
    match resolveIRI C.base env v with
    | none => .err .resolve (rangeErr rg)
    | some i => .ok i rg s' rest

/-- `producePrefixedName` + `ExpandPrefix`; an unknown prefix carries the token's range. -/
def iriPNameO (C : CfgO) (e : End) (env : Env) (s : S) (inp : List RP) : IriResO :=
  match TtlO.producePrefixedName C.T e C.trig s inp with
  | .panic => .panic
  | .err c o => .err (ofTok c) o
  | .ok (ns, loc) rg s' rest =>
    match env.expand ns loc with
    | none => .err .pfx (rangeErr rg)
    | some i => .ok i rg s' rest

def IriResO.toTerm (env : Env) : IriResO → TermResO
  | .ok i rg s rest => .ok (.iri i) rg s rest env
  | .err c o => .err c o
  | .panic => .panic

def termIRIREFO (C : CfgO) (e : End) (env : Env) (s : S) (inp : List RP) : TermResO :=
  (iriIRIREFO C e env s inp).toTerm env

def termPNameO (C : CfgO) (e : End) (env : Env) (s : S) (inp : List RP) : TermResO :=
  (iriPNameO C e env s inp).toTerm env

def termBNodeO (C : CfgO) (e : End) (env : Env) (s : S) (inp : List RP) : TermResO :=
  match TtlO.produceBlankNode C.T e false s inp with
  | .panic => .panic
  | .err c o => .err (ofTok c) o
  | .ok l rg s' rest => .ok (env.labelled l).1 rg s' rest (env.labelled l).2

/-! ### The scan functions -/

def EctxO.withSubj (x : EctxO) (t : T) (rg : Rg) : EctxO := { x with x := { x.x with subj := some t }, sl := rg }
def EctxO.withPred (x : EctxO) (t : T) (rg : Rg) : EctxO := { x with x := { x.x with pred := some t }, pl := rg }
def EctxO.withGraph (x : EctxO) (t : T) (rg : Rg) : EctxO := { x with x := { x.x with graph := some t }, gl := rg }

def subjectTailO (x : EctxO) (t : T) (rg : Rg) (s : S) (inp : List RP) (env : Env) : FnResO :=
  let x' := x.withSubj t rg
  .ok { cur := some ⟨x', .polRequired, none⟩, push := [⟨x', .polContinue, none⟩], inp := inp, env := env, s := s }

/-- `reader_scan_triplesOrGraph_labelOrSubject_*`: the token's range travels with `E1`. -/
def labelOrSubjectO (x : EctxO) : TermResO → FnResO
  | .panic => .panic
  | .err c o => .err c o
  | .ok t rg s rest env => .ok { cur := some ⟨x, .tgE1 t, rg⟩, inp := rest, env := env, s := s }

def subjectOfO (x : EctxO) : TermResO → FnResO
  | .panic => .panic
  | .err c o => .err c o
  | .ok t rg s rest env => subjectTailO x t rg s rest env

/-- Fallback of the `BASE` / `PREFIX` / `GRAPH` matchers. `s` is the state before `r0` = `c`; TriG hands
    back `r1 …` and calls the producer with `r0`, Turtle hands back `r0 …` as well. -/
def kwFallbackO (C : CfgO) (e : End) (x : EctxO) (env : Env) (s : S) (inp : List RP) : FnResO :=
  if C.trig then labelOrSubjectO x (termPNameO C e env s inp)
  else .ok { cur := some ⟨x, .subjPName, none⟩, push := [⟨x, .triplesEnd, none⟩], inp := inp, env := env, s := s }

def withSelfO (x : EctxO) : FnResO → FnResO
  | .ok o => .ok { o with push := ⟨x, .statement, none⟩ :: o.push }
  | r => r

/-- `reader_scan_wrappedGraph`. -/
def stepWrappedGraphO (dbl : Bool) (e : End) (x : EctxO) (env : Env) (s : S) : ArgO → FnResO
  | .fail => .err (endCls e) .none
  | .rune c rest =>
    if c.1 ≠ 0x7b then .err .syntax (s.offErr [] (if dbl then c.2 else 0))   -- BacktrackRunes(r0) first
    else .ok { cur := some ⟨x, .triplesBlock, none⟩, push := [⟨x, .wrappedGraphEnd, none⟩], inp := rest, env := env,
               s := (s.read c).commit [c] }

/-- `case '@'`: `c0` is the `@`, `s` the state before it. A failing read of `r_k` (k ≥ 2) is reported with
    `r0 … r_(k-2)` as uncommitted, a mismatch of `r_k` with `r0 … r_(k-1)`. -/
def stepAtDirectiveO (e : End) (x : EctxO) (env : Env) (s : S) (c0 : RP) (rest : List RP) : FnResO :=
  match rest with
  | [] => .err (endCls e) .none                                -- `return readerStack{}, err`
  | r1 :: rest1 =>
    let s2 := (s.read c0).read r1
    let go (kw : String) (k : Cont) : FnResO :=
      match matchKwO (kwExact kw) rest1 [] with
      | .eoi rd => .err (endCls e) ((readL s2 rd).offErr (c0 :: r1 :: rd).dropLast 0)
      | .mismatch rd c => .err .syntax (((readL s2 rd).read c).offErr (c0 :: r1 :: rd) c.2)
      | .ok rd r => .ok { cur := some ⟨x, k, none⟩, inp := r, env := env, s := (readL s2 rd).commit (c0 :: r1 :: rd) }
    if r1.1 = 0x62 then go "ase" .atBaseIRI
    else if r1.1 = 0x70 then go "refix" .atPrefixNS
    else .err .syntax (s2.offErr [c0] r1.2)

/-- `case 'B', 'b'`. -/
def stepKwBaseO (C : CfgO) (e : End) (x : EctxO) (env : Env) (s : S) (c : RP) (rest : List RP) : FnResO :=
  match matchKwO (kwCI "ASE") rest [] with
  | .eoi rd => .err (endCls e) ((readL (s.read c) rd).offErr (c :: rd) 0)
  | .mismatch _ _ => kwFallbackO C e x env s (c :: rest)
  | .ok rd r =>
    let sK := readL (s.read c) rd
    match r with
    | [] => .err (endCls e) (sK.offErr (c :: rd) 0)
    | r4 :: rest4 =>
      if r4.1 = 0x3c then
        .ok { cur := some ⟨x, .sparqlBaseIRI, none⟩, inp := r4 :: rest4, env := env, s := sK.commit (c :: rd) }
      else if !C.isSpace r4.1 then kwFallbackO C e x env s (c :: rest)
      else .ok { cur := some ⟨x, .sparqlBaseIRI, none⟩, inp := rest4, env := env,
                 s := (sK.read r4).commit (c :: rd ++ [r4]) }

/-- `case 'P', 'p'` and (TriG) `case 'G', 'g'`. -/
def stepKwSpaceO (C : CfgO) (e : End) (x : EctxO) (env : Env) (s : S) (kw : List (Nat × Nat)) (k : Cont) (c : RP)
    (rest : List RP) : FnResO :=
  match matchKwO kw rest [] with
  | .eoi rd => .err (endCls e) ((readL (s.read c) rd).offErr (c :: rd) 0)
  | .mismatch _ _ => kwFallbackO C e x env s (c :: rest)
  | .ok rd r =>
    let sK := readL (s.read c) rd
    match r with
    | [] => .err (endCls e) (sK.offErr (c :: rd) 0)
    | r6 :: rest6 =>
      if !C.isSpace r6.1 then kwFallbackO C e x env s (c :: rest)
      else .ok { cur := some ⟨x, k, none⟩, inp := rest6, env := env, s := (sK.read r6).commit (c :: rd ++ [r6]) }

/-- The subject starters of the top-level function. `[` and `(` are committed for their range. -/
def stepSubjectStartO (C : CfgO) (e : End) (x : EctxO) (env : Env) (s : S) (c : RP) (rest : List RP) : FnResO :=
  let s1 := s.read c
  if c.1 = 0x3c then
    if C.trig then labelOrSubjectO x (termIRIREFO C e env s (c :: rest))
    else .ok { cur := some ⟨x, .subjIRIREF, none⟩, push := [⟨x, .triplesEnd, none⟩], inp := c :: rest, env := env, s := s }
  else if c.1 = 0x5f then
    if C.trig then labelOrSubjectO x (termBNodeO C e env s (c :: rest))
    else .ok { cur := some ⟨x, .subjBNode, none⟩, push := [⟨x, .triplesEnd, none⟩], inp := c :: rest, env := env, s := s }
  else if c.1 = 0x5b then
    if C.trig then
      .ok { cur := some ⟨x, .tgBracket env.fresh.1, s1.range [c]⟩, inp := rest, env := env.fresh.2, s := s1.commit [c] }
    else
      .ok { cur := some ⟨x.withSubj env.fresh.1 (s1.range [c]), .subjAnonOrBNPL, none⟩, inp := rest, env := env.fresh.2,
            s := s1.commit [c] }
  else if c.1 = 0x28 then
    .ok { cur := some ⟨x, .parenTop env.fresh.1, s1.range [c]⟩, inp := rest, env := env.fresh.2, s := s1.commit [c] }
  else if c.1 = 0x3a ∨ C.pnBase c.1 then
    if C.trig then labelOrSubjectO x (termPNameO C e env s (c :: rest))
    else .ok { cur := some ⟨x, .subjPName, none⟩, push := [⟨x, .triplesEnd, none⟩], inp := c :: rest, env := env, s := s }
  else .err .syntax (s1.offErr [] c.2)

def stepStatementRuneO (C : CfgO) (e : End) (x : EctxO) (env : Env) (s : S) (c : RP) (rest : List RP) : FnResO :=
  if c.1 = 0x40 then stepAtDirectiveO e x env s c rest
  else if c.1 = 0x42 ∨ c.1 = 0x62 then stepKwBaseO C e x env s c rest
  else if c.1 = 0x50 ∨ c.1 = 0x70 then stepKwSpaceO C e x env s (kwCI "REFIX") .sparqlPrefixNS c rest
  else if C.trig ∧ (c.1 = 0x47 ∨ c.1 = 0x67) then stepKwSpaceO C e x env s (kwCI "RAPH") .graphLabel c rest
  else if C.trig ∧ c.1 = 0x7b then stepWrappedGraphO C.dbl e x env s (.rune c rest)
  else stepSubjectStartO C e x env s c rest

/-- `reader_scan_collection(r, ectx, r0, openSubject, openSubjectRange)`. -/
def stepCollectionO (x : EctxO) (env : Env) (s : S) (c : RP) (rest : List RP) (o : T) (org : Rg) : FnResO :=
  if c.1 = 0x29 then
    .ok { emit := some (mkStmtO x (.iri rdfNil) ((s.read c).range [c])), inp := rest, env := env,
          s := (s.read c).commit [c] }
  else
    let nx : EctxO := { x := { x.x with subj := some o, pred := some (.iri rdfFirst) }, sl := org, pl := none, gl := x.gl }
    match x.x.subj with
    | none => .ok { cur := some ⟨nx, .object, none⟩, push := [⟨nx, .collContinue, none⟩], inp := c :: rest, env := env, s := s }
    | some _ => .ok { cur := some ⟨nx, .object, none⟩, push := [⟨nx, .collContinue, none⟩], emit := some (mkStmtO x o org),
                      inp := c :: rest, env := env, s := s }

def polGoO (x : EctxO) (p : T) (prg : Rg) (s : S) (inp : List RP) (env : Env) : FnResO :=
  let x' := x.withPred p prg
  .ok { cur := some ⟨x', .object, none⟩, push := [⟨x', .objListContinue, none⟩], inp := inp, env := env, s := s }

def polOfTermO (x : EctxO) : TermResO → FnResO
  | .panic => .panic
  | .err k o => .err k o
  | .ok p rg s r env' => polGoO x p rg s r env'

/-- `reader_scan_PredicateObjectList` on a rune. `a`: committed for its range, the white-space rune
    after it committed separately. -/
def stepPOLO (C : CfgO) (e : End) (x : EctxO) (env : Env) (s : S) (c : RP) (rest : List RP) : FnResO :=
  if c.1 = 0x3c then polOfTermO x (termIRIREFO C e env s (c :: rest))
  else if c.1 = 0x61 then
    match rest with
    | [] => .err (endCls e) ((s.read c).offErr [c] 0)
    | r1 :: rest1 =>
      if !C.isSpace r1.1 then polOfTermO x (termPNameO C e env s (c :: rest))
      else
        let s2 := (s.read c).read r1
        polGoO x (.iri rdfType) (s2.range [c]) ((s2.commit [c]).commit [r1]) rest1 env
  else if c.1 = 0x3a ∨ C.pnBase c.1 then polOfTermO x (termPNameO C e env s (c :: rest))
  else .ok { inp := c :: rest, env := env, s := s }

/-- After the string token (`lrg` its range = the statement's object range): LANGTAG or `^^` iri. -/
def stepLiteralTailO (C : CfgO) (e : End) (x : EctxO) (env : Env) (lex : List Nat) (lrg : Rg) (s : S)
    (rest : List RP) : FnResO :=
  match rest with
  | [] => .err (endCls e) (s.offErr [] 0)
  | c :: rest0 =>
    if c.1 = 0x40 then
      match TtlO.produceLANGTAG e s (c :: rest0) with
      | .panic => .panic
      | .err k o => .err (ofTok k) o
      | .ok tag _ s' r =>
        .ok { emit := some (mkStmtO x (.lit lex rdfLangString (some tag)) lrg), inp := r, env := env, s := s' }
    else if c.1 = 0x5e then
      match rest0 with
      | [] => .err (endCls e) ((s.read c).offErr [c] 0)
      | c1 :: rest1 =>
        let s2 := (s.read c).read c1
        if c1.1 ≠ 0x5e then .err .syntax (s2.offErr [c] c1.2)
        else match rest1 with
          | [] => .err (endCls e) (s2.offErr [c, c1] 0)
          | c2 :: rest2 =>
            let s3 := s2.commit [c, c1]
            let tr := if c2.1 = 0x3c then iriIRIREFO C e env s3 (c2 :: rest2) else iriPNameO C e env s3 (c2 :: rest2)
            match tr with
            | .panic => .panic
            | .err k o => .err k o
            | .ok dt _ s' r =>
              if dt = rdfLangString ∨ dt = rdfDirLangString then .err .syntax .none     -- `fmt.Errorf`, no offset
              else .ok { emit := some (mkStmtO x (.lit lex dt none) lrg), inp := r, env := env, s := s' }
    else .ok { emit := some (mkStmtO x (.lit lex xsdString none) lrg), inp := c :: rest0, env := env, s := s }

def emitOfTermO (x : EctxO) : TermResO → FnResO
  | .panic => .panic
  | .err k o => .err k o
  | .ok o rg s r env' => .ok { emit := some (mkStmtO x o rg), inp := r, env := env', s := s }

def emitOfNumericO (x : EctxO) (env : Env) : TtlO.RO (Ttl.NumKind × List Nat) → FnResO
  | .panic => .panic
  | .err k o => .err (ofTok k) o
  | .ok (kind, lex) rg s r => .ok { emit := some (mkStmtO x (.lit lex kind.datatype none) rg), inp := r, env := env, s := s }

/-- `reader_scan_Object` on a rune. -/
def stepObjectO (C : CfgO) (e : End) (x : EctxO) (env : Env) (s : S) (c : RP) (rest : List RP) : FnResO :=
  let s1 := s.read c
  if c.1 = 0x3c then emitOfTermO x (termIRIREFO C e env s (c :: rest))
  else if c.1 = 0x5f then emitOfTermO x (termBNodeO C e env s (c :: rest))
  else if c.1 = 0x28 then .ok { cur := some ⟨x, .collOpenObj, s1.range [c]⟩, inp := rest, env := env, s := s1.commit [c] }
  else if c.1 = 0x5b then
    let nx : EctxO := { x := { x.x with subj := some env.fresh.1, pred := none }, sl := s1.range [c], pl := none, gl := x.gl }
    .ok { push := [⟨nx, .bnplEnd, none⟩, ⟨nx, .polContinue, none⟩, ⟨nx, .pol, none⟩],
          emit := some (mkStmtO x env.fresh.1 (s1.range [c])), inp := rest, env := env.fresh.2, s := s1.commit [c] }
  else if c.1 = 0x22 ∨ c.1 = 0x27 then
    match TtlO.produceString C.T e false s (c :: rest) with
    | .panic => .panic
    | .err k o => .err (ofTok k) o
    | .ok lex lrg s' r => stepLiteralTailO C e x env lex lrg s' r
  else if c.1 = 0x2b ∨ c.1 = 0x2d ∨ (0x30 ≤ c.1 ∧ c.1 ≤ 0x39) ∨ c.1 = 0x2e then
    if c.1 = 0x2e then
      match rest with
      | [] => .err (endCls e) (s1.offErr [c] 0)
      | r1 :: _ =>
        if r1.1 < 0x30 ∨ r1.1 > 0x39 then .err .syntax (s.offErr [] (if C.dbl then c.2 else 0))  -- BacktrackRunes(r0, r1) first
        else emitOfNumericO x env (TtlO.produceNumericLiteral e s (c :: rest))
    else emitOfNumericO x env (TtlO.produceNumericLiteral e s (c :: rest))
  else if c.1 = 0x74 ∨ c.1 = 0x66 then
    match scanBooleanO (c :: rest) with
    | .err rd => .err (endCls e) ((readL s1 rd).offErr (c :: rd) 0)
    | .other => .ok { cur := some ⟨x, .objectPName, none⟩, inp := c :: rest, env := env, s := s }
    | .bool b rd r =>
      .ok { emit := some (mkStmtO x (.lit (asc (if b then "true" else "false")) Ttl.xsdBoolean none)
                            ((readL s1 rd).range (c :: rd))),
            inp := r, env := env, s := (readL s1 rd).commit (c :: rd) }
  else if C.pnBase c.1 ∨ c.1 = 0x3a then .ok { cur := some ⟨x, .objectPName, none⟩, inp := c :: rest, env := env, s := s }
  else .err .syntax (s1.offErr [] c.2)

/-- `reader_scan_triples` (TriG) on a rune. -/
def stepTriplesO (C : CfgO) (x : EctxO) (env : Env) (s : S) (c : RP) (rest : List RP) : FnResO :=
  let s1 := s.read c
  if c.1 = 0x3c then .ok { cur := some ⟨x, .subjIRIREF, none⟩, inp := c :: rest, env := env, s := s }
  else if c.1 = 0x5f then .ok { cur := some ⟨x, .subjBNode, none⟩, inp := c :: rest, env := env, s := s }
  else if c.1 = 0x5b then
    let x' := x.withSubj env.fresh.1 (s1.range [c])
    .ok { cur := some ⟨x', .pol, none⟩,
          push := [⟨x', .polContinue, none⟩, ⟨x', .pol, none⟩, ⟨x', .bnplEnd, none⟩, ⟨x', .polContinue, none⟩],
          inp := rest, env := env.fresh.2, s := s1.commit [c] }
  else if c.1 = 0x28 then
    .ok { cur := some ⟨x, .parenBlock env.fresh.1, s1.range [c]⟩, inp := rest, env := env.fresh.2, s := s1.commit [c] }
  else if c.1 = 0x3a ∨ C.pnBase c.1 then .ok { cur := some ⟨x, .subjPName, none⟩, inp := c :: rest, env := env, s := s }
  else .err .syntax (s1.offErr [] c.2)

/-- Outer closure of a subject-position `(`; `rg` = `blankNodeRange` (the range of the `(`). `()`: the
    subject range runs from the `(` to the end of the `)`. Ignores `err`. -/
def stepParenO (top : Bool) (x : EctxO) (env : Env) (bn : T) (rg : Rg) (s : S) (a : ArgO) : FnResO :=
  let c := a.orNul.1
  let rest := a.orNul.2
  let tail : List FrameO := if top then [⟨x, .triplesEnd, none⟩] else []
  if c.1 = 0x29 then
    let nx := x.withSubj (.iri rdfNil) (span rg ((s.read c).range [c]))
    .ok { cur := some ⟨nx, .polRequired, none⟩, push := tail ++ [⟨nx, .polContinue, none⟩], inp := rest, env := env,
          s := (s.read c).commit [c] }
  else
    let nx := x.withSubj bn rg
    .ok { cur := some ⟨x, .collOpenSubj bn, rg⟩, push := tail ++ [⟨nx, .polContinue, none⟩, ⟨nx, .polRequired, none⟩],
          inp := c :: rest, env := env, s := s }

/-- One scan-function call. `r` = the range captured by the closure. -/
def stepFnO (C : CfgO) (e : End) (k : Cont) (r : Rg) (x : EctxO) (env : Env) (s : S) (a : ArgO) : FnResO :=
  match k with
  | .statement =>
    match a with
    | .fail => (match e with
        | .eof => .ok { inp := [], env := env, s := s, term := true }
        | .ioerr => .err .io .none)
    | .rune c rest => withSelfO x (stepStatementRuneO C e x env s c rest)
  | .atBaseIRI | .sparqlBaseIRI =>
    match a with
    | .fail => .err (endCls e) .none
    | .rune c rest =>
      match TtlO.produceIRIREF C.T e s (c :: rest) with
      | .panic => .panic
      | .err t o => .err (ofTok t) o
      | .ok v rg s' r =>
        match resolveURL C.base env v with
        | none => .err .resolve (rangeErr rg)
        | some b =>
          if k = .atBaseIRI then .ok { cur := some ⟨x, .atBaseDot b, none⟩, inp := r, env := env, s := s' }
          else .ok { cur := some ⟨x, .statement, none⟩, inp := r, env := { env with base := some b }, s := s' }
  | .atBaseDot b =>
    match a with
    | .fail => .err (endCls e) (s.offErr [] 0)
    | .rune c rest =>
      if c.1 ≠ 0x2e then .err .syntax ((s.read c).offErr [] c.2)
      else .ok { cur := some ⟨x, .statement, none⟩, inp := rest, env := { env with base := some b }, s := (s.read c).commit [c] }
  | .atPrefixNS | .sparqlPrefixNS =>
    match a with
    | .fail => .err (endCls e) .none
    | .rune c rest =>
      match TtlO.producePNAME_NS C.T e C.trig s (c :: rest) with
      | .panic => .panic
      | .err t o => .err (ofTok t) o
      | .ok ns _ s' r =>
        .ok { cur := some ⟨x, if k = .atPrefixNS then .atPrefixIRI ns else .sparqlPrefixIRI ns, none⟩, inp := r, env := env, s := s' }
  | .atPrefixIRI ns =>
    match a with
    | .fail => .err (endCls e) .none
    | .rune c rest =>
      match TtlO.produceIRIREF C.T e s (c :: rest) with
      | .panic => .panic
      | .err t o => .err (ofTok t) o
      | .ok v rg s' r =>
        match resolveURL C.base env v with
        | none => .err .resolve (rangeErr rg)
        | some b => .ok { cur := some ⟨x, .atPrefixDot ns b, none⟩, inp := r, env := env, s := s' }
  | .sparqlPrefixIRI ns =>
    match a with
    | .fail => .err (endCls e) .none
    | .rune c rest =>
      match TtlO.produceIRIREF C.T e s (c :: rest) with
      | .panic => .panic
      | .err t o => .err (ofTok t) o
      | .ok v rg s' r =>
        match resolveURL C.base env v with
        | none => .err .resolve (rangeErr rg)
        | some b => .ok { cur := some ⟨x, .statement, none⟩, inp := r, env := env.addPrefix ns b, s := s' }
  | .atPrefixDot ns b =>
    match a with
    | .fail => .err (endCls e) (s.offErr [] 0)
    | .rune c rest =>
      if c.1 ≠ 0x2e then .err .syntax ((s.read c).offErr [] c.2)
      else .ok { cur := some ⟨x, .statement, none⟩, inp := rest, env := env.addPrefix ns b, s := (s.read c).commit [c] }
  | .subjAnonOrBNPL =>
    match a with
    | .fail => .err (endCls e) .none
    | .rune c rest =>
      if c.1 = 0x5d then
        .ok { cur := some ⟨x, .polRequired, none⟩, push := [⟨x, .triplesEnd, none⟩, ⟨x, .polContinue, none⟩], inp := rest,
              env := env, s := (s.read c).commit [c] }
      else
        .ok { cur := some ⟨x, .polRequired, none⟩,
              push := [⟨x, .triplesEnd, none⟩, ⟨x, .polContinue, none⟩, ⟨x, .pol, none⟩, ⟨x, .bnplEnd, none⟩, ⟨x, .polContinue, none⟩],
              inp := c :: rest, env := env, s := s }
  | .triplesEnd =>
    match a with
    | .fail => .err (endCls e) (s.offErr [] 0)
    | .rune c rest =>
      if c.1 = 0x2e then .ok { inp := rest, env := env, s := (s.read c).commit [c] }
      else if C.trig then .err .syntax (s.offErr [] (if C.dbl then c.2 else 0))   -- TriG: BacktrackRunes(r0) first
      else .err .syntax ((s.read c).offErr [] c.2)
  | .subjIRIREF =>
    match a with
    | .fail => .err (endCls e) .none
    | .rune c rest => subjectOfO x (termIRIREFO C e env s (c :: rest))
  | .subjPName =>
    match a with
    | .fail => .err (endCls e) .none
    | .rune c rest => subjectOfO x (termPNameO C e env s (c :: rest))
  | .subjBNode =>
    match a with
    | .fail => .err (endCls e) .none
    | .rune c rest => subjectOfO x (termBNodeO C e env s (c :: rest))
  | .pol =>
    match a with
    | .fail => .err (endCls e) (s.offErr [] 0)
    | .rune c rest => stepPOLO C e x env s c rest
  | .polContinue =>
    match a with
    | .fail => .err (endCls e) (s.offErr [] 0)
    | .rune c rest =>
      if c.1 = 0x3b then
        .ok { cur := some ⟨x, .pol, none⟩, push := [⟨x, .polContinue, none⟩], inp := rest, env := env, s := (s.read c).commit [c] }
      else .ok { inp := c :: rest, env := env, s := s }
  | .polRequired =>
    match a with
    | .fail => .err (endCls e) (s.offErr [] 0)
    | .rune c rest =>
      match stepPOLO C e x env s c rest with
      | .ok o => if o.cur.isNone then .err .syntax (s.offErr [] (if C.dbl then c.2 else 0)) else .ok o   -- `r0` was handed back before
      | r => r
  | .objListContinue =>
    match a with
    | .fail => .err (endCls e) (s.offErr [] 0)
    | .rune c rest =>
      if c.1 = 0x2c then
        .ok { cur := some ⟨x, .object, none⟩, push := [⟨x, .objListContinue, none⟩], inp := rest, env := env,
              s := (s.read c).commit [c] }
      else .ok { inp := c :: rest, env := env, s := s }
  | .object =>
    match a with
    | .fail => .err (endCls e) (s.offErr [] 0)
    | .rune c rest => stepObjectO C e x env s c rest
  | .objectPName =>
    match a with
    | .fail => .err (endCls e) .none
    | .rune c rest => emitOfTermO x (termPNameO C e env s (c :: rest))
  | .collOpenObj =>
    match a with
    | .fail => .err (endCls e) .none
    | .rune c rest => stepCollectionO x env.fresh.2 s c rest env.fresh.1 r
  | .collOpenSubj o => stepCollectionO x env s a.orNul.1 a.orNul.2 o r
  | .collContinue =>
    match a with
    | .fail => .err (endCls e) (s.offErr [] 0)
    | .rune c rest =>
      if c.1 = 0x29 then
        .ok { emit := some ⟨{ s := x.x.subj, p := some (.iri rdfRest), o := .iri rdfNil, g := x.x.graph },
                            ⟨x.sl, none, (s.read c).range [c], x.gl⟩⟩,
              inp := rest, env := env, s := (s.read c).commit [c] }
      else
        let nx : EctxO := { x with x := { x.x with subj := some env.fresh.1 }, sl := none }
        .ok { cur := some ⟨nx, .object, none⟩, push := [⟨nx, .collContinue, none⟩],
              emit := some ⟨{ s := x.x.subj, p := some (.iri rdfRest), o := env.fresh.1, g := x.x.graph },
                            ⟨x.sl, none, none, x.gl⟩⟩,
              inp := c :: rest, env := env.fresh.2, s := s }
  | .bnplEnd =>
    match a with
    | .fail => .err (endCls e) (s.offErr [] 0)
    | .rune c rest =>
      if c.1 = 0x5d then .ok { inp := rest, env := env, s := (s.read c).commit [c] }
      else .err .syntax ((s.read c).offErr [] c.2)
  | .parenTop bn => stepParenO true x env bn r s a
  | .parenBlock bn => stepParenO false x env bn r s a
  | .graphLabel =>
    match a with
    | .fail => .err (endCls e) .none
    | .rune c rest =>
      if c.1 = 0x5b then
        .ok { cur := some ⟨x, .graphAnonClose, (s.read c).range [c]⟩, inp := rest, env := env, s := (s.read c).commit [c] }
      else
        let tr := if c.1 = 0x5f then termBNodeO C e env s (c :: rest)
                  else if c.1 = 0x3c then termIRIREFO C e env s (c :: rest)
                  else termPNameO C e env s (c :: rest)
        match tr with
        | .panic => .panic
        | .err t o => .err t o
        | .ok g rg s' rr env' => .ok { cur := some ⟨x.withGraph g rg, .wrappedGraph, none⟩, inp := rr, env := env', s := s' }
  | .graphAnonClose =>
    let c := a.orNul.1
    let rest := a.orNul.2
    if c.1 ≠ 0x5d then .err .syntax ((s.read c).offErr [] c.2)
    else
      .ok { cur := some ⟨x.withGraph env.fresh.1 (span r ((s.read c).range [c])), .wrappedGraph, none⟩, inp := rest,
            env := env.fresh.2, s := (s.read c).commit [c] }
  | .wrappedGraph => stepWrappedGraphO C.dbl e x env s a
  | .wrappedGraphEnd =>
    match a with
    | .fail => .err (endCls e) .none
    | .rune c rest =>
      if c.1 ≠ 0x7d then .err .syntax (s.offErr [] (if C.dbl then c.2 else 0))   -- BacktrackRunes(r0) first
      else .ok { inp := rest, env := env, s := (s.read c).commit [c] }
  | .triplesBlock =>
    match a with
    | .fail => .err (endCls e) .none
    | .rune c rest =>
      if c.1 = 0x7d then .ok { inp := c :: rest, env := env, s := s }
      else .ok { cur := some ⟨x, .triples, none⟩, push := [⟨x, .triplesBlockQuest, none⟩], inp := c :: rest, env := env, s := s }
  | .triplesBlockQuest =>
    match a with
    | .fail => .err (endCls e) .none
    | .rune c rest =>
      if c.1 = 0x2e then .ok { cur := some ⟨x, .triplesBlock, none⟩, inp := rest, env := env, s := (s.read c).commit [c] }
      else if c.1 = 0x7d then .ok { inp := c :: rest, env := env, s := s }
      else .ok { cur := some ⟨x, .triplesBlock, none⟩, inp := c :: rest, env := env, s := s }
  | .triples =>
    match a with
    | .fail => .err (endCls e) .none
    | .rune c rest => stepTriplesO C x env s c rest
  | .tgE1 v =>
    let c := a.orNul.1
    let rest := a.orNul.2
    if c.1 = 0x7b then
      let x' := x.withGraph v r
      .ok { cur := some ⟨x', .triplesBlock, none⟩, push := [⟨x', .wrappedGraphEnd, none⟩], inp := rest, env := env,
            s := (s.read c).commit [c] }
    else
      match v with
      | .lit .. => .panic
      | _ =>
        let x' := x.withSubj v r
        .ok { cur := some ⟨x', .polRequired, none⟩, push := [⟨x', .triplesEnd, none⟩, ⟨x', .polContinue, none⟩],
              inp := c :: rest, env := env, s := s }
  | .tgBracket bn =>
    let c := a.orNul.1
    let rest := a.orNul.2
    if c.1 = 0x5d then .ok { cur := some ⟨x, .tgE1 bn, r⟩, inp := rest, env := env, s := (s.read c).commit [c] }
    else .ok { cur := some ⟨x.withSubj bn r, .triples2BNPL, none⟩, inp := c :: rest, env := env, s := s }
  | .triples2BNPL =>
    match a with
    | .fail => .err (endCls e) .none
    | .rune c rest =>
      if c.1 = 0x5d then
        .ok { cur := some ⟨x, .pol, none⟩, push := [⟨x, .triplesEnd, none⟩, ⟨x, .polContinue, none⟩], inp := rest, env := env,
              s := (s.read c).commit [c] }
      else
        .ok { cur := some ⟨x, .pol, none⟩,
              push := [⟨x, .triplesEnd, none⟩, ⟨x, .polContinue, none⟩, ⟨x, .pol, none⟩, ⟨x, .bnplEnd, none⟩, ⟨x, .polContinue, none⟩],
              inp := c :: rest, env := env, s := s }

/-! ### `scan`: white space and comments before every scan function -/

inductive SkipO where
  | rune (s : S) (c : RP) (rest : List RP)   -- `s`: white space committed, `c` not yet read
  | end_ (s : S)
  | commentIo
  deriving Repr

def SkipO.erase : SkipO → Skip
  | .rune _ c rest => .rune c.1 (runes rest)
  | .end_ _ => .end_
  | .commentIo => .commentIo

/-- The loop of `scan`. `unc` = Go's `uncommitted` (reversed): everything skipped by THIS call. It is
    committed in one chunk when a rune for the scan function is found, or at EOF inside a comment;
    white space before a failing read stays uncommitted. -/
def skipWsO (C : CfgO) (e : End) : Bool → S → List RP → Chunk → SkipO
  | false, s, [], _ => .end_ s
  | true, s, [], unc => (match e with | .eof => .end_ (s.commit unc.reverse) | .ioerr => .commentIo)
  | true, s, c :: rest, unc =>
    if c.1 = 0x0a ∨ c.1 = 0x0d then skipWsO C e false (s.read c) rest (c :: unc)
    else skipWsO C e true (s.read c) rest (c :: unc)
  | false, s, c :: rest, unc =>
    if c.1 = 0x23 then skipWsO C e true (s.read c) rest (c :: unc)
    else if isWs C.base c.1 then skipWsO C e false (s.read c) rest (c :: unc)
    else .rune (s.commit unc.reverse) c rest

/-! ### The decoder object -/

structure StO where
  stack : List FrameO
  inp : List RP
  env : Env
  s : S
  err : Option (EClass × EOff) := none
  stmts : List StmtO := []
  deriving Repr

def StO.erase (st : StO) : St :=
  { stack := st.stack.map FrameO.erase, inp := runes st.inp, env := st.env, err := st.err.map Prod.fst,
    stmts := st.stmts.map (·.st) }

inductive ScanResO where
  | ok (cur : Option FrameO) (st : StO)
  | err (e : EClass) (o : EOff)
  | panic

def scanFnO (C : CfgO) (e : End) (f : FrameO) (inp : List RP) (env : Env) (s : S) : FnResO :=
  match skipWsO C e false s inp [] with
  | .commentIo => .err .io .none
  | .end_ s' => stepFnO C e f.k f.r f.x env s' .fail
  | .rune s' c rest => stepFnO C e f.k f.r f.x env s' (.rune c rest)

def applyOutO (st : StO) (o : OutO) : StO :=
  { st with
    stack := if o.term then [] else o.push.reverse ++ st.stack
    inp := o.inp
    env := o.env
    s := o.s
    stmts := st.stmts ++ o.emit.toList }

def scanO (C : CfgO) (e : End) (f : FrameO) (st : StO) : ScanResO :=
  match scanFnO C e f st.inp st.env st.s with
  | .panic => .panic
  | .err k o => .err k o
  | .ok o => .ok o.cur (applyOutO st o)

inductive NextResO where
  | yes (st : StO)
  | no (st : StO)
  | panic
  | outOfFuel
  deriving Repr

def popFrameO (cur : Option FrameO) (st : StO) : Option (FrameO × StO) :=
  match cur with
  | some f => some (f, st)
  | none =>
    match st.stack with
    | [] => none
    | f :: s => some (f, { st with stack := s })

def pushCurO (cur : Option FrameO) (st : StO) : StO :=
  match cur with
  | some f => { st with stack := f :: st.stack }
  | none => st

def nextLoopO (C : CfgO) (e : End) : Nat → Option FrameO → StO → NextResO
  | 0, _, _ => .outOfFuel
  | fuel + 1, cur, st =>
    if st.err.isSome then .no st
    else if !st.stmts.isEmpty then .yes (pushCurO cur st)
    else
      match popFrameO cur st with
      | none => .no st
      | some (f, st1) =>
        match scanO C e f st1 with
        | .panic => .panic
        | .err k o => nextLoopO C e fuel none { st1 with err := some (k, o) }
        | .ok cur' st2 => nextLoopO C e fuel cur' st2

/-- `Next()`; the fuel is the potential of the erased state (`TtlDoc.next_fuel` proves it suffices). -/
def nextO (C : CfgO) (e : End) (st : StO) : NextResO :=
  let st0 := { st with stmts := st.stmts.drop 1 }
  nextLoopO C e (st0.erase.cost + 1) none st0

/-- Result of a whole run: statements with ranges, verdict, the offset carried by `Err()`, and the
    bookkeeping state + unread input when `Next()` returned false. -/
structure RunO where
  stmts : List StmtO
  verdict : Verdict
  eoff : EOff
  final : Option StO
  deriving Repr

def runLoopO (C : CfgO) (e : End) : Nat → StO → RunO
  | 0, _ => ⟨[], .outOfFuel, .none, none⟩
  | n + 1, st =>
    match nextO C e st with
    | .panic => ⟨[], .panic, .none, none⟩
    | .outOfFuel => ⟨[], .outOfFuel, .none, none⟩
    | .no st' =>
      (match st'.err with
        | none => ⟨[], .clean, .none, some st'⟩
        | some (k, o) => ⟨[], .error k, o, some st'⟩)
    | .yes st' =>
      match st'.stmts with
      | [] => ⟨[], .panic, .none, none⟩
      | s :: _ => let r := runLoopO C e n st'; { r with stmts := s :: r.stmts }

def initO (capture : Bool) (base : Option (List Nat)) (prefixes : List (List Nat × List Nat)) (inp : List RP) : StO :=
  { stack := [⟨{}, .statement, none⟩], inp := inp, env := { base := base, prefixes := prefixes, nextAnon := 0 },
    s := S.init capture }

def runO (C : CfgO) (e : End) (capture : Bool) (base : Option (List Nat)) (prefixes : List (List Nat × List Nat))
    (inp : List RP) : RunO :=
  let st := initO capture base prefixes inp
  runLoopO C e (st.erase.cost + 1) st

end RdfModel.TtlDocO
