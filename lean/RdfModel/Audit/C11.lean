/-
  Audit for C11: axioms used by every theorem of Props/C11.lean
  (expected: a subset of {propext, Classical.choice, Quot.sound}).
-/
import RdfModel.Props.C11
open RdfModel

#print axioms RdfModel.C11.combined_is_union
#print axioms RdfModel.C11.combined_is_union_clean
#print axioms RdfModel.C11.combined_init_failure
#print axioms RdfModel.C11.combined_document
#print axioms RdfModel.C11.no_cross_syntax_identification
#print axioms RdfModel.C11.rdfa_roundtrip
#print axioms RdfModel.C11.rdfa_canonical_block
#print axioms RdfModel.C11.rdfa_hanging_anonymous
#print axioms RdfModel.C11.rdfa_chaining
#print axioms RdfModel.C11.rdfa_inherited_subject
#print axioms RdfModel.C11.rdfa_typed_bnode_object
#print axioms RdfModel.C11.rdfa_rev_property_literal
#print axioms RdfModel.C11.rdfa_inlist_collection
#print axioms RdfModel.C11.microdata_roundtrip_validated
#print axioms RdfModel.C11.microdata_roundtrip_partial
#print axioms RdfModel.C11.jsonld_script_extracted
#print axioms RdfModel.C11.rdfa_prefix_out_of_scope_is_iri
#print axioms RdfModel.C11.rdfa_prefix_in_scope_is_curie
#print axioms RdfModel.C11.rdfa_prefix_scope
#print axioms RdfModel.C11.rdfa_prefix_scope_witness
#print axioms RdfModel.C11.rdfa_term_under_any_vocab
#print axioms RdfModel.C11.rdfa_vocab_declared
#print axioms RdfModel.C11.microdata_itemref_ignores_other_ids
#print axioms RdfModel.C11.microdata_nested_target_witness
#print axioms RdfModel.C11.microdata_denote_ignores_unreferenced_ids
#print axioms RdfModel.C11.rdfa_denote_ignores_ids
