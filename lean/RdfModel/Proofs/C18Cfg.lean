/-
  Helper lemmas for the Turtle / RDF-JSON composition theorems of property C18 (builder-c18b):
  the label stage of the pipe for an arbitrary label predicate, the option plumbing
  (`ttlOptions` never sets directive modes), and the "labeller commutes with relabelling" lemmas that
  connect the pipe (which labels first and encodes with the identity labeller) with the C02 / C01RJ
  round-trip theorems (which encode with a labeller).
-/
import RdfModel.Props.C18Defs
import RdfModel.Proofs.C18Labels
import RdfModel.Proofs.C18Pipe
import RdfModel.Props.C02DocDefs
import RdfModel.Proofs.C02DocRes
namespace RdfModel.Proofs.C18
open RdfModel RdfModel.Pipe RdfModel.BN RdfModel.C18

variable {β : Type}

/-! ### the label stage -/

/-- The label stage of the pipe, for any predicate `good` on labels that the UUID texts and the source labels
    satisfy: the provider is the pass-through of factory `j`, and the statements `ps` (over the blank nodes `β`
    of the dataset, embedded by `node`) come out labelled by one injective `σ` with good labels. -/
theorem pipe_labelled (good : List Nat → Prop) (U : Nat → Bytes) (hU : Function.Injective U) (hUok : ∀ k, good (U k))
    (s : State) (hI : C14.Inv s) (j : Nat) (hj : j < s.strfs.length)
    (node : β → Node) (hnode : Function.Injective node) (ps : List (Quad β))
    (hocc : ∀ b, b ∈ nodesOf ps)
    (hscope : ∀ b v, node b = some (.bnString j v) → good v ∧ ∀ k, v ≠ U k) :
    ∃ (p : ProvRef) (s1 : State) (σ : β → List Nat), Function.Injective σ ∧ (∀ b, good (σ b)) ∧
      pipeProvider U s (some (.strf j)) = (s1, some p) ∧
      (labelQuads U p s1 (ps.map (Quad.map node))).2 = some (ps.map (Quad.map σ)) ∧
      (∀ b v, node b = some (.bnString j v) → σ b = v) := by
  have hcol : ∀ v, some (.bnString j v) ∈ nodesOf (ps.map (Quad.map node)) → ∀ k, v ≠ U k := by
    intro v hv
    rw [nodesOf_map] at hv
    obtain ⟨b, _, hb⟩ := List.mem_map.mp hv
    exact (hscope b v hb).2
  obtain ⟨p, s1, σN, hprov, hlab, hinj, hown, hU'⟩ := pipe_labels U hU s hI j hj (ps.map (Quad.map node)) hcol
  have hmem : ∀ b, node b ∈ nodesOf (ps.map (Quad.map node)) := by
    intro b; rw [nodesOf_map]; exact List.mem_map.mpr ⟨b, hocc b, rfl⟩
  refine ⟨p, s1, σN ∘ node, ?_, ?_, hprov, ?_, ?_⟩
  rotate_left 3
  · intro b v hb
    simp only [Function.comp, hb, hown v]
  · intro a b hab
    exact hnode (hinj _ (hmem a) _ (hmem b) hab)
  · intro b
    rcases hU' _ (hmem b) with ⟨v, hv⟩ | ⟨k, hk⟩
    · simp only [Function.comp]
      rw [hv, hown v]
      exact (hscope b v hv).1
    · simp only [Function.comp]
      rw [hk]; exact hUok k
  · have hmap : (ps.map (Quad.map node)).map (Quad.map σN) = ps.map (Quad.map (σN ∘ node)) := by
      simp only [List.map_map]
      congr 1
      funext q
      obtain ⟨a, b, c, d⟩ := q
      cases a <;> cases b <;> cases c <;> cases d <;> simp [Quad.map, Term.map] <;>
        (rename_i g; cases g <;> simp)
    rw [hmap] at hlab
    exact hlab

/-! ### statements as triples -/

theorem toTriple_map (σ : β → List Nat) (q : Quad β) :
    toTriple (q.map σ) = (toTriple q).map (Desc.Triple.map σ) := by
  obtain ⟨s, p, o, g⟩ := q
  cases p <;> simp [toTriple, Quad.map, Term.map, Desc.Triple.map]

theorem toTriples_map (σ : β → List Nat) (qs : List (Quad β)) :
    toTriples (qs.map (Quad.map σ)) = (toTriples qs).map (fun ts => ts.map (Desc.Triple.map σ)) := by
  induction qs with
  | nil => rfl
  | cons q rest ih =>
    simp only [List.map_cons, toTriples, ih, toTriple_map]
    cases toTriple q <;> cases toTriples rest <;> simp [consOpt]

/-- the triples of a statement list whose predicates are IRIs, graph names dropped -/
def triplesOf (qs : List (Quad β)) : Option (List (Desc.Triple β)) := toTriples (qs.map quadAsTriple)

theorem toRJ_map (σ : β → List Nat) (q : Quad β) : toRJ (q.map σ) = (toRJ q).map σ := rfl

/-! ### the option plumbing -/

/-- Whatever the parameters: the command never sets `bufferedSort` nor a directive mode, `buffered` is either
    unset or true, and a base is exactly the encoder base. -/
theorem ttlOptions_shape (rdfa : List Prefix.Mapping) (raw : List (List Nat)) (base : List Nat)
    (cfg : TtlEnc.Config) (res : Bool) (h : ttlOptions rdfa raw base = some (cfg, res)) :
    cfg.baseMode = none ∧ cfg.prefixMode = none ∧ cfg.bufferedSort = none ∧
    (cfg.buffered = none ∨ cfg.buffered = some true) ∧ (cfg.base = none ∨ cfg.base = some base) := by
  unfold ttlOptions at h
  split at h
  · cases h
  · dsimp only at h
    split at h
    · cases h
    · simp only [Option.some.injEq, Prod.mk.injEq] at h
      obtain ⟨rfl, _⟩ := h
      refine ⟨rfl, rfl, rfl, ?_, ?_⟩
      · simp only; split <;> simp
      · simp only; split <;> simp

/-! ### Turtle: the identity labeller on relabelled triples = the labeller on the triples -/

open TtlEnc in
theorem tripleSection_map (T : Ttl.Tables) (cfg : Config) (pm : Prefix.PM) (σ : β → List Nat) (t : Desc.Triple β) :
    tripleSection (ctxOf T cfg pm id) (t.map σ) = tripleSection (ctxOf T cfg pm σ) t := by
  obtain ⟨s, p, o⟩ := t
  have hs : writeSubject (ctxOf T cfg pm id) (s.map σ) = writeSubject (ctxOf T cfg pm σ) s := by
    cases s <;> rfl
  have ho : writeObject (ctxOf T cfg pm id) (o.map σ) = writeObject (ctxOf T cfg pm σ) o := by
    cases o <;> rfl
  have hp : writePredicate (ctxOf T cfg pm (id : List Nat → List Nat)) p = writePredicate (ctxOf T cfg pm σ) p := rfl
  simp only [tripleSection, Desc.Triple.map, hs, ho, hp]

open TtlEnc in
theorem usedOfTriple_map (pm : Prefix.PM) (σ : β → List Nat) (t : Desc.Triple β) :
    usedOfTriple pm (t.map σ) = usedOfTriple pm t := by
  obtain ⟨s, p, o⟩ := t
  have hs : usedOfSubject pm (s.map σ) = usedOfSubject pm s := by cases s <;> rfl
  have ho : usedOfObject pm (o.map σ) = usedOfObject pm o := by cases o <;> rfl
  simp only [usedOfTriple, Desc.Triple.map, hs, ho]

open TtlEnc in
theorem mapRes_map {α γ δ : Type} (f : γ → Res δ) (g : α → γ) (l : List α) :
    mapRes f (l.map g) = mapRes (fun a => f (g a)) l := by
  induction l with
  | nil => rfl
  | cons a l ih => simp only [List.map_cons, mapRes, ih]

open TtlEnc in
theorem encodePlainWith_map (T : Ttl.Tables) (cfg : Config) (pm : Prefix.PM) (σ : β → List Nat)
    (ts : List (Desc.Triple β)) :
    encodePlainWith T cfg pm id (ts.map (Desc.Triple.map σ)) = encodePlainWith T cfg pm σ ts := by
  unfold encodePlainWith
  rw [mapRes_map]
  have h1 : (fun a => tripleSection (ctxOf T cfg pm id) (Desc.Triple.map σ a)) = tripleSection (ctxOf T cfg pm σ) := by
    funext t; exact tripleSection_map T cfg pm σ t
  have h2 : (ts.map (Desc.Triple.map σ)).flatMap (usedOfTriple pm) = ts.flatMap (usedOfTriple pm) := by
    rw [List.flatMap_map]
    congr 1
    funext t; exact usedOfTriple_map pm σ t
  rw [h1, h2]

/-- the hypotheses on triples of the C02 document theorems do not mention the labeller -/
theorem tripleOK_label (T : Ttl.Tables) (cfg : TtlEnc.Config) (pm : Prefix.PM) (l1 l2 : β → List Nat)
    (t : Desc.Triple β) (h : C02.TripleOK (TtlEnc.ctxOf T cfg pm l1) cfg.base t) :
    C02.TripleOK (TtlEnc.ctxOf T cfg pm l2) cfg.base t := by
  obtain ⟨s, p, o⟩ := t
  obtain ⟨hs, hp, ho⟩ := h
  refine ⟨?_, hp, ?_⟩
  · cases s <;> exact hs
  · cases o with
    | iri v => exact ho
    | bnode b => exact ho
    | lit lex dt lang =>
      obtain ⟨h1, h2⟩ := ho
      refine ⟨h1, ?_⟩
      cases lang <;> exact h2

/-- … nor do those on flat resources -/
theorem flatOK_label (T : Ttl.Tables) (cfg : TtlEnc.Config) (pm : Prefix.PM) (l1 l2 : β → List Nat)
    (r : Proofs.C02Doc.FlatRes β) (h : Proofs.C02Doc.FlatOK (TtlEnc.ctxOf T cfg pm l1) cfg.base r) :
    Proofs.C02Doc.FlatOK (TtlEnc.ctxOf T cfg pm l2) cfg.base r := by
  obtain ⟨su, pos⟩ := r
  refine ⟨h.ne, ?_, ?_⟩
  · have hs := h.s
    cases su <;> exact hs
  · intro po hpo
    obtain ⟨h1, h2⟩ := h.po po hpo
    obtain ⟨p, o⟩ := po
    refine ⟨h1, ?_⟩
    cases o with
    | iri v => exact h2
    | bnode b => exact h2
    | lit lex dt lang =>
      obtain ⟨h3, h4⟩ := h2
      refine ⟨h3, ?_⟩
      cases lang <;> exact h4

/-! ### RDF/JSON -/

theorem rj_addTriple_map (σ : β → List Nat) (st : RJ.State) (t : RJ.Triple β) :
    RJ.addTriple id st (t.map σ) = RJ.addTriple σ st t := by
  obtain ⟨s, p, o⟩ := t
  cases s <;> cases p <;> cases o <;> rfl

/-- on triples the encoder accepts, the pipe's `AddTriple` loop builds the buffer `addAll` builds -/
theorem rjAddAll_eq (σ : β → List Nat) (ts : List (RJ.Triple β))
    (hacc : ∀ st, ∀ t ∈ ts, (RJ.addTriple σ st t).isSome) :
    ∀ st, rjAddAll st (ts.map (RJ.Triple.map σ)) = some (RJ.addAllFrom σ st ts) := by
  induction ts with
  | nil => intro st; rfl
  | cons t rest ih =>
    intro st
    have h1 := hacc st t (List.mem_cons_self ..)
    simp only [List.map_cons, rjAddAll, rj_addTriple_map, RJ.addAllFrom]
    cases h : RJ.addTriple σ st t with
    | none => rw [h] at h1; cases h1
    | some st' =>
      simp only [Option.getD_some]
      exact ih (fun st t ht => hacc st t (List.mem_cons_of_mem _ ht)) st'

end RdfModel.Proofs.C18
