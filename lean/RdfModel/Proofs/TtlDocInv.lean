/-
  Statement layer of Turtle/TriG: the frame invariant behind C05 (no panic) and C06 (every emitted
  statement is well formed).
-/
import RdfModel.Proofs.TtlDocBasic
namespace RdfModel.TtlDoc
open RdfModel

/-- What is known about an evaluation context wherever it occurs. -/
structure XOk (trig : Bool) (x : Ectx) : Prop where
  subj : ∀ s, x.subj = some s → nodeShape s
  pred : ∀ p, x.pred = some p → isIRI p
  graph : ∀ g, x.graph = some g → trig = true ∧ nodeShape g

def isCOS : Cont → Bool
  | .collOpenSubj _ => true
  | _ => false

/-- Per scan function: what its evaluation context and captured values satisfy. -/
def ContOK (trig : Bool) (x : Ectx) : Cont → Prop
  | .object | .objectPName | .objListContinue | .collOpenObj => x.subj.isSome ∧ x.pred.isSome
  | .collContinue | .pol | .polContinue | .polRequired | .subjAnonOrBNPL | .triples2BNPL => x.subj.isSome
  | .statement | .atBaseIRI | .atBaseDot _ | .atPrefixNS | .atPrefixIRI _ | .atPrefixDot _ _
  | .sparqlBaseIRI | .sparqlPrefixNS | .sparqlPrefixIRI _ => x.subj = none
  | .wrappedGraph | .triplesBlock | .triplesBlockQuest | .triples => x.subj = none
  | .graphLabel | .graphAnonClose => x.subj = none ∧ trig = true
  | .parenTop bn | .parenBlock bn => x.subj = none ∧ nodeShape bn
  | .collOpenSubj o => x.subj = none ∧ nodeShape o
  | .tgE1 v => x.subj = none ∧ trig = true ∧ nodeShape v
  | .tgBracket bn => x.subj = none ∧ trig = true ∧ nodeShape bn
  | .triplesEnd | .subjIRIREF | .subjPName | .subjBNode | .bnplEnd | .wrappedGraphEnd => True

def FrameOK (trig : Bool) (f : Frame) : Prop := XOk trig f.x ∧ ContOK trig f.x f.k

/-- look-ahead: the next significant rune is not `)` -/
def LA (C : Cfg) (e : End) (inp : List Nat) : Prop := ∀ c r, skipWs C e false inp = .rune c r → c ≠ 0x29

structure OutOK (C : Cfg) (e : End) (o : Out) : Prop where
  push : ∀ f ∈ o.push, FrameOK C.trig f ∧ isCOS f.k = false
  cur : ∀ f, o.cur = some f → FrameOK C.trig f ∧ (isCOS f.k = true → o.emit = none ∧ LA C e o.inp)
  emit : ∀ s, o.emit = some s → WFStmt C.trig s

def ResOK (C : Cfg) (e : End) : FnRes → Prop
  | .ok o => OutOK C e o
  | .err _ => True
  | .panic => False

def ArgOK (C : Cfg) (e : End) : Arg → Prop
  | .fail => True
  | .rune c r => skipWs C e false (c :: r) = .rune c r

theorem skipWs_idem (C : Cfg) (e : End) : ∀ (b : Bool) (inp : List Nat) (c : Nat) (r : List Nat),
    skipWs C e b inp = .rune c r → skipWs C e false (c :: r) = .rune c r := by
  intro b inp
  induction inp generalizing b with
  | nil => intro c r h; cases b <;> simp [skipWs] at h; cases e <;> simp at h
  | cons a rest ih =>
    intro c r h
    cases b with
    | true =>
      unfold skipWs at h
      split at h <;> exact ih _ _ _ h
    | false =>
      unfold skipWs at h
      split at h
      · exact ih _ _ _ h
      · split at h
        · exact ih _ _ _ h
        · next h1 h2 =>
          injection h with hc hr; subst hc; subst hr
          unfold skipWs; simp [h1, h2]

theorem LA_nul (C : Cfg) (e : End) : LA C e [0] := by
  intro c r h
  unfold skipWs at h
  simp at h
  split at h
  · simp [skipWs] at h
  · injection h with h1 h2; omega

theorem LA_of_argOK (C : Cfg) (e : End) {c : Nat} {r : List Nat} (h : ArgOK C e (.rune c r)) (hc : c ≠ 0x29) :
    LA C e (c :: r) := by
  intro c' r' h'
  simp [ArgOK] at h
  rw [h] at h'
  injection h' with h1 h2
  omega

end RdfModel.TtlDoc

namespace RdfModel.TtlDoc

variable {C : Cfg} {e : End}

theorem XOk.setSubj {t : Bool} {x : Ectx} (h : XOk t x) {s : T} (hs : nodeShape s) :
    XOk t { x with subj := some s } :=
  ⟨fun s' h' => by simp at h'; subst h'; exact hs, h.pred, h.graph⟩

theorem XOk.setPred {t : Bool} {x : Ectx} (h : XOk t x) {p : T} (hp : isIRI p) :
    XOk t { x with pred := some p } :=
  ⟨h.subj, fun p' h' => by simp at h'; subst h'; exact hp, h.graph⟩

theorem XOk.clearPred {t : Bool} {x : Ectx} (h : XOk t x) {s : T} (hs : nodeShape s) :
    XOk t { x with subj := some s, pred := none } :=
  ⟨fun s' h' => by simp at h'; subst h'; exact hs, fun p' h' => by simp at h', h.graph⟩

theorem XOk.setGraph {t : Bool} {x : Ectx} (h : XOk t x) {g : T} (ht : t = true) (hg : nodeShape g) :
    XOk t { x with graph := some g } :=
  ⟨h.subj, h.pred, fun g' h' => by simp at h'; subst h'; exact ⟨ht, hg⟩⟩

theorem wf_mkStmt {t : Bool} {x : Ectx} (h : XOk t x) (hs : x.subj.isSome) (hp : x.pred.isSome) {o : T}
    (ho : litShape o) : WFStmt t (mkStmt x o) := by
  obtain ⟨s, hs'⟩ := Option.isSome_iff_exists.mp hs
  obtain ⟨p, hp'⟩ := Option.isSome_iff_exists.mp hp
  exact ⟨⟨s, hs', h.subj s hs'⟩, ⟨p, hp', h.pred p hp'⟩, ho, h.graph⟩

/-- outputs without a `collOpenSubj` frame -/
theorem outOK_simple {o : Out} (hpush : ∀ f ∈ o.push, FrameOK C.trig f ∧ isCOS f.k = false)
    (hcur : ∀ f, o.cur = some f → FrameOK C.trig f ∧ isCOS f.k = false)
    (hemit : ∀ s, o.emit = some s → WFStmt C.trig s) : OutOK C e o :=
  ⟨hpush, fun f hf => ⟨(hcur f hf).1, fun h => by rw [(hcur f hf).2] at h; cases h⟩, hemit⟩

def TermResOK : TermRes → Prop
  | .ok t _ _ => nodeShape t
  | .err _ => True
  | .panic => False

theorem iriIRIREF_np (hP : C.P.NoPanic) (env : Env) (inp : List Nat) : iriIRIREF C e env inp ≠ .panic := by
  unfold iriIRIREF
  have := hP.iriref e inp
  split <;> simp_all
  split <;> simp

theorem iriPName_np (hP : C.P.NoPanic) (env : Env) (inp : List Nat) : iriPName C e env inp ≠ .panic := by
  unfold iriPName
  have := hP.pname e inp
  split <;> simp_all
  split <;> simp

theorem termIRIREF_cases (hP : C.P.NoPanic) (env : Env) (inp : List Nat) :
    (∃ i r, termIRIREF C e env inp = .ok (.iri i) r env) ∨ (∃ k, termIRIREF C e env inp = .err k) := by
  unfold termIRIREF
  have := iriIRIREF_np (e := e) hP env inp
  cases h : iriIRIREF C e env inp with
  | ok i r => exact Or.inl ⟨i, r, rfl⟩
  | err k => exact Or.inr ⟨k, rfl⟩
  | panic => exact absurd h this

theorem termPName_cases (hP : C.P.NoPanic) (env : Env) (inp : List Nat) :
    (∃ i r, termPName C e env inp = .ok (.iri i) r env) ∨ (∃ k, termPName C e env inp = .err k) := by
  unfold termPName
  have := iriPName_np (e := e) hP env inp
  cases h : iriPName C e env inp with
  | ok i r => exact Or.inl ⟨i, r, rfl⟩
  | err k => exact Or.inr ⟨k, rfl⟩
  | panic => exact absurd h this

theorem termBNode_cases (hP : C.P.NoPanic) (env : Env) (inp : List Nat) :
    (∃ b r env', termBNode C e env inp = .ok (.bnode b) r env') ∨ (∃ k, termBNode C e env inp = .err k) := by
  unfold termBNode
  have := hP.bnode e inp
  cases h : C.P.bnode e inp with
  | panic => exact absurd h this
  | err k => exact Or.inr ⟨_, rfl⟩
  | ok l r =>
    left
    simp only [Env.labelled, Env.fresh]
    split <;> exact ⟨_, _, _, rfl⟩

theorem termIRIREF_ok (hP : C.P.NoPanic) (env : Env) (inp : List Nat) : TermResOK (termIRIREF C e env inp) := by
  rcases termIRIREF_cases (e := e) hP env inp with ⟨i, r, h⟩ | ⟨k, h⟩ <;> rw [h] <;> trivial

theorem termPName_ok (hP : C.P.NoPanic) (env : Env) (inp : List Nat) : TermResOK (termPName C e env inp) := by
  rcases termPName_cases (e := e) hP env inp with ⟨i, r, h⟩ | ⟨k, h⟩ <;> rw [h] <;> trivial

theorem termBNode_ok (hP : C.P.NoPanic) (env : Env) (inp : List Nat) : TermResOK (termBNode C e env inp) := by
  rcases termBNode_cases (e := e) hP env inp with ⟨i, r, env', h⟩ | ⟨k, h⟩ <;> rw [h] <;> trivial

theorem subjectTail_ok {x : Ectx} (hx : XOk C.trig x) {s : T} (hs : nodeShape s) (inp : List Nat) (env : Env) :
    ResOK C e (subjectTail x s inp env) := by
  unfold subjectTail
  refine outOK_simple ?_ ?_ ?_
  · intro f hf; simp at hf; subst hf; exact ⟨⟨hx.setSubj hs, rfl⟩, rfl⟩
  · intro f hf; simp at hf; subst hf; exact ⟨⟨hx.setSubj hs, rfl⟩, rfl⟩
  · intro s h; simp at h

theorem subjectOf_ok {x : Ectx} (hx : XOk C.trig x) {tr : TermRes} (h : TermResOK tr) : ResOK C e (subjectOf x tr) := by
  cases tr with
  | ok t r env => exact subjectTail_ok hx h r env
  | err k => trivial
  | panic => exact h

theorem labelOrSubject_ok {x : Ectx} (hx : XOk C.trig x) (hn : x.subj = none) (ht : C.trig = true) {tr : TermRes}
    (h : TermResOK tr) : ResOK C e (labelOrSubject x tr) := by
  cases tr with
  | ok t r env =>
    refine outOK_simple ?_ ?_ ?_
    · intro f hf; simp [labelOrSubject] at hf
    · intro f hf; simp [labelOrSubject] at hf; subst hf; exact ⟨⟨hx, hn, ht, h⟩, rfl⟩
    · intro s h; simp [labelOrSubject] at h
  | err k => trivial
  | panic => exact h

theorem kwFallback_ok (hP : C.P.NoPanic) {x : Ectx} (hx : XOk C.trig x) (hn : x.subj = none) (env : Env) (inp : List Nat) :
    ResOK C e (kwFallback C e x env inp) := by
  unfold kwFallback
  split
  · next ht => exact labelOrSubject_ok hx hn ht (termPName_ok hP env inp)
  · refine outOK_simple ?_ ?_ ?_
    · intro f hf; simp at hf; subst hf; exact ⟨⟨hx, trivial⟩, rfl⟩
    · intro f hf; simp at hf; subst hf; exact ⟨⟨hx, trivial⟩, rfl⟩
    · intro s h; simp at h

theorem stepWrappedGraph_ok {x : Ectx} (hx : XOk C.trig x) (hn : x.subj = none) (env : Env) (a : Arg) :
    ResOK C e (stepWrappedGraph e x env a) := by
  unfold stepWrappedGraph
  split
  · trivial
  · split
    · trivial
    · refine outOK_simple ?_ ?_ ?_
      · intro f hf; simp at hf; subst hf; exact ⟨⟨hx, trivial⟩, rfl⟩
      · intro f hf; simp at hf; subst hf; exact ⟨⟨hx, hn⟩, rfl⟩
      · intro s h; simp at h

theorem resOK_withSelf {x : Ectx} (hx : XOk C.trig x) (hn : x.subj = none) {r : FnRes} (h : ResOK C e r) :
    ResOK C e (withSelf x r) := by
  cases r with
  | ok o =>
    refine ⟨?_, h.cur, h.emit⟩
    intro f hf
    simp at hf
    rcases hf with rfl | hf
    · exact ⟨⟨hx, hn⟩, rfl⟩
    · exact h.push f hf
  | err k => trivial
  | panic => exact h

end RdfModel.TtlDoc

namespace RdfModel.TtlDoc

variable {C : Cfg} {e : End}

/-- a plain output: one optional `cur`, pushes, no emission; all frames satisfy `FrameOK` and none is
    a `collOpenSubj` -/
theorem outOK_noemit {cur : Option Frame} {push : List Frame} {inp : List Nat} {env : Env}
    (hpush : ∀ f ∈ push, FrameOK C.trig f ∧ isCOS f.k = false)
    (hcur : ∀ f, cur = some f → FrameOK C.trig f ∧ isCOS f.k = false) :
    ResOK C e (.ok { cur := cur, push := push, inp := inp, env := env }) :=
  outOK_simple hpush hcur (fun s h => by simp at h)

theorem stepStatementRune_ok (hP : C.P.NoPanic) {x : Ectx} (hx : XOk C.trig x) (hn : x.subj = none)
    (env : Env) (c : Nat) (rest : List Nat) : ResOK C e (stepStatementRune C e x env c rest) := by
  have hself : ∀ k, ContOK C.trig x k → isCOS k = false → ∀ inp env', ResOK C e (.ok { cur := some ⟨x, k⟩, inp := inp, env := env' }) := by
    intro k hk hc inp env'
    refine outOK_noemit ?_ ?_
    · intro f hf; simp at hf
    · intro f hf; simp at hf; subst hf; exact ⟨⟨hx, hk⟩, hc⟩
  have hsubj : ∀ k, ContOK C.trig x k → isCOS k = false → ∀ inp env',
      ResOK C e (.ok { cur := some ⟨x, k⟩, push := [⟨x, .triplesEnd⟩], inp := inp, env := env' }) := by
    intro k hk hc inp env'
    refine outOK_noemit ?_ ?_
    · intro f hf; simp at hf; subst hf; exact ⟨⟨hx, trivial⟩, rfl⟩
    · intro f hf; simp at hf; subst hf; exact ⟨⟨hx, hk⟩, hc⟩
  unfold stepStatementRune
  split
  · -- '@'
    split
    · trivial
    · split
      · split <;> first | trivial | exact hself _ hn rfl _ _
      · split
        · split <;> first | trivial | exact hself _ hn rfl _ _
        · trivial
  · split
    · -- BASE
      split
      · trivial
      · exact kwFallback_ok hP hx hn _ _
      · split
        · trivial
        · split
          · exact hself _ hn rfl _ _
          · split
            · exact kwFallback_ok hP hx hn _ _
            · exact hself _ hn rfl _ _
    · split
      · -- PREFIX
        split
        · trivial
        · exact kwFallback_ok hP hx hn _ _
        · split
          · trivial
          · split
            · exact kwFallback_ok hP hx hn _ _
            · exact hself _ hn rfl _ _
      · split
        · -- GRAPH
          next hg =>
          split
          · trivial
          · exact kwFallback_ok hP hx hn _ _
          · split
            · trivial
            · split
              · exact kwFallback_ok hP hx hn _ _
              · exact hself _ ⟨hn, hg.1⟩ rfl _ _
        · split
          · exact stepWrappedGraph_ok hx hn _ _
          · split
            · split
              · next ht => exact labelOrSubject_ok hx hn ht (termIRIREF_ok hP _ _)
              · exact hsubj _ trivial rfl _ _
            · split
              · split
                · next ht => exact labelOrSubject_ok hx hn ht (termBNode_ok hP _ _)
                · exact hsubj _ trivial rfl _ _
              · split
                · -- '['
                  simp only [Env.fresh]
                  split
                  · next ht => exact hself _ ⟨hn, ht, trivial⟩ rfl _ _
                  · refine outOK_noemit ?_ ?_
                    · intro f hf; simp at hf
                    · intro f hf; simp at hf; subst hf
                      exact ⟨⟨hx.setSubj trivial, rfl⟩, rfl⟩
                · split
                  · -- '('
                    simp only [Env.fresh]
                    exact hself _ ⟨hn, trivial⟩ rfl _ _
                  · split
                    · split
                      · next ht => exact labelOrSubject_ok hx hn ht (termPName_ok hP _ _)
                      · exact hsubj _ trivial rfl _ _
                    · trivial

theorem stepCollection_ok {x : Ectx} (hx : XOk C.trig x) (env : Env) (c : Nat) (rest : List Nat) {o : T}
    (ho : nodeShape o) (h : (x.subj.isSome ∧ x.pred.isSome) ∨ (x.subj = none ∧ c ≠ 0x29)) :
    ResOK C e (stepCollection x env c rest o) := by
  have hnx : XOk C.trig { x with subj := some o, pred := some (.iri rdfFirst) } :=
    ⟨fun s' h' => by simp at h'; subst h'; exact ho, fun p' h' => by simp at h'; subst h'; trivial, hx.graph⟩
  unfold stepCollection
  split
  · next hc =>
    rcases h with ⟨hs, hp⟩ | ⟨_, hne⟩
    · refine outOK_simple ?_ ?_ ?_
      · intro f hf; simp at hf
      · intro f hf; simp at hf
      · intro s h; simp at h; subst h; exact wf_mkStmt hx hs hp trivial
    · exact absurd hc hne
  · split
    · refine outOK_noemit ?_ ?_
      · intro f hf; simp at hf; subst hf; exact ⟨⟨hnx, rfl⟩, rfl⟩
      · intro f hf; simp at hf; subst hf; exact ⟨⟨hnx, rfl, rfl⟩, rfl⟩
    · next s hs =>
      rcases h with ⟨hs', hp⟩ | ⟨hn, _⟩
      · refine outOK_simple ?_ ?_ ?_
        · intro f hf; simp at hf; subst hf; exact ⟨⟨hnx, rfl⟩, rfl⟩
        · intro f hf; simp at hf; subst hf; exact ⟨⟨hnx, rfl, rfl⟩, rfl⟩
        · intro s h; simp at h; subst h
          refine wf_mkStmt hx hs' hp ?_
          cases o <;> trivial
      · rw [hn] at hs; cases hs

theorem stepPOL_ok (hP : C.P.NoPanic) {x : Ectx} (hx : XOk C.trig x) (hs : x.subj.isSome) (env : Env) (c : Nat)
    (rest : List Nat) : ResOK C e (stepPOL C e x env c rest) := by
  have hgo : ∀ (p : T) (inp : List Nat) (env' : Env), isIRI p →
      ResOK C e (.ok { cur := some ⟨{ x with pred := some p }, .object⟩,
                       push := [⟨{ x with pred := some p }, .objListContinue⟩], inp := inp, env := env' }) := by
    intro p inp env' hp
    refine outOK_noemit ?_ ?_
    · intro f hf; simp at hf; subst hf; exact ⟨⟨hx.setPred hp, hs, rfl⟩, rfl⟩
    · intro f hf; simp at hf; subst hf; exact ⟨⟨hx.setPred hp, hs, rfl⟩, rfl⟩
  have hvia : ResOK C e (match termPName C e env (c :: rest) with
      | .panic => .panic
      | .err k => .err k
      | .ok p r env' => .ok { cur := some ⟨{ x with pred := some p }, .object⟩,
                       push := [⟨{ x with pred := some p }, .objListContinue⟩], inp := r, env := env' }) := by
    rcases termPName_cases (e := e) hP env (c :: rest) with ⟨i, r, h⟩ | ⟨k, h⟩ <;> rw [h]
    · exact hgo _ _ _ trivial
    · trivial
  unfold stepPOL
  simp only []
  split
  · rcases termIRIREF_cases (e := e) hP env (c :: rest) with ⟨i, r, h⟩ | ⟨k, h⟩ <;> rw [h]
    · exact hgo _ _ _ trivial
    · trivial
  · split
    · split
      · trivial
      · split
        · exact hvia
        · exact hgo _ _ _ trivial
    · split
      · exact hvia
      · refine outOK_noemit ?_ ?_ <;> intro f hf <;> simp at hf

end RdfModel.TtlDoc
