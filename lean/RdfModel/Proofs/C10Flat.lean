/-
  C10 helper lemmas, part 2: the fallback writer `writeFlat` (expanded form, no context, one node object
  per quad) denotes the dataset itself, blank nodes relabelled by `name`.
-/
import RdfModel.Spec.JsonLdWriter
import RdfModel.Props.C10Defs
namespace RdfModel.Proofs.C10
open RdfModel RdfModel.Desc RdfModel.JL RdfModel.C10

/-! ### strings -/

theorem splitColon_eq {v p s : Str} (h : splitColon v = some (p, s)) : v = p ++ cColon :: s := by
  induction v generalizing p with
  | nil => simp [splitColon] at h
  | cons c cs ih =>
    unfold splitColon at h
    split at h
    · next hc => simp only [Option.some.injEq, Prod.mk.injEq] at h; obtain ⟨rfl, rfl⟩ := h; simp [hc]
    · cases hs : splitColon cs with
      | none => simp [hs] at h
      | some r =>
        obtain ⟨p', s'⟩ := r
        simp only [hs, Option.some.injEq, Prod.mk.injEq] at h
        obtain ⟨rfl, rfl⟩ := h
        simp [ih hs]

theorem isScheme_head {p : Str} (h : isScheme p = true) : ∃ a rest, p = a :: rest ∧ isAlpha a = true := by
  cases p with
  | nil => simp [isScheme] at h
  | cons a rest => simp only [isScheme, Bool.and_eq_true] at h; exact ⟨a, rest, rfl, h.1⟩

/-- what `absIri` gives: the IRI starts with a letter and has a colon after it -/
theorem absIri_shape {v : Str} (h : absIri v = true) :
    ∃ a rest s, v = a :: (rest ++ cColon :: s) ∧ isAlpha a = true ∧ splitColon v = some (a :: rest, s) ∧
      isScheme (a :: rest) = true := by
  unfold absIri at h
  cases hs : splitColon v with
  | none => simp [hs] at h
  | some r =>
    obtain ⟨p, s⟩ := r
    simp only [hs, Bool.and_eq_true] at h
    obtain ⟨a, rest, rfl, ha⟩ := isScheme_head h.1.1
    exact ⟨a, rest, s, by simpa using splitColon_eq hs, ha, rfl, h.1.1⟩

theorem alpha_ne_at {a : Nat} (h : isAlpha a = true) : a ≠ cAt := by
  intro e; subst e; simp [isAlpha, cAt] at h

theorem alpha_ne_underscore {a : Nat} (h : isAlpha a = true) : a ≠ cUnderscore := by
  intro e; subst e; simp [isAlpha, cUnderscore] at h

theorem keywords_head : ∀ k ∈ keywords, k.head? = some cAt := by decide

theorem isKeyword_alpha {a : Nat} {r : Str} (h : isAlpha a = true) : isKeyword (a :: r) = false := by
  unfold isKeyword
  rw [Bool.eq_false_iff]
  intro hc
  have := keywords_head _ (List.contains_iff_mem.1 hc)
  simp only [List.head?_cons, Option.some.injEq] at this
  exact alpha_ne_at h this

theorem isKeywordForm_alpha {a : Nat} {r : Str} (h : isAlpha a = true) : isKeywordForm (a :: r) = false := by
  cases r with
  | nil => rfl
  | cons d rest =>
    simp only [isKeywordForm, Bool.and_eq_false_imp, Bool.and_eq_true, beq_iff_eq]
    intro e; exact absurd e.1 (alpha_ne_at h)

/-! ### IRI expansion under a context without term definitions -/

theorem expandIri_abs (c : Ctx) (hc : c.terms = []) (vocab docRel : Bool) {v : Str} (h : absIri v = true) :
    expandIri c vocab docRel v = .iri v := by
  obtain ⟨a, rest, s, rfl, ha, hsp, hsch⟩ := absIri_shape h
  have hterm : ∀ k, c.term? k = none := by intro k; simp [Ctx.term?, hc]
  have hcol : colonAfterFirst (a :: (rest ++ cColon :: s)) = true := by
    simp [colonAfterFirst]
  unfold expandIri
  rw [isKeyword_alpha ha, isKeywordForm_alpha ha]
  simp only [Bool.false_eq_true, if_false, hterm, hcol, if_true, hsp]
  have : (a :: rest) ≠ [cUnderscore] := by
    intro e; simp only [List.cons.injEq] at e; exact alpha_ne_underscore ha e.1
  simp only [this, if_false, hsch, if_true]
  split <;> rfl

theorem expandIri_bnode (c : Ctx) (hc : c.terms = []) (vocab docRel : Bool) (l : Str) :
    expandIri c vocab docRel ([cUnderscore, cColon] ++ l) = .bnode l := by
  have hterm : ∀ k, c.term? k = none := by intro k; simp [Ctx.term?, hc]
  have hk : isKeyword (cUnderscore :: cColon :: l) = false := by
    unfold isKeyword
    rw [Bool.eq_false_iff]
    intro h
    have := keywords_head _ (List.contains_iff_mem.1 h)
    simp [cUnderscore, cAt] at this
  have hf : isKeywordForm (cUnderscore :: cColon :: l) = false := by
    simp [isKeywordForm, cUnderscore, cAt]
  have hcol : colonAfterFirst (cUnderscore :: cColon :: l) = true := by simp [colonAfterFirst]
  have hsp : splitColon (cUnderscore :: cColon :: l) = some ([cUnderscore], l) := by
    simp [splitColon, cUnderscore, cColon]
  show expandIri c vocab docRel (cUnderscore :: cColon :: l) = .bnode l
  unfold expandIri
  simp [hk, hf, hterm, hcol, hsp]

end RdfModel.Proofs.C10
