package main

// Encoder stage only: twists applied to a generated (dataset, configuration) pair so that every
// hypothesis of theorem encoder_roundtrip_natural_partial (wf, nonative, lbl, ctx, loc, struct) is drawn
// on both sides. All random choices are made here, after the decoder stages, so that the case streams of
// those stages do not depend on this file. Each twist records a feature "twist:<name>" (histogram
// enc-ds:twist:<name>).

import (
	"strings"

	"verifharness/vh"
)

// dirOf cuts an IRI after the last '/' of its path (query and fragment removed first).
func dirOf(b string) string {
	if i := strings.IndexAny(b, "?#"); i >= 0 {
		b = b[:i]
	}
	if i := strings.LastIndexByte(b, '/'); i >= 0 {
		return b[:i+1]
	}
	return b
}

func (h *harness) twistEncCase(ds *dataset, cfg *encCfg) {
	r := h.r
	if !r.Chance(35) {
		return
	}
	n := 1
	if r.Chance(20) {
		n = 2
	}
	for k := 0; k < n; k++ {
		h.twistOnce(ds, cfg)
	}
}

func (h *harness) twistOnce(ds *dataset, cfg *encCfg) {
	r := h.r
	preds, others, dts := datasetIRIs(ds.quads)
	all := append(append(append([]string{}, preds...), others...), dts...)
	add := func(s, p, o vh.GTerm) { ds.quads = append(ds.quads, vh.GQuad{S: s, P: p, O: o}) }
	pred := func() vh.GTerm {
		if len(preds) > 0 && r.Chance(70) {
			return iriT(vh.Pick(r, preds))
		}
		return iriT("http://e.org/p")
	}
	node := func() vh.GTerm {
		if len(others) > 0 && r.Chance(70) {
			return iriT(vh.Pick(r, others))
		}
		return iriT("http://e.org/s")
	}
	obj := func() vh.GTerm {
		if r.Chance(40) {
			ds.feat["literal"] = true
			return litT("x", vh.XSDString)
		}
		return node()
	}
	switch r.Intn(8) {
	case 0: // ctx: a prefix name that starts with '@' and is not of keyword form (a term for /repo, refused by the fragment)
		v := "http://e.org/v/p"
		if len(all) > 0 && r.Chance(75) {
			v = vh.Pick(r, all)
		} else {
			add(node(), iriT(v), obj())
		}
		name := vh.Pick(r, []string{"@1", "@a1", "@A-b", "@9", "@a.b", "@é"})
		cfg.prefixes = append([][2]string{{name, nsOf(v)}}, cfg.prefixes...)
		ds.feat["twist:at-prefix"] = true
	case 1: // ctx: the namespace of one prefix has another configured prefix as its scheme
		sch, sub := "urn", "urn:a:"
		switch r.Intn(4) {
		case 0:
			sch, sub = "tag", "tag:e.org,2020:"
		case 1:
			sch, sub = "urn", "urn:ex:"
		case 2:
			sch, sub = "http", "http://e.org/w/" // "//" follows: no clash
		}
		ns := "http://e.org/u/"
		if len(all) > 0 && r.Chance(50) {
			ns = nsOf(vh.Pick(r, all))
		}
		ps := [][2]string{{sch, ns}, {vh.Pick(r, []string{"a", "ex", "s"}), sub}}
		if r.Bool() {
			ps[0], ps[1] = ps[1], ps[0]
		}
		cfg.prefixes = append(ps, cfg.prefixes...)
		// IRIs under both namespaces
		switch r.Intn(3) {
		case 0:
			add(iriT(sub+"s"), iriT(ns+"p"), iriT(sub+"b"))
		case 1:
			add(node(), iriT(ns+"p"), iriT(sub+"b"))
		default:
			add(iriT(ns+"s"), iriT(sub+"p"), obj())
		}
		ds.feat["twist:ns-scheme-is-prefix"] = true
	case 2: // ctx: a base that is not an absolute IRI
		cfg.base = vh.Pick(r, []string{"doc/", "doc", "/a/b", "//e.org/x", "?q=1", "#f", "../x", "1a:b"})
		if r.Chance(30) {
			add(iriT(cfg.base+"s"), pred(), obj()) // an ill-formed IRI the relative base could shorten
		}
		ds.feat["twist:relative-base"] = true
	case 3, 4: // loc (relOK): subject / object IRIs whose reference relative to the base carries a colon
		b := cfg.base
		if b == "" || !goodIRI(b) || strings.ContainsAny(b, "#") || r.Chance(30) {
			b = vh.Pick(r, []string{"http://e.org/doc", "http://e.org/dir/doc", "http://e.com/dir/sub/doc.jsonld", "https://e.com/a/b/c?k=v", "urn:ex:doc"})
		}
		cfg.base = b
		noq := b
		if i := strings.IndexByte(noq, '?'); i >= 0 {
			noq = noq[:i]
		}
		for i, m := 0, 1+r.Intn(3); i < m; i++ {
			var v string
			switch r.Intn(10) {
			case 0:
				v = b + "#a://b"
			case 1:
				v = b + "#p:x"
			case 2:
				v = noq + "?q=a:b"
			case 3:
				v = dirOf(b) + "x:y/z"
			case 4:
				v = b + "#_:x"
			case 5:
				v = dirOf(b) + "_:x"
			case 6:
				v = noq + "?a://b"
			case 7:
				v = dirOf(b) + "sub/a:b"
			case 8:
				v = b + "#" + vh.Pick(r, prefixNames) + ":x" // a fragment that looks like a compact IRI of a configured prefix name
			default:
				v = dirOf(b) + "a//b:c"
			}
			if !goodIRI(v) {
				continue
			}
			if r.Bool() {
				add(iriT(v), pred(), obj())
			} else {
				add(node(), pred(), iriT(v))
			}
		}
		if r.Chance(35) {
			// a prefix whose name begins like such a reference: "#p" / "?q=a" are terms a reader accepts
			name := vh.Pick(r, []string{"#p", "#a", "?q=a", "#_", "?a"})
			ns := "http://e.org/v/"
			if len(preds) > 0 {
				ns = nsOf(vh.Pick(r, preds))
			}
			cfg.prefixes = append(cfg.prefixes, [2]string{name, ns})
		}
		ds.feat["twist:colon-in-relative-reference"] = true
	case 5: // loc (compactOK through the UTF-8 conversions): non-ASCII namespaces, IRIs and bases
		ns := vh.Pick(r, []string{"http://e.org/é/", "http://é.org/ns#", "urn:ü:", "http://e.org/日本/", "http://e.org/a/é#", "http://e.org/😀/"})
		loc := func() string { return vh.Pick(r, []string{"s", "ü", "a/é", "", "x-y", "日本", "é:b"}) }
		add(iriT(ns+loc()), iriT(ns+"p"), iriT(ns+loc()))
		if r.Bool() {
			add(iriT(ns+loc()), pred(), obj())
		}
		if r.Chance(70) {
			cfg.prefixes = append([][2]string{{vh.Pick(r, []string{"eu", "é", "x", "ns"}), ns}}, cfg.prefixes...)
		}
		if r.Chance(40) {
			cfg.base = ns + "doc"
		}
		ds.feat["twist:non-ascii"] = true
	case 6: // lbl: the labelling answers "" for one blank node
		var bns []int
		seen := map[int]bool{}
		for _, q := range ds.quads {
			for _, t := range []vh.GTerm{q.S, q.O} {
				if t.Kind == vh.KBNode && !seen[t.BNode] {
					seen[t.BNode] = true
					bns = append(bns, t.BNode)
				}
			}
			if q.G != nil && q.G.Kind == vh.KBNode && !seen[q.G.BNode] {
				seen[q.G.BNode] = true
				bns = append(bns, q.G.BNode)
			}
		}
		if len(bns) == 0 {
			add(bnT(-1), pred(), obj())
			if r.Bool() {
				add(node(), pred(), bnT(-1))
			}
		} else {
			k := vh.Pick(r, bns)
			for i := range ds.quads {
				q := &ds.quads[i]
				if q.S.Kind == vh.KBNode && q.S.BNode == k {
					q.S.BNode = -1
				}
				if q.O.Kind == vh.KBNode && q.O.BNode == k {
					q.O.BNode = -1
				}
				if q.G != nil && q.G.Kind == vh.KBNode && q.G.BNode == k {
					g := *q.G
					g.BNode = -1
					q.G = &g
				}
			}
		}
		ds.feat["twist:empty-bnode-label"] = true
	default: // wf: an IRI without scheme or with a forbidden character, an ill-formed language tag
		switch r.Intn(3) {
		case 0:
			add(iriT(vh.Pick(r, []string{"doc/s", "//e.org/x", "s", "#f", "http://e.org/a b", "1a:b", "http://e.org/<x>"})), pred(), obj())
		case 1:
			add(node(), pred(), iriT(vh.Pick(r, []string{"doc/o", "/o", "", "?q", "http://e.org/a\"b", "_x:y"})))
		default:
			add(node(), pred(), vh.GTerm{Kind: vh.KLit, Lex: "x", DT: vh.RDFLangString, Lang: vh.Pick(r, []string{"en_US", "-en", "en-", "e n", "1x"})})
			ds.feat["literal"] = true
		}
		ds.feat["twist:ill-formed-term"] = true
	}
}
