/-
  Proofs for Props/C16TtlDocO.lean, part 1: ERASURE.  Forgetting byte sizes, bookkeeping state,
  ranges and error offsets of the instrumented statement machine (`Model.TurtleDocOffsets`) gives the
  base statement machine (`Model.TurtleDoc`), function by function.  Core tactics only.
-/
import RdfModel.Model.TurtleDocOffsets
import RdfModel.Proofs.C16TtlErase
namespace RdfModel.Proofs.C16TtlDocO
open RdfModel RdfModel.TW RdfModel.NQO RdfModel.TtlDoc RdfModel.TtlDocO RdfModel.Proofs.C16Ttl

@[simp] theorem runes_nil : runes ([] : List RP) = [] := rfl
@[simp] theorem runes_cons (c : RP) (r : List RP) : runes (c :: r) = c.1 :: runes r := rfl

theorem matchKwO_erase : ∀ (ks : List (Nat × Nat)) (inp acc : List RP),
    (matchKwO ks inp acc).erase = matchKw ks (runes inp)
  | [], inp, acc => by simp [matchKwO, matchKw, KwO.erase]
  | (u, l) :: ks, [], acc => by simp [matchKwO, matchKw, KwO.erase]
  | (u, l) :: ks, c :: rest, acc => by
    simp only [matchKwO, matchKw, runes_cons]
    split
    · exact matchKwO_erase ks rest (c :: acc)
    · rfl

/-- `Ttl.matchKeyword` in terms of `KwO`. -/
def kwOpt : KwO → Option (Option (List Nat))
  | .ok _ rest => some (some (runes rest))
  | .mismatch _ _ => some none
  | .eoi _ => none

theorem matchKeywordO_erase (e : End) : ∀ (ks : List Nat) (inp acc : List RP),
    kwOpt (matchKeywordO ks inp acc) = Ttl.matchKeyword e ks (runes inp)
  | [], inp, acc => by simp [matchKeywordO, Ttl.matchKeyword, kwOpt]
  | k :: ks, [], acc => by simp [matchKeywordO, Ttl.matchKeyword, kwOpt]
  | k :: ks, c :: rest, acc => by
    simp only [matchKeywordO, Ttl.matchKeyword, runes_cons]
    split
    · exact matchKeywordO_erase e ks rest (c :: acc)
    · rfl

theorem scanBooleanO_erase (e : End) (inp : List RP) :
    (scanBooleanO inp).erase e = Ttl.scanBoolean e (runes inp) := by
  cases inp with
  | nil => rfl
  | cons c rest =>
    simp only [scanBooleanO, Ttl.scanBoolean, runes_cons]
    split
    · rw [← matchKeywordO_erase e (asc "rue") rest []]
      cases matchKeywordO (asc "rue") rest [] <;> rfl
    · split
      · rw [← matchKeywordO_erase e (asc "alse") rest []]
        cases matchKeywordO (asc "alse") rest [] <;> rfl
      · rfl

/-! ### tokens → terms -/

theorem iriIRIREFO_erase (C : CfgO) (e : End) (env : Env) (s : S) (inp : List RP) :
    (iriIRIREFO C e env s inp).erase = iriIRIREF C.base e env (runes inp) := by
  unfold iriIRIREFO iriIRIREF
  show _ = match Ttl.produceIRIREF C.T e (runes inp) with
    | .panic => IriRes.panic
    | .err c => .err (ofTok c)
    | .ok v rest => match resolveIRI C.base env v with
      | none => .err .resolve
      | some i => .ok i rest
  rw [← produceIRIREF_erase C.T e s inp]
  cases TtlO.produceIRIREF C.T e s inp with
  | panic => rfl
  | err c o => rfl
  | ok v rg s' rest =>
    simp only [TtlO.RO.erase]
    cases resolveIRI C.base env v <;> rfl

theorem iriPNameO_erase (C : CfgO) (e : End) (env : Env) (s : S) (inp : List RP) :
    (iriPNameO C e env s inp).erase = iriPName C.base e env (runes inp) := by
  unfold iriPNameO iriPName
  show _ = match Ttl.producePrefixedName C.T e (runes inp) with
    | .panic => IriRes.panic
    | .err c => .err (ofTok c)
    | .ok (ns, loc) rest => match env.expand ns loc with
      | none => .err .pfx
      | some i => .ok i rest
  rw [← producePrefixedName_erase C.T e C.trig s inp]
  cases TtlO.producePrefixedName C.T e C.trig s inp with
  | panic => rfl
  | err c o => rfl
  | ok v rg s' rest =>
    obtain ⟨ns, loc⟩ := v
    simp only [TtlO.RO.erase]
    cases env.expand ns loc <;> rfl

theorem toTerm_erase (env : Env) (r : IriResO) : (r.toTerm env).erase = (r.erase).toTerm env := by
  cases r <;> rfl

theorem termIRIREFO_erase (C : CfgO) (e : End) (env : Env) (s : S) (inp : List RP) :
    (termIRIREFO C e env s inp).erase = termIRIREF C.base e env (runes inp) := by
  unfold termIRIREFO termIRIREF; rw [toTerm_erase, iriIRIREFO_erase]

theorem termPNameO_erase (C : CfgO) (e : End) (env : Env) (s : S) (inp : List RP) :
    (termPNameO C e env s inp).erase = termPName C.base e env (runes inp) := by
  unfold termPNameO termPName; rw [toTerm_erase, iriPNameO_erase]

theorem termBNodeO_erase (C : CfgO) (e : End) (env : Env) (s : S) (inp : List RP) :
    (termBNodeO C e env s inp).erase = termBNode C.base e env (runes inp) := by
  unfold termBNodeO termBNode
  show _ = match Ttl.produceBlankNode C.T e (runes inp) with
    | .panic => TermRes.panic
    | .err c => .err (ofTok c)
    | .ok l rest => .ok (env.labelled l).1 rest (env.labelled l).2
  rw [← produceBlankNode_erase C.T e false s inp]
  cases TtlO.produceBlankNode C.T e false s inp <;> rfl

/-! ### scan functions -/

theorem subjectTailO_erase (x : EctxO) (t : T) (rg : Rg) (s : S) (inp : List RP) (env : Env) :
    (subjectTailO x t rg s inp env).erase = subjectTail x.x t (runes inp) env := rfl

theorem labelOrSubjectO_erase (x : EctxO) (r : TermResO) :
    (labelOrSubjectO x r).erase = labelOrSubject x.x r.erase := by cases r <;> rfl

theorem subjectOfO_erase (x : EctxO) (r : TermResO) :
    (subjectOfO x r).erase = subjectOf x.x r.erase := by cases r <;> rfl

theorem kwFallbackO_erase (C : CfgO) (e : End) (x : EctxO) (env : Env) (s : S) (inp : List RP) :
    (kwFallbackO C e x env s inp).erase = kwFallback C.base e x.x env (runes inp) := by
  unfold kwFallbackO kwFallback
  show _ = if C.trig = true then _ else _
  split
  · rw [labelOrSubjectO_erase, termPNameO_erase]
  · rfl

theorem withSelfO_erase (x : EctxO) (r : FnResO) : (withSelfO x r).erase = withSelf x.x r.erase := by
  cases r <;> rfl

theorem stepWrappedGraphO_erase (dbl : Bool) (e : End) (x : EctxO) (env : Env) (s : S) (a : ArgO) :
    (stepWrappedGraphO dbl e x env s a).erase = stepWrappedGraph e x.x env a.erase := by
  cases a with
  | fail => rfl
  | rune c rest =>
    simp only [stepWrappedGraphO, stepWrappedGraph, ArgO.erase]
    split <;> rfl

theorem stepAtDirectiveO_erase (e : End) (x : EctxO) (env : Env) (s : S) (c0 : RP) (rest : List RP) :
    (stepAtDirectiveO e x env s c0 rest).erase = stepAtDirective e x.x env (runes rest) := by
  cases rest with
  | nil => rfl
  | cons r1 rest1 =>
    simp only [stepAtDirectiveO, stepAtDirective, runes_cons]
    split
    · rw [← matchKwO_erase (kwExact "ase") rest1 []]
      cases matchKwO (kwExact "ase") rest1 [] <;> rfl
    · split
      · rw [← matchKwO_erase (kwExact "refix") rest1 []]
        cases matchKwO (kwExact "refix") rest1 [] <;> rfl
      · rfl

theorem stepKwBaseO_erase (C : CfgO) (e : End) (x : EctxO) (env : Env) (s : S) (c : RP) (rest : List RP) :
    (stepKwBaseO C e x env s c rest).erase = stepKwBase C.base e x.x env c.1 (runes rest) := by
  simp only [stepKwBaseO, stepKwBase]
  rw [← matchKwO_erase (kwCI "ASE") rest []]
  cases matchKwO (kwCI "ASE") rest [] with
  | eoi rd => rfl
  | mismatch rd c' => simp only [KwO.erase]; rw [kwFallbackO_erase]; rfl
  | ok rd r =>
    simp only [KwO.erase]
    cases r with
    | nil => rfl
    | cons r4 rest4 =>
      simp only [runes_cons]
      split
      · rfl
      · show _ = if (!C.isSpace r4.1) = true then _ else _
        split
        · rw [kwFallbackO_erase]; rfl
        · rfl

theorem stepKwSpaceO_erase (C : CfgO) (e : End) (x : EctxO) (env : Env) (s : S) (kw : List (Nat × Nat)) (k : Cont)
    (c : RP) (rest : List RP) :
    (stepKwSpaceO C e x env s kw k c rest).erase = stepKwSpace C.base e x.x env kw k c.1 (runes rest) := by
  simp only [stepKwSpaceO, stepKwSpace]
  rw [← matchKwO_erase kw rest []]
  cases matchKwO kw rest [] with
  | eoi rd => rfl
  | mismatch rd c' => simp only [KwO.erase]; rw [kwFallbackO_erase]; rfl
  | ok rd r =>
    simp only [KwO.erase]
    cases r with
    | nil => rfl
    | cons r6 rest6 =>
      simp only [runes_cons]
      show _ = if (!C.isSpace r6.1) = true then _ else _
      split
      · rw [kwFallbackO_erase]; rfl
      · rfl

theorem stepSubjectStartO_erase (C : CfgO) (e : End) (x : EctxO) (env : Env) (s : S) (c : RP) (rest : List RP) :
    (stepSubjectStartO C e x env s c rest).erase = stepSubjectStart C.base e x.x env c.1 (runes rest) := by
  simp only [stepSubjectStartO, stepSubjectStart]
  show _ = if c.1 = 0x3c then (if C.trig = true then _ else _) else if c.1 = 0x5f then (if C.trig = true then _ else _)
    else if c.1 = 0x5b then (if C.trig = true then _ else _) else if c.1 = 0x28 then _
    else if c.1 = 0x3a ∨ C.pnBase c.1 = true then (if C.trig = true then _ else _) else _
  split
  · split
    · rw [labelOrSubjectO_erase, termIRIREFO_erase]; rfl
    · rfl
  · split
    · split
      · rw [labelOrSubjectO_erase, termBNodeO_erase]; rfl
      · rfl
    · split
      · split <;> rfl
      · split
        · rfl
        · split
          · split
            · rw [labelOrSubjectO_erase, termPNameO_erase]; rfl
            · rfl
          · rfl

theorem stepStatementRuneO_erase (C : CfgO) (e : End) (x : EctxO) (env : Env) (s : S) (c : RP) (rest : List RP) :
    (stepStatementRuneO C e x env s c rest).erase = stepStatementRune C.base e x.x env c.1 (runes rest) := by
  simp only [stepStatementRuneO, stepStatementRune]
  show _ = if c.1 = 0x40 then _ else if c.1 = 0x42 ∨ c.1 = 0x62 then _ else if c.1 = 0x50 ∨ c.1 = 0x70 then _
    else if C.trig = true ∧ (c.1 = 0x47 ∨ c.1 = 0x67) then _ else if C.trig = true ∧ c.1 = 0x7b then _ else _
  split
  · exact stepAtDirectiveO_erase e x env s c rest
  · split
    · exact stepKwBaseO_erase C e x env s c rest
    · split
      · exact stepKwSpaceO_erase C e x env s _ _ c rest
      · split
        · exact stepKwSpaceO_erase C e x env s _ _ c rest
        · split
          · exact stepWrappedGraphO_erase C.dbl e x env s (.rune c rest)
          · exact stepSubjectStartO_erase C e x env s c rest

theorem stepCollectionO_erase (x : EctxO) (env : Env) (s : S) (c : RP) (rest : List RP) (o : T) (org : Rg) :
    (stepCollectionO x env s c rest o org).erase = stepCollection x.x env c.1 (runes rest) o := by
  simp only [stepCollectionO, stepCollection]
  split
  · rfl
  · cases h : x.x.subj <;> rfl

theorem polGoO_erase (x : EctxO) (p : T) (prg : Rg) (s : S) (inp : List RP) (env : Env) :
    (polGoO x p prg s inp env).erase = polGo x.x p (runes inp) env := rfl

theorem polOfTermO_erase (x : EctxO) (r : TermResO) : (polOfTermO x r).erase = polOfTerm x.x r.erase := by
  cases r <;> rfl

theorem stepPOLO_erase (C : CfgO) (e : End) (x : EctxO) (env : Env) (s : S) (c : RP) (rest : List RP) :
    (stepPOLO C e x env s c rest).erase = stepPOL C.base e x.x env c.1 (runes rest) := by
  simp only [stepPOLO, stepPOL]
  split
  · rw [polOfTermO_erase, termIRIREFO_erase]; rfl
  · split
    · cases rest with
      | nil => rfl
      | cons r1 rest1 =>
        simp only [runes_cons]
        show _ = if (!C.isSpace r1.1) = true then _ else _
        split
        · rw [polOfTermO_erase, termPNameO_erase]; rfl
        · rfl
    · show _ = if c.1 = 0x3a ∨ C.pnBase c.1 = true then _ else _
      split
      · rw [polOfTermO_erase, termPNameO_erase]; rfl
      · rfl

theorem emitOfTermO_erase (x : EctxO) (r : TermResO) : (emitOfTermO x r).erase = emitOfTerm x.x r.erase := by
  cases r <;> rfl

theorem emitOfNumericO_erase (x : EctxO) (env : Env) (r : TtlO.RO (Ttl.NumKind × List Nat)) :
    (emitOfNumericO x env r).erase = emitOfNumeric x.x env r.erase := by
  cases r with
  | ok v rg s rest => obtain ⟨k, l⟩ := v; rfl
  | err c o => rfl
  | panic => rfl

theorem stepLiteralTailO_erase (C : CfgO) (e : End) (x : EctxO) (env : Env) (lex : List Nat) (lrg : Rg) (s : S)
    (rest : List RP) :
    (stepLiteralTailO C e x env lex lrg s rest).erase = stepLiteralTail C.base e x.x env lex (runes rest) := by
  cases rest with
  | nil => rfl
  | cons c rest0 =>
    simp only [stepLiteralTailO, stepLiteralTail, runes_cons]
    split
    · show _ = match Ttl.produceLANGTAG e (c.1 :: runes rest0) with
        | .panic => FnRes.panic
        | .err k => .err (ofTok k)
        | .ok tag r => .ok { emit := some (mkStmt x.x (.lit lex rdfLangString (some tag))), inp := r, env := env }
      rw [← runes_cons, ← produceLANGTAG_erase e s (c :: rest0)]
      cases TtlO.produceLANGTAG e s (c :: rest0) <;> rfl
    · split
      · cases rest0 with
        | nil => rfl
        | cons c1 rest1 =>
          simp only [runes_cons]
          split
          · rfl
          · cases rest1 with
            | nil => rfl
            | cons c2 rest2 =>
              have hTr : (if c2.1 = 0x3c then iriIRIREFO C e env (((s.read c).read c1).commit [c, c1]) (c2 :: rest2)
                    else iriPNameO C e env (((s.read c).read c1).commit [c, c1]) (c2 :: rest2)).erase
                  = if c2.1 = 0x3c then iriIRIREF C.base e env (c2.1 :: runes rest2)
                    else iriPName C.base e env (c2.1 :: runes rest2) := by
                split
                · rw [iriIRIREFO_erase]; rfl
                · rw [iriPNameO_erase]; rfl
              simp only [runes_cons]
              rw [← hTr]
              generalize (if c2.1 = 0x3c then iriIRIREFO C e env (((s.read c).read c1).commit [c, c1]) (c2 :: rest2)
                    else iriPNameO C e env (((s.read c).read c1).commit [c, c1]) (c2 :: rest2)) = tr
              cases tr with
              | panic => rfl
              | err k o => rfl
              | ok dt rg s' r => simp only [IriResO.erase]; split <;> rfl
      · rfl

theorem stepObjectO_erase (C : CfgO) (e : End) (x : EctxO) (env : Env) (s : S) (c : RP) (rest : List RP) :
    (stepObjectO C e x env s c rest).erase = stepObject C.base e x.x env c.1 (runes rest) := by
  simp only [stepObjectO, stepObject]
  split
  · rw [emitOfTermO_erase, termIRIREFO_erase]; rfl
  · split
    · rw [emitOfTermO_erase, termBNodeO_erase]; rfl
    · split
      · rfl
      · split
        · rfl
        · split
          · show _ = match Ttl.produceString C.T e (c.1 :: runes rest) with
              | .panic => FnRes.panic
              | .err k => .err (ofTok k)
              | .ok lex r => stepLiteralTail C.base e x.x env lex r
            rw [← runes_cons, ← produceString_erase C.T e false s (c :: rest)]
            cases TtlO.produceString C.T e false s (c :: rest) with
            | panic => rfl
            | err k o => rfl
            | ok lex lrg s' r => simp only [TtlO.RO.erase]; exact stepLiteralTailO_erase C e x env lex lrg s' r
          · split
            · split
              · cases rest with
                | nil => rfl
                | cons r1 rest1 =>
                  simp only [runes_cons]
                  split
                  · rfl
                  · rw [emitOfNumericO_erase, produceNumericLiteral_erase]; rfl
              · rw [emitOfNumericO_erase, produceNumericLiteral_erase]; rfl
            · split
              · show _ = match Ttl.scanBoolean e (c.1 :: runes rest) with
                  | .err k => FnRes.err (ofTok k)
                  | .other => .ok { cur := some ⟨x.x, .objectPName⟩, inp := c.1 :: runes rest, env := env }
                  | .bool b r =>
                    .ok { emit := some (mkStmt x.x (.lit (asc (if b then "true" else "false")) Ttl.xsdBoolean none)),
                          inp := r, env := env }
                rw [← runes_cons, ← scanBooleanO_erase e (c :: rest)]
                cases scanBooleanO (c :: rest) with
                | other => rfl
                | bool b rd r => rfl
                | err rd => cases e <;> rfl
              · show _ = if C.pnBase c.1 = true ∨ c.1 = 0x3a then _ else _
                split <;> rfl

theorem stepTriplesO_erase (C : CfgO) (x : EctxO) (env : Env) (s : S) (c : RP) (rest : List RP) :
    (stepTriplesO C x env s c rest).erase = stepTriples C.base x.x env c.1 (runes rest) := by
  simp only [stepTriplesO, stepTriples]
  show _ = if c.1 = 0x3c then _ else if c.1 = 0x5f then _ else if c.1 = 0x5b then _ else if c.1 = 0x28 then _
    else if c.1 = 0x3a ∨ C.pnBase c.1 = true then _ else _
  split
  · rfl
  · split
    · rfl
    · split
      · rfl
      · split
        · rfl
        · split <;> rfl

theorem orNul_erase (a : ArgO) : a.erase.orNul = (a.orNul.1.1, runes a.orNul.2) := by
  cases a <;> rfl

theorem stepParenO_erase (top : Bool) (x : EctxO) (env : Env) (bn : T) (rg : Rg) (s : S) (a : ArgO) :
    (stepParenO top x env bn rg s a).erase = stepParen top x.x env bn a.erase := by
  simp only [stepParenO, stepParen, orNul_erase]
  split
  · cases top <;> rfl
  · cases top <;> rfl

theorem base_iriref (C : CfgO) : C.base.P.iriref = Ttl.produceIRIREF C.T := rfl
theorem base_pnameNS (C : CfgO) : C.base.P.pnameNS = Ttl.producePNAME_NS C.T := rfl

/-- the three directive closures that read an IRIREF and resolve it as a URL -/
theorem iriDirective_erase (C : CfgO) (e : End) (env : Env) (s : S) (c : RP) (rest : List RP)
    (f : List Nat → S → List RP → FnResO) (g : List Nat → List Nat → FnRes)
    (hfg : ∀ b s' r, (f b s' r).erase = g b (runes r)) :
    (match TtlO.produceIRIREF C.T e s (c :: rest) with
      | .panic => FnResO.panic
      | .err t o => .err (ofTok t) o
      | .ok v rg s' r =>
        match resolveURL C.base env v with
        | none => .err .resolve (rangeErr rg)
        | some b => f b s' r).erase
    = match C.base.P.iriref e (c.1 :: runes rest) with
      | .panic => FnRes.panic
      | .err t => .err (ofTok t)
      | .ok v r =>
        match resolveURL C.base env v with
        | none => .err .resolve
        | some b => g b r := by
  rw [base_iriref, ← runes_cons, ← produceIRIREF_erase C.T e s (c :: rest)]
  cases TtlO.produceIRIREF C.T e s (c :: rest) with
  | panic => rfl
  | err t o => rfl
  | ok v rg s' r =>
    simp only [TtlO.RO.erase]
    cases resolveURL C.base env v with
    | none => rfl
    | some b => exact hfg b s' r

theorem stepFnO_erase (C : CfgO) (e : End) (k : Cont) (r : Rg) (x : EctxO) (env : Env) (s : S) (a : ArgO) :
    (stepFnO C e k r x env s a).erase = stepFn C.base e k x.x env a.erase := by
  cases k with
  | statement =>
    cases a with
    | fail => cases e <;> rfl
    | rune c rest =>
      simp only [stepFnO, stepFn, ArgO.erase]
      rw [withSelfO_erase, stepStatementRuneO_erase]
  | atBaseIRI =>
    cases a with
    | fail => rfl
    | rune c rest =>
      simp only [stepFnO, stepFn, ArgO.erase]
      exact iriDirective_erase C e env s c rest _ _ (fun _ _ _ => rfl)
  | sparqlBaseIRI =>
    cases a with
    | fail => rfl
    | rune c rest =>
      simp only [stepFnO, stepFn, ArgO.erase]
      exact iriDirective_erase C e env s c rest _ _ (fun _ _ _ => rfl)
  | atBaseDot b =>
    cases a with
    | fail => rfl
    | rune c rest => simp only [stepFnO, stepFn, ArgO.erase]; split <;> rfl
  | atPrefixNS =>
    cases a with
    | fail => rfl
    | rune c rest =>
      simp only [stepFnO, stepFn, ArgO.erase]
      rw [base_pnameNS, ← runes_cons, ← producePNAME_NS_erase C.T e C.trig s (c :: rest)]
      cases TtlO.producePNAME_NS C.T e C.trig s (c :: rest) <;> rfl
  | sparqlPrefixNS =>
    cases a with
    | fail => rfl
    | rune c rest =>
      simp only [stepFnO, stepFn, ArgO.erase]
      rw [base_pnameNS, ← runes_cons, ← producePNAME_NS_erase C.T e C.trig s (c :: rest)]
      cases TtlO.producePNAME_NS C.T e C.trig s (c :: rest) <;> rfl
  | atPrefixIRI ns =>
    cases a with
    | fail => rfl
    | rune c rest =>
      simp only [stepFnO, stepFn, ArgO.erase]
      exact iriDirective_erase C e env s c rest _ _ (fun _ _ _ => rfl)
  | sparqlPrefixIRI ns =>
    cases a with
    | fail => rfl
    | rune c rest =>
      simp only [stepFnO, stepFn, ArgO.erase]
      exact iriDirective_erase C e env s c rest _ _ (fun _ _ _ => rfl)
  | atPrefixDot ns b =>
    cases a with
    | fail => rfl
    | rune c rest => simp only [stepFnO, stepFn, ArgO.erase]; split <;> rfl
  | subjAnonOrBNPL =>
    cases a with
    | fail => rfl
    | rune c rest => simp only [stepFnO, stepFn, ArgO.erase]; split <;> rfl
  | triplesEnd =>
    cases a with
    | fail => rfl
    | rune c rest =>
      simp only [stepFnO, stepFn, ArgO.erase]
      split
      · rfl
      · split <;> rfl
  | subjIRIREF =>
    cases a with
    | fail => rfl
    | rune c rest => simp only [stepFnO, stepFn, ArgO.erase]; rw [subjectOfO_erase, termIRIREFO_erase]; rfl
  | subjPName =>
    cases a with
    | fail => rfl
    | rune c rest => simp only [stepFnO, stepFn, ArgO.erase]; rw [subjectOfO_erase, termPNameO_erase]; rfl
  | subjBNode =>
    cases a with
    | fail => rfl
    | rune c rest => simp only [stepFnO, stepFn, ArgO.erase]; rw [subjectOfO_erase, termBNodeO_erase]; rfl
  | pol =>
    cases a with
    | fail => rfl
    | rune c rest => simp only [stepFnO, stepFn, ArgO.erase]; exact stepPOLO_erase C e x env s c rest
  | polContinue =>
    cases a with
    | fail => rfl
    | rune c rest => simp only [stepFnO, stepFn, ArgO.erase]; split <;> rfl
  | polRequired =>
    cases a with
    | fail => rfl
    | rune c rest =>
      simp only [stepFnO, stepFn, ArgO.erase]
      rw [← stepPOLO_erase C e x env s c rest]
      cases stepPOLO C e x env s c rest with
      | panic => rfl
      | err k o => rfl
      | ok o =>
        simp only [FnResO.erase]
        cases h : o.cur <;> simp [OutO.erase, h]
  | objListContinue =>
    cases a with
    | fail => rfl
    | rune c rest => simp only [stepFnO, stepFn, ArgO.erase]; split <;> rfl
  | object =>
    cases a with
    | fail => rfl
    | rune c rest => simp only [stepFnO, stepFn, ArgO.erase]; exact stepObjectO_erase C e x env s c rest
  | objectPName =>
    cases a with
    | fail => rfl
    | rune c rest => simp only [stepFnO, stepFn, ArgO.erase]; rw [emitOfTermO_erase, termPNameO_erase]; rfl
  | collOpenObj =>
    cases a with
    | fail => rfl
    | rune c rest => simp only [stepFnO, stepFn, ArgO.erase]; exact stepCollectionO_erase x _ s c rest _ r
  | collOpenSubj o =>
    simp only [stepFnO, stepFn, orNul_erase]
    exact stepCollectionO_erase x env s _ _ o r
  | collContinue =>
    cases a with
    | fail => rfl
    | rune c rest => simp only [stepFnO, stepFn, ArgO.erase]; split <;> rfl
  | bnplEnd =>
    cases a with
    | fail => rfl
    | rune c rest => simp only [stepFnO, stepFn, ArgO.erase]; split <;> rfl
  | parenTop bn => exact stepParenO_erase true x env bn r s a
  | parenBlock bn => exact stepParenO_erase false x env bn r s a
  | graphLabel =>
    cases a with
    | fail => rfl
    | rune c rest =>
      simp only [stepFnO, stepFn, ArgO.erase]
      split
      · rfl
      · have hTr : (if c.1 = 0x5f then termBNodeO C e env s (c :: rest)
              else if c.1 = 0x3c then termIRIREFO C e env s (c :: rest) else termPNameO C e env s (c :: rest)).erase
            = if c.1 = 0x5f then termBNode C.base e env (c.1 :: runes rest)
              else if c.1 = 0x3c then termIRIREF C.base e env (c.1 :: runes rest)
              else termPName C.base e env (c.1 :: runes rest) := by
          split
          · rw [termBNodeO_erase]; rfl
          · split
            · rw [termIRIREFO_erase]; rfl
            · rw [termPNameO_erase]; rfl
        rw [← hTr]
        generalize (if c.1 = 0x5f then termBNodeO C e env s (c :: rest)
              else if c.1 = 0x3c then termIRIREFO C e env s (c :: rest) else termPNameO C e env s (c :: rest)) = tr
        cases tr <;> rfl
  | graphAnonClose =>
    simp only [stepFnO, stepFn, orNul_erase]
    split <;> rfl
  | wrappedGraph => exact stepWrappedGraphO_erase C.dbl e x env s a
  | wrappedGraphEnd =>
    cases a with
    | fail => rfl
    | rune c rest => simp only [stepFnO, stepFn, ArgO.erase]; split <;> rfl
  | triplesBlock =>
    cases a with
    | fail => rfl
    | rune c rest => simp only [stepFnO, stepFn, ArgO.erase]; split <;> rfl
  | triplesBlockQuest =>
    cases a with
    | fail => rfl
    | rune c rest =>
      simp only [stepFnO, stepFn, ArgO.erase]
      split
      · rfl
      · split <;> rfl
  | triples =>
    cases a with
    | fail => rfl
    | rune c rest => simp only [stepFnO, stepFn, ArgO.erase]; exact stepTriplesO_erase C x env s c rest
  | tgE1 v =>
    simp only [stepFnO, stepFn, orNul_erase]
    split
    · rfl
    · cases v <;> rfl
  | tgBracket bn =>
    simp only [stepFnO, stepFn, orNul_erase]
    split <;> rfl
  | triples2BNPL =>
    cases a with
    | fail => rfl
    | rune c rest => simp only [stepFnO, stepFn, ArgO.erase]; split <;> rfl

/-! ### scan, Next, run -/

theorem skipWsO_erase (C : CfgO) (e : End) : ∀ (inp : List RP) (b : Bool) (s : S) (unc : Chunk),
    (skipWsO C e b s inp unc).erase = skipWs C.base e b (runes inp)
  | [], false, s, unc => rfl
  | [], true, s, unc => by cases e <;> rfl
  | c :: rest, true, s, unc => by
    simp only [skipWsO, skipWs, runes_cons]
    split
    · exact skipWsO_erase C e rest false _ _
    · exact skipWsO_erase C e rest true _ _
  | c :: rest, false, s, unc => by
    simp only [skipWsO, skipWs, runes_cons]
    split
    · exact skipWsO_erase C e rest true _ _
    · split
      · exact skipWsO_erase C e rest false _ _
      · rfl

theorem scanFnO_erase (C : CfgO) (e : End) (f : FrameO) (inp : List RP) (env : Env) (s : S) :
    (scanFnO C e f inp env s).erase = scanFn C.base e f.erase (runes inp) env := by
  unfold scanFnO scanFn
  rw [← skipWsO_erase C e inp false s []]
  cases skipWsO C e false s inp [] with
  | commentIo => rfl
  | end_ s' => exact stepFnO_erase C e f.k f.r f.x env s' .fail
  | rune s' c rest => exact stepFnO_erase C e f.k f.r f.x env s' (.rune c rest)

theorem applyOutO_erase (st : StO) (o : OutO) : (applyOutO st o).erase = applyOut st.erase o.erase := by
  obtain ⟨cur, push, emit, inp, env, s, term⟩ := o
  cases term <;> cases emit <;> simp [applyOutO, applyOut, StO.erase, OutO.erase, List.map_append, List.map_reverse]

/-- `ScanRes` of the base machine, from the instrumented one. -/
def eraseScan : ScanResO → ScanRes
  | .ok cur st => .ok (cur.map FrameO.erase) st.erase
  | .err e _ => .err e
  | .panic => .panic

theorem scanO_erase (C : CfgO) (e : End) (f : FrameO) (st : StO) :
    eraseScan (scanO C e f st) = scan C.base e f.erase st.erase := by
  unfold scanO scan
  show _ = match scanFn C.base e f.erase (runes st.inp) st.env with
    | .panic => ScanRes.panic
    | .err k => .err k
    | .ok o => .ok o.cur (applyOut st.erase o)
  rw [← scanFnO_erase C e f st.inp st.env st.s]
  cases scanFnO C e f st.inp st.env st.s with
  | panic => rfl
  | err k o => rfl
  | ok o => simp only [FnResO.erase, eraseScan, applyOutO_erase]; rfl

def eraseNext : NextResO → NextRes
  | .yes st => .yes st.erase
  | .no st => .no st.erase
  | .panic => .panic
  | .outOfFuel => .outOfFuel

theorem popFrameO_erase (cur : Option FrameO) (st : StO) :
    (popFrameO cur st).map (fun p => (p.1.erase, p.2.erase)) = popFrame (cur.map FrameO.erase) st.erase := by
  cases cur with
  | some f => rfl
  | none =>
    cases h : st.stack with
    | nil => simp [popFrameO, popFrame, StO.erase, h]
    | cons f s => simp [popFrameO, popFrame, StO.erase, h]

theorem pushCurO_erase (cur : Option FrameO) (st : StO) :
    (pushCurO cur st).erase = pushCur (cur.map FrameO.erase) st.erase := by
  cases cur <;> rfl

theorem nextLoopO_erase (C : CfgO) (e : End) : ∀ (fuel : Nat) (cur : Option FrameO) (st : StO),
    eraseNext (nextLoopO C e fuel cur st) = nextLoop C.base e fuel (cur.map FrameO.erase) st.erase
  | 0, _, _ => rfl
  | fuel + 1, cur, st => by
    simp only [nextLoopO, nextLoop]
    have hErr : st.erase.err.isSome = st.err.isSome := by cases h : st.err <;> simp [StO.erase, h]
    have hSt : st.erase.stmts.isEmpty = st.stmts.isEmpty := by cases h : st.stmts <;> simp [StO.erase, h]
    rw [hErr, hSt]
    split
    · rfl
    · split
      · simp only [eraseNext, pushCurO_erase]
      · have hp := popFrameO_erase cur st
        cases hq : popFrameO cur st with
        | none => rw [hq] at hp; rw [← hp]; rfl
        | some p =>
          obtain ⟨f, st1⟩ := p
          rw [hq] at hp; rw [← hp]
          simp only [Option.map_some]
          rw [← scanO_erase C e f st1]
          cases scanO C e f st1 with
          | panic => rfl
          | err k o => simp only [eraseScan]; exact nextLoopO_erase C e fuel none _
          | ok cur' st2 => simp only [eraseScan]; exact nextLoopO_erase C e fuel cur' st2

theorem nextO_erase (C : CfgO) (e : End) (st : StO) : eraseNext (nextO C e st) = TtlDoc.next C.base e st.erase := by
  unfold nextO TtlDoc.next
  have h : ({ st with stmts := st.stmts.drop 1 } : StO).erase = { st.erase with stmts := st.erase.stmts.drop 1 } := by
    simp [StO.erase]
  simp only []
  rw [← h]
  exact nextLoopO_erase C e _ none _

/-- what `TtlDoc.run` returns, from the instrumented result -/
def eraseRun (r : RunO) : List Stmt × Verdict := (r.stmts.map (·.st), r.verdict)

theorem runLoopO_erase (C : CfgO) (e : End) : ∀ (n : Nat) (st : StO),
    eraseRun (runLoopO C e n st) = runLoop C.base e n st.erase
  | 0, _ => rfl
  | n + 1, st => by
    simp only [runLoopO, runLoop]
    rw [← nextO_erase C e st]
    cases nextO C e st with
    | panic => rfl
    | outOfFuel => rfl
    | no st' =>
      simp only [eraseNext]
      cases h : st'.err with
      | none => simp [eraseRun, StO.erase, h]
      | some p => obtain ⟨k, o⟩ := p; simp [eraseRun, StO.erase, h]
    | yes st' =>
      simp only [eraseNext]
      cases h : st'.stmts with
      | nil => simp [eraseRun, StO.erase, h]
      | cons s ss =>
        have h' : st'.erase.stmts = s.st :: ss.map (·.st) := by simp [StO.erase, h]
        rw [h']
        simp only []
        rw [← runLoopO_erase C e n st']
        rfl

theorem runO_erase (C : CfgO) (e : End) (capture : Bool) (base : Option (List Nat))
    (prefixes : List (List Nat × List Nat)) (inp : List RP) :
    eraseRun (runO C e capture base prefixes inp) = run C.base e base prefixes (runes inp) := by
  unfold runO TtlDoc.run
  have h : (initO capture base prefixes inp).erase = init base prefixes (runes inp) := rfl
  simp only []
  rw [← h]
  exact runLoopO_erase C e _ _

end RdfModel.Proofs.C16TtlDocO
