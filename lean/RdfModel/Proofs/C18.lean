/-
  C18 helper lemmas, part 1: type resolution (priority chain, independence of the map iteration order).
-/
import RdfModel.Props.C18Defs
namespace RdfModel.Proofs.C18
open RdfModel RdfModel.Pipe RdfModel.C18

/-! ### `resolveByType` -/

theorem resolveByType_alias {aliases : List (Str × Cti)} {managers : List Cti} {t : Str} {c : Cti}
    (ht : t ≠ []) (ha : BN.assoc t aliases = some c) : resolveByType aliases managers t = some c := by
  simp [resolveByType, ht, ha]

theorem resolveByType_id {aliases : List (Str × Cti)} {managers : List Cti} {t : Str}
    (ht : t ≠ []) (ha : BN.assoc t aliases = none) (hm : t ∈ managers) :
    resolveByType aliases managers t = some t := by
  simp [resolveByType, ht, ha, hm]

theorem resolveByType_none_iff (aliases : List (Str × Cti)) (managers : List Cti) (t : Str) :
    resolveByType aliases managers t = none ↔ (t = [] ∨ (BN.assoc t aliases = none ∧ t ∉ managers)) := by
  unfold resolveByType
  by_cases ht : t = []
  · simp [ht]
  · simp only [ne_eq, ht, not_false_eq_true, if_true, false_or]
    cases ha : BN.assoc t aliases with
    | some c => simp
    | none => by_cases hm : t ∈ managers <;> simp [hm]

theorem resolveByType_empty (aliases : List (Str × Cti)) (managers : List Cti) :
    resolveByType aliases managers [] = none := by simp [resolveByType]

/-! ### the chain -/

theorem resolveDecoderType_of_type {reg : Registry} {ord : List (Str × Cti)} {rr : ReaderInfo} {t : Str} {c : Cti}
    (h : resolveByType reg.aliases reg.decoders t = some c) : resolveDecoderType reg ord rr t = some c := by
  simp [resolveDecoderType, h]

theorem resolveDecoderType_of_media {reg : Registry} {ord : List (Str × Cti)} {rr : ReaderInfo} {t : Str} {c : Cti}
    (h0 : resolveByType reg.aliases reg.decoders t = none) (h : resolveByMedia reg.mediaTypes rr = some c) :
    resolveDecoderType reg ord rr t = some c := by
  simp [resolveDecoderType, h0, h]

theorem resolveDecoderType_of_magic {reg : Registry} {ord : List (Str × Cti)} {rr : ReaderInfo} {t : Str} {c : Cti}
    (h0 : resolveByType reg.aliases reg.decoders t = none) (h1 : resolveByMedia reg.mediaTypes rr = none)
    (h : resolveByMagic rr = some c) : resolveDecoderType reg ord rr t = some c := by
  simp [resolveDecoderType, h0, h1, h]

theorem resolveDecoderType_of_ext {reg : Registry} {ord : List (Str × Cti)} {rr : ReaderInfo} {t : Str}
    (h0 : resolveByType reg.aliases reg.decoders t = none) (h1 : resolveByMedia reg.mediaTypes rr = none)
    (h2 : resolveByMagic rr = none) : resolveDecoderType reg ord rr t = resolveByExt ord rr := by
  simp [resolveDecoderType, h0, h1, h2]

theorem resolveEncoderType_of_type {reg : Registry} {fn : Option Str} {t : Str} {c : Cti}
    (h : resolveByType reg.aliases reg.encoders t = some c) : resolveEncoderType reg fn t = some c := by
  simp [resolveEncoderType, h]

theorem resolveEncoderType_of_ext {reg : Registry} {fn : Option Str} {t : Str}
    (h0 : resolveByType reg.aliases reg.encoders t = none) :
    resolveEncoderType reg fn t = fn.bind (fun f => BN.assoc (filepathExt f) reg.fileExts) := by
  cases fn <;> simp [resolveEncoderType, h0]

/-! ### the extension loop does not depend on the iteration order -/

theorem suffixConsistent_of_B {exts : List (Str × Cti)} (h : suffixConsistentB exts = true) : SuffixConsistent exts := by
  intro e1 h1 e2 h2 hs
  simp only [suffixConsistentB, List.all_eq_true] at h
  have := h e1 h1 e2 h2
  simp only [Bool.or_eq_true, Bool.not_eq_true', beq_iff_eq] at this
  rcases this with hn | he
  · have : e1.1.isSuffixOf e2.1 = true := by simpa using hs
    rw [this] at hn; cases hn
  · exact he

/-- two suffixes of one string: one is a suffix of the other -/
theorem suffix_comparable {α : Type} {a b l : List α} (ha : a <:+ l) (hb : b <:+ l) : a <:+ b ∨ b <:+ a := by
  rcases Nat.le_total a.length b.length with h | h
  · exact Or.inl (List.suffix_of_suffix_length_le ha hb h)
  · exact Or.inr (List.suffix_of_suffix_length_le hb ha h)

/-- all entries that match one name carry the same type -/
theorem match_same {exts : List (Str × Cti)} (hc : SuffixConsistent exts) {name : Str} {e1 e2 : Str × Cti}
    (h1 : e1 ∈ exts) (h2 : e2 ∈ exts) (m1 : hasSuffix name e1.1 = true) (m2 : hasSuffix name e2.1 = true) :
    e1.2 = e2.2 := by
  have s1 : e1.1 <:+ name := by simpa [hasSuffix] using m1
  have s2 : e2.1 <:+ name := by simpa [hasSuffix] using m2
  rcases suffix_comparable s1 s2 with h | h
  · exact hc e1 h1 e2 h2 h
  · exact (hc e2 h2 e1 h1 h).symm

theorem find_perm_same {exts ord ord' : List (Str × Cti)} (hc : SuffixConsistent exts)
    (hp : ord.Perm exts) (hp' : ord'.Perm exts) (name : Str) :
    (ord.find? (fun e => hasSuffix name e.1)).map (·.2) = (ord'.find? (fun e => hasSuffix name e.1)).map (·.2) := by
  cases h : ord.find? (fun e => hasSuffix name e.1) with
  | none =>
    have hnone : ∀ e ∈ ord, ¬ (hasSuffix name e.1 = true) := by simpa using h
    have : ord'.find? (fun e => hasSuffix name e.1) = none := by
      simp only [List.find?_eq_none]
      intro e he
      exact hnone e (hp.mem_iff.mpr (hp'.mem_iff.mp he))
    simp [this]
  | some e =>
    have hm : hasSuffix name e.1 = true := by simpa using List.find?_some h
    have he : e ∈ exts := hp.mem_iff.mp (List.mem_of_find?_eq_some h)
    cases h' : ord'.find? (fun e => hasSuffix name e.1) with
    | none =>
      have hnone : ∀ x ∈ ord', ¬ (hasSuffix name x.1 = true) := by simpa using h'
      exact absurd hm (hnone e (hp'.mem_iff.mpr he))
    | some e' =>
      have hm' : hasSuffix name e'.1 = true := by simpa using List.find?_some h'
      have he' : e' ∈ exts := hp'.mem_iff.mp (List.mem_of_find?_eq_some h')
      simp [match_same hc he he' hm hm']

theorem resolveByExt_perm {exts ord ord' : List (Str × Cti)} (hc : SuffixConsistent exts)
    (hp : ord.Perm exts) (hp' : ord'.Perm exts) (rr : ReaderInfo) :
    resolveByExt ord rr = resolveByExt ord' rr := by
  unfold resolveByExt
  cases rr.fileName with
  | none => rfl
  | some fn => exact find_perm_same hc hp hp' _

theorem resolveDecoderType_perm {reg : Registry} (hc : SuffixConsistent reg.fileExts) {ord ord' : List (Str × Cti)}
    (hp : ord.Perm reg.fileExts) (hp' : ord'.Perm reg.fileExts) (rr : ReaderInfo) (t : Str) :
    resolveDecoderType reg ord rr t = resolveDecoderType reg ord' rr t := by
  unfold resolveDecoderType
  rw [resolveByExt_perm hc hp hp' rr]

/-! ### resolving a resolved type again -/

theorem shadowFree_spec {aliases : List (Str × Cti)} {managers : List Cti} (h : aliasShadowFree aliases managers = true)
    {c : Cti} (hc : c ∈ managers) : BN.assoc c aliases = none ∨ BN.assoc c aliases = some c := by
  simp only [aliasShadowFree, List.all_eq_true] at h
  have := h c hc
  cases ha : BN.assoc c aliases with
  | none => exact Or.inl rfl
  | some c' =>
    rw [ha] at this
    simp only [beq_iff_eq] at this
    exact Or.inr (by rw [this])

theorem resolveByType_again {aliases : List (Str × Cti)} {managers : List Cti}
    (h : aliasShadowFree aliases managers = true) {c : Cti} (hc : c ∈ managers) (hne : c ≠ []) :
    resolveByType aliases managers c = some c := by
  rcases shadowFree_spec h hc with ha | ha
  · exact resolveByType_id hne ha hc
  · exact resolveByType_alias hne ha

theorem openDecoderType_stable {reg : Registry} (hs : aliasShadowFree reg.aliases reg.decoders = true)
    (hne : [] ∉ reg.decoders) (ord1 ord2 : List (Str × Cti)) (rr : ReaderInfo) (t : Str) (fallback c : Cti)
    (h1 : (resolveDecoderType reg ord1 rr t).getD fallback = c) (hc : c ∈ reg.decoders) :
    openDecoderType reg ord1 ord2 rr t fallback = some c := by
  have hcne : c ≠ [] := fun h => hne (h ▸ hc)
  simp only [openDecoderType, h1]
  rw [resolveDecoderType_of_type (resolveByType_again hs hc hcne)]
  simp [hc]

theorem openEncoderType_stable {reg : Registry} (hs : aliasShadowFree reg.aliases reg.encoders = true)
    (hne : [] ∉ reg.encoders) (fn : Option Str) (t : Str) (fallback c : Cti)
    (h1 : (resolveEncoderType reg fn t).getD fallback = c) (hc : c ∈ reg.encoders) :
    openEncoderType reg fn t fallback = some c := by
  have hcne : c ≠ [] := fun h => hne (h ▸ hc)
  simp only [openEncoderType, h1]
  rw [resolveEncoderType_of_type (resolveByType_again hs hc hcne)]
  simp [hc]

end RdfModel.Proofs.C18
