package main

// Child processes: every decoder run happens in one. The parent generates jobs, a child executes
// them one at a time and answers each with the JSON of a sink. A child that dies (fatal stack
// overflow, out of memory) or does not answer in time is attributed to the job it was running
// and replaced.

import (
	"bufio"
	"bytes"
	"encoding/json"
	"fmt"
	"io"
	"os"
	"os/exec"
	"runtime"
	"strings"
	"sync"
	"syscall"
	"time"

	"verifharness/vh"
)

const (
	jobSingle   = 0 // one run, single-run oracles
	jobSchedule = 1 // C15: all comparisons on one base document
	jobProbe    = 2 // classes of a case (shrinker)
	jobConfirm  = 3 // like single, but a watchdog hit is a violation (run alone)
	jobBatch    = 4 // several single jobs answered with one sink (amortises the round trip)
	jobGrowth   = 5 // C05 growth oracle: a ladder of parameters of one generator family (growth.go)
	jobReuse    = 6 // C15 reuse oracle: option values built once, documents A, B, A (reuse.go)
)

type job struct {
	Kind     int    `json:"k"`
	C        Case   `json:"c"`
	Batch    []Case `json:"b,omitempty"`
	Ladder   []int  `json:"l,omitempty"`
	Seed     uint64 `json:"s,omitempty"`
	Thorough bool   `json:"t,omitempty"`
	Verbose  bool   `json:"v,omitempty"`
}

// childMemCap: hard address-space limit of a child (the decoders under test can allocate gigabytes
// on a few hundred kilobytes of nested input; the machine is shared).
const childMemCap = 4 << 30

func childMain() {
	syscall.Setrlimit(syscall.RLIMIT_AS, &syscall.Rlimit{Cur: childMemCap, Max: childMemCap})
	if _, err := loadCorpusLoaderDocsOnly(); err != nil {
		fmt.Fprintln(realStderr, "child: corpus:", err)
		os.Exit(2)
	}
	in := bufio.NewReaderSize(os.Stdin, 1<<20)
	w := bufio.NewWriterSize(os.Stdout, 1<<20)
	for {
		l, err := in.ReadBytes('\n')
		if len(bytes.TrimSpace(l)) > 0 {
			var j job
			if jerr := json.Unmarshal(l, &j); jerr != nil {
				fmt.Fprintln(realStderr, "child: bad job:", jerr)
				os.Exit(2)
			}
			s := newSink()
			switch j.Kind {
			case jobSingle:
				r := s.single(j.C, false)
				if j.Verbose && os.Getenv("C05X_DUMP") != "" { // development aid: the statements themselves
					for i, st := range r.Stmts {
						s.Log = append(s.Log, fmt.Sprintf("  [%d] %s", i, clip(st)))
					}
				}
				if j.Verbose {
					s.Log = append(s.Log, fmt.Sprintf("replay %s: verdict=%s stmts=%d err=%q panic=%v life=%v wf=%v elapsed=%v", j.C.Format, r.Verdict, len(r.Stmts), clip(r.Err), r.Panic, r.Life, r.WF, r.Elapsed))
				}
			case jobBatch:
				for _, c := range j.Batch {
					s.single(c, false)
				}
			case jobConfirm:
				// one P: the CPU time of the process is then the time of one thread (decoder + collector
				// interleaved), so "consumed the budget in CPU time" cannot be reached faster than in wall time by
				// a parallel garbage collector, and a loaded machine stretches the wall time, not the CPU time
				runtime.GOMAXPROCS(1)
				s.single(j.C, true)
			case jobProbe:
				s.probe(j.C)
			case jobSchedule:
				s.schedule(j.C, vh.NewRng(j.Seed), j.Thorough, j.Verbose)
			case jobGrowth:
				s.growth(j.C, j.Ladder, j.Verbose)
			case jobReuse:
				s.reuse(j.C, j.Verbose)
			}
			b, _ := json.Marshal(s)
			w.Write(b)
			w.WriteByte('\n')
			w.Flush()
			if s.Dirty {
				os.Exit(3) // get rid of the leaked goroutine; the parent starts a fresh child
			}
		}
		if err != nil {
			return
		}
	}
}

// ---------------------------------------------------------------- parent side

type child struct {
	cmd    *exec.Cmd
	stdin  io.WriteCloser
	lines  chan []byte
	stderr *bytes.Buffer
}

func startChild() (*child, error) {
	cmd := exec.Command(os.Args[0], "-child")
	cmd.Env = append(os.Environ(), "GOMEMLIMIT=1GiB") // soft: the collector works harder beyond it; the hard cap is RLIMIT_AS in the child
	stdin, err := cmd.StdinPipe()
	if err != nil {
		return nil, err
	}
	stdout, err := cmd.StdoutPipe()
	if err != nil {
		return nil, err
	}
	c := &child{cmd: cmd, stdin: stdin, lines: make(chan []byte, 4), stderr: &bytes.Buffer{}}
	cmd.Stderr = c.stderr
	if err := cmd.Start(); err != nil {
		return nil, err
	}
	go func() {
		rd := bufio.NewReaderSize(stdout, 1<<20)
		for {
			l, err := rd.ReadBytes('\n')
			if len(l) > 0 && l[len(l)-1] == '\n' {
				c.lines <- l
			}
			if err != nil {
				close(c.lines)
				return
			}
		}
	}()
	return c, nil
}

func (c *child) stop() {
	c.stdin.Close()
	done := make(chan struct{})
	go func() { c.cmd.Wait(); close(done) }()
	select {
	case <-done:
	case <-time.After(3 * time.Second):
		c.cmd.Process.Kill()
		<-done
	}
}

// jobTimeout: backstop only (a starved or wedged child); the child has its own per-run watchdog.
// Generous on purpose: hitting it never makes a violation by itself, the job's cases are re-run
// alone in the confirmation pass.
func jobTimeout(j job) time.Duration {
	switch j.Kind {
	case jobSchedule:
		return 30 * time.Minute
	case jobBatch:
		d := 2 * time.Minute
		for _, c := range j.Batch {
			d += 3 * budget(len(c.Input))
		}
		return d
	case jobConfirm:
		return 12*budget(len(j.C.Input)) + 2*time.Minute
	case jobGrowth:
		return time.Duration(4*len(j.Ladder))*budget(0) + 2*time.Minute
	}
	return 4*budget(len(j.C.Input)) + 2*time.Minute
}

// runner owns one child and runs jobs on it synchronously.
type runner struct {
	c *child
}

// run executes the job; the returned sink is never nil. A crash or a missing answer becomes a
// violation of kind crash / hang attributed to the job's case.
func (r *runner) run(j job) *sink {
	firstMsg := ""
	_ = firstMsg
	for attempt := 0; ; attempt++ {
		if r.c == nil {
			c, err := startChild()
			if err != nil {
				s := newSink()
				s.add(violation{Prop: "C05", Kind: "crash", Format: j.C.Format, Sub: "harness-cannot-start-child", Detail: err.Error(), Case: j.C})
				return s
			}
			r.c = c
		}
		b, _ := json.Marshal(j)
		b = append(b, '\n')
		_, werr := r.c.stdin.Write(b)
		var line []byte
		ok := false
		if werr == nil {
			select {
			case line, ok = <-r.c.lines:
			case <-time.After(jobTimeout(j)):
				r.c.cmd.Process.Kill()
			}
		}
		if ok {
			s := newSink()
			if err := json.Unmarshal(line, s); err == nil {
				if s.Hist == nil {
					s.Hist = map[string]int{}
				}
				if s.Dirty {
					r.c.stop()
					r.c = nil
				}
				return s
			}
		}
		// the child is gone (or answered garbage, or was killed by the backstop)
		r.c.stdin.Close()
		werr2 := r.c.cmd.Wait()
		msg := r.c.stderr.String()
		r.c = nil
		fatal := strings.Contains(msg, "fatal error") || strings.Contains(msg, "stack overflow") || strings.Contains(msg, "goroutine stack exceeds") || strings.Contains(msg, "out of memory") || strings.Contains(msg, "cannot allocate")
		s := newSink()
		if !fatal {
			// No diagnostic from the Go runtime: the child was killed from outside (kernel OOM killer of a
			// memory cgroup, the backstop on a starved machine) or had died before the job was written.
			// That says nothing about the decoder: the cases go to the confirmation pass (alone, CPU-time
			// watchdog); in the confirmation pass itself the outcome is recorded as inconclusive.
			s.count("child-died-without-diagnostic")
			if j.Kind == jobConfirm || j.Kind == jobProbe {
				s.count("inconclusive:child-killed-in-confirmation")
				return s
			}
			if j.Kind == jobBatch {
				s.Suspects = append(s.Suspects, j.Batch...)
			} else {
				s.Suspects = append(s.Suspects, j.C)
			}
			return s
		}
		if attempt == 0 && j.Kind != jobBatch {
			firstMsg = msg
			continue // a fatal error must repeat on a fresh child before it is attributed to the job
		}
		if j.Kind == jobBatch {
			s.count("child-crash-in-batch")
			s.Viols = append(s.Viols, violation{Prop: "C05", Kind: "crash", Format: j.C.Format, Sub: "batch", Detail: "fatal error somewhere in a batch", Case: j.C})
			return s // farm re-runs the cases of the batch one by one
		}
		sub := "fatal"
		switch {
		case strings.Contains(msg, "stack overflow") || strings.Contains(msg, "goroutine stack exceeds"):
			sub = "stack-overflow:" + firstRepoFrameText(msg)
		case strings.Contains(msg, "out of memory") || strings.Contains(msg, "cannot allocate"):
			sub = "out-of-memory:" + hangSub(j.C)
		}
		if len(msg) > 500 {
			msg = msg[:500]
		}
		s.count("child-crash:" + sub)
		s.add(violation{Prop: "C05", Kind: "crash", Format: j.C.Format, Sub: sub, Detail: fmt.Sprintf("child process died (%v), twice: %s", werr2, msg), Case: j.C})
		return s
	}
}

func (r *runner) close() {
	if r.c != nil {
		r.c.stop()
		r.c = nil
	}
}

func firstRepoFrameText(trace string) string {
	for _, l := range strings.Split(trace, "\n") {
		if strings.HasPrefix(l, repoMod) {
			l = strings.TrimPrefix(l, repoMod)
			if i := strings.LastIndex(l, "("); i > 0 {
				l = l[:i]
			}
			return l
		}
	}
	return "?"
}

// farm runs the jobs the producer emits on nw children and merges their sinks. Small single jobs are
// sent in batches; when a child dies on a batch its cases are re-run one by one to find the culprit.
func (e *engine) farm(nw int, produce func(emit func(job))) {
	ch := make(chan job, 64)
	var wg sync.WaitGroup
	for i := 0; i < nw; i++ {
		wg.Add(1)
		go func() {
			defer wg.Done()
			r := &runner{}
			defer r.close()
			for j := range ch {
				s := r.run(j)
				if j.Kind == jobBatch && len(s.Evals) == 0 && len(s.Viols) == 1 && s.Viols[0].Sub == "batch" {
					// the child died somewhere in the batch
					for _, c := range j.Batch {
						e.merge(r.run(job{Kind: jobSingle, C: c}))
					}
					continue
				}
				e.merge(s)
			}
		}()
	}
	var batch []Case
	size := 0
	flush := func() {
		if len(batch) > 0 {
			ch <- job{Kind: jobBatch, C: Case{Format: batch[0].Format}, Batch: batch}
			batch, size = nil, 0
		}
	}
	produce(func(j job) {
		if !e.has(j.C.Format) {
			return
		}
		if j.Kind == jobSingle && !j.Verbose && len(j.C.Input) <= 32<<10 {
			batch = append(batch, j.C)
			size += len(j.C.Input)
			if len(batch) >= 64 || size >= 256<<10 {
				flush()
			}
			return
		}
		ch <- j
	})
	flush()
	close(ch)
	wg.Wait()
}

// merge folds a child's sink into the report.
func (e *engine) merge(s *sink) {
	repMu.Lock()
	for k, v := range s.Hist {
		e.rep.Hist[k] += v
	}
	for _, ev := range s.Evals {
		e.rep.Eval(ev.Canon, ev.NT)
	}
	e.suspects = append(e.suspects, s.Suspects...)
	if len(e.latchObs) < 6000 {
		e.latchObs = append(e.latchObs, s.Latch...)
	}
	for _, l := range s.Log {
		fmt.Println(l)
	}
	repMu.Unlock()
	for _, v := range s.Viols {
		e.k.add(v)
	}
}
