/-
  Driver component "ds": runs a whole operation history of Model.Dataset in one protocol line.

    ds.run <op> <op> …          →  <out>|<out>|…        (one output per op)
    ds.match <rpn> <term>       →  t | f                (a single term matcher on a term)
    ds.key <term> <term>        →  t | f                (do the two terms intern to the same node key?)
    ds.teq <term> <term>        →  t | f                (TermEquals)

  op   ::= A,s,p,o,g | D,s,p,o,g | H,s,p,o,g | Q,<rpn> | G,g | a,g,s,p,o | d,g,s,p,o | h,g,s,p,o | q,g,<rpn> | s,g,<rpn>
  term ::= - (nil) | I<hex> | Bn | Bd<dec> | Bs<dec>.<dec> | Bt<dec>.<hex> | L<hexdt>.<hexlex>.<tag>
  tag  ::= - | l<hexlang> | d<hexlang>:<hexdir>
  rpn  ::= items separated by ';' evaluated on a stack: a term pushes itself; eq, of<n>, isb, isi, isl,
           ldt, or<n>, and<n>, not build term matchers; ts tp to build triple matchers; qg qs qp qo qt
           build quad matchers. The final stack (bottom first) is the matcher list.
  out  ::= u | t | f | panic | [q;q;…]  with quads/triples printed as s,p,o[,g] and sorted.
-/
import RdfModel.Model.Dataset
namespace RdfModel.Driver.Dataset
open RdfModel.DS

def hexVal (c : Char) : Option Nat :=
  if '0' ≤ c ∧ c ≤ '9' then some (c.toNat - 48)
  else if 'a' ≤ c ∧ c ≤ 'f' then some (c.toNat - 87)
  else none

def unhex : List Char → Option Bytes
  | [] => some []
  | a :: b :: rest => do
    let x ← hexVal a
    let y ← hexVal b
    let r ← unhex rest
    pure ((x * 16 + y) :: r)
  | _ => none

def hexDigit (n : Nat) : Char := if n < 10 then Char.ofNat (48 + n) else Char.ofNat (87 + n)
def hex (bs : Bytes) : String := String.ofList (bs.flatMap (fun b => [hexDigit (b / 16 % 16), hexDigit (b % 16)]))

def dec (cs : List Char) : Option Nat :=
  if cs.isEmpty then none
  else cs.foldl (fun acc c => acc.bind (fun n => if '0' ≤ c ∧ c ≤ '9' then some (n * 10 + (c.toNat - 48)) else none)) (some 0)

/-- split a char list on a separator -/
def splitOn (sep : Char) (cs : List Char) : List (List Char) :=
  let (cur, acc) := cs.foldr (fun c (cur, acc) => if c = sep then ([], cur :: acc) else (c :: cur, acc)) ([], [])
  cur :: acc

def parseTag : List Char → Option (Option Tag)
  | ['-'] => some none
  | 'l' :: rest => (unhex rest).map (fun l => some (.lang l))
  | 'd' :: rest =>
    match splitOn ':' rest with
    | [l, d] => do
      let l ← unhex l
      let d ← unhex d
      pure (some (.dirLang l d))
    | _ => none
  | _ => none

/-- `some none` = nil -/
def parseTerm : List Char → Option (Option Term)
  | ['-'] => some none
  | 'I' :: rest => (unhex rest).map (fun b => some (.iri b))
  | ['B', 'n'] => some (some (.bnode none))
  | 'B' :: 'd' :: rest => (dec rest).map (fun v => some (.bnode (some (.dflt v))))
  | 'B' :: 's' :: rest =>
    match splitOn '.' rest with
    | [f, v] => do
      let f ← dec f
      let v ← dec v
      pure (some (.bnode (some (.scoped f v))))
    | _ => none
  | 'B' :: 't' :: rest =>
    match splitOn '.' rest with
    | [f, v] => do
      let f ← dec f
      let v ← unhex v
      pure (some (.bnode (some (.str f v))))
    | _ => none
  | 'L' :: rest =>
    match splitOn '.' rest with
    | [d, l, t] => do
      let d ← unhex d
      let l ← unhex l
      let t ← parseTag t
      pure (some (.lit ⟨d, l, t⟩))
    | _ => none
  | _ => none

def showTag : Option Tag → String
  | none => "-"
  | some (.lang l) => "l" ++ hex l
  | some (.dirLang l d) => "d" ++ hex l ++ ":" ++ hex d

def showTerm : Term → String
  | .iri v => "I" ++ hex v
  | .bnode none => "Bn"
  | .bnode (some (.dflt v)) => "Bd" ++ toString v
  | .bnode (some (.scoped f v)) => "Bs" ++ toString f ++ "." ++ toString v
  | .bnode (some (.str f v)) => "Bt" ++ toString f ++ "." ++ hex v
  | .lit l => "L" ++ hex l.dt ++ "." ++ hex l.lex ++ "." ++ showTag l.tag

def showOptTerm : Option Term → String
  | none => "-"
  | some t => showTerm t

def showQuad (q : Quad) : String :=
  showTerm q.s ++ "," ++ showTerm q.p ++ "," ++ showTerm q.o ++ "," ++ showOptTerm q.g
def showTriple (t : Triple) : String :=
  showTerm t.s ++ "," ++ showTerm t.p ++ "," ++ showTerm t.o

def sortStrings (l : List String) : List String := l.mergeSort (fun a b => !(b < a))

def showOut : Out → String
  | .unit => "u"
  | .bool true => "t"
  | .bool false => "f"
  | .panic => "panic"
  | .quads l => "[" ++ String.intercalate ";" (sortStrings (l.map showQuad)) ++ "]"
  | .triples l => "[" ++ String.intercalate ";" (sortStrings (l.map showTriple)) ++ "]"
  | .terms l => "[" ++ String.intercalate ";" (sortStrings (l.map showTerm)) ++ "]"

/-! RPN matcher expressions -/

inductive Item where
  | term (t : Option Term)
  | tm (m : TM)
  | trm (m : TrM)
  | qm (m : QM)

def popTerms : Nat → List Item → Option (List (Option Term) × List Item)
  | 0, st => some ([], st)
  | n + 1, .term t :: st => (popTerms n st).map (fun (ts, st') => (ts ++ [t], st'))
  | _, _ => none

def popTMs : Nat → List Item → Option (List TM × List Item)
  | 0, st => some ([], st)
  | n + 1, .tm m :: st => (popTMs n st).map (fun (ms, st') => (ms ++ [m], st'))
  | _, _ => none

/-- the stack is a list with the top first -/
def rpnStep (st : List Item) (tok : List Char) : Option (List Item) :=
  match tok, st with
  | ['e', 'q'], .term (some t) :: st => some (.tm (.equals t) :: st)
  | 'o' :: 'f' :: n, st => do
    let n ← dec n
    let (ts, st') ← popTerms n st
    pure (.tm (equalsOneOf ts) :: st')
  | ['i', 's', 'b'], st => some (.tm .isBlankNode :: st)
  | ['i', 's', 'i'], st => some (.tm .isIRI :: st)
  | ['i', 's', 'l'], st => some (.tm .isLiteral :: st)
  | ['l', 'd', 't'], .tm m :: st => some (.tm (.isLiteralDatatype m) :: st)
  | 'o' :: 'r' :: n, st => do
    let n ← dec n
    let (ms, st') ← popTMs n st
    pure (.tm (.or ms) :: st')
  | 'a' :: 'n' :: 'd' :: n, st => do
    let n ← dec n
    let (ms, st') ← popTMs n st
    pure (.tm (.and ms) :: st')
  | ['n', 'o', 't'], .tm m :: st => some (.tm (.not m) :: st)
  | ['t', 's'], .tm m :: st => some (.trm (.subject m) :: st)
  | ['t', 'p'], .tm m :: st => some (.trm (.predicate m) :: st)
  | ['t', 'o'], .tm m :: st => some (.trm (.object m) :: st)
  | ['q', 'g'], .tm m :: st => some (.qm (.graphName m) :: st)
  | ['q', 's'], .tm m :: st => some (.qm (.subject m) :: st)
  | ['q', 'p'], .tm m :: st => some (.qm (.predicate m) :: st)
  | ['q', 'o'], .tm m :: st => some (.qm (.object m) :: st)
  | ['q', 't'], .trm m :: st => some (.qm (.triple m) :: st)
  | tok, st => (parseTerm tok).map (fun t => .term t :: st)

def rpn (cs : List Char) : Option (List Item) :=
  if cs.isEmpty then some []
  else ((splitOn ';' cs).foldl (fun st tok => st.bind (fun s => rpnStep s tok)) (some [])).map List.reverse

def asQMs : List Item → Option (List QM)
  | [] => some []
  | .qm m :: rest => (asQMs rest).map (m :: ·)
  | _ => none

def asTrMs : List Item → Option (List TrM)
  | [] => some []
  | .trm m :: rest => (asTrMs rest).map (m :: ·)
  | _ => none

def asTMs : List Item → Option (List TM)
  | [] => some []
  | .tm m :: rest => (asTMs rest).map (m :: ·)
  | _ => none

def parseOp (tok : String) : Option Op :=
  match splitOn ',' tok.toList with
  | [['A'], s, p, o, g] => do pure (.addQuad ⟨← parseTerm s, ← parseTerm p, ← parseTerm o, ← parseTerm g⟩)
  | [['D'], s, p, o, g] => do pure (.deleteQuad ⟨← parseTerm s, ← parseTerm p, ← parseTerm o, ← parseTerm g⟩)
  | [['H'], s, p, o, g] => do pure (.hasQuad ⟨← parseTerm s, ← parseTerm p, ← parseTerm o, ← parseTerm g⟩)
  | [['Q'], e] => do pure (.iterQuads (← asQMs (← rpn e)))
  | [['G'], g] => do pure (.getGraph (← parseTerm g))
  | [['a'], g, s, p, o] => do pure (.viewAdd (← parseTerm g) ⟨← parseTerm s, ← parseTerm p, ← parseTerm o⟩)
  | [['d'], g, s, p, o] => do pure (.viewDelete (← parseTerm g) ⟨← parseTerm s, ← parseTerm p, ← parseTerm o⟩)
  | [['h'], g, s, p, o] => do pure (.viewHas (← parseTerm g) ⟨← parseTerm s, ← parseTerm p, ← parseTerm o⟩)
  | [['q'], g, e] => do pure (.viewIter (← parseTerm g) (← asTrMs (← rpn e)))
  | [['s'], g, e] => do pure (.viewSubjects (← parseTerm g) (← asTMs (← rpn e)))
  | _ => none

def parseOps : List String → Option (List Op)
  | [] => some []
  | t :: rest => do
    let op ← parseOp t
    let ops ← parseOps rest
    pure (op :: ops)

def tf (b : Bool) : String := if b then "t" else "f"

def handle (op : String) (args : List String) : Option String :=
  match op, args with
  | "run", toks => do
    let ops ← parseOps toks
    pure (String.intercalate "|" ((run init ops).2.map showOut))
  | "match", [e, t] => do
    let t ← parseTerm t.toList
    match ← rpn e.toList with
    | [.tm m] => pure (tf (m.matches t))
    | _ => none
  | "key", [a, b] => do
    let a ← (← parseTerm a.toList)
    let b ← (← parseTerm b.toList)
    pure (tf (keyOf a == keyOf b))
  | "teq", [a, b] => do
    let a ← (← parseTerm a.toList)
    let b ← parseTerm b.toList
    pure (tf (a.termEquals b))
  | _, _ => none

end RdfModel.Driver.Dataset
