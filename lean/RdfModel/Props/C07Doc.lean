/-
  C07 at document level — "every Turtle document is TriG": what the document-level development of
  C08 (`Props/C08Doc.lean`) adds to `Props/C07Ttl.lean`.

  `C07.ttl_sub_trig` (Props/C07Ttl.lean, a `def`) quantifies over ALL inputs the Turtle run accepts,
  grammatical or not; that statement needs a stuttering simulation between the two top-level scan
  functions (Turtle re-scans the subject token, TriG produces it at once and decides in `E1`) and
  is still NOT proved.  PROVED here, for the configuration the driver runs:

    * `gen_tables_eq` — the regenerated Turtle and TriG tables are the same `Tables` value, so the
      two packages are run with the same token producers and character classes;
    * `ttl_sub_trig_grammatical_partial` — for every well-formed Turtle document (any nesting, every
      lexical and layout choice of the printer of `Spec/TurtleAbstract.lean`, default base present
      or absent; minus the three findings of C08) the Turtle run and the TriG run on the SAME text
      end cleanly with the SAME statements, all in the default graph.  I.e. `ttl_sub_trig`
      restricted to the image of the grammar-directed printer.  What is missing for the full
      statement: inputs outside that image which the Turtle run nevertheless accepts (leniencies
      such as `@prefixex: <x> .` or non-grammar white space), and the three finding classes.

  `C07.nt_sub_ttl` (N-Triples ⊂ Turtle) is not proved either; the token-level inclusions are in
  `Props/C07Tokens.lean`, the Go-side oracle (all four decoders on generated N-Triples documents and
  on the W3C files) is in go/cmd/c05ttl and go/cmd/c08.
-/
import RdfModel.Props.C08Doc
import RdfModel.Props.C07Ttl
import RdfModel.Props.C07Tables
namespace RdfModel.C07
open RdfModel RdfModel.TA RdfModel.TtlDoc RdfModel.C08

/-- The regenerated tables of the two packages coincide (T1, `tables_agree`). -/
theorem gen_tables_eq : Gen.turtle = Gen.trig := by
  obtain ⟨⟨h1, _, _⟩, ⟨h2, _, _⟩, ⟨h3, h4, _, _⟩, _⟩ := tables_agree
  simp only [Gen.turtle, Gen.trig, h1, h2, h3, h4]

/-- a document without graph blocks that is well-formed Turtle is well-formed TriG -/
theorem docWf_trig (T : Ttl.Tables) (doc : Doc) (h : docWf T false doc = true) : docWf T true doc = true := by
  simp only [docWf, List.all_eq_true] at h ⊢
  intro b hb
  have := h b hb
  cases b with
  | dir d => simpa [blockWf] using this
  | triples t => simpa [blockWf] using this
  | graph kw g body => simp [blockWf] at this

/-- Every grammatical Turtle document decodes with the TriG decoder to the same triples, all in the
    default graph (model level, both runs on the same printed text). -/
theorem ttl_sub_trig_grammatical_partial (resolve : Option (List Nat) → List Nat → Option (List Nat))
    (base : Option (List Nat)) (pf : List (List Nat × List Nat)) (doc : Doc) (ch : Choices) (qs : List QuadB)
    (hwf : docWf Gen.turtle false doc = true) (hnb : docNoBoolPfx doc = true) (hch : choicesOK ch = true)
    (hd : denote resolve base pf doc = some qs) :
    ∃ ts,
      run (C05.realCfg false resolve (inRanges Gen.unicodeSpace)) .eof base pf (print Gen.turtle doc ch) = (ts, .clean) ∧
      run (C05.realCfg true resolve (inRanges Gen.unicodeSpace)) .eof base pf (print Gen.turtle doc ch) = (ts, .clean) ∧
      sameTriples ts ts := by
  have h1 := decode_print_real false resolve base pf doc ch qs hwf hnb hch hd
  have h2 := decode_print_real true resolve base pf doc ch qs
    (by simp only [if_true]; rw [← gen_tables_eq]; exact docWf_trig _ _ hwf) hnb hch hd
  simp only [Bool.false_eq_true, if_false] at h1
  simp only [if_true] at h2
  rw [← gen_tables_eq] at h2
  refine ⟨_, h1, h2, rfl, ?_⟩
  intro q hq
  have := C06.ttl_default_graph resolve (inRanges Gen.unicodeSpace) .eof base pf (print Gen.turtle doc ch) q
  rw [h1] at this
  exact this hq

end RdfModel.C07
