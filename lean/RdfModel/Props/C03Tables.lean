/-
  Property C03 — table fact for the label classes regenerated from /repo on this run: the characters
  of a canonical identifier `c14n<decimal>` are admissible blank node label characters of the
  N-Quads decoder (needed to read the canonical output back, `parses_back`).
-/
import RdfModel.Proofs.C03Parse
import RdfModel.Gen.NQTables
namespace RdfModel.C03
open RdfModel

theorem gen_nquads_label : Proofs.C03.TablesLabel Gen.nquads where
  cU := by decide
  c1 := by decide
  c4 := by decide
  cn := by decide
  digits := fun _ h1 h2 => rangeWithin_sound (rs := Gen.nquads.pnChars) (lo := 0x30) (hi := 0x39) (by decide) h1 h2

end RdfModel.C03
