import RdfModel.Props.C16TtlDocO
import RdfModel.Props.C16TtlDocOSites
#print axioms RdfModel.C16TtlDocO.doc_erasure
#print axioms RdfModel.C16TtlDocO.doc_capture_on_eq_off
#print axioms RdfModel.C16TtlDocO.next_erasure
#print axioms RdfModel.C16TtlDocO.inv_steps
#print axioms RdfModel.C16TtlDocO.doc_commit_discipline
#print axioms RdfModel.C16TtlDocO.doc_commit_discipline_text
#print axioms RdfModel.C16TtlDocO.doc_ranges_inside
#print axioms RdfModel.C16TtlDocO.range_offsets_inside
#print axioms RdfModel.C16TtlDocO.doc_error_offset_inside
#print axioms RdfModel.C16TtlDocO.doc_error_position_inside
#print axioms RdfModel.C16TtlDocO.byte_accounting
#print axioms RdfModel.C16TtlDocO.commit_sites_T2
#print axioms RdfModel.C16TtlDocO.handback_offset_short_legacy
