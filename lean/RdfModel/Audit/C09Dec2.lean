/-
  Audit for part C09D2: axioms used by every theorem of Props/C09Dec2.lean
  (expected: a subset of {propext, Classical.choice, Quot.sound}).
-/
import RdfModel.Props.C09Dec2
open RdfModel RdfModel.RXD RdfModel.C09Dec2

#print axioms RdfModel.C09Dec2.rxd_decode_render_full_partial
#print axioms RdfModel.C09Dec2.rxd_refines_denote_full_partial
#print axioms RdfModel.C09Dec2.rxd_decode_write_full_partial
#print axioms RdfModel.C09Dec2.rxd_refines_denote_id_conditional
#print axioms RdfModel.C09Dec2.rxd_latch
#print axioms RdfModel.C09Dec2.rxd_next_true_has_triple
#print axioms RdfModel.C09Dec2.rxd_next_no_panic
#print axioms RdfModel.C09Dec2.rxd_ioerr_reported
#print axioms RdfModel.C09Dec2.rxd_truncation_reported
#print axioms RdfModel.C09Dec2.rxd_clean_needs_eof
#print axioms RdfModel.C09Dec2.rxd_cut_inside_root
#print axioms RdfModel.C09Dec2.rxd_deterministic
