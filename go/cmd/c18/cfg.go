package main

// Option plumbing of `rdfkit pipe` (builder-c18b): `--out-param` / `--out-base` → encoder options, and the pipe
// into the Turtle and RDF/JSON targets.
//
//	T3   Model/Pipe.lean (`encoderBase`, `nqAscii`, `ttlOptions`, `pipeNQp`, `pipeTtlWith`, `pipeRJ`) against the real
//	     rdfio encoder managers called in-process with raw parameter strings: the model's document must be
//	     byte-identical (Turtle, N-Quads, N-Triples) / token-identical (RDF/JSON, real inspectjson tokenizer) to
//	     what the real manager + encoder write. The effective configuration is therefore tied through its
//	     observable consequences (header, prefixed names, relative references, section order, nesting, escapes).
//	HYP  one fixed probe per hypothesis of the composition theorems (`pipe_preserves_ttl_plain`,
//	     `pipe_preserves_rdfjson`): a dataset / configuration violating it is piped in-process and re-read with
//	     the library decoder; the outcome (rejected / does not round-trip / round-trips anyway) goes to the
//	     histogram as necessity evidence.

import (
	"bytes"
	"context"
	"fmt"
	"os"
	"path/filepath"
	"strings"

	"verifharness/vh"

	"github.com/dpb587/inspectjson-go/inspectjson"
	"github.com/dpb587/rdfkit-go/encoding"
	"github.com/dpb587/rdfkit-go/iri"
	"github.com/dpb587/rdfkit-go/iri/rdfacontext"
	"github.com/dpb587/rdfkit-go/rdf"
	"github.com/dpb587/rdfkit-go/rdfio"
	"github.com/dpb587/rdfkit-go/rdfio/rdfiotypes"
)

func wireParams(ps []string) string {
	if len(ps) == 0 {
		return "-"
	}
	out := make([]string, len(ps))
	for i, p := range ps {
		out[i] = hx(p)
	}
	return strings.Join(out, ",")
}

func jsonTokWire(t inspectjson.Token) string {
	switch v := t.(type) {
	case inspectjson.BeginObjectToken:
		return "O"
	case inspectjson.EndObjectToken:
		return "o"
	case inspectjson.BeginArrayToken:
		return "A"
	case inspectjson.EndArrayToken:
		return "a"
	case inspectjson.NameSeparatorToken:
		return "N"
	case inspectjson.ValueSeparatorToken:
		return "V"
	case inspectjson.StringToken:
		return "S" + vh.XS(v.Content)[1:]
	case inspectjson.NumberToken:
		return "X0"
	case inspectjson.TrueToken:
		return "X1"
	case inspectjson.FalseToken:
		return "X2"
	case inspectjson.NullToken:
		return "X3"
	case inspectjson.WhitespaceToken:
		return "X4"
	}
	return fmt.Sprintf("?%T", t)
}

func jsonTokens(b []byte) string {
	// the strict tokenizer refuses raw C1 controls, which encoding/json writes (known finding C01-rj-c1-control,
	// a defect of the JSON text layer, outside this model): same lax behaviour as go/cmd/c01rj uses for the encoder
	t := inspectjson.NewTokenizer(bytes.NewReader(b), inspectjson.TokenizerConfig{}.SetLaxBehavior(inspectjson.LaxStringEscapeMissingEscape, true))
	var parts []string
	for {
		tok, err := t.Next()
		if err != nil {
			if err.Error() != "EOF" {
				return "tokenizer:" + err.Error()
			}
			break
		}
		parts = append(parts, jsonTokWire(tok))
	}
	if len(parts) == 0 {
		return "-"
	}
	return strings.Join(parts, ",")
}

var targetCti = map[string]encoding.ContentTypeIdentifier{
	"nt": "org.w3.n-triples", "nq": "org.w3.n-quads", "ttl": "org.w3.turtle", "rj": "org.w3.rdf-json",
}

// goPipeOut: the wiring of pipecmd in-process for any of the four targets, raw parameter strings handed to the
// real rdfio encoder manager. `raw` = also return the bytes (for the hypothesis probes).
func goPipeOut(target string, params []string, base string, h string, srcKind string, qs []t3Quad) (res string, body []byte) {
	defer func() {
		if p := recover(); p != nil {
			res = "panic"
		}
	}()
	env := newNodeEnv()
	var rq []rdf.Quad
	for _, q := range qs {
		rq = append(rq, env.quad(q))
	}
	handle := &rdfiotypes.DecoderHandle{Reader: &fakeReader{}}
	if srcKind == "t" {
		handle.Decoder = &fakeTriplesDecoder{qs: rq}
	} else {
		handle.Decoder = &fakeQuadsDecoder{cti: "fake.quads", qs: rq}
	}
	switch h {
	case "strf":
		handle.DecoderBlankNodes = env.f
	case "bnf":
		handle.DecoderBlankNodes = rdf.NewBlankNodeFactory()
	}
	ww := &fakeWriter{iri: "file:///unused"}
	opts := rdfiotypes.EncoderOptions{DecoderPipe: handle, Params: params, BaseIRI: rdf.IRI(base)}
	eh, err := rdfio.Registry.EncoderManagers[targetCti[target]].NewEncoder(ww, opts)
	if err != nil {
		return "openerr", nil
	}
	dq := handle.GetQuadsDecoder()
	eq := eh.GetQuadsEncoder()
	ctx := context.Background()
	k := 0
	for dq.Next() {
		if err := eq.AddQuad(ctx, dq.Quad()); err != nil {
			if target == "nt" || target == "nq" {
				return fmt.Sprintf("werr:%d:%s", k, vh.X(canonUUIDs(ww.Bytes()))), nil
			}
			return "werr", nil
		}
		k++
	}
	if err := eh.Encoder.Close(); err != nil {
		return "werr", nil
	}
	body = append([]byte(nil), ww.Bytes()...)
	if target == "rj" {
		return "ok:" + jsonTokens(canonUUIDs(body)), body
	}
	return "ok:" + vh.X(canonUUIDs(body)), body
}

// ttlPrefixHint: the order `iri.NewPrefixManager(list).GetPrefixMappings()` has for the list the parameters
// describe — the ORDER PARAMETER of the model (Go's unstable sort decides among equally long namespaces, e.g.
// dc / dcterms of the RDFa context). The driver validates the hint (permutation of its own manager's list,
// sorted by namespace length) and answers `bad-order` otherwise, so a wrong hint cannot hide a difference.
func ttlPrefixHint(params []string) string {
	var list []string
	for _, p := range params {
		kv := strings.SplitN(p, "=", 2)
		if kv[0] == "iris.usePrefix" && len(kv) == 2 {
			list = append(list, kv[1])
		}
	}
	if len(list) == 0 {
		list = []string{"rdfa-context"}
	}
	var prefixes iri.PrefixMappingList
	for _, p := range list {
		switch {
		case p == "rdfa-context":
			prefixes = rdfacontext.AppendWidelyUsedInitialContext(prefixes)
		case p == "none":
			prefixes = nil
		default:
			s := strings.SplitN(p, ":", 2)
			if len(s) == 2 {
				prefixes = append(prefixes, iri.PrefixMapping{Prefix: s[0], Expanded: s[1]})
			}
		}
	}
	ms := iri.NewPrefixManager(prefixes).GetPrefixMappings()
	if len(ms) == 0 {
		return "-"
	}
	out := make([]string, len(ms))
	for i, m := range ms {
		out[i] = hx(m.Prefix) + "=" + hx(m.Expanded)
	}
	return strings.Join(out, ",")
}

var boolWords = []string{"true", "false", "1", "0", "t", "f", "T", "F", "TRUE", "FALSE", "True", "False", "yes", "", "tRUE", " true"}

func (g *gen) boolParam(key string) string {
	r := g.r
	switch r.Intn(6) {
	case 0:
		return key
	case 1, 2:
		return key + "=true"
	case 3, 4:
		return key + "=false"
	}
	return key + "=" + vh.Pick(r, boolWords)
}

var cfgBases = []string{"file:///tmp/x/out.ttl", "file:///dev/stdout", "http://example.org/base/doc", "http://e/a/b/c?q#f", "urn:x:base", "http://e/"}

var cfgIRIs = []string{
	"http://schema.org/name", "http://schema.org/Person", "http://purl.org/dc/terms/title", "http://purl.org/dc/elements/1.1/creator",
	"http://xmlns.com/foaf/0.1/name", "http://www.w3.org/2001/XMLSchema#int", "http://ogp.me/ns#title", "http://rdf.data-vocabulary.org/#x",
	"file:///tmp/x/other", "file:///tmp/x/out.ttl", "file:///tmp/x/out.ttl#frag", "file:///tmp/y", "http://example.org/base/doc#it",
	"http://example.org/base/sub/x", "http://example.org/other", "http://e/a/b/d", "http://e/a/b/c?q#g", "http://e/ns/1a", "http://e/ns/a.b",
	"http://e/ns/-x.", "http://e/ns/é", "http://e/ns/a%20b", "urn:x:y", "http://e/ns/", "http://schema.org/", "http://e/a", "http://example.org/é",
	"http://www.w3.org/1999/02/22-rdf-syntax-ns#type", "http://www.w3.org/1999/02/22-rdf-syntax-ns#first", "http://www.w3.org/1999/02/22-rdf-syntax-ns#nil",
	// (builder-c18miss) remainders next to the bases above that a relative reference cannot carry, and local names
	// whose escaping depends on the position counted in characters, not bytes
	"http://example.org/base/Category:Cities", "http://e/a/b/x:y", "file:///tmp/x/a:b", "http://example.org/base/x:y.z", "http://e/a/b//d",
	"http://e/ns/Nestlé_S.A.", "http://schema.org/é.", "http://e/ns/日本.", "http://e/ns/.é", "http://e/ns/3×4",
}

var cfgUserPrefixes = []string{"ex:http://e/ns/", "e:http://e/", "x-y:urn:x:", ":http://example.org/", "dc:http://purl.org/dc/elements/1.1/", "s:http://schema.org/",
	"ab:http://e/ns/a", "é:http://e/ns/"}

func (g *gen) ttlParams() []string {
	r := g.r
	var ps []string
	if r.Chance(50) {
		ps = append(ps, g.boolParam("buffered"))
	}
	if r.Chance(40) {
		ps = append(ps, g.boolParam("iris.useBase"))
	}
	if r.Chance(35) {
		ps = append(ps, g.boolParam("resources"))
	}
	for n := r.Intn(4); n > 0; n-- {
		switch r.Intn(10) {
		case 0:
			ps = append(ps, "iris.usePrefix=rdfa-context")
		case 1, 2:
			ps = append(ps, "iris.usePrefix=none")
		case 3:
			ps = append(ps, vh.Pick(r, []string{"iris.usePrefix", "iris.usePrefix=nocolon", "iris.usePrefix=", "bogus", "ascii", "Buffered=true", "buffered=maybe"}))
		default:
			ps = append(ps, "iris.usePrefix="+vh.Pick(r, cfgUserPrefixes))
		}
	}
	for i := len(ps) - 1; i > 0; i-- {
		j := r.Intn(i + 1)
		ps[i], ps[j] = ps[j], ps[i]
	}
	return ps
}

// effective booleans of a Turtle parameter list as far as the harness needs them to choose comparable inputs
// (generator-side only: which node kinds can be compared byte-wise); last occurrence wins, implied value true.
func lastBool(ps []string, key string, def bool) bool {
	v := def
	for _, p := range ps {
		kv := strings.SplitN(p, "=", 2)
		if kv[0] != key {
			continue
		}
		if len(kv) == 1 {
			v = true
			continue
		}
		switch kv[1] {
		case "1", "t", "T", "true", "TRUE", "True":
			v = true
		case "0", "f", "F", "false", "FALSE", "False":
			v = false
		}
	}
	return v
}

// cfgQuads: statements over the IRIs above; `uuidFree` = only labelled nodes (no node that makes the pass-through
// provider draw a UUID: sorted output would be ordered by the random text).
func (g *gen) cfgQuads(uuidFree bool, oneSubject bool) []t3Quad {
	r := g.r
	graphs := false
	node := func() t3Term {
		k := r.Intn(10)
		if k < 4 || (uuidFree && k < 6) {
			return t3Term{node: &nodeTok{kind: 'S', lab: vh.Pick(r, []string{"x", "b0", "b1", "a.b", "n0.x-y", "é"})}}
		}
		if k < 6 {
			if r.Chance(80) {
				return t3Term{node: &nodeTok{kind: 'A', n: 1 + r.Intn(3)}}
			}
			return t3Term{node: &nodeTok{kind: 'F', n: 1 + r.Intn(2)}}
		}
		t := vh.GTerm{Kind: vh.KIRI, IRI: vh.Pick(r, cfgIRIs)}
		return t3Term{g: &t}
	}
	n := r.Intn(6)
	qs := make([]t3Quad, 0, n)
	for i := 0; i < n; i++ {
		p := vh.GTerm{Kind: vh.KIRI, IRI: vh.Pick(r, cfgIRIs)}
		q := t3Quad{s: node(), p: t3Term{g: &p}}
		switch {
		case r.Chance(35):
			l := r.Literal(vh.IRIOpts{})
			q.o = t3Term{g: &l}
		case r.Chance(15):
			l := vh.GTerm{Kind: vh.KLit, Lex: vh.Pick(r, []string{"5", "05", "-1.50", "1e3", "true", "x", "", "a\"b\nc"}),
				DT: vh.Pick(r, []string{"http://www.w3.org/2001/XMLSchema#integer", "http://www.w3.org/2001/XMLSchema#decimal", "http://www.w3.org/2001/XMLSchema#double", "http://www.w3.org/2001/XMLSchema#boolean", "http://schema.org/Text", "http://e/ns/dt"})}
			q.o = t3Term{g: &l}
		default:
			q.o = node()
		}
		if graphs && r.Chance(30) {
			q.g = node()
		}
		if oneSubject && len(qs) > 0 {
			q.s = qs[0].s
		}
		qs = append(qs, q)
	}
	return qs
}

func wireQuads(qs []t3Quad) string {
	if len(qs) == 0 {
		return "-"
	}
	parts := make([]string, len(qs))
	for j, q := range qs {
		parts[j] = q.wire()
	}
	return strings.Join(parts, ";")
}

type capturedOpts struct{ base rdf.IRI }

type captureManager struct{ got *capturedOpts }

func (m captureManager) GetContentTypeIdentifier() encoding.ContentTypeIdentifier { return "x.capture" }
func (m captureManager) NewEncoderParams() rdfiotypes.Params                      { return nil }
func (m captureManager) NewEncoder(ww rdfiotypes.Writer, opts rdfiotypes.EncoderOptions) (*rdfiotypes.EncoderHandle, error) {
	m.got.base = opts.BaseIRI
	return &rdfiotypes.EncoderHandle{Writer: ww, Encoder: fakeEncoder{cti: "x.capture"}}, nil
}

// goEncoderBase: Registry.OpenEncoder with the options cmdflags.EncodingOutput.Open builds (flags → WriterOptions /
// EncoderOptions + the fallback builder), a real fileresource writer, and a manager that records the BaseIRI it is
// handed.
func goEncoderBase(name, base string) string {
	got := &capturedOpts{}
	reg := rdfio.Registry.Clone()
	reg.EncoderManagers["x.capture"] = captureManager{got: got}
	eh, err := reg.OpenEncoder(context.Background(),
		rdfiotypes.WriterOptions{Name: name},
		rdfiotypes.EncoderOptions{Type: "x.capture", BaseIRI: rdf.IRI(base)},
		encoderFallbackBuilder("org.w3.n-quads"))
	if err != nil {
		return "error:" + err.Error()
	}
	if name != "" && name != "-" {
		eh.Writer.Close()
	}
	return vh.XS(string(got.base))
}

func (g *gen) cfgCases(n int) {
	r := g.r
	// --out / --out-base → EncoderOptions.BaseIRI
	dir := filepath.Join(g.scratch, "cfgout")
	os.MkdirAll(filepath.Join(dir, "sub dir"), 0o755)
	for i := 0; i < n/8+4; i++ {
		name := vh.Pick(r, []string{"", "-", filepath.Join(dir, "o.ttl"), "file://" + filepath.Join(dir, "o.nq"), filepath.Join(dir, "sub dir", "é.rj"),
			filepath.Join(dir, "sub dir", "..", "o2.ttl"), filepath.Join(dir, "o")})
		base := vh.Pick(r, []string{"", "", "http://example.org/b", "rel", "file:///x", "é"})
		g.add("encbase", fmt.Sprintf("pipe.encbase %s %s", vh.XS(name), vh.XS(base)), []string{goEncoderBase(name, base)}, false, name != "" || base != "")
	}
	// N-Triples / N-Quads with raw parameters
	for i := 0; i < n/4; i++ {
		quads := r.Bool()
		var ps []string
		for k := r.Intn(3); k > 0; k-- {
			if r.Chance(85) {
				ps = append(ps, g.boolParam("ascii"))
			} else {
				ps = append(ps, vh.Pick(r, []string{"buffered", "ASCII=true", "ascii=yes", "", "=true"}))
			}
		}
		h := vh.Pick(r, []string{"strf", "strf", "bnf", "nil"})
		src := vh.Pick(r, []string{"t", "q"})
		qs := g.t3Quads(quads)
		tgt := "nt"
		if quads {
			tgt = "nq"
		}
		goR, _ := goPipeOut(tgt, ps, "file:///out", h, src, qs)
		g.add("nqp", fmt.Sprintf("pipe.nqp %s %s %s %s %s", vh.B01(quads), wireParams(ps), h, src, wireQuads(qs)), []string{goR}, false, len(qs) > 0 || len(ps) > 0)
		g.rep.Count(fmt.Sprintf("cfg:nq-params:%d", len(ps)))
	}
	// Turtle
	for i := 0; i < n; i++ {
		ps := g.ttlParams()
		base := vh.Pick(r, cfgBases)
		buffered := lastBool(ps, "buffered", true)
		resources := lastBool(ps, "resources", false)
		h := vh.Pick(r, []string{"strf", "strf", "strf", "bnf", "nil"})
		if resources {
			// the Go encoder asks for labels at Close, in writing order: only the pass-through of source labels is
			// independent of that order (see Model/Pipe.lean `pipeTtlWith`)
			h = "strf"
		}
		uuidFree := h == "strf" && (buffered || resources)
		src := vh.Pick(r, []string{"t", "q"})
		// unbuffered + resources: the sections leave in the (random) order of Go's subject map — one subject only
		qs := g.cfgQuads(uuidFree, resources && !buffered)
		goR, _ := goPipeOut("ttl", ps, base, h, src, qs)
		line := fmt.Sprintf("pipe.ttl %s %s %s %s %s %s", wireParams(ps), vh.XS(base), ttlPrefixHint(ps), h, src, wireQuads(qs))
		g.add("ttl", line, []string{goR}, true, len(qs) > 0)
		g.rep.Count(fmt.Sprintf("cfg:ttl:buffered=%v,resources=%v", buffered, resources))
		g.rep.Count("cfg:ttl:go:" + strings.SplitN(goR, ":", 2)[0])
	}
	// RDF/JSON
	for i := 0; i < n/3; i++ {
		var ps []string
		if r.Chance(10) {
			ps = append(ps, vh.Pick(r, []string{"ascii", "buffered=true", ""}))
		}
		h := vh.Pick(r, []string{"strf", "strf", "bnf", "nil"})
		src := vh.Pick(r, []string{"t", "q"})
		qs := g.cfgQuads(h == "strf", false)
		goR, _ := goPipeOut("rj", ps, "file:///out", h, src, qs)
		g.add("rj", fmt.Sprintf("pipe.rj %s %s %s %s", wireParams(ps), h, src, wireQuads(qs)), []string{goR}, false, len(qs) > 0)
		g.rep.Count("cfg:rj:go:" + strings.SplitN(goR, ":", 2)[0])
	}
}

// ---------------------------------------------------------------- hypothesis probes

func iriT(s string) t3Term { t := vh.GTerm{Kind: vh.KIRI, IRI: s}; return t3Term{g: &t} }
func litT(lex, dt, lang string) t3Term {
	t := vh.GTerm{Kind: vh.KLit, Lex: lex, DT: dt, Lang: lang}
	return t3Term{g: &t}
}
func lblT(l string) t3Term { return t3Term{node: &nodeTok{kind: 'S', lab: l}} }

type hypProbe struct {
	name   string // hypothesis violated
	target string
	params []string
	base   string
	qs     []t3Quad
}

var hypProbes = []hypProbe{
	// control: satisfies every hypothesis
	{"none(control)", "ttl", nil, "file:///tmp/x/out.ttl", []t3Quad{{s: lblT("x"), p: iriT("http://schema.org/name"), o: litT("5", "http://www.w3.org/2001/XMLSchema#integer", "")}, {s: iriT("file:///tmp/x/other"), p: iriT("http://e/p"), o: lblT("x")}}},
	{"none(control)", "rj", nil, "", []t3Quad{{s: lblT("x"), p: iriT("http://e/p"), o: litT("a", vh.RDFLangString, "en")}, {s: iriT("http://e/s"), p: iriT("http://e/p"), o: lblT("x")}}},
	// LabelOK.ok: a source label that is not a BLANK_NODE_LABEL
	{"ttl:LabelOK.ok(label 'a b')", "ttl", nil, "file:///out", []t3Quad{{s: lblT("a b"), p: iriT("http://e/p"), o: iriT("http://e/o")}}},
	// TripleOK / iriOK: an IRI that is not a scalar sequence of IRI characters (invalid UTF-8 byte)
	{"ttl:iriOK(invalid UTF-8 in IRI)", "ttl", []string{"iris.usePrefix=none"}, "file:///out", []t3Quad{{s: iriT("http://e/\xff"), p: iriT("http://e/p"), o: iriT("http://e/o")}}},
	// iriTermOK / stableUnder: written in full next to a base, changed by the resolver (dot segments)
	{"ttl:stableUnder(dot segments next to a base)", "ttl", []string{"iris.usePrefix=none"}, "http://example.org/base/doc", []t3Quad{{s: iriT("http://other.example/a/../b"), p: iriT("http://e/p"), o: iriT("http://e/o")}}},
	// litOK: rdf:langString without a language tag
	{"ttl:litOK(rdf:langString without tag)", "ttl", nil, "file:///out", []t3Quad{{s: iriT("http://e/s"), p: iriT("http://e/p"), o: litT("x", vh.RDFLangString, "")}}},
	// ConfigOK.labels / labelSafe: a prefix label the decoder does not read back as a label
	{"ttl:ConfigOK.labels(prefix label 'true1')", "ttl", []string{"iris.usePrefix=true1:http://e/ns/"}, "file:///out", []t3Quad{{s: iriT("http://e/ns/a"), p: iriT("http://e/ns/p"), o: iriT("http://e/ns/o")}}},
	{"ttl:ConfigOK.labels(prefix label 'a b')", "ttl", []string{"iris.usePrefix=a b:http://e/ns/", "buffered=false"}, "file:///out", []t3Quad{{s: iriT("http://e/ns/a"), p: iriT("http://e/ns/p"), o: iriT("http://e/o")}}},
	// ConfigOK.ns: a namespace that is not made of IRI characters
	{"ttl:ConfigOK.ns(namespace with '>')", "ttl", []string{"iris.usePrefix=ex:http://e/n>s/", "buffered=false"}, "file:///out", []t3Quad{{s: iriT("http://e/n>s/a"), p: iriT("http://e/p"), o: iriT("http://e/o")}}},
	// ConfigOK.base / baseOK: a base that is not absolute
	{"ttl:ConfigOK.base(relative --out-base)", "ttl", []string{"iris.usePrefix=none"}, "rel/base", []t3Quad{{s: iriT("rel/x"), p: iriT("http://e/p"), o: iriT("http://e/o")}}},
	// RDF/JSON WFSubject: an IRI subject that starts with `_:`
	{"rj:WFSubject(IRI '_:x')", "rj", nil, "", []t3Quad{{s: iriT("_:x"), p: iriT("http://e/p"), o: iriT("http://e/o")}}},
	// RDF/JSON labels non-empty: not violable through the pipe — the string factory turns an empty identifier into a
	// fresh anonymous node (NewStringBlankNode), which the provider labels with a UUID: expected to round-trip
	{"rj:label≠[](empty identifier = fresh node in the factory: not violable)", "rj", nil, "", []t3Quad{{s: lblT(""), p: iriT("http://e/p"), o: iriT("http://e/o")}, {s: iriT("http://e/s"), p: iriT("http://e/p"), o: lblT("")}}},
	// RDF/JSON WFLit: rdf:langString without tag; empty datatype
	{"rj:WFLit(rdf:langString without tag)", "rj", nil, "", []t3Quad{{s: iriT("http://e/s"), p: iriT("http://e/p"), o: litT("x", vh.RDFLangString, "")}}},
	{"rj:WFLit(empty datatype)", "rj", nil, "", []t3Quad{{s: iriT("http://e/s"), p: iriT("http://e/p"), o: litT("x", "", "")}}},
}

// hypCases runs the probes. A probe of a violated hypothesis is EXPECTED to be rejected or not to round-trip;
// `roundtrips` for one of them is recorded (not an error: a hypothesis of a theorem is sufficient, and an upstream
// repair may make it unnecessary), but the two controls must round-trip, otherwise the probe machinery is broken.
func (g *gen) hypCases() {
	g.rep.Exhaustive = append(g.rep.Exhaustive, fmt.Sprintf("hypothesis probes of pipe_preserves_ttl_plain / pipe_preserves_rdfjson: %d fixed cases (2 controls + one violation per hypothesis that can be violated through the pipe), each piped in-process through the real encoder manager and re-read with the library decoder", len(hypProbes)))
	for _, p := range hypProbes {
		res, body := goPipeOut(p.target, p.params, p.base, "strf", "t", p.qs)
		outcome := ""
		switch {
		case !strings.HasPrefix(res, "ok:"):
			outcome = "rejected(" + strings.SplitN(res, ":", 2)[0] + ")"
		default:
			env := newNodeEnv()
			var want []rdf.Quad
			for _, q := range p.qs {
				want = append(want, env.quad(q))
			}
			got, err := decodeOutput(string(targetCti[p.target]), body)
			switch {
			case err != nil:
				outcome = "output-unreadable"
			case !vh.Isomorphic(got, want):
				outcome = "not-isomorphic"
			default:
				outcome = "roundtrips"
			}
		}
		g.rep.Count("hyp:" + p.name + " ⇒ " + outcome)
		g.rep.Eval("hyp:"+p.name, true)
		if strings.HasPrefix(p.name, "none(control)") && outcome != "roundtrips" {
			g.rep.Add(vh.Case{Kind: "disagreement", Op: "hyp-control " + p.target, Detail: "a dataset satisfying every hypothesis of the composition theorem did not round-trip in-process: " + outcome + " " + res})
		}
	}
}
