/-
  Proofs for part C10C: `fuelFor loc` units of fuel suffice — Context Processing never answers `fuel`.
  Invariant: the set of terms `defined` knows only grows (`DG`); every Create Term Definition call that
  goes past step 1 adds its term, so the number of members of the context definition not yet in `defined`
  (`undef`) bounds the nesting of Create Term Definition and IRI Expansion; a scoped context is a proper
  sub-value.
-/
import RdfModel.Proofs.C10CtxRefine
namespace RdfModel.JLC
open RdfModel RdfModel.JL

variable {P : Type}

def DGL (a b : List (Str × Bool)) : Prop := ∀ k, mget k a ≠ none → mget k b ≠ none

def DG (a b : St P) : Prop := DGL a.defined b.defined

theorem DGL.refl (a : List (Str × Bool)) : DGL a a := fun _ h => h
theorem DG.refl (a : St P) : DG a a := DGL.refl _
theorem DG.trans {a b c : St P} (h1 : DG a b) (h2 : DG b c) : DG a c := fun k h => h2 k (h1 k h)

theorem mget_cons {α : Type} (k t : Str) (v : α) (b : List (Str × α)) :
    mget k ((t, v) :: b) = if k == t then some v else mget k b := by
  simp only [mget, List.lookup]
  cases h : k == t <;> simp

theorem DGL_cons {a b : List (Str × Bool)} (t : Str) (v : Bool) (h : DGL a b) : DGL a ((t, v) :: b) := by
  intro k hk
  rw [mget_cons]
  split
  · simp
  · exact h k hk

def Res.Good {α : Type} (b : St P) : Res P α → Prop
  | .ok _ s => DG b s
  | .err _ s => DG b s
  | .fuel => False
  | _ => True

def Out.NoFuel {α : Type} : Out α → Prop
  | .fuel => False
  | _ => True

theorem Res.Good.bind {α β : Type} {b : St P} {r : Res P α} {f : α → St P → Res P β}
    (hr : r.Good b) (hf : ∀ a s, DG b s → (f a s).Good b) : (r.bind f).Good b := by
  cases r <;> simp_all [Res.bind, Res.Good]

theorem Res.Good.weaken {α : Type} {a b : St P} {r : Res P α} (h : DG a b) (hr : r.Good b) : r.Good a := by
  cases r <;> simp_all [Res.Good]
  · exact DG.trans h hr
  · exact DG.trans h hr

theorem Out.NoFuel.bind {α β : Type} {r : Out α} {f : α → Out β}
    (hr : r.NoFuel) (hf : ∀ a, (f a).NoFuel) : (r.bind f).NoFuel := by
  cases r <;> simp_all [Out.bind, Out.NoFuel]

/-- closes a goal `Good b (.ok _ s)` / `Good b (.err _ s)` where `s` is a state known to extend `b`, possibly
    with more entries consed onto `defined` or with another context -/
macro "good_state" : tactic =>
  `(tactic| first
    | (show DG _ _; assumption)
    | (show DGL _ _; assumption)
    | (show DGL _ _; exact DGL.refl _)
    | (show DGL _ _; apply DGL_cons; assumption)
    | (show DGL _ _; apply DGL_cons; apply DGL_cons; assumption)
    | trivial)

macro "gd_split" : tactic =>
  `(tactic| repeat' (first | (refine Res.Good.bind ?_ (fun _ _ _ => ?_)) | split | dsimp only))

theorem suppressCyclic_good (b : St P) (keep : St P → Bool) (r : Res P Unit) (h : r.Good b) :
    (suppressCyclic keep r).Good b := by
  unfold suppressCyclic
  split
  · split <;> exact h
  · exact h

theorem expandTail_good (ops : IriOps P) (b : St P) (c : Core P) (st : St P) (s : Str) (d v : Bool) (hst : DG b st) :
    (expandTail ops c st s d v).Good b := by
  unfold expandTail
  repeat' split
  all_goals good_state

theorem iriExpandRest_good (ops : IriOps P) (b : St P) (ctdCb : St P → Str → Res P Unit)
    (loc : Option (List (Str × Json)))
    (hc : ∀ st t ms, loc = some ms → hasKey t ms = true → DG b st → (ctdCb st t).Good b)
    (st : St P) (s : Str) (d v : Bool) (hst : DG b st) : (iriExpandRest ops ctdCb loc st s d v).Good b := by
  unfold iriExpandRest
  repeat' (first | (refine Res.Good.bind ?_ (fun _ _ _ => ?_)) | apply suppressCyclic_good | split | dsimp only)
  all_goals (first | good_state | (exact expandTail_good ops b _ _ _ _ _ (by assumption)) | skip)
  all_goals (apply hc _ _ _ rfl (by simp_all) (by assumption))

theorem iriExpandBody_good (ops : IriOps P) (b : St P) (ctdCb : St P → Str → Res P Unit)
    (loc : Option (List (Str × Json)))
    (hc : ∀ st t ms, loc = some ms → hasKey t ms = true → DG b st → (ctdCb st t).Good b)
    (st : St P) (s : Str) (d v : Bool) (hst : DG b st) : (iriExpandBody ops ctdCb loc st s d v).Good b := by
  unfold iriExpandBody
  repeat' (first | (refine Res.Good.bind ?_ (fun _ _ _ => ?_)) | apply suppressCyclic_good | split | dsimp only)
  all_goals (first | good_state | (exact iriExpandRest_good ops b ctdCb _ hc _ _ _ _ (by assumption)) | skip)
  all_goals (apply hc _ _ _ rfl (by simp_all) (by assumption))

theorem typeStep_good (mode : Mode) (b : St P) (expand : St P → Str → Bool → Res P SIri)
    (he : ∀ st s v, DG b st → (expand st s v).Good b) (vo : List (Str × Json)) (st : St P) (hst : DG b st) :
    (typeStep mode expand vo st).Good b := by
  unfold typeStep
  gd_split
  all_goals (first | good_state | exact he _ _ _ (by assumption))

theorem indexExpand_good (mode : Mode) (b : St P) (expand : St P → Str → Bool → Res P SIri)
    (he : ∀ st s v, DG b st → (expand st s v).Good b) (v : Json) (st : St P) (hst : DG b st) :
    (indexExpand mode expand v st).Good b := by
  unfold indexExpand
  gd_split
  all_goals (first | good_state | exact he _ _ _ (by assumption))

theorem reverseStep_good (mode : Mode) (b : St P) (expand : St P → Str → Bool → Res P SIri)
    (he : ∀ st s v, DG b st → (expand st s v).Good b) (term : Str) (vo : List (Str × Json)) (rv : Json) (prot : Bool)
    (tm : Option SIri × Option Str) (st : St P) (hst : DG b st) :
    (reverseStep mode expand term vo rv prot tm st).Good b := by
  unfold reverseStep
  gd_split
  all_goals (try good_state)
  all_goals (try exact he _ _ _ (by assumption))
  all_goals (apply indexExpand_good mode b expand he; good_state)

theorem iriStep_good (mode : Mode) (b : St P) (expand : St P → Str → Bool → Res P SIri) (ctdCb : St P → Str → Res P Unit)
    (he : ∀ st s v, DG b st → (expand st s v).Good b) (loc : List (Str × Json))
    (hc : ∀ st t, hasKey t loc = true → DG b st → (ctdCb st t).Good b)
    (term : Str) (vo : List (Str × Json)) (simple : Bool) (tm : Option SIri) (st : St P) (hst : DG b st) :
    (iriStep mode expand ctdCb loc term vo simple tm st).Good b := by
  unfold iriStep
  gd_split
  all_goals (first | good_state | (apply he; good_state) | (apply hc; assumption; assumption))

/-- the scoped contexts Create Term Definition validates for `term`: the `@context` entry of its value -/
def ScopedOf (loc : List (Str × Json)) (term : Str) (j : Json) : Prop :=
  ∃ value vo simple, getKey term loc = some value ∧ normalizeValue value = .ok (vo, simple) ∧ getKey kContext vo = some j

theorem ctdBody_good (mode : Mode) (expand : St P → Str → Bool → Res P SIri) (ctdCb : St P → Str → Res P Unit)
    (nested : Context P → Json → Out (Context P)) (loc : List (Str × Json)) (st : St P) (term : Str)
    (he : mget term st.defined = none → ∀ s x v, DG { st with defined := (term, false) :: st.defined } s →
      (expand s x v).Good { st with defined := (term, false) :: st.defined })
    (hc : mget term st.defined = none → ∀ s t, hasKey t loc = true → DG { st with defined := (term, false) :: st.defined } s →
      (ctdCb s t).Good { st with defined := (term, false) :: st.defined })
    (hn : ∀ c j, ScopedOf loc term j → (nested c j).NoFuel)
    (baseStr : Option Str) (prot ov : Bool) :
    (ctdBody mode expand ctdCb nested loc st term baseStr prot ov).Good st := by
  unfold ctdBody
  split
  · exact DG.refl _
  · exact DG.refl _
  rename_i hnone
  replace he := he hnone
  replace hc := hc hnone
  split
  · exact DG.refl _
  dsimp only
  refine Res.Good.weaken (b := { st with defined := (term, false) :: st.defined }) ?_ ?_
  · exact DGL_cons _ _ (DGL.refl _)
  gd_split
  all_goals (try good_state)
  all_goals (try exact he _ _ _ (by good_state))
  all_goals (try (apply typeStep_good mode _ expand he; good_state))
  all_goals (try (apply reverseStep_good mode _ expand he; good_state))
  all_goals (try (apply iriStep_good mode _ expand ctdCb he loc hc; good_state))
  all_goals (try (apply indexExpand_good mode _ expand he; good_state))
  all_goals (try (rename_i heq; exact (heq ▸ hn _ _ ⟨_, _, _, by assumption, by assumption, by assumption⟩ :
    (Out.fuel : Out (Context P)).NoFuel)))

/-! ### the Context Processing side -/

theorem Res.Good.noFuel {α : Type} {b : St P} {r : Res P α} (h : r.Good b) : r.NoFuel := by
  cases r <;> simp_all [Res.Good, Res.NoFuel]

@[simp] theorem Out.noFuel_ok {α : Type} (a : α) : (Out.ok a).NoFuel := trivial
@[simp] theorem Out.noFuel_err {α : Type} (e : Err) : (Out.err e : Out α).NoFuel := trivial
@[simp] theorem Out.noFuel_unmodelled {α : Type} : (Out.unmodelled : Out α).NoFuel := trivial
@[simp] theorem Out.noFuel_panic {α : Type} : (Out.panic : Out α).NoFuel := trivial

theorem foldl_keys_noFuel (f : St P → Str → Res P Unit) :
    ∀ (keys : List Str) (acc : Res P Unit), acc.NoFuel → (∀ st k, k ∈ keys → (f st k).NoFuel) →
      (keys.foldl (fun acc key => acc.bind fun _ st => f st key) acc).NoFuel
  | [], acc, ha, _ => ha
  | k :: ks, acc, ha, hf => by
    simp only [List.foldl_cons]
    apply foldl_keys_noFuel f ks
    · cases acc with
      | ok a s => simp only [Res.bind]; exact hf s k (by simp)
      | _ => simp_all [Res.bind, Res.NoFuel]
    · intro st k' hk'
      exact hf st k' (by simp [hk'])

macro "of_split" : tactic =>
  `(tactic| repeat' (first | (refine Out.NoFuel.bind ?_ (fun _ => ?_)) | split | dsimp only))

theorem termsStep_noFuel (ctdCb : St P → Str → Bool → Res P Unit) (ms : List (Str × Json))
    (hc : ∀ st t b, hasKey t ms = true → (ctdCb st t b).NoFuel) (result : Context P) :
    (termsStep ctdCb result ms).NoFuel := by
  unfold termsStep
  dsimp only
  have h := fun (cp : Bool) => foldl_keys_noFuel (fun st key => ctdCb st key cp) (termKeys ms)
    (Res.ok () { ctx := result, defined := [] }) trivial
    (fun st k (hk : k ∈ termKeys ms) => hc st k cp (hasKey_of_mem_keys k ms (by
      simp only [termKeys, List.mem_filter] at hk; exact hk.1)))
  split
  all_goals (try (simp [Out.NoFuel]; done))
  rename_i heq
  exact (heq ▸ h _ : (Res.fuel : Res P Unit).NoFuel)

theorem vocabStep_noFuel (ops : IriOps P) (mode : Mode) (expandNoLocal : St P → Str → Res P SIri)
    (he : ∀ st s, (expandNoLocal st s).NoFuel) (result : Context P) (ms : List (Str × Json)) :
    (vocabStep ops mode expandNoLocal result ms).NoFuel := by
  unfold vocabStep vocabPre
  of_split
  all_goals (try (simp [Out.NoFuel]; done))
  all_goals (rename_i heq; exact (heq ▸ he _ _ : (Res.fuel : Res P SIri).NoFuel))

theorem processObj_noFuel (ops : IriOps P) (mode : Mode)
    (expandNoLocal : St P → Str → Res P SIri) (ctdCb : St P → Str → Bool → Res P Unit)
    (he : ∀ st s, (expandNoLocal st s).NoFuel) (ms : List (Str × Json))
    (hc : ∀ st t b, hasKey t ms = true → (ctdCb st t b).NoFuel) (result : Context P) :
    (processObj ops mode expandNoLocal ctdCb result ms).NoFuel := by
  unfold processObj
  repeat' (first | (refine Out.NoFuel.bind ?_ (fun _ => ?_)))
  · unfold versionStep; of_split; all_goals simp [Out.NoFuel]
  · unfold importStep; of_split; all_goals simp [Out.NoFuel]
  · unfold baseStep; of_split; all_goals simp [Out.NoFuel]
  · exact vocabStep_noFuel ops mode _ he _ _
  · unfold langStep; of_split; all_goals simp [Out.NoFuel]
  · unfold dirStep; of_split; all_goals simp [Out.NoFuel]
  · unfold propagateStep; of_split; all_goals simp [Out.NoFuel]
  · exact termsStep_noFuel _ _ hc _

theorem processItem_noFuel (ops : IriOps P) (mode : Mode)
    (expandNoLocal : St P → Str → Res P SIri) (ctdCb : List (Str × Json) → St P → Str → Bool → Res P Unit)
    (he : ∀ st s, (expandNoLocal st s).NoFuel) (item : Json)
    (hc : ∀ ms, item = .obj ms → ∀ st t b, hasKey t ms = true → (ctdCb ms st t b).NoFuel)
    (active : Context P) (ov pr : Bool) (result : Context P) :
    (processItem ops mode expandNoLocal ctdCb active ov pr result item).NoFuel := by
  unfold processItem
  split
  · split <;> simp [Out.NoFuel]
  · simp [Out.NoFuel]
  · exact processObj_noFuel ops mode _ _ he _ (hc _ rfl) _
  · simp [Out.NoFuel]

theorem foldl_items_noFuel (f : Context P → Json → Out (Context P)) :
    ∀ (items : List Json) (acc : Out (Context P)), acc.NoFuel → (∀ c j, j ∈ items → (f c j).NoFuel) →
      (items.foldl (fun acc item => acc.bind fun result => f result item) acc).NoFuel
  | [], acc, ha, _ => ha
  | x :: xs, acc, ha, hf => by
    simp only [List.foldl_cons]
    exact foldl_items_noFuel f xs _ (Out.NoFuel.bind ha (fun c => hf c x (by simp)))
      (fun c j hj => hf c j (by simp [hj]))

/-- the items of a local context -/
def itemsOf : Json → List Json
  | .arr xs => xs
  | x => [x]

theorem processBody_noFuel (ops : IriOps P) (mode : Mode)
    (expandNoLocal : St P → Str → Res P SIri) (ctdCb : List (Str × Json) → St P → Str → Bool → Res P Unit)
    (he : ∀ st s, (expandNoLocal st s).NoFuel) (loc : Json)
    (hc : ∀ ms, Json.obj ms ∈ itemsOf loc → ∀ st t b, hasKey t ms = true → (ctdCb ms st t b).NoFuel)
    (active : Context P) (ov pr : Bool) :
    (processBody ops mode expandNoLocal ctdCb active loc ov pr).NoFuel := by
  unfold processBody
  dsimp only
  repeat' split
  all_goals (try (simp [Out.NoFuel]; done))
  all_goals
    apply foldl_items_noFuel
    · simp [Out.NoFuel]
    · intro c j hj
      apply processItem_noFuel ops mode _ _ he
      intro ms hms
      subst hms
      exact hc ms (by unfold itemsOf; split <;> simp_all)

/-! ### counting -/

/-- members of the context definition whose name `defined` does not know -/
def undef (loc : List (Str × Json)) (d : List (Str × Bool)) : Nat :=
  (loc.filter (fun m => (mget m.1 d).isNone)).length

theorem undef_mono {a b : List (Str × Bool)} (h : DGL a b) : ∀ (loc : List (Str × Json)), undef loc b ≤ undef loc a
  | [] => by simp [undef]
  | m :: loc => by
    have ih := undef_mono h loc
    simp only [undef, List.filter_cons] at ih ⊢
    cases hb : mget m.1 b with
    | none =>
      have : mget m.1 a = none := by
        cases ha : mget m.1 a with
        | none => rfl
        | some v => exact absurd hb (h m.1 (by simp [ha]))
      simp [this]; omega
    | some v =>
      simp only [Option.isNone_some, Bool.false_eq_true, if_false]
      split <;> simp <;> omega

theorem undef_cons_lt (term : Str) (v : Bool) (d : List (Str × Bool)) (hd : mget term d = none) :
    ∀ (loc : List (Str × Json)), hasKey term loc = true → undef loc ((term, v) :: d) + 1 ≤ undef loc d
  | [], h => by simp [hasKey] at h
  | m :: loc, h => by
    have hm := undef_mono (DGL_cons term v (DGL.refl d)) loc
    simp only [undef, List.filter_cons] at hm ⊢
    by_cases hk : m.1 = term
    · have h1 : mget m.1 ((term, v) :: d) = some v := by rw [mget_cons]; simp [hk]
      have h2 : mget m.1 d = none := by rw [hk]; exact hd
      simp [h1, h2]; omega
    · have hrest : hasKey term loc = true := by
        simp only [hasKey, List.any_cons, Bool.or_eq_true, beq_iff_eq] at h
        rcases h with h | h
        · exact absurd h hk
        · simpa [hasKey] using h
      have ih := undef_cons_lt term v d hd loc hrest
      simp only [undef] at ih
      have hne : (m.1 == term) = false := by simpa using hk
      rw [mget_cons, hne]
      simp only [Bool.false_eq_true, if_false]
      split <;> simp <;> omega

/-- the fuel a term's scoped context needs -/
def scopedNeed (v : Json) : Nat :=
  match normalizeValue v with
  | .ok (vo, _) => (match getKey kContext vo with
    | some j => fuelFor j
    | none => 0)
  | .error _ => 0

def scopedSum : List (Str × Json) → Nat
  | [] => 0
  | (_, v) :: ms => scopedNeed v + scopedSum ms

theorem scopedNeed_le_of_getKey (term : Str) : ∀ (loc : List (Str × Json)) (value : Json),
    getKey term loc = some value → scopedNeed value ≤ scopedSum loc
  | [], _, h => by simp [getKey] at h
  | (k, v) :: ms, value, h => by
    simp only [getKey] at h
    split at h
    · simp only [Option.some.injEq] at h
      subst h
      simp [scopedSum]
    · have := scopedNeed_le_of_getKey term ms value h
      simp [scopedSum]; omega

theorem scopedOf_le {loc : List (Str × Json)} {term : Str} {j : Json} (h : ScopedOf loc term j) :
    fuelFor j ≤ scopedSum loc := by
  obtain ⟨value, vo, simple, h1, h2, h3⟩ := h
  have := scopedNeed_le_of_getKey term loc value h1
  simp only [scopedNeed, h2, h3] at this
  exact this

theorem jsonSize_getKey (k : Str) : ∀ (ms : List (Str × Json)) (j : Json), getKey k ms = some j →
    1 + jsonSize j ≤ jsonSizeMembers ms
  | [], _, h => by simp [getKey] at h
  | (k', v) :: ms, j, h => by
    simp only [getKey] at h
    split at h
    · simp only [Option.some.injEq] at h
      subst h
      simp [jsonSizeMembers]
    · have := jsonSize_getKey k ms j h
      simp [jsonSizeMembers]; omega

theorem scopedNeed_le (v : Json) : scopedNeed v ≤ 3 * jsonSize v + 1 := by
  unfold scopedNeed normalizeValue
  split
  · rename_i vo simple heq
    split at heq
    · simp only [Except.ok.injEq, Prod.mk.injEq] at heq
      simp [← heq.1, getKey, kId, kContext, asc]
    · simp only [Except.ok.injEq, Prod.mk.injEq] at heq
      simp [← heq.1, getKey, kId, kContext, asc]
    · rename_i ms
      simp only [Except.ok.injEq, Prod.mk.injEq] at heq
      rw [← heq.1]
      split
      · rename_i j hj
        have := jsonSize_getKey kContext ms j hj
        simp [fuelFor, jsonSize]; omega
      · omega
    · simp at heq
  · omega

theorem scopedSum_le : ∀ (ms : List (Str × Json)), scopedSum ms + 2 * ms.length ≤ 3 * jsonSizeMembers ms
  | [] => by simp [scopedSum, jsonSizeMembers]
  | (_, v) :: ms => by
    have := scopedSum_le ms
    have := scopedNeed_le v
    simp [scopedSum, jsonSizeMembers]; omega

theorem fuelFor_obj (ms : List (Str × Json)) : 2 * ms.length + scopedSum ms + 3 ≤ fuelFor (.obj ms) := by
  have := scopedSum_le ms
  simp [fuelFor, jsonSize]; omega

theorem jsonSize_mem : ∀ (xs : List Json) (x : Json), x ∈ xs → jsonSize x ≤ jsonSizeList xs
  | [], _, h => by simp at h
  | y :: ys, x, h => by
    simp only [List.mem_cons] at h
    rcases h with h | h
    · subst h; simp [jsonSizeList]
    · have := jsonSize_mem ys x h
      simp [jsonSizeList]; omega

theorem fuelFor_item (loc x : Json) (h : x ∈ itemsOf loc) : fuelFor x ≤ fuelFor loc := by
  unfold itemsOf at h
  split at h
  · rename_i xs
    have := jsonSize_mem xs x h
    simp [fuelFor, jsonSize]; omega
  · simp only [List.mem_singleton] at h
    subst h
    exact Nat.le_refl _

/-! ### the bound -/

theorem all_fuel (ops : IriOps P) (mode : Mode) : ∀ (n : Nat),
    (∀ loc st s d v, 2 * undef loc st.defined + scopedSum loc + 2 ≤ n →
      (iriExpandStr ops mode n (some loc) st s d v).Good st) ∧
    (∀ st s d v, 1 ≤ n → (iriExpandStr ops mode n none st s d v).Good st) ∧
    (∀ loc st term b p o, hasKey term loc = true → 2 * undef loc st.defined + scopedSum loc + 1 ≤ n →
      (ctd ops mode n loc st term b p o).Good st) ∧
    (∀ active loc b o p, fuelFor loc ≤ n → (processCtx ops mode n active loc b o p).NoFuel)
  | 0 => by
    refine ⟨?_, ?_, ?_, ?_⟩
    · intro loc st s d v h; omega
    · intro st s d v h; omega
    · intro loc st term b p o hk h; omega
    · intro active loc b o p h; simp [fuelFor] at h
  | n + 1 => by
    obtain ⟨hA, hA0, hB, hC⟩ := all_fuel ops mode n
    refine ⟨?_, ?_, ?_, ?_⟩
    · intro loc st s d v hn
      simp only [iriExpandStr]
      apply iriExpandBody_good ops st _ (some loc) _ st s d v (DG.refl _)
      intro st' t ms hl hk hdg
      simp only [Option.some.injEq] at hl
      subst hl
      have hm := undef_mono hdg loc
      exact Res.Good.weaken hdg (hB loc st' t none false false hk (by omega))
    · intro st s d v _
      simp only [iriExpandStr]
      apply iriExpandBody_good ops st _ none _ st s d v (DG.refl _)
      intro st' t ms hl
      simp at hl
    · intro loc st term b p o hk hn
      simp only [ctd]
      apply ctdBody_good
      · intro hnone s x v hdg
        have h1 := undef_cons_lt term false st.defined hnone loc hk
        have h2 := undef_mono hdg loc
        exact Res.Good.weaken hdg (hA loc s x false v (by simp only [] at h2; omega))
      · intro hnone s t hkt hdg
        have h1 := undef_cons_lt term false st.defined hnone loc hk
        have h2 := undef_mono hdg loc
        exact Res.Good.weaken hdg (hB loc s t none false false hkt (by simp only [] at h2; omega))
      · intro c j hs
        have := scopedOf_le hs
        exact hC c j b true true (by omega)
    · intro active loc b o p hn
      simp only [processCtx]
      apply processBody_noFuel
      · intro st s
        exact (hA0 st s true true (by simp [fuelFor] at hn; omega)).noFuel
      · intro ms hms st t pr hk
        have h1 := fuelFor_item loc (.obj ms) hms
        have h2 := fuelFor_obj ms
        have h3 : undef ms st.defined ≤ ms.length := by simp [undef]; exact List.length_filter_le _ _
        exact (hB ms st t b pr o hk (by omega)).noFuel

end RdfModel.JLC
