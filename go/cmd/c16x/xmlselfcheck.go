package main

// Self-check of the oracle's own XML scanner (xmlScan / scanAttrs in whole_xml.go) against encoding/xml,
// the tokenizer the RDF/XML decoder uses (directly with capture off, through the inspectxml wrapper with
// capture on): up to encoding/xml's first error the two must delimit the same tokens and see the same
// attributes in every start tag. A difference is a defect of the HARNESS (class oracle-selfcheck,
// reported as a failure of the check, never matched by a known finding): the range checks and the
// document traits (wholeDocTraits) are only as good as the scanner.

import (
	"bytes"
	"encoding/xml"
	"fmt"
	"strings"
)

func xmlScanSelfCheck(doc []byte) string {
	d := xml.NewDecoder(bytes.NewReader(doc))
	toks := scanDoc(doc, false)
	ti := 0
	prev := int64(0)
	for {
		t, err := d.Token()
		if err != nil {
			return ""
		}
		o := d.InputOffset()
		if o == prev {
			continue // the end element synthesised for `<a/>`
		}
		if ti >= len(toks) || int64(toks[ti].s) != prev || int64(toks[ti].e) != o {
			got := "no further token"
			if ti < len(toks) {
				got = fmt.Sprintf("[%d,%d) kind %c", toks[ti].s, toks[ti].e, toks[ti].kind)
			}
			return fmt.Sprintf("encoding/xml token %T spans [%d,%d) %q, scanner has %s", t, prev, o, clip(string(doc[prev:o]), 80), got)
		}
		if se, ok := t.(xml.StartElement); ok {
			mt := toks[ti]
			if mt.kind != 'S' {
				return fmt.Sprintf("encoding/xml start element at %d, scanner kind %c", prev, mt.kind)
			}
			if len(se.Attr) != len(mt.attrs) {
				return fmt.Sprintf("start tag at %d: encoding/xml sees %d attributes, scanner %d", prev, len(se.Attr), len(mt.attrs))
			}
			for i, a := range se.Attr {
				ma := mt.attrs[i]
				if !strings.HasSuffix(ma.key, a.Name.Local) {
					return fmt.Sprintf("start tag at %d attribute %d: encoding/xml name %q, scanner %q", prev, i, a.Name.Local, ma.key)
				}
				if v, ok := xmlDecodeText(ma.raw, true); !ok || v != a.Value {
					return fmt.Sprintf("start tag at %d attribute %s: encoding/xml value %q, scanner %q (decodes: %v)", prev, ma.key, clip(a.Value, 60), clip(v, 60), ok)
				}
			}
		}
		ti++
		prev = o
	}
}
