/-
  Property C02, DOCUMENT level — the Turtle encoder's whole output (NewEncoder … Close) is accepted by
  the Turtle decoder and decodes to the input graph (theorems only; proofs in
  RdfModel/Proofs/C02Doc*.lean).

  Objects: `Model/TurtleEncoder.lean` (namespace `TtlEnc`, component `ttle`, what the driver runs against
  the Go encoder) and `Model/TurtleDoc.lean` (`TtlDoc.run`, the decoder's statement machine, component
  `ttld`), over the token layer `Model/TurtleTokens.lean` and the tables regenerated from /repo.

  PROVED
    * `writeIRI_expand`        what the decoder reads back from `writeIRI`'s text is the IRI — prefixed
                               name (C13 compaction + `pname_roundtrip`), relative reference (C13
                               `relativize_checked` + `iriref_roundtrip`), full `<…>`;
    * `plain_doc_roundtrip`    plain-triple mode (AddTriple … Close), EVERY configuration: buffered or
                               not, sorted or not, `@`-style / SPARQL-style / disabled directives (base and
                               prefix kinds independently; disabled kinds handed to the decoder as defaults),
                               header with all prefixes (unbuffered) or the used ones (buffered): the
                               encoder does not fail, the decoder accepts, and the triples come back
                               exactly (as a permutation when sections are sorted);
                               `plain_doc_iso` restates it with `Spec.GraphIso.Iso`;
    * `typed_list_witness`     D7 on the unrepaired list decision, and its absence on the repaired one.
    * `resources_doc_roundtrip_partial`  nested-resource mode (AddResource … Close), the fragment of
                               NESTING DEPTH 0 WITH EXPLICIT SUBJECTS: resources whose statements are all
                               ObjectStatements — predicate-object lists with `;` and `,`, rdf:type first as
                               `a`, the multi-line tab layout — every configuration as above.
  STATED HERE as `def`, PROVED in Props/C02DocNest.lean (`resources_doc_roundtrip_holds`, round 3b):
    `resources_doc_roundtrip` — full nested-resource mode: `[ ]` property lists (fresh blank nodes),
    `( )` collections, anonymous roots `[]`, the BufferedTriplesEncoder composition.

  The theorems are about the REPAIRED code (token layer: D4–D6; `normalizedListSyntax`: D7).
  HYPOTHESES, all decidable (examples at the end): IRIs, namespaces and the base consist of IRI
  characters; prefix labels are PN_PREFIX-like and outside the two known-finding classes
  (`labelSafe`); the base is absolute with sane indices; whatever is written in full `<…>` next to a
  base — and every namespace and the base itself — is a fixed point of the resolver (`stableUnder`:
  excludes the classes of C12 / C18-X1); blank-node labels are valid and distinct; literals are
  well-formed (language tag iff rdf:langString).
-/
import RdfModel.Props.C02DocDefs
import RdfModel.Props.C02TokensTables
import RdfModel.Props.C05Ttl
import RdfModel.Proofs.C02DocMain
import RdfModel.Proofs.C02DocRes
import RdfModel.Proofs.C02DocCheck
import RdfModel.Proofs.C13PM
import RdfModel.Spec.GraphIso
import RdfModel.Gen.NQTables
namespace RdfModel.C02
open RdfModel RdfModel.Ttl RdfModel.TtlEnc RdfModel.TtlDoc RdfModel.Desc

/-! ### Tables and decoder configuration -/

/-- table facts (T1): the regenerated Turtle tables satisfy `DocTablesOK` -/
theorem gen_turtle_doc_ok : DocTablesOK Gen.turtle :=
  Proofs.C02Doc.docTablesOK_of_chk _ gen_turtle_ok (by decide)

/-- the decoder the theorems are instantiated with: the Turtle scanner the driver runs (`C05.realCfg`),
    with the C13 model of the repository's resolver -/
def docCfg : Cfg := C05.realCfg false docResolve (inRanges Gen.unicodeSpace)

theorem docCfg_ok : CfgOK docCfg Gen.turtle where
  trig := rfl
  prod := rfl
  pnBase := fun _ => rfl
  sp := by decide
  nlsp := by decide
  vis := fun c h1 h2 => rangeAvoids_sound (rs := Gen.unicodeSpace) (lo := 0x21) (hi := 0x7e) (by decide) h1 h2
  res_none := fun _ => rfl
  res_some := fun _ _ => rfl

/-! ### writeIRI -/

/-- `writeIRI_expand`: for every IRI `v` of IRI characters (and, when it ends up written in full next
    to a base, stable under the resolver), whatever `writeIRI` wrote — `pfx:local` after prefix
    compaction, `<relative>` after base relativisation, or `<v>` — is read back by the decoder as `v`,
    in an environment `env` that has the encoder's base and maps the labels `D` (which must include the
    one used for `v`) as the encoder's table does; provided the token is followed by a rune that ends
    a prefixed name (`LocalStop`; the encoder writes a space or a line feed). -/
theorem writeIRI_expand {β : Type} (C : Cfg) (T : Tables) (hT : DocTablesOK T) (hC : CfgOK C T) (cfg : Config)
    (pm : Prefix.PM) (label : β → List Nat) (hcfg : ConfigOK C.isSpace T cfg pm) (env : Env)
    (D : List Nat → Prop) (henv : Proofs.C02Doc.EnvOK env cfg.base pm D) (v : List Nat)
    (hv : iriTermOK (ctxOf T cfg pm label) cfg.base v) (hD : ∀ l ∈ usedOfIRI pm v, D l) (e : NQ.End)
    (rest : List Nat) (hstop : LocalStop T e rest) :
    ∃ w, writeIRIForm (ctxOf T cfg pm label) v = .ok w ∧
      Proofs.C02Doc.decodeWritten C T e env w rest = .ok v rest := by
  have hlbl0 : ∃ t, writeIRI (ctxOf T cfg pm label) v = .ok t := by
    -- `writeIRI` neither fails nor panics (C13 `relativize_no_panic` under `IndicesOK`)
    unfold writeIRI Res.map Res.bind writeIRIForm
    cases compactLocal (ctxOf T cfg pm label).T (ctxOf T cfg pm label).pm v with
    | some x => obtain ⟨p, loc, out⟩ := x; exact ⟨_, rfl⟩
    | none =>
      simp only [ctxOf]
      cases hb : cfg.base with
      | none => exact ⟨_, rfl⟩
      | some b =>
        simp only [Option.map_some]
        have hnp := C13.relativize_no_panic b v (hcfg.base b hb).2.2.2.1
        unfold Prefix.relativize at hnp
        cases hr : Prefix.relativizeB (Prefix.newBaseIRI b) v with
        | panic => exact absurd hr hnp
        | none => exact ⟨_, rfl⟩
        | some r => exact ⟨_, rfl⟩
  obtain ⟨t, ht⟩ := hlbl0
  obtain ⟨w, hw, _⟩ := Proofs.C02Doc.writeIRI_ok ht
  exact ⟨w, hw, Proofs.C02Doc.decode_writeIRI hT hC _ rfl cfg.base rfl hcfg.base hcfg.labels env D henv v hv hD w hw e
    rest hstop⟩

/-! ### plain-triple mode -/

/-- `plain_doc_roundtrip` (see the file header). `ts'` is `ts` itself unless sections are sorted
    (buffered encoder with `bufferedSort`), in which case it is the permutation the sort produces. -/
theorem plain_doc_roundtrip {β : Type} (C : Cfg) (T : Tables) (hT : DocTablesOK T) (hC : CfgOK C T) (cfg : Config)
    (pm : Prefix.PM) (label : β → List Nat) (hcfg : ConfigOK C.isSpace T cfg pm) (hlbl : LabelOK T label)
    (ts : List (Triple β)) (hts : ∀ t ∈ ts, TripleOK (ctxOf T cfg pm label) cfg.base t) :
    ∃ (doc : List Nat) (ts' : List (Triple β)), encodePlainWith T cfg pm label ts = .ok doc ∧ ts'.Perm ts ∧
      run C .eof (defaultBase cfg) (defaultPrefixes cfg pm) doc = (ts'.map (stmtOf label), .clean) :=
  Proofs.C02Doc.plain_roundtrip hT hC hcfg hlbl ts hts

/-- the statements `plain_doc_roundtrip` speaks of are triples … -/
theorem tripleOfStmt_stmtOf {β : Type} (label : β → List Nat) (t : Triple β) :
    tripleOfStmt (stmtOf label t) = some (t.map (fun b => BN.lbl (label b))) := rfl

/-- … and with `Spec.GraphIso`: the decoded graph is isomorphic to the input (the renaming is
    `b ↦ _:label b`, injective because the labeller is). -/
theorem plain_doc_iso {β : Type} (C : Cfg) (T : Tables) (hT : DocTablesOK T) (hC : CfgOK C T) (cfg : Config)
    (pm : Prefix.PM) (label : β → List Nat) (hcfg : ConfigOK C.isSpace T cfg pm) (hlbl : LabelOK T label)
    (ts : List (Triple β)) (hts : ∀ t ∈ ts, TripleOK (ctxOf T cfg pm label) cfg.base t) :
    ∃ (doc : List Nat) (out : List Stmt) (tr : List (Triple BN)), encodePlainWith T cfg pm label ts = .ok doc ∧
      run C .eof (defaultBase cfg) (defaultPrefixes cfg pm) doc = (out, .clean) ∧
      out.map tripleOfStmt = tr.map some ∧ Spec.Iso tr ts := by
  obtain ⟨doc, ts', h1, h2, h3⟩ := plain_doc_roundtrip C T hT hC cfg pm label hcfg hlbl ts hts
  refine ⟨doc, ts'.map (stmtOf label), ts'.map (Triple.map (fun b => BN.lbl (label b))), h1, h3, ?_, ?_⟩
  · simp [List.map_map, Function.comp_def, tripleOfStmt_stmtOf]
  · refine ⟨fun b => BN.lbl (label b), ?_, h2.map _⟩
    intro a b hab
    exact hlbl.inj (by injection hab)

/-- the encoder's own prefix manager (`NewPrefixManager(cfg.prefixes)`, any tie-break of its unstable
    sort) satisfies the manager part of `ConfigOK` -/
theorem new_pm_agree (S : Prefix.Sorter) (ms : List Prefix.Mapping) : PMAgree (Prefix.new S ms) := by
  have h := Proofs.C13.new_inv S ms
  exact ⟨h.nodup, h.agree⟩

/-! ### nested-resource mode -/

/-- FULL STATEMENT for nested-resource mode (proved as `resources_doc_roundtrip_holds` in
    Props/C02DocNest.lean, which cannot be imported here because it builds on this file; the fragment
    proved directly on the statement machine is `resources_doc_roundtrip_partial` below): for every graph of well-formed triples, both
    iteration orders of the subject map and every configuration, the document written through the
    `BufferedTriplesEncoder` (export with the default options, `AddResource` for every exported resource
    with `[ ]` property lists and `( )` collections, `Close`) is accepted by the decoder and decodes to a
    graph isomorphic to the input.

    Independent evidence besides the proof: (i) C17 `flatten_export_repaired` — the exported resource trees
    flatten back to a graph isomorphic to the input, for every iteration order; (ii) T3 — the model
    `TtlEnc.encodeResourceListWith` is byte-identical to the Go encoder on generated and on really exported
    trees (go/cmd/c02); (iii) the oracle Go encode → Go decode → isomorphic on those cases.
    The proof goes through C08 `decode_print_partial`: the encoder's text is a printed abstract document
    (induction on the fuel of `TtlEnc.write`), whose denotation is the flattening of a deep permutation of
    the exported resource list. -/
def resources_doc_roundtrip : Prop :=
  ∀ (β : Type) [DecidableEq β] (cfg : Config) (pm : Prefix.PM) (label : β → List Nat)
    (ord1 ord2 : List (Term β)) (ts : List (Triple β)),
    ConfigOK docCfg.isSpace Gen.turtle cfg pm → LabelOK Gen.turtle label →
    (∀ t ∈ ts, TripleOK (ctxOf Gen.turtle cfg pm label) cfg.base t) →
    ord1.Perm (build ts).subjects → ord2.Perm (build ts).subjects →
    ∃ (doc : List Nat) (out : List Stmt) (tr : List (Triple BN)),
      encodeResourcesWith Gen.turtle false cfg pm label ord1 ord2 ts = some (.ok doc) ∧
      run docCfg .eof (defaultBase cfg) (defaultPrefixes cfg pm) doc = (out, .clean) ∧
      out.map tripleOfStmt = tr.map some ∧ Spec.Iso tr ts

/-- the graph a list of flat resources stands for -/
def flatTriples {β : Type} (rs : List (Proofs.C02Doc.FlatRes β)) : List (Triple β) := rs.flatMap (·.triples)

/-- `flatTriples` is what `Resource.NewTriples` (Model/Description.lean) yields for them -/
theorem flatTriples_newTriples {β : Type} [DecidableEq β] (rs : List (Proofs.C02Doc.FlatRes β)) (n : Nat) :
    newTriplesList (rs.map (·.toResource)) n = ((flatTriples rs).map (Triple.map BN.orig), n) := by
  induction rs with
  | nil => rfl
  | cons r rs ih => simp [newTriplesList, Proofs.C02Doc.newTriples_flat, ih, flatTriples]

/-- `resources_doc_roundtrip_partial`: nested-resource mode restricted to resources of nesting depth 0
    with an explicit subject (`FlatRes`: subject, `(predicate, object)` pairs; at least one pair). For
    every configuration, `AddResource` for each of them and `Close` produce a document the decoder
    accepts, and the decoded graph is isomorphic to the graph the resources stand for (the statements
    come back regrouped by predicate, the sections possibly sorted: a permutation).
    MISSING towards `resources_doc_roundtrip`: AnonResourceStatements (`[ … ]`, `( … )`), anonymous
    roots (`[]` subject: decoder-made blank nodes), and the composition with the export of
    `ResourceListBuilder` (C17). `d7` is irrelevant on this fragment (no list cells). -/
theorem resources_doc_roundtrip_partial {β : Type} [DecidableEq β] (C : Cfg) (T : Tables) (hT : DocTablesOK T)
    (hC : CfgOK C T) (cfg : Config) (pm : Prefix.PM) (label : β → List Nat) (hcfg : ConfigOK C.isSpace T cfg pm)
    (hlbl : LabelOK T label) (d7 : Bool) (rs : List (Proofs.C02Doc.FlatRes β))
    (hrs : ∀ r ∈ rs, Proofs.C02Doc.FlatOK (ctxOf T cfg pm label) cfg.base r) :
    ∃ (doc : List Nat) (out : List Stmt) (tr : List (Triple BN)),
      encodeResourceListWith T d7 cfg pm label (rs.map (·.toResource)) = some (.ok doc) ∧
      run C .eof (defaultBase cfg) (defaultPrefixes cfg pm) doc = (out, .clean) ∧
      out.map tripleOfStmt = tr.map some ∧ Spec.Iso tr (flatTriples rs) := by
  obtain ⟨doc, rs', h1, h2, h3⟩ := Proofs.C02Doc.flat_roundtrip hT hC hcfg hlbl d7 rs hrs
  refine ⟨doc, rs'.flatMap (Proofs.C02Doc.outFlat label),
    (rs'.flatMap (·.grouped)).map (Triple.map (fun b => BN.lbl (label b))), h1, h3, ?_, ?_⟩
  · simp only [List.map_flatMap, Proofs.C02Doc.outFlat_triples, List.map_map]
  · refine ⟨fun b => BN.lbl (label b), ?_, List.Perm.map _ ?_⟩
    · intro a b hab
      exact hlbl.inj (by injection hab)
    · -- regrouping inside each resource, then the order of the sections
      have hg : ∀ l : List (Proofs.C02Doc.FlatRes β), (l.flatMap (·.grouped)).Perm (l.flatMap (·.triples)) := by
        intro l
        induction l with
        | nil => exact List.Perm.refl _
        | cons r l ih =>
          simp only [List.flatMap_cons]
          exact (Proofs.C02Doc.grouped_perm r).append ih
      exact (hg rs').trans (h2.flatMap_right _)

/-! ### D7: a typed list node -/

/-- `<s> <p> [ a rdf:List ; rdf:first <1> ; rdf:rest rdf:nil ]` -/
def typedList : List (Stmt Nat) :=
  [Stmt.obj TtlEnc.rdfType (.iri TtlEnc.rdfList), Stmt.obj Desc.rdfFirst (.iri (asc "http://e/1")),
   Stmt.obj Desc.rdfRest (.iri Desc.rdfNil)]

/-- the predicates of the entries `normalizedListSyntax` returns -/
def viewOf (r : Option (Option (List (Stmt Nat)))) : Option (Option (List (List Nat))) :=
  r.map (·.map (·.map stmtPred))

/-- The unrepaired decision takes the typed node for a collection (the `a rdf:List` statement is not
    among the entries that get written: the triple is lost); the repaired one declines, and the node
    is written as an ordinary `[ … ]` with all three statements. -/
theorem typed_list_witness :
    viewOf (listSyntaxD7 2 typedList) = some (some [Desc.rdfFirst]) ∧
    viewOf (listSyntax 2 typedList) = some none := by decide


/-! ### Non-vacuity: a configuration and a graph that satisfy every hypothesis, and what happens to them -/

namespace Example

def cfg : Config :=
  { base := some (asc "http://e/a/b"),
    prefixes := [⟨asc "ex", asc "http://e/x/"⟩, ⟨asc "base", asc "urn:x:"⟩],
    buffered := some true, baseMode := some .sparql, prefixMode := some .at }

def pm : Prefix.PM := Prefix.new Prefix.mergeSorter cfg.prefixes

/-- two blank nodes -/
def label : Bool → List Nat := fun b => if b then asc "b1" else asc "n0.x-y"

def xsdIntegerIRI : List Nat := xsdInteger

/-- a local part starting with '-' and ending with '.', relative references (`<>`, `<c#p>`), an IRI written
    in full, the keyword `a`, a bare integer, a language tag with three subtags, a prefix label that looks like a keyword, a cycle -/
def ts : List (Triple Bool) :=
  [⟨.iri (asc "http://e/x/-x."), asc "http://e/a/c#p", .lit (asc "5") xsdInteger none⟩,
   ⟨.bnode true, TtlEnc.rdfType, .bnode false⟩,
   ⟨.bnode false, asc "urn:x:q", .iri (asc "http://other/z")⟩,
   ⟨.iri (asc "http://e/a/b"), asc "urn:x:q", .lit [0x68, 0xe9] rdfLangString (some (asc "en-GB-x"))⟩]

theorem cfg_ok : ConfigOK docCfg.isSpace Gen.turtle cfg pm where
  agree := new_pm_agree _ _
  labels := by decide
  ns := by decide
  base := by
    intro b hb
    have : b = asc "http://e/a/b" := by simpa [cfg] using hb.symm
    subst this
    decide
  empty := by decide

theorem label_ok : LabelOK Gen.turtle label where
  inj := by intro a b h; cases a <;> cases b <;> first | rfl | (exact absurd h (by decide))
  ok := by intro b; cases b <;> exact ⟨by decide, by decide⟩

theorem ts_ok : ∀ t ∈ ts, TripleOK (ctxOf Gen.turtle cfg pm label) cfg.base t := by
  intro t ht
  simp only [ts, List.mem_cons, List.mem_nil_iff, or_false] at ht
  rcases ht with rfl | rfl | rfl | rfl
  · exact ⟨⟨by decide, by decide⟩, ⟨by decide, by decide⟩, ⟨by decide, by decide, by decide, by decide, by decide⟩⟩
  · exact ⟨trivial, ⟨by decide, by decide⟩, trivial⟩
  · exact ⟨trivial, ⟨by decide, by decide⟩, ⟨by decide, by decide⟩⟩
  · exact ⟨⟨by decide, by decide⟩, ⟨by decide, by decide⟩, ⟨by decide, by decide, by decide⟩⟩

/-- the theorem applies … -/
example : ∃ (doc : List Nat) (ts' : List (Triple Bool)), encodePlainWith Gen.turtle cfg pm label ts = .ok doc ∧
    ts'.Perm ts ∧
    run docCfg .eof (defaultBase cfg) (defaultPrefixes cfg pm) doc = (ts'.map (stmtOf label), .clean) :=
  plain_doc_roundtrip docCfg Gen.turtle gen_turtle_doc_ok docCfg_ok cfg pm label cfg_ok label_ok ts ts_ok

set_option maxRecDepth 20000 in
/-- … and this is the document (sections sorted, only the used prefixes declared, SPARQL-style base) -/
example : encodePlainWith Gen.turtle cfg pm label ts = .ok (asc (
    "BASE <http://e/a/b>\n@prefix base: <urn:x:> .\n@prefix ex: <http://e/x/> .\n\n" ++
    "<> base:q \"h\u00e9\"@en-GB-x .\n" ++
    "_:b1 a _:n0.x-y .\n" ++
    "_:n0.x-y base:q <http://other/z> .\n" ++
    "ex:\\-x\\. <c#p> 5 .\n")) := by decide

/-- a flat resource: two predicates (rdf:type first, as `a`), one of them with two objects -/
def res : Proofs.C02Doc.FlatRes Bool :=
  (.iri (asc "http://e/x/s"),
   [(asc "urn:x:q", .lit (asc "1") xsdInteger none), (TtlEnc.rdfType, .iri (asc "http://e/x/C")),
    (asc "urn:x:q", .bnode true)])

theorem res_ok : Proofs.C02Doc.FlatOK (ctxOf Gen.turtle cfg pm label) cfg.base res where
  ne := by decide
  s := ⟨by decide, by decide⟩
  po := by
    intro po hpo
    simp only [res, List.mem_cons, List.mem_nil_iff, or_false] at hpo
    rcases hpo with rfl | rfl | rfl
    · exact ⟨⟨by decide, by decide⟩, ⟨by decide, by decide, by decide, by decide, by decide⟩⟩
    · exact ⟨⟨by decide, by decide⟩, ⟨by decide, by decide⟩⟩
    · exact ⟨⟨by decide, by decide⟩, trivial⟩

set_option maxRecDepth 20000 in
/-- what `AddResource` writes for it -/
example : encodeResourceListWith Gen.turtle false cfg pm label [res.toResource] = some (.ok (asc (
    "BASE <http://e/a/b>\n@prefix base: <urn:x:> .\n@prefix ex: <http://e/x/> .\n\n" ++
    "ex:s\n\ta ex:C ;\n\tbase:q\n\t\t1 ,\n\t\t_:b1 .\n"))) := by decide

end Example

end RdfModel.C02
