/-
  Definitions used by the C17 theorems (core-only: the driver evaluates these predicates too).

  * `refs`, `once`, `parent?`, `climb`, `Acyclic1`: the shape hypothesis — no cycle consisting solely of
    once-referenced blank nodes — as a decidable predicate on the input triples;
  * `Cycle1`: the same notion stated graph-theoretically (a closed walk through once-referenced nodes);
    `C17.acyclic1_iff_no_cycle1` proves the two agree;
  * `anonymizedIn`, `NoSharedAnonymized`: the cross-graph hypothesis of the dataset theorem;
  * the known-finding predicates `selfReferenceRefcount1`, `cycleAllRefcount1`, `crossGraphSingleRef`.
-/
import RdfModel.Model.Description
namespace RdfModel.C17
open RdfModel RdfModel.Desc

variable {β : Type} [DecidableEq β]

/-- number of triples whose object is the blank node `b` (what `blankNodeReferences[b]` counts) -/
def refs (T : List (Triple β)) (b : β) : Nat := T.countP (fun t => t.o = Term.bnode b)

/-- `x` is a blank node referenced exactly once -/
def once (T : List (Triple β)) : Term β → Bool
  | .bnode b => refs T b == 1
  | _ => false

/-- subject of the first triple that references `b` (for a once-referenced node: of the only one) -/
def parent? (T : List (Triple β)) (b : β) : Option (Term β) :=
  (T.find? (fun t => t.o = Term.bnode b)).map (·.s)

/-- follow the unique reference backwards from `x`; `true` iff a node that is not once-referenced is
    reached within `k` steps -/
def climb (T : List (Triple β)) : Nat → Term β → Bool
  | _, .iri _ => true
  | _, .lit _ _ _ => true
  | 0, .bnode b => !(refs T b == 1)
  | k + 1, .bnode b =>
    if refs T b == 1 then
      match parent? T b with
      | some s => climb T k s
      | none => true
    else true

/-- No cycle consisting solely of once-referenced blank nodes: from every object, following references
    backwards leaves the once-referenced nodes within `|T|` steps. -/
def Acyclic1 (T : List (Triple β)) : Prop := ∀ t ∈ T, climb T T.length t.o = true

instance (T : List (Triple β)) : Decidable (Acyclic1 T) := by unfold Acyclic1; exact inferInstance

/-- `a` references `c`: some triple has subject `a` and object `c` -/
def Edge (T : List (Triple β)) (a c : β) : Prop := ∃ p, (⟨Term.bnode a, p, Term.bnode c⟩ : Triple β) ∈ T

/-- each node of the list is referenced by the next one: `c₀ ← c₁ ← … ← cₙ` along `Edge` -/
def Walk (T : List (Triple β)) : List β → Prop
  | [] => True
  | [_] => True
  | a :: c :: rest => Edge T c a ∧ Walk T (c :: rest)

/-- a non-empty closed walk all of whose nodes are referenced exactly once: `c = [c₀,…,cₙ]`,
    `cᵢ₊₁` references `cᵢ`, and `c₀` references `cₙ` -/
def Cycle1 (T : List (Triple β)) (c : List β) : Prop :=
  ∃ a rest, c = a :: rest ∧ (∀ b ∈ c, refs T b = 1) ∧ Walk T (c ++ [a])

/-! ### dataset hypothesis -/

def termNodes : Term β → List β
  | .bnode b => [b]
  | _ => []

def tripleNodes (t : Triple β) : List β := termNodes t.s ++ termNodes t.o

/-- the triples of graph `g` in insertion order -/
def graphTriples (Q : List (DQuad β)) (g : Option (Term β)) : List (Triple β) :=
  (Q.filter (fun q => q.g = g)).map (·.t)

/-- `b` is replaced by a fresh blank node when the graph `T` is exported with `opts`:
    inlined (referenced exactly once) or exported as an AnonResource (subject, never referenced). -/
def anonymizedIn (T : List (Triple β)) (opts : Opts) (b : β) : Bool :=
  (opts.inline && refs T b == 1) ||
  (opts.useAnon && refs T b == 0 && T.any (fun t => t.s = Term.bnode b))

/-- No blank node that one graph's export anonymizes occurs in another graph or as a graph name. -/
def NoSharedAnonymized (Q : List (DQuad β)) (opts : Opts) : Prop :=
  ∀ q ∈ Q, ∀ b ∈ tripleNodes q.t, anonymizedIn (graphTriples Q q.g) opts b = true →
    (∀ q' ∈ Q, q'.g ≠ q.g → b ∉ tripleNodes q'.t) ∧ (∀ q' ∈ Q, q'.g ≠ some (Term.bnode b))

instance (Q : List (DQuad β)) (opts : Opts) : Decidable (NoSharedAnonymized Q opts) := by
  unfold NoSharedAnonymized; exact inferInstance

/-! ### known-finding predicates (the same three are implemented in go/cmd/c17) -/

/-- `self-reference-refcount-1`: some triple `b p b` where `b` is referenced exactly once -/
def selfReferenceRefcount1 (T : List (Triple β)) : Bool :=
  T.any (fun t => t.s == t.o && once T t.o)

/-- `cycle-all-refcount-1`: a cycle of once-referenced blank nodes exists -/
def cycleAllRefcount1 (T : List (Triple β)) : Bool := !decide (Acyclic1 T)

/-- `cross-graph-single-ref`: a blank node anonymized by one graph's export is shared -/
def crossGraphSingleRef (Q : List (DQuad β)) (opts : Opts) : Bool := !decide (NoSharedAnonymized Q opts)

end RdfModel.C17
