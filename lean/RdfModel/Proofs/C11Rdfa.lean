/-
  C11, RDFa: the writer's round trip. Helper lemmas for Props/C11.lean.
    * `canon_correct`   the canonical one-element markup of an expressible triple denotes that triple
    * `procKids_append`, `procKids_canon` composition of sibling blocks
    * `writeBlocks_correct` the blocks of `writeBlocks` denote a permutation of the graph
    * `denote_docOf`    the html/head/body skeleton passes `bodyCtx` to the blocks
-/
import RdfModel.Spec.RdfaFragment
namespace RdfModel.Spec.Rdfa
open RdfModel RdfModel.Spec.Html RdfModel.Desc

variable {β κ : Type}

theorem resSCI_bnodeRef (E : Env) (l : Str) : resSCI E (bnodeRef l) = some (.bnode (.named l)) := by
  simp [resSCI, bnodeRef, safeInner, curie, splitColon]

/-- a resource the writer spells out in full is read back as itself -/
theorem resSCI_refOf (lbl : β → Str) (E : Env) (s : Term β) (h : okRes E s = true) :
    ∃ a, refOf lbl s = some a ∧ resSCI E a = some (Term.map (sigma lbl) s) := by
  cases s with
  | iri i => exact ⟨i, rfl, by simpa [okRes, Term.map] using h⟩
  | bnode b => exact ⟨bnodeRef (lbl b), rfl, by simp [resSCI_bnodeRef, Term.map, sigma]⟩
  | lit l d t => simp [okRes] at h

theorem okObj_res (E : Env) (o : Term β) (h : okObj E o = true) (hl : ∀ l d t, o ≠ .lit l d t) : okRes E o = true := by
  cases o with
  | iri i => simpa [okObj, okRes] using h
  | bnode b => rfl
  | lit l d t => exact absurd rfl (hl l d t)

theorem canon_res (C : Ctx) (n : Nat) (a r p : Str) (S O : T)
    (hinc : C.incomplete = [])
    (ha : resSCI C.env a = some S) (hr : resSCI C.env r = some O) (hp : resTCAs C.env p = [p]) :
    procNode C [] n (.elem .span { about := some a, rel := some p, resource := some r } []) =
      { out := [⟨S, p, O⟩], lm := [], next := n } := by
  simp [procNode, procKids, elemLocal, subjStep, filterRel, hinc, orElse, ha, hr, hp, complete, emitLists]

theorem canon_lit (C : Ctx) (n : Nat) (a p lex : Str) (dtA : Option Str) (l : Str) (S : T) (v : T)
    (hinc : C.incomplete = [])
    (ha : resSCI C.env a = some S) (hp : resTCAs C.env p = [p])
    (hv : propertyValue C.env { about := some a, property := some p, content := some lex, datatype := dtA, lang := some l } false none
            (if l = [] then none else some l) [] = v) :
    procNode C [] n (.elem .span { about := some a, property := some p, content := some lex, datatype := dtA, lang := some l } []) =
      { out := [⟨S, p, v⟩], lm := [], next := n } := by
  simp [procNode, procKids, elemLocal, subjStep, filterRel, hinc, orElse, ha, hp, complete, emitLists, textOfList, hv]

theorem canon_correct (lbl : β → Str) (C : Ctx) (n : Nat) (t : Triple β) (hinc : C.incomplete = [])
    (hs : okRes C.env t.s = true) (hp : okPred C.env t.p = true) (ho : okObj C.env t.o = true) :
    procNode C [] n (canon lbl t) = { out := [Triple.map (sigma lbl) t], lm := [], next := n } := by
  obtain ⟨a, hra, ha⟩ := resSCI_refOf lbl C.env t.s hs
  have hp' : resTCAs C.env t.p = [t.p] := by simpa [okPred] using hp
  obtain ⟨s, p, o⟩ := t
  cases o with
  | iri i =>
    obtain ⟨r, hrr, hr⟩ := resSCI_refOf lbl C.env (.iri i) (okObj_res C.env _ ho (by intro l d t h; cases h))
    simp only [canon, hra, hrr]
    rw [canon_res C n a r p _ _ hinc ha hr hp']
    simp [Triple.map]
  | bnode b =>
    obtain ⟨r, hrr, hr⟩ := resSCI_refOf lbl C.env (.bnode b) (okObj_res C.env _ ho (by intro l d t h; cases h))
    simp only [canon, hra, hrr]
    rw [canon_res C n a r p _ _ hinc ha hr hp']
    simp [Triple.map]
  | lit lex dt lang =>
    simp only [canon, hra]
    rw [canon_lit C n a p lex _ _ _ (.lit lex dt lang) hinc ha hp']
    · simp [Triple.map, Term.map]
    · cases lang with
      | some l =>
        simp [okObj] at ho
        simp [propertyValue, plainLit, ho.1, ho.2]
      | none =>
        simp [okObj] at ho
        rcases ho with h | h
        · simp [propertyValue, plainLit, h]
        · by_cases hx : dt = xsdString
          · simp [propertyValue, plainLit, hx]
          · simp [propertyValue, hx, h.1.2, h.2]

/-! ### composition of sibling blocks -/

theorem procKids_append (C : Ctx) (lm : LM) (n : Nat) (xs ys : List Tree) :
    procKids C lm n (xs ++ ys) =
      { out := (procKids C lm n xs).out ++ (procKids C (procKids C lm n xs).lm (procKids C lm n xs).next ys).out,
        lm := (procKids C (procKids C lm n xs).lm (procKids C lm n xs).next ys).lm,
        next := (procKids C (procKids C lm n xs).lm (procKids C lm n xs).next ys).next } := by
  induction xs generalizing lm n with
  | nil => simp [procKids]
  | cons x xs ih => simp [procKids, ih, List.append_assoc]

theorem expressible_cons (E : Env) (t : Triple β) (g : List (Triple β)) :
    expressible E (t :: g) = true ↔ (okRes E t.s = true ∧ okPred E t.p = true ∧ okObj E t.o = true) ∧ expressible E g = true := by
  simp [expressible, and_assoc]

theorem expressible_of_sublist (E : Env) {g g' : List (Triple β)} (h : ∀ t ∈ g', t ∈ g)
    (hg : expressible E g = true) : expressible E g' = true := by
  simp only [expressible, List.all_eq_true] at *
  intro t ht; exact hg t (h t ht)

/-- the canonical blocks of expressible triples denote those triples, one after the other -/
theorem procKids_canon (lbl : β → Str) (C : Ctx) (n : Nat) (hinc : C.incomplete = []) (ts : List (Triple β))
    (hg : expressible C.env ts = true) :
    procKids C [] n (ts.map (canon lbl)) = { out := expect lbl ts, lm := [], next := n } := by
  induction ts with
  | nil => simp [procKids, expect]
  | cons t ts ih =>
    obtain ⟨⟨hs, hp, ho⟩, hrest⟩ := (expressible_cons C.env t ts).mp hg
    simp [procKids, canon_correct lbl C n t hinc hs hp ho, ih hrest, expect]

theorem expect_append (lbl : β → Str) (a b : List (Triple β)) : expect lbl (a ++ b) = expect lbl a ++ expect lbl b := by
  simp [expect]

theorem writeBlocks_correct (lbl : β → Str) (C : Ctx) (take : κ → Nat) (build : κ → List (Triple β) → Tree)
    (hinc : C.incomplete = []) (n : Nat) (cs : List κ) (g : List (Triple β)) (hg : expressible C.env g = true) :
    ∃ out n', procKids C [] n (writeBlocks lbl C take build n cs g) = { out := out, lm := [], next := n' } ∧
      out.Perm (expect lbl g) := by
  fun_induction writeBlocks lbl C take build n cs g with
  | case1 n cs => exact ⟨[], n, by simp [procKids], by simp [expect]⟩
  | case2 n t ts ih =>
    obtain ⟨⟨hs, hp, ho⟩, hrest⟩ := (expressible_cons C.env t ts).mp hg
    obtain ⟨out, n', h1, h2⟩ := ih hrest
    refine ⟨Triple.map (sigma lbl) t :: out, n', ?_, ?_⟩
    · simp [procKids, canon_correct lbl C n t hinc hs hp ho, h1]
    · simpa [expect] using h2
  | case3 n c cs t ts chunk cand hv ih =>
    have hsplit : t :: ts = chunk ++ ts.drop (take c) := by
      simp [chunk, List.take_succ_cons, List.take_append_drop]
    have hrest : expressible C.env (ts.drop (take c)) = true :=
      expressible_of_sublist C.env (fun x hx => List.mem_cons_of_mem _ (List.mem_of_mem_drop hx)) hg
    obtain ⟨out, n', h1, h2⟩ := ih hrest
    simp only [validBlock, Bool.and_eq_true, List.isPerm_iff, beq_iff_eq] at hv
    refine ⟨(procNode C [] n cand).out ++ out, n', ?_, ?_⟩
    · simp only [procKids, hv.2]
      rw [h1]
    · rw [hsplit, expect_append]
      exact List.Perm.append hv.1 h2
  | case4 n c cs t ts chunk cand hv ih =>
    have hsplit : t :: ts = chunk ++ ts.drop (take c) := by
      simp [chunk, List.take_succ_cons, List.take_append_drop]
    have hrest : expressible C.env (ts.drop (take c)) = true :=
      expressible_of_sublist C.env (fun x hx => List.mem_cons_of_mem _ (List.mem_of_mem_drop hx)) hg
    have hchunk : expressible C.env chunk = true :=
      expressible_of_sublist C.env (fun x hx => List.mem_of_mem_take hx) hg
    obtain ⟨out, n', h1, h2⟩ := ih hrest
    refine ⟨expect lbl chunk ++ out, n', ?_, ?_⟩
    · rw [procKids_append, procKids_canon lbl C n hinc chunk hchunk]
      simp [h1]
    · rw [hsplit, expect_append]
      exact List.Perm.append (List.Perm.refl _) h2

theorem denote_docOf (base : Str) (prefixes terms : List (Str × Str)) (sk : Skel) (blocks : List Tree) :
    denote base prefixes terms (docOf sk blocks) =
      (procKids (bodyCtx base prefixes terms sk) [] 0 blocks).out ++
      (emitLists (.iri (resolveRef (dropFragment base) [])) (procKids (bodyCtx base prefixes terms sk) [] 0 blocks).lm
        (procKids (bodyCtx base prefixes terms sk) [] 0 blocks).next).1 := by
  simp [denote, docOf, procNode, procKids, elemLocal, subjStep, filterRel, orElse, complete, skelAttrs, bodyCtx, langOf, declsOf]

theorem sigma_injective (lbl : β → Str) (h : Function.Injective lbl) : Function.Injective (sigma lbl) := by
  intro a b hab
  simp only [sigma, BId.named.injEq] at hab
  exact h hab

/-- the writer's document denotes a permutation of the graph, blank nodes renamed by `sigma lbl` -/
theorem write_denote (base : Str) (prefixes terms : List (Str × Str)) (lbl : β → Str) (take : κ → Nat)
    (build : Ctx → κ → List (Triple β) → Tree) (sk : Skel) (cs : List κ) (g : List (Triple β))
    (hg : expressible (bodyCtx base prefixes terms {}).env g = true) :
    (denote base prefixes terms (write base prefixes terms lbl take build sk cs g)).Perm (expect lbl g) := by
  unfold write
  generalize hsk : (if expressible (bodyCtx base prefixes terms sk).env g = true then sk else ({} : Skel)) = sk'
  have hg' : expressible (bodyCtx base prefixes terms sk').env g = true := by
    subst hsk
    split
    · assumption
    · exact hg
  simp only []
  rw [denote_docOf]
  obtain ⟨out, n', h1, h2⟩ := writeBlocks_correct lbl (bodyCtx base prefixes terms sk') take
    (build (bodyCtx base prefixes terms sk')) (by simp [bodyCtx]) 0 cs g hg'
  rw [h1]
  simpa [emitLists] using h2

/-! ### pattern lemmas: what §7.5 yields for the chaining idioms (also the ones the writer does not use) -/

set_option linter.unusedSimpArgs false

/-- hanging @rel completed by a child without a subject of its own: the processor's blank node (incomplete triples) -/
theorem hanging_anonymous (C : Ctx) (n : Nat) (a p q c : Str) (S : T)
    (hinc : C.incomplete = []) (ha : resSCI C.env a = some S)
    (hp : resTCAs C.env p = [p]) (hq : resTCAs C.env q = [q]) :
    procNode C [] n (.elem .div { about := some a, rel := some p }
        [.elem .span { property := some q, content := some c, lang := some [] } []]) =
      { out := [⟨fresh n, q, .lit c xsdString none⟩, ⟨S, p, fresh n⟩], lm := [], next := n + 1 } := by
  simp [procNode, procKids, elemLocal, subjStep, filterRel, hinc, orElse, ha, hp, hq, complete, emitLists,
    propertyValue, plainLit, textOfList, textOf]

/-- chaining: the child names the object and describes it -/
theorem chaining (C : Ctx) (n : Nat) (a p r q c : Str) (S O : T)
    (hinc : C.incomplete = []) (ha : resSCI C.env a = some S) (hr : resSCI C.env r = some O)
    (hp : resTCAs C.env p = [p]) (hq : resTCAs C.env q = [q]) :
    procNode C [] n (.elem .div { about := some a, rel := some p }
        [.elem .span { about := some r, property := some q, content := some c, lang := some [] } []]) =
      { out := [⟨O, q, .lit c xsdString none⟩, ⟨S, p, O⟩], lm := [], next := n + 1 } := by
  simp [procNode, procKids, elemLocal, subjStep, filterRel, hinc, orElse, ha, hr, hp, hq, complete, emitLists,
    propertyValue, plainLit, textOfList, textOf]

/-- subject inheritance and text content, language from an ancestor -/
theorem inherited_subject (C : Ctx) (n : Nat) (a q c l : Str) (S : T) (hl : l ≠ [])
    (hinc : C.incomplete = []) (ha : resSCI C.env a = some S) (hq : resTCAs C.env q = [q]) :
    procNode C [] n (.elem .div { about := some a, lang := some l }
        [.elem .span { property := some q } [.text c]]) =
      { out := [⟨S, q, .lit c rdfLangString (some l)⟩], lm := [], next := n } := by
  simp [procNode, procKids, elemLocal, subjStep, filterRel, hinc, orElse, ha, hq, complete, emitLists,
    propertyValue, plainLit, textOfList, textOf, hl]

/-- @typeof on an element without a subject: a typed blank node that is the object of @property (step 5.1) -/
theorem typed_bnode_object (C : Ctx) (n : Nat) (a q ty : Str) (S : T)
    (hinc : C.incomplete = []) (ha : resSCI C.env a = some S) (hq : resTCAs C.env q = [q]) (hty : resTCAs C.env ty = [ty]) :
    procNode C [] n (.elem .div { about := some a }
        [.elem .span { property := some q, typeof := some ty } []]) =
      { out := [⟨fresh n, rdfType, .iri ty⟩, ⟨S, q, fresh n⟩], lm := [], next := n + 1 } := by
  simp [procNode, procKids, elemLocal, subjStep, filterRel, hinc, orElse, ha, hq, hty, complete, emitLists,
    propertyValue, plainLit, textOfList, textOf]
/-- @rev together with @property and a resource attribute: the resource is the object of the @rev triple only; the
    @property value stays the text content (step 11 takes a resource only when @rel, @rev and @content are absent).
    `p` is one CURIE/IRI token (HTML+RDFa rule 7 drops term values of @rev when @property is present). -/
theorem rev_property_literal (C : Ctx) (n : Nat) (a p q r txt : Str) (S O : T)
    (hinc : C.incomplete = []) (ha : resSCI C.env a = some S) (hr : resSCI C.env r = some O)
    (hp1 : fields p = [p]) (hp2 : (splitColon p).isSome = true)
    (hp : resTCAs C.env p = [p]) (hq : resTCAs C.env q = [q]) :
    procNode C [] n (.elem .span { about := some a, rev := some p, property := some q, resource := some r, lang := some [] }
        [.text txt]) =
      { out := [⟨O, p, S⟩, ⟨S, q, .lit txt xsdString none⟩], lm := [], next := n } := by
  simp [procNode, procKids, elemLocal, subjStep, filterRel, hinc, orElse, ha, hr, hp, hq, hp1, hp2, complete, emitLists,
    propertyValue, plainLit, textOfList, textOf]

def listItem (p c : Str) : Tree := .elem .span { property := some p, inlist := some [], content := some c, lang := some [] } []

theorem listItem_proc (C : Ctx) (lm : LM) (n : Nat) (p c : Str)
    (hinc : C.incomplete = []) (hps : C.parentObject = C.parentSubject) (hp : resTCAs C.env p = [p]) :
    procNode C lm n (listItem p c) = { out := [], lm := lmAdd lm p (.lit c xsdString none), next := n } := by
  simp [listItem, procNode, procKids, elemLocal, subjStep, filterRel, hinc, orElse, hp, complete, emitLists,
    propertyValue, plainLit, hps]

theorem listItems_proc (C : Ctx) (lm : LM) (n : Nat) (p : Str) (cs : List Str)
    (hinc : C.incomplete = []) (hps : C.parentObject = C.parentSubject) (hp : resTCAs C.env p = [p]) :
    procKids C lm n (cs.map (listItem p)) =
      { out := [], lm := cs.foldl (fun m c => lmAdd m p (.lit c xsdString none)) lm, next := n } := by
  induction cs generalizing lm with
  | nil => simp [procKids]
  | cons c cs ih => simp [procKids, listItem_proc C lm n p c hinc hps hp, ih]

theorem foldl_lmAdd (p : Str) (xs : List T) (cs : List Str) :
    cs.foldl (fun m c => lmAdd m p (.lit c xsdString none)) [(p, xs)] = [(p, xs ++ cs.map (fun c => (.lit c xsdString none : T)))] := by
  induction cs generalizing xs with
  | nil => simp
  | cons c cs ih => simp [lmAdd, ih, List.append_assoc]

/-- @inlist: the children's values, in document order, become one RDF collection attached to the element that
    set the subject (list mapping, step 14) -/
theorem inlist_collection (C : Ctx) (n : Nat) (a p c : Str) (cs : List Str) (S : T)
    (hinc : C.incomplete = []) (ha : resSCI C.env a = some S) (hne : S ≠ C.parentSubject)
    (hp : resTCAs C.env p = [p]) :
    procNode C [] n (.elem .div { about := some a } ((c :: cs).map (listItem p))) =
      { out := listCells n ((c :: cs).map (fun c => (.lit c xsdString none : T))) ++ [⟨S, p, fresh n⟩],
        lm := [], next := n + (c :: cs).length } := by
  have hbne : (S != C.parentSubject) = true := by simpa using hne
  have hkid := listItems_proc
    { env := { base := C.env.base, prefixes := C.env.prefixes, vocab := C.env.vocab, terms := C.env.terms },
      parentSubject := S, parentObject := S, incomplete := [], lang := C.lang } [] n p (c :: cs) rfl rfl hp
  simp [procNode, elemLocal, subjStep, filterRel, hinc, orElse, ha, complete, hbne]
  have hkid' : procKids
      { env := { base := C.env.base, prefixes := C.env.prefixes, vocab := C.env.vocab, terms := C.env.terms },
        parentSubject := S, parentObject := S, incomplete := [], lang := C.lang }
      [] n (listItem p c :: List.map (listItem p) cs) =
      { out := [], lm := [(p, (.lit c xsdString none : T) :: cs.map (fun c => (.lit c xsdString none : T)))], next := n } := by
    have := hkid
    simp only [List.map_cons, List.foldl_cons, lmAdd] at this
    rw [foldl_lmAdd] at this
    simpa using this
  rw [hkid']
  simp [emitLists]

end RdfModel.Spec.Rdfa
