/-
  C07 "every N-Triples document is Turtle (and TriG)" at DOCUMENT level: a simulation from the
  N-Triples statement machine of `Model/NQuads.lean` (`NQ.run … quads := false`) to the Turtle/TriG
  scan-function machine of `Model/TurtleDoc.lean` (no base, empty prefix table, real producers).

  Per accepted N-Triples statement `S P O .` the Turtle machine makes eight iterations of the loop
  in `Next` (top-level function, subject, required predicate-object list, object — `Next() = true`
  — then `ObjectList_Continue`, `PredicateObjectList_Continue`, `Triples_End` and back to the
  top-level function); the TriG machine differs in the first two (`labelOrSubject`, `E1`).
  Token level: IRIREF and strings from `Proofs/C07Tok.lean`; language tags and blank-node labels
  here.  The one exclusion: blank-node labels containing ':' (finding C07-bnode-label-colon).
-/
import RdfModel.Proofs.TtlDocTrunc
import RdfModel.Proofs.C07Tok
namespace RdfModel.TtlDoc
open RdfModel

/-- What the simulation needs from the two packages' tables and the white-space predicate. -/
structure NTCfg (Tn : NQ.Tables) (T : Ttl.Tables) (C : Cfg) : Prop where
  prod : C.P = Producers.real T
  hex : Tn.hexDec = T.hexDec
  pn : ∀ c, c ≠ 0x3a → inRanges Tn.pnChars c = inRanges T.pnChars c
  pnU : ∀ c, c ≠ 0x3a → inRanges Tn.pnCharsU c = inRanges T.pnCharsU c
  colonT : inRanges T.pnChars 0x3a = false
  dotU : inRanges Tn.pnCharsU 0x2e = false
  scalar : ∀ c, (inRanges Tn.pnChars c = true ∨ inRanges Tn.pnCharsU c = true) → IsScalar c
  ws : ∀ c, isWs C c = NQ.isSpace Tn c
  sp_lt : NQ.isSpace Tn 0x3c = false
  sp_us : NQ.isSpace Tn 0x5f = false
  sp_dq : NQ.isSpace Tn 0x22 = false
  sp_dot : NQ.isSpace Tn 0x2e = false

variable {Tn : NQ.Tables} {T : Ttl.Tables} {C : Cfg}

/-! ### White space and comments -/

theorem nt_skipToStmt (h : NTCfg Tn T C) : ∀ (b : Bool) (i : List Nat),
    (NQ.skipToStmt Tn b i = none → skipWs C .eof b i = .end_) ∧
    (∀ j, NQ.skipToStmt Tn b i = some j → ∃ c r, j = c :: r ∧ skipWs C .eof b i = .rune c r) := by
  intro b i
  induction i generalizing b with
  | nil => cases b <;> simp [NQ.skipToStmt, skipWs]
  | cons a rest ih =>
    cases b with
    | true =>
      simp only [NQ.skipToStmt, skipWs]
      by_cases h1 : a = 0x0a ∨ a = 0x0d
      · rw [if_pos h1, if_pos h1]; exact ih false
      · rw [if_neg h1, if_neg h1]; exact ih true
    | false =>
      simp only [NQ.skipToStmt, skipWs]
      by_cases h1 : a = 0x23
      · rw [if_pos h1, if_pos h1]; exact ih true
      · rw [if_neg h1, if_neg h1, h.ws a]
        by_cases h2 : NQ.isSpace Tn a = true
        · rw [if_pos h2, if_pos h2]; exact ih false
        · rw [if_neg h2, if_neg h2]
          exact ⟨fun hh => (by cases hh), fun j hj => (by injection hj with hj; subst hj; exact ⟨a, rest, rfl, rfl⟩)⟩

theorem nt_toEOL (h : NTCfg Tn T C) : ∀ (b : Bool) (i : List Nat),
    (∀ rest, NQ.toEOL Tn .eof b i = .start rest → skipWs C .eof b i = skipWs C .eof false rest) ∧
    (NQ.toEOL Tn .eof b i = .done → skipWs C .eof b i = .end_) := by
  intro b i
  induction i generalizing b with
  | nil => cases b <;> simp [NQ.toEOL, skipWs]
  | cons a rest ih =>
    cases b with
    | true =>
      simp only [NQ.toEOL, skipWs]
      by_cases h1 : a = 0x0a ∨ a = 0x0d
      · rw [if_pos h1, if_pos h1]
        exact ⟨fun r hr => (by injection hr with hr; subst hr; rfl), fun hh => (by cases hh)⟩
      · rw [if_neg h1, if_neg h1]; exact ih true
    | false =>
      simp only [NQ.toEOL, skipWs]
      by_cases h1 : a = 0x23
      · rw [if_pos h1, if_pos h1]; exact ih true
      · rw [if_neg h1, if_neg h1]
        by_cases h2 : a = 0x0d ∨ a = 0x0a
        · have : isWs C a = true := by
            simp only [isWs, Bool.or_eq_true, decide_eq_true_eq]
            rcases h2 with h2 | h2 <;> simp [h2]
          rw [if_pos h2, if_pos this]
          exact ⟨fun r hr => (by injection hr with hr; subst hr; rfl), fun hh => (by cases hh)⟩
        · rw [if_neg h2, h.ws a]
          by_cases h3 : NQ.isSpace Tn a = true
          · rw [if_pos h3, if_pos h3]; exact ih false
          · rw [if_neg h3, if_neg h3]
            exact ⟨fun r hr => (by cases hr), fun hh => (by cases hh)⟩

theorem nt_expectDot (h : NTCfg Tn T C) : ∀ (b : Bool) (i r : List Nat),
    NQ.expectDot Tn .eof b i = .ok () r → skipWs C .eof b i = .rune 0x2e r := by
  intro b i
  induction i generalizing b with
  | nil => intro r hh; cases b <;> simp [NQ.expectDot] at hh
  | cons a rest ih =>
    intro r hh
    cases b with
    | true =>
      simp only [NQ.expectDot, skipWs] at hh ⊢
      split at hh
      · next h1 => rw [if_pos h1]; exact ih _ _ hh
      · next h1 => rw [if_neg h1]; exact ih _ _ hh
    | false =>
      simp only [NQ.expectDot, skipWs] at hh ⊢
      split at hh
      · next h1 =>
        subst h1
        injection hh with _ h2; subst h2
        have : isWs C 0x2e = false := by rw [h.ws]; exact h.sp_dot
        simp [this]
      · next h1 =>
        split at hh
        · next h2 => rw [if_pos h2]; exact ih _ _ hh
        · next h2 =>
          rw [if_neg h2, h.ws a]
          split at hh
          · next h3 => rw [if_pos h3]; exact ih _ _ hh
          · cases hh

/-- `captureTerm` first skips what `scan` skips; the rune it then dispatches on is an opener. -/
theorem nt_captureTerm_skip (h : NTCfg Tn T C) (urlOk : List Nat → Bool) (pos : NQ.Pos) :
    ∀ (b : Bool) (i : List Nat) (t : Term (List Nat)) (r : List Nat),
    NQ.captureTerm Tn urlOk .eof pos b i = .ok t r →
    ∃ c rest, skipWs C .eof b i = .rune c rest ∧ NQ.captureTerm Tn urlOk .eof pos false (c :: rest) = .ok t r ∧
      (c = 0x3c ∨ (c = 0x5f ∧ pos.bnode = true) ∨ (c = 0x22 ∧ pos.literal = true)) := by
  intro b i
  induction i generalizing b with
  | nil => intro t r hh; cases b <;> simp [NQ.captureTerm] at hh
  | cons a rest ih =>
    intro t r hh
    cases b with
    | true =>
      simp only [NQ.captureTerm, skipWs] at hh ⊢
      split at hh
      · next h1 => rw [if_pos h1]; exact ih _ _ _ hh
      · next h1 => rw [if_neg h1]; exact ih _ _ _ hh
    | false =>
      have hopen : ∀ (hc : a = 0x3c ∨ (a = 0x5f ∧ pos.bnode = true) ∨ (a = 0x22 ∧ pos.literal = true)),
          skipWs C .eof false (a :: rest) = .rune a rest := by
        intro hc
        have h1 : a ≠ 0x23 := by rcases hc with rfl | ⟨rfl, _⟩ | ⟨rfl, _⟩ <;> decide
        have h2 : isWs C a = false := by
          rw [h.ws]
          rcases hc with rfl | ⟨rfl, _⟩ | ⟨rfl, _⟩
          · exact h.sp_lt
          · exact h.sp_us
          · exact h.sp_dq
        simp [skipWs, h1, h2]
      by_cases h1 : a = 0x3c
      · exact ⟨a, rest, hopen (Or.inl h1), hh, Or.inl h1⟩
      · by_cases h2 : (a == 0x5f && pos.bnode) = true
        · have h2' : a = 0x5f ∧ pos.bnode = true := by simpa using h2
          exact ⟨a, rest, hopen (Or.inr (Or.inl h2')), hh, Or.inr (Or.inl h2')⟩
        · by_cases h3 : (a == 0x22 && pos.literal) = true
          · have h3' : a = 0x22 ∧ pos.literal = true := by simpa using h3
            exact ⟨a, rest, hopen (Or.inr (Or.inr h3')), hh, Or.inr (Or.inr h3')⟩
          · have h2'' : ¬ ((decide (a = 0x5f) && pos.bnode) = true) := by simpa using h2
            have h3'' : ¬ ((decide (a = 0x22) && pos.literal) = true) := by simpa using h3
            simp only [NQ.captureTerm, if_neg h1, if_neg h2'', if_neg h3''] at hh
            simp only [skipWs]
            split at hh
            · next h4 => rw [if_pos h4]; exact ih _ _ _ hh
            · next h4 =>
              rw [if_neg h4, h.ws a]
              split at hh
              · next h5 => rw [if_pos h5]; exact ih _ _ _ hh
              · cases hh

end RdfModel.TtlDoc
