package main

import (
	"bufio"
	"bytes"
	"encoding/json"
	"fmt"
	"io"
	"os"
	"os/exec"
	"strings"
	"sync"
	"syscall"
	"time"

	"verifharness/vh"
)

type engine struct {
	k        *collector
	rep      *vh.Report
	corp     *Corpus
	formats  []string
	rng      *vh.Rng
	nw       int
	thorough bool
	scale    int

	mu       sync.Mutex
	suspects []Case // in-process watchdog hits, confirmed in a child at the end
	risky    []Case // cases that may exhaust the stack or memory: run in a child
	latchObs []latchObservation
}

func (e *engine) has(f string) bool {
	for _, x := range e.formats {
		if x == f {
			return true
		}
	}
	return false
}

func (e *engine) randOpts(r *vh.Rng, format string) Opts {
	o := Opts{Offsets: r.Bool(), Base: r.Bool()}
	switch format {
	case "jsonld", "htmljsonld", "html":
		o.Lax = r.Chance(30)
		o.Mode = vh.Pick(r, []string{"", "", "json-ld-1.1", "json-ld-1.0"})
		o.Dir = vh.Pick(r, []string{"", "", "i18n-datatype", "compound-literal"})
		o.Loader = r.Chance(60)
	case "rdfjson":
		o.Lax = r.Chance(40)
	case "rdfa":
		o.Profile = r.Intn(3)
	case "microdata":
		o.Lax = r.Bool()
		o.Profile = 2 * r.Intn(2)
	}
	return o
}

func (e *engine) randSched(r *vh.Rng, n int) Sched {
	s := Sched{Chunk: "whole", FaultAt: -1}
	switch r.Intn(10) {
	case 0:
		s.Chunk = "1"
	case 1:
		s.Chunk = "midrune"
	case 2:
		s.Chunk = vh.Pick(r, []string{"2", "3", "7"})
	case 3, 4:
		s.Chunk, s.Seed = "rand", r.U64()%1000
	}
	if r.Chance(8) {
		s.FaultAt = r.Intn(n + 1)
		s.Fault = vh.Pick(r, []string{"inj", "ueof"})
	}
	return s
}

// account records the evaluation in the report (histograms, non-triviality).
func (e *engine) account(c Case, r runResult) {
	repMu.Lock()
	defer repMu.Unlock()
	nontrivial := len(r.Stmts) > 0 || (r.Verdict == "error" && len(c.Input) > 8)
	e.rep.Eval(c.Format+"\x00"+c.Opts.String()+"\x00"+string(c.Input), nontrivial)
	e.rep.Count("format:" + c.Format)
	e.rep.Count("family:" + c.Family)
	e.rep.Count("verdict:" + c.Format + ":" + r.Verdict)
	e.rep.Count("chunk:" + c.Sched.Chunk)
	if c.Sched.FaultAt >= 0 {
		e.rep.Count("fault:" + c.Sched.Fault)
	}
	switch n := len(r.Stmts); {
	case n == 0:
		e.rep.Count("stmts:0")
	case n < 10:
		e.rep.Count("stmts:1-9")
	case n < 100:
		e.rep.Count("stmts:10-99")
	default:
		e.rep.Count("stmts:100+")
	}
	if c.Opts.Offsets {
		e.rep.Count("opt:offsets")
	}
	if c.Opts.Base {
		e.rep.Count("opt:base")
	}
	if c.Opts.Lax {
		e.rep.Count("opt:lax")
	}
	if c.Opts.Mode != "" {
		e.rep.Count("opt:mode:" + c.Opts.Mode)
	}
	if r.Verdict != "panic" && r.Verdict != "hang" && len(e.latchObs) < 6000 {
		e.latchObs = append(e.latchObs, latchObservation{Format: c.Format, N: len(r.Stmts), Err: r.Verdict == "error", LifeOK: len(r.Life) == 0})
	}
}

// pool runs cases from the producer on nw workers.
func (e *engine) pool(produce func(emit func(Case))) {
	ch := make(chan Case, 256)
	var wg sync.WaitGroup
	for i := 0; i < e.nw; i++ {
		wg.Add(1)
		go func() {
			defer wg.Done()
			for c := range ch {
				r := execCase(c)
				if r.Verdict == "hang" {
					repMu.Lock()
					e.suspects = append(e.suspects, c)
					repMu.Unlock()
					continue
				}
				e.account(c, r)
				e.k.judge(c, r)
				if c.Sched.FaultAt >= 0 && r.Delivered && r.Verdict == "clean" {
					e.k.add(violation{Prop: "C15", Kind: "fault-swallowed", Format: c.Format, Sub: c.Sched.Fault, Detail: "reader failed but the decoder ended cleanly", Case: c})
				}
			}
		}()
	}
	produce(func(c Case) {
		if !e.has(c.Format) {
			return
		}
		ch <- c
	})
	close(ch)
	wg.Wait()
}

func (e *engine) seeds(format string) []Seed { return e.corp.ByFormat[format] }

// runTotality: the C05 / C06 generator families.
func (e *engine) runTotality() {
	r := e.rng
	nCorpus, nMut, nTrunc, nFault := 150, 60000, 4000, 4000 // per format
	depths := []int{1, 2, 3, 8, 64, 300, 1000}
	sizes := []int{1 << 10, 64 << 10}
	if e.thorough {
		nCorpus, nMut, nTrunc, nFault = 1 << 30, 400000, 30000, 30000
		depths = []int{1, 2, 3, 8, 64, 300, 1000, 3000, 10000}
		sizes = []int{1 << 10, 64 << 10, 256 << 10, 1 << 20}
	}
	nMut, nTrunc, nFault = nMut*e.scale, nTrunc*e.scale, nFault*e.scale
	if e.thorough {
		e.rep.Exhaustive = append(e.rep.Exhaustive, "every suite file of the repository through its decoder(s) with 4 option combinations", "truncation at every offset of every suite file <= 2 KiB (sampled per format up to the budget), every 16th offset above")
	}
	e.pool(func(emit func(Case)) {
		// 1. round-0 and later witnesses, all option corners
		for _, w := range e.corp.Round0 {
			for _, f := range formatsOfWitness(w.Name) {
				for i := 0; i < 8; i++ {
					o := e.randOpts(r, f)
					o.Offsets = i&1 == 1
					o.Base = i&2 == 2
					sc := wholeSched
					sc.Chunk = []string{"whole", "1", "rand", "midrune"}[(i/2)%4]
					emit(Case{Format: f, Opts: o, Sched: sc, Input: w.B, Family: "witness", Name: w.Name})
				}
			}
		}
		// 2. suite files
		for _, f := range allFormats {
			ss := e.seeds(f)
			if len(ss) == 0 {
				continue
			}
			n := nCorpus
			if n > len(ss) {
				n = len(ss)
			}
			for i := 0; i < n; i++ {
				s := ss[i]
				if n < len(ss) {
					s = vh.Pick(r, ss)
				}
				reps := 1
				if e.thorough {
					reps = 4
				}
				for j := 0; j < reps; j++ {
					o := e.randOpts(r, f)
					if e.thorough {
						o.Offsets, o.Base = j&1 == 1, j&2 == 2
					}
					emit(Case{Format: f, Opts: o, Sched: e.randSched(r, len(s.B)), Input: s.B, Family: "suite", Name: s.Name})
				}
			}
		}
		// 3. mutations
		for _, f := range allFormats {
			ss := e.seeds(f)
			if len(ss) == 0 {
				continue
			}
			hot := hotFor(f)
			for i := 0; i < nMut; i++ {
				s := vh.Pick(r, ss)
				if len(s.B) > 16<<10 && r.Chance(90) {
					s = vh.Pick(r, ss)
				}
				m := mutate(r, s.B, hot)
				emit(Case{Format: f, Opts: e.randOpts(r, f), Sched: e.randSched(r, len(m)), Input: m, Family: "mutated", Name: s.Name})
			}
		}
		// 4. truncations
		for _, f := range allFormats {
			ss := e.seeds(f)
			if len(ss) == 0 {
				continue
			}
			emitted := 0
			for emitted < nTrunc {
				s := vh.Pick(r, ss)
				step := 16
				if e.thorough && len(s.B) <= 2048 {
					step = 1
				}
				o := e.randOpts(r, f)
				start := r.Intn(step)
				for cut := start; cut < len(s.B) && emitted < nTrunc; cut += step {
					emit(Case{Format: f, Opts: o, Sched: wholeSched, Input: s.B[:cut], Family: "truncated", Name: s.Name})
					emitted++
				}
				emitted++
			}
		}
		// 5. injected reader faults
		for _, f := range allFormats {
			ss := e.seeds(f)
			if len(ss) == 0 {
				continue
			}
			for i := 0; i < nFault; i++ {
				s := vh.Pick(r, ss)
				sc := e.randSched(r, len(s.B))
				sc.FaultAt, sc.Fault = r.Intn(len(s.B)+1), vh.Pick(r, []string{"inj", "ueof"})
				if r.Chance(20) {
					sc.FaultAt = len(s.B) // after the last byte
				}
				emit(Case{Format: f, Opts: e.randOpts(r, f), Sched: sc, Input: s.B, Family: "fault", Name: s.Name})
			}
		}
		// 6. nesting and huge tokens; the big ones go to an expendable child process
		for _, f := range allFormats {
			for _, g := range nestGens[f] {
				for _, d := range depths {
					in := g.F(d)
					for j := 0; j < 2; j++ {
						c := Case{Format: f, Opts: e.randOpts(r, f), Sched: wholeSched, Input: in, Family: "nest", Name: fmt.Sprintf("%s@%d", g.Name, d)}
						if j == 1 {
							c.Sched = e.randSched(r, len(in))
							c.Sched.FaultAt = -1
						}
						if d > 300 {
							if e.has(f) {
								e.risky = append(e.risky, c)
							}
						} else {
							emit(c)
						}
					}
				}
			}
			for _, g := range hugeGens[f] {
				for _, sz := range sizes {
					in := g.F(sz)
					c := Case{Format: f, Opts: e.randOpts(r, f), Sched: wholeSched, Input: in, Family: "huge", Name: fmt.Sprintf("%s@%d", g.Name, sz)}
					if r.Chance(30) {
						c.Sched = Sched{Chunk: vh.Pick(r, []string{"1", "rand", "midrune"}), Seed: 7, FaultAt: -1}
					}
					if sz > 64<<10 {
						if e.has(f) {
							e.risky = append(e.risky, c)
						}
					} else {
						emit(c)
					}
				}
			}
		}
	})
	e.runInChildren(e.risky, "risky")
	e.confirmSuspects()
}

func (e *engine) confirmSuspects() {
	if len(e.suspects) == 0 {
		return
	}
	e.rep.Hist["watchdog-hits-in-process"] = len(e.suspects)
	s := e.suspects
	if len(s) > 40 {
		s = s[:40]
	}
	for len(s) > 0 { // one child at a time, nothing else running
		done := e.oneChild(s, "confirm")
		if done <= 0 {
			done = 1
		}
		s = s[done:]
	}
}

// ---------------------------------------------------------------- child processes

type childResult struct {
	I       int      `json:"i"`
	Verdict string   `json:"v"`
	N       int      `json:"n"`
	Err     string   `json:"e,omitempty"`
	PFunc   string   `json:"pf,omitempty"`
	PKind   string   `json:"pk,omitempty"`
	PValue  string   `json:"pv,omitempty"`
	Life    []string `json:"l,omitempty"`
	WF      []string `json:"w,omitempty"`
	Deliv   bool     `json:"d,omitempty"`
	Ms      int64    `json:"ms"`
}

// childMemCap: hard address-space limit of a child (the decoders under test can allocate gigabytes on
// a few hundred kilobytes of nested input; the machine is shared).
const childMemCap = 4 << 30

func childMain() {
	syscall.Setrlimit(syscall.RLIMIT_AS, &syscall.Rlimit{Cur: childMemCap, Max: childMemCap})
	in := bufio.NewReaderSize(os.Stdin, 1<<20)
	w := bufio.NewWriter(os.Stdout)
	i := 0
	for {
		l, err := in.ReadString('\n')
		if len(strings.TrimSpace(l)) > 0 {
			c, ok := parseLine(strings.TrimSpace(l))
			if ok {
				fmt.Fprintf(w, "S %d\n", i)
				w.Flush()
				r := execCase(c)
				cr := childResult{I: i, Verdict: r.Verdict, N: len(r.Stmts), Err: r.Err, Life: r.Life, WF: r.WF, Deliv: r.Delivered, Ms: r.Elapsed.Milliseconds()}
				if r.Panic != nil {
					cr.PFunc, cr.PKind, cr.PValue = r.Panic.Func, r.Panic.Kind, r.Panic.Value
				}
				if len(cr.Err) > 300 {
					cr.Err = cr.Err[:300]
				}
				b, _ := json.Marshal(cr)
				fmt.Fprintf(w, "R %s\n", b)
				w.Flush()
				if r.Verdict == "hang" {
					os.Exit(3) // get rid of the leaked goroutine; the parent restarts a child for the rest
				}
			}
			i++
		}
		if err != nil {
			return
		}
	}
}

// runInChildren executes cases in child processes of this binary, several in parallel; a crash of a
// child (fatal stack overflow, out of memory) is attributed to the case it was running.
func (e *engine) runInChildren(cases []Case, why string) {
	if len(cases) == 0 {
		return
	}
	nproc := e.nw / 2
	if nproc < 1 {
		nproc = 1
	}
	if nproc > len(cases) {
		nproc = len(cases)
	}
	var wg sync.WaitGroup
	for p := 0; p < nproc; p++ {
		var mine []Case
		for i := p; i < len(cases); i += nproc {
			mine = append(mine, cases[i])
		}
		wg.Add(1)
		go func(mine []Case) {
			defer wg.Done()
			for len(mine) > 0 {
				done := e.oneChild(mine, why)
				if done <= 0 {
					done = 1
				}
				mine = mine[done:]
			}
		}(mine)
	}
	wg.Wait()
}

// oneChild feeds the cases to one child; returns how many were consumed (finished or crashed).
func (e *engine) oneChild(cases []Case, why string) int {
	cmd := exec.Command(os.Args[0], "-child")
	cmd.Env = append(os.Environ(), "GOMEMLIMIT=3GiB")
	stdin, _ := cmd.StdinPipe()
	stdout, _ := cmd.StdoutPipe()
	var stderr bytes.Buffer
	cmd.Stderr = &stderr
	if err := cmd.Start(); err != nil {
		fmt.Fprintln(realStderr, "child:", err)
		return len(cases)
	}
	go func() {
		w := bufio.NewWriterSize(stdin, 1<<20)
		for _, c := range cases {
			w.WriteString(c.Line())
			w.WriteByte('\n')
		}
		w.Flush()
		stdin.Close()
	}()
	sc := bufio.NewScanner(stdout)
	sc.Buffer(make([]byte, 1<<20), 1<<26)
	lines := make(chan string)
	go func() {
		for sc.Scan() {
			lines <- sc.Text()
		}
		close(lines)
	}()
	finished, started := 0, -1
	var total time.Duration
	for _, c := range cases {
		total += budget(len(c.Input)) + 5*time.Second
	}
	overall := time.After(total)
loop:
	for {
		select {
		case l, ok := <-lines:
			if !ok {
				break loop
			}
			if strings.HasPrefix(l, "S ") {
				fmt.Sscan(l[2:], &started)
			} else if strings.HasPrefix(l, "R ") {
				var cr childResult
				if json.Unmarshal([]byte(l[2:]), &cr) == nil && cr.I < len(cases) {
					e.childOutcome(cases[cr.I], cr, why)
					finished = cr.I + 1
				}
			}
		case <-overall:
			cmd.Process.Kill()
			break loop
		}
	}
	io.Copy(io.Discard, stdout)
	err := cmd.Wait()
	if finished < len(cases) && started >= finished {
		// the child died while running cases[started]
		c := cases[started]
		msg := stderr.String()
		kind, sub := "crash", "fatal"
		switch {
		case strings.Contains(msg, "stack overflow") || strings.Contains(msg, "goroutine stack exceeds"):
			sub = "stack-overflow:" + firstRepoFrameText(msg)
		case strings.Contains(msg, "out of memory") || strings.Contains(msg, "cannot allocate"):
			sub = "out-of-memory"
		case err != nil && strings.Contains(err.Error(), "killed"):
			kind, sub = "hang", hangSub(c)
		}
		if strings.HasPrefix(sub, "out-of-memory") {
			sub = "out-of-memory:" + hangSub(c)
		}
		if len(msg) > 600 {
			msg = msg[:600]
		}
		repMu.Lock()
		e.rep.Count("child-crash:" + sub)
		repMu.Unlock()
		e.k.add(violation{Prop: "C05", Kind: kind, Format: c.Format, Sub: sub, Detail: fmt.Sprintf("child process died (%v): %s", err, msg), Case: c})
		return started + 1
	}
	if finished == 0 && started < 0 {
		return len(cases) // child produced nothing at all: give up on this batch (reported through stderr)
	}
	return finished
}

func firstRepoFrameText(trace string) string {
	for _, l := range strings.Split(trace, "\n") {
		if strings.HasPrefix(l, repoMod) {
			l = strings.TrimPrefix(l, repoMod)
			if i := strings.LastIndex(l, "("); i > 0 {
				l = l[:i]
			}
			return l
		}
	}
	return "?"
}

func (e *engine) childOutcome(c Case, cr childResult, why string) {
	if cr.Verdict == "hang" && why != "confirm" {
		repMu.Lock()
		e.suspects = append(e.suspects, c)
		repMu.Unlock()
		return
	}
	r := runResult{Outcome: Outcome{Verdict: cr.Verdict, Err: cr.Err, Life: cr.Life, WF: cr.WF, Elapsed: time.Duration(cr.Ms) * time.Millisecond}, Delivered: cr.Deliv}
	r.Stmts = make([]string, cr.N)
	if cr.PFunc != "" {
		r.Panic = &PanicInfo{Func: cr.PFunc, Kind: cr.PKind, Value: cr.PValue}
	}
	if why == "confirm" && cr.Verdict != "hang" {
		repMu.Lock()
		e.rep.Count("watchdog-hit-not-confirmed")
		repMu.Unlock()
	}
	e.account(c, r)
	repMu.Lock()
	if time.Duration(cr.Ms)*time.Millisecond > budget(len(c.Input))/2 {
		e.rep.Count(fmt.Sprintf("near-watchdog(>50%%):%s:%s", c.Format, c.Name))
	}
	repMu.Unlock()
	e.k.judge(c, r)
}

// hangSub: class sub-key of a watchdog hit: generator family and generator name (no depth / size).
func hangSub(c Case) string {
	n := c.Name
	if i := strings.Index(n, "@"); i > 0 {
		n = n[:i]
	}
	if c.Family == "nest" || c.Family == "huge" {
		return c.Family + ":" + n
	}
	return c.Family
}
