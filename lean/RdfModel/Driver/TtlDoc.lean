/-
  Driver handler for the Turtle/TriG statement layer (component `ttld`).

    ttld.dec <pkg:turtle|trig> <end:eof|io> <base:x<hex>|-> <bytes>
        →  <stmt>;<stmt>;…|<verdict>      stmt = s,p,o,g  (terms in wire form, `-` = nil / no graph)
           verdict = clean | err:<eof|io|syntax|pfx|resolve> | panic | out-of-fuel
    ttld.resolve <base:x<hex>|-> <ref:x<hex>>  →  some <bytes> | unsure

  Blank nodes are renumbered by first occurrence (`b0`, `b1`, …) in the order s, p, o, g of the
  statement stream; the Go side does the same.

  IRI resolution: `Cfg.resolve` is instantiated with RFC 3986 §5.2 (`Spec.RFC3986.resolve`) on a
  *safe fragment* on which `/repo/iri` (a `net/url` wrapper with known deviations, D14) is expected
  to agree with the RFC: lower-case scheme, non-empty authority of `[a-z0-9.-]`, path of unreserved
  characters and `/` without empty segments (Go's `resolvePath` treats `..//` unlike RFC 3986), query/fragment of unreserved characters and `=&`, base absolute with
  authority, with a non-empty path and without fragment (Go keeps the base's fragment for an empty
  reference and does not insert the `/` of RFC 3986 §5.2.3 under an empty base path), and without
  `.`/`..` segments in the base path (a base declared without a base in force is kept verbatim, and Go
  removes its dot segments on every later resolution, also for `<>`, `<#x>`, `<?y>`). Outside the fragment the resolver answers `none`, the run ends with `err:resolve`,
  and the harness counts a resolver-caused skip when the implementation went on.
-/
import RdfModel.Driver.Wire
import RdfModel.Model.TurtleDoc
import RdfModel.Gen.TtlTables
import RdfModel.Gen.NQTables
import RdfModel.Spec.RFC3986
namespace RdfModel.Driver.TtlDoc
open RdfModel RdfModel.Wire RdfModel.TtlDoc

def isLower (c : Nat) : Bool := 0x61 ≤ c && c ≤ 0x7a
def isUpper (c : Nat) : Bool := 0x41 ≤ c && c ≤ 0x5a
def isDig (c : Nat) : Bool := 0x30 ≤ c && c ≤ 0x39
def unres (c : Nat) : Bool := isLower c || isUpper c || isDig c || c = 0x2d || c = 0x2e || c = 0x5f || c = 0x7e

def safeScheme : List Nat → Bool
  | [] => false
  | c :: rest => isLower c && rest.all (fun d => isLower d || isDig d)

def safeAuth (a : List Nat) : Bool :=
  !a.isEmpty && a.all (fun c => isLower c || isDig c || c = 0x2d || c = 0x2e) &&
  a.head? != some 0x2e && a.head? != some 0x2d

def noEmptySegment : List Nat → Bool
  | 0x2f :: 0x2f :: _ => false
  | _ :: rest => noEmptySegment rest
  | [] => true

def safeParts (p : Spec.RFC3986.Parts) : Bool :=
  (match p.scheme with
    | none => true
    | some s => safeScheme s && p.authority.isSome) &&
  (match p.authority with
    | none => true
    | some a => safeAuth a) &&
  p.path.all (fun c => unres c || c = 0x2f) && noEmptySegment p.path &&
  (match p.query with | none => true | some q => q.all (fun c => unres c || c = 0x3d || c = 0x26)) &&
  (match p.fragment with | none => true | some q => q.all (fun c => unres c || c = 0x3d || c = 0x26))

/-- `Cfg.resolve` of the driver. -/
def resolveSafe (base : Option (List Nat)) (ref : List Nat) : Option (List Nat) :=
  let R := Spec.RFC3986.split ref
  if !safeParts R then none
  else match base with
    | none => some ref
    | some b =>
      let B := Spec.RFC3986.split b
      if safeParts B && B.scheme.isSome && B.authority.isSome && B.fragment.isNone && B.path.head? == some 0x2f &&
          (Spec.RFC3986.segments B.path).all (fun sg => !Spec.RFC3986.isDotSegment sg) then some (Spec.RFC3986.resolve b ref)
      else none

def cfgOf (pkg : String) : Option Cfg :=
  let mk (trig : Bool) (T : Ttl.Tables) : Cfg :=
    { trig := trig, P := Producers.real T, resolve := resolveSafe,
      isSpace := inRanges Gen.unicodeSpace, pnBase := inRanges T.pnCharsBase }
  if pkg = "turtle" then some (mk false Gen.turtle)
  else if pkg = "trig" then some (mk true Gen.trig)
  else none

def showClass : EClass → String
  | .eof => "eof" | .io => "io" | .syntax => "syntax" | .pfx => "pfx" | .resolve => "resolve"

def showVerdict : Verdict → String
  | .clean => "clean"
  | .error e => "err:" ++ showClass e
  | .panic => "panic"
  | .outOfFuel => "out-of-fuel"

/-- first-occurrence numbering of blank nodes -/
def numberOf (b : BN) : List BN → Nat → Option Nat
  | [], _ => none
  | x :: rest, i => if x = b then some i else numberOf b rest (i + 1)

def labelOf (n : Nat) : List Nat := asc ("b" ++ toString n)

def canonTerm (seen : List BN) : T → Term (List Nat) × List BN
  | .iri v => (.iri v, seen)
  | .lit l d t => (.lit l d t, seen)
  | .bnode b =>
    match numberOf b seen 0 with
    | some i => (.bnode (labelOf i), seen)
    | none => (.bnode (labelOf seen.length), seen ++ [b])

def canonOpt (seen : List BN) : Option T → Option (Term (List Nat)) × List BN
  | none => (none, seen)
  | some t => let (t', s) := canonTerm seen t; (some t', s)

def showStmts : List BN → List Stmt → List String
  | _, [] => []
  | seen, st :: rest =>
    let (s, seen) := canonOpt seen st.s
    let (p, seen) := canonOpt seen st.p
    let (o, seen) := canonTerm seen st.o
    let (g, seen) := canonOpt seen st.g
    (showOptTerm s ++ "," ++ showOptTerm p ++ "," ++ showTerm o ++ "," ++ showOptTerm g) :: showStmts seen rest

def optRunes (s : String) : Option (Option (List Nat)) :=
  if s = "-" then some none else (runesTok s).map some

def handle (op : String) (args : List String) : Option String :=
  match op, args with
  | "dec", [pkg, e, base, inp] => do
    let C ← cfgOf pkg
    let e ← (if e = "eof" then some NQ.End.eof else if e = "io" then some NQ.End.ioerr else none)
    let base ← optRunes base
    let rs ← runesTok inp
    let (ss, v) := run C e base [] rs
    pure (String.intercalate ";" (showStmts [] ss) ++ "|" ++ showVerdict v)
  | "resolve", [base, ref] => do
    let base ← optRunes base
    let ref ← runesTok ref
    match resolveSafe base ref with
    | some r => pure ("some " ++ tokOfRunes r)
    | none => pure "unsure"
  | _, _ => none

end RdfModel.Driver.TtlDoc
