/-
  C14 helper lemmas, part 3: histories (`trace`, `exec`), freshness, label/mapping stability.
-/
import RdfModel.Proofs.C14Step
namespace RdfModel.Proofs.C14
open RdfModel.BN RdfModel.C14

/-! ### histories -/

theorem exec_nil (U : Nat → Bytes) (s : State) : exec U s [] = s := rfl

theorem exec_cons (U : Nat → Bytes) (s : State) (op : Op) (ops : List Op) :
    exec U s (op :: ops) = exec U (step U s op).1 ops := rfl

theorem exec_append (U : Nat → Bytes) (s : State) (a b : List Op) :
    exec U s (a ++ b) = exec U (exec U s a) b := by
  simp [exec, List.foldl_append]

theorem ext_exec (U : Nat → Bytes) (s : State) (ops : List Op) : Ext s (exec U s ops) := by
  induction ops generalizing s with
  | nil => exact Ext.refl s
  | cons op ops ih => exact Ext.trans (step_ext U s op) (ih _)

theorem inv_exec (U : Nat → Bytes) {s : State} (hI : Inv s) (ops : List Op) : Inv (exec U s ops) := by
  induction ops generalizing s with
  | nil => exact hI
  | cons op ops ih => exact ih (step_inv U hI op)

theorem ext_take_le (U : Nat → Bytes) (s : State) (ops : List Op) {i j : Nat} (hij : i ≤ j) :
    Ext (exec U s (ops.take i)) (exec U s (ops.take j)) := by
  have h : ops.take j = ops.take i ++ (ops.take j).drop i := by
    have := (List.take_append_drop i (ops.take j)).symm
    rw [List.take_take, Nat.min_eq_left hij] at this
    exact this
  rw [h, exec_append]
  exact ext_exec U _ _

theorem ext_take_all (U : Nat → Bytes) (s : State) (ops : List Op) (i : Nat) :
    Ext (exec U s (ops.take i)) (exec U s ops) := by
  have h : ops = ops.take i ++ ops.drop i := (List.take_append_drop i ops).symm
  conv => rhs; rw [h, exec_append]
  exact ext_exec U _ _

/-- the `i`-th entry of a history is the `i`-th operation applied to the state reached by the first `i` -/
theorem trace_getElem? (U : Nat → Bytes) (s : State) (ops : List Op) (i : Nat) (op : Op) (o : Out)
    (h : (trace U s ops)[i]? = some (op, o)) :
    ops[i]? = some op ∧ o = (step U (exec U s (ops.take i)) op).2 := by
  induction ops generalizing s i with
  | nil => simp [trace] at h
  | cons op' ops ih =>
    cases i with
    | zero =>
      simp [trace] at h
      obtain ⟨h1, h2⟩ := h
      subst h1
      simp [exec, h2.symm]
    | succ i =>
      simp only [trace, List.getElem?_cons_succ] at h
      have := ih _ i h
      simp only [List.getElem?_cons_succ, List.take_succ_cons, exec_cons]
      exact this

theorem exec_take_succ (U : Nat → Bytes) (s : State) (ops : List Op) (i : Nat) (op : Op) (h : ops[i]? = some op) :
    exec U s (ops.take (i + 1)) = (step U (exec U s (ops.take i)) op).1 := by
  rw [List.take_add_one, h]
  simp [exec]

/-! ### results are issued; fresh results were not -/

theorem step_out_issued (U : Nat → Bytes) {s : State} (hI : Inv s) (op : Op) (id : Ident)
    (h : (step U s op).2 = .node (some id)) : Issued (step U s op).1 id := by
  cases op with
  | newBlankNode f =>
    cases hf : fresh s f with
    | none => simp [step, hf] at h
    | some r =>
      obtain ⟨s', id'⟩ := r
      simp [step, hf] at h ⊢; subst h
      exact (fresh_spec hf).2.2.2.2.2.2.2.2.2
  | newStringBlankNode j l =>
    by_cases hj : j < s.strfs.length
    · by_cases hl : l = []
      · cases hf : fresh s (.strf j) with
        | none => simp [step, hj, hl, hf] at h
        | some r =>
          obtain ⟨s', id'⟩ := r
          simp [step, hj, hl, hf] at h ⊢; subst h
          exact (fresh_spec hf).2.2.2.2.2.2.2.2.2
      · simp [step, hj, hl] at h ⊢; subst h; trivial
    · simp [step, hj] at h
  | mapNode m n =>
    simp only [step] at h ⊢
    cases hm : s.mappers[m]? with
    | none => simp [mapNode, hm] at h
    | some mp =>
      cases hn : assoc n mp.known with
      | some mapped =>
        simp [mapNode, hm, hn] at h ⊢; subst h
        exact hI.mapper_issued m mp hm n mapped (assoc_mem hn)
      | none =>
        cases hf : fresh s mp.factory with
        | none => simp [mapNode, hm, hn, hf] at h
        | some r =>
          obtain ⟨s', id'⟩ := r
          simp [mapNode, hm, hn, hf] at h ⊢; subst h
          have hi' := (fresh_spec hf).2.2.2.2.2.2.2.2.2
          cases id' with
          | bn f v => exact hi'
          | bnDefault v => exact hi'
          | bnString f v => trivial
  | newFactory => simp [step] at h
  | newStringFactory => simp [step] at h
  | newInt64Provider fmt => simp [step] at h
  | newUUIDProvider fmt => simp [step] at h
  | getStringProvider j fb => simp only [step] at h; split at h <;> cases h
  | getLabel p n =>
    simp only [step] at h
    exfalso
    induction p with
    | int64 i =>
      simp only [getLabel] at h
      split at h
      · cases h
      · split at h <;> (simp only [sprintf1] at h; split at h <;> cases h)
    | uuid i =>
      simp only [getLabel] at h
      split at h
      · cases h
      · split at h <;> (simp only [sprintf1] at h; split at h <;> cases h)
    | pass sc fb ih =>
      simp only [getLabel] at h
      split at h
      · split at h
        · cases h
        · exact ih h
      · exact ih h
  | newMapper f => simp only [step] at h; split at h <;> cases h
  | propagate f =>
    simp only [step] at h
    split at h
    · split at h <;> cases h
    · split at h <;> cases h
    · cases h
  | termEquals a b => simp [step] at h

theorem step_fresh_not_issued (U : Nat → Bytes) {s : State} (op : Op) (hf : FreshOp op) (id : Ident)
    (h : (step U s op).2 = .node (some id)) : ¬ Issued s id := by
  rcases hf with ⟨f, rfl⟩ | ⟨j, rfl⟩
  · simp only [step] at h
    split at h
    · rename_i s' id' hf
      simp at h; subst h
      exact (fresh_spec hf).2.2.2.2.2.2.2.2.1
    · cases h
  · simp only [step] at h
    split at h
    · simp at h
      split at h
      · rename_i s' id' hf
        simp at h; subst h
        exact (fresh_spec hf).2.2.2.2.2.2.2.2.1
      · cases h
    · cases h

theorem mapNode_fresh_not_issued {s : State} (m : Nat) (n : Node) (hp : peekMap s m n = none) (id : Ident)
    (h : (mapNode s m n).2 = .node (some id)) : ¬ Issued s id := by
  simp only [mapNode] at h
  simp only [peekMap] at hp
  split at h
  · cases h
  · rename_i mp hm
    rw [hm] at hp
    simp only at hp
    rw [hp] at h
    simp only at h
    split at h
    · cases h
    · rename_i s' id' hf
      simp at h; subst h
      exact (fresh_spec hf).2.2.2.2.2.2.2.2.1

/-- Core of all uniqueness statements: a node that was not issued before step `j` differs from every
    node returned by an earlier step. -/
theorem unique_of_not_issued (U : Nat → Bytes) {s₀ : State} (h₀ : Inv s₀) (ops : List Op) {i j : Nat} (hij : i < j)
    (opi : Op) (ni : Node) (hi : (trace U s₀ ops)[i]? = some (opi, .node ni))
    (idj : Ident) (hn : ¬ Issued (exec U s₀ (ops.take j)) idj) :
    termEquals ni (some idj) = false ∧ termEquals (some idj) ni = false := by
  have key : termEquals ni (some idj) = false := by
    apply termEquals_false_of_ne
    intro hni
    subst hni
    obtain ⟨hop, ho⟩ := trace_getElem? U s₀ ops i opi _ hi
    have hIi := inv_exec U h₀ (ops.take i)
    have h1 := step_out_issued U hIi opi idj ho.symm
    rw [← exec_take_succ U s₀ ops i opi hop] at h1
    exact hn (issued_mono (ext_take_le U s₀ ops (Nat.succ_le_of_lt hij)) h1)
  exact ⟨key, by rw [termEquals_comm]; exact key⟩

/-! ### labels are stable -/

theorem getLabel_peek (U : Nat → Bytes) (s : State) (p : ProvRef) (n : Node)
    (h : (getLabel U s p n).2 ≠ .bad) : peek U (getLabel U s p n).1 p n = some (getLabel U s p n).2 := by
  induction p with
  | int64 i =>
    simp only [getLabel] at h ⊢
    split
    · rename_i hp; simp [hp] at h
    · rename_i pr hp
      split
      · rename_i idx hk
        simp [peek, hp, hk]
      · rename_i hk
        simp [peek, lt_length_of_getElem? hp, assoc_cons_self]
  | uuid i =>
    simp only [getLabel] at h ⊢
    split
    · rename_i hp; simp [hp] at h
    · rename_i pr hp
      split
      · rename_i idx hk
        simp [peek, hp, hk]
      · rename_i hk
        simp [peek, lt_length_of_getElem? hp, assoc_cons_self]
  | pass sc fb ih =>
    rcases pass_cases sc n with ⟨v, rfl⟩ | hno
    · simp [getLabel_pass_own, peek_pass_own]
    · rw [getLabel_pass_other U s sc fb n hno] at h ⊢
      rw [peek_pass_other U _ sc fb n hno]
      exact ih h

theorem peek_ext (U : Nat → Bytes) {s s' : State} (hE : Ext s s') (p : ProvRef) (n : Node) (o : Out)
    (h : peek U s p n = some o) : peek U s' p n = some o := by
  induction p with
  | int64 i =>
    simp only [peek] at h ⊢
    split at h
    · cases h
    · rename_i pr hp
      obtain ⟨pr', hp', hf, hk⟩ := hE.int64s i pr hp
      rw [hp']
      cases ha : assoc n pr.known with
      | none => rw [ha] at h; cases h
      | some idx =>
        rw [ha] at h
        simp [hk n idx ha, hf]
        simpa using h
  | uuid i =>
    simp only [peek] at h ⊢
    split at h
    · cases h
    · rename_i pr hp
      obtain ⟨pr', hp', hf, hk⟩ := hE.uuids i pr hp
      rw [hp']
      cases ha : assoc n pr.known with
      | none => rw [ha] at h; cases h
      | some idx =>
        rw [ha] at h
        simp [hk n idx ha, hf]
        simpa using h
  | pass sc fb ih =>
    rcases pass_cases sc n with ⟨v, rfl⟩ | hno
    · rw [peek_pass_own] at h ⊢; exact h
    · rw [peek_pass_other U _ sc fb n hno] at h ⊢
      exact ih h

theorem peek_getLabel (U : Nat → Bytes) (s : State) (p : ProvRef) (n : Node) (o : Out)
    (h : peek U s p n = some o) : (getLabel U s p n).2 = o := by
  induction p with
  | int64 i =>
    simp only [peek] at h
    simp only [getLabel]
    split at h
    · cases h
    · rename_i pr hp
      simp only [hp]
      cases ha : assoc n pr.known with
      | none => rw [ha] at h; cases h
      | some idx => rw [ha] at h; simpa using h
  | uuid i =>
    simp only [peek] at h
    simp only [getLabel]
    split at h
    · cases h
    · rename_i pr hp
      simp only [hp]
      cases ha : assoc n pr.known with
      | none => rw [ha] at h; cases h
      | some idx => rw [ha] at h; simpa using h
  | pass sc fb ih =>
    rcases pass_cases sc n with ⟨v, rfl⟩ | hno
    · rw [peek_pass_own] at h; rw [getLabel_pass_own]; simpa using h
    · rw [peek_pass_other U _ sc fb n hno] at h
      rw [getLabel_pass_other U s sc fb n hno]
      exact ih h

/-- in one state, an int64/UUID provider has fixed one label for at most one node -/
theorem peek_inj_leaf (U : Nat → Bytes) (hU : Function.Injective U) {s : State} (hI : Inv s) (p : ProvRef)
    (hp : isLeaf p = true) (n m : Node) (l : Bytes)
    (hn : peek U s p n = some (.label l)) (hm : peek U s p m = some (.label l)) : n = m := by
  cases p with
  | int64 i =>
    simp only [peek] at hn hm
    split at hn
    · cases hn
    · rename_i pr hpr
      rw [hpr] at hm
      simp only at hm
      cases ha : assoc n pr.known with
      | none => rw [ha] at hn; cases hn
      | some a =>
        cases hb : assoc m pr.known with
        | none => rw [hb] at hm; cases hm
        | some b =>
          rw [ha] at hn; rw [hb] at hm
          simp at hn hm
          have hab : a = b := decimal_inj (sprintf1_inj hn hm)
          subst hab
          exact hI.int64_inj i pr hpr n m a (assoc_mem ha) (assoc_mem hb)
  | uuid i =>
    simp only [peek] at hn hm
    split at hn
    · cases hn
    · rename_i pr hpr
      rw [hpr] at hm
      simp only at hm
      cases ha : assoc n pr.known with
      | none => rw [ha] at hn; cases hn
      | some a =>
        cases hb : assoc m pr.known with
        | none => rw [hb] at hm; cases hm
        | some b =>
          rw [ha] at hn; rw [hb] at hm
          simp at hn hm
          have hab : a = b := hU (sprintf1_inj hn hm)
          subst hab
          exact hI.uuid_inj i pr hpr n m a (assoc_mem ha) (assoc_mem hb)
  | pass sc fb => simp [isLeaf] at hp

/-- after `getLabel p n` at position `i` of a history (result not `bad`), every later state has that
    result fixed -/
theorem peek_after (U : Nat → Bytes) (s₀ : State) (ops : List Op) (i : Nat) (p : ProvRef) (n : Node) (o : Out)
    (hi : (trace U s₀ ops)[i]? = some (.getLabel p n, o)) (hb : o ≠ .bad) {j : Nat} (hij : i < j) :
    peek U (exec U s₀ (ops.take j)) p n = some o := by
  obtain ⟨hop, ho⟩ := trace_getElem? U s₀ ops i _ _ hi
  have h1 : peek U (exec U s₀ (ops.take (i + 1))) p n = some o := by
    rw [exec_take_succ U s₀ ops i _ hop]
    simp only [step] at ho ⊢
    rw [ho] at hb ⊢
    exact getLabel_peek U _ p n hb
  exact peek_ext U (ext_take_le U s₀ ops (Nat.succ_le_of_lt hij)) p n o h1

theorem peek_final (U : Nat → Bytes) (s₀ : State) (ops : List Op) (i : Nat) (p : ProvRef) (n : Node) (o : Out)
    (hi : (trace U s₀ ops)[i]? = some (.getLabel p n, o)) (hb : o ≠ .bad) :
    peek U (exec U s₀ ops) p n = some o := by
  have h1 := peek_after U s₀ ops i p n o hi hb (Nat.lt_succ_self i)
  exact peek_ext U (ext_take_all U s₀ ops (i + 1)) p n o h1

/-! ### mappings are stable -/

theorem mapNode_peek (s : State) (m : Nat) (n : Node) (id : Ident)
    (h : (mapNode s m n).2 = .node (some id)) : peekMap (mapNode s m n).1 m n = some id := by
  simp only [mapNode] at h ⊢
  split
  · rename_i hm; simp [hm] at h
  · rename_i mp hm
    split
    · rename_i mapped hn
      simp [hm, hn] at h
      simp [peekMap, hm, hn, h]
    · rename_i hn
      split
      · rename_i hf; simp [hm, hn, hf] at h
      · rename_i s' id' hf
        simp [hm, hn, hf] at h
        have h4 : s'.mappers = s.mappers := (fresh_spec hf).2.2.2.1
        simp [peekMap, h4, lt_length_of_getElem? hm, assoc_cons_self, h]

theorem peekMap_ext {s s' : State} (hE : Ext s s') (m : Nat) (n : Node) (id : Ident)
    (h : peekMap s m n = some id) : peekMap s' m n = some id := by
  simp only [peekMap] at h ⊢
  split at h
  · cases h
  · rename_i mp hm
    obtain ⟨mp', hm', _, hk⟩ := hE.mappers m mp hm
    rw [hm']
    exact hk n id h

theorem peekMap_mapNode (s : State) (m : Nat) (n : Node) (id : Ident)
    (h : peekMap s m n = some id) : (mapNode s m n).2 = .node (some id) := by
  simp only [peekMap] at h
  simp only [mapNode]
  split at h
  · cases h
  · rename_i mp hm
    simp [hm, h]

theorem peekMap_inj {s : State} (hI : Inv s) (m : Nat) (n n' : Node) (id : Ident)
    (h : peekMap s m n = some id) (h' : peekMap s m n' = some id) : n = n' := by
  simp only [peekMap] at h h'
  split at h
  · cases h
  · rename_i mp hm
    rw [hm] at h'
    exact hI.mapper_inj m mp hm n n' id (assoc_mem h) (assoc_mem h')

theorem peekMap_after (U : Nat → Bytes) (s₀ : State) (ops : List Op) (i : Nat) (m : Nat) (n : Node) (id : Ident)
    (hi : (trace U s₀ ops)[i]? = some (.mapNode m n, .node (some id))) {j : Nat} (hij : i < j) :
    peekMap (exec U s₀ (ops.take j)) m n = some id := by
  obtain ⟨hop, ho⟩ := trace_getElem? U s₀ ops i _ _ hi
  have h1 : peekMap (exec U s₀ (ops.take (i + 1))) m n = some id := by
    rw [exec_take_succ U s₀ ops i _ hop]
    simp only [step] at ho ⊢
    exact mapNode_peek _ m n id ho.symm
  exact peekMap_ext (ext_take_le U s₀ ops (Nat.succ_le_of_lt hij)) m n id h1

theorem peekMap_final (U : Nat → Bytes) (s₀ : State) (ops : List Op) (i : Nat) (m : Nat) (n : Node) (id : Ident)
    (hi : (trace U s₀ ops)[i]? = some (.mapNode m n, .node (some id))) :
    peekMap (exec U s₀ ops) m n = some id :=
  peekMap_ext (ext_take_all U s₀ ops (i + 1)) m n id (peekMap_after U s₀ ops i m n id hi (Nat.lt_succ_self i))

/-- a key is in a mapper's table only because `MapBlankNode` was called with it -/
theorem step_mapper_key (U : Nat → Bytes) (s : State) (op : Op) (m : Nat) (n : Node)
    (h : peekMap (step U s op).1 m n ≠ none) : peekMap s m n ≠ none ∨ op = .mapNode m n := by
  by_cases hop : op = .mapNode m n
  · exact Or.inr hop
  · left
    intro hnone
    apply h
    cases op with
    | mapNode m' n' =>
      simp only [step, mapNode]
      split
      · exact hnone
      · rename_i mp hm
        split
        · exact hnone
        · rename_i hn'
          split
          · exact hnone
          · rename_i s' id hf
            have h4 : s'.mappers = s.mappers := (fresh_spec hf).2.2.2.1
            simp only [peekMap, List.getElem?_set, h4]
            by_cases hmm : m' = m
            · subst hmm
              simp only [if_true, lt_length_of_getElem? hm]
              have hnn : n' ≠ n := fun hnn => hop (by rw [hnn])
              rw [assoc_cons_ne hnn]
              simpa [peekMap, hm] using hnone
            · simp only [if_neg hmm]
              simpa [peekMap] using hnone
    | newMapper f =>
      simp only [step]
      split
      · simp only [peekMap] at hnone ⊢
        cases hm : s.mappers[m]? with
        | some mp => rw [getElem?_append_some _ hm]; simpa [hm] using hnone
        | none =>
          cases hm' : (s.mappers ++ [({ factory := f.getD .dflt, known := [] } : Mapper)])[m]? with
          | none => rfl
          | some mp' =>
            rcases getElem?_append_singleton_cases hm' with h1 | ⟨_, rfl⟩
            · rw [hm] at h1; cases h1
            · simp [assoc]
      · exact hnone
    | newBlankNode f =>
      simp only [step]
      split
      · rename_i s' id hf
        have h4 : s'.mappers = s.mappers := (fresh_spec hf).2.2.2.1
        simpa [peekMap, h4] using hnone
      · exact hnone
    | newStringBlankNode j l =>
      simp only [step]
      split
      · split
        · split
          · rename_i s' id hf
            have h4 : s'.mappers = s.mappers := (fresh_spec hf).2.2.2.1
            simpa [peekMap, h4] using hnone
          · exact hnone
        · exact hnone
      · exact hnone
    | getLabel p n' =>
      simp only [step]
      have := getLabel_mappers U s p n'
      simpa [peekMap, this] using hnone
    | newFactory => simpa [step, peekMap] using hnone
    | newStringFactory => simpa [step, peekMap] using hnone
    | newInt64Provider fmt => simpa [step, peekMap] using hnone
    | newUUIDProvider fmt => simpa [step, peekMap] using hnone
    | getStringProvider j fb => simp only [step]; split <;> exact hnone
    | propagate f =>
      simp only [step]
      split
      · split
        · simpa [peekMap] using hnone
        · exact hnone
      · split <;> exact hnone
      · exact hnone
    | termEquals a b => exact hnone

theorem exec_mapper_key (U : Nat → Bytes) (s : State) (ops : List Op) (m : Nat) (n : Node)
    (h : peekMap (exec U s ops) m n ≠ none) : peekMap s m n ≠ none ∨ Op.mapNode m n ∈ ops := by
  induction ops generalizing s with
  | nil => exact Or.inl h
  | cons op ops ih =>
    rw [exec_cons] at h
    rcases ih _ h with h1 | h1
    · rcases step_mapper_key U s op m n h1 with h2 | h2
      · exact Or.inl h2
      · exact Or.inr (by simp [h2])
    · exact Or.inr (by simp [h1])

end RdfModel.Proofs.C14
