package main

// C15: the same bytes under different read schedules, twice, truncated, and with reader faults.

import (
	"bytes"
	"encoding/json"
	"encoding/xml"
	"fmt"
	"hash/fnv"
	"io"
	"regexp"
	"sort"
	"strings"

	"verifharness/vh"
)

// chunkings: the read schedules every base document is decoded under (besides the whole read):
// fixed sizes, a split inside every multi-byte sequence and escape, random sizes, a first Read of
// 0 bytes ("z…"), and the end of input reported by the same Read call that delivers the last bytes
// ("e…": n > 0 together with io.EOF, which io.Reader explicitly allows).
var chunkings = []string{"1", "2", "3", "7", "midrune", "rand", "z1", "zwhole", "e1", "e7", "ewhole"}

// faultKinds: what the failing reader returns: a custom error or io.ErrUnexpectedEOF, on a Read call of
// its own (0 bytes) or ("+") together with the last bytes before the failure.
var faultKinds = []string{"inj", "ueof", "inj+", "ueof+"}

// firstBytes: prefixes put in front of a document so that its first character is multi-byte (a byte
// order mark, no-break space, line separator, ideographic space, a letter, an astral character):
// decoders that treat the first bytes specially (BOM, encoding sniffing) must do so for every
// schedule of the reads, in particular when the first Read returns 0, 1 or 2 bytes.
var firstBytes = []string{"\xef\xbb\xbf", "\xef\xbb\xbf\xef\xbb\xbf", "\u00a0", "\u2028", "\u3000", "\u00e9", "\U0001F41B", "\xef\xbb", "\xef"}

func sameStmts(a, b []string) bool {
	if len(a) != len(b) {
		return false
	}
	for i := range a {
		if a[i] != b[i] {
			return false
		}
	}
	return true
}

func firstDiff(a, b []string) string {
	for i := 0; i < len(a) && i < len(b); i++ {
		if a[i] != b[i] {
			return fmt.Sprintf("statement %d: %s  vs  %s", i, clip(a[i]), clip(b[i]))
		}
	}
	return fmt.Sprintf("%d vs %d statements", len(a), len(b))
}

func clip(s string) string {
	if len(s) > 200 {
		return s[:200] + "…"
	}
	return s
}

// detectableCut: for the whole-document formats, is the input cut at offset k (b[:k]) ill-formed at
// the level of the carrier syntax while the complete document is well-formed? The referee is the
// standard library (encoding/json, encoding/xml tokenizer), not the decoder under test: the oracle
// checks that a carrier-level truncation is *surfaced* by the decoder.
func detectableCut(format string, o Opts, b []byte, k int) bool {
	switch format {
	case "jsonld", "rdfjson":
		if o.Lax {
			return false
		}
		return json.Valid(b) && !json.Valid(b[:k])
	case "rdfxml":
		return xmlTokenizes(b) && !xmlTokenizes(b[:k])
	}
	return false
}

// xmlTokenizes: the bytes are a sequence of complete XML tokens with balanced elements.
func xmlTokenizes(b []byte) bool {
	d := xml.NewDecoder(bytes.NewReader(b))
	for {
		_, err := d.RawToken()
		if err == io.EOF {
			break
		}
		if err != nil {
			return false
		}
	}
	d = xml.NewDecoder(bytes.NewReader(b))
	for {
		_, err := d.Token()
		if err == io.EOF {
			return true
		}
		if err != nil {
			return false
		}
	}
}

// prefixSub: class sub-key of a failed prefix comparison. Turtle/TriG: when the cut falls inside a
// collection item that is followed by something that could start another item, the decoder has
// emitted the item (rdf:first) and the link to a next cell (rdf:rest) before it meets the end of
// input: two trailing statements stem from the cut region. Everything else keeps the plain key.
func prefixSub(what string, got, ref []string) string {
	n := len(got)
	if n >= 2 && isPrefixUpTo(got, ref, 2) && strings.Contains(got[n-2], "22-rdf-syntax-ns#first> ") && strings.Contains(got[n-1], "22-rdf-syntax-ns#rest> _:") {
		return "collection-item-cut"
	}
	return what
}

// isPrefixUpToLast: a (minus possibly its last element) is a prefix of b.
func isPrefixUpToLast(a, b []string) bool { return isPrefixUpTo(a, b, 1) }

// isPrefixUpTo: a minus its last k elements is a prefix of b.
func isPrefixUpTo(a, b []string, k int) bool {
	n := len(a) - k
	if n < 0 {
		n = 0
	}
	if n > len(b) {
		return false
	}
	for i := 0; i < n; i++ {
		if a[i] != b[i] {
			return false
		}
	}
	return true
}

// scheduleCase runs every C15 comparison on one base input.
func (s *sink) schedule(c Case, r *vh.Rng, thorough, verboseOut bool) {
	base := c
	base.Sched = wholeSched
	ref := execCase(base)
	s.account(base, ref)
	if ref.Verdict == "panic" || ref.Verdict == "hang" {
		s.panicOrHang(base, ref) // belongs to C05; counted there
		s.count("c15-skipped:" + ref.Verdict)
		return
	}
	n := len(c.Input)
	cmp := func(kind, what string, cc Case, got runResult) {
		s.account(cc, got)
		if got.Verdict == "panic" || got.Verdict == "hang" {
			s.panicOrHang(cc, got)
			return
		}
		if got.Verdict == ref.Verdict && !sameStmts(got.Stmts, ref.Stmts) && sameModuloOrder(got.Stmts, ref.Stmts) {
			s.add(violation{Prop: "C15", Kind: "order-only", Format: c.Format, Sub: orderSub(c.Format, c.Input),
				Detail: fmt.Sprintf("same statements (modulo blank-node labels) in a different order under %s: %s", what, firstDiff(ref.Stmts, got.Stmts)), Case: cc})
		} else if got.Verdict != ref.Verdict || !sameStmts(got.Stmts, ref.Stmts) {
			s.add(violation{Prop: "C15", Kind: kind, Format: c.Format, Sub: what,
				Detail: fmt.Sprintf("reference (whole): %s/%d statements; %s: %s/%d statements; %s; errors %q vs %q", ref.Verdict, len(ref.Stmts), what, got.Verdict, len(got.Stmts), firstDiff(ref.Stmts, got.Stmts), clip(ref.Err), clip(got.Err)), Case: cc})
		} else if got.Err != ref.Err {
			s.count("same-verdict-different-message:" + c.Format)
		}
	}
	// determinism: the same bytes, the same options, k decodes in all (k = 2; 4 quick / 8 thorough for
	// documents with container maps, @nest or @reverse, whose members an implementation must sort to
	// visit them in a defined order: Go's map iteration order differs from run to run)
	k := 2
	if mapHeavy(c.Format, c.Input) {
		k = 4
		if thorough {
			k = 8
		}
	}
	s.count(fmt.Sprintf("determinism-runs:k=%d", k))
	for i := 1; i < k; i++ {
		again := execCase(base)
		cmp("nondeterminism", "second-run", base, again)
	}
	// chunking independence
	for _, ch := range chunkings {
		cc := c
		cc.Sched = Sched{Chunk: ch, Seed: r.U64() % 1000, FaultAt: -1}
		cmp("chunking", "chunk-"+ch, cc, execCase(cc))
	}
	// reader faults
	var faultPos []int
	if thorough && n <= 4096 {
		for p := 0; p <= n; p += 16 {
			faultPos = append(faultPos, p)
		}
		faultPos = append(faultPos, n)
	} else {
		faultPos = []int{0, n}
		for i := 0; i < 6; i++ {
			faultPos = append(faultPos, r.Intn(n+1))
		}
	}
	// every offset of the trailing trivia (after the last non-blank byte) and the very end: a reader
	// that fails there fails *instead of* reporting the end of input
	last := triviaStart(c.Format, c.Input)
	for p := last; p <= n && p-last < 64; p++ {
		faultPos = append(faultPos, p)
	}
	if n-last >= 64 { // long trivia: its first 64 offsets above, and always the very end and the byte before it
		faultPos = append(faultPos, n-1, n)
	}
	s.Hist[fmt.Sprintf("fault-positions:%s:trailing-trivia-and-end", c.Format)] += n - last + 1
	for i, p := range faultPos {
		cc := c
		cc.Sched = Sched{Chunk: vh.Pick(r, []string{"whole", "whole", "rand", "1"}), Seed: 3, FaultAt: p, Fault: faultKinds[i%len(faultKinds)]}
		if n > 2048 && cc.Sched.Chunk == "1" {
			cc.Sched.Chunk = "rand"
		}
		got := execCase(cc)
		s.account(cc, got)
		switch {
		case got.Verdict == "panic" || got.Verdict == "hang":
			s.panicOrHang(cc, got)
		case got.Delivered && got.Verdict != "error":
			s.add(violation{Prop: "C15", Kind: "fault-swallowed", Format: c.Format, Sub: cc.Sched.Fault, Detail: fmt.Sprintf("reader failed at offset %d of %d but the decoder ended cleanly with %d statements", p, n, len(got.Stmts)), Case: cc})
		case !got.Delivered && ref.Verdict == "clean" && got.Verdict == "clean":
			// The complete document decodes cleanly and this reader never reports the end of input (it
			// fails at offset p <= len instead): a clean end means the decoder stopped reading before the
			// end of input and so cannot have noticed the failure. Expected verdict: an error — "the
			// reader fails with an error => the decoder reports an error", wherever the failure is,
			// including the trailing white space / comments and the position of io.EOF itself.
			where := "inside-document"
			if p >= last {
				where = "trailing-trivia-or-end"
			}
			s.count("fault-not-read:" + c.Format + ":" + where)
			s.add(violation{Prop: "C15", Kind: "fault-not-read", Format: c.Format, Sub: where, Detail: fmt.Sprintf("reader fails at offset %d of %d (never reports end of input) but the decoder ended cleanly with %d statements without reading that far; expected: an error", p, n, len(got.Stmts)), Case: cc})
		case streaming[c.Format] && ref.Verdict == "clean" && !isPrefixUpToLast(got.Stmts, ref.Stmts):
			s.add(violation{Prop: "C15", Kind: "prefix", Format: c.Format, Sub: prefixSub("fault", got.Stmts, ref.Stmts), Detail: "statements before the reader fault are not a prefix of the complete document's: " + firstDiff(got.Stmts, ref.Stmts), Case: cc})
		}
		if !got.Delivered {
			s.count("fault-not-reached:" + c.Format)
		}
	}
	// truncation
	if ref.Verdict == "clean" {
		step := 16
		if thorough && n <= 2048 {
			step = 1
		}
		for k := 1 + r.Intn(step); k < n; k += step {
			cc := c
			cc.Input = c.Input[:k]
			cc.Sched = wholeSched
			cc.Family = "truncated"
			got := execCase(cc)
			s.account(cc, got)
			switch {
			case got.Verdict == "panic" || got.Verdict == "hang":
				s.panicOrHang(cc, got)
			case !streaming[c.Format] && got.Verdict == "clean" && detectableCut(c.Format, c.Opts, c.Input, k):
				s.add(violation{Prop: "C15", Kind: "truncation-accepted", Format: c.Format, Sub: "carrier-syntax", Detail: fmt.Sprintf("document cut at offset %d of %d (inside the JSON text / XML root element) ended cleanly with %d statements", k, n, len(got.Stmts)), Case: cc})
			case streaming[c.Format] && !isPrefixUpToLast(got.Stmts, ref.Stmts):
				s.add(violation{Prop: "C15", Kind: "prefix", Format: c.Format, Sub: prefixSub("truncation", got.Stmts, ref.Stmts), Detail: "statements of the truncated document are not a prefix of the complete document's: " + firstDiff(got.Stmts, ref.Stmts), Case: cc})
			}
			if detectableCut(c.Format, c.Opts, c.Input, k) {
				s.count("detectable-cuts:" + c.Format)
			}
		}
	}
	if verboseOut {
		s.Log = append(s.Log, fmt.Sprintf("replay C15 %s: reference %s/%d statements err=%q", c.Format, ref.Verdict, len(ref.Stmts), ref.Err))
	}
}

func (e *engine) runSchedules() {
	r := e.rng
	nDocs, nMut := 200, 200 // per format
	maxLen := 4096
	if e.thorough {
		nDocs, nMut = 600, 600
		maxLen = 16384
	}
	nDocs, nMut = nDocs*e.scale, nMut*e.scale
	e.farm(e.nw, func(emitJob func(job)) {
		emit := func(c Case) {
			emitJob(job{Kind: jobSchedule, C: c, Seed: r.U64(), Thorough: e.thorough})
		}
		for _, w := range e.corp.Round0 {
			if strings.HasPrefix(w.Name, "c05x/c15-") {
				for _, f := range formatsOfWitness(w.Name) {
					emit(Case{Format: f, Opts: e.randOpts(r, f), Input: w.B, Family: "witness", Name: w.Name})
				}
			}
		}
		// JSON-LD container maps (jsonldmaps.go): map-order in full for every carrier, container-maps
		// thinned at the quick tier (every nullish entry value x key in the middle of a 12-entry map
		// without coercion, one in 16 of the others; all of them in the C05 / C06 pass)
		for _, d := range mapOrderDocs(12) {
			for _, f := range []string{"jsonld", "htmljsonld", "html"} {
				in := d.B
				if f != "jsonld" {
					in = []byte(wrapJSONLDInHTML(string(d.B)))
				}
				o := e.randOpts(r, f)
				o.Mode, o.Lax = "", false
				emit(Case{Format: f, Opts: o, Input: in, Family: "map-order", Name: d.Name})
			}
			repMu.Lock()
			e.rep.Hist["map-order:site:"+strings.SplitN(d.Name, "/", 2)[0]]++
			e.rep.Hist["map-order:construct:"+strings.SplitN(d.Name, "/", 2)[1]]++
			repMu.Unlock()
		}
		for _, f := range []string{"rdfa", "html"} {
			o := e.randOpts(r, f)
			emit(Case{Format: f, Opts: o, Input: rdfaInlistOrderDoc(12), Family: "map-order", Name: "rdfa/inlist-predicates"})
		}
		for i, d := range containerMapDocs() {
			if !e.thorough && !(strings.HasSuffix(d.Name, "/plain/pos2") && nullishEntry(d.Name)) && i%16 != 0 {
				continue
			}
			fs := []string{"jsonld"}
			if i%4 == 0 { // the HTML carriers add nothing to the schedule comparisons of the JSON text itself: one document in four
				fs = []string{"jsonld", "htmljsonld", "html"}
			}
			for _, f := range fs {
				in := d.B
				if f != "jsonld" {
					in = []byte(wrapJSONLDInHTML(string(d.B)))
				}
				o := e.randOpts(r, f)
				o.Mode, o.Lax = "", false
				emit(Case{Format: f, Opts: o, Input: in, Family: "container-maps", Name: d.Name})
			}
			repMu.Lock()
			e.rep.Hist["container-maps:kind:"+strings.SplitN(d.Name, "/", 2)[0]]++
			repMu.Unlock()
		}
		for _, f := range allFormats {
			ss := e.seeds(f)
			if len(ss) == 0 {
				continue
			}
			pick := func() Seed {
				for i := 0; i < 50; i++ {
					s := vh.Pick(r, ss)
					if len(s.B) <= maxLen && len(s.B) > 0 {
						return s
					}
				}
				return ss[0]
			}
			for i := 0; i < nDocs; i++ {
				s := pick()
				emit(Case{Format: f, Opts: e.randOpts(r, f), Input: s.B, Family: "suite", Name: s.Name})
			}
			hot := hotFor(f)
			for i := 0; i < nMut; i++ {
				s := pick()
				emit(Case{Format: f, Opts: e.randOpts(r, f), Input: mutate(r, s.B, hot), Family: "mutated", Name: s.Name})
			}
			// documents followed by trailing trivia (white space, comments): faults are injected at every offset of it
			nTrail := 4
			if e.thorough {
				nTrail = 30
			}
			for i := 0; i < nTrail*e.scale; i++ {
				s := pick()
				for _, t := range trailingTrivia(f) {
					emit(Case{Format: f, Opts: e.randOpts(r, f), Input: append(append([]byte(nil), s.B...), t...), Family: "trailing-trivia", Name: s.Name})
				}
			}
			// documents whose first character is multi-byte (see firstBytes)
			nFirst := 6
			if e.thorough {
				nFirst = 40
			}
			for i := 0; i < nFirst*e.scale; i++ {
				s := pick()
				for fi, fb := range firstBytes {
					if i >= 2 && fi > 0 && r.Chance(60) { // the byte order mark in front of every picked document, the others thinned out
						continue
					}
					repMu.Lock()
					e.rep.Hist[fmt.Sprintf("first-bytes:%q", fb)]++
					repMu.Unlock()
					emit(Case{Format: f, Opts: e.randOpts(r, f), Input: append([]byte(fb), s.B...), Family: "first-bytes", Name: s.Name})
				}
			}
			// multi-byte and escape heavy documents: the mid-rune schedule needs something to split
			for _, g := range hugeGens[f] {
				if strings.Contains(g.Name, "escapes") || strings.Contains(g.Name, "uchar") || strings.Contains(g.Name, "entities") || g.Name == "text" || g.Name == "string" || g.Name == "string-value" {
					in := bytes.ReplaceAll(g.F(600), []byte("aaa"), []byte("é🐛a"))
					emit(Case{Format: f, Opts: e.randOpts(r, f), Input: in, Family: "multibyte", Name: g.Name})
				}
			}
		}
	})
	e.confirmSuspects()
}

var reBn = regexp.MustCompile(`_:b[0-9]+`)

// sameModuloOrder: equal as multisets after replacing blank-node labels by a label-independent
// signature (three rounds of colour refinement over the statements a node occurs in). A necessary
// condition for isomorphism that separates everything but pathological symmetric cases.
func sameModuloOrder(a, b []string) bool {
	if len(a) != len(b) {
		return false
	}
	ca, cb := refine(a), refine(b)
	sort.Strings(ca)
	sort.Strings(cb)
	return sameStmts(ca, cb)
}

func refine(st []string) []string {
	colour := map[string]string{}
	cur := append([]string(nil), st...)
	for round := 0; round < 3; round++ {
		occ := map[string][]string{}
		for _, s := range st {
			masked := reBn.ReplaceAllStringFunc(s, func(l string) string { return "_:" + colour[l] })
			for _, l := range reBn.FindAllString(s, -1) {
				occ[l] = append(occ[l], strings.Replace(masked, "_:"+colour[l], "_:SELF", 1))
			}
		}
		next := map[string]string{}
		for l, o := range occ {
			sort.Strings(o)
			h := fnv.New64a()
			for _, x := range o {
				h.Write([]byte(x))
				h.Write([]byte{0})
			}
			next[l] = fmt.Sprintf("%x", h.Sum64())
		}
		colour = next
	}
	for i, s := range st {
		cur[i] = reBn.ReplaceAllStringFunc(s, func(l string) string { return "_:" + colour[l] })
	}
	return cur
}

// triviaStart: the offset after which the document holds only trivia (white space; comments and
// processing instructions for the markup formats; '#' comment lines for the line / Turtle formats):
// the region in which a reader failure replaces the end of input rather than interrupting a statement.
func triviaStart(format string, b []byte) int {
	end := len(b)
	for {
		end = len(bytes.TrimRight(b[:end], " \t\r\n"))
		t := b[:end]
		switch format {
		case "nt", "nq", "ttl", "trig":
			i := bytes.LastIndexByte(t, '\n') + 1
			line := bytes.TrimLeft(t[i:], " \t")
			if len(line) > 0 && line[0] == '#' { // a last line that is only a comment
				end = i
				continue
			}
		case "jsonld", "rdfjson":
		default:
			if bytes.HasSuffix(t, []byte("-->")) {
				if i := bytes.LastIndex(t, []byte("<!--")); i >= 0 {
					end = i
					continue
				}
			}
			if bytes.HasSuffix(t, []byte("?>")) {
				if i := bytes.LastIndex(t, []byte("<?")); i > 0 { // i == 0: the XML declaration is not trailing trivia
					end = i
					continue
				}
			}
		}
		return end
	}
}

// trailingTrivia: what may follow a complete document of the format without changing its meaning.
func trailingTrivia(format string) []string {
	switch format {
	case "rdfxml":
		return []string{"\n", "\n\n  \n", "<!-- trailing comment -->\n", "\n<?pi x?>\n"}
	case "jsonld", "rdfjson":
		return []string{"\n", " \t\r\n\n"}
	case "nt", "nq", "ttl", "trig":
		return []string{"\n", "\n# trailing comment\n", "# c"}
	}
	return []string{"\n", "<!-- trailing comment -->\n", "\n\n"}
}
