/-
  Proofs/C11MdFlat — the Microdata decoder model against the fragment denotation `Spec.Microdata.denote`, on
  ITEM-LIST documents (`docOf (L.map mkItem)`: html > head, body > items; every item a `div` with arbitrary item
  attributes but no itemtype / itemref, whose children are the canonical property elements `<meta itemprop content>`
  / `<link itemprop href>`).  This is the shape of the writer's canonical document `canonDoc g`.
-/
import RdfModel.Spec.MicrodataFragment
import RdfModel.Proofs.C11Microdata
import RdfModel.Proofs.C11MdRelabel
set_option linter.unusedSimpArgs false
namespace RdfModel.Mdd
open RdfModel RdfModel.Desc RdfModel.Spec.Html RdfModel.Spec.Microdata

/-! ## embedding of the fragment's abstract trees into DOM trees -/

def atomOf : Tag → Bytes
  | .html => asc "html" | .head => asc "head" | .body => asc "body" | .base => asc "base" | .title => asc "title"
  | .script => asc "script" | .div => asc "div" | .span => asc "span" | .sect => asc "section" | .b => asc "b"
  | .i => asc "i" | .em => asc "em" | .a => asc "a" | .area => asc "area" | .link => asc "link" | .img => asc "img"
  | .metaEl => asc "meta" | .time => asc "time" | .data => asc "data" | .meter => asc "meter" | .object => asc "object"
  | .audio => asc "audio" | .video => asc "video" | .embed => asc "embed" | .iframe => asc "iframe"
  | .source => asc "source" | .track => asc "track" | .other => asc "aside"

def optAttr (key : String) : Option Str → List Attr
  | some v => [⟨[], asc key, v⟩]
  | none => []

/-- the attributes Microdata looks at, in a fixed order (the order is irrelevant to the decoder: one attribute per
    name). RDFa-only attributes of the record are dropped (the decoder ignores unknown names). -/
def attrsOf (a : Attrs) : List Attr :=
  (if a.itemscope then [⟨[], asc "itemscope", []⟩] else []) ++
  optAttr "itemid" a.itemid ++ optAttr "itemtype" a.itemtype ++ optAttr "itemprop" a.itemprop ++
  optAttr "itemref" a.itemref ++ optAttr "id" a.id ++ optAttr "content" a.content ++ optAttr "href" a.href ++
  optAttr "src" a.src ++ optAttr "data" a.data ++ optAttr "value" a.value ++ optAttr "datetime" a.datetime

mutual
def ofSpec : Tree → Node
  | .text s => .mk 0 1 [] [] s [] []
  | .elem tag a ks => .mk 0 3 [] (atomOf tag) [] (attrsOf a) (ofSpecL ks)
def ofSpecL : List Tree → List Node
  | [] => []
  | k :: ks => ofSpec k :: ofSpecL ks
end

/-- the DOM of a document: a DocumentNode above the html element -/
def ofSpecDoc (t : Tree) : Node := .mk 0 2 [] [] [] [] [ofSpec t]

/-- the parameters as the fragment semantics fixes them: RFC 3986 resolution against the document base (none without
    one), itemtype tokens taken as they are, predicate = name resolved against the first type; `tm`, `mm` the
    xsdobject chains -/
def specEnv (base : Str) (tm mm : List (Bytes → Option (Term Nat))) : Env :=
  { resolve := fun v => if base = [] then none else some (Spec.RFC3986.resolve base v),
    normType := id,
    vocab := fun types nm => some (predicate types nm),
    timeMaps := tm, meterMaps := mm, lax := false, laxUse := false, hook := false }

/-! ## attribute lookups on embedded elements -/

theorem scanAttrs_append (l1 l2 : List Attr) (acc : ItemAttrs) :
    scanAttrs (l1 ++ l2) acc = scanAttrs l2 (scanAttrs l1 acc) := by
  induction l1 generalizing acc with
  | nil => rfl
  | cons a l1 ih =>
    simp only [List.cons_append, scanAttrs]
    repeat' split
    all_goals exact ih _

theorem kne_itemid_itemprop : (kItemid = kItemprop) = False := by decide
theorem kne_itemid_itemref : (kItemid = kItemref) = False := by decide
theorem kne_itemid_itemscope : (kItemid = kItemscope) = False := by decide
theorem kne_itemid_itemtype : (kItemid = kItemtype) = False := by decide
theorem kne_itemprop_itemid : (kItemprop = kItemid) = False := by decide
theorem kne_itemprop_itemref : (kItemprop = kItemref) = False := by decide
theorem kne_itemprop_itemscope : (kItemprop = kItemscope) = False := by decide
theorem kne_itemprop_itemtype : (kItemprop = kItemtype) = False := by decide
theorem kne_itemref_itemid : (kItemref = kItemid) = False := by decide
theorem kne_itemref_itemprop : (kItemref = kItemprop) = False := by decide
theorem kne_itemref_itemscope : (kItemref = kItemscope) = False := by decide
theorem kne_itemref_itemtype : (kItemref = kItemtype) = False := by decide
theorem kne_itemscope_itemid : (kItemscope = kItemid) = False := by decide
theorem kne_itemscope_itemprop : (kItemscope = kItemprop) = False := by decide
theorem kne_itemscope_itemref : (kItemscope = kItemref) = False := by decide
theorem kne_itemscope_itemtype : (kItemscope = kItemtype) = False := by decide
theorem kne_itemtype_itemid : (kItemtype = kItemid) = False := by decide
theorem kne_itemtype_itemprop : (kItemtype = kItemprop) = False := by decide
theorem kne_itemtype_itemref : (kItemtype = kItemref) = False := by decide
theorem kne_itemtype_itemscope : (kItemtype = kItemscope) = False := by decide
theorem keq_itemid : asc "itemid" = kItemid := rfl
theorem keq_itemprop : asc "itemprop" = kItemprop := rfl
theorem keq_itemref : asc "itemref" = kItemref := rfl
theorem keq_itemscope : asc "itemscope" = kItemscope := rfl
theorem keq_itemtype : asc "itemtype" = kItemtype := rfl
theorem scan_itemid (v : Option Str) (acc : ItemAttrs) :
    scanAttrs (optAttr "itemid" v) acc = { acc with itemid := v.getD acc.itemid } := by
  cases v <;> simp [optAttr, scanAttrs, kne_itemid_itemprop, kne_itemid_itemref, kne_itemid_itemscope, kne_itemid_itemtype, kne_itemprop_itemid, kne_itemprop_itemref, kne_itemprop_itemscope, kne_itemprop_itemtype, kne_itemref_itemid, kne_itemref_itemprop, kne_itemref_itemscope, kne_itemref_itemtype, kne_itemscope_itemid, kne_itemscope_itemprop, kne_itemscope_itemref, kne_itemscope_itemtype, kne_itemtype_itemid, kne_itemtype_itemprop, kne_itemtype_itemref, kne_itemtype_itemscope, keq_itemid, keq_itemprop, keq_itemref, keq_itemscope, keq_itemtype]
theorem scan_itemtype (v : Option Str) (acc : ItemAttrs) :
    scanAttrs (optAttr "itemtype" v) acc = { acc with itemtype := v.getD acc.itemtype } := by
  cases v <;> simp [optAttr, scanAttrs, kne_itemid_itemprop, kne_itemid_itemref, kne_itemid_itemscope, kne_itemid_itemtype, kne_itemprop_itemid, kne_itemprop_itemref, kne_itemprop_itemscope, kne_itemprop_itemtype, kne_itemref_itemid, kne_itemref_itemprop, kne_itemref_itemscope, kne_itemref_itemtype, kne_itemscope_itemid, kne_itemscope_itemprop, kne_itemscope_itemref, kne_itemscope_itemtype, kne_itemtype_itemid, kne_itemtype_itemprop, kne_itemtype_itemref, kne_itemtype_itemscope, keq_itemid, keq_itemprop, keq_itemref, keq_itemscope, keq_itemtype]
theorem scan_itemprop (v : Option Str) (acc : ItemAttrs) :
    scanAttrs (optAttr "itemprop" v) acc = { acc with itemprop := v.getD acc.itemprop } := by
  cases v <;> simp [optAttr, scanAttrs, kne_itemid_itemprop, kne_itemid_itemref, kne_itemid_itemscope, kne_itemid_itemtype, kne_itemprop_itemid, kne_itemprop_itemref, kne_itemprop_itemscope, kne_itemprop_itemtype, kne_itemref_itemid, kne_itemref_itemprop, kne_itemref_itemscope, kne_itemref_itemtype, kne_itemscope_itemid, kne_itemscope_itemprop, kne_itemscope_itemref, kne_itemscope_itemtype, kne_itemtype_itemid, kne_itemtype_itemprop, kne_itemtype_itemref, kne_itemtype_itemscope, keq_itemid, keq_itemprop, keq_itemref, keq_itemscope, keq_itemtype]
theorem scan_itemref (v : Option Str) (acc : ItemAttrs) :
    scanAttrs (optAttr "itemref" v) acc = { acc with itemref := v.getD acc.itemref } := by
  cases v <;> simp [optAttr, scanAttrs, kne_itemid_itemprop, kne_itemid_itemref, kne_itemid_itemscope, kne_itemid_itemtype, kne_itemprop_itemid, kne_itemprop_itemref, kne_itemprop_itemscope, kne_itemprop_itemtype, kne_itemref_itemid, kne_itemref_itemprop, kne_itemref_itemscope, kne_itemref_itemtype, kne_itemscope_itemid, kne_itemscope_itemprop, kne_itemscope_itemref, kne_itemscope_itemtype, kne_itemtype_itemid, kne_itemtype_itemprop, kne_itemtype_itemref, kne_itemtype_itemscope, keq_itemid, keq_itemprop, keq_itemref, keq_itemscope, keq_itemtype]

theorem scan_other (key : String) (v : Option Str) (acc : ItemAttrs)
    (h1 : asc key ≠ kItemid) (h2 : asc key ≠ kItemprop) (h3 : asc key ≠ kItemref) (h4 : asc key ≠ kItemscope)
    (h5 : asc key ≠ kItemtype) : scanAttrs (optAttr key v) acc = acc := by
  cases v <;> simp [optAttr, scanAttrs, h1, h2, h3, h4, h5]

theorem scan_attrsOf (a : Attrs) :
    scanAttrs (attrsOf a) {} =
      { itemid := a.itemid.getD [], itemprop := a.itemprop.getD [], itemref := a.itemref.getD [],
        itemscope := a.itemscope, itemtype := a.itemtype.getD [] } := by
  unfold attrsOf
  simp only [scanAttrs_append, scan_itemid, scan_itemtype, scan_itemprop, scan_itemref]
  rw [scan_other "id" _ _ (by decide) (by decide) (by decide) (by decide) (by decide),
    scan_other "content" _ _ (by decide) (by decide) (by decide) (by decide) (by decide),
    scan_other "href" _ _ (by decide) (by decide) (by decide) (by decide) (by decide),
    scan_other "src" _ _ (by decide) (by decide) (by decide) (by decide) (by decide),
    scan_other "data" _ _ (by decide) (by decide) (by decide) (by decide) (by decide),
    scan_other "value" _ _ (by decide) (by decide) (by decide) (by decide) (by decide),
    scan_other "datetime" _ _ (by decide) (by decide) (by decide) (by decide) (by decide)]
  cases h : a.itemscope
  · simp [scanAttrs]
  · simp [scanAttrs, kne_itemid_itemprop, kne_itemid_itemref, kne_itemid_itemscope, kne_itemid_itemtype, kne_itemprop_itemid, kne_itemprop_itemref, kne_itemprop_itemscope, kne_itemprop_itemtype, kne_itemref_itemid, kne_itemref_itemprop, kne_itemref_itemscope, kne_itemref_itemtype, kne_itemscope_itemid, kne_itemscope_itemprop, kne_itemscope_itemref, kne_itemscope_itemtype, kne_itemtype_itemid, kne_itemtype_itemprop, kne_itemtype_itemref, kne_itemtype_itemscope, keq_itemid, keq_itemprop, keq_itemref, keq_itemscope, keq_itemtype]

/-! ## the canonical property elements -/

section ItemList
variable {β : Type}

/-- value of a canonical property element, as the decoder model computes it -/
def valueN (base : Str) : Term β → Term Nat
  | .lit lex _ _ => Mdd.strLit lex
  | .iri i => .iri (resolveUrl base i)
  | .bnode _ => Mdd.strLit []

/-- what the theorem needs of a property triple beyond `leafOk`: Go's tokenisation of the name (Unicode spaces)
    gives the one token the HTML tokenisation (ASCII spaces) gives -/
def LeafTok (t : Triple β) : Prop := Mdd.fields (trimSpace t.p) = [t.p] ∧ t.p ≠ [] ∧ ∀ b, t.o ≠ .bnode b

theorem kind_meta : kindOfAtom (asc "meta") = .content := by decide
theorem kind_link : kindOfAtom (asc "link") = .href := by decide

theorem findAttr_content (p v : Str) :
    findAttr (asc "content") (attrsOf { itemprop := some p, content := some v }) = some v := by
  have : ¬ asc "itemprop" = asc "content" := by decide
  simp [attrsOf, optAttr, findAttr, this]

theorem findAttr_href (p v : Str) :
    findAttr (asc "href") (attrsOf { itemprop := some p, href := some v }) = some v := by
  have : ¬ asc "itemprop" = asc "href" := by decide
  simp [attrsOf, optAttr, findAttr, this]

theorem propNames_single (base : Str) (tm mm : List (Bytes → Option (Term Nat))) (p : Str)
    (h1 : Mdd.fields (trimSpace p) = [p]) (h2 : p ≠ []) : propNames (specEnv base tm mm) [] p = [p] := by
  unfold propNames
  rw [h1]
  have : p.isEmpty = false := by cases p <;> simp_all
  simp [propNamesGo, this, specEnv, predicate]

theorem walk_succ (E : Env) (doc : Node) (f : Nat) (ctx : Ctx) (n : Node) (st : St) :
    walk E doc (f + 1) ctx n st = walkStep E (walk E doc f) doc ctx n st := rfl

theorem iriValue_spec (base : Str) (tm mm : List (Bytes → Option (Term Nat))) (i : Str) :
    iriValue (specEnv base tm mm) i = .iri (resolveUrl base i) := by
  unfold iriValue specEnv resolveUrl
  by_cases h : base = [] <;> simp [h]

theorem walk_leaf (base : Str) (tm mm : List (Bytes → Option (Term Nat))) (doc : Node) (f : Nat) (ctx : Ctx) (cur : Subj)
    (hc : ctx.subj = some cur) (hty : ctx.types = []) (m : Nat) (t : Triple β) (ht : LeafTok t) (st : St) :
    walk (specEnv base tm mm) doc (f + 1) ctx (relabelFrom m (ofSpec (canonLeaf t))).1 st =
      { st with steps := st.steps + 1, out := ⟨cur.term, t.p, valueN base t.o⟩ :: st.out } ∧
    (relabelFrom m (ofSpec (canonLeaf t))).2 = m + 1 := by
  obtain ⟨s, p, o⟩ := t
  obtain ⟨h1, h2, h3⟩ := ht
  simp only at h1 h2 h3
  have hp := propNames_single base tm mm p h1 h2
  cases o with
  | bnode b => exact absurd rfl (h3 b)
  | lit lex dt lang =>
    refine ⟨?_, by simp [canonLeaf, ofSpec, ofSpecL, relabelFrom, relabelL]⟩
    simp only [canonLeaf, ofSpec, ofSpecL, relabelFrom, relabelL, walk, walkStep, Node.ns, Node.attrs, Node.kids,
      scan_attrsOf, walkKidsWith, List.foldl_nil, propElem, hc, hty, itemValue, Node.atom, atomOf, kind_meta,
      findAttr_content, Option.getD_some, Option.getD_none]
    simp [hp, emitAll, St.emit, valueN, h2]
  | iri i =>
    refine ⟨?_, by simp [canonLeaf, ofSpec, ofSpecL, relabelFrom, relabelL]⟩
    simp only [canonLeaf, ofSpec, ofSpecL, relabelFrom, relabelL, walk, walkStep, Node.ns, Node.attrs, Node.kids,
      scan_attrsOf, walkKidsWith, List.foldl_nil, propElem, hc, hty, itemValue, Node.atom, atomOf, kind_link,
      findAttr_href, Option.getD_some, Option.getD_none]
    simp [hp, emitAll, St.emit, valueN, iriValue_spec, h2]

def leafStmt (base : Str) (cur : Subj) (t : Triple β) : Stmt := ⟨cur.term, t.p, valueN base t.o⟩

theorem walk_leaves (base : Str) (tm mm : List (Bytes → Option (Term Nat))) (doc : Node) (f : Nat) (ctx : Ctx) (cur : Subj)
    (hc : ctx.subj = some cur) (hty : ctx.types = []) (ts : List (Triple β)) (hts : ∀ t ∈ ts, LeafTok t) (m : Nat) (st : St) :
    walkKidsWith (walk (specEnv base tm mm) doc (f + 1)) ctx (relabelL m (ofSpecL (ts.map canonLeaf))).1 st =
      { st with steps := st.steps + ts.length, out := (ts.map (leafStmt base cur)).reverse ++ st.out } ∧
    (relabelL m (ofSpecL (ts.map canonLeaf))).2 = m + ts.length := by
  induction ts generalizing m st with
  | nil => simp [ofSpecL, relabelL, walkKidsWith]
  | cons t ts ih =>
    obtain ⟨hw, hn⟩ := walk_leaf base tm mm doc f ctx cur hc hty m t (hts t (by simp)) st
    obtain ⟨ihw, ihn⟩ := ih (fun u hu => hts u (by simp [hu])) (m + 1)
      { st with steps := st.steps + 1, out := ⟨cur.term, t.p, valueN base t.o⟩ :: st.out }
    simp only [List.map_cons, ofSpecL, relabelL, walkKidsWith, List.foldl_cons] at ihw ⊢
    rw [hn, hw]
    rw [ihw, ihn]
    refine ⟨?_, by simp; omega⟩
    simp [leafStmt, Nat.add_assoc, Nat.add_comm 1]

/-- subject of an item and the blank-node counter after it -/
def subjN (base : Str) (a : Attrs) (cnt : Nat) : Subj × Nat :=
  match a.itemid with
  | some v => if v = [] then (.bn cnt, cnt + 1) else (.iri (resolveUrl base (trimSpace v)), cnt)
  | none => (.bn cnt, cnt + 1)

/-- what the theorem needs of an item beyond `itemOk` -/
def ItemTok (x : Attrs × List (Triple β)) : Prop :=
  (∀ v, x.1.itemid = some v → trimSpace v = trimWs v) ∧ ∀ t ∈ x.2, LeafTok t

theorem walk_item (base : Str) (tm mm : List (Bytes → Option (Term Nat))) (doc : Node) (f : Nat) (ctx : Ctx)
    (hc : ctx.subj = none) (m : Nat) (x : Attrs × List (Triple β)) (hx : itemOk x) (hx2 : ItemTok x) (st : St)
    (hun : lookupR st.resolved m = none) :
    walk (specEnv base tm mm) doc (f + 2) ctx (relabelFrom m (ofSpec (mkItem x))).1 st =
      { st with resolved := (m, (subjN base x.1 st.nextBn).1) :: st.resolved, nextBn := (subjN base x.1 st.nextBn).2,
                steps := st.steps + 1 + x.2.length, expansions := st.expansions + 1,
                out := (x.2.map (leafStmt base (subjN base x.1 st.nextBn).1)).reverse ++ st.out } ∧
    (relabelFrom m (ofSpec (mkItem x))).2 = m + 1 + x.2.length := by
  obtain ⟨a, ts⟩ := x
  obtain ⟨h1, h2, h3, _⟩ := hx
  obtain ⟨hid, hts⟩ := hx2
  simp only at h1 h2 h3 hid hts hun ⊢
  have hl : lookupR st.resolved m = none := hun
  -- the state and subject after itemSubject
  have hsubj : itemSubject (specEnv base tm mm)
      { itemid := a.itemid.getD [], itemprop := a.itemprop.getD [], itemref := [], itemscope := true, itemtype := [] }
      none { st with steps := st.steps + 1 } =
      ((subjN base a st.nextBn).1, { st with steps := st.steps + 1, nextBn := (subjN base a st.nextBn).2 }) := by
    unfold itemSubject subjN
    cases hv : a.itemid with
    | none => simp
    | some v =>
      by_cases hv0 : v = []
      · simp [hv0]
      · have := hid v hv
        simp [hv0, specEnv, resolveUrl]
        by_cases hb : base = [] <;> simp [hb]
  have hleaves := fun (c : Ctx) (cur : Subj) (hc' : c.subj = some cur) (hty : c.types = []) (s0 : St) =>
    walk_leaves base tm mm doc f c cur hc' hty ts hts (m + 1) s0
  rw [walk_succ]
  simp only [mkItem, ofSpec, relabelFrom, walkStep, Node.ns, Node.attrs, Node.kids, Node.id, scan_attrsOf,
    h1, h2, h3, Option.getD_none, visitItem, St.lookup]
  have hl' : (List.find? (fun e => e.1 == m) st.resolved) = none := by
    unfold lookupR at hl
    split at hl
    · simp at hl
    · assumption
  simp only [ne_eq, not_true_eq_false, ↓reduceIte, hl']
  rw [hsubj]
  simp only [linkItem, hc, expandItem, ne_eq, not_true_eq_false, ↓reduceIte]
  obtain ⟨hw, hn⟩ := hleaves { ctx with subj := some (subjN base a st.nextBn).1, types := [] } (subjN base a st.nextBn).1 rfl rfl
    { st with steps := st.steps + 1, nextBn := (subjN base a st.nextBn).2,
              resolved := (m, (subjN base a st.nextBn).1) :: st.resolved, expansions := st.expansions + 1 }
  refine ⟨?_, by rw [hn]⟩
  simp only [Node.kids, Node.id]
  split
  · rw [hw]
  · rw [hw]

/-- expected output for an item list, threading the blank-node counter -/
def itemsOut (base : Str) : Nat → List (Attrs × List (Triple β)) → List Stmt
  | _, [] => []
  | cnt, x :: xs => x.2.map (leafStmt base (subjN base x.1 cnt).1) ++ itemsOut base (subjN base x.1 cnt).2 xs

/-- the blank-node counter after an item list -/
def itemsCnt (base : Str) : Nat → List (Attrs × List (Triple β)) → Nat
  | cnt, [] => cnt
  | cnt, x :: xs => itemsCnt base (subjN base x.1 cnt).2 xs

theorem lookupR_none_of_lt (r : List (Nat × Subj)) (m : Nat) (h : ∀ e ∈ r, e.1 < m) : lookupR r m = none := by
  unfold lookupR
  have : r.find? (fun e => e.1 == m) = none := by
    apply List.find?_eq_none.mpr
    intro e he
    have := h e he
    simp; omega
  rw [this]

theorem walk_items (base : Str) (tm mm : List (Bytes → Option (Term Nat))) (doc : Node) (f : Nat) (ctx : Ctx)
    (hc : ctx.subj = none) (L : List (Attrs × List (Triple β))) (hL : ∀ x ∈ L, itemOk x ∧ ItemTok x) (m : Nat) (st : St)
    (hlt : ∀ e ∈ st.resolved, e.1 < m) :
    (walkKidsWith (walk (specEnv base tm mm) doc (f + 2)) ctx (relabelL m (ofSpecL (L.map mkItem))).1 st).out =
      (itemsOut base st.nextBn L).reverse ++ st.out ∧
    (walkKidsWith (walk (specEnv base tm mm) doc (f + 2)) ctx (relabelL m (ofSpecL (L.map mkItem))).1 st).hooks = st.hooks := by
  induction L generalizing m st with
  | nil => simp [ofSpecL, relabelL, walkKidsWith, itemsOut]
  | cons x xs ih =>
    obtain ⟨hx1, hx2⟩ := hL x (by simp)
    obtain ⟨hw, hn⟩ := walk_item base tm mm doc f ctx hc m x hx1 hx2 st (lookupR_none_of_lt _ _ hlt)
    simp only [List.map_cons, ofSpecL, relabelL, walkKidsWith, List.foldl_cons]
    rw [hw, hn]
    have ih' := ih (fun y hy => hL y (by simp [hy])) (m + 1 + x.2.length)
      { st with resolved := (m, (subjN base x.1 st.nextBn).1) :: st.resolved, nextBn := (subjN base x.1 st.nextBn).2,
                steps := st.steps + 1 + x.2.length, expansions := st.expansions + 1,
                out := (x.2.map (leafStmt base (subjN base x.1 st.nextBn).1)).reverse ++ st.out }
      (by
        intro e he
        simp only [List.mem_cons] at he
        rcases he with rfl | he
        · simp; omega
        · have := hlt e he; omega)
    unfold walkKidsWith at ih'
    rw [ih'.1, ih'.2]
    simp [itemsOut]

/-- the whole document: Document > html > (head, body > items) -/
theorem run_itemDoc (base : Str) (tm mm : List (Bytes → Option (Term Nat))) (L : List (Attrs × List (Triple β)))
    (hL : ∀ x ∈ L, itemOk x ∧ ItemTok x) :
    decode (specEnv base tm mm) (ofSpecDoc (docOf (L.map mkItem))) = .ok (itemsOut base 0 L) [] := by
  have hbad := run_bad_none (specEnv base tm mm) (relabel (ofSpecDoc (docOf (L.map mkItem))))
  -- enough budget for the five levels above the property elements
  obtain ⟨f, hf⟩ : ∃ f, fuelFor (relabel (ofSpecDoc (docOf (L.map mkItem)))) = f + 5 := by
    refine ⟨fuelFor (relabel (ofSpecDoc (docOf (L.map mkItem)))) - 5, ?_⟩
    have h1 : 4 ≤ (subnodes (relabel (ofSpecDoc (docOf (L.map mkItem))))).length := by
      rw [relabel_size]
      simp [ofSpecDoc, docOf, ofSpec, ofSpecL, subnodes, subnodesL]
    have h2 : 5 ≤ ((subnodes (relabel (ofSpecDoc (docOf (L.map mkItem))))).length + 1) *
        (height (relabel (ofSpecDoc (docOf (L.map mkItem)))) + 1) :=
      Nat.le_trans (by omega) (Nat.le_mul_of_pos_right _ (Nat.succ_pos _))
    unfold fuelFor
    omega
  have hitems := walk_items base tm mm (relabel (ofSpecDoc (docOf (L.map mkItem)))) f {} rfl L hL 4
    { steps := 4 } (by intro e he; simp at he)
  unfold decode finish
  rw [hbad]
  simp only
  unfold run
  rw [hf]
  generalize hd : relabel (ofSpecDoc (docOf (L.map mkItem))) = d at hitems ⊢
  have hshape : d = .mk 0 2 [] [] [] [] [.mk 1 3 [] (asc "html") [] [] [.mk 2 3 [] (asc "head") [] [] [],
      .mk 3 3 [] (asc "body") [] [] (relabelL 4 (ofSpecL (L.map mkItem))).1]] := by
    rw [← hd]
    simp [relabel, ofSpecDoc, docOf, ofSpec, ofSpecL, relabelFrom, relabelL, atomOf, attrsOf, optAttr]
  have e0 : scanAttrs [] {} = ({} : ItemAttrs) := rfl
  have hrun : walk (specEnv base tm mm) d (f + 5) {} d {} =
      walkKidsWith (walk (specEnv base tm mm) d (f + 2)) {} (relabelL 4 (ofSpecL (L.map mkItem))).1 { steps := 4 } := by
    conv => lhs; arg 5; rw [hshape]
    simp only [walk_succ, walkStep, Node.ns, Node.attrs, Node.kids, e0, walkKidsWith, List.foldl_cons, List.foldl_nil,
      propElem, ne_eq, not_true_eq_false, ↓reduceIte, Bool.false_eq_true]
  rw [hrun, hitems.1, hitems.2]
  simp

/-! ## against the denotation -/

theorem valueOf_map (base : Str) (σ : Path → Nat) (o : Term β) (h : ∀ b, o ≠ .bnode b) :
    Term.map σ (valueOf base o) = valueN base o := by
  cases o with
  | lit l d g => rfl
  | iri i => rfl
  | bnode b => exact absurd rfl (h b)

theorem subject_map (base : Str) (σ : Path → Nat) (a : Attrs) (here : Path) (cnt : Nat)
    (hid : ∀ v, a.itemid = some v → trimSpace v = trimWs v) (hσ : σ here = cnt) :
    Term.map σ (subject base a here) = (subjN base a cnt).1.term := by
  unfold subject subjN
  cases hv : a.itemid with
  | none => simp [Term.map, Subj.term, hσ]
  | some v =>
    by_cases h0 : v = []
    · simp [h0, Term.map, Subj.term, hσ]
    · simp [h0, Term.map, Subj.term, hid v hv]

/-- the closed form of `denote` on item lists (Proofs/C11Microdata.denote_items), renamed by `σ`, is the model's
    output, provided `σ` sends the position of the j-th item to the counter value on entry to it -/
theorem denoteItems_map (base : Str) (σ : Path → Nat) (L : List (Attrs × List (Triple β)))
    (hL : ∀ x ∈ L, ItemTok x) (k cnt : Nat)
    (hσ : ∀ j x, L[j]? = some x → σ [1, k + j] = itemsCnt base cnt (L.take j)) :
    ((L.zipIdx k).flatMap (fun xj => xj.1.2.map (fun t =>
        (⟨subject base xj.1.1 [1, xj.2], t.p, valueOf base t.o⟩ : Tr)))).map (Triple.map σ) = itemsOut base cnt L := by
  induction L generalizing k cnt with
  | nil => rfl
  | cons x xs ih =>
    obtain ⟨hid, hts⟩ := hL x (by simp)
    have h0 : σ [1, k] = cnt := by simpa [itemsCnt] using hσ 0 x (by simp)
    have ih' := ih (fun y hy => hL y (by simp [hy])) (k + 1) (subjN base x.1 cnt).2 (by
      intro j y hy
      have := hσ (j + 1) y (by simpa using hy)
      simpa [itemsCnt, Nat.add_assoc, Nat.add_comm 1] using this)
    simp only [List.zipIdx_cons, List.flatMap_cons, List.map_append, itemsOut]
    rw [ih']
    congr 1
    simp only [List.map_map]
    apply List.map_congr_left
    intro t ht
    simp only [Function.comp, Triple.map, leafStmt]
    rw [subject_map base σ x.1 [1, k] cnt hid h0, valueOf_map base σ t.o (hts t ht).2.2]

/-- the renaming: the position of the j-th item ↦ the blank-node counter on entry to it -/
def sigmaL (base : Str) (L : List (Attrs × List (Triple β))) : Path → Nat
  | [1, j] => itemsCnt base 0 (L.take j)
  | _ => 0

theorem decode_eq_denote [DecidableEq β] (base : Str) (tm mm : List (Bytes → Option (Term Nat))) (L : List (Attrs × List (Triple β)))
    (hL : ∀ x ∈ L, itemOk x ∧ ItemTok x) :
    decode (specEnv base tm mm) (ofSpecDoc (docOf (L.map mkItem))) =
      .ok ((denote base (docOf (L.map mkItem))).map (Triple.map (sigmaL base L))) [] := by
  rw [run_itemDoc base tm mm L hL, denote_items base L (fun x hx => (hL x hx).1)]
  rw [denoteItems_map base (sigmaL base L) L (fun x hx => (hL x hx).2) 0 0 (by intro j x _; simp [sigmaL])]

/-- is the item's subject a blank node? -/
def isBnItem (a : Attrs) : Bool := match a.itemid with | some v => v == [] | none => true

theorem itemsCnt_append (base : Str) (cnt : Nat) (l1 l2 : List (Attrs × List (Triple β))) :
    itemsCnt base cnt (l1 ++ l2) = itemsCnt base (itemsCnt base cnt l1) l2 := by
  induction l1 generalizing cnt with
  | nil => rfl
  | cons x xs ih => simp [itemsCnt, ih]

theorem itemsCnt_ge (base : Str) (cnt : Nat) (l : List (Attrs × List (Triple β))) : cnt ≤ itemsCnt base cnt l := by
  induction l generalizing cnt with
  | nil => exact Nat.le_refl _
  | cons x xs ih =>
    simp only [itemsCnt]
    refine Nat.le_trans ?_ (ih _)
    unfold subjN
    repeat' split
    all_goals simp

theorem subjN_bn (base : Str) (a : Attrs) (cnt : Nat) (h : isBnItem a = true) : (subjN base a cnt).2 = cnt + 1 := by
  unfold isBnItem at h
  unfold subjN
  cases hv : a.itemid with
  | none => rfl
  | some v => simp [hv] at h; simp [h]

/-- `sigmaL` separates the blank-node items -/
theorem sigmaL_inj (base : Str) (L : List (Attrs × List (Triple β))) (i j : Nat) (xi xj : Attrs × List (Triple β))
    (hi : L[i]? = some xi) (hj : L[j]? = some xj) (bi : isBnItem xi.1 = true) (bj : isBnItem xj.1 = true)
    (h : sigmaL base L [1, i] = sigmaL base L [1, j]) : i = j := by
  have key : ∀ (a b : Nat) (xa : Attrs × List (Triple β)), a < b → L[a]? = some xa → isBnItem xa.1 = true → b ≤ L.length →
      itemsCnt base 0 (L.take a) < itemsCnt base 0 (L.take b) := by
    intro a b xa hab ha hbn hb
    have hlt : a < L.length := by
      rcases List.getElem?_eq_some_iff.mp ha with ⟨h', _⟩; exact h'
    have hsplit : L.take b = L.take a ++ xa :: (L.drop (a + 1)).take (b - (a + 1)) := by
      have h1 : L.take b = (L.take (a + 1)) ++ (L.drop (a + 1)).take (b - (a + 1)) := by
        rw [← List.take_add]; congr 1; omega
      rw [h1, List.take_add_one, ha]; simp
    rw [hsplit, itemsCnt_append]
    simp only [itemsCnt]
    rw [subjN_bn base xa.1 _ hbn]
    exact Nat.lt_of_lt_of_le (Nat.lt_succ_self _) (itemsCnt_ge base _ _)
  have hi' : i < L.length := by rcases List.getElem?_eq_some_iff.mp hi with ⟨h', _⟩; exact h'
  have hj' : j < L.length := by rcases List.getElem?_eq_some_iff.mp hj with ⟨h', _⟩; exact h'
  simp only [sigmaL] at h
  rcases Nat.lt_trichotomy i j with hlt | heq | hgt
  · have := key i j xi hlt hi bi (Nat.le_of_lt hj'); omega
  · exact heq
  · have := key j i xj hgt hj bj (Nat.le_of_lt hi'); omega

end ItemList

end RdfModel.Mdd
