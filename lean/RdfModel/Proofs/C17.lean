/- C17 helper lemmas: umbrella import. -/
import RdfModel.Proofs.C17Builder
import RdfModel.Proofs.C17Walk
import RdfModel.Proofs.C17Perm
import RdfModel.Proofs.C17Term
import RdfModel.Proofs.C17Main
import RdfModel.Proofs.C17Dataset
import RdfModel.Proofs.C17Cycle
import RdfModel.Proofs.C17List
import RdfModel.Proofs.C17V
import RdfModel.Proofs.C17VRoots
import RdfModel.Proofs.C17VMain
import RdfModel.Proofs.C17VDataset
import RdfModel.Proofs.C17History
