/-
  Proofs.C05NQLen — every scanner that succeeds consumes input; termination of the `Next` loop;
  latch; reader errors; clean end only on blank input.  No table facts are used.
-/
import RdfModel.Model.NQuads
namespace RdfModel.Proofs.C05NQ
open RdfModel RdfModel.NQ

theorem scanIRI_len (T : Tables) (e : End) (st : SState) (inp acc : List Nat) (v r : List Nat)
    (h : scanIRI T e st inp acc = .ok v r) : r.length < inp.length := by
  fun_induction scanIRI T e st inp acc <;> simp_all <;> omega

theorem captureIRI_len (T : Tables) (urlOk : List Nat → Bool) (e : End) (inp v r : List Nat)
    (h : captureIRI T urlOk e inp = .ok v r) : r.length < inp.length := by
  unfold captureIRI at h
  split at h
  · next dec rest hs =>
    have := scanIRI_len T e _ _ _ _ _ hs
    simp only at h
    split at h <;> simp_all
  · simp at h

theorem scanLit_len (T : Tables) (e : End) (st : SState) (inp acc : List Nat) (v r : List Nat)
    (h : scanLit T e st inp acc = .ok v r) : r.length < inp.length := by
  fun_induction scanLit T e st inp acc <;> simp_all <;> omega

theorem langSecondary_len (e : End) (inp acc v r : List Nat)
    (h : langSecondary e inp acc = .ok v r) : r.length ≤ inp.length := by
  fun_induction langSecondary e inp acc <;> simp_all <;> omega

theorem langPrimary_len (e : End) (inp acc v r : List Nat)
    (h : langPrimary e inp acc = .ok v r) : r.length ≤ inp.length := by
  fun_induction langPrimary e inp acc
  all_goals (try (simp at h; done))
  · simp_all; omega
  · have := langSecondary_len _ _ _ _ _ h; simp at this ⊢; omega
  · simp_all

theorem captureLiteral_len {β : Type} (T : Tables) (urlOk : List Nat → Bool) (e : End) (inp : List Nat)
    (v : Term β) (r : List Nat) (h : captureLiteral T urlOk e inp = .ok v r) :
    r.length ≤ inp.length := by
  unfold captureLiteral at h
  split at h
  · simp at h
  · next dec rest hs =>
    have h1 := scanLit_len T e _ _ _ _ _ hs
    simp only at h
    split at h
    · split at h <;> simp_all
    · next c rest' =>
      split at h
      · split at h
        · next tag r' hl =>
          have := langPrimary_len _ _ _ _ _ hl
          simp at h h1; obtain ⟨_, rfl⟩ := h; omega
        · simp at h
      · split at h
        · split at h
          · simp at h
          · next c1 r1 =>
            split at h
            · simp at h
            · split at h
              · simp at h
              · next c2 r2 =>
                split at h
                · simp at h
                · split at h
                  · next dt r' hi =>
                    have := captureIRI_len _ _ _ _ _ _ hi
                    split at h
                    · simp at h
                    · simp at h h1; obtain ⟨_, rfl⟩ := h; omega
                  · simp at h
        · simp at h h1; obtain ⟨_, rfl⟩ := h; simp; omega

theorem bnFinish_len (T : Tables) (acc rest l r : List Nat) (h : bnFinish T acc rest = .ok l r) :
    r.length ≤ rest.length + (if acc.length ≥ 2 then 1 else 0) := by
  unfold bnFinish at h
  split at h
  · next h2 =>
    rw [if_pos h2]
    split at h
    · simp at h
    · split at h
      · split at h
        · simp at h
        · split at h <;> simp at h
          obtain ⟨_, rfl⟩ := h; simp
      · split at h <;> simp at h
        obtain ⟨_, rfl⟩ := h; omega
  · simp at h; obtain ⟨_, rfl⟩ := h; omega

theorem bnLoop_len (T : Tables) (e : End) (inp acc l r : List Nat) (h : bnLoop T e inp acc = .ok l r) :
    r.length ≤ inp.length + (if acc.length ≥ 2 then 1 else 0) := by
  fun_induction bnLoop T e inp acc
  · simp at h
  · next c rest acc hc ih =>
    have := ih h
    simp only [List.length_cons] at this ⊢
    split at this <;> split <;> omega
  · next c rest acc hc =>
    have := bnFinish_len _ _ _ _ _ h
    exact this

theorem captureBNode_len (T : Tables) (e : End) (inp l r : List Nat)
    (h : captureBNode T e inp = .ok l r) : r.length < inp.length := by
  unfold captureBNode at h
  split at h
  · simp at h
  · split at h
    · have := bnLoop_len _ _ _ _ _ _ h
      simp at this ⊢; omega
    · simp at h

theorem captureTerm_len (T : Tables) (urlOk : List Nat → Bool) (e : End) (pos : Pos) (b : Bool)
    (inp : List Nat) (v : Term (List Nat)) (r : List Nat)
    (h : captureTerm T urlOk e pos b inp = .ok v r) : r.length < inp.length := by
  fun_induction captureTerm T urlOk e pos b inp
  all_goals (try (simp at h; done))
  all_goals (try (simp_all; omega))
  · next hi => have := captureIRI_len _ _ _ _ _ _ hi; simp at h ⊢; obtain ⟨_, rfl⟩ := h; omega
  · next hb => have := captureBNode_len _ _ _ _ _ hb; simp at h ⊢; obtain ⟨_, rfl⟩ := h; omega
  · have := captureLiteral_len _ _ _ _ _ _ h; simp; omega


theorem afterObject_len (T : Tables) (e : End) (b : Bool) (inp : List Nat) (v : Option (List Nat))
    (r : List Nat) (h : afterObject T e b inp = .ok v r) :
    r.length ≤ inp.length ∧ (v = none → r.length < inp.length) := by
  fun_induction afterObject T e b inp
  all_goals (try (simp at h; done))
  all_goals (try (simp_all; done))
  all_goals (try (simp_all; omega))
  · simp only [R.ok.injEq] at h; obtain ⟨rfl, rfl⟩ := h; simp

theorem expectDot_len (T : Tables) (e : End) (b : Bool) (inp : List Nat) (r : List Nat)
    (h : expectDot T e b inp = .ok () r) : r.length < inp.length := by
  fun_induction expectDot T e b inp <;> simp_all <;> omega

theorem skipToStmt_len (T : Tables) (b : Bool) (inp r : List Nat)
    (h : skipToStmt T b inp = some r) : r.length ≤ inp.length := by
  fun_induction skipToStmt T b inp <;> simp_all <;> omega

theorem toEOL_len (T : Tables) (e : End) (b : Bool) (inp r : List Nat)
    (h : toEOL T e b inp = .start r) : r.length < inp.length := by
  fun_induction toEOL T e b inp
  all_goals (try (simp at h; done))
  all_goals (try (simp_all; done))
  all_goals (try (simp_all; omega))

/-- The shape of a successful `statement` call, stage by stage. -/
theorem statement_quad (T : Tables) (urlOk : List Nat → Bool) (e : End) (quads : Bool)
    (inp : List Nat) (q : Quad (List Nat)) (rest : List Nat)
    (h : statement T urlOk e quads inp = .quad q rest) :
    ∃ inp' s r1 p r2 o r3,
      skipToStmt T false inp = some inp' ∧
      captureTerm T urlOk e posSubject false inp' = .ok s r1 ∧
      captureTerm T urlOk e posPredicate false r1 = .ok p r2 ∧
      captureTerm T urlOk e posObject false r2 = .ok o r3 ∧
      ((quads = true ∧ afterObject T e false r3 = .ok none rest ∧ q = ⟨s, p, o, none⟩) ∨
       (quads = true ∧ ∃ x r4 g r5, afterObject T e false r3 = .ok (some x) r4 ∧
          captureTerm T urlOk e posSubject false r4 = .ok g r5 ∧
          expectDot T e false r5 = .ok () rest ∧ q = ⟨s, p, o, some g⟩) ∨
       (quads = false ∧ expectDot T e false r3 = .ok () rest ∧ q = ⟨s, p, o, none⟩)) := by
  unfold statement at h
  split at h
  · split at h <;> simp at h
  · next inp' hsk =>
    split at h
    · simp at h
    · next s r1 hs =>
      split at h
      · simp at h
      · next p r2 hp =>
        split at h
        · simp at h
        · next o r3 ho =>
          refine ⟨inp', s, r1, p, r2, o, r3, hsk, hs, hp, ho, ?_⟩
          split at h
          · next hq =>
            split at h
            · simp at h
            · next r4 ha =>
              simp only [Step.quad.injEq] at h
              obtain ⟨rfl, rfl⟩ := h
              exact Or.inl ⟨hq, ha, rfl⟩
            · next x r4 ha =>
              split at h
              · simp at h
              · next g r5 hg =>
                split at h
                · simp at h
                · next r6 hd =>
                  simp only [Step.quad.injEq] at h
                  obtain ⟨rfl, rfl⟩ := h
                  exact Or.inr (Or.inl ⟨hq, x, r4, g, r5, ha, hg, hd, rfl⟩)
          · next hq =>
            split at h
            · simp at h
            · next r4 hd =>
              simp only [Step.quad.injEq] at h
              obtain ⟨rfl, rfl⟩ := h
              exact Or.inr (Or.inr ⟨by simpa using hq, hd, rfl⟩)

theorem statement_shrinks (T : Tables) (urlOk : List Nat → Bool) (e : End) (quads : Bool)
    (inp : List Nat) (q : Quad (List Nat)) (rest : List Nat)
    (h : statement T urlOk e quads inp = .quad q rest) : rest.length < inp.length := by
  obtain ⟨inp', s, r1, p, r2, o, r3, hsk, hs, hp, ho, hrest⟩ := statement_quad _ _ _ _ _ _ _ h
  have h0 := skipToStmt_len _ _ _ _ hsk
  have h1 := captureTerm_len _ _ _ _ _ _ _ _ hs
  have h2 := captureTerm_len _ _ _ _ _ _ _ _ hp
  have h3 := captureTerm_len _ _ _ _ _ _ _ _ ho
  rcases hrest with ⟨_, ha, _⟩ | ⟨_, x, r4, g, r5, ha, hg, hd, _⟩ | ⟨_, hd, _⟩
  · have := (afterObject_len _ _ _ _ _ _ ha).1; omega
  · have := (afterObject_len _ _ _ _ _ _ ha).1
    have := captureTerm_len _ _ _ _ _ _ _ _ hg
    have := expectDot_len _ _ _ _ _ hd
    omega
  · have := expectDot_len _ _ _ _ _ hd; omega

theorem next_shrinks (T : Tables) (urlOk : List Nat → Bool) (e : End) (quads started : Bool)
    (inp rest : List Nat) (q : Quad (List Nat)) (h : next T urlOk e quads started inp = .quad q rest) :
    rest.length < inp.length := by
  unfold next at h
  split at h
  · split at h
    · simp at h
    · simp at h
    · next r ht =>
      have := toEOL_len _ _ _ _ _ ht
      have := statement_shrinks _ _ _ _ _ _ _ h
      omega
  · exact statement_shrinks _ _ _ _ _ _ _ h

theorem runFuel_fuel (T : Tables) (urlOk : List Nat → Bool) (e : End) (quads : Bool) :
    ∀ (fuel : Nat) (started : Bool) (inp : List Nat), inp.length + 1 ≤ fuel →
      (runFuel T urlOk e quads fuel started inp).2 ≠ .outOfFuel := by
  intro fuel
  induction fuel with
  | zero => intro _ _ h; omega
  | succ f ih =>
    intro started inp hf
    unfold runFuel
    split
    · simp
    · simp
    · next q rest hn =>
      have := next_shrinks _ _ _ _ _ _ _ _ hn
      exact ih true rest (by omega)

theorem run_fuel_suffices (T : Tables) (urlOk : List Nat → Bool) (e : End) (quads : Bool) (inp : List Nat) :
    (run T urlOk e quads inp).2 ≠ .outOfFuel :=
  runFuel_fuel T urlOk e quads _ false inp (Nat.le_refl _)

/-! ### clean end -/

theorem done_only_on_blank (T : Tables) (urlOk : List Nat → Bool) (e : End) (quads : Bool)
    (inp : List Nat) (h : statement T urlOk e quads inp = .done) :
    e = .eof ∧ allBlank T inp = true := by
  unfold statement at h
  split at h
  · next hsk =>
    split at h
    · exact ⟨rfl, by simp [allBlank, hsk]⟩
    · simp at h
  · exfalso
    repeat' split at h
    all_goals simp at h

theorem toEOL_done (T : Tables) (e : End) (b : Bool) (inp : List Nat)
    (h : toEOL T e b inp = .done) : e = .eof := by
  fun_induction toEOL T e b inp
  all_goals (try (simp at h; done))
  all_goals (try (simp_all; done))

theorem next_done (T : Tables) (urlOk : List Nat → Bool) (e : End) (quads started : Bool)
    (inp : List Nat) (h : next T urlOk e quads started inp = .done) : e = .eof := by
  unfold next at h
  split at h
  · split at h
    · next ht => exact toEOL_done _ _ _ _ ht
    · simp at h
    · exact (done_only_on_blank _ _ _ _ _ h).1
  · exact (done_only_on_blank _ _ _ _ _ h).1

theorem runFuel_ioerr (T : Tables) (urlOk : List Nat → Bool) (quads : Bool) :
    ∀ (fuel : Nat) (started : Bool) (inp : List Nat), inp.length + 1 ≤ fuel →
      ∃ x, (runFuel T urlOk .ioerr quads fuel started inp).2 = .error x := by
  intro fuel
  induction fuel with
  | zero => intro _ _ h; omega
  | succ f ih =>
    intro started inp hf
    unfold runFuel
    split
    · next hn => have := next_done _ _ _ _ _ _ hn; cases this
    · next x _ => exact ⟨x, rfl⟩
    · next q rest hn =>
      have := next_shrinks _ _ _ _ _ _ _ _ hn
      exact ih true rest (by omega)

theorem ioerr_reported (T : Tables) (urlOk : List Nat → Bool) (quads : Bool) (inp : List Nat) :
    ∃ x, (run T urlOk .ioerr quads inp).2 = .error x :=
  runFuel_ioerr T urlOk quads _ false inp (Nat.le_refl _)

/-! ### the decoder object -/

theorem next_true_has_current (T : Tables) (urlOk : List Nat → Bool) (e : End) (quads : Bool) (d : Dec)
    (h : (Dec.next T urlOk e quads d).2 = true) : (Dec.next T urlOk e quads d).1.cur.isSome = true := by
  unfold Dec.next at h ⊢
  split
  · next he => simp [he] at h
  · next he =>
    simp only [he] at h
    split <;> simp_all

/-- A decoder that has returned false: error latched, or at a clean end of an `.eof` stream. -/
def Latched (e : End) (d : Dec) : Prop :=
  d.err.isSome = true ∨ (e = .eof ∧ d = ⟨[], none, none⟩)

theorem latched_of_false (T : Tables) (urlOk : List Nat → Bool) (e : End) (quads : Bool) (d : Dec)
    (h : (Dec.next T urlOk e quads d).2 = false) : Latched e (Dec.next T urlOk e quads d).1 := by
  unfold Dec.next at h ⊢
  split
  · next x he => exact Or.inl (by simp [he])
  · next he =>
    simp only [he] at h
    split
    · next hn => simp [hn] at h
    · next hn => exact Or.inr ⟨next_done _ _ _ _ _ _ hn, rfl⟩
    · exact Or.inl rfl

theorem next_of_latched (T : Tables) (urlOk : List Nat → Bool) (e : End) (quads : Bool) (d : Dec)
    (h : Latched e d) : Dec.next T urlOk e quads d = (d, false) := by
  rcases h with h | ⟨rfl, rfl⟩
  · unfold Dec.next
    split
    · rfl
    · next he => simp [he] at h
  · simp [Dec.next, NQ.next, statement, skipToStmt]

theorem nextN_of_latched (T : Tables) (urlOk : List Nat → Bool) (e : End) (quads : Bool) (n : Nat)
    (d : Dec) (h : Latched e d) : Dec.nextN T urlOk e quads n d = (d, false) := by
  induction n with
  | zero => exact next_of_latched _ _ _ _ _ h
  | succ n ih => simp only [Dec.nextN, next_of_latched _ _ _ _ _ h, ih]

theorem latch (T : Tables) (urlOk : List Nat → Bool) (e : End) (quads : Bool) (d : Dec)
    (h : (Dec.next T urlOk e quads d).2 = false) (n : Nat) :
    (Dec.nextN T urlOk e quads n (Dec.next T urlOk e quads d).1).2 = false ∧
    (Dec.nextN T urlOk e quads n (Dec.next T urlOk e quads d).1).1.err = (Dec.next T urlOk e quads d).1.err := by
  rw [nextN_of_latched _ _ _ _ _ _ (latched_of_false _ _ _ _ _ h)]
  exact ⟨rfl, rfl⟩

end RdfModel.Proofs.C05NQ
