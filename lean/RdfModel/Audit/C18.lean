/-
  Audit for C18: axioms used by every theorem of Props/C18.lean
  (expected: a subset of {propext, Classical.choice, Quot.sound}).
-/
import RdfModel.Props.C18
open RdfModel

#print axioms RdfModel.C18.resolve_priority
#print axioms RdfModel.C18.resolve_encoder_priority
#print axioms RdfModel.C18.resolve_ext_order_irrelevant
#print axioms RdfModel.C18.open_decoder_stable
#print axioms RdfModel.C18.open_encoder_stable
#print axioms RdfModel.C18.registry_unambiguous
#print axioms RdfModel.C18.registry_facts
#print axioms RdfModel.C18.registry_as_expected
#print axioms RdfModel.C18.gen_ext_order_irrelevant
#print axioms RdfModel.C18.gen_open_decoder_stable
#print axioms RdfModel.C18.gen_open_encoder_stable
#print axioms RdfModel.C18.pipe_labels_injective
#print axioms RdfModel.C18.pipe_triples_writes_all_graphs
#print axioms RdfModel.C18.pipe_triples_restricts_default_graph_false
#print axioms RdfModel.C18.pipe_triples_restricts_default_graph_partial
#print axioms RdfModel.C18.pipe_nq_preserves
#print axioms RdfModel.C18.pipe_nt_preserves
#print axioms RdfModel.C18.pipe_codec_preserves_partial
#print axioms RdfModel.C18.pipe_ttl_preserves_partial
#print axioms RdfModel.C18.pipe_rdfjson_preserves_partial
#print axioms RdfModel.C18.Witness.nq_roundtrip
#print axioms RdfModel.C18.extension_decides_witness
#print axioms RdfModel.C18.extension_decides_false
#print axioms RdfModel.C18.extension_decides_partial
#print axioms RdfModel.C18.invalid_label_witness
