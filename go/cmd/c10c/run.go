package main

import (
	"encoding/json"
	"fmt"
	"strings"

	"github.com/dpb587/inspectjson-go/inspectjson"
	"github.com/dpb587/rdfkit-go/encoding/jsonld"
	"github.com/dpb587/rdfkit-go/iri"

	"verifharness/vh"
)

type step struct {
	OverrideProtected bool    `json:"overrideProtected"`
	Propagate         bool    `json:"propagate"`
	Base              *string `json:"base"`
	Text              string  `json:"context"` // JSON text of the local context
}

type query struct {
	DocRel bool   `json:"documentRelative"`
	Vocab  bool   `json:"vocab"`
	Text   string `json:"value"` // JSON text of the value
}

type hcase struct {
	Tag      string  `json:"tag"`
	Mode     string  `json:"mode"`
	OrigBase *string `json:"base"`
	Steps    []step  `json:"steps"`
	Queries  []query `json:"queries"`
}

func modeTok(mode string) string {
	switch mode {
	case "json-ld-1.0":
		return "10"
	case "json-ld-1.1":
		return "11"
	}
	return "xx"
}

func optTok(s *string) string {
	if s == nil {
		return "-"
	}
	return vh.XS(*s)
}

func codeName(code string) string { return strings.ReplaceAll(code, " ", "_") }

func parseJSON(text string) (inspectjson.Value, bool) {
	v, err := inspectjson.Parse(strings.NewReader(text))
	if err != nil || v == nil {
		return nil, false
	}
	return v, true
}

func joinList(xs []string) string {
	if len(xs) == 0 {
		return "-"
	}
	return strings.Join(xs, ",")
}

func splitList(s string) []string {
	if s == "-" {
		return nil
	}
	return strings.Split(s, ",")
}

type stepOut struct {
	res      string
	panicked bool
	ctx      *jsonld.VerifContext
}

func goStep(active *jsonld.VerifContext, v inspectjson.Value, st step) (o stepOut) {
	defer func() {
		if r := recover(); r != nil {
			o = stepOut{res: "panic", panicked: true}
		}
	}()
	res, code, err := jsonld.VerifProcessContext(active, v, jsonld.VerifContextOptions{
		BaseURL: st.Base, OverrideProtected: st.OverrideProtected, Propagate: st.Propagate, ValidateScopedContext: true,
	})
	if err != nil {
		return stepOut{res: "err:" + codeName(code)}
	}
	return stepOut{res: "ok:" + res.Token(), ctx: res}
}

func goQuery(active *jsonld.VerifContext, v inspectjson.Value, q query) (res string, panicked bool) {
	defer func() {
		if r := recover(); r != nil {
			res, panicked = "panic", true
		}
	}()
	e, code, err := jsonld.VerifExpandIRI(active, v, q.DocRel, q.Vocab)
	if err != nil {
		return "err:" + codeName(code), false
	}
	return "ok:" + e, false
}

func (c hcase) String() string {
	c2 := c
	b, _ := json.Marshal(c2)
	return string(b)
}

// run executes one history on the implementation and queues the model's replay.
func (h *harness) run(c hcase) {
	rep := h.rep
	var baseErr bool
	active, err := func() (v *jsonld.VerifContext, err error) {
		defer func() {
			if r := recover(); r != nil {
				err = fmt.Errorf("panic: %v", r)
			}
		}()
		return jsonld.VerifNewContext(c.Mode, c.OrigBase)
	}()
	if err != nil {
		rep.Count("skipped:original-base-rejected")
		return
	}
	var stepToks, goSteps []string
	nontrivial := false
	for _, st := range c.Steps {
		v, ok := parseJSON(st.Text)
		if !ok {
			rep.Count("skipped:json-rejected")
			return
		}
		stepToks = append(stepToks, vh.B01(st.OverrideProtected)+vh.B01(st.Propagate)+":"+optTok(st.Base)+":"+jsonld.VerifJSON(v))
		before := active.Token()
		o := goStep(active, v, st)
		if o.res == "err:hook:base" {
			baseErr = true
			break
		}
		if o.panicked {
			rep.Count("go:panic")
			rep.Add(vh.Case{Kind: "violation", Go: "panic", Detail: "C05: Context Processing panicked: " + c.String()})
		}
		// clone independence: the context processed against is unchanged
		if after := active.Token(); after != before {
			rep.Count("go:active-context-mutated")
			rep.Add(vh.Case{Kind: "violation", Go: after, Model: before, Detail: "processing a local context changed the active context it was applied to (Context.clone shares state): " + c.String()})
		}
		// determinism: the same step again
		if o2 := goStep(active, v, st); o2.res != o.res {
			rep.Count("go:nondeterministic")
			rep.Add(vh.Case{Kind: "violation", Go: o.res, Model: o2.res, Detail: "processing the same local context twice gave two results: " + c.String()})
		}
		goSteps = append(goSteps, o.res)
		switch {
		case o.ctx != nil:
			rep.Count("step:ok")
			if strings.Contains(o.res, "=") {
				nontrivial = true
			}
			if strings.Contains(o.res, "|") {
				rep.Count("step:ok-with-previous-context")
			}
			active = o.ctx
		case o.panicked:
		default:
			rep.Count("step:" + o.res)
			if o.res != "err:invalid_local_context" {
				nontrivial = true
			}
		}
	}
	if baseErr {
		rep.Count("skipped:step-base-rejected")
		return
	}
	var qToks, goQs []string
	var kept []query
	for _, q := range c.Queries {
		v, ok := parseJSON(q.Text)
		if !ok {
			continue
		}
		kept = append(kept, q)
		qToks = append(qToks, vh.B01(q.DocRel)+vh.B01(q.Vocab)+jsonld.VerifJSON(v))
		res, panicked := goQuery(active, v, q)
		if panicked {
			rep.Count("go:panic")
			rep.Add(vh.Case{Kind: "violation", Go: "panic", Detail: "C05: IRI Expansion panicked on " + q.Text + ": " + c.String()})
		}
		goQs = append(goQs, res)
		if len(res) > 3 {
			rep.Count("query:" + res[:4])
		}
	}
	c.Queries = kept
	line := "ctx.run " + modeTok(c.Mode) + " " + optTok(c.OrigBase) + " " + joinList(stepToks) + " " + joinList(qToks)
	h.stable(line)
	rep.Eval(line, nontrivial)
	rep.Count("mode:" + modeTok(c.Mode))
	rep.Count(fmt.Sprintf("steps:%d", len(c.Steps)))
	rep.Count("stage:" + strings.SplitN(c.Tag, " ", 2)[0])
	if *verbose {
		fmt.Println(c.Tag, line, "=>", joinList(goSteps), joinList(goQs))
	}
	if *nomodel {
		return
	}
	if len(c.Steps) > 0 && modeTok(c.Mode) != "xx" {
		if j, ok := parseJSON(c.Steps[0].Text); ok {
			h.frag(c, modeTok(c.Mode), optTok(c.OrigBase), jsonld.VerifJSON(j))
		}
	}
	h.add(line, func(model string) {
		parts := strings.Split(model, " ")
		if len(parts) != 2 {
			rep.Add(vh.Case{Kind: "disagreement", Op: line, Go: joinList(goSteps) + " " + joinList(goQs), Model: model, Detail: "driver answer malformed: " + c.String()})
			return
		}
		ms, mq := splitList(parts[0]), splitList(parts[1])
		if len(ms) != len(goSteps) || len(mq) != len(goQs) {
			rep.Add(vh.Case{Kind: "disagreement", Op: line, Go: joinList(goSteps) + " " + joinList(goQs), Model: model, Detail: "driver answer has the wrong arity: " + c.String()})
			return
		}
		for i := range ms {
			if ms[i] == "unmodelled" {
				rep.Count("model:unmodelled-step")
				if strings.HasPrefix(goSteps[i], "ok:") {
					// the implementation went on with a context the model does not have
					rep.Count("model:unmodelled-truncated")
					return
				}
				continue
			}
			if ms[i] != goSteps[i] {
				rep.Count("disagreement:step")
				rep.Add(vh.Case{Kind: "disagreement", Op: line, Go: goSteps[i], Model: ms[i], Detail: fmt.Sprintf("step %d of %s", i, c.String())})
				return
			}
		}
		for i := range mq {
			if mq[i] == "unmodelled" {
				rep.Count("model:unmodelled-query")
				continue
			}
			if mq[i] != goQs[i] {
				rep.Count("disagreement:query")
				rep.Add(vh.Case{Kind: "disagreement", Op: line, Go: goQs[i], Model: mq[i], Detail: fmt.Sprintf("query %d (%s) of %s", i, c.Queries[i].Text, c.String())})
				return
			}
		}
	})
}

// frag queues the comparison of the fragment semantics (Spec/JsonLdFragment.lean, JL.processLocal) with
// the model on the first local context of a history: whenever the fragment accepts the context, the
// model (which T3 ties to the code) must produce the corresponding term table.
func (h *harness) frag(c hcase, mode, base, wire string) {
	line := "ctx.frag " + mode + " " + base + " " + wire
	if h.fragSeen == nil {
		h.fragSeen = map[string]bool{}
	}
	if h.fragSeen[line] {
		return
	}
	h.fragSeen[line] = true
	rep := h.rep
	h.add(line, func(model string) {
		switch {
		case model == "outside":
			rep.Count("fragment:outside")
		case model == "outside:iri-syntax":
			// the fragment's absIri accepts strings the IRI parser (net/url) rejects
			rep.Count("fragment:outside-iri-syntax")
		case model == "DISAGREE:model-error:invalid_IRI_mapping" && mode == "11" && hasSingleColonTerm(c.Steps[0].Text) && h.isKnown("jsonld-single-colon-term"):
			rep.Count("fragment:known-single-colon-term")
			rep.Add(vh.Case{Kind: "known", Key: h.knownKey("jsonld-single-colon-term"), Op: line, Model: model, Detail: "term \":\" rejected in json-ld-1.1: " + c.Steps[0].Text})
		case model == "unmodelled":
			rep.Count("fragment:unmodelled")
		case strings.HasPrefix(model, "agree:"):
			rep.Count("fragment:agree")
			if model != "agree:0" {
				rep.Count("fragment:agree-with-terms")
			}
		case resolverClass(model, c.Steps[0].Text) && h.isKnown("jsonld-resolver-deviates-from-rfc3986"):
			// known finding C10-K1: @vocab / @base given as a relative reference is resolved with the net/url
			// wrapper, which deviates from RFC 3986 5.2 (the fragment semantics resolves with RFC3986Lite)
			rep.Count("fragment:known-resolver-deviation")
			rep.Add(vh.Case{Kind: "known", Key: h.knownKey("jsonld-resolver-deviates-from-rfc3986"), Op: line, Model: model, Detail: "relative @vocab/@base resolved differently from RFC 3986: " + c.Steps[0].Text + " (mode " + c.Mode + ", base " + optStr(c.OrigBase) + ")"})
		default:
			rep.Count("fragment:" + model)
			rep.Add(vh.Case{Kind: "disagreement", Op: line, Model: model, Detail: "the fragment semantics (Spec/JsonLdFragment.lean) accepts this local context but the model of the context machinery does not give the corresponding context: " + c.Steps[0].Text + " (mode " + c.Mode + ", base " + optStr(c.OrigBase) + ")"})
		}
	})
}

// hasSingleColonTerm: predicate of the known finding jsonld-single-colon-term: a context definition
// (the local context or a member of the local context array) defines the term ":".
func hasSingleColonTerm(text string) bool {
	var v any
	if json.Unmarshal([]byte(text), &v) != nil {
		return false
	}
	check := func(x any) bool {
		m, ok := x.(map[string]any)
		if !ok {
			return false
		}
		_, has := m[":"]
		return has
	}
	if check(v) {
		return true
	}
	if xs, ok := v.([]any); ok {
		for _, x := range xs {
			if check(x) {
				return true
			}
		}
	}
	return false
}

func (h *harness) isKnown(predicate string) bool {
	_, ok := h.known[predicate]
	return ok
}

func (h *harness) knownKey(predicate string) string { return h.known[predicate].Key }

// resolverClass: predicate of the known finding jsonld-resolver-deviates-from-rfc3986 for the fragment
// comparison: the contexts differ in the vocabulary mapping or the base (and at most in terms derived
// from them), and a context definition gives @vocab or @base as a relative reference, or as an IRI
// the net/url wrapper does not print back as it was written.
func resolverClass(model, text string) bool {
	if !strings.HasPrefix(model, "DISAGREE:") {
		return false
	}
	hasVB := false
	for _, d := range strings.Split(strings.TrimPrefix(model, "DISAGREE:"), "+") {
		switch d {
		case "vocab", "base":
			hasVB = true
		case "term":
		default:
			return false
		}
	}
	if !hasVB {
		return false
	}
	var v any
	if json.Unmarshal([]byte(text), &v) != nil {
		return false
	}
	relative := func(x any) bool {
		m, ok := x.(map[string]any)
		if !ok {
			return false
		}
		for _, k := range []string{"@vocab", "@base"} {
			if s, ok := m[k].(string); ok {
				i := strings.IndexByte(s, ':')
				scheme := i > 0
				for j := 0; scheme && j < i; j++ {
					c := s[j]
					if !(c >= 'a' && c <= 'z' || c >= 'A' && c <= 'Z' || j > 0 && (c >= '0' && c <= '9' || c == '+' || c == '-' || c == '.')) {
						scheme = false
					}
				}
				if !scheme {
					return true
				}
				// an absolute IRI the wrapper prints differently (scheme case, escapes, ...)
				if p, err := iri.ParseIRI(s); err == nil && p.String() != s {
					return true
				}
			}
		}
		return false
	}
	if relative(v) {
		return true
	}
	if xs, ok := v.([]any); ok {
		for _, x := range xs {
			if relative(x) {
				return true
			}
		}
	}
	return false
}

func optStr(s *string) string {
	if s == nil {
		return "none"
	}
	return *s
}
