/-
  Part C12W — `ResolveReference (ParseIRI b) (ParseIRI r)` is `ParseIRI` of the RFC 3986 target, inside `ResolveLang`.
-/
import RdfModel.Proofs.C12WrapTarget
namespace RdfModel.C12W
open RdfModel.GoUrlFull RdfModel.PIRI
open RdfModel.Spec.RFC3986 (Parts recompose resolveParts)

def rawOf' (p : Str) : Str := if escape .path p = p then [] else p

/-- `uPath` / `refuPath` of `ResolveReference` give the path text back -/
theorem pathOf_spec (u : URL) (h : u.rawPath = rawOf' u.path ∨ (u.rawPath = [] ∧ u.path = [0x2a])) : pathOf u = u.path := by
  unfold pathOf URL.escapedPath
  rcases h with h | ⟨h1, h2⟩
  · unfold rawOf' at h
    by_cases he : escape .path u.path = u.path
    · rw [if_pos he] at h
      simp only [h, List.isEmpty_nil, Bool.not_true, Bool.false_eq_true, if_false, Bool.false_and]
      split
      · rename_i h2; exact h2.symm
      · exact he
    · rw [if_neg he] at h
      have hne : u.path ≠ [] := by intro e; rw [e] at he; exact he (by simp [escape])
      simp [h, isEmpty_false_of_ne hne]
  · simp [h1, h2]

def fragFields (P : Parts) : Str × Str :=
  match fragNonEmpty P with
  | some f => (unescD .fragment f, rawOf .fragment f)
  | none => ([], [])

theorem urlNoFrag_frag (P : Parts) : (urlNoFrag P).fragment = [] ∧ (urlNoFrag P).rawFragment = [] := by
  unfold urlNoFrag
  split
  · exact ⟨rfl, rfl⟩
  · dsimp only
    split
    · exact ⟨rfl, rfl⟩
    · split <;> exact ⟨rfl, rfl⟩

theorem urlOf_eq (P : Parts) :
    urlOf P = { urlNoFrag P with fragment := (fragFields P).1, rawFragment := (fragFields P).2 } := by
  unfold urlOf fragFields
  cases fragNonEmpty P with
  | some f => rfl
  | none =>
    obtain ⟨h1, h2⟩ := urlNoFrag_frag P
    cases hu : urlNoFrag P
    rw [hu] at h1 h2
    simp only at h1 h2
    simp [h1, h2]

theorem unescD_noPct (mode : Mode) (hm : mode ≠ .host) (s : Str) (h : 0x25 ∉ s) : unescD mode s = s := by
  simp [unescD, unescape_noPct mode hm s h]

/-- the parsed relative reference, uniformly for `*` and every other path -/
theorem urlNoFrag_rel {R : Parts} (hs : R.scheme = none) (ha : R.authority = none) (hp : 0x25 ∉ R.path) :
    ∃ rp, urlNoFrag R = { path := R.path, rawPath := rp, forceQuery := (R.query == some []), rawQuery := R.query.getD [] } ∧
      (rp = rawOf' R.path ∨ (rp = [] ∧ R.path = [0x2a])) := by
  by_cases hst : preOf R = [0x2a]
  · have hpre : preOf R = R.path ++ RdfModel.Spec.RFC3986.queryPart R.query := by
      simp [preOf, hs, ha, RdfModel.Spec.RFC3986.schemePart, RdfModel.Spec.RFC3986.authorityPart]
    rw [hpre] at hst
    have hq : R.query = none := by
      cases hq : R.query with
      | none => rfl
      | some q =>
        rw [hq] at hst
        have hm : (0x3f : Nat) ∈ R.path ++ RdfModel.Spec.RFC3986.queryPart (some q) := by
          simp [RdfModel.Spec.RFC3986.queryPart, RdfModel.Spec.RFC3986.cQuest]
        rw [hst] at hm
        simp at hm
    rw [hq] at hst
    simp only [RdfModel.Spec.RFC3986.queryPart, List.append_nil] at hst
    refine ⟨[], ?_, Or.inr ⟨rfl, hst⟩⟩
    have : preOf R = [0x2a] := by rw [hpre, hq]; simpa [RdfModel.Spec.RFC3986.queryPart] using hst
    unfold urlNoFrag
    simp [this, hq, hst]
  · refine ⟨rawOf' R.path, ?_, Or.inl rfl⟩
    rw [urlNoFrag_path hst ha (Or.inl hs)]
    simp [hs, unescD_noPct .path (by decide) _ hp, rawOf, rawOf']

theorem resolve_core (ub ur : URL) (fb fr o : Bool)
    (h1 : ur.scheme = []) (h2 : ur.host = []) (h3 : ur.user = none) (h4 : ur.opaq = []) (h5 : ub.opaq = [])
    (h6 : pathOf ub ≠ []) :
    ParsedIRI.resolveReference ⟨ub, fb, false⟩ ⟨ur, fr, o⟩ =
      .ok ⟨setPathIgnore { inheritQF ub { ur with scheme := ub.scheme } ur with host := ub.host, user := ub.user }
            (RdfModel.IRI.resolvePath (pathOf ub) (pathOf ur)), fb || fr, false⟩ := by
  unfold ParsedIRI.resolveReference
  simp only [h1, h2, h3, h4, h5, List.isEmpty_nil, Bool.not_true, Option.isSome_none, Bool.or_self, Bool.false_eq_true,
    if_false, if_true, Bool.and_false, Bool.or_false]
  unfold resolveRel
  simp only [isEmpty_false_of_ne h6, Bool.false_eq_true, if_false]

theorem setPathIgnore_noPct (u : URL) (p : Str) (h : 0x25 ∉ p) :
    setPathIgnore u p = { u with path := p, rawPath := rawOf' p } := by
  unfold setPathIgnore setPath
  rw [unescape_noPct .path (by decide) p h]
  rfl

theorem fragFields_empty {R : Parts} (hf : (match R.fragment with | some f => fragOk f | none => true) = true)
    (h : (fragFields R).1 = []) : (fragFields R).2 = [] := by
  unfold fragFields at h ⊢
  cases hfn : fragNonEmpty R with
  | none => rfl
  | some f =>
    exfalso
    rw [hfn] at h
    simp only at h
    unfold fragNonEmpty at hfn
    cases hF : R.fragment with
    | none => rw [hF] at hfn; cases hfn
    | some g =>
      rw [hF] at hfn hf
      simp only at hfn hf
      split at hfn
      · cases hfn
      · rename_i hne
        simp only [Option.some.injEq] at hfn
        subst hfn
        obtain ⟨⟨r, hr⟩, _⟩ := frag_facts hf
        have : unescD .fragment g = r := by simp [unescD, hr]
        rw [this] at h
        exact unescape_ne_nil hr (by intro e; rw [e] at hne; simp at hne) h

theorem resolve_pOf {B R : Parts} (h : RLFacts B R) :
    (pOf B).resolveReference (pOf R) = .ok (pOf (tgt B R)) := by
  have fb := langFacts h.inB
  have fr := langFacts h.inR
  obtain ⟨sch, hsch⟩ := Option.isSome_iff_exists.mp h.bs
  obtain ⟨a, ha⟩ := Option.isSome_iff_exists.mp h.ba
  have hschOk : schemeOk sch = true := by have := fb.sch; rw [hsch] at this; exact this
  have haOk : authorityOk a = true := by have := fb.auth; rw [ha] at this; exact this
  have hane : a.isEmpty = false := isEmpty_false_of_ne (authority_facts haOk).1
  have hneB : preOf B ≠ [0x2a] := preOf_ne_star_scheme hsch (schemeOk_ne_nil hschOk)
  have hbne : B.path ≠ [] := by intro e; have := h.bh; rw [e] at this; simp at this
  -- the parsed base
  have hUB : urlNoFrag B = { scheme := sch, host := a, path := B.path, rawPath := rawOf' B.path, forceQuery := (B.query == some []), rawQuery := B.query.getD [] } := by
    rw [urlNoFrag_auth hneB ha, hsch]
    simp [unescD_noPct .path (by decide) _ h.bp, rawOf, rawOf']
  have hfB : fragFields B = ([], []) := by simp [fragFields, fragNonEmpty, h.bf]
  have hpB : pOf B = ⟨{ scheme := sch, host := a, path := B.path, rawPath := rawOf' B.path, forceQuery := (B.query == some []), rawQuery := B.query.getD [] }, false, false⟩ := by
    unfold pOf
    rw [urlOf_eq, hUB, hfB]
    simp [h.bf, reclassGuard, hane]
  -- the parsed reference
  obtain ⟨rp, hUR, hrp⟩ := urlNoFrag_rel h.rs h.ra h.rp
  have hpR : pOf R = ⟨{ path := R.path, rawPath := rp, forceQuery := (R.query == some []), rawQuery := R.query.getD [], fragment := (fragFields R).1, rawFragment := (fragFields R).2 }, R.fragment == some [], false⟩ := by
    unfold pOf
    rw [urlOf_eq, hUR]
    simp [reclassGuard]
  -- the parsed target
  obtain ⟨_, hpctT0, _, _⟩ := tgt_path_facts h
  have hpctT : 0x25 ∉ RdfModel.IRI.resolvePath B.path R.path := hpctT0
  have hneT : preOf (tgt B R) ≠ [0x2a] := preOf_ne_star_scheme (P := tgt B R) hsch (schemeOk_ne_nil hschOk)
  have hUT : urlNoFrag (tgt B R) = { scheme := sch, host := a, path := RdfModel.IRI.resolvePath B.path R.path, rawPath := rawOf' (RdfModel.IRI.resolvePath B.path R.path), forceQuery := (tquery B R == some []), rawQuery := (tquery B R).getD [] } := by
    rw [urlNoFrag_auth hneT (a := a) ha]
    have e1 : (tgt B R).scheme = some sch := hsch
    have e2 : (tgt B R).path = RdfModel.IRI.resolvePath B.path R.path := rfl
    have e3 : (tgt B R).query = tquery B R := rfl
    rw [e1, e2, e3]
    simp [unescD_noPct .path (by decide) _ hpctT, rawOf, rawOf']
  have hfT : fragFields (tgt B R) = fragFields R := rfl
  have hpT : pOf (tgt B R) = ⟨{ scheme := sch, host := a, path := RdfModel.IRI.resolvePath B.path R.path, rawPath := rawOf' (RdfModel.IRI.resolvePath B.path R.path), forceQuery := (tquery B R == some []), rawQuery := (tquery B R).getD [], fragment := (fragFields R).1, rawFragment := (fragFields R).2 }, R.fragment == some [], false⟩ := by
    unfold pOf
    rw [urlOf_eq, hUT, hfT]
    have e : (tgt B R).fragment = R.fragment := rfl
    simp [e, reclassGuard, hane]
  rw [hpB, hpR, hpT]
  have hpathB : pathOf ({ scheme := sch, host := a, path := B.path, rawPath := rawOf' B.path, forceQuery := (B.query == some []), rawQuery := B.query.getD [] } : URL) = B.path :=
    pathOf_spec _ (Or.inl rfl)
  have hpathR : pathOf ({ path := R.path, rawPath := rp, forceQuery := (R.query == some []), rawQuery := R.query.getD [], fragment := (fragFields R).1, rawFragment := (fragFields R).2 } : URL) = R.path :=
    pathOf_spec _ hrp
  rw [resolve_core _ _ _ _ _ rfl rfl rfl rfl rfl (by rw [hpathB]; exact hbne), hpathB, hpathR,
    setPathIgnore_noPct _ _ hpctT]
  simp only [Bool.false_or]
  congr 2
  -- the url.URL of the result, field by field
  unfold inheritQF tquery
  by_cases hpr : R.path = []
  · cases hq : R.query with
    | none =>
      by_cases hfe : (fragFields R).1 = []
      · have hfe2 := fragFields_empty fr.frag hfe
        simp [hpr, hq, hfe, hfe2]
      · simp [hpr, hq, hfe, isEmpty_false_of_ne hfe]
    | some q =>
      cases q <;> simp [hpr]
  · simp [hpr, isEmpty_false_of_ne hpr]

end RdfModel.C12W
