/-
  RdfModel.Model.NQuads — executable model of encoding/nquads and encoding/ntriples
  (write_iri.go, write_literal.go, encoder.go, decoder.go, decoder_capture_open.go,
  decoder_capture_value.go, decoder_scan_uchar.go).  One model; `quads := false` is N-Triples.

  Rune-level classifiers come from `NQTables`, regenerated from the Go functions (T1); the inline
  `switch` cases of the decoder are written out here and tied by correspondence (T3).
-/
import RdfModel.Model.Term
namespace RdfModel.NQ
open RdfModel

/-- Tables regenerated from Go (see Gen/NQTables.lean). -/
structure Tables where
  /-- `iriMustEscapeRune(r, ascii)`: 0 none, 1 UCHAR4, 2 UCHAR8 -/
  iriEsc : Bool → RangeTable
  /-- `literalStringMustEscapeRune(r, ascii)`: 0 none, 1 ECHAR, 2 UCHAR4, 3 UCHAR8 -/
  litEsc : Bool → RangeTable
  /-- second rune written by `WriteLiteral` for an ECHAR rune (0 = slot left untouched) -/
  echar : RangeTable
  /-- `internal.HexDecode`: 0 = not ok, v+1 = value v -/
  hexDec : RangeTable
  pnCharsU : RangeSet
  pnChars : RangeSet
  /-- `unicode.IsSpace` -/
  space : RangeSet

/-! ## Encoder -/

def escIRIRune (T : Tables) (ascii : Bool) (r : Nat) : List Nat :=
  match lookup (T.iriEsc ascii) 0 r with
  | 1 => 0x5c :: 0x75 :: hex4 r
  | 2 => 0x5c :: 0x55 :: hex8 r
  | _ => [r]

def iriBody (T : Tables) (ascii : Bool) (s : List Nat) : List Nat := s.flatMap (escIRIRune T ascii)

/-- `WriteIRI`. -/
def writeIRI (T : Tables) (ascii : Bool) (s : List Nat) : List Nat :=
  0x3c :: (iriBody T ascii s ++ [0x3e])

def escLitRune (T : Tables) (ascii : Bool) (r : Nat) : List Nat :=
  match lookup (T.litEsc ascii) 0 r with
  | 1 => [0x5c, lookup T.echar 0 r]
  | 2 => 0x5c :: 0x75 :: hex4 r
  | 3 => 0x5c :: 0x55 :: hex8 r
  | _ => [r]

def litBody (T : Tables) (ascii : Bool) (s : List Nat) : List Nat := s.flatMap (escLitRune T ascii)

/-- `WriteLiteral`. `lang = none` with datatype `rdf:langString` writes no suffix (as Go does when
    the tag is not a `LanguageLiteralTag`). -/
def writeLiteral (T : Tables) (ascii : Bool) (lex dt : List Nat) (lang : Option (List Nat)) : List Nat :=
  let q := 0x22 :: (litBody T ascii lex ++ [0x22])
  if dt = xsdString then q
  else if dt = rdfLangString then
    match lang with
    | some l => q ++ 0x40 :: l
    | none => q
  else q ++ 0x5e :: 0x5e :: writeIRI T ascii dt

/-- Subject / graph-name position: IRI or blank node only. -/
def writeNode {β} (T : Tables) (ascii : Bool) (label : β → List Nat) : Term β → Option (List Nat)
  | .iri v => some (writeIRI T ascii v)
  | .bnode b => some (0x5f :: 0x3a :: label b)
  | .lit .. => none

def writeObject {β} (T : Tables) (ascii : Bool) (label : β → List Nat) : Term β → Option (List Nat)
  | .lit l d t => some (writeLiteral T ascii l d t)
  | t => writeNode T ascii label t

def writePredicate {β} (T : Tables) (ascii : Bool) : Term β → Option (List Nat)
  | .iri v => some (writeIRI T ascii v)
  | _ => none

/-- `Encoder.AddQuad`; `none` = the Go method returns an "invalid type" error and writes nothing.
    With `quads = false` this is the N-Triples `AddTriple` (graph slot ignored: triples have none). -/
def encodeQuad {β} (T : Tables) (ascii : Bool) (label : β → List Nat) (quads : Bool) (q : Quad β) :
    Option (List Nat) := do
  let s ← writeNode T ascii label q.s
  let p ← writePredicate T ascii q.p
  let o ← writeObject T ascii label q.o
  let g ← (match quads, q.g with
    | true, some g => (writeNode T ascii label g).map (fun x => 0x20 :: x)
    | _, _ => some [])
  pure (s ++ 0x20 :: p ++ 0x20 :: o ++ g ++ [0x20, 0x2e, 0x0a])

/-- A whole document: quads for which `AddQuad` errs contribute nothing. -/
def encodeDoc {β} (T : Tables) (ascii : Bool) (label : β → List Nat) (quads : Bool) (qs : List (Quad β)) :
    List Nat :=
  qs.flatMap (fun q => (encodeQuad T ascii label quads q).getD [])

/-! ### Encoder options (`EncoderConfig.apply` folded over the option list of `NewEncoder`) -/

/-- One `EncoderOption`: which fields it sets (`SetASCII`, `SetBlankNodeStringProvider`). -/
structure EncOpt where
  ascii : Option Bool
  prov : Option Nat
  deriving Repr, DecidableEq

/-- `apply`: a field is overwritten only when the option sets it. -/
def EncOpt.apply (o d : EncOpt) : EncOpt :=
  { ascii := match o.ascii with | some a => some a | none => d.ascii
    prov := match o.prov with | some p => some p | none => d.prov }

/-- `NewEncoder(w, opts...)`: compiled options. -/
def compileOpts (opts : List EncOpt) : EncOpt := opts.foldl (fun d o => o.apply d) ⟨none, none⟩

/-- `newEncoder`: effective ASCII flag (default off) and labeller (`none` = the default `b%d` provider). -/
def effectiveAscii (opts : List EncOpt) : Bool := (compileOpts opts).ascii.getD false
def effectiveProv (opts : List EncOpt) : Option Nat := (compileOpts opts).prov

/-! ## Decoder -/

/-- How the rune stream ends: clean EOF or a reader error. -/
inductive End where | eof | ioerr
  deriving Repr, DecidableEq, Inhabited

/-- Error classes (message text is never compared). -/
inductive EClass where
  | eof      -- wraps io.EOF
  | io       -- wraps the reader's error
  | syntax   -- unexpected rune / exceeds max code point
  | url      -- url.Parse failed or IRI is not absolute
  deriving Repr, DecidableEq, Inhabited

def End.cls : End → EClass
  | .eof => .eof
  | .ioerr => .io

inductive R (α : Type) where
  | ok (v : α) (rest : List Nat)
  | err (e : EClass)
  deriving Repr

/-- Scanner state inside `<…>` and `"…"`: body, after a backslash, inside `\u`/`\U` digits.
    `maxs` are the per-digit maxima still to read (`decodeUCHAR8` bounds the first three). -/
inductive SState where
  | body
  | esc
  | hex (maxs : List Nat) (acc : Nat)
  deriving Repr

def uchar4Maxs : List Nat := [15, 15, 15, 15]
def uchar8Maxs : List Nat := [0, 0, 1, 15, 15, 15, 15, 15]

/-- `captureOpenIRI` after the opening `<` (scanning part). Returns the decoded runes. -/
def scanIRI (T : Tables) (e : End) : SState → List Nat → List Nat → R (List Nat)
  | _, [], _ => .err e.cls
  | .body, c :: rest, acc =>
    if c = 0x3e then .ok acc.reverse rest
    else if c = 0x5c then scanIRI T e .esc rest acc
    else if c ≤ 0x20 ∨ c = 0x3c ∨ c = 0x22 ∨ c = 0x7b ∨ c = 0x7d ∨ c = 0x7c ∨ c = 0x5e ∨ c = 0x60 then
      .err .syntax
    else scanIRI T e .body rest (c :: acc)
  | .esc, c :: rest, acc =>
    if c = 0x75 then scanIRI T e (.hex uchar4Maxs 0) rest acc
    else if c = 0x55 then scanIRI T e (.hex uchar8Maxs 0) rest acc
    else .err .syntax
  | .hex [] _, _ :: _, _ => .err .syntax  -- unreachable: `hex` is always entered with digits to read
  | .hex (m :: ms) v, c :: rest, acc =>
    match lookup T.hexDec 0 c with
    | 0 => .err .syntax
    | d + 1 =>
      if d > m then .err .syntax
      else match ms with
        | [] => scanIRI T e .body rest ((v * 16 + d) :: acc)
        | _ :: _ => scanIRI T e (.hex ms (v * 16 + d)) rest acc

/-- `captureOpenIRI`: scan, then `string(decoded)`, then the `url.Parse` / `IsAbs` check (parameter). -/
def captureIRI (T : Tables) (urlOk : List Nat → Bool) (e : End) (inp : List Nat) : R (List Nat) :=
  match scanIRI T e .body inp [] with
  | .ok dec rest => let s := goString dec; if urlOk s then .ok s rest else .err .url
  | .err c => .err c

/-- ECHAR decoding in `captureOpenLiteral`. -/
def echarDecode (c : Nat) : Option Nat :=
  if c = 0x74 then some 0x09 else if c = 0x62 then some 0x08 else if c = 0x6e then some 0x0a
  else if c = 0x72 then some 0x0d else if c = 0x66 then some 0x0c else if c = 0x22 then some 0x22
  else if c = 0x27 then some 0x27 else if c = 0x5c then some 0x5c else none

/-- `captureOpenLiteral` after the opening `"` up to and including the closing `"`. -/
def scanLit (T : Tables) (e : End) : SState → List Nat → List Nat → R (List Nat)
  | _, [], _ => .err e.cls
  | .body, c :: rest, acc =>
    if c = 0x22 then .ok acc.reverse rest
    else if c = 0x5c then scanLit T e .esc rest acc
    else scanLit T e .body rest (c :: acc)
  | .esc, c :: rest, acc =>
    if c = 0x75 then scanLit T e (.hex uchar4Maxs 0) rest acc
    else if c = 0x55 then scanLit T e (.hex uchar8Maxs 0) rest acc
    else match echarDecode c with
      | some d => scanLit T e .body rest (d :: acc)
      | none => .err .syntax
  | .hex [] _, _ :: _, _ => .err .syntax
  | .hex (m :: ms) v, c :: rest, acc =>
    match lookup T.hexDec 0 c with
    | 0 => .err .syntax
    | d + 1 =>
      if d > m then .err .syntax
      else match ms with
        | [] => scanLit T e .body rest ((v * 16 + d) :: acc)
        | _ :: _ => scanLit T e (.hex ms (v * 16 + d)) rest acc

def isAlpha (c : Nat) : Bool := (0x61 ≤ c && c ≤ 0x7a) || (0x41 ≤ c && c ≤ 0x5a)
def isDigit (c : Nat) : Bool := 0x30 ≤ c && c ≤ 0x39

/-- `scanOpenLangtag`, SECONDARY loop and END. `acc` is the reversed tag read so far. -/
def langSecondary (e : End) : List Nat → List Nat → R (List Nat)
  | [], _ => .err e.cls
  | c :: rest, acc =>
    if isAlpha c || isDigit c then langSecondary e rest (c :: acc)
    else if c = 0x2d then
      (if acc.head? = some 0x2d then .err .syntax else langSecondary e rest (c :: acc))
    else if acc.head? = some 0x2d then .err .syntax else .ok acc.reverse (c :: rest)

/-- `scanOpenLangtag`, first loop (after `@`). -/
def langPrimary (e : End) : List Nat → List Nat → R (List Nat)
  | [], _ => .err e.cls
  | c :: rest, acc =>
    if isAlpha c then langPrimary e rest (c :: acc)
    else if c = 0x2d then
      (if acc.isEmpty then .err .syntax else langSecondary e rest (c :: acc))
    else if acc.isEmpty then .err .syntax
    else .ok acc.reverse (c :: rest)

/-- `captureOpenLiteral` after the opening quote. -/
def captureLiteral {β} (T : Tables) (urlOk : List Nat → Bool) (e : End) (inp : List Nat) : R (Term β) :=
  match scanLit T e .body inp [] with
  | .err c => .err c
  | .ok dec rest =>
    let lex := goString dec
    match rest with
    | [] => (match e with
        | .eof => .ok (.lit lex xsdString none) []
        | .ioerr => .err .io)
    | c :: rest' =>
      if c = 0x40 then
        match langPrimary e rest' [] with
        | .ok tag r => .ok (.lit lex rdfLangString (some tag)) r
        | .err x => .err x
      else if c = 0x5e then
        match rest' with
        | [] => .err e.cls
        | c1 :: r1 =>
          if c1 ≠ 0x5e then .err .syntax
          else match r1 with
            | [] => .err e.cls
            | c2 :: r2 =>
              if c2 ≠ 0x3c then .err .syntax
              else match captureIRI T urlOk e r2 with
                | .ok dt r =>
                  -- an explicit rdf:langString / rdf:dirLangString datatype would give a tagged string without a tag
                  if dt = rdfLangString ∨ dt = rdfDirLangString then .err .syntax else .ok (.lit lex dt none) r
                | .err x => .err x
      else .ok (.lit lex xsdString none) (c :: rest')

/-- Final part of `captureOpenBlankNode` (label DONE): `accRev` is the reversed label. -/
def bnFinish (T : Tables) (accRev rest : List Nat) : R (List Nat) :=
  if accRev.length ≥ 2 then
    match accRev with
    | [] => .err .syntax
    | l :: more =>
      if l = 0x2e then
        (match more with
          | [] => .err .syntax
          | l' :: _ => if inRanges T.pnChars l' then .ok more.reverse (0x2e :: rest) else .err .syntax)
      else if inRanges T.pnChars l then .ok accRev.reverse rest else .err .syntax
  else .ok accRev.reverse rest

def bnLoop (T : Tables) (e : End) : List Nat → List Nat → R (List Nat)
  | [], _ => .err e.cls
  | c :: rest, acc =>
    if inRanges T.pnChars c || c = 0x2e then bnLoop T e rest (c :: acc)
    else bnFinish T acc (c :: rest)

/-- `captureOpenBlankNode` after `_:`. -/
def captureBNode (T : Tables) (e : End) : List Nat → R (List Nat)
  | [] => .err e.cls
  | c :: rest =>
    if inRanges T.pnCharsU c || isDigit c then bnLoop T e rest [c] else .err .syntax

def isSpace (T : Tables) (c : Nat) : Bool := inRanges T.space c

/-- Which openers a position accepts. -/
structure Pos where
  bnode : Bool
  literal : Bool

def posSubject : Pos := ⟨true, false⟩
def posPredicate : Pos := ⟨false, false⟩
def posObject : Pos := ⟨true, true⟩

/-- `captureSubjectOrGraphValue` / `capturePredicate` / `captureObject`: skip white space and
    comments, then dispatch on the opener. `inComment` models `drainLine` (a comment ends at LF or CR). -/
def captureTerm (T : Tables) (urlOk : List Nat → Bool) (e : End) (pos : Pos) :
    Bool → List Nat → R (Term (List Nat))
  | _, [] => .err e.cls
  | true, c :: rest => if c = 0x0a ∨ c = 0x0d then captureTerm T urlOk e pos false rest
                       else captureTerm T urlOk e pos true rest
  | false, c :: rest =>
    if c = 0x3c then
      match captureIRI T urlOk e rest with
      | .ok v r => .ok (.iri v) r
      | .err x => .err x
    else if c = 0x5f && pos.bnode then
      match rest with
      | [] => .err e.cls
      | c1 :: r1 =>
        if c1 ≠ 0x3a then .err .syntax
        else match captureBNode T e r1 with
          | .ok l r => .ok (.bnode l) r
          | .err x => .err x
    else if c = 0x22 && pos.literal then captureLiteral T urlOk e rest
    else if c = 0x23 then captureTerm T urlOk e pos true rest
    else if isSpace T c then captureTerm T urlOk e pos false rest
    else .err .syntax

/-- After the object (N-Quads): white space/comments, then `.` or the start of a graph label.
    `some rest` in `.ok` = graph label follows at `rest` (nothing consumed of it); `none` = dot seen. -/
def afterObject (T : Tables) (e : End) : Bool → List Nat → R (Option (List Nat))
  | _, [] => .err e.cls
  | true, c :: rest => if c = 0x0a ∨ c = 0x0d then afterObject T e false rest else afterObject T e true rest
  | false, c :: rest =>
    if c = 0x2e then .ok none rest
    else if c = 0x23 then afterObject T e true rest
    else if isSpace T c then afterObject T e false rest
    else .ok (some (c :: rest)) (c :: rest)

/-- White space/comments then a mandatory `.` (after the graph label; in N-Triples after the object). -/
def expectDot (T : Tables) (e : End) : Bool → List Nat → R Unit
  | _, [] => .err e.cls
  | true, c :: rest => if c = 0x0a ∨ c = 0x0d then expectDot T e false rest else expectDot T e true rest
  | false, c :: rest =>
    if c = 0x2e then .ok () rest
    else if c = 0x23 then expectDot T e true rest
    else if isSpace T c then expectDot T e false rest
    else .err .syntax

/-- Outcome of one `Next()` call. -/
inductive Step where
  | quad (q : Quad (List Nat)) (rest : List Nat)
  | done                      -- Next() = false, Err() = nil
  | fail (e : EClass)         -- Next() = false, Err() ≠ nil
  deriving Repr

/-- First part of a non-first `Next()`: skip to the end of the line of the previous statement. -/
inductive EolRes where
  | start (rest : List Nat)
  | done
  | fail (e : EClass)

def toEOL (T : Tables) (e : End) : Bool → List Nat → EolRes
  | _, [] => (match e with | .eof => .done | .ioerr => .fail .io)
  | true, c :: rest => if c = 0x0a ∨ c = 0x0d then .start rest else toEOL T e true rest
  | false, c :: rest =>
    if c = 0x23 then toEOL T e true rest
    else if c = 0x0d ∨ c = 0x0a then .start rest
    else if isSpace T c then toEOL T e false rest
    else .fail .syntax

/-- `skipToStatement`: white space and comments before a statement; `none` = the input ended there
    (the only place where an end of input is a clean end of the document). -/
def skipToStmt (T : Tables) : Bool → List Nat → Option (List Nat)
  | _, [] => none
  | true, c :: rest => if c = 0x0a ∨ c = 0x0d then skipToStmt T false rest else skipToStmt T true rest
  | false, c :: rest =>
    if c = 0x23 then skipToStmt T true rest
    else if isSpace T c then skipToStmt T false rest
    else some (c :: rest)

/-- The statement part of `Next()` (label QUAD_START onwards). -/
def statement (T : Tables) (urlOk : List Nat → Bool) (e : End) (quads : Bool) (inp : List Nat) : Step :=
  match skipToStmt T false inp with
  | none => (match e with | .eof => .done | .ioerr => .fail .io)
  | some inp' =>
  match captureTerm T urlOk e posSubject false inp' with
  | .err x => .fail x
  | .ok s r1 =>
    match captureTerm T urlOk e posPredicate false r1 with
    | .err x => .fail x
    | .ok p r2 =>
      match captureTerm T urlOk e posObject false r2 with
      | .err x => .fail x
      | .ok o r3 =>
        if quads then
          match afterObject T e false r3 with
          | .err x => .fail x
          | .ok none r4 => .quad ⟨s, p, o, none⟩ r4
          | .ok (some _) r4 =>
            match captureTerm T urlOk e posSubject false r4 with
            | .err x => .fail x
            | .ok g r5 =>
              match expectDot T e false r5 with
              | .err x => .fail x
              | .ok () r6 => .quad ⟨s, p, o, some g⟩ r6
        else
          match expectDot T e false r3 with
          | .err x => .fail x
          | .ok () r4 => .quad ⟨s, p, o, none⟩ r4

/-- One `Next()` call; `started` = a statement has been returned before. -/
def next (T : Tables) (urlOk : List Nat → Bool) (e : End) (quads : Bool) (started : Bool)
    (inp : List Nat) : Step :=
  if started then
    match toEOL T e false inp with
    | .done => .done
    | .fail x => .fail x
    | .start rest => statement T urlOk e quads rest
  else statement T urlOk e quads inp

/-- Final verdict of a decoding run. -/
inductive Verdict where
  | clean
  | error (e : EClass)
  | outOfFuel   -- never produced (theorem `run_fuel_suffices`)
  deriving Repr, DecidableEq

/-- Repeated `Next()` until it returns false. -/
def runFuel (T : Tables) (urlOk : List Nat → Bool) (e : End) (quads : Bool) :
    Nat → Bool → List Nat → List (Quad (List Nat)) × Verdict
  | 0, _, _ => ([], .outOfFuel)
  | fuel + 1, started, inp =>
    match next T urlOk e quads started inp with
    | .done => ([], .clean)
    | .fail x => ([], .error x)
    | .quad q rest =>
      let (qs, v) := runFuel T urlOk e quads fuel true rest
      (q :: qs, v)

def run (T : Tables) (urlOk : List Nat → Bool) (e : End) (quads : Bool) (inp : List Nat) :
    List (Quad (List Nat)) × Verdict :=
  runFuel T urlOk e quads (inp.length + 1) false inp

/-! ## The decoder object (`Next` / `Err` / `Quad` as the API exposes them) -/

/-- Observable state of a `Decoder`: unread input, the current statement (`currentQuad.Subject != nil`
    is `cur.isSome`), the latched error. -/
structure Dec where
  inp : List Nat
  cur : Option (Quad (List Nat))
  err : Option EClass
  deriving Repr

def Dec.init (inp : List Nat) : Dec := ⟨inp, none, none⟩

/-- One call of `Next()`: new state and the returned Boolean. -/
def Dec.next (T : Tables) (urlOk : List Nat → Bool) (e : End) (quads : Bool) (d : Dec) : Dec × Bool :=
  match d.err with
  | some _ => (d, false)
  | none =>
    match NQ.next T urlOk e quads d.cur.isSome d.inp with
    | .quad q rest => (⟨rest, some q, none⟩, true)
    | .done => (⟨[], none, none⟩, false)          -- the reader is at EOF and stays there
    | .fail x => (⟨[], d.cur, some x⟩, false)

/-- `n` further calls of `Next()`. -/
def Dec.nextN (T : Tables) (urlOk : List Nat → Bool) (e : End) (quads : Bool) : Nat → Dec → Dec × Bool
  | 0, d => Dec.next T urlOk e quads d
  | n + 1, d => Dec.nextN T urlOk e quads n (Dec.next T urlOk e quads d).1

/-- Only white space and comments (what may follow the last statement). -/
def allBlank (T : Tables) (s : List Nat) : Bool := (skipToStmt T false s).isNone

end RdfModel.NQ
