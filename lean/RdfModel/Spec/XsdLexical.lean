/-
  RdfModel.Spec.XsdLexical — lexical spaces of the XML Schema datatypes that rdfkit-go maps
  (W3C XML Schema Definition Language (XSD) 1.1 Part 2: Datatypes), written independently of the
  Go code and of `Model.Xsd`. Core-only, executable, total.

  Strings are byte lists (`List Nat`, every element < 256 in practice): Go strings are byte
  sequences and every lexical space except string/anyURI is pure ASCII.

  * `collapse`      — whiteSpace facet value `collapse` (§4.3.6): replace #x9 #xA #xD by #x20, then
                      contiguous #x20 collapsed to one, leading and trailing #x20 removed. Written as
                      the three-state machine (start / in a word / after a word).
  * `lexOK T s`     — `s` (already normalised) is in the lexical space of `T`; one recogniser per
                      datatype, following the production / regular expression printed in the section
                      of the standard cited beside it.
  * `accepts T s`   — `lexOK T (normalize T s)` (whiteSpace is `preserve` for xsd:string, `collapse`
                      for every other mapped datatype).
  * `intLex`, `canonInt`, `canonBool` — value and canonical mapping for the integer family and boolean.
-/
import RdfModel.Model.Rune
namespace RdfModel.Spec.Xsd
open RdfModel

abbrev Bytes := List Nat

/-! ### whiteSpace = collapse (§4.3.6) -/

def isWs (b : Nat) : Bool := b == 0x20 || b == 0x9 || b == 0xA || b == 0xD

/-- where the scan is: nothing emitted yet / inside a word / white space seen after a word -/
inductive WsState | start | inWord | pending
  deriving DecidableEq, Repr

def collapseGo : WsState → Bytes → Bytes
  | _, [] => []
  | st, b :: r =>
    if isWs b then
      match st with
      | .start => collapseGo .start r
      | _ => collapseGo .pending r
    else
      match st with
      | .pending => 0x20 :: b :: collapseGo .inWord r
      | _ => b :: collapseGo .inWord r

def collapse (s : Bytes) : Bytes := collapseGo .start s

/-! ### the mapped datatypes -/

inductive Dt
  | anyURI | base64Binary | boolean | byte | date | dateTime | dateTimeStamp | decimal | double
  | duration | float | gDay | gMonth | gMonthDay | gYear | gYearMonth | hexBinary | int | integer
  | long | short | string | time | unsignedByte | unsignedInt | unsignedLong | unsignedShort
  deriving DecidableEq, Repr

def Dt.all : List Dt :=
  [.anyURI, .base64Binary, .boolean, .byte, .date, .dateTime, .dateTimeStamp, .decimal, .double,
   .duration, .float, .gDay, .gMonth, .gMonthDay, .gYear, .gYearMonth, .hexBinary, .int, .integer,
   .long, .short, .string, .time, .unsignedByte, .unsignedInt, .unsignedLong, .unsignedShort]

/-- local name in the XML Schema namespace `http://www.w3.org/2001/XMLSchema#` -/
def Dt.name : Dt → String
  | .anyURI => "anyURI" | .base64Binary => "base64Binary" | .boolean => "boolean" | .byte => "byte"
  | .date => "date" | .dateTime => "dateTime" | .dateTimeStamp => "dateTimeStamp"
  | .decimal => "decimal" | .double => "double" | .duration => "duration" | .float => "float"
  | .gDay => "gDay" | .gMonth => "gMonth" | .gMonthDay => "gMonthDay" | .gYear => "gYear"
  | .gYearMonth => "gYearMonth" | .hexBinary => "hexBinary" | .int => "int" | .integer => "integer"
  | .long => "long" | .short => "short" | .string => "string" | .time => "time"
  | .unsignedByte => "unsignedByte" | .unsignedInt => "unsignedInt"
  | .unsignedLong => "unsignedLong" | .unsignedShort => "unsignedShort"

def Dt.ofName (n : String) : Option Dt := Dt.all.find? (fun t => t.name == n)

/-- whiteSpace facet: `preserve` for string, `collapse` for everything else that is mapped -/
def normalize (T : Dt) (s : Bytes) : Bytes :=
  match T with
  | .string => s
  | _ => collapse s

/-! ### characters -/

def isDigit (b : Nat) : Bool := 0x30 ≤ b && b ≤ 0x39
def isHexDigit (b : Nat) : Bool := isDigit b || (0x41 ≤ b && b ≤ 0x46) || (0x61 ≤ b && b ≤ 0x66)
def isAlpha (b : Nat) : Bool := (0x41 ≤ b && b ≤ 0x5A) || (0x61 ≤ b && b ≤ 0x7A)

/-- XML 1.0 `Char` production -/
def isXmlChar (c : Nat) : Bool :=
  c == 0x9 || c == 0xA || c == 0xD || (0x20 ≤ c && c ≤ 0xD7FF) || (0xE000 ≤ c && c ≤ 0xFFFD)
    || (0x10000 ≤ c && c ≤ 0x10FFFF)

/-- non-empty run of digits -/
def digits1 (s : Bytes) : Bool := !s.isEmpty && s.all isDigit

/-- split off the maximal leading run of digits -/
def spanDigits : Bytes → Bytes × Bytes
  | [] => ([], [])
  | b :: r => if isDigit b then let (d, rest) := spanDigits r; (b :: d, rest) else ([], b :: r)

/-- value of a digit string, most significant digit first -/
def natValue (s : Bytes) : Nat := s.foldl (fun acc b => acc * 10 + (b - 0x30)) 0

/-! ### integer family (§3.4.13 integer `[\-+]?[0-9]+` and its derived types) -/

/-- optional sign: (negative?, rest) -/
def signSplit : Bytes → Bool × Bytes
  | [] => (false, [])
  | b :: r => if b = 0x2D then (true, r) else if b = 0x2B then (false, r) else (false, b :: r)

/-- lexical mapping of xsd:integer: `some v` iff the string matches `[\-+]?[0-9]+` -/
def intLex (s : Bytes) : Option Int :=
  let (neg, r) := signSplit s
  if digits1 r then some (if neg then -(natValue r : Int) else (natValue r : Int)) else none

inductive IntTy
  | integer | long | int | short | byte | unsignedLong | unsignedInt | unsignedShort | unsignedByte
  deriving DecidableEq, Repr

def IntTy.all : List IntTy :=
  [.integer, .long, .int, .short, .byte, .unsignedLong, .unsignedInt, .unsignedShort, .unsignedByte]

def IntTy.dt : IntTy → Dt
  | .integer => .integer | .long => .long | .int => .int | .short => .short | .byte => .byte
  | .unsignedLong => .unsignedLong | .unsignedInt => .unsignedInt
  | .unsignedShort => .unsignedShort | .unsignedByte => .unsignedByte

/-- minInclusive / maxInclusive of the value space (none = unbounded) -/
def IntTy.lo : IntTy → Option Int
  | .integer => none
  | .long => some (-9223372036854775808) | .int => some (-2147483648)
  | .short => some (-32768) | .byte => some (-128)
  | _ => some 0
def IntTy.hi : IntTy → Option Int
  | .integer => none
  | .long => some 9223372036854775807 | .int => some 2147483647
  | .short => some 32767 | .byte => some 127
  | .unsignedLong => some 18446744073709551615 | .unsignedInt => some 4294967295
  | .unsignedShort => some 65535 | .unsignedByte => some 255

def IntTy.inValueSpace (T : IntTy) (v : Int) : Bool :=
  (match T.lo with | some l => decide (l ≤ v) | none => true) &&
  (match T.hi with | some h => decide (v ≤ h) | none => true)

def intLexOK (T : IntTy) (s : Bytes) : Bool :=
  match intLex s with
  | some v => T.inValueSpace v
  | none => false

/-- decimal digits of a natural number, no leading zeros (`0` ↦ "0"); fuel = n+1 suffices -/
def digitsAux : Nat → Nat → Bytes → Bytes
  | 0, _, acc => acc
  | fuel + 1, n, acc =>
    let acc' := (0x30 + n % 10) :: acc
    if n / 10 = 0 then acc' else digitsAux fuel (n / 10) acc'

def natDigits (n : Nat) : Bytes := digitsAux (n + 1) n []

/-- canonical representation of an integer (§3.4.13.2: no leading `+`, no leading zeros) -/
def canonInt (v : Int) : Bytes :=
  if v < 0 then 0x2D :: natDigits v.natAbs else natDigits v.toNat

/-- the standard's wording as a predicate: a lexical form of `v` without `+`, without leading zeros
    and without a sign on zero -/
def IsCanonInt (s : Bytes) (v : Int) : Prop :=
  intLex s = some v ∧
  match s with
  | [] => False
  | b :: r => b ≠ 0x2B ∧ (b = 0x30 → r = []) ∧ (b = 0x2D → ∃ c r', r = c :: r' ∧ c ≠ 0x30)

/-! ### boolean (§3.3.2: `true | false | 1 | 0`) -/

def bTrue : Bytes := [0x74, 0x72, 0x75, 0x65]
def bFalse : Bytes := [0x66, 0x61, 0x6C, 0x73, 0x65]

def boolLex (s : Bytes) : Option Bool :=
  if s = bTrue ∨ s = [0x31] then some true
  else if s = bFalse ∨ s = [0x30] then some false
  else none

/-- canonical representation of a boolean: `true` / `false` -/
def canonBool (b : Bool) : Bytes := if b then bTrue else bFalse

/-! ### decimal, float, double (§3.3.3 `(\+|-)?([0-9]+(\.[0-9]*)?|\.[0-9]+)`,
      §3.3.4/3.3.5 `(\+|-)?([0-9]+(\.[0-9]*)?|\.[0-9]+)([Ee](\+|-)?[0-9]+)?|(\+|-)?INF|NaN`) -/

/-- `[0-9]+(\.[0-9]*)?|\.[0-9]+`; returns the unconsumed rest -/
def unsignedNumeral (s : Bytes) : Option Bytes :=
  let (i, r) := spanDigits s
  match r with
  | 0x2E :: r' =>
    let (f, r'') := spanDigits r'
    if i.isEmpty && f.isEmpty then none else some r''
  | _ => if i.isEmpty then none else some r

def dropSign : Bytes → Bytes
  | [] => []
  | b :: r => if b = 0x2B ∨ b = 0x2D then r else b :: r

def decimalLexOK (s : Bytes) : Bool :=
  match unsignedNumeral (dropSign s) with
  | some [] => true
  | _ => false

def bINF : Bytes := [0x49, 0x4E, 0x46]
def bNaN : Bytes := [0x4E, 0x61, 0x4E]

def doubleLexOK (s : Bytes) : Bool :=
  if s = bNaN then true
  else if dropSign s = bINF then true
  else
    match unsignedNumeral (dropSign s) with
    | some [] => true
    | some (e :: r) => (e = 0x45 ∨ e = 0x65) && digits1 (dropSign r)
    | none => false

/-! ### date/time family (§3.3.7–3.3.14, 3.4.28; productions yearFrag … timezoneFrag of Appendix D) -/

/-- exactly two digits → value -/
def two (s : Bytes) : Option (Nat × Bytes) :=
  match s with
  | a :: b :: r => if isDigit a && isDigit b then some ((a - 0x30) * 10 + (b - 0x30), r) else none
  | _ => none

/-- yearFrag ::= '-'? (([1-9] digit digit digit+)) | ('0' digit digit digit)) -/
def yearFrag (s : Bytes) : Option (Int × Bytes) :=
  let (neg, r0) := match s with
    | b :: r => if b = 0x2D then (true, r) else (false, b :: r)
    | [] => (false, [])
  let (d, rest) := spanDigits r0
  if d.length < 4 then none
  else if d.length > 4 && d.head? = some 0x30 then none
  else some (if neg then -(natValue d : Int) else (natValue d : Int), rest)

/-- monthFrag ::= ('0' [1-9]) | ('1' [0-2]) -/
def monthFrag (s : Bytes) : Option (Nat × Bytes) :=
  match two s with
  | some (m, r) => if 1 ≤ m && m ≤ 12 then some (m, r) else none
  | none => none

/-- dayFrag ::= ('0' [1-9]) | ([12] digit) | ('3' [01]) -/
def dayFrag (s : Bytes) : Option (Nat × Bytes) :=
  match two s with
  | some (d, r) => if 1 ≤ d && d ≤ 31 then some (d, r) else none
  | none => none

def isLeap (y : Int) : Bool := (y % 4 == 0 && y % 100 != 0) || y % 400 == 0

/-- daysInMonth (Appendix E.3.2); `none` year = month/day without a year (February counts 29) -/
def daysInMonth (y : Option Int) (m : Nat) : Nat :=
  if m = 2 then (match y with | some y => if isLeap y then 29 else 28 | none => 29)
  else if m = 4 ∨ m = 6 ∨ m = 9 ∨ m = 11 then 30 else 31

def expect (c : Nat) (s : Bytes) : Option Bytes :=
  match s with
  | b :: r => if b = c then some r else none
  | [] => none

/-- timezoneFrag ::= 'Z' | ('+' | '-') (('0' digit | '1' [0-3]) ':' minuteFrag | '14:00'); optional, must end the string -/
def tzEnd (required : Bool) (s : Bytes) : Bool :=
  match s with
  | [] => !required
  | [0x5A] => true
  | sg :: r =>
    (sg = 0x2B ∨ sg = 0x2D) &&
    (match two r with
     | some (h, r1) =>
       (match expect 0x3A r1 with
        | some r2 =>
          (match two r2 with
           | some (m, []) => (h ≤ 13 && m ≤ 59) || (h = 14 && m = 0)
           | _ => false)
        | none => false)
     | none => false)

/-- hh:mm:ss(.s+)? with hh ≤ 23, or endOfDayFrag 24:00:00(.0+)?; returns the rest -/
def timeFrag (s : Bytes) : Option Bytes := do
  let (h, r1) ← two s
  let r2 ← expect 0x3A r1
  let (m, r3) ← two r2
  let r4 ← expect 0x3A r3
  let (sec, r5) ← two r4
  let (fracOK, fracZero, r6) :=
    match r5 with
    | 0x2E :: r =>
      let (f, r') := spanDigits r
      (!f.isEmpty, f.all (· == 0x30), r')
    | _ => (true, true, r5)
  if !fracOK then none
  else if h ≤ 23 && m ≤ 59 && sec ≤ 59 then some r6
  else if h = 24 && m = 0 && sec = 0 && fracZero then some r6
  else none

def dateFrag (s : Bytes) : Option Bytes := do
  let (y, r1) ← yearFrag s
  let r2 ← expect 0x2D r1
  let (m, r3) ← monthFrag r2
  let r4 ← expect 0x2D r3
  let (d, r5) ← dayFrag r4
  if d ≤ daysInMonth (some y) m then some r5 else none

def dateTimeLexOK (tzRequired : Bool) (s : Bytes) : Bool :=
  match (do let r ← dateFrag s; let r ← expect 0x54 r; timeFrag r) with
  | some r => tzEnd tzRequired r
  | none => false

def timeLexOK (s : Bytes) : Bool :=
  match timeFrag s with
  | some r => tzEnd false r
  | none => false

def dateLexOK (s : Bytes) : Bool :=
  match dateFrag s with
  | some r => tzEnd false r
  | none => false

def gYearMonthLexOK (s : Bytes) : Bool :=
  match (do let (_, r) ← yearFrag s; let r ← expect 0x2D r; let (_, r) ← monthFrag r; pure r) with
  | some r => tzEnd false r
  | none => false

def gYearLexOK (s : Bytes) : Bool :=
  match yearFrag s with
  | some (_, r) => tzEnd false r
  | none => false

/-- `--MM-DD`, day within the month (February: 29) -/
def gMonthDayLexOK (s : Bytes) : Bool :=
  match (do let r ← expect 0x2D s; let r ← expect 0x2D r; let (m, r) ← monthFrag r
            let r ← expect 0x2D r; let (d, r) ← dayFrag r
            if d ≤ daysInMonth none m then some r else none) with
  | some r => tzEnd false r
  | none => false

/-- `---DD` -/
def gDayLexOK (s : Bytes) : Bool :=
  match (do let r ← expect 0x2D s; let r ← expect 0x2D r; let r ← expect 0x2D r
            let (_, r) ← dayFrag r; pure r) with
  | some r => tzEnd false r
  | none => false

/-- `--MM` -/
def gMonthLexOK (s : Bytes) : Bool :=
  match (do let r ← expect 0x2D s; let r ← expect 0x2D r; let (_, r) ← monthFrag r; pure r) with
  | some r => tzEnd false r
  | none => false

/-! ### duration (§3.3.6: `-?P( ( ( [0-9]+Y([0-9]+M)?([0-9]+D)? | ([0-9]+M)([0-9]+D)? | ([0-9]+D) )
      (T( … ))? ) | (T( ([0-9]+H)([0-9]+M)?([0-9]+(\.[0-9]+)?S)? | ([0-9]+M)([0-9]+(\.[0-9]+)?S)? | ([0-9]+(\.[0-9]+)?S) )) )`) -/

/-- optional component `[0-9]+<letter>`: (present?, rest) -/
def durComp (letter : Nat) (s : Bytes) : Bool × Bytes :=
  let (d, r) := spanDigits s
  match r with
  | c :: r' => if !d.isEmpty && c = letter then (true, r') else (false, s)
  | [] => (false, s)

/-- optional seconds component `[0-9]+(\.[0-9]+)?S` -/
def durSeconds (s : Bytes) : Bool × Bytes :=
  let (d, r) := spanDigits s
  if d.isEmpty then (false, s)
  else
    match r with
    | 0x53 :: r' => (true, r')
    | 0x2E :: r1 =>
      let (f, r2) := spanDigits r1
      (match r2 with
       | 0x53 :: r3 => if f.isEmpty then (false, s) else (true, r3)
       | _ => (false, s))
    | _ => (false, s)

def durationLexOK (s : Bytes) : Bool :=
  let s1 := match s with
    | b :: r => if b = 0x2D then r else b :: r
    | [] => []
  match expect 0x50 s1 with
  | none => false
  | some r0 =>
    let (hy, r1) := durComp 0x59 r0
    let (hm, r2) := durComp 0x4D r1
    let (hd, r3) := durComp 0x44 r2
    let datePart := hy || hm || hd
    match r3 with
    | [] => datePart
    | t :: r4 =>
      if t ≠ 0x54 then false
      else
        let (hh, r5) := durComp 0x48 r4
        let (hmin, r6) := durComp 0x4D r5
        let (hs, r7) := durSeconds r6
        (hh || hmin || hs) && r7.isEmpty

/-! ### hexBinary (§3.3.15 `([0-9a-fA-F]{2})*`), base64Binary (§3.3.16), anyURI (§3.3.17), string (§3.3.1) -/

def hexBinaryLexOK (s : Bytes) : Bool := s.length % 2 == 0 && s.all isHexDigit

def isB64 (b : Nat) : Bool := isAlpha b || isDigit b || b == 0x2B || b == 0x2F
/-- B16Char `[AEIMQUYcgkosw048]` -/
def isB16 (b : Nat) : Bool :=
  [0x41, 0x45, 0x49, 0x4D, 0x51, 0x55, 0x59, 0x63, 0x67, 0x6B, 0x6F, 0x73, 0x77, 0x30, 0x34, 0x38].contains b
/-- B04Char `[AQgw]` -/
def isB04 (b : Nat) : Bool := [0x41, 0x51, 0x67, 0x77].contains b

/-- one `[A-Za-z0-9+/] ?` item: the character and the rest after the optional single space -/
def b64Item (s : Bytes) : Option (Nat × Bytes) :=
  match s with
  | c :: r =>
    if isB64 c then
      (match r with
       | sp :: r' => if sp = 0x20 then some (c, r') else some (c, r)
       | [] => some (c, []))
    else none
  | [] => none

def optSpace : Bytes → Bytes
  | [] => []
  | b :: r => if b = 0x20 then r else b :: r

/-- `((B64 ?){4})*((B64 ?){3}B64|(B64 ?){2}B16 ?=|B64 ?B04 ?= ?=)?` ; fuel = length -/
def b64Go : Nat → Bytes → Bool
  | 0, s => s.isEmpty
  | fuel + 1, s =>
    if s.isEmpty then true
    else
      match b64Item s with
      | none => false
      | some (_, r1) =>
        match b64Item r1 with
        | none => false
        | some (c2, r2) =>
          -- `B64 ?B04 ?= ?=`
          if r2 = [0x3D, 0x3D] ∨ r2 = [0x3D, 0x20, 0x3D] then isB04 c2
          else
            match b64Item r2 with
            | none => false
            | some (c3, r3) =>
              -- `(B64 ?){2}B16 ?=`
              if r3 = [0x3D] then isB16 c3
              else
                match b64Item r3 with
                | none => false
                | some (_, r4) =>
                  -- a full quantum; `(B64 ?){3}B64` is the case r4 = [] without trailing space
                  b64Go fuel r4

def base64LexOK (s : Bytes) : Bool := b64Go s.length s

/-- the bytes are well-formed UTF-8 and every code point matches XML `Char` -/
def xmlCharsOK (s : Bytes) : Bool :=
  let rs := utf8Decode s
  utf8Encode rs == s && rs.all isXmlChar

/-! ### dispatch -/

def Dt.intTy? : Dt → Option IntTy
  | .integer => some .integer | .long => some .long | .int => some .int | .short => some .short
  | .byte => some .byte | .unsignedLong => some .unsignedLong | .unsignedInt => some .unsignedInt
  | .unsignedShort => some .unsignedShort | .unsignedByte => some .unsignedByte
  | _ => none

/-- `s` (after whiteSpace normalisation) is in the lexical space of `T` -/
def lexOK (T : Dt) (s : Bytes) : Bool :=
  match T with
  | .anyURI => xmlCharsOK s
  | .string => xmlCharsOK s
  | .base64Binary => base64LexOK s
  | .hexBinary => hexBinaryLexOK s
  | .boolean => (boolLex s).isSome
  | .decimal => decimalLexOK s
  | .double => doubleLexOK s
  | .float => doubleLexOK s
  | .duration => durationLexOK s
  | .dateTime => dateTimeLexOK false s
  | .dateTimeStamp => dateTimeLexOK true s
  | .date => dateLexOK s
  | .time => timeLexOK s
  | .gYearMonth => gYearMonthLexOK s
  | .gYear => gYearLexOK s
  | .gMonthDay => gMonthDayLexOK s
  | .gDay => gDayLexOK s
  | .gMonth => gMonthLexOK s
  | .integer => intLexOK .integer s
  | .long => intLexOK .long s
  | .int => intLexOK .int s
  | .short => intLexOK .short s
  | .byte => intLexOK .byte s
  | .unsignedLong => intLexOK .unsignedLong s
  | .unsignedInt => intLexOK .unsignedInt s
  | .unsignedShort => intLexOK .unsignedShort s
  | .unsignedByte => intLexOK .unsignedByte s

/-- `s` as given (before whiteSpace processing) denotes a value of `T` -/
def accepts (T : Dt) (s : Bytes) : Bool := lexOK T (normalize T s)

end RdfModel.Spec.Xsd
