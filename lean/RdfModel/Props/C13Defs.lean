/-
  Property C13 — definitions used by the theorem statements (invariant, specification, hypotheses).
-/
import RdfModel.Model.Prefix
namespace RdfModel.C13
open RdfModel.Prefix
open RdfModel.Spec.RFC3986Lite (Str cColon cSlash cQuest cHash cDot)

/-! ### PrefixManager -/

/-- The representation invariant of `iri.PrefixManager`: `ordered` lists every prefix at most once, is
    sorted by descending namespace length, and holds exactly the entries of `mappingByPrefix`. -/
structure Inv (p : PM) : Prop where
  nodup : (p.ordered.map (·.pfx)).Nodup
  sorted : p.ordered.Pairwise (fun a b => b.expanded.length ≤ a.expanded.length)
  agree : ∀ m : Mapping, m ∈ p.ordered ↔ p.byPrefix.get m.pfx = some m.expanded

/-- Specification of the table, independent of the implementation's data structures: look backwards
    through the calls (most recent first); inside one `AddPrefixMappings` call the last mention of the
    prefix counts; a `DeletePrefixes` call that names the prefix ends the search with "unmapped". -/
def lastWriteRev : List Op → Str → Option Str
  | [], _ => none
  | .add ms :: older, k =>
    match ms.reverse.find? (fun m => m.pfx == k) with
    | some m => some m.expanded
    | none => lastWriteRev older k
  | .del ks :: older, k => if k ∈ ks then none else lastWriteRev older k

/-- the most recent mapping of prefix `k` after `NewPrefixManager(init)` followed by `ops` -/
def lastWrite (init : List Mapping) (ops : List Op) (k : Str) : Option Str :=
  lastWriteRev (ops.reverse ++ [.add init]) k

/-- `a` is a prefix of `v` (as byte strings) -/
abbrev IsNs (a v : Str) : Prop := a <+: v

/-! ### store of managers (Clone) -/

/-- the manager a store operation mutates, if any (`new` and `clone` only append) -/
def _root_.RdfModel.Prefix.StoreOp.target : StoreOp → Option Nat
  | .new _ => none
  | .clone _ => none
  | .add h _ => some h
  | .del h _ => some h

/-- the calls each manager of a store has seen: construction arguments and mutations, a clone
    inheriting the history of its source up to the moment of cloning -/
def histStep (hs : List (List Mapping × List Op)) : StoreOp → List (List Mapping × List Op)
  | .new ms => hs ++ [(ms, [])]
  | .clone h => match hs[h]? with
    | some x => hs ++ [x]
    | none => hs
  | .add h ms => match hs[h]? with
    | some (i, o) => hs.set h (i, o ++ [.add ms])
    | none => hs
  | .del h ks => match hs[h]? with
    | some (i, o) => hs.set h (i, o ++ [.del ks])
    | none => hs

def histories (ops : List StoreOp) : List (List Mapping × List Op) := ops.foldl histStep []

/-! ### BaseIRI -/

/-- sanity of the index bookkeeping of `NewBaseIRI`: the resource ends inside the string, the root is at
    most one past its end (a base without a path has no trailing slash), the directory does not extend
    beyond the resource. Decidable; checked by the harness on every base it generates. -/
def IndicesOK (rb : BaseIRI) : Prop :=
  rb.resourceIndex ≤ rb.original.length ∧
  match rb.root with
  | none => True
  | some (ri, di) => 1 ≤ ri ∧ ri ≤ rb.original.length + 1 ∧ di ≤ rb.resourceIndex

instance (rb : BaseIRI) : Decidable (IndicesOK rb) := by
  unfold IndicesOK
  cases rb.root with
  | none => exact inferInstance
  | some rd => obtain ⟨ri, di⟩ := rd; exact inferInstance

/-- a path segment that is neither `.` nor `..` and contains no delimiter -/
def PlainSeg (s : Str) : Prop :=
  s ≠ [cDot] ∧ s ≠ [cDot, cDot] ∧ ∀ c ∈ s, c ≠ cSlash ∧ c ≠ cQuest ∧ c ≠ cHash

/-- `/seg₁/seg₂…` -/
def joinSegs (segs : List Str) : Str := (segs.map (fun s => cSlash :: s)).flatten

/-- scheme characters: no delimiter of Appendix B -/
def SchemeLike (s : Str) : Prop := s ≠ [] ∧ ∀ c ∈ s, c ≠ cColon ∧ c ≠ cSlash ∧ c ≠ cQuest ∧ c ≠ cHash

/-- authority characters -/
def AuthLike (a : Str) : Prop := ∀ c ∈ a, c ≠ cSlash ∧ c ≠ cQuest ∧ c ≠ cHash

open RdfModel.Spec.RFC3986Lite (queryPart fragmentPart) in
/-- `scheme://authority/dir₁/…/dirₙ/last?query#fragment` -/
def mkBase (sch auth : Str) (dirs : List Str) (last : Str) (q f : Option Str) : Str :=
  sch ++ cColon :: cSlash :: cSlash :: auth ++ joinSegs (dirs ++ [last]) ++ queryPart q ++ fragmentPart f

/-- an IRI in the directory of that base: `scheme://authority/dir₁/…/dirₙ/rest` -/
def mkTarget (sch auth : Str) (dirs : List Str) (rest : Str) : Str :=
  sch ++ cColon :: cSlash :: cSlash :: auth ++ joinSegs dirs ++ cSlash :: rest

/-- a hierarchical base without dot segments (last segment possibly empty) -/
structure BaseShape (sch auth : Str) (dirs : List Str) (last : Str) (q : Option Str) : Prop where
  hs : SchemeLike sch
  ha : AuthLike auth
  hd : ∀ s ∈ dirs, PlainSeg s
  hl : PlainSeg last
  hq : ∀ x, q = some x → ∀ c ∈ x, c ≠ cHash

/-- a relative path `seg₁/seg₂…` below a directory: non-empty first segment without colon, no dot segments,
    no query or fragment -/
structure RelShape (seg1 : Str) (more : List Str) : Prop where
  hne : seg1 ≠ []
  hp : PlainSeg seg1
  hc : ∀ c ∈ seg1, c ≠ cColon
  hm : ∀ s ∈ more, PlainSeg s

end RdfModel.C13
