package main

// T2 generator for property C10: structural facts about encoding/jsonld  ->
// lean/RdfModel/Gen/JsonLdFacts.lean
//
// Purely syntactic (go/ast) over the checkout named by VERIF_REPO (default /repo):
//   - the keys of jsonldinternal.definedKeywords (the fragment semantics has its own keyword list);
//   - the imports of the packages encoding/jsonld and encoding/jsonld/internal/jsonldinternal (non-test
//     files): "with no network access" - neither may import net or net/http, the only loader a decoder
//     has without configuration is the one Expand installs;
//   - whether Expand installs, when opts.DocumentLoader is nil, a loader whose body is
//     `return …, errors.New("no document loader configured")`;
//   - the runes isWellFormedIRI rejects in its switch, and whether it still counts '?';
//   - the integer bound of the native number branch of decodeValueNode;
//   - the three regular expressions and the gen-delim string of the repaired encoder.
// Anything not found is emitted as "unknown"; the consuming theorem then fails.

import (
	"fmt"
	"go/ast"
	"go/parser"
	"go/token"
	"os"
	"path/filepath"
	"sort"
	"strconv"
	"strings"
)

func init() { generators["c10"] = genC10 }

func c10Parse(fset *token.FileSet, repo, rel string) *ast.File {
	f, err := parser.ParseFile(fset, filepath.Join(repo, rel), nil, 0)
	if err != nil {
		fmt.Fprintln(os.Stderr, "c10:", err)
		os.Exit(2)
	}
	return f
}

func c10Imports(fset *token.FileSet, repo, dir string) []string {
	ents, err := os.ReadDir(filepath.Join(repo, dir))
	if err != nil {
		fmt.Fprintln(os.Stderr, "c10:", err)
		os.Exit(2)
	}
	seen := map[string]bool{}
	for _, e := range ents {
		n := e.Name()
		if e.IsDir() || !strings.HasSuffix(n, ".go") || strings.HasSuffix(n, "_test.go") {
			continue
		}
		f, err := parser.ParseFile(fset, filepath.Join(repo, dir, n), nil, parser.ImportsOnly)
		if err != nil {
			fmt.Fprintln(os.Stderr, "c10:", err)
			os.Exit(2)
		}
		for _, im := range f.Imports {
			p, _ := strconv.Unquote(im.Path.Value)
			seen[p] = true
		}
	}
	var out []string
	for p := range seen {
		out = append(out, p)
	}
	sort.Strings(out)
	return out
}

func c10LeanStrings(xs []string) string {
	q := make([]string, len(xs))
	for i, x := range xs {
		q[i] = strconv.Quote(x)
	}
	return "[" + strings.Join(q, ", ") + "]"
}

func c10FuncDecl(f *ast.File, name string) *ast.FuncDecl {
	for _, d := range f.Decls {
		if fd, ok := d.(*ast.FuncDecl); ok && fd.Name.Name == name {
			return fd
		}
	}
	return nil
}

// c10VarString: the string literal argument of `name = regexp.MustCompile(<lit>)` or `name = <lit>`.
func c10VarString(f *ast.File, name string) string {
	res := "unknown"
	ast.Inspect(f, func(n ast.Node) bool {
		vs, ok := n.(*ast.ValueSpec)
		if !ok {
			return true
		}
		for i, id := range vs.Names {
			if id.Name != name || i >= len(vs.Values) {
				continue
			}
			var lit *ast.BasicLit
			switch v := vs.Values[i].(type) {
			case *ast.BasicLit:
				lit = v
			case *ast.CallExpr:
				if len(v.Args) == 1 {
					lit, _ = v.Args[0].(*ast.BasicLit)
				}
			}
			if lit != nil && lit.Kind == token.STRING {
				if s, err := strconv.Unquote(lit.Value); err == nil {
					res = s
				}
			}
		}
		return true
	})
	return res
}

func genC10(leanRoot string) {
	repo := os.Getenv("VERIF_REPO")
	if repo == "" {
		repo = "/repo"
	}
	fset := token.NewFileSet()

	// keywords
	var keywords []string
	kf := c10Parse(fset, repo, "encoding/jsonld/internal/jsonldinternal/keywords.go")
	ast.Inspect(kf, func(n ast.Node) bool {
		vs, ok := n.(*ast.ValueSpec)
		if !ok || len(vs.Names) != 1 || vs.Names[0].Name != "definedKeywords" || len(vs.Values) != 1 {
			return true
		}
		if cl, ok := vs.Values[0].(*ast.CompositeLit); ok {
			for _, e := range cl.Elts {
				if kv, ok := e.(*ast.KeyValueExpr); ok {
					if bl, ok := kv.Key.(*ast.BasicLit); ok {
						s, _ := strconv.Unquote(bl.Value)
						keywords = append(keywords, s)
					}
				}
			}
		}
		return true
	})
	sort.Strings(keywords)

	// imports
	imports := append(c10Imports(fset, repo, "encoding/jsonld"), c10Imports(fset, repo, "encoding/jsonld/internal/jsonldinternal")...)
	sort.Strings(imports)
	var uniq []string
	for i, p := range imports {
		if i == 0 || imports[i-1] != p {
			uniq = append(uniq, p)
		}
	}

	// default loader of Expand
	defaultLoaderRefuses := false
	pf := c10Parse(fset, repo, "encoding/jsonld/internal/jsonldinternal/package.go")
	if fd := c10FuncDecl(pf, "Expand"); fd != nil {
		ast.Inspect(fd.Body, func(n ast.Node) bool {
			is, ok := n.(*ast.IfStmt)
			if !ok {
				return true
			}
			be, ok := is.Cond.(*ast.BinaryExpr)
			if !ok || be.Op != token.EQL {
				return true
			}
			sel, ok1 := be.X.(*ast.SelectorExpr)
			nilId, ok2 := be.Y.(*ast.Ident)
			if !ok1 || !ok2 || sel.Sel.Name != "DocumentLoader" || nilId.Name != "nil" {
				return true
			}
			// the body assigns a function literal whose only statement returns errors.New("no document loader configured")
			ast.Inspect(is.Body, func(m ast.Node) bool {
				fl, ok := m.(*ast.FuncLit)
				if !ok || len(fl.Body.List) != 1 {
					return true
				}
				rs, ok := fl.Body.List[0].(*ast.ReturnStmt)
				if !ok || len(rs.Results) != 2 {
					return true
				}
				if ce, ok := rs.Results[1].(*ast.CallExpr); ok && len(ce.Args) == 1 {
					if bl, ok := ce.Args[0].(*ast.BasicLit); ok && bl.Value == `"no document loader configured"` {
						defaultLoaderRefuses = true
					}
				}
				return true
			})
			return true
		})
	}

	// isWellFormedIRI: rejected runes, '?' counted or not; integer bound
	var rejected []int
	countsQuestion := false
	intBound := "unknown"
	df := c10Parse(fset, repo, "encoding/jsonld/decoder.go")
	if fd := c10FuncDecl(df, "isWellFormedIRI"); fd != nil {
		ast.Inspect(fd.Body, func(n ast.Node) bool {
			cc, ok := n.(*ast.CaseClause)
			if !ok {
				return true
			}
			returnsFalse := false
			if len(cc.Body) == 1 {
				if rs, ok := cc.Body[0].(*ast.ReturnStmt); ok && len(rs.Results) == 1 {
					if id, ok := rs.Results[0].(*ast.Ident); ok && id.Name == "false" {
						returnsFalse = true
					}
				}
			}
			for _, e := range cc.List {
				if bl, ok := e.(*ast.BasicLit); ok && bl.Kind == token.CHAR {
					r, _, _, err := strconv.UnquoteChar(bl.Value[1:len(bl.Value)-1], '\'')
					if err != nil {
						continue
					}
					if returnsFalse {
						rejected = append(rejected, int(r))
					} else if r == '?' {
						countsQuestion = true
					}
				}
			}
			return true
		})
	}
	sort.Ints(rejected)
	ast.Inspect(df, func(n ast.Node) bool {
		// `hasDecimal || <cond>`: record the source of <cond>
		be, ok := n.(*ast.BinaryExpr)
		if !ok || be.Op != token.LOR {
			return true
		}
		if id, ok := be.X.(*ast.Ident); ok && id.Name == "hasDecimal" {
			intBound = c13Src(fset, be.Y)
		}
		return true
	})

	// encoder
	ef := c10Parse(fset, repo, "encoding/jsonld/encoder.go")
	reInt := c10VarString(ef, "reNativeInteger")
	reDbl := c10VarString(ef, "reNativeDouble")
	reKw := c10VarString(ef, "reKeywordForm")
	genDelims := "unknown"
	if fd := c10FuncDecl(ef, "isPrefixTerm"); fd != nil {
		ast.Inspect(fd.Body, func(n ast.Node) bool {
			ce, ok := n.(*ast.CallExpr)
			if !ok || len(ce.Args) != 2 {
				return true
			}
			if sel, ok := ce.Fun.(*ast.SelectorExpr); ok && sel.Sel.Name == "ContainsRune" {
				if bl, ok := ce.Args[0].(*ast.BasicLit); ok {
					genDelims, _ = strconv.Unquote(bl.Value)
				}
			}
			return true
		})
	}

	var sb strings.Builder
	sb.WriteString("-- GENERATED by /verif/go/cmd/extract (gen_c10.go, T2: go/ast facts about encoding/jsonld). Do not edit.\n")
	sb.WriteString("namespace RdfModel.Gen.JsonLdFacts\n\n")
	fmt.Fprintf(&sb, "/-- keys of jsonldinternal.definedKeywords -/\ndef keywords : List String := %s\n\n", c10LeanStrings(keywords))
	fmt.Fprintf(&sb, "/-- imports of encoding/jsonld and encoding/jsonld/internal/jsonldinternal (non-test files) -/\ndef decoderImports : List String := %s\n\n", c10LeanStrings(uniq))
	fmt.Fprintf(&sb, "/-- Expand installs a refusing loader when none is configured -/\ndef defaultLoaderRefuses : Bool := %v\n\n", defaultLoaderRefuses)
	rs := make([]string, len(rejected))
	for i, r := range rejected {
		rs[i] = strconv.Itoa(r)
	}
	fmt.Fprintf(&sb, "/-- runes isWellFormedIRI rejects by its switch (besides r < 0x20) -/\ndef iriRejected : List Nat := [%s]\n\n", strings.Join(rs, ", "))
	fmt.Fprintf(&sb, "/-- isWellFormedIRI still treats a second '?' specially -/\ndef iriCountsQuestionMarks : Bool := %v\n\n", countsQuestion)
	fmt.Fprintf(&sb, "/-- the condition besides `hasDecimal` under which a native number becomes xsd:double -/\ndef doubleCondition : String := %s\n\n", strconv.Quote(intBound))
	fmt.Fprintf(&sb, "def reNativeInteger : String := %s\ndef reNativeDouble : String := %s\ndef reKeywordForm : String := %s\n", strconv.Quote(reInt), strconv.Quote(reDbl), strconv.Quote(reKw))
	fmt.Fprintf(&sb, "def prefixGenDelims : String := %s\n\n", strconv.Quote(genDelims))
	sb.WriteString("end RdfModel.Gen.JsonLdFacts\n")
	writeIfChanged(filepath.Join(leanRoot, "RdfModel", "Gen", "JsonLdFacts.lean"), sb.String())
}
