/-
  Proofs.C16Run — the `Next()` loop: every statement of a run has exact ranges, the discipline
  invariant holds after any number of `Next()` calls, the error offset of a run is inside the input.
-/
import RdfModel.Proofs.C16Err
namespace RdfModel.Proofs.C16
open RdfModel RdfModel.NQ RdfModel.TW RdfModel.NQO RdfModel.C16

theorem disc_init (capture : Bool) (inp : List RP) : Disc inp (S.init capture) inp := by
  refine ⟨by simp [S.init], fun h hh => ?_⟩
  cases capture <;> simp [S.init] at hh
  subst hh; simp

theorem init_isSome (capture : Bool) : (S.init capture).doc.isSome = capture := by
  cases capture <;> rfl

theorem runFuel_stmts_ok (T : Tables) (urlOk : List Nat → Bool) (e : End) (legacy quads : Bool)
    (input : List RP) (cap : Bool) (fuel : Nat) (started : Bool) (s : S) (inp : List RP)
    (hd : Disc input s inp) (hc : s.doc.isSome = cap) :
    ∀ x ∈ (NQO.runFuel T urlOk e legacy quads fuel started s inp).stmts,
      StmtOK T urlOk input cap x.1 x.2 := by
  induction fuel generalizing started s inp with
  | zero => simp [NQO.runFuel]
  | succ fuel ih =>
    simp only [NQO.runFuel]
    split
    · simp
    · simp
    · next q rg s' rest hn =>
      obtain ⟨d1, c1, k1⟩ := next_quad T urlOk e legacy quads started s inp q rg s' rest input cap hn hd hc
      intro x hx
      simp only [List.mem_cons] at hx
      rcases hx with rfl | hx
      · exact k1
      · exact ih true s' rest d1 c1 x hx

theorem runFuel_final (T : Tables) (urlOk : List Nat → Bool) (e : End) (legacy quads : Bool)
    (input : List RP) (fuel : Nat) (started : Bool) (s : S) (inp : List RP) (s' : S)
    (hd : Disc input s inp)
    (hf : (NQO.runFuel T urlOk e legacy quads fuel started s inp).final = some s') :
    Disc input s' [] ∧ s'.doc.isSome = s.doc.isSome := by
  induction fuel generalizing started s inp with
  | zero => simp [NQO.runFuel] at hf
  | succ fuel ih =>
    simp only [NQO.runFuel] at hf
    split at hf
    · next s1 hn =>
      simp only [Option.some.injEq] at hf
      subst hf
      exact next_done T urlOk e legacy quads started s inp s1 input _ hn hd rfl
    · simp at hf
    · next q rg s1 rest hn =>
      obtain ⟨d1, c1, _⟩ := next_quad T urlOk e legacy quads started s inp q rg s1 rest input _ hn hd rfl
      have := ih true s1 rest d1 hf
      exact ⟨this.1, by rw [this.2, c1]⟩

theorem runFuel_err_bound (T : Tables) (urlOk : List Nat → Bool) (e : End) (quads : Bool)
    (input : List RP) (fuel : Nat) (started : Bool) (s : S) (inp : List RP)
    (hd : Disc input s inp) :
    EOff.bound (NQO.runFuel T urlOk e false quads fuel started s inp).eoff ≤ size input := by
  induction fuel generalizing started s inp with
  | zero => simp [NQO.runFuel, EOff.bound]
  | succ fuel ih =>
    simp only [NQO.runFuel]
    split
    · simp [EOff.bound]
    · next x o hn => exact next_fail T urlOk e quads started s inp x o input hn hd
    · next q rg s1 rest hn =>
      obtain ⟨d1, _, _⟩ := next_quad T urlOk e false quads started s inp q rg s1 rest input _ hn hd rfl
      exact ih true s1 rest d1

/-- Invariant of the decoder object. -/
def DecInv (input : List RP) (cap : Bool) (d : NQO.Dec) : Prop :=
  d.err = none → Disc input d.s d.inp ∧ d.s.doc.isSome = cap

theorem decInv_init (capture : Bool) (inp : List RP) : DecInv inp capture (NQO.Dec.init capture inp) :=
  fun _ => ⟨disc_init capture inp, init_isSome capture⟩

theorem decInv_next (T : Tables) (urlOk : List Nat → Bool) (e : End) (legacy quads : Bool)
    (input : List RP) (cap : Bool) (d : NQO.Dec) (h : DecInv input cap d) :
    DecInv input cap (NQO.Dec.next T urlOk e legacy quads d).1 := by
  unfold NQO.Dec.next
  cases he : d.err with
  | some x => simpa [he] using h
  | none =>
    obtain ⟨hd, hc⟩ := h he
    simp only
    split
    · next q rg s' rest hn =>
      obtain ⟨d1, c1, _⟩ := next_quad T urlOk e legacy quads _ d.s d.inp q rg s' rest input cap hn hd hc
      exact fun _ => ⟨d1, c1⟩
    · next s' hn =>
      exact fun _ => next_done T urlOk e legacy quads _ d.s d.inp s' input cap hn hd hc
    · intro hh; simp at hh

theorem decInv_nextN (T : Tables) (urlOk : List Nat → Bool) (e : End) (legacy quads : Bool)
    (input : List RP) (cap : Bool) (n : Nat) (d : NQO.Dec) (h : DecInv input cap d) :
    DecInv input cap (NQO.Dec.nextN T urlOk e legacy quads n d) := by
  induction n generalizing d with
  | zero => exact h
  | succ n ih => exact ih _ (decInv_next T urlOk e legacy quads input cap d h)

end RdfModel.Proofs.C16
