/-
  Helper lemmas for property C13 — facts about Spec.RFC3986Lite (Appendix-B split of structured
  strings, recomposition, dot-segment removal on plain paths).
-/
import RdfModel.Props.C13Defs
namespace RdfModel.Proofs.C13
open RdfModel.Spec.RFC3986Lite RdfModel.C13

/-! ### upTo / from_ -/

theorem upTo_append_from (stop : Nat → Bool) (s : Str) : upTo stop s ++ from_ stop s = s :=
  List.takeWhile_append_dropWhile

/-- `from_` is empty or starts with a stop character -/
theorem from_head (stop : Nat → Bool) (s : Str) :
    from_ stop s = [] ∨ ∃ c r, from_ stop s = c :: r ∧ stop c = true := by
  induction s with
  | nil => left; rfl
  | cons c cs ih =>
    unfold from_
    rw [List.dropWhile_cons]
    by_cases h : stop c = true
    · right; exact ⟨c, cs, by simp [h], h⟩
    · have : stop c = false := by simpa using h
      simp only [this, Bool.not_false, if_true]
      exact ih

theorem upTo_clean (stop : Nat → Bool) (s : Str) : ∀ c ∈ upTo stop s, stop c = false := by
  induction s with
  | nil => intro c hc; simp [upTo] at hc
  | cons x xs ih =>
    intro c hc
    unfold upTo at hc ih
    rw [List.takeWhile_cons] at hc
    by_cases hx : stop x = true
    · simp [hx] at hc
    · have hx' : stop x = false := by simpa using hx
      simp only [hx', Bool.not_false, if_true] at hc
      rcases List.mem_cons.mp hc with rfl | hc
      · exact hx'
      · exact ih c hc

/-- a stop-free run followed by nothing or a stop character is cut exactly there -/
theorem cut_at (stop : Nat → Bool) (xs ys : Str) (hx : ∀ c ∈ xs, stop c = false)
    (hy : ys = [] ∨ ∃ c r, ys = c :: r ∧ stop c = true) :
    upTo stop (xs ++ ys) = xs ∧ from_ stop (xs ++ ys) = ys := by
  induction xs with
  | nil =>
    rcases hy with rfl | ⟨c, r, rfl, hc⟩
    · exact ⟨rfl, rfl⟩
    · simp [upTo, from_, hc]
  | cons x xs ih =>
    have hx0 : stop x = false := hx x List.mem_cons_self
    have := ih (fun c hc => hx c (List.mem_cons_of_mem _ hc))
    simp only [upTo, from_] at this ⊢
    simp [hx0, this.1, this.2]

theorem upTo_all (stop : Nat → Bool) (xs : Str) (hx : ∀ c ∈ xs, stop c = false) :
    upTo stop xs = xs ∧ from_ stop xs = [] := by
  simpa using cut_at stop xs [] hx (Or.inl rfl)

/-! ### recompose ∘ split = id -/

theorem splitScheme_glue (s : Str) :
    schemePart (splitScheme s).1 ++ (splitScheme s).2 = s := by
  have e := upTo_append_from schemeStop s
  unfold splitScheme
  cases h1 : upTo schemeStop s with
  | nil => simp [schemePart]
  | cons c cs =>
    cases h2 : from_ schemeStop s with
    | nil => simp [schemePart]
    | cons d rest =>
      simp only
      by_cases hd : d = cColon
      · subst hd
        rw [h1, h2] at e
        simpa [schemePart] using e
      · simp [hd, schemePart]

theorem splitAuthority_glue (s : Str) :
    authorityPart (splitAuthority s).1 ++ (splitAuthority s).2 = s := by
  unfold splitAuthority
  match s with
  | [] => simp [authorityPart]
  | [_] => simp [authorityPart]
  | a :: b :: rest =>
    simp only
    by_cases h : a = cSlash ∧ b = cSlash
    · obtain ⟨rfl, rfl⟩ := h
      simpa [authorityPart] using upTo_append_from authStop rest
    · simp [h, authorityPart]

theorem splitQuery_glue (s : Str) :
    queryPart (splitQuery s).1 ++ (splitQuery s).2 = s := by
  unfold splitQuery
  match s with
  | [] => simp [queryPart]
  | a :: rest =>
    simp only
    by_cases h : a = cQuest
    · subst h
      simpa [queryPart] using upTo_append_from queryStop rest
    · simp [h, queryPart]

/-- what remains after the query is empty or starts with `#` -/
theorem splitQuery_rest (s : Str) (hs : s = [] ∨ ∃ c r, s = c :: r ∧ pathStop c = true) :
    (splitQuery s).2 = [] ∨ ∃ r, (splitQuery s).2 = cHash :: r := by
  unfold splitQuery
  rcases hs with rfl | ⟨c, r, rfl, hc⟩
  · left; rfl
  · simp only
    by_cases h : c = cQuest
    · subst h
      simp only [if_true]
      rcases from_head queryStop r with h' | ⟨d, r', h', hd⟩
      · left; exact h'
      · right
        refine ⟨r', ?_⟩
        rw [h']
        simp [queryStop] at hd
        rw [hd]
    · right
      simp only [h, if_false]
      simp [pathStop, h] at hc
      exact ⟨r, by rw [hc]⟩

theorem splitFragment_glue (s : Str) (hs : s = [] ∨ ∃ r, s = cHash :: r) :
    fragmentPart (splitFragment s) = s := by
  rcases hs with rfl | ⟨r, rfl⟩ <;> simp [splitFragment, fragmentPart]

/-- Appendix B is lossless: recomposing the five components gives the string back (every string) -/
theorem recompose_split (s : Str) : recompose (split s) = s := by
  unfold split recompose
  simp only
  have h1 := splitScheme_glue s
  have h2 := splitAuthority_glue (splitScheme s).2
  have h3 := upTo_append_from pathStop (splitAuthority (splitScheme s).2).2
  have h4 := splitQuery_glue (from_ pathStop (splitAuthority (splitScheme s).2).2)
  have h5 := splitFragment_glue _ (splitQuery_rest _ (from_head pathStop (splitAuthority (splitScheme s).2).2))
  rw [h5]
  simp only [List.append_assoc]
  rw [h4, h3, h2, h1]

/-! ### split of structured strings -/

theorem queryPart_head (q : Option Str) (f : Option Str) :
    queryPart q ++ fragmentPart f = [] ∨ ∃ c r, queryPart q ++ fragmentPart f = c :: r ∧ pathStop c = true := by
  cases q with
  | some x => right; exact ⟨cQuest, x ++ fragmentPart f, rfl, by decide⟩
  | none =>
    cases f with
    | some y => right; exact ⟨cHash, y, rfl, by decide⟩
    | none => left; rfl

theorem fragmentPart_head (f : Option Str) :
    fragmentPart f = [] ∨ ∃ c r, fragmentPart f = c :: r ∧ queryStop c = true := by
  cases f with
  | some y => right; exact ⟨cHash, y, rfl, by decide⟩
  | none => left; rfl

/-- path, query and fragment of `path ?query #fragment` -/
theorem split_tail (path : Str) (q f : Option Str)
    (hp : ∀ c ∈ path, pathStop c = false) (hq : ∀ x, q = some x → ∀ c ∈ x, queryStop c = false) :
    upTo pathStop (path ++ queryPart q ++ fragmentPart f) = path ∧
    (splitQuery (from_ pathStop (path ++ queryPart q ++ fragmentPart f))).1 = q ∧
    splitFragment (splitQuery (from_ pathStop (path ++ queryPart q ++ fragmentPart f))).2 = f := by
  have h := cut_at pathStop path (queryPart q ++ fragmentPart f) hp (queryPart_head q f)
  rw [List.append_assoc]
  refine ⟨h.1, ?_⟩
  rw [h.2]
  cases q with
  | some x =>
    have h2 := cut_at queryStop x (fragmentPart f) (hq x rfl) (fragmentPart_head f)
    simp only [queryPart, List.cons_append, splitQuery, if_true, h2.1, h2.2, true_and]
    cases f <;> simp [fragmentPart, splitFragment]
  | none =>
    cases f with
    | some y => simp [queryPart, fragmentPart, splitQuery, splitFragment, cHash, cQuest]
    | none => simp [queryPart, fragmentPart, splitQuery, splitFragment]

theorem splitAuthority_none (s : Str) (h : ∀ t, s ≠ cSlash :: cSlash :: t) : splitAuthority s = (none, s) := by
  unfold splitAuthority
  match s with
  | [] => rfl
  | [_] => rfl
  | a :: b :: rest =>
    simp only
    by_cases hab : a = cSlash ∧ b = cSlash
    · exact absurd (by rw [hab.1, hab.2]) (h rest)
    · simp [hab]

/-- Appendix B on `scheme://authority path ?query #fragment` -/
theorem split_abs (sch auth path : Str) (q f : Option Str)
    (hs : SchemeLike sch) (ha : AuthLike auth)
    (hp0 : path = [] ∨ ∃ t, path = cSlash :: t)
    (hp : ∀ c ∈ path, pathStop c = false) (hq : ∀ x, q = some x → ∀ c ∈ x, queryStop c = false) :
    split (sch ++ cColon :: cSlash :: cSlash :: auth ++ path ++ queryPart q ++ fragmentPart f) =
      ⟨some sch, some auth, path, q, f⟩ := by
  have hsch : ∀ c ∈ sch, schemeStop c = false := by
    intro c hc
    obtain ⟨h1, h2, h3, h4⟩ := hs.2 c hc
    simp [schemeStop, h1, h2, h3, h4]
  have hau : ∀ c ∈ auth, authStop c = false := by
    intro c hc
    obtain ⟨h2, h3, h4⟩ := ha c hc
    simp [authStop, h2, h3, h4]
  have e1 : splitScheme (sch ++ cColon :: cSlash :: cSlash :: auth ++ path ++ queryPart q ++ fragmentPart f)
      = (some sch, cSlash :: cSlash :: auth ++ path ++ queryPart q ++ fragmentPart f) := by
    have := cut_at schemeStop sch (cColon :: cSlash :: cSlash :: auth ++ path ++ queryPart q ++ fragmentPart f) hsch
      (Or.inr ⟨cColon, _, rfl, by decide⟩)
    unfold splitScheme
    simp only [List.append_assoc, List.cons_append] at this ⊢
    rw [this.1, this.2]
    obtain ⟨c, cs, rfl⟩ := List.exists_cons_of_ne_nil hs.1
    simp
  have hrest : path ++ queryPart q ++ fragmentPart f = [] ∨
      ∃ c r, path ++ queryPart q ++ fragmentPart f = c :: r ∧ authStop c = true := by
    rcases hp0 with rfl | ⟨t, rfl⟩
    · rcases queryPart_head q f with h | ⟨c, r, h, hc⟩
      · left; simpa using h
      · right; refine ⟨c, r, by simpa using h, ?_⟩
        simp [pathStop] at hc; rcases hc with rfl | rfl <;> decide
    · right; exact ⟨cSlash, t ++ queryPart q ++ fragmentPart f, by simp, by decide⟩
  have e2 : splitAuthority (cSlash :: cSlash :: auth ++ path ++ queryPart q ++ fragmentPart f)
      = (some auth, path ++ queryPart q ++ fragmentPart f) := by
    have := cut_at authStop auth (path ++ queryPart q ++ fragmentPart f) hau hrest
    simp only [List.append_assoc, List.cons_append] at this ⊢
    simp [splitAuthority, this.1, this.2]
  have e3 := split_tail path q f hp hq
  unfold split
  simp only [e1, e2, e3.1, e3.2.1, e3.2.2]

/-- Appendix B on a relative reference `seg tail ?query #fragment` whose first segment `seg` has no colon -/
theorem split_rel (seg tail : Str) (q f : Option Str)
    (hseg : ∀ c ∈ seg, schemeStop c = false)
    (ht : tail = [] ∨ ∃ t, tail = cSlash :: t)
    (hnet : seg ≠ [] ∨ ∀ t, tail ≠ cSlash :: cSlash :: t)
    (hp : ∀ c ∈ tail, pathStop c = false) (hq : ∀ x, q = some x → ∀ c ∈ x, queryStop c = false) :
    split (seg ++ tail ++ queryPart q ++ fragmentPart f) = ⟨none, none, seg ++ tail, q, f⟩ := by
  have hpath : ∀ c ∈ seg ++ tail, pathStop c = false := by
    intro c hc
    rcases List.mem_append.mp hc with hc | hc
    · have := hseg c hc
      simp [schemeStop] at this
      simp [pathStop, this]
    · exact hp c hc
  -- what follows the first segment is nothing, or one of `/ ? #`
  have hafter : tail ++ queryPart q ++ fragmentPart f = [] ∨
      ∃ c r, tail ++ queryPart q ++ fragmentPart f = c :: r ∧ schemeStop c = true ∧ c ≠ cColon := by
    rcases ht with rfl | ⟨t, rfl⟩
    · rcases queryPart_head q f with h | ⟨c, r, h, hc⟩
      · left; simpa using h
      · right; refine ⟨c, r, by simpa using h, ?_⟩
        simp [pathStop] at hc; rcases hc with rfl | rfl <;> decide
    · right; exact ⟨cSlash, t ++ queryPart q ++ fragmentPart f, by simp, by decide⟩
  have e1 : splitScheme (seg ++ tail ++ queryPart q ++ fragmentPart f)
      = (none, seg ++ tail ++ queryPart q ++ fragmentPart f) := by
    have hcut := cut_at schemeStop seg (tail ++ queryPart q ++ fragmentPart f) hseg
      (by rcases hafter with h | ⟨c, r, h, hc, _⟩
          · left; exact h
          · right; exact ⟨c, r, h, hc⟩)
    unfold splitScheme
    simp only [List.append_assoc] at hcut hafter ⊢
    rw [hcut.1, hcut.2]
    cases seg with
    | nil => rfl
    | cons c cs =>
      rcases hafter with h | ⟨d, r, h, _, hd⟩
      · rw [h]
      · rw [h]; simp [hd]
  have e2 : splitAuthority (seg ++ tail ++ queryPart q ++ fragmentPart f)
      = (none, seg ++ tail ++ queryPart q ++ fragmentPart f) := by
    apply splitAuthority_none
    intro u hu
    cases seg with
    | cons c cs =>
      have hc := hseg c List.mem_cons_self
      simp only [List.cons_append, List.cons.injEq] at hu
      rw [hu.1] at hc
      exact absurd hc (by decide)
    | nil =>
      simp only [List.nil_append] at hu
      rcases ht with rfl | ⟨t, rfl⟩
      · simp only [List.nil_append] at hu
        rcases queryPart_head q f with h | ⟨c, r, h, hc⟩
        · rw [h] at hu; cases hu
        · rw [h] at hu
          simp only [List.cons.injEq] at hu
          rw [hu.1] at hc
          exact absurd hc (by decide)
      · have hn := hnet.resolve_left (by simp)
        cases t with
        | cons x t' =>
          simp only [List.cons_append, List.cons.injEq, true_and] at hu
          exact hn t' (by rw [hu.1])
        | nil =>
          simp only [List.cons_append, List.nil_append, List.cons.injEq, true_and] at hu
          rcases queryPart_head q f with h | ⟨c, r, h, hc⟩
          · rw [h] at hu; cases hu
          · rw [h] at hu
            simp only [List.cons.injEq] at hu
            rw [hu.1] at hc
            exact absurd hc (by decide)
  have e3 := split_tail (seg ++ tail) q f hpath hq
  unfold split
  simp only [e1, e2, e3.1, e3.2.1, e3.2.2]

/-! ### remove_dot_segments on plain paths -/

theorem joinSegs_cons (s : Str) (segs : List Str) : joinSegs (s :: segs) = cSlash :: s ++ joinSegs segs := by
  simp [joinSegs]

theorem joinSegs_append (a b : List Str) : joinSegs (a ++ b) = joinSegs a ++ joinSegs b := by
  simp [joinSegs]

theorem joinSegs_head (segs : List Str) : joinSegs segs = [] ∨ ∃ t, joinSegs segs = cSlash :: t := by
  cases segs with
  | nil => left; rfl
  | cons s r => right; exact ⟨s ++ joinSegs r, by rw [joinSegs_cons]; rfl⟩

theorem joinSegs_length (segs : List Str) : segs.length ≤ (joinSegs segs).length := by
  induction segs with
  | nil => simp
  | cons s r ih => rw [joinSegs_cons]; simp; omega

theorem rdsLoop_nil (n : Nat) (out : Str) : rdsLoop n [] out = out := by
  cases n <;> simp [rdsLoop]

/-- step E applies to a plain segment: it is moved to the output -/
theorem rdsStep_plain (seg rest out : Str) (hseg : PlainSeg seg) (hrest : rest = [] ∨ ∃ t, rest = cSlash :: t) :
    rdsStep (cSlash :: seg ++ rest) out = (rest, out ++ cSlash :: seg) := by
  obtain ⟨hd1, hd2, hch⟩ := hseg
  have hcut := cut_at (fun x => x == cSlash) seg rest
    (by intro c hc; simpa using (hch c hc).1)
    (by rcases hrest with h | ⟨t, h⟩
        · left; exact h
        · right; exact ⟨cSlash, t, h, by simp⟩)
  have hE : firstSegment (cSlash :: seg ++ rest) = (cSlash :: seg, rest) := by
    simp [firstSegment, hcut.1, hcut.2]
  unfold rdsStep
  rw [hE]
  rcases hrest with rfl | ⟨t, rfl⟩
  · match seg, hd1, hd2, hch with
    | [], _, _, _ => simp [List.isPrefixOf, cDot, cSlash]
    | [a], h1, _, h =>
      have ha : a ≠ cDot := fun e => h1 (by rw [e])
      simp [List.isPrefixOf, cDot, cSlash] at ha ⊢
      repeat (first | rfl | omega | (split <;> try (exfalso; omega)))
    | [a, b], _, h2, h =>
      have hb := (h b (by simp)).1
      have hab : ¬ (a = cDot ∧ b = cDot) := fun e => h2 (by rw [e.1, e.2])
      simp [List.isPrefixOf, cDot, cSlash] at hb hab ⊢
      repeat (first | rfl | (split <;> try (exfalso; omega)))
    | a :: b :: c :: r, _, _, h =>
      have hb := (h b (by simp)).1
      have hc := (h c (by simp)).1
      simp [List.isPrefixOf, cDot, cSlash] at hb hc ⊢
      repeat (first | rfl | (split <;> try (exfalso; omega)))
  · match seg, hd1, hd2, hch with
    | [], _, _, _ => simp [List.isPrefixOf, cDot, cSlash]
    | [a], h1, _, h =>
      have ha : a ≠ cDot := fun e => h1 (by rw [e])
      simp [List.isPrefixOf, cDot, cSlash] at ha ⊢
      repeat (first | rfl | omega | (split <;> try (exfalso; omega)))
    | [a, b], _, h2, h =>
      have hb := (h b (by simp)).1
      have hab : ¬ (a = cDot ∧ b = cDot) := fun e => h2 (by rw [e.1, e.2])
      simp [List.isPrefixOf, cDot, cSlash] at hb hab ⊢
      repeat (first | rfl | (split <;> try (exfalso; omega)))
    | a :: b :: c :: r, _, _, h =>
      have hb := (h b (by simp)).1
      have hc := (h c (by simp)).1
      simp [List.isPrefixOf, cDot, cSlash] at hb hc ⊢
      repeat (first | rfl | (split <;> try (exfalso; omega)))

/-- each plain segment costs exactly one iteration of the loop -/
theorem rdsLoop_plain (segs : List Str) (hs : ∀ s ∈ segs, PlainSeg s) (x : Str)
    (hx : x = [] ∨ ∃ t, x = cSlash :: t) (n : Nat) (out : Str) :
    rdsLoop (n + segs.length) (joinSegs segs ++ x) out = rdsLoop n x (out ++ joinSegs segs) := by
  induction segs generalizing out with
  | nil => simp [joinSegs]
  | cons s r ih =>
    have hrest : joinSegs r ++ x = [] ∨ ∃ t, joinSegs r ++ x = cSlash :: t := by
      rcases joinSegs_head r with h | ⟨t, h⟩
      · rw [h]; simpa using hx
      · right; exact ⟨t ++ x, by rw [h]; rfl⟩
    have hstep := rdsStep_plain s (joinSegs r ++ x) out (hs s List.mem_cons_self) hrest
    rw [joinSegs_cons, List.length_cons, ← Nat.add_assoc]
    have e : cSlash :: s ++ joinSegs r ++ x = cSlash :: s ++ (joinSegs r ++ x) := by simp
    rw [e]
    have hne : cSlash :: s ++ (joinSegs r ++ x) ≠ [] := by simp
    rw [show n + r.length + 1 = (n + r.length).succ from rfl, rdsLoop, if_neg hne, hstep]
    simp only
    rw [ih (fun s' h' => hs s' (List.mem_cons_of_mem _ h'))]
    simp

theorem rds_plain (segs : List Str) (hs : ∀ s ∈ segs, PlainSeg s) :
    removeDotSegments (joinSegs segs) = joinSegs segs := by
  unfold removeDotSegments
  have h := rdsLoop_plain segs hs [] (Or.inl rfl) ((joinSegs segs).length - segs.length) []
  have hl := joinSegs_length segs
  rw [Nat.sub_add_cancel hl] at h
  simpa [rdsLoop_nil] using h

/-- the directory of a plain path: `…/dir/` followed by `./` -/
theorem rds_dir (segs : List Str) (hs : ∀ s ∈ segs, PlainSeg s) :
    removeDotSegments (joinSegs segs ++ [cSlash, cDot, cSlash]) = joinSegs segs ++ [cSlash] := by
  unfold removeDotSegments
  have hl := joinSegs_length segs
  have h := rdsLoop_plain segs hs [cSlash, cDot, cSlash] (Or.inr ⟨_, rfl⟩)
    ((joinSegs segs).length - segs.length + 3) []
  have e : (joinSegs segs ++ [cSlash, cDot, cSlash]).length = (joinSegs segs).length - segs.length + 3 + segs.length := by
    simp; omega
  rw [e, h]
  simp only [List.nil_append]
  rw [show (joinSegs segs).length - segs.length + 3 = ((joinSegs segs).length - segs.length + 1) + 1 + 1 from rfl]
  generalize (joinSegs segs).length - segs.length + 1 = k
  simp [rdsLoop, rdsStep, List.isPrefixOf, firstSegment, upTo, from_, cSlash, cDot, rdsLoop_nil]

end RdfModel.Proofs.C13
