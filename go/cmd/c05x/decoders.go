package main

// One uniform way to drive every decoder of the repository: build it from (format, options, reader),
// iterate, and evaluate the oracles of C05 (life cycle), C06 (statement shape) on what it yields.

import (
	"context"
	"errors"
	"fmt"
	"io"
	"net/url"
	"os"
	"regexp"
	"runtime"
	"runtime/debug"
	"strings"
	"time"

	"github.com/dpb587/inspectjson-go/inspectjson"
	"github.com/dpb587/rdfkit-go/encoding"
	enchtml "github.com/dpb587/rdfkit-go/encoding/html"
	"github.com/dpb587/rdfkit-go/encoding/html/htmldefaults"
	"github.com/dpb587/rdfkit-go/encoding/htmljsonld"
	"github.com/dpb587/rdfkit-go/encoding/htmlmicrodata"
	"github.com/dpb587/rdfkit-go/encoding/htmlrdfa"
	"github.com/dpb587/rdfkit-go/encoding/jsonld"
	"github.com/dpb587/rdfkit-go/encoding/jsonld/jsonldtype"
	"github.com/dpb587/rdfkit-go/encoding/nquads"
	"github.com/dpb587/rdfkit-go/encoding/ntriples"
	"github.com/dpb587/rdfkit-go/encoding/rdfjson"
	"github.com/dpb587/rdfkit-go/encoding/rdfxml"
	"github.com/dpb587/rdfkit-go/encoding/trig"
	"github.com/dpb587/rdfkit-go/encoding/turtle"
	"github.com/dpb587/rdfkit-go/rdf"
)

// Formats. The first five have a Lean model elsewhere in /verif and are run here as a cross-check only.
var allFormats = []string{"nt", "nq", "ttl", "trig", "rdfjson", "rdfxml", "jsonld", "rdfa", "microdata", "htmljsonld", "html"}
var modelled = map[string]bool{"nt": true, "nq": true, "ttl": true, "trig": true, "rdfjson": true}
var streaming = map[string]bool{"nt": true, "nq": true, "ttl": true, "trig": true}
var htmlFamily = map[string]bool{"rdfa": true, "microdata": true, "htmljsonld": true, "html": true}

const baseIRI = "http://base.example/dir/doc"

// Opts: the decoder configuration dimensions of the property's quantifier.
type Opts struct {
	Offsets bool   // text offset capture
	Base    bool   // base IRI / document location given
	Lax     bool   // lax JSON tokenizer (rdfjson, jsonld, htmljsonld)
	Mode    string // JSON-LD processing mode: "", "json-ld-1.0", "json-ld-1.1"
	Dir     string // JSON-LD rdfDirection: "", "i18n-datatype", "compound-literal"
	Loader  bool   // JSON-LD document loader serving the test-suite contexts (else nil)
	Profile int    // RDFa: 0 unspecified, 1 disabled, 2 active HTML processing
}

func (o Opts) String() string {
	return fmt.Sprintf("off=%s base=%s lax=%s mode=%q dir=%q loader=%s profile=%d", b01(o.Offsets), b01(o.Base), b01(o.Lax), o.Mode, o.Dir, b01(o.Loader), o.Profile)
}

func b01(b bool) string {
	if b {
		return "1"
	}
	return "0"
}

// PanicInfo is the class key of a recovered panic: first frame inside the repository (function
// name, never a line number) and the kind of panic.
type PanicInfo struct {
	Func  string // e.g. encoding/jsonld.(*Decoder).decodeElement
	Kind  string // type-assertion | nil-deref | index | slice-bounds | explicit:<msg> | other
	Value string
}

func (p PanicInfo) Class(format string) string { return format + "|" + p.Func + "|" + p.Kind }

const repoMod = "github.com/dpb587/rdfkit-go/"

var reDigits = regexp.MustCompile(`[0-9]+`)

func classifyPanic(v any) PanicInfo {
	pi := PanicInfo{Value: fmt.Sprint(v), Func: "(no repository frame)"}
	msg := pi.Value
	switch {
	case strings.Contains(msg, "interface conversion"):
		pi.Kind = "type-assertion"
	case strings.Contains(msg, "nil pointer dereference"):
		pi.Kind = "nil-deref"
	case strings.Contains(msg, "index out of range"):
		pi.Kind = "index"
	case strings.Contains(msg, "slice bounds out of range"):
		pi.Kind = "slice-bounds"
	case strings.Contains(msg, "assignment to entry in nil map"):
		pi.Kind = "nil-map"
	default:
		if _, isRuntime := v.(runtime.Error); isRuntime {
			pi.Kind = "other"
		} else {
			m := msg
			if i := strings.IndexAny(m, ":<"); i > 0 { // keep the fixed part of an explicit panic("...: %v")
				m = m[:i]
			}
			if len(m) > 40 {
				m = m[:40]
			}
			pi.Kind = "explicit:" + strings.TrimSpace(reDigits.ReplaceAllString(m, "N"))
		}
	}
	pcs := make([]uintptr, 64)
	n := runtime.Callers(3, pcs)
	frames := runtime.CallersFrames(pcs[:n])
	seenPanic := false
	for {
		f, more := frames.Next()
		if strings.HasPrefix(f.Function, "runtime.") {
			if f.Function == "runtime.gopanic" || strings.HasPrefix(f.Function, "runtime.panic") || f.Function == "runtime.sigpanic" || strings.HasPrefix(f.Function, "runtime.goPanic") {
				seenPanic = true
			}
		} else if seenPanic && strings.HasPrefix(f.Function, repoMod) {
			pi.Func = strings.TrimPrefix(f.Function, repoMod)
			if os.Getenv("C05X_LINES") != "" { // development aid: split classes by line
				pi.Func += fmt.Sprintf(":%d", f.Line)
			}
			break
		}
		if !more {
			break
		}
	}
	return pi
}

// Outcome of one decoder run.
type Outcome struct {
	Stmts    []string // canonical statements (blank nodes renumbered by first occurrence)
	Verdict  string   // clean | error | panic | hang
	Err      string
	Panic    *PanicInfo
	Life     []string // C05 life-cycle oracle failures (sticky Next, stable Err, Close, accessors)
	WF       []string // C06 well-formedness failures
	Elapsed  time.Duration
	ErrIsInj bool
}

type iterator interface {
	Next() bool
	Err() error
	Close() error
	Statement() rdf.Statement
}

var loaderDocs map[string][]byte // URL -> bytes, filled by the corpus loader

func docLoader() jsonldtype.DocumentLoader {
	return jsonldtype.DocumentLoaderFunc(func(ctx context.Context, u string, opts jsonldtype.DocumentLoaderOptions) (jsonldtype.RemoteDocument, error) {
		b, ok := loaderDocs[u]
		if !ok {
			return jsonldtype.RemoteDocument{}, fmt.Errorf("unknown url: %s", u)
		}
		doc, err := inspectjson.Parse(strings.NewReader(string(b)))
		if err != nil {
			return jsonldtype.RemoteDocument{}, fmt.Errorf("parse: %v", err)
		}
		du, err := url.Parse(u)
		if err != nil {
			return jsonldtype.RemoteDocument{}, err
		}
		return jsonldtype.RemoteDocument{ContentType: "application/ld+json", Document: doc, DocumentURL: du}, nil
	})
}

func jsonldConfig(o Opts) jsonld.DecoderConfig {
	c := jsonld.DecoderConfig{}
	if o.Offsets {
		c = c.SetCaptureTextOffsets(true)
	}
	if o.Base {
		c = c.SetDefaultBase(baseIRI)
	}
	if o.Lax {
		c = c.SetParserOptions(inspectjson.TokenizerConfig{}.SetLax(true))
	}
	if o.Mode != "" {
		c = c.SetProcessingMode(o.Mode)
	}
	if o.Dir != "" {
		c = c.SetRDFDirection(o.Dir)
	}
	if o.Loader {
		c = c.SetDocumentLoader(docLoader())
	}
	return c
}

// build constructs the decoder from freshly built option values. An error here (constructor or HTML
// document parse) is a verdict "error" of the run.
func build(format string, o Opts, r io.Reader) (iterator, error) {
	return newMaker(format, o, "")(r)
}

// maker: option values (and, for the reuse variants, a factory / registry) built ONCE; every call
// constructs one more decoder from them (reuse.go).
type maker func(r io.Reader) (iterator, error)

// newMaker builds the option values of (format, o) and returns the constructor closure. variant ""
// is the plain configuration of the single-run families; the reuse variants ("opts", "opts+bn",
// "factory", see reuse.go) additionally pass every setter that takes a mutable argument.
func newMaker(format string, o Opts, variant string) maker {
	x := reuseExtras(format, variant)
	switch format {
	case "nt":
		c := ntriples.DecoderConfig{}
		if o.Offsets {
			c = c.SetCaptureTextOffsets(true)
		}
		if x.bn != nil {
			c = c.SetBlankNodeStringFactory(x.bn)
		}
		if x.registry {
			return registryMaker(format, o, func(in any) (any, error) { return append(in.([]ntriples.DecoderOption), c), nil })
		}
		return func(r io.Reader) (iterator, error) { return ntriples.NewDecoder(r, c) }
	case "nq":
		c := nquads.DecoderConfig{}
		if o.Offsets {
			c = c.SetCaptureTextOffsets(true)
		}
		if x.bn != nil {
			c = c.SetBlankNodeStringFactory(x.bn)
		}
		if x.registry {
			return registryMaker(format, o, func(in any) (any, error) { return append(in.([]nquads.DecoderOption), c), nil })
		}
		return func(r io.Reader) (iterator, error) { return nquads.NewDecoder(r, c) }
	case "ttl":
		c := turtle.DecoderConfig{}
		if o.Offsets {
			c = c.SetCaptureTextOffsets(true)
		}
		if o.Base {
			c = c.SetDefaultBase(baseIRI)
		}
		if x.prefixes != nil {
			c = c.SetDefaultPrefixes(x.prefixes)
		}
		if x.bn != nil {
			c = c.SetBlankNodeStringFactory(x.bn)
		}
		if x.registry {
			return registryMaker(format, o, func(in any) (any, error) { return append(in.([]turtle.DecoderOption), c), nil })
		}
		if x.factory {
			f := turtle.NewFactory(turtle.FactoryOptions{DecoderOptions: []turtle.DecoderOption{c}})
			return func(r io.Reader) (iterator, error) {
				d, err := f.NewDecoder(r)
				if err != nil {
					return nil, err
				}
				return d, nil
			}
		}
		return func(r io.Reader) (iterator, error) { return turtle.NewDecoder(r, c) }
	case "trig":
		c := trig.DecoderConfig{}
		if o.Offsets {
			c = c.SetCaptureTextOffsets(true)
		}
		if o.Base {
			c = c.SetDefaultBase(baseIRI)
		}
		if x.prefixes != nil {
			c = c.SetDefaultPrefixes(x.prefixes)
		}
		if x.bn != nil {
			c = c.SetBlankNodeStringFactory(x.bn)
		}
		if x.registry {
			return registryMaker(format, o, func(in any) (any, error) { return append(in.([]trig.DecoderOption), c), nil })
		}
		return func(r io.Reader) (iterator, error) { return trig.NewDecoder(r, c) }
	case "rdfjson":
		c := rdfjson.DecoderConfig{}
		if o.Offsets {
			c = c.SetCaptureTextOffsets(true)
		}
		if o.Lax {
			c = c.SetTokenizerOptions(inspectjson.TokenizerConfig{}.SetLax(true))
		}
		if x.bn != nil {
			c = c.SetBlankNodeStringFactory(x.bn)
		}
		if x.registry {
			return registryMaker(format, o, func(in any) (any, error) { return append(in.([]rdfjson.DecoderOption), c), nil })
		}
		return func(r io.Reader) (iterator, error) { return rdfjson.NewDecoder(r, c) }
	case "rdfxml":
		c := rdfxml.DecoderConfig{}
		if o.Offsets {
			c = c.SetCaptureTextOffsets(true)
		}
		if o.Base {
			c = c.SetDefaultBase(baseIRI)
		}
		if x.bn != nil {
			c = c.SetBlankNodeStringFactory(x.bn)
		}
		if x.registry {
			return registryMaker(format, o, func(in any) (any, error) { return append(in.([]rdfxml.DecoderOption), c), nil })
		}
		return func(r io.Reader) (iterator, error) { return rdfxml.NewDecoder(r, c) }
	case "jsonld":
		c := jsonldConfig(o)
		if x.expandContext != nil {
			c = c.SetExpandContext(x.expandContext)
		}
		if x.bn != nil {
			c = c.SetBlankNodeStringFactory(x.bn)
		}
		if x.registry {
			return registryMaker(format, o, func(in any) (any, error) { return append(in.([]jsonld.DecoderOption), c), nil })
		}
		return func(r io.Reader) (iterator, error) { return jsonld.NewDecoder(r, c) }
	case "html":
		c := htmldefaults.DecoderConfig{}
		if o.Offsets {
			c = c.SetCaptureTextOffsets(true)
		}
		if o.Base {
			c = c.SetLocation(baseIRI)
		}
		if o.Loader {
			c = c.SetDocumentLoaderJSONLD(docLoader())
		}
		if x.registry {
			return registryMaker(format, o, func(in any) (any, error) { return append(in.([]htmldefaults.DecoderOption), c), nil })
		}
		return func(r io.Reader) (iterator, error) { return htmldefaults.NewDecoder(r, c) }
	case "rdfa", "microdata", "htmljsonld":
		dc := enchtml.DocumentConfig{}
		if o.Offsets {
			dc = dc.SetCaptureTextOffsets(true)
		}
		if o.Base {
			dc = dc.SetLocation(baseIRI)
		}
		var fromDoc func(doc *enchtml.Document) (iterator, error)
		switch format {
		case "rdfa":
			c := htmlrdfa.DecoderConfig{}
			if o.Profile != 0 {
				c = c.SetHtmlProcessingProfile(htmlrdfa.HtmlProcessingProfile(o.Profile))
			}
			if x.prefixes != nil {
				c = c.SetDefaultPrefixes(x.prefixes)
			}
			if x.bn != nil {
				c = c.SetBlankNodeStringFactory(x.bn)
			}
			fromDoc = func(doc *enchtml.Document) (iterator, error) { return htmlrdfa.NewDecoder(doc, c) }
		case "microdata":
			c := htmlmicrodata.DecoderConfig{}
			if o.Lax {
				c = c.SetLaxContentAttribute(true, nil)
			}
			if o.Profile == 2 {
				c = c.SetVocabularyResolver(htmlmicrodata.ItemtypeVocabularyResolver)
			}
			fromDoc = func(doc *enchtml.Document) (iterator, error) { return htmlmicrodata.NewDecoder(doc, c) }
		default:
			c := htmljsonld.DecoderConfig{}
			if o.Lax {
				c = c.SetParserOptions(inspectjson.TokenizerConfig{}.SetLax(true))
			}
			jo := o
			jo.Lax, jo.Base, jo.Offsets = false, false, false // those are set by the HTML wrapper itself
			jc := jsonldConfig(jo)
			if x.expandContext != nil {
				jc = jc.SetExpandContext(x.expandContext)
			}
			if x.bn != nil {
				jc = jc.SetBlankNodeStringFactory(x.bn)
			}
			c = c.SetDecoderOptions(jc)
			fromDoc = func(doc *enchtml.Document) (iterator, error) { return htmljsonld.NewDecoder(doc, c) }
		}
		return func(r io.Reader) (iterator, error) {
			doc, err := enchtml.ParseDocument(r, dc)
			if err != nil {
				return nil, err
			}
			return fromDoc(doc)
		}
	}
	return func(io.Reader) (iterator, error) { return nil, fmt.Errorf("unknown format %q", format) }
}

// ---------------------------------------------------------------- canonical statements, C06 oracle

type bnNumbering struct {
	m map[rdf.BlankNodeIdentifier]int
}

func (b *bnNumbering) label(n rdf.BlankNode) string {
	if n.Identifier == nil {
		return "NILID"
	}
	if b.m == nil {
		b.m = map[rdf.BlankNodeIdentifier]int{}
	}
	i, ok := b.m[n.Identifier]
	if !ok {
		i = len(b.m)
		b.m[n.Identifier] = i
	}
	return fmt.Sprintf("b%d", i)
}

func termCanon(t rdf.Term, bn *bnNumbering) string {
	switch v := t.(type) {
	case nil:
		return "NIL"
	case rdf.IRI:
		return "<" + string(v) + ">"
	case rdf.BlankNode:
		return "_:" + bn.label(v)
	case rdf.Literal:
		s := fmt.Sprintf("%q^^<%s>", v.LexicalForm, string(v.Datatype))
		switch tag := v.Tag.(type) {
		case nil:
		case rdf.LanguageLiteralTag:
			s += "@" + tag.Language
		case rdf.DirectionalLanguageLiteralTag:
			s += "@" + tag.Language + "--" + tag.BaseDirection
		default:
			s += fmt.Sprintf("@?%T", tag)
		}
		return s
	}
	return fmt.Sprintf("?%T", t)
}

func stmtParts(st rdf.Statement) (s, p, o, g rdf.Term, isQuad bool) {
	switch v := st.(type) {
	case rdf.Triple:
		return asTerm(v.Subject), asTerm(v.Predicate), asTerm(v.Object), nil, false
	case rdf.Quad:
		return asTerm(v.Triple.Subject), asTerm(v.Triple.Predicate), asTerm(v.Triple.Object), asTerm(v.GraphName), true
	}
	return nil, nil, nil, nil, false
}

// asTerm converts the closed position interfaces to rdf.Term keeping nil as nil.
func asTerm(v any) rdf.Term {
	if v == nil {
		return nil
	}
	t, _ := v.(rdf.Term)
	return t
}

const (
	rdfLangString    = "http://www.w3.org/1999/02/22-rdf-syntax-ns#langString"
	rdfDirLangString = "http://www.w3.org/1999/02/22-rdf-syntax-ns#dirLangString"
)

var reScheme = regexp.MustCompile(`^[A-Za-z][A-Za-z0-9+.\-]*:`)

// wfStatement is the C06 oracle: returns the list of shape defects of one yielded statement.
func wfStatement(st rdf.Statement, mustAbs, strictDatatype bool) []string {
	var bad []string
	if st == nil {
		return []string{"statement-nil"}
	}
	s, p, o, g, _ := stmtParts(st)
	abs := func(pos string, i rdf.IRI) {
		if mustAbs && !reScheme.MatchString(string(i)) {
			bad = append(bad, pos+"-relative-iri")
		}
	}
	bnode := func(pos string, b rdf.BlankNode) {
		if b.Identifier == nil {
			bad = append(bad, pos+"-bnode-without-identity")
		}
	}
	switch v := s.(type) {
	case nil:
		bad = append(bad, "subject-nil")
	case rdf.IRI:
		abs("subject", v)
	case rdf.BlankNode:
		bnode("subject", v)
	default:
		bad = append(bad, fmt.Sprintf("subject-kind-%T", v))
	}
	switch v := p.(type) {
	case nil:
		bad = append(bad, "predicate-nil")
	case rdf.IRI:
		abs("predicate", v)
	default:
		bad = append(bad, fmt.Sprintf("predicate-kind-%T", v))
	}
	switch v := o.(type) {
	case nil:
		bad = append(bad, "object-nil")
	case rdf.IRI:
		abs("object", v)
	case rdf.BlankNode:
		bnode("object", v)
	case rdf.Literal:
		if v.Datatype == "" {
			// without a base IRI the relative reference <> (rdf:datatype="") legitimately yields the empty IRI
			if mustAbs || strictDatatype {
				bad = append(bad, "literal-without-datatype")
			}
		} else {
			abs("datatype", v.Datatype)
		}
		switch tag := v.Tag.(type) {
		case nil:
			if v.Datatype == rdfLangString {
				bad = append(bad, "langString-without-tag")
			}
			if v.Datatype == rdfDirLangString {
				bad = append(bad, "dirLangString-without-tag")
			}
		case rdf.LanguageLiteralTag:
			if v.Datatype != rdfLangString {
				bad = append(bad, "language-tag-on-non-langString")
			}
			if tag.Language == "" {
				bad = append(bad, "empty-language-tag")
			}
		case rdf.DirectionalLanguageLiteralTag:
			if v.Datatype != rdfDirLangString {
				bad = append(bad, "directional-tag-on-non-dirLangString")
			}
			if tag.BaseDirection == "" {
				bad = append(bad, "empty-base-direction")
			}
			if tag.Language == "" {
				bad = append(bad, "empty-language-in-directional-tag")
			}
		default:
			bad = append(bad, fmt.Sprintf("literal-tag-kind-%T", tag))
		}
	default:
		bad = append(bad, fmt.Sprintf("object-kind-%T", v))
	}
	switch v := g.(type) {
	case nil:
	case rdf.IRI:
		abs("graph", v)
	case rdf.BlankNode:
		bnode("graph", v)
	default:
		bad = append(bad, fmt.Sprintf("graph-kind-%T", v))
	}
	return bad
}

func stmtCanon(st rdf.Statement, bn *bnNumbering) string {
	s, p, o, g, isQuad := stmtParts(st)
	out := termCanon(s, bn) + " " + termCanon(p, bn) + " " + termCanon(o, bn)
	if isQuad && g != nil {
		out += " " + termCanon(g, bn)
	}
	return out
}

// ---------------------------------------------------------------- one run

// touchAccessors calls every statement accessor the decoder offers (C05: usable after Next == true).
func touchAccessors(d iterator) {
	if t, ok := d.(interface{ Triple() rdf.Triple }); ok {
		_ = t.Triple()
	}
	if q, ok := d.(interface{ Quad() rdf.Quad }); ok {
		_ = q.Quad()
	}
	if p, ok := d.(encoding.StatementTextOffsetsProvider); ok {
		for _, r := range p.StatementTextOffsets() {
			_ = r.From.Byte
		}
	}
}

// a decoder yielding more than 200000 + 8·|input| statements is reported as unbounded output
func maxStmts(n int) int { return 200000 + 8*n }

func sameErr(a, b error) bool {
	if a == nil || b == nil {
		return a == nil && b == nil
	}
	return a.Error() == b.Error()
}

// runDecoder drives one decoder over r under recover and evaluates the in-run oracles.
func runDecoder(format string, o Opts, r io.Reader) (out Outcome) {
	return runDecoderWith(nil, format, o, r)
}

// runDecoderWith: the decoder is constructed by m (option values built earlier and possibly used
// before: reuse.go); nil = freshly built plain option values.
func runDecoderWith(m maker, format string, o Opts, r io.Reader) (out Outcome) {
	t0 := time.Now()
	defer func() {
		out.Elapsed = time.Since(t0)
		if p := recover(); p != nil {
			pi := classifyPanic(p)
			if os.Getenv("C05X_STACK") != "" {
				fmt.Fprintf(realStderr, "panic: %v\n%s\n", p, debug.Stack())
			}
			out.Panic = &pi
			out.Verdict = "panic"
		}
	}()
	if m == nil {
		m = newMaker(format, o, "")
	}
	d, err := m(r)
	if err != nil {
		out.Verdict, out.Err = "error", "new: "+err.Error()
		out.ErrIsInj = errors.Is(err, errInjected) || strings.Contains(err.Error(), errInjected.Error())
		return
	}
	if d == nil {
		out.Life = append(out.Life, "constructor-returned-nil-without-error")
		out.Verdict = "error"
		return
	}
	mustAbs := format == "nt" || format == "nq" || ((format == "ttl" || format == "trig") && o.Base)
	bn := &bnNumbering{}
	wfSeen := map[string]bool{}
	for d.Next() {
		st := d.Statement()
		touchAccessors(d)
		for _, w := range wfStatement(st, mustAbs, o.Base || format == "rdfjson") {
			if !wfSeen[w] {
				wfSeen[w] = true
				out.WF = append(out.WF, w+" in "+stmtCanon(st, bn))
			}
		}
		out.Stmts = append(out.Stmts, stmtCanon(st, bn))
		if len(out.Stmts) > maxStmts(inputLen(r)) {
			out.Life = append(out.Life, "unbounded-output")
			d.Close()
			out.Verdict = "clean"
			return
		}
	}
	e0 := d.Err()
	for i := 0; i < 3; i++ {
		if d.Next() {
			out.Life = append(out.Life, "next-true-after-false")
			break
		}
		if e := d.Err(); !sameErr(e, e0) {
			out.Life = append(out.Life, fmt.Sprintf("err-unstable-after-end: %q then %q", fmt.Sprint(e0), fmt.Sprint(e)))
			break
		}
	}
	if cerr := d.Close(); cerr != nil {
		out.Life = append(out.Life, "close-error: "+cerr.Error())
	}
	if e := d.Err(); !sameErr(e, e0) {
		out.Life = append(out.Life, "err-changed-by-close")
	}
	if e0 != nil {
		out.Verdict, out.Err = "error", e0.Error()
		out.ErrIsInj = errors.Is(e0, errInjected) || strings.Contains(e0.Error(), errInjected.Error())
	} else {
		out.Verdict = "clean"
	}
	return
}

func inputLen(r io.Reader) int {
	if sr, ok := r.(*schedReader); ok {
		return len(sr.b)
	}
	return 0
}
