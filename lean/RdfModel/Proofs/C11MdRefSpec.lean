/-
  Proofs/C11MdRefSpec — Spec side of the itemref refinement (part C11MD), fragment "PLAIN TARGETS": every itemref
  token names no element, or names an element whose subtree contains neither an item nor an itemref.  Streaming
  semantics `swR` (at an item: link statements, rdf:type statements, then — in token order — the properties found in
  the referenced subtrees, then the children) is a permutation of `Spec.Microdata.denote`.
-/
import RdfModel.Proofs.C11MdStream
set_option linter.unusedSimpArgs false
set_option linter.unusedSectionVars false
namespace RdfModel.Mdd.Ref
open RdfModel RdfModel.Desc RdfModel.Spec.Html RdfModel.Spec.Microdata RdfModel.Mdd RdfModel.Mdd.Typed RdfModel.Mdd.Stream

def refsOf (a : Attrs) : List Str := match a.itemref with | some v => Spec.Html.fields v | none => []

mutual
/-- neither an item nor an itemref anywhere in the subtree -/
def plain : Tree → Bool
  | .text _ => true
  | .elem _ a ks => !a.itemscope && a.itemref.isNone && plainKids ks
def plainKids : List Tree → Bool
  | [] => true
  | k :: ks => plain k && plainKids ks
end

/-- the element named by an itemref token, if any -/
def target (doc : Tree) (id : Str) : Option (Path × Tree) :=
  match findIdNode id [] doc with
  | some q => (match nodeAt doc q with | some t => some (q, t) | none => none)
  | none => none

/-- the properties an item gets through its itemref tokens, in token order -/
def refProps (base : Str) (doc : Tree) (cur : T × List Str) (ids : List Str) : List Tr :=
  ids.flatMap (fun id => match target doc id with | some qt => propsOf base (some cur) qt.1 qt.2 | none => [])

mutual
/-- every itemref token of every element names nothing or a plain subtree -/
def refsOk (doc : Tree) : Tree → Bool
  | .text _ => true
  | .elem _ a ks =>
    (refsOf a).all (fun id => match target doc id with | some qt => plain qt.2 | none => true) && refsOkKids doc ks
def refsOkKids (doc : Tree) : List Tree → Bool
  | [] => true
  | k :: ks => refsOk doc k && refsOkKids doc ks
end

mutual
/-- streaming semantics with itemref (plain targets) -/
def swR (base : Str) (doc : Tree) (cur : Cur) (here : Path) : Tree → List Tr
  | .text _ => []
  | .elem tag a ks =>
    linkOf base cur here (.elem tag a ks) ++
    (if a.itemscope then
      typeStmts base a here ++ (refProps base doc (subject base a here, typesOf a) (refsOf a) ++
        swRKids base doc (some (subject base a here, typesOf a)) here 0 ks)
    else swRKids base doc cur here 0 ks)
def swRKids (base : Str) (doc : Tree) (cur : Cur) (here : Path) (i : Nat) : List Tree → List Tr
  | [] => []
  | k :: ks => swR base doc cur (here ++ [i]) k ++ swRKids base doc cur here (i + 1) ks
end

mutual
/-- item by item, each item: types, properties below it, properties through itemref -/
def denoteRelR (base : Str) (doc : Tree) (here : Path) : Tree → List Tr
  | .text _ => []
  | .elem _ a ks =>
    (if a.itemscope then
      typeStmts base a here ++ (propsOfKids base (some (subject base a here, typesOf a)) here 0 ks ++
        refProps base doc (subject base a here, typesOf a) (refsOf a))
    else []) ++ denoteRelRKids base doc here 0 ks
def denoteRelRKids (base : Str) (doc : Tree) (here : Path) (i : Nat) : List Tree → List Tr
  | [] => []
  | k :: ks => denoteRelR base doc (here ++ [i]) k ++ denoteRelRKids base doc here (i + 1) ks
end

mutual
theorem swR_perm (base : Str) (doc : Tree) : ∀ (t : Tree) (cur : Cur) (here : Path),
    (swR base doc cur here t).Perm (propsOf base cur here t ++ denoteRelR base doc here t)
  | .text _, _, _ => by simp [swR, propsOf, denoteRelR]
  | .elem tag a ks, cur, here => by
    simp only [swR, propsOf, denoteRelR]
    by_cases h : a.itemscope = true
    · simp only [h, ↓reduceIte, List.append_nil, List.append_assoc]
      apply List.Perm.append_left
      apply List.Perm.append_left
      have ih := swRKids_perm base doc ks (some (subject base a here, typesOf a)) here 0
      refine (List.Perm.append_left _ ih).trans ?_
      rw [← List.append_assoc, ← List.append_assoc]
      exact List.Perm.append_right _ List.perm_append_comm
    · simp only [h, Bool.false_eq_true, ↓reduceIte, List.nil_append, List.append_assoc]
      apply List.Perm.append_left
      exact swRKids_perm base doc ks cur here 0
theorem swRKids_perm (base : Str) (doc : Tree) : ∀ (ks : List Tree) (cur : Cur) (here : Path) (i : Nat),
    (swRKids base doc cur here i ks).Perm (propsOfKids base cur here i ks ++ denoteRelRKids base doc here i ks)
  | [], _, _, _ => by simp [swRKids, propsOfKids, denoteRelRKids]
  | k :: ks, cur, here, i => by
    simp only [swRKids, propsOfKids, denoteRelRKids]
    exact ((swR_perm base doc k cur (here ++ [i])).append (swRKids_perm base doc ks cur here (i + 1))).trans
      (perm_interleave _ _ _ _)
end

/-! ## `denote` with itemref -/

mutual
/-- the property elements of a plain subtree are not items -/
theorem visit_plain (doc : Tree) : ∀ (t : Tree) (here : Path), nodeAt doc here = some t → plain t = true →
    ∀ p ∈ visit here t, ∃ tag a ks, nodeAt doc p = some (.elem tag a ks) ∧ a.itemscope = false
  | .text _, _, _, _ => by simp [visit]
  | .elem tag a ks, here, h, hp => by
    simp only [plain, Bool.and_eq_true, Bool.not_eq_true'] at hp
    intro p hpm
    simp only [visit, List.mem_append] at hpm
    rcases hpm with hpm | hpm
    · split at hpm
      · simp at hpm
      · simp only [List.mem_singleton] at hpm; subst hpm; exact ⟨tag, a, ks, h, hp.1.1⟩
    · simp only [hp.1.1, Bool.false_eq_true, ↓reduceIte] at hpm
      exact visitKids_plain doc ks here 0 (kidsAt_of_node doc here tag a ks h) hp.2 p hpm
theorem visitKids_plain (doc : Tree) : ∀ (ks : List Tree) (here : Path) (i : Nat), KidsAt doc here i ks →
    plainKids ks = true → ∀ p ∈ visitKids here i ks, ∃ tag a ks', nodeAt doc p = some (.elem tag a ks') ∧ a.itemscope = false
  | [], _, _, _, _ => by simp [visitKids]
  | k :: ks, here, i, h, hp => by
    simp only [plainKids, Bool.and_eq_true] at hp
    intro p hpm
    simp only [visitKids, List.mem_append] at hpm
    rcases hpm with hpm | hpm
    · exact visit_plain doc k (here ++ [i]) (kidsAt_head h) hp.1 p hpm
    · exact visitKids_plain doc ks here (i + 1) (kidsAt_tail h) hp.2 p hpm
end

theorem target_node (doc : Tree) (id : Str) (q : Path) (t : Tree) (h : target doc id = some (q, t)) :
    findIdNode id [] doc = some q ∧ nodeAt doc q = some t := by
  unfold target at h
  split at h
  · rename_i q' hq
    split at h
    · rename_i t' ht
      simp only [Option.some.injEq, Prod.mk.injEq] at h
      obtain ⟨rfl, rfl⟩ := h
      exact ⟨hq, ht⟩
    · cases h
  · cases h

theorem itemTriples_relR (base : Str) (doc : Tree) (here : Path) (tag : Tag) (a : Attrs) (ks : List Tree)
    (hnode : nodeAt doc here = some (.elem tag a ks)) (hs : a.itemscope = true)
    (hrefs : ∀ id ∈ refsOf a, ∀ qt, target doc id = some qt → plain qt.2 = true) :
    itemTriples base doc here =
      typeStmts base a here ++ (propsOfKids base (some (subject base a here, typesOf a)) here 0 ks ++
        refProps base doc (subject base a here, typesOf a) (refsOf a)) := by
  -- the paths reached through itemref
  let viaRef : List Path := (refsOf a).flatMap (fun id =>
      match findIdNode id [] doc with
      | some q => (match nodeAt doc q with | some t => visit q t | none => [])
      | none => [])
  have hvia : ∀ p ∈ viaRef, p ≠ here := by
    intro p hp hEq
    simp only [viaRef, List.mem_flatMap] at hp
    obtain ⟨id, hid, hp⟩ := hp
    split at hp
    · rename_i q hq
      split at hp
      · rename_i t ht
        have htar : target doc id = some (q, t) := by simp [target, hq, ht]
        obtain ⟨tg, a', ks', hn, hs'⟩ := visit_plain doc t q ht (hrefs id hid _ htar) p hp
        rw [hEq, hnode] at hn
        simp only [Option.some.injEq, Tree.elem.injEq] at hn
        rw [← hn.2.1, hs] at hs'
        cases hs'
      · simp at hp
    · simp at hp
  have hfilter : (visitKids here 0 ks ++ viaRef).filter (fun q => q != here) = visitKids here 0 ks ++ viaRef := by
    apply List.filter_eq_self.mpr
    intro q hq
    simp only [bne_iff_ne, ne_eq]
    rcases List.mem_append.mp hq with hq | hq
    · have := visitKids_len ks here 0 q hq
      intro h; subst h; omega
    · exact hvia q hq
  have hk := visitKids_props base doc (subject base a here, typesOf a) ks here 0 (kidsAt_of_node doc here tag a ks hnode)
  have hr : viaRef.flatMap (propF base doc (subject base a here, typesOf a)) =
      refProps base doc (subject base a here, typesOf a) (refsOf a) := by
    simp only [viaRef, refProps, List.flatMap_assoc]
    apply flatMap_congr'
    intro id _
    unfold target
    split
    · rename_i q hq
      split
      · rename_i t ht
        exact visit_props base doc _ t q ht
      · simp
    · simp
  have hprops : props doc here = (visitKids here 0 ks ++ viaRef).filter (fun q => q != here) := by
    simp only [props, hnode, viaRef, refsOf]
    rfl
  simp only [itemTriples, hnode]
  rw [hprops, hfilter, List.flatMap_append]
  rw [← hk, ← hr]
  rfl

mutual
theorem items_relR (base : Str) (doc : Tree) : ∀ (t : Tree) (here : Path), nodeAt doc here = some t →
    refsOk doc t = true → (itemsNode here t).flatMap (itemTriples base doc) = denoteRelR base doc here t
  | .text _, _, _, _ => by simp [itemsNode, denoteRelR]
  | .elem tag a ks, here, h, hr => by
    simp only [refsOk, Bool.and_eq_true, List.all_eq_true] at hr
    simp only [itemsNode, denoteRelR, List.flatMap_append]
    congr 1
    · split
      · rename_i hs
        have := itemTriples_relR base doc here tag a ks h hs (by
          intro id hid qt hqt
          have := hr.1 id hid
          rw [hqt] at this
          exact this)
        simp [this]
      · rfl
    · exact itemsKids_relR base doc ks here 0 (kidsAt_of_node doc here tag a ks h) hr.2
theorem itemsKids_relR (base : Str) (doc : Tree) : ∀ (ks : List Tree) (here : Path) (i : Nat), KidsAt doc here i ks →
    refsOkKids doc ks = true → (itemsKids here i ks).flatMap (itemTriples base doc) = denoteRelRKids base doc here i ks
  | [], _, _, _, _ => by simp [itemsKids, denoteRelRKids]
  | k :: ks, here, i, h, hr => by
    simp only [refsOkKids, Bool.and_eq_true] at hr
    simp only [itemsKids, denoteRelRKids, List.flatMap_append]
    rw [items_relR base doc k (here ++ [i]) (kidsAt_head h) hr.1, itemsKids_relR base doc ks here (i + 1) (kidsAt_tail h) hr.2]
end

/-- documents whose itemref tokens name plain subtrees: streaming order is a permutation of the denotation -/
theorem swR_perm_denote (base : Str) (doc : Tree) (h : refsOk doc doc = true) :
    (swR base doc none [] doc).Perm (denote base doc) := by
  have h1 := swR_perm base doc doc none []
  rw [propsOf_none, List.nil_append] at h1
  have h2 : denote base doc = denoteRelR base doc [] doc := items_relR base doc doc [] (nodeAt_nil doc) h
  rw [h2]; exact h1

end RdfModel.Mdd.Ref
