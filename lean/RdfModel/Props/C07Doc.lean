/-
  C07 at document level — "every Turtle document is TriG": what the document-level development of
  C08 (`Props/C08Doc.lean`) adds to `Props/C07Ttl.lean`.

  `C07.ttl_sub_trig_sim_partial` (Props/C07Ttl.lean) is the simulation for ALL inputs the Turtle run
  accepts, grammatical or not, over abstract token producers with the hypothesis `KwSafe`.
  PROVED here, for the configuration the driver runs:

    * `ttl_sub_trig_real_partial` — the simulation for the REAL token producers and tables of both
      packages (`C05.realCfg`), every resolver, base, prefix table, input and stream ending, and
      every white-space predicate without PN_CHARS runes, `:` and `.` (`SpaceOK`);
      `ttl_sub_trig_unicode_partial` instantiates it with Go's `unicode.IsSpace` minus U+1680 (the
      regenerated table), i.e. the driver's configuration except for that one rune — the exception
      is finding C07-graph-ogham (`C07.finding_graph_ogham`);
    * `gen_tables_eq` — the regenerated Turtle and TriG tables are the same `Tables` value, so the
      two packages are run with the same token producers and character classes;
    * `ttl_sub_trig_grammatical_partial` — for every well-formed Turtle document (any nesting, every
      lexical and layout choice of the printer of `Spec/TurtleAbstract.lean`, default base present
      or absent; minus the three findings of C08) the Turtle run and the TriG run on the SAME text
      end cleanly with the SAME statements, all in the default graph.  I.e. `ttl_sub_trig`
      restricted to the image of the grammar-directed printer.  What is missing for the full
      statement: inputs outside that image which the Turtle run nevertheless accepts (leniencies
      such as `@prefixex: <x> .` or non-grammar white space), and the three finding classes.

  `C07.nt_sub_ttl` (N-Triples ⊂ Turtle, all documents accepted by `Spec.NQG.accepts`) is not proved
  either.  PROVED here: `nt_encoder_sub_ttl_partial` — for every dataset (well-formed triples, labels
  that are Turtle labels) and every encoder option, the N-Triples text the repository's encoder
  writes (`NQ.encodeDoc`, the model proved to round-trip in C01) is read by the Turtle AND the
  TriG model as exactly the triples the N-Triples model reads from it.  I.e. `nt_sub_ttl` restricted
  to the encoder's own output (one lexical form per term); the text is shown to be `TA.print` of a
  document of plain triples (`Proofs/C07NT.lean`), then `C08.decode_print_partial` applies.  Other
  grammatical N-Triples documents (other escapes, white space, comments) are covered by the Go-side
  oracle only (go/cmd/c05ttl, go/cmd/c08: all four decoders on generated documents and the W3C
  files); the token-level inclusions are in `Props/C07Tokens.lean`.
-/
import RdfModel.Props.C08Doc
import RdfModel.Props.C07Ttl
import RdfModel.Props.C07Tables
import RdfModel.Proofs.C07NT
import RdfModel.Props.C01Tables
namespace RdfModel.C07
open RdfModel RdfModel.TA RdfModel.TtlDoc RdfModel.C08

/-- The regenerated tables of the two packages coincide (T1, `tables_agree`). -/
theorem gen_tables_eq : Gen.turtle = Gen.trig := by
  obtain ⟨⟨h1, _, _⟩, ⟨h2, _, _⟩, ⟨h3, h4, _, _⟩, _⟩ := tables_agree
  simp only [Gen.turtle, Gen.trig, h1, h2, h3, h4]

/-- a document without graph blocks that is well-formed Turtle is well-formed TriG -/
theorem docWf_trig (T : Ttl.Tables) (doc : Doc) (h : docWf T false doc = true) : docWf T true doc = true := by
  simp only [docWf, List.all_eq_true] at h ⊢
  intro b hb
  have := h b hb
  cases b with
  | dir d => simpa [blockWf] using this
  | triples t => simpa [blockWf] using this
  | graph kw g body => simp [blockWf] at this

/-- Every grammatical Turtle document decodes with the TriG decoder to the same triples, all in the
    default graph (model level, both runs on the same printed text). -/
theorem ttl_sub_trig_grammatical_partial (resolve : Option (List Nat) → List Nat → Option (List Nat))
    (base : Option (List Nat)) (pf : List (List Nat × List Nat)) (doc : Doc) (ch : Choices) (qs : List QuadB)
    (hwf : docWf Gen.turtle false doc = true) (hnb : docNoBoolPfx doc = true) (hch : choicesOK ch = true)
    (hd : denote resolve base pf doc = some qs) :
    ∃ ts,
      run (C05.realCfg false resolve (inRanges Gen.unicodeSpace)) .eof base pf (print Gen.turtle doc ch) = (ts, .clean) ∧
      run (C05.realCfg true resolve (inRanges Gen.unicodeSpace)) .eof base pf (print Gen.turtle doc ch) = (ts, .clean) ∧
      sameTriples ts ts := by
  have h1 := decode_print_real false resolve base pf doc ch qs hwf hnb hch hd
  have h2 := decode_print_real true resolve base pf doc ch qs
    (by simp only [if_true]; rw [← gen_tables_eq]; exact docWf_trig _ _ hwf) hnb hch hd
  simp only [Bool.false_eq_true, if_false] at h1
  simp only [if_true] at h2
  rw [← gen_tables_eq] at h2
  refine ⟨_, h1, h2, rfl, ?_⟩
  intro q hq
  have := C06.ttl_default_graph resolve (inRanges Gen.unicodeSpace) .eof base pf (print Gen.turtle doc ch) q
  rw [h1] at this
  exact this hq

/-! ### The simulation for the real producers -/

/-- Go's `unicode.IsSpace` (regenerated) without U+1680 contains no name character, `:` or `.`. -/
theorem spaceOK_unicode_minus_ogham :
    SpaceOK Gen.turtle (fun c => inRanges Gen.unicodeSpace c && c != 0x1680) := by
  intro c hc
  simp only [Bool.and_eq_true, bne_iff_ne, ne_eq] at hc
  obtain ⟨hsp, hne⟩ := hc
  have hns := space_not_solid Gen.turtle Gen.unicodeSpace (by decide)
  have hsolid : solid Gen.turtle c = false := by
    cases h : solid Gen.turtle c with
    | false => rfl
    | true => have := hns c h; rw [hsp] at this; cases this
  simp only [solid, Bool.or_eq_false_iff, Bool.and_eq_false_iff, bne_eq_false_iff_eq, Bool.not_eq_false'] at hsolid
  obtain ⟨h1, h2⟩ := hsolid
  refine ⟨?_, ?_, ?_⟩
  · rintro rfl; rcases h2 with h2 | h2 <;> revert h2 <;> decide
  · rintro rfl; rcases h2 with h2 | h2 <;> revert h2 <;> decide
  · rcases h1 with h1 | h1
    · exact h1
    · exact absurd h1 hne

/-- THE SIMULATION for the real producers and tables of the two packages: for every input, base,
    prefix table, resolver and stream ending, what the Turtle decoder model accepts the TriG decoder
    model accepts with the same statements, all in the default graph. `_partial`: the white-space
    predicate must not contain a PN_CHARS rune (finding C07-graph-ogham: U+1680 in `unicode.IsSpace`). -/
theorem ttl_sub_trig_real_partial (resolve : Option (List Nat) → List Nat → Option (List Nat)) (isSpace : Nat → Bool)
    (hsp : SpaceOK Gen.turtle isSpace) (e : End) (base : Option (List Nat)) (pf : List (List Nat × List Nat))
    (inp : List Nat) (ts : List Stmt)
    (h : run (C05.realCfg false resolve isSpace) e base pf inp = (ts, .clean)) :
    run (C05.realCfg true resolve isSpace) e base pf inp = (ts, .clean) ∧ sameTriples ts ts := by
  obtain ⟨hP, hC, hL⟩ := C05.real_producers_ok Gen.turtle C05.gen_tables_nul.1
  have e1 : C05.realCfg true resolve isSpace = { C05.realCfg false resolve isSpace with trig := true } := by
    simp [C05.realCfg, ← gen_tables_eq]
  obtain ⟨qs, h1, h2⟩ := ttl_sub_trig_sim_partial (C05.realCfg false resolve isSpace) e hP hC hL
    (kwSafe_real false resolve isSpace hsp) base pf inp ts h
  obtain ⟨rfl, h3⟩ := h2
  rw [e1]
  exact ⟨h1, rfl, h3⟩

/-- … in particular for `unicode.IsSpace` minus U+1680. -/
theorem ttl_sub_trig_unicode_partial (resolve : Option (List Nat) → List Nat → Option (List Nat)) (e : End)
    (base : Option (List Nat)) (pf : List (List Nat × List Nat)) (inp : List Nat) (ts : List Stmt)
    (h : run (C05.realCfg false resolve (fun c => inRanges Gen.unicodeSpace c && c != 0x1680)) e base pf inp = (ts, .clean)) :
    run (C05.realCfg true resolve (fun c => inRanges Gen.unicodeSpace c && c != 0x1680)) e base pf inp = (ts, .clean) ∧
      sameTriples ts ts :=
  ttl_sub_trig_real_partial resolve _ spaceOK_unicode_minus_ogham e base pf inp ts h

/-- non-vacuity: a TriG-looking Turtle document (subject `graph:x`) accepted by both runs -/
example :
    run (C05.realCfg false (fun _ r => some r) (fun c => inRanges Gen.unicodeSpace c && c != 0x1680)) .eof none []
      (asc "@prefix graph: <a:> . graph:x a graph:y .") =
      ([⟨some (.iri (asc "a:x")), some (.iri TtlDoc.rdfType), .iri (asc "a:y"), none⟩], .clean) := by
  decide

/-- statement of the Turtle model for a triple of the N-Triples model (labels as labelled nodes) -/
def stmtOfNT (q : Quad (List Nat)) : Stmt := ⟨some (ntTerm q.s), some (ntTerm q.p), ntTerm q.o, none⟩

theorem toStmt_qB {β : Type} (label : β → List Nat) (q : Quad β) :
    toStmt (C07NT.qB label q) = stmtOfNT (Quad.map label (C01.Quad.dropGraph q)) := by
  have ht : ∀ t : Term β, (t.map (fun b => B.lbl (label b))).map toBN = ntTerm (t.map label) := by
    intro t; cases t <;> rfl
  simp [toStmt, C07NT.qB, stmtOfNT, Quad.map, C01.Quad.dropGraph, ht]

/-- The N-Triples encoder's output is read by the Turtle / TriG model as the same triples. -/
theorem nt_encoder_sub_ttl_partial {β : Type} (Tn : NQ.Tables) (hTn : C01.TablesOK Tn) (hGn : C01.TablesGrammar Tn)
    (T : Ttl.Tables) (hT : C02.TablesOK T) (hT2 : TablesOK2 T) (C : Cfg) (hC : CfgOK T C) (ascii : Bool)
    (label : β → List Nat) (hlab : ∀ b, labelWf T (label b) = true) (urlOk : List Nat → Bool)
    (qs : List (Quad β)) (hwf : ∀ q ∈ qs, C01.WFQuad urlOk q) :
    run C .eof none [] (NQ.encodeDoc Tn ascii label false qs) =
      (qs.map (fun q => stmtOfNT (Quad.map label (C01.Quad.dropGraph q))), .clean) := by
  obtain ⟨w1, w2, w3⟩ := C07NT.doc_wf_denote T C.resolve label urlOk hlab qs hwf { base := none, ns := [], next := 0 } rfl
  have hwf' : docWf T C.trig (C07NT.docOf label qs) = true := by
    cases C.trig
    · exact w1
    · exact docWf_trig T _ w1
  have := decode_print_partial T hT hT2 C hC none [] (C07NT.docOf label qs) (C07NT.choicesOf Tn ascii qs)
    (qs.map (C07NT.qB label)) hwf' w2 (C07NT.choicesOK_of Tn ascii qs) (by simp [denote, w3])
  rw [C07NT.print_eq T Tn hTn hGn ascii label urlOk qs hwf] at this
  rw [this]
  simp [toStmt_qB]

/-- … together with C01: the N-Triples model and the Turtle / TriG model agree on that text. -/
theorem nt_encoder_agree_partial {β : Type} (Tn : NQ.Tables) (hTn : C01.TablesOK Tn) (hGn : C01.TablesGrammar Tn)
    (T : Ttl.Tables) (hT : C02.TablesOK T) (hT2 : TablesOK2 T) (C : Cfg) (hC : CfgOK T C) (ascii : Bool)
    (label : β → List Nat) (hl : C01.LabelsOK Tn label) (hlab : ∀ b, labelWf T (label b) = true) (urlOk : List Nat → Bool)
    (qs : List (Quad β)) (hwf : ∀ q ∈ qs, C01.WFQuad urlOk q) :
    ∃ ts, NQ.run Tn urlOk .eof false (NQ.encodeDoc Tn ascii label false qs) = (ts, .clean) ∧
      run C .eof none [] (NQ.encodeDoc Tn ascii label false qs) = (ts.map stmtOfNT, .clean) := by
  refine ⟨_, C01.ntriples_roundtrip Tn hTn urlOk ascii label hl qs hwf, ?_⟩
  rw [nt_encoder_sub_ttl_partial Tn hTn hGn T hT hT2 C hC ascii label hlab urlOk qs hwf]
  simp

/-- … for the tables regenerated from /repo: the N-Triples encoder's output through the Turtle and the
    TriG configuration the driver runs. -/
theorem nt_encoder_sub_ttl_real {β : Type} (trig : Bool) (resolve : Option (List Nat) → List Nat → Option (List Nat))
    (ascii : Bool) (label : β → List Nat) (hlab : ∀ b, labelWf Gen.turtle (label b) = true) (urlOk : List Nat → Bool)
    (qs : List (Quad β)) (hwf : ∀ q ∈ qs, C01.WFQuad urlOk q) :
    run (C05.realCfg trig resolve (inRanges Gen.unicodeSpace)) .eof none [] (NQ.encodeDoc Gen.ntriples ascii label false qs) =
      (qs.map (fun q => stmtOfNT (Quad.map label (C01.Quad.dropGraph q))), .clean) := by
  have hT : C02.TablesOK (if trig then Gen.trig else Gen.turtle) := by cases trig; exact C02.gen_turtle_ok; exact C02.gen_trig_ok
  have hT2 : TablesOK2 (if trig then Gen.trig else Gen.turtle) := by cases trig; exact gen_turtle_ok2; exact gen_trig_ok2
  exact nt_encoder_sub_ttl_partial Gen.ntriples C01.gen_ntriples_ok C01.gen_ntriples_grammar _ hT hT2 _ (cfgOK_real trig resolve)
    ascii label (by cases trig; exact hlab; rw [← gen_tables_eq]; exact hlab) urlOk qs hwf

/-- non-vacuity: the C01 witness dataset (IRIs, labelled blank nodes, literals with escapes, a
    language tag, a datatype) satisfies the hypotheses with its labeller -/
example : (∀ q ∈ C01.Witness.quads, C01.WFQuad (fun _ => true) q) ∧ (∀ b, labelWf Gen.turtle (C01.Witness.label b) = true) :=
  ⟨C01.Witness.wf, by decide⟩

-- … and the conclusion on it, computed: four triples, clean end, with the Turtle configuration
set_option maxRecDepth 8000 in
example :
    let r := run (C05.realCfg false (fun _ r => some r) (inRanges Gen.unicodeSpace)) .eof none []
      (NQ.encodeDoc Gen.ntriples false C01.Witness.label false C01.Witness.quads)
    r.1.length = 4 ∧ r.2 = .clean := by decide

end RdfModel.C07
