/-
  Proofs.C05NQ — the proofs referenced by Props/C05NQ.lean:
    C05NQLen   run_fuel_suffices, next_shrinks, latch, next_true_has_current, ioerr_reported,
               done_only_on_blank
    C05NQShape run_emits_wf
    C05NQExt   next_extend, prefix_monotone
-/
import RdfModel.Proofs.C05NQLen
import RdfModel.Proofs.C05NQShape
import RdfModel.Proofs.C05NQExt
