/-
  RdfModel.Spec.RDFC10 — the W3C Recommendation "RDF Dataset Canonicalization" (RDFC-1.0,
  21 May 2024) written section by section, independently of the Go code.

  * `H : Str → Str` is the hash algorithm: hex digest (lower case) of the UTF-8 bytes (§4.2
    "hash algorithm"; SHA-256 by default, any substitute allowed).
  * Every loop the Recommendation leaves unordered takes its order as an explicit parameter:
      - the dataset is given as a list `qs` (§4.4.3 step 2 "for every quad Q in input dataset");
      - `ord`   : the order in which the keys of the blank node to quads map are visited
                  (§4.4.3 step 3; it determines the order of the identifier lists of step 5.2);
      - `perms` : the enumeration of "each permutation p of blank node list" (§4.8.3 step 5.4).
  * `twice` : §4.4.3 step 2.1 "add a reference to Q from the map entry for the blank node
    identifier": for a quad naming the same blank node in two positions the text does not say whether
    one or two references are added (implementations differ); `twice = true` adds one per position.
  * The recursion of Hash N-Degree Quads is unbounded in the Recommendation.  Lean needs a
    terminating definition: `fuel` bounds the nesting depth, `none` = fuel exhausted.  The
    Recommendation's result is the value obtained for any sufficient fuel (`Canon`, unique by
    `C04.spec_fuel_mono` / `C04.spec_result_unique`, proofs in Proofs/C04Fuel.lean).  Every recursive call strictly extends the path issuer
    with a blank node of the dataset, so `fuel = number of blank nodes + 1` suffices (not proved
    here; the vector test and the harness run with that value and never saw `none`).

  Canonical N-Quads (§5 "Serialization", RDF 1.2 N-Quads "canonical form"): no optional white
  space, one space between terms, ` .\n` at the end; IRIs written raw between `<` `>`; literals:
  `\b \t \n \f \r \" \\` as ECHAR; every other code point in U+0000–U+001F, U+007F, and the
  "characters not matching the Char production from XML 1.1" as `\uXXXX` with upper-case hex;
  everything else raw; datatype xsd:string omitted; language tag after `@`.
  CHOICE RECORDED: of the code points outside XML 1.1 `Char` (U+0000, surrogates, U+FFFE, U+FFFF) a
  string can only contain U+FFFE and U+FFFF beyond the C0 range; this Spec follows the text and
  escapes them (`\uFFFE`, `\uFFFF`).  No shipped W3C vector contains either code point (neither raw
  nor escaped), so the vectors do not decide this clause; everything else in this paragraph is
  decided by vector test060 (harness, labelled test).
-/
import RdfModel.Model.Term
import RdfModel.Model.StrOrd
namespace RdfModel.Spec.RDFC10
open RdfModel

variable {β : Type} [DecidableEq β]

/-! ## Canonical N-Quads -/

def escLitRune (c : Nat) : Str :=
  if c = 0x08 then [0x5c, 0x62]
  else if c = 0x09 then [0x5c, 0x74]
  else if c = 0x0a then [0x5c, 0x6e]
  else if c = 0x0c then [0x5c, 0x66]
  else if c = 0x0d then [0x5c, 0x72]
  else if c = 0x22 then [0x5c, 0x22]
  else if c = 0x5c then [0x5c, 0x5c]
  else if c ≤ 0x1f ∨ c = 0x7f ∨ c = 0xFFFE ∨ c = 0xFFFF then 0x5c :: 0x75 :: hex4 c
  else [c]

def iriRef (v : Str) : Str := 0x3c :: (v ++ [0x3e])

def literal (lex dt : Str) (lang : Option Str) : Str :=
  let q := 0x22 :: (lex.flatMap escLitRune ++ [0x22])
  match lang with
  | some l => q ++ 0x40 :: l
  | none => if dt = xsdString then q else q ++ 0x5e :: 0x5e :: iriRef dt

/-- A term; blank nodes are written `_:` followed by the label `lab` gives them. -/
def term (lab : β → Str) : Term β → Str
  | .iri v => iriRef v
  | .bnode b => 0x5f :: 0x3a :: lab b
  | .lit l d t => literal l d t

/-- One quad in canonical N-Quads form, including the final `" .\n"`. -/
def nquad (lab : β → Str) (q : Quad β) : Str :=
  term lab q.s ++ 0x20 :: term lab q.p ++ 0x20 :: term lab q.o ++
    (match q.g with
      | none => []
      | some g => 0x20 :: term lab g) ++ [0x20, 0x2e, 0x0a]

/-! ## §4.5 Blank node identifier issuer -/

/-- §4.5.1: identifier prefix, identifier counter, issued identifiers map (an ordered map:
    existing identifier ↦ issued identifier, in issue order). A copy is the value itself. -/
structure Issuer (β : Type) where
  pfx : Str
  counter : Nat
  issued : List (β × Str)

def Issuer.new (pfx : Str) : Issuer β := ⟨pfx, 0, []⟩

def Issuer.get? (I : Issuer β) (b : β) : Option Str := assoc I.issued b

/-- §4.5.2 Issue Identifier: returns the issued identifier and the updated issuer. -/
def Issuer.issue (I : Issuer β) (b : β) : Str × Issuer β :=
  match I.get? b with
  | some id => (id, I)                                              -- step 1
  | none =>
    let id := I.pfx ++ decimal I.counter                            -- step 2
    (id, { I with counter := I.counter + 1, issued := I.issued ++ [(b, id)] })  -- steps 3–5

/-! ## §4.4.3 step 2: blank node to quads map -/

def bnodeOf : Term β → List β
  | .bnode b => [b]
  | _ => []

/-- Blank nodes of a quad, one per position (subject, object, graph name). -/
def quadBnodes (q : Quad β) : List β :=
  bnodeOf q.s ++ bnodeOf q.o ++ (match q.g with | some g => bnodeOf g | none => [])

abbrev B2Q (β : Type) := List (β × List (Quad β))

/-- Step 2 / 2.1. -/
def bnodeToQuads (twice : Bool) (qs : List (Quad β)) : B2Q β :=
  qs.foldl (fun m q =>
    (if twice then quadBnodes q else (quadBnodes q).eraseDups).foldl (fun m b => addToMap m b q) m) []

/-! ## §4.6 Hash First Degree Quads -/

def hashFirstDegree (H : Str → Str) (b2q : B2Q β) (ref : β) : Str :=
  let quads := getList b2q ref                                                      -- step 2
  let nquads := quads.map (nquad (fun b => if b = ref then [0x61] else [0x7a]))      -- step 3
  H (sortStr nquads).flatten                                                        -- steps 4, 5

/-! ## §4.7 Hash Related Blank Node -/

def predicateValue (q : Quad β) : Str :=
  match q.p with
  | .iri v => v
  | _ => []

/-- `pos` is the code point of `s`, `o` or `g`. -/
def hashRelated (H : Str → Str) (b2q : B2Q β) (canon issuer : Issuer β) (related : β) (q : Quad β)
    (pos : Nat) : Str :=
  let input := [pos]                                                                 -- step 1
  let input := if pos ≠ 0x67 then input ++ iriRef (predicateValue q) else input      -- step 2
  let input :=
    match canon.get? related with                                                    -- step 3
    | some id => input ++ 0x5f :: 0x3a :: id
    | none =>
      match issuer.get? related with
      | some id => input ++ 0x5f :: 0x3a :: id
      | none => input ++ hashFirstDegree H b2q related                               -- step 4
  H input                                                                            -- step 5

/-! ## §4.8 Hash N-Degree Quads -/

structure NDResult (β : Type) where
  hash : Str
  issuer : Issuer β

/-- Steps 5.4.4.3 / 5.4.5.5: "chosen path is not empty and the length of path is greater than or
    equal to the length of chosen path and path is greater than chosen path". -/
def prune (chosen path : Str) : Bool :=
  !chosen.isEmpty && decide (path.length ≥ chosen.length) && strLt chosen path

/-- Step 3.1: the components (subject, object, graph name) that are blank nodes other than
    `identifier`, with their position letter. -/
def relatedOf (identifier : β) (q : Quad β) : List (β × Nat) :=
  let f := fun (t : Term β) (pos : Nat) =>
    match t with
    | .bnode b => if b = identifier then [] else [(b, pos)]
    | _ => []
  f q.s 0x73 ++ f q.o 0x6f ++ (match q.g with | some g => f g 0x67 | none => [])

/-- Steps 1–3: the map Hn from related hash to blank node list. -/
def hashToRelated (H : Str → Str) (b2q : B2Q β) (canon issuer : Issuer β) (identifier : β) :
    List (Str × List β) :=
  (getList b2q identifier).foldl (fun Hn q =>
    (relatedOf identifier q).foldl (fun Hn cp =>
      addToMap Hn (hashRelated H b2q canon issuer cp.1 q cp.2) cp.1) Hn) []

/-- Step 5.4.4, for each related in p. State: path, issuer copy, recursion list.
    `none` = "skip to the next permutation". -/
def pathLoop (canon : Issuer β) (chosen : Str) :
    List β → Str × Issuer β × List β → Option (Str × Issuer β × List β)
  | [], st => some st
  | related :: rest, (path, ic, recl) =>
    let st : Str × Issuer β × List β :=
      match canon.get? related with
      | some id => (path ++ 0x5f :: 0x3a :: id, ic, recl)                               -- 5.4.4.1
      | none =>
        let recl := if (ic.get? related).isNone then recl ++ [related] else recl        -- 5.4.4.2.1
        let r := ic.issue related                                                       -- 5.4.4.2.2
        (path ++ 0x5f :: 0x3a :: r.1, r.2, recl)
    if prune chosen st.1 then none else pathLoop canon chosen rest st                   -- 5.4.4.3

/-- Outcome of the work on one permutation. -/
inductive Try (α : Type) where
  | out            -- recursion fuel exhausted (not a result)
  | skip           -- "skip to the next permutation"
  | ok (a : α)

/-- Step 5.4.5, for each related in recursion list. `rec` is the recursive Hash N-Degree Quads. -/
def recLoop (rec : β → Issuer β → Option (NDResult β)) (chosen : Str) :
    List β → Str → Issuer β → Try (Str × Issuer β)
  | [], path, ic => .ok (path, ic)
  | related :: rest, path, ic =>
    match rec related ic with                                                           -- 5.4.5.1
    | none => .out
    | some result =>
      let path := path ++ 0x5f :: 0x3a :: (ic.issue related).1                          -- 5.4.5.2
      let path := path ++ 0x3c :: (result.hash ++ [0x3e])                               -- 5.4.5.3
      let ic := result.issuer                                                           -- 5.4.5.4
      if prune chosen path then .skip else recLoop rec chosen rest path ic              -- 5.4.5.5

/-- Step 5.4, for each permutation p. State: chosen path, chosen issuer (initially "unset":
    represented by the incoming issuer, never observed because the first permutation always
    replaces it). `none` = fuel exhausted. -/
def permLoop (rec : β → Issuer β → Option (NDResult β)) (canon issuer : Issuer β) :
    List (List β) → Str → Issuer β → Option (Str × Issuer β)
  | [], chosenPath, chosenIssuer => some (chosenPath, chosenIssuer)
  | p :: ps, chosenPath, chosenIssuer =>
    match pathLoop canon chosenPath p ([], issuer, []) with                             -- 5.4.1–5.4.4
    | none => permLoop rec canon issuer ps chosenPath chosenIssuer
    | some (path, ic, recl) =>
      match recLoop rec chosenPath recl path ic with                                    -- 5.4.5
      | .out => none
      | .skip => permLoop rec canon issuer ps chosenPath chosenIssuer
      | .ok (path, ic) =>
        if chosenPath.isEmpty || strLt path chosenPath                                  -- 5.4.6
        then permLoop rec canon issuer ps path ic
        else permLoop rec canon issuer ps chosenPath chosenIssuer

/-- Step 5, for each related hash (code point ordered). State: data to hash, issuer. -/
def groupLoop (rec : β → Issuer β → Option (NDResult β)) (canon : Issuer β)
    (perms : List β → List (List β)) :
    List (Str × List β) → Str → Issuer β → Option (Str × Issuer β)
  | [], data, issuer => some (data, issuer)
  | (relatedHash, blankNodeList) :: rest, data, issuer =>
    match permLoop rec canon issuer (perms blankNodeList) [] issuer with                -- 5.2–5.4
    | none => none
    | some (chosenPath, chosenIssuer) =>
      groupLoop rec canon perms rest (data ++ relatedHash ++ chosenPath) chosenIssuer   -- 5.1, 5.5, 5.6

def hashNDegree (H : Str → Str) (perms : List β → List (List β)) (b2q : B2Q β) (canon : Issuer β) :
    Nat → β → Issuer β → Option (NDResult β)
  | 0, _, _ => none
  | fuel + 1, identifier, issuer =>
    let Hn := hashToRelated H b2q canon issuer identifier                               -- 1–3
    match groupLoop (hashNDegree H perms b2q canon fuel) canon perms (sortByKey Hn) [] issuer with
    | none => none
    | some (data, issuer) => some ⟨H data, issuer⟩                                      -- 6

/-! ## §4.4 Canonicalization algorithm -/

/-- Step 5.2: the hash path list of one identifier list. -/
def hashPathList (H : Str → Str) (perms : List β → List (List β)) (b2q : B2Q β) (canon : Issuer β)
    (fuel : Nat) : List β → Option (List (NDResult β))
  | [] => some []
  | n :: rest =>
    if (canon.get? n).isSome then hashPathList H perms b2q canon fuel rest               -- 5.2.1
    else
      let temporary := ((Issuer.new [0x62]).issue n).2                                   -- 5.2.2, 5.2.3
      match hashNDegree H perms b2q canon fuel n temporary with                          -- 5.2.4
      | none => none
      | some r => (hashPathList H perms b2q canon fuel rest).map (r :: ·)

/-- Step 5.3: issue canonical identifiers for every identifier issued by the result's issuer,
    in issue order. -/
def issueAll (canon : Issuer β) (existing : List β) : Issuer β :=
  existing.foldl (fun c e => (c.issue e).2) canon

/-- Step 5, for each remaining hash (code point ordered). -/
def step5 (H : Str → Str) (perms : List β → List (List β)) (b2q : B2Q β) (fuel : Nat) :
    List (Str × List β) → Issuer β → Option (Issuer β)
  | [], canon => some canon
  | (_, identifierList) :: rest, canon =>
    match hashPathList H perms b2q canon fuel identifierList with
    | none => none
    | some hpl =>
      let sorted := hpl.mergeSort (fun a b => strLe a.hash b.hash)
      let canon := sorted.foldl (fun c r => issueAll c (r.issuer.issued.map (·.1))) canon
      step5 H perms b2q fuel rest canon

/-- The canonicalized dataset: its serialized canonical form (as sorted lines) and the issued
    identifiers map of the canonical issuer. -/
structure Result (β : Type) where
  lines : List Str
  issued : List (β × Str)

def c14nPrefix : Str := [0x63, 0x31, 0x34, 0x6e]   -- "c14n"

def canonFuel (H : Str → Str) (ord : List β → List β) (perms : List β → List (List β))
    (twice : Bool) (fuel : Nat) (qs : List (Quad β)) : Option (Result β) :=
  let b2q := bnodeToQuads twice qs                                                       -- 1, 2
  let h2b : List (Str × List β) :=                                                       -- 3
    (ord (b2q.map (·.1))).foldl (fun m n => addToMap m (hashFirstDegree H b2q n) n) []
  let sorted := sortByKey h2b
  let canon : Issuer β :=                                                                -- 4
    sorted.foldl (fun c e => match e.2 with | [n] => (c.issue n).2 | _ => c) (Issuer.new c14nPrefix)
  let remaining := sorted.filter (fun e => e.2.length ≠ 1)                               -- 4.3
  match step5 H perms b2q fuel remaining canon with                                      -- 5
  | none => none
  | some canon =>                                                                        -- 6, 7
    some ⟨sortStr (qs.map (nquad (fun b => (canon.get? b).getD []))), canon.issued⟩

/-- Number of distinct blank nodes: a sufficient recursion bound. -/
def defaultFuel (qs : List (Quad β)) : Nat := ((qs.flatMap quadBnodes).eraseDups).length + 1

/-- The Recommendation's result as a relation (no bound on the recursion). -/
def Canon (H : Str → Str) (ord : List β → List β) (perms : List β → List (List β)) (twice : Bool)
    (qs : List (Quad β)) (r : Result β) : Prop :=
  ∃ fuel, canonFuel H ord perms twice fuel qs = some r

end RdfModel.Spec.RDFC10
