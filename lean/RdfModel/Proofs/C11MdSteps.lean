/-
  Proofs/C11MdSteps — polynomial bounds on the work of Model/MicrodataDecoder.walk (part C11MD):
    * at most one expansion per node identity            (`expansions ≤ number of nodes`)
    * number of `walk` calls ≤ N · (1 + R), N = number of nodes, R = number of itemref tokens in the document.
  Potential argument: an itemref token can trigger a jump only when its item is expanded, an item is expanded at
  most once, and a jump costs at most one walk over the (whole) tree plus the jumps of the items expanded during it.
-/
import RdfModel.Proofs.C11MdTerm
namespace RdfModel.Mdd
open RdfModel RdfModel.Desc

/-- itemref tokens on a node -/
def refTok (m : Node) : Nat := (fields (trimSpace (scanAttrs m.attrs {}).itemref)).length

/-- itemref tokens on the nodes whose identity is not yet in ResolvedItemscopes -/
def phiR (doc : Node) (r : List (Nat × Subj)) : Nat :=
  (((subnodes doc).filter (fun m => (lookupR r m.id).isNone)).map refTok).sum

theorem filter_sum_lt {α : Type} (l : List α) (g : α → Nat) (p q : α → Bool) (hqp : ∀ x, q x = true → p x = true)
    (n : α) (hn : n ∈ l) (hpn : p n = true) (hqn : q n = false) :
    ((l.filter q).map g).sum + g n ≤ ((l.filter p).map g).sum := by
  have hle : ∀ ys : List α, ((ys.filter q).map g).sum ≤ ((ys.filter p).map g).sum := by
    intro ys
    induction ys with
    | nil => simp
    | cons y ys ih =>
      simp only [List.filter_cons]
      cases hq : q y <;> cases hp : p y
      · simpa using ih
      · simp; omega
      · have := hqp y hq; simp [hp] at this
      · simp; omega
  induction l with
  | nil => simp at hn
  | cons x xs ih =>
    simp only [List.mem_cons] at hn
    rcases hn with rfl | hn
    · simp only [List.filter_cons, hpn, hqn, ↓reduceIte, Bool.false_eq_true, List.map_cons, List.sum_cons]
      have := hle xs
      omega
    · have := ih hn
      simp only [List.filter_cons]
      cases hq : q x <;> cases hp : p x
      · simpa using this
      · simp; omega
      · have := hqp x hq; simp [hp] at this
      · simp; omega

theorem phiR_cons (doc n : Node) (hn : n ∈ subnodes doc) (r : List (Nat × Subj)) (s : Subj)
    (hun : lookupR r n.id = none) : phiR doc ((n.id, s) :: r) + refTok n ≤ phiR doc r := by
  unfold phiR
  apply filter_sum_lt _ _ _ _ _ n hn
  · simp [hun]
  · simp [lookupR_cons]
  · intro x hx
    simp only [lookupR_cons] at hx
    split at hx
    · simp at hx
    · exact hx

/-- `st'` is reachable from `st` with `b` extra steps beyond what the potential pays for -/
def Cost (doc : Node) (b : Nat) (st st' : St) : Prop :=
  st'.steps + (subnodes doc).length * phiR doc st'.resolved ≤ st.steps + b + (subnodes doc).length * phiR doc st.resolved ∧
  st'.expansions + unresR doc st'.resolved ≤ st.expansions + unresR doc st.resolved

theorem cost_refl (doc : Node) (st : St) : Cost doc 0 st st := ⟨by omega, by omega⟩

theorem cost_trans {doc : Node} {b1 b2 : Nat} {a b c : St} (h1 : Cost doc b1 a b) (h2 : Cost doc b2 b c) :
    Cost doc (b1 + b2) a c := ⟨by have := h1.1; have := h2.1; omega, by have := h1.2; have := h2.2; omega⟩

theorem cost_weaken {doc : Node} {b b' : Nat} {a c : St} (h : b ≤ b') (h1 : Cost doc b a c) : Cost doc b' a c :=
  ⟨by have := h1.1; omega, h1.2⟩

theorem cost_skel {doc : Node} {a b : St} (h : b.skel = a.skel) : Cost doc 0 a b := by
  unfold Cost
  rw [skel_steps h, skel_resolved h, skel_expansions h]
  exact ⟨by omega, by omega⟩

def WCost (w : Ctx → Node → St → St) (doc : Node) : Prop :=
  ∀ (ctx : Ctx) (n : Node) (st : St), n ∈ subnodes doc → Cost doc (subnodes n).length st (w ctx n st)

theorem kids_cost {w : Ctx → Node → St → St} {doc : Node} (ih : WCost w doc) (ctx : Ctx) (ks : List Node) (st : St)
    (hks : ∀ k ∈ ks, k ∈ subnodes doc) : Cost doc (subnodesL ks).length st (walkKidsWith w ctx ks st) := by
  unfold walkKidsWith
  induction ks generalizing st with
  | nil => exact cost_refl doc st
  | cons k ks ihk =>
    simp only [List.foldl_cons, subnodesL, List.length_append]
    exact cost_trans (ih ctx k st (hks k (by simp))) (ihk _ (fun x hx => hks x (by simp [hx])))

theorem itemrefs_cost {w : Ctx → Node → St → St} {doc : Node} (ih : WCost w doc) (ctx : Ctx) (n : Node) (refs : List Bytes)
    (st : St) : Cost doc (refs.length * (subnodes doc).length) st (itemrefsWith w doc ctx n refs st) := by
  unfold itemrefsWith
  induction refs generalizing st with
  | nil => simpa using cost_refl doc st
  | cons ref refs ihr =>
    simp only [List.foldl_cons, List.length_cons]
    have hstep : Cost doc (subnodes doc).length st (itemrefStep w doc ctx n st ref) := by
      unfold itemrefStep
      split
      · exact cost_weaken (Nat.zero_le _) (cost_refl doc st)
      · split
        · exact cost_weaken (Nat.zero_le _) (cost_refl doc st)
        · rename_i target ht
          split
          · exact cost_weaken (Nat.zero_le _) (cost_refl doc st)
          · split
            · exact cost_weaken (Nat.zero_le _) (cost_refl doc st)
            · have := ih { ctx with recursed := ref :: ctx.recursed } target
                { st with copies := st.copies + ctx.recursed.length } (findId_mem ht)
              exact cost_weaken (size_sub doc target (findId_mem ht)) ⟨this.1, this.2⟩
    have := cost_trans hstep (ihr (itemrefStep w doc ctx n st ref))
    rw [Nat.succ_mul]
    exact cost_weaken (by omega) this

theorem expand_cost {E : Env} {w : Ctx → Node → St → St} {doc : Node} (ih : WCost w doc) (ctx : Ctx) (n : Node)
    (a : ItemAttrs) (ha : a = scanAttrs n.attrs {}) (next : Subj) (st : St) (hn : n ∈ subnodes doc)
    (hun : lookupR st.resolved n.id = none) :
    Cost doc (subnodesL n.kids).length st (expandItem E w doc ctx n a next st) := by
  unfold expandItem
  simp only
  generalize hR : (if a.itemtype ≠ [] then emitTypes E next (typeTokens a.itemtype) st else ([], st)) = R
  have hsk : R.2.skel = st.skel := by
    rw [← hR]; split
    · exact emitTypes_skel E _ _ st (typeTokens_ne _)
    · rfl
  have hun' : lookupR R.2.resolved n.id = none := by rw [skel_resolved hsk]; exact hun
  have hphi := phiR_cons doc n hn R.2.resolved next hun'
  have hlt := unresR_cons_lt doc n hn R.2.resolved next hun'
  generalize hS : ({ R.2 with resolved := (n.id, next) :: R.2.resolved, expansions := R.2.expansions + 1 } : St) = S
  have hSr : S.resolved = (n.id, next) :: R.2.resolved := by rw [← hS]
  have hSs : S.steps = R.2.steps := by rw [← hS]
  have hSe : S.expansions = R.2.expansions + 1 := by rw [← hS]
  -- the jumps are paid for by the potential released when `n` became resolved
  have c1 : Cost doc 0 st (if a.itemref ≠ [] then
      itemrefsWith w doc { ctx with subj := some next, types := R.1 } n (fields (trimSpace a.itemref)) S else S) := by
    have hmul : (subnodes doc).length * (phiR doc S.resolved + refTok n) ≤ (subnodes doc).length * phiR doc R.2.resolved := by
      apply Nat.mul_le_mul_left; rw [hSr]; exact hphi
    rw [Nat.mul_add] at hmul
    have base : Cost doc ((subnodes doc).length * refTok n) S
        (if a.itemref ≠ [] then
          itemrefsWith w doc { ctx with subj := some next, types := R.1 } n (fields (trimSpace a.itemref)) S else S) := by
      split
      · have := itemrefs_cost ih { ctx with subj := some next, types := R.1 } n (fields (trimSpace a.itemref)) S
        have hlen : (fields (trimSpace a.itemref)).length = refTok n := by rw [ha]; rfl
        rw [hlen, Nat.mul_comm] at this
        exact this
      · exact cost_weaken (Nat.zero_le _) (cost_refl doc S)
    refine ⟨?_, ?_⟩
    · have := base.1
      rw [← skel_steps hsk, ← skel_resolved hsk]
      rw [hSs] at this
      omega
    · have := base.2
      rw [← skel_expansions hsk, ← skel_resolved hsk]
      rw [hSe, hSr] at this
      omega
  have c2 := kids_cost ih { ctx with subj := some next, types := R.1 } n.kids
    (if a.itemref ≠ [] then
      itemrefsWith w doc { ctx with subj := some next, types := R.1 } n (fields (trimSpace a.itemref)) S else S)
    (fun k hk => kid_sub hn hk)
  have := cost_trans c1 c2
  simpa using this

theorem step_cost {E : Env} {w : Ctx → Node → St → St} {doc : Node} (ih : WCost w doc) : WCost (walkStep E w doc) doc := by
  intro ctx n st hn
  have hW : (subnodes n).length = 1 + (subnodesL n.kids).length := by rw [subnodes_eq]; simp; omega
  have c0 : Cost doc 1 st { st with steps := st.steps + 1 } := ⟨by simp, by simp⟩
  unfold walkStep
  simp only
  generalize hS0 : ({ st with steps := st.steps + 1 } : St) = st0 at c0
  rw [hW]
  split
  · exact cost_trans c0 (kids_cost ih ctx n.kids st0 (fun k hk => kid_sub hn hk))
  · split
    · unfold visitItem
      simp only
      have hsub := itemSubject_skel E (scanAttrs n.attrs {}) (st0.lookup n.id) st0
      generalize hR : itemSubject E (scanAttrs n.attrs {}) (st0.lookup n.id) st0 = r at hsub
      have hk := linkItem_skel E ctx (scanAttrs n.attrs {}) r.1 r.2
      have c1 : Cost doc 0 st0 (linkItem E ctx (scanAttrs n.attrs {}) r.1 r.2) := by
        unfold Cost
        rw [skel_steps hk, skel_resolved hk, skel_expansions hk, hsub.1, hsub.2.1, hsub.2.2.1]
        exact ⟨by omega, by omega⟩
      split
      · exact cost_weaken (by omega) (cost_trans c0 c1)
      · rename_i hnone
        have c2 := expand_cost (E := E) ih ctx n (scanAttrs n.attrs {}) rfl r.1 (linkItem E ctx (scanAttrs n.attrs {}) r.1 r.2) hn
          (by rw [skel_resolved hk, hsub.1]; exact hnone)
        have := cost_trans (cost_trans c0 c1) c2
        simpa using this
    · have c1 : Cost doc 0 st0 (propElem E ctx n (scanAttrs n.attrs {}) st0) := cost_skel (propElem_skel E ctx n _ st0)
      have := cost_trans (cost_trans c0 c1) (kids_cost ih ctx n.kids _ (fun k hk => kid_sub hn hk))
      simpa using this

theorem walk_cost (E : Env) (doc : Node) : ∀ f, WCost (walk E doc f) doc := by
  intro f
  induction f with
  | zero =>
    intro ctx n st _
    show Cost doc _ st (st.fail .outOfFuel)
    exact cost_weaken (Nat.zero_le _) ⟨by simp [St.fail], by simp [St.fail]⟩
  | succ f ih =>
    intro ctx n st hn
    show Cost doc _ st (walkStep E (walk E doc f) doc ctx n st)
    exact step_cost ih ctx n st hn

/-- total number of itemref tokens in the document -/
def refTokens (doc : Node) : Nat := ((subnodes doc).map refTok).sum

theorem phiR_nil (doc : Node) : phiR doc [] = refTokens doc := by
  unfold phiR refTokens
  have : (subnodes doc).filter (fun m => (lookupR [] m.id).isNone) = subnodes doc := by
    apply List.filter_eq_self.mpr
    intro m _
    simp [lookupR]
  rw [this]

theorem run_steps_le (E : Env) (doc : Node) :
    (run E doc).steps ≤ (subnodes doc).length * (1 + refTokens doc) := by
  have h := (walk_cost E doc (fuelFor doc) {} doc {} (self_mem doc)).1
  have h0 : ({} : St).resolved = [] := rfl
  have h1 : ({} : St).steps = 0 := rfl
  rw [h0, h1, phiR_nil] at h
  unfold run
  rw [Nat.mul_add]
  omega

theorem run_expansions_le (E : Env) (doc : Node) : (run E doc).expansions ≤ (subnodes doc).length := by
  have h := (walk_cost E doc (fuelFor doc) {} doc {} (self_mem doc)).2
  have h1 : ({} : St).expansions = 0 := rfl
  have := unres_init doc
  unfold unres at this
  rw [h1] at h
  unfold run
  omega

end RdfModel.Mdd
