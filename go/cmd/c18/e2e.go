package main

// End-to-end oracle of property C18: the real `rdfkit` binary (built from <repo>/cmd/rdfkit on every run)
// converts files; outputs are re-read with the library decoders and compared, up to blank-node
// isomorphism, with the dataset the library decoder of the source format reads from the source document.

import (
	"bytes"
	"context"
	"encoding/json"
	"fmt"
	"hash/fnv"
	"io"
	"net"
	"net/http"
	"net/url"
	"os"
	"os/exec"
	"path/filepath"
	"regexp"
	"sort"
	"strings"
	"sync"
	"time"

	"verifharness/vh"

	"github.com/dpb587/rdfkit-go/encoding"
	"github.com/dpb587/rdfkit-go/encoding/nquads"
	"github.com/dpb587/rdfkit-go/encoding/ntriples"
	"github.com/dpb587/rdfkit-go/encoding/rdfjson"
	"github.com/dpb587/rdfkit-go/encoding/turtle"
	"github.com/dpb587/rdfkit-go/iri"
	"github.com/dpb587/rdfkit-go/rdf"
	"github.com/dpb587/rdfkit-go/rdfio"
	"github.com/dpb587/rdfkit-go/rdfio/rdfiotypes"
)

// ---------------------------------------------------------------- building the binary, serving documents

func repoRoot() string {
	if v := os.Getenv("VERIF_REPO"); v != "" {
		return v
	}
	return "/repo"
}

func buildBinary(scratch string) (string, error) {
	bin := filepath.Join(scratch, "rdfkit")
	cmd := exec.Command("go", "build", "-o", bin, ".")
	cmd.Dir = filepath.Join(repoRoot(), "cmd", "rdfkit")
	env := os.Environ()
	env = append(env, "GOFLAGS=-mod=mod", "GOPROXY=off")
	cmd.Env = env
	out, err := cmd.CombinedOutput()
	if err != nil {
		return "", fmt.Errorf("go build rdfkit: %v: %s", err, out)
	}
	return bin, nil
}

type served struct {
	body        []byte
	contentType string
	disposition string
}

type docServer struct {
	mu   sync.Mutex
	docs map[string]served
	url  string
	srv  *http.Server
}

func startServer() (*docServer, error) {
	ln, err := net.Listen("tcp", "127.0.0.1:0")
	if err != nil {
		return nil, err
	}
	s := &docServer{docs: map[string]served{}, url: "http://" + ln.Addr().String()}
	s.srv = &http.Server{Handler: http.HandlerFunc(func(w http.ResponseWriter, r *http.Request) {
		s.mu.Lock()
		d, ok := s.docs[r.URL.Path]
		s.mu.Unlock()
		if !ok {
			http.NotFound(w, r)
			return
		}
		if d.contentType != "" {
			w.Header().Set("Content-Type", d.contentType)
		} else {
			w.Header()["Content-Type"] = nil // suppress net/http's own sniffing
		}
		if d.disposition != "" {
			w.Header().Set("Content-Disposition", d.disposition)
		}
		w.Write(d.body)
	})}
	go s.srv.Serve(ln)
	return s, nil
}

func (s *docServer) put(path string, d served) {
	s.mu.Lock()
	s.docs[path] = d
	s.mu.Unlock()
}

// ---------------------------------------------------------------- case description

type e2eCase struct {
	id     int
	src    sourceDoc
	target string // nt nq ttl rj

	inMode   string // alias cti ext sniff media stdin-alias stdin-sniff
	inType   string // --in-type ("" = none)
	inName   string // file name of the source (below the case directory) or URL path
	inBase   string // --in-base
	media    string // Content-Type header (media mode)
	dispo    string // Content-Disposition header (media mode)
	outMode  string // alias cti ext fallback stdout-alias
	outType  string
	outName  string // "" = stdout
	outBase  string
	outParam []string
	ttl      ttlOpts
	ascii    *bool
	badParam bool
	family   string // "" = general generator; otherwise the targeted family of miss.go

	// results
	resource  string
	stdin     []byte
	exit      int
	stderr    string
	output    []byte
	timedOut  bool
	predDec   string
	predEnc   string
	expectIRI string
}

func (c *e2eCase) describe() string {
	return fmt.Sprintf("src=%s(%s) in=%s[type=%q name=%q media=%q base=%q] target=%s out=%s[type=%q name=%q base=%q params=%v]",
		c.src.format, c.src.origin, c.inMode, c.inType, c.inName, c.media, c.inBase, c.target, c.outMode, c.outType, c.outName, c.outBase, c.outParam)
}

func boolp(b bool) *bool { return &b }

func (g *gen) e2eCase(id int) *e2eCase { return g.e2eCaseHint(id, nil) }

// e2eCaseHint: hint = nil for the general generator; a family (miss.go) fixes the source format, possibly the
// target, and builds the document (and the Turtle options) once the output name is known.
func (g *gen) e2eCaseHint(id int, hint *caseHint) *e2eCase {
	r := g.r
	c := &e2eCase{id: id}
	var fm string
	if hint != nil {
		fm = hint.format
		c.family = hint.family
		c.src = sourceDoc{format: fm}
	} else {
		fm = vh.Pick(r, sourceNames)
		c.src = g.sourceDoc(fm)
	}
	f := formats[fm]
	c.target = vh.Pick(r, targetNames)
	if hint != nil && hint.target != "" {
		c.target = hint.target
	}
	tf := formats[c.target]

	// ---- how the input type is given
	otherExt := func() string { // an extension that names another format (an explicit type must win over it)
		for {
			o := formats[vh.Pick(r, sourceNames)]
			if o.name != fm {
				return o.ext
			}
		}
	}
	neutral := vh.Pick(r, []string{"src.dat", "src", "data.txt", "a.b.bin"})
	switch vh.Pick(r, []string{"alias", "alias", "cti", "ext", "ext", "sniff", "media", "media", "stdin-alias", "stdin-sniff"}) {
	case "alias":
		c.inMode, c.inType = "alias", vh.Pick(r, f.alias)
		c.inName = neutral
		if r.Chance(40) {
			c.inName = "src" + otherExt()
		}
	case "cti":
		c.inMode, c.inType = "cti", f.cti
		c.inName = neutral
		if r.Chance(40) {
			c.inName = "src" + otherExt()
		}
	case "ext":
		c.inMode = "ext"
		ext := f.ext
		if fm == "html" {
			ext = vh.Pick(r, []string{".html", ".htm", ".xhtml"})
		}
		if r.Chance(20) {
			ext = strings.ToUpper(ext)
		}
		c.inName = vh.Pick(r, []string{"src", "a.b", "x.nt.copy"}) + ext
	case "sniff":
		c.inMode = "sniff"
		c.inName = neutral
	case "media":
		c.inMode = "media"
		c.media = f.media
		if fm == "html" {
			c.media = vh.Pick(r, []string{"text/html", "application/xhtml+xml", "text/xhtml+xml"})
		}
		if r.Chance(20) {
			c.media = strings.ToUpper(c.media[:1]) + c.media[1:]
		}
		if r.Chance(40) {
			c.media += vh.Pick(r, []string{"; charset=utf-8", ";charset=UTF-8", "; q=0.5"})
		}
		c.inName = neutral
		if r.Chance(40) {
			c.inName = "src" + otherExt() // the media type must win over the extension
		}
		if r.Chance(10) {
			c.dispo = "attachment; filename=\"x" + otherExt() + "\""
		}
	case "stdin-alias":
		c.inMode, c.inType = "stdin-alias", vh.Pick(r, f.alias)
	default:
		c.inMode = "stdin-sniff"
	}
	if r.Chance(15) {
		c.inBase = vh.Pick(r, []string{"http://example.org/inbase/doc", "http://example.org/x/y/z?q#f", "urn:example:base"})
	}

	// ---- how the output type is given
	outModes := []string{"alias", "alias", "cti", "ext", "ext", "stdout-alias", "fallback"}
	if hint != nil && hint.target != "" {
		outModes = outModes[:len(outModes)-1] // the fallback type is N-Quads
	}
	switch vh.Pick(r, outModes) {
	case "alias":
		c.outMode, c.outType = "alias", vh.Pick(r, tf.alias)
		c.outName = vh.Pick(r, []string{"out.dat", "out", "out" + formats[vh.Pick(r, targetNames)].ext})
	case "cti":
		c.outMode, c.outType = "cti", tf.cti
		c.outName = vh.Pick(r, []string{"out.dat", "out"})
	case "ext":
		c.outMode = "ext"
		c.outName = vh.Pick(r, []string{"out", "o.x"}) + tf.ext
		if r.Chance(8) && hint == nil {
			c.outName = "out" + strings.ToUpper(tf.ext) // the encoder side is case-sensitive: falls back to N-Quads
		}
	case "stdout-alias":
		c.outMode, c.outType = "stdout-alias", vh.Pick(r, tf.alias)
	default:
		c.outMode = "fallback"
		c.target = "nq"
		c.outName = vh.Pick(r, []string{"out.dat", "", "out"})
	}

	// ---- output parameters
	switch c.target {
	case "nt", "nq":
		switch r.Intn(4) {
		case 0:
			c.ascii = boolp(true)
			c.outParam = append(c.outParam, vh.Pick(r, []string{"ascii=true", "ascii"}))
		case 1:
			c.ascii = boolp(false)
			c.outParam = append(c.outParam, "ascii=false")
		}
	case "ttl":
		o := ttlOpts{}
		tri := func() *bool {
			switch r.Intn(3) {
			case 0:
				return boolp(true)
			case 1:
				return boolp(false)
			}
			return nil
		}
		o.buffered, o.resources, o.useBase = tri(), tri(), tri()
		switch r.Intn(14) {
		case 5: // a name of the preset re-bound to another namespace
			o.prefixes = []string{"rdfa-context", "schema:https://schema.org/"}
		case 6: // one name bound twice
			o.prefixes = []string{"ex:http://example.org/ns#", "ex:http://example.org/"}
		case 7: // two names for one namespace
			o.prefixes = []string{"a:http://example.org/ns#", "b:http://example.org/ns#"}
		case 8: // nested namespaces
			o.prefixes = []string{"e:http://example.org/", "en:http://example.org/ns#", "end:http://example.org/ns/deep#"}
		case 9: // preset names taken over by other namespaces
			o.prefixes = []string{"rdfa-context", "dc:http://example.org/ns#", "foaf:http://schema.org/", "rdfs:http://example.org/"}
		case 10: // reset, then a list; the same binding twice
			o.prefixes = []string{"rdfa-context", "none", "ex:http://example.org/ns#", "ex:http://example.org/ns#", "s:http://schema.org/"}
		case 11: // re-bound back and forth
			o.prefixes = []string{"p:http://schema.org/", "p:http://example.org/ns#", "p:http://schema.org/", "q:http://example.org/ns#"}
		case 0:
			o.prefixes = []string{"none"}
		case 1:
			o.prefixes = []string{"rdfa-context"}
		case 2:
			o.prefixes = []string{"ex:http://example.org/ns#", "e:http://example.org/"}
		case 3:
			o.prefixes = []string{"rdfa-context", "ex:http://example.org/ns#"}
		case 4:
			o.prefixes = []string{":http://example.org/", "a:http://a/", "h:https://example.org/"}
		}
		if r.Chance(30) {
			c.outBase = vh.Pick(r, []string{"http://example.org/base/doc", "http://example.org/", "https://example.org/a/b/c", "http://a/x/y"})
		}
		c.ttl = o
		c.outParam = o.params()
	}
	if hint != nil {
		if hint.target == "ttl" {
			c.ttl, c.outParam, c.outBase = ttlOpts{}, nil, ""
		}
		hint.build(c)
	}
	if r.Chance(2) && c.family != "big" {
		c.badParam = true
		c.outParam = append(c.outParam, "nosuchparam=1")
	}
	return c
}

// ---------------------------------------------------------------- running one case

func (g *gen) runCase(c *e2eCase) {
	dir := filepath.Join(g.scratch, fmt.Sprintf("c%d", c.id))
	os.MkdirAll(dir, 0o755)
	var args []string
	args = append(args, "pipe")
	switch c.inMode {
	case "media":
		p := fmt.Sprintf("/c%d/%s", c.id, c.inName)
		g.server.put(p, served{body: c.src.body, contentType: c.media, disposition: c.dispo})
		c.resource = g.server.url + p
		c.expectIRI = c.resource
		args = append(args, "-i", c.resource)
	case "stdin-alias", "stdin-sniff":
		c.stdin = c.src.body
		c.expectIRI = "file:///dev/stdin"
		if g.r2(c.id)%2 == 0 {
			args = append(args, "-i", "-")
		}
	default:
		fp := filepath.Join(dir, c.inName)
		os.WriteFile(fp, c.src.body, 0o644)
		c.resource = fp
		c.expectIRI = "file://" + fp
		if g.r2(c.id)%3 == 0 {
			args = append(args, "--in", "file://"+fp)
		} else {
			args = append(args, "-i", fp)
		}
	}
	if c.inType != "" {
		args = append(args, "--in-type", c.inType)
	}
	if c.inBase != "" {
		args = append(args, "--in-base", c.inBase)
	}
	outPath := ""
	if c.outName != "" {
		outPath = filepath.Join(dir, "o", c.outName)
		os.MkdirAll(filepath.Dir(outPath), 0o755)
		args = append(args, "-o", outPath)
	}
	if c.outType != "" {
		args = append(args, "--out-type", c.outType)
	}
	if c.outBase != "" {
		args = append(args, "--out-base", c.outBase)
	}
	for _, p := range c.outParam {
		args = append(args, "--out-param", p)
	}
	limit := 30 * time.Second
	if c.family == "big" {
		limit = 150 * time.Second // megabytes of input; the machine is shared
	}
	ctx, cancel := context.WithTimeout(context.Background(), limit)
	defer cancel()
	cmd := exec.CommandContext(ctx, g.bin, args...)
	cmd.Dir = dir
	if c.stdin != nil {
		cmd.Stdin = bytes.NewReader(c.stdin)
	}
	var so, se bytes.Buffer
	cmd.Stdout, cmd.Stderr = &so, &se
	err := cmd.Run()
	c.exit = 0
	if err != nil {
		c.exit = 1
		if ee, ok := err.(*exec.ExitError); ok {
			c.exit = ee.ExitCode()
		}
	}
	c.timedOut = ctx.Err() != nil
	c.stderr = se.String()
	if len(c.stderr) > 600 {
		c.stderr = c.stderr[:600]
	}
	if outPath != "" {
		c.output, _ = os.ReadFile(outPath)
	} else {
		c.output = so.Bytes()
	}
}

func (g *gen) r2(id int) int {
	h := fnv.New32a()
	fmt.Fprintf(h, "%d/%d", g.seed, id)
	return int(h.Sum32() >> 4)
}

// ---------------------------------------------------------------- reference decoding (in-process)

type memReader struct {
	*bytes.Reader
	iri rdf.IRI
}

func (m memReader) GetIRI() rdf.IRI             { return m.iri }
func (m memReader) GetFileName() (string, bool) { return "", false }
func (m memReader) Close() error                { return nil }
func (m memReader) GetMediaType() (encoding.ContentMediaType, bool) {
	return encoding.ContentMediaType{}, false
}
func (m memReader) GetMagicBytes() ([]byte, bool) { return nil, false }
func (m memReader) AddTee(w io.Writer)            {}

// refDecode: the dataset the library decoder of type `cti` reads from the bytes (base IRI as the command
// would use it). Runs with a deadline: the JSON-LD decoder may try to fetch remote contexts.
func refDecode(cti string, body []byte, base string) (qs []rdf.Quad, err error) {
	type res struct {
		qs  []rdf.Quad
		err error
	}
	ch := make(chan res, 1)
	go func() {
		var out res
		defer func() {
			if p := recover(); p != nil {
				out.err = fmt.Errorf("panic: %v", p)
			}
			ch <- out
		}()
		mgr, ok := rdfio.Registry.DecoderManagers[encoding.ContentTypeIdentifier(cti)]
		if !ok {
			out.err = fmt.Errorf("no decoder %s", cti)
			return
		}
		h, err := mgr.NewDecoder(memReader{bytes.NewReader(body), rdf.IRI(base)}, rdfiotypes.DecoderOptions{BaseIRI: rdf.IRI(base)})
		if err != nil {
			out.err = err
			return
		}
		// the harness' own adapter (not DecoderHandle.GetQuadsDecoder, which is under test)
		switch d := h.Decoder.(type) {
		case encoding.QuadsDecoder:
			for d.Next() {
				out.qs = append(out.qs, d.Quad())
			}
			out.err = d.Err()
		case encoding.TriplesDecoder:
			for d.Next() {
				out.qs = append(out.qs, rdf.Quad{Triple: d.Triple()})
			}
			out.err = d.Err()
		default:
			out.err = fmt.Errorf("decoder of unexpected type %T", h.Decoder)
		}
	}()
	select {
	case r := <-ch:
		return r.qs, r.err
	case <-time.After(time.Duration(20+len(body)/20000) * time.Second): // 20 s + 50 s per MB (family big)
		return nil, fmt.Errorf("reference decoder timed out")
	}
}

// decodeOutput: the library decoders, used directly (no registry).
func decodeOutput(cti string, body []byte) (qs []rdf.Quad, err error) {
	defer func() {
		if p := recover(); p != nil {
			err = fmt.Errorf("panic: %v", p)
		}
	}()
	switch cti {
	case "org.w3.n-triples":
		d, e := ntriples.NewDecoder(bytes.NewReader(body))
		if e != nil {
			return nil, e
		}
		for d.Next() {
			qs = append(qs, rdf.Quad{Triple: d.Triple()})
		}
		return qs, d.Err()
	case "org.w3.n-quads":
		d, e := nquads.NewDecoder(bytes.NewReader(body))
		if e != nil {
			return nil, e
		}
		for d.Next() {
			qs = append(qs, d.Quad())
		}
		return qs, d.Err()
	case "org.w3.turtle":
		d, e := turtle.NewDecoder(bytes.NewReader(body))
		if e != nil {
			return nil, e
		}
		for d.Next() {
			qs = append(qs, rdf.Quad{Triple: d.Triple()})
		}
		return qs, d.Err()
	case "org.w3.rdf-json":
		d, e := rdfjson.NewDecoder(bytes.NewReader(body))
		if e != nil {
			return nil, e
		}
		for d.Next() {
			qs = append(qs, rdf.Quad{Triple: d.Triple()})
		}
		return qs, d.Err()
	}
	return nil, fmt.Errorf("no output decoder for %s", cti)
}

func defaultGraphOnly(qs []rdf.Quad) []rdf.Quad {
	var out []rdf.Quad
	for _, q := range qs {
		if q.GraphName == nil {
			out = append(out, q)
		}
	}
	return out
}

func allTriples(qs []rdf.Quad) []rdf.Quad {
	out := make([]rdf.Quad, len(qs))
	for i, q := range qs {
		out[i] = rdf.Quad{Triple: q.Triple}
	}
	return out
}

func hasNamedGraph(qs []rdf.Quad) bool {
	for _, q := range qs {
		if q.GraphName != nil {
			return true
		}
	}
	return false
}

func countNodes(qs []rdf.Quad) int {
	seen := map[rdf.BlankNodeIdentifier]struct{}{}
	add := func(t rdf.Term) {
		if b, ok := t.(rdf.BlankNode); ok {
			seen[b.Identifier] = struct{}{}
		}
	}
	for _, q := range qs {
		add(q.Triple.Subject)
		add(q.Triple.Object)
		if q.GraphName != nil {
			add(q.GraphName)
		}
	}
	return len(seen)
}

// rawLabels scans N-Triples / N-Quads / plain Turtle text for blank node labels outside IRIs, strings and
// comments.
func rawLabels(b []byte) map[string]struct{} {
	out := map[string]struct{}{}
	i := 0
	n := len(b)
	for i < n {
		c := b[i]
		switch {
		case c == '<':
			for i < n && b[i] != '>' && b[i] != '\n' {
				i++
			}
		case c == '"' || c == '\'':
			q := c
			long := i+2 < n && b[i+1] == q && b[i+2] == q
			if long {
				i += 3
				for i < n && !(b[i] == q && i+2 < n && b[i+1] == q && b[i+2] == q) {
					if b[i] == '\\' {
						i++
					}
					i++
				}
				i += 2
			} else {
				i++
				for i < n && b[i] != q {
					if b[i] == '\\' {
						i++
					}
					i++
				}
			}
		case c == '\\': // escaped character of a prefixed name (`:ns\#p`)
			i++
		case c == '#':
			for i < n && b[i] != '\n' {
				i++
			}
		case c == '_' && i+1 < n && b[i+1] == ':' && (i == 0 || strings.ContainsRune(" \t\r\n,;([>\"", rune(b[i-1]))):
			// at the start of a token only (a prefixed name may contain "_:" in its local part)
			j := i + 2
			for j < n && !strings.ContainsRune(" \t\r\n,;)]<\"", rune(b[j])) {
				j++
			}
			lab := strings.TrimRight(string(b[i+2:j]), ".")
			out[lab] = struct{}{}
			i = j
			continue
		}
		i++
	}
	return out
}

func rjLabels(b []byte) map[string]struct{} {
	out := map[string]struct{}{}
	var v map[string]map[string][]map[string]any
	if json.Unmarshal(b, &v) != nil {
		return out
	}
	for s, ps := range v {
		if strings.HasPrefix(s, "_:") {
			out[s[2:]] = struct{}{}
		}
		for _, os := range ps {
			for _, o := range os {
				if o["type"] == "bnode" {
					if val, ok := o["value"].(string); ok && strings.HasPrefix(val, "_:") {
						out[val[2:]] = struct{}{}
					}
				}
			}
		}
	}
	return out
}

const zeroUUID = "00000000-0000-0000-0000-000000000000"

var reUUIDFull = regexp.MustCompile(`^[0-9a-f]{8}-[0-9a-f]{4}-[0-9a-f]{4}-[0-9a-f]{4}-[0-9a-f]{12}$`)

// ---------------------------------------------------------------- root-cause analysis

func goURLAbs(s string) bool {
	u, err := url.Parse(s)
	return err == nil && u.IsAbs()
}

func hasRejectedIRI(qs []rdf.Quad) bool {
	bad := func(t rdf.Term) bool {
		switch v := t.(type) {
		case rdf.IRI:
			return !goURLAbs(string(v))
		case rdf.Literal:
			return !goURLAbs(string(v.Datatype))
		}
		return false
	}
	for _, q := range qs {
		if bad(q.Triple.Subject) || bad(q.Triple.Predicate) || bad(q.Triple.Object) || (q.GraphName != nil && bad(q.GraphName)) {
			return true
		}
	}
	return false
}

// codecOnly: the statements the pipe hands to the target encoder, written by the library encoder configured by
// hand (no registry, no CLI, the encoder's own label provider) and read back. ok = the target codec round-trips
// this dataset with these options.
func codecOnly(c *e2eCase, encCti string, fed []rdf.Quad, writerIRI string) (ok bool, detail string) {
	var out []byte
	var err error
	ctx := context.Background()
	switch encCti {
	case "org.w3.n-triples", "org.w3.n-quads":
		var buf bytes.Buffer
		ascii := c.ascii != nil && *c.ascii
		func() {
			defer func() {
				if p := recover(); p != nil {
					err = fmt.Errorf("panic: %v", p)
				}
			}()
			if encCti == "org.w3.n-quads" {
				e, _ := nquads.NewEncoder(&buf, nquads.EncoderConfig{}.SetASCII(ascii))
				for _, q := range fed {
					if err = e.AddQuad(ctx, q); err != nil {
						return
					}
				}
			} else {
				e, _ := ntriples.NewEncoder(&buf, ntriples.EncoderConfig{}.SetASCII(ascii))
				for _, q := range fed {
					if err = e.AddTriple(ctx, q.Triple); err != nil {
						return
					}
				}
			}
		}()
		out = buf.Bytes()
	case "org.w3.turtle":
		o := c.ttl
		o.base = c.outBase
		if o.base == "" {
			o.base = writerIRI
		}
		var ts []rdf.Triple
		for _, q := range fed {
			ts = append(ts, q.Triple)
		}
		out, err = encodeTurtleLib(o, nil, ts)
	case "org.w3.rdf-json":
		var ts []rdf.Triple
		for _, q := range fed {
			ts = append(ts, q.Triple)
		}
		out, err = encodeRJ(nil, ts)
	default:
		return true, ""
	}
	if err != nil {
		return false, "library encoder fails: " + err.Error()
	}
	back, err := decodeOutput(encCti, out)
	if err != nil {
		return false, "library decoder rejects the library encoder's output: " + err.Error()
	}
	want := fed
	if encCti != "org.w3.n-quads" {
		want = allTriples(fed)
	}
	if !isoQuads(back, want) {
		return false, "library encoder → decoder does not return the dataset"
	}
	return true, ""
}

// resolveUnstable: resolving the absolute IRI v against the base does not return v (property C12; the Turtle
// decoder resolves every IRI once an @base directive is present). d14Keys names the classes of C12's finding
// family D14 ("net/url wrapper normalises") that v falls into, most specific first, then the family itself.
func resolveUnstable(base, v string) bool {
	b, err := iri.ParseIRI(base)
	if err != nil {
		return false
	}
	r, err := b.Parse(v)
	return err != nil || r.String() != v
}

// hasDotSegments: the path of the absolute IRI contains a "." or ".." segment (RFC 3986 resolution removes them;
// the Turtle/TriG decoders resolve absolute IRIs too once a base is in scope)
func hasDotSegments(v string) bool {
	_, rest, ok := strings.Cut(v, ":")
	if !ok {
		return false
	}
	if i := strings.IndexAny(rest, "?#"); i >= 0 {
		rest = rest[:i]
	}
	if strings.HasPrefix(rest, "//") {
		if i := strings.Index(rest[2:], "/"); i >= 0 {
			rest = rest[2+i:]
		} else {
			return false
		}
	}
	for _, seg := range strings.Split(rest, "/") {
		if seg == "." || seg == ".." {
			return true
		}
	}
	return false
}

func d14Keys(v string) []string {
	var keys []string
	if hasDotSegments(v) {
		keys = append(keys, "pred:C02:abs-iri-dot-segments")
	}
	scheme, rest, ok := strings.Cut(v, ":")
	if ok && strings.ToLower(scheme) != scheme {
		keys = append(keys, "D14-scheme-has-uppercase")
	}
	if strings.HasPrefix(rest, "//") {
		auth := rest[2:]
		if i := strings.IndexAny(auth, "/?#"); i >= 0 {
			auth = auth[:i]
		}
		if i := strings.LastIndex(auth, "@"); i >= 0 {
			keys = append(keys, "D14-userinfo-not-plain")
			auth = auth[i+1:]
		}
		if auth == "" || strings.HasPrefix(auth, ":") {
			keys = append(keys, "D14-empty-host")
		}
		if strings.HasPrefix(auth, "[v") || strings.HasPrefix(auth, "[V") {
			keys = append(keys, "D14-host-ipvfuture")
		}
		if strings.Contains(auth, "%") {
			keys = append(keys, "D14-host-pct-encoded")
		}
		for i := 0; i < len(auth); i++ {
			if auth[i] >= 0x80 {
				keys = append(keys, "D14-host-non-ascii")
				break
			}
		}
	} else if strings.HasPrefix(rest, "/") {
		keys = append(keys, "D14-opaque-reclassified-abs-path")
	}
	return append(keys, "D14-*")
}

func anyTerm(qs []rdf.Quad, pred func(rdf.Term) bool) bool {
	for _, q := range qs {
		if pred(q.Triple.Subject) || pred(q.Triple.Predicate) || pred(q.Triple.Object) || (q.GraphName != nil && pred(q.GraphName)) {
			return true
		}
	}
	return false
}

func unstableIRIs(base string, qs []rdf.Quad) []string {
	var out []string
	anyTerm(qs, func(t rdf.Term) bool {
		switch v := t.(type) {
		case rdf.IRI:
			if resolveUnstable(base, string(v)) {
				out = append(out, string(v))
			}
		case rdf.Literal:
			if resolveUnstable(base, string(v.Datatype)) {
				out = append(out, string(v.Datatype))
			}
		}
		return false
	})
	return out
}

func hasC1Control(qs []rdf.Quad) bool {
	return anyTerm(qs, func(t rdf.Term) bool {
		s := ""
		switch v := t.(type) {
		case rdf.IRI:
			s = string(v)
		case rdf.Literal:
			s = v.LexicalForm + string(v.Datatype)
		}
		for _, c := range s {
			if c >= 0x80 && c <= 0x9f {
				return true
			}
		}
		return false
	})
}

// codecKey guesses which recorded defect of another property a codec-only failure belongs to, by switching
// single options off and re-running the codec-only check. The result is a list of candidate keys separated
// by "/"; the first one listed in known-findings.json with status "known" is used.
func codecKey(c *e2eCase, encCti string, fed []rdf.Quad, writerIRI string) string {
	if hasRejectedIRI(fed) {
		return "D3"
	}
	if encCti == "org.w3.rdf-json" && hasC1Control(fed) {
		return "pred:C01:rj-c1-control-raw"
	}
	if encCti != "org.w3.turtle" {
		return "codec:" + encCti
	}
	try := func(mod func(*e2eCase)) bool {
		cc := *c
		mod(&cc)
		ok, _ := codecOnly(&cc, encCti, fed, writerIRI)
		return ok
	}
	if c.ttl.resources != nil && *c.ttl.resources && try(func(x *e2eCase) { x.ttl.resources = boolp(false) }) {
		return "ttl-resources/D7/D19"
	}
	if try(func(x *e2eCase) { x.ttl.prefixes = []string{"none"} }) {
		return "ttl-prefix/D5"
	}
	if try(func(x *e2eCase) { x.ttl.useBase = boolp(false) }) {
		base := c.outBase
		if base == "" {
			base = writerIRI
		}
		if us := unstableIRIs(base, fed); len(us) > 0 {
			// the decoder resolves every IRI once @base is written; the net/url wrapper re-prints some differently
			return strings.Join(d14Keys(us[0]), "/")
		}
		return "ttl-base/D12"
	}
	return "ttl-literal-or-token/D4/D6"
}

// lookupKnown: a candidate is a key ("D3"), a key family ("D14-*": any listed key with that prefix) or a
// predicate of another property ("pred:C01:rj-c1-control-raw"); only entries with status "known" count.
func (g *gen) lookupKnown(k string) (vh.Finding, bool) {
	if strings.HasPrefix(k, "pred:") {
		p := strings.SplitN(k, ":", 3)
		for _, f := range g.allKnown {
			if f.Property == p[1] && f.Predicate == p[2] {
				return f, true
			}
		}
		return vh.Finding{}, false
	}
	if strings.HasSuffix(k, "*") {
		for _, f := range g.allKnown {
			if strings.HasPrefix(f.Key, strings.TrimSuffix(k, "*")) {
				return f, true
			}
		}
		return vh.Finding{}, false
	}
	f, ok := g.knownByKey[k]
	return f, ok
}

// ---------------------------------------------------------------- evaluation

type verdict struct {
	kind   string // "", "violation", "known"
	key    string
	detail string
	class  string // histogram bucket
}

func predictTypes(c *e2eCase) {
	reg := rdfio.Registry
	rr := &fakeReader{body: bytes.NewReader(nil)}
	peek := c.src.body
	if len(peek) > 1024 {
		peek = peek[:1024]
	}
	rr.magic = peek
	switch c.inMode {
	case "media":
		// what httpresource reports: the parsed Content-Type and the file name of the URL / disposition
		mt := strings.ToLower(strings.TrimSpace(strings.SplitN(c.media, ";", 2)[0]))
		parts := strings.SplitN(mt, "/", 2)
		rr.media = &encoding.ContentMediaType{Type: parts[0], Subtype: parts[1]}
		rr.fileName, rr.hasName = c.inName, true
		if c.dispo != "" {
			rr.fileName = strings.TrimSuffix(strings.SplitN(c.dispo, "filename=\"", 2)[1], "\"")
		}
	case "stdin-alias", "stdin-sniff":
		rr.fileName, rr.hasName = "stdin", true
	default:
		rr.fileName, rr.hasName = c.inName, true
	}
	c.predDec = openDec(reg, rr, c.inType, "org.w3.trig")
	ww := &fakeWriter{}
	if c.outName == "" {
		ww.fileName, ww.hasName = "stdout", true
	} else {
		ww.fileName, ww.hasName = filepath.Base(c.outName), true
	}
	c.predEnc = openEnc(reg, ww, c.outType, "org.w3.n-quads")
}

// paramsFit: every --out-param belongs to the encoder that is opened (the registry may resolve another type
// than the case intended, e.g. N-Quads for `out.TTL`)
func paramsFit(c *e2eCase, encCti string) bool {
	allowed := map[string][]string{
		"org.w3.n-quads": {"ascii"}, "org.w3.n-triples": {"ascii"}, "org.w3.rdf-json": {},
		"org.w3.turtle": {"buffered", "resources", "iris.useBase", "iris.usePrefix"},
	}[encCti]
	for _, p := range c.outParam {
		k := strings.SplitN(p, "=", 2)[0]
		if k == "nosuchparam" {
			continue
		}
		ok := false
		for _, a := range allowed {
			ok = ok || a == k
		}
		if !ok {
			return false
		}
	}
	return true
}

func untok(x string) string {
	b, err := vh.UnX(x)
	if err != nil {
		return x
	}
	return string(b)
}

// N-Triples / Turtle BLANK_NODE_LABEL: (PN_CHARS_U | [0-9]) ((PN_CHARS | '.')* PN_CHARS)?
func pnCharsBase(c rune) bool {
	return (c >= 'A' && c <= 'Z') || (c >= 'a' && c <= 'z') || (c >= 0xC0 && c <= 0xD6) || (c >= 0xD8 && c <= 0xF6) ||
		(c >= 0xF8 && c <= 0x2FF) || (c >= 0x370 && c <= 0x37D) || (c >= 0x37F && c <= 0x1FFF) || (c >= 0x200C && c <= 0x200D) ||
		(c >= 0x2070 && c <= 0x218F) || (c >= 0x2C00 && c <= 0x2FEF) || (c >= 0x3001 && c <= 0xD7FF) || (c >= 0xF900 && c <= 0xFDCF) ||
		(c >= 0xFDF0 && c <= 0xFFFD) || (c >= 0x10000 && c <= 0xEFFFF)
}
func pnCharsU(c rune) bool { return pnCharsBase(c) || c == '_' }
func pnChars(c rune) bool {
	return pnCharsU(c) || c == '-' || (c >= '0' && c <= '9') || c == 0xB7 || (c >= 0x300 && c <= 0x36F) || (c >= 0x203F && c <= 0x2040)
}
func validLabel(l string) bool {
	rs := []rune(l)
	if len(rs) == 0 || !(pnCharsU(rs[0]) || (rs[0] >= '0' && rs[0] <= '9')) {
		return false
	}
	for _, c := range rs[1:] {
		if !pnChars(c) && c != '.' {
			return false
		}
	}
	return len(rs) == 1 || pnChars(rs[len(rs)-1])
}

// invalidPropagatedLabel: a label the decoder's factory hands through to the encoder that is not a
// BLANK_NODE_LABEL of N-Triples / N-Quads / Turtle.
func invalidPropagatedLabel(cti string, body []byte, base string) (string, bool) {
	defer func() { recover() }()
	mgr, ok := rdfio.Registry.DecoderManagers[encoding.ContentTypeIdentifier(cti)]
	if !ok {
		return "", false
	}
	h, err := mgr.NewDecoder(memReader{bytes.NewReader(body), rdf.IRI(base)}, rdfiotypes.DecoderOptions{BaseIRI: rdf.IRI(base)})
	if err != nil {
		return "", false
	}
	prov := rdfiotypes.PropagateDecoderPipeBlankNodeStringProvider(h)
	if prov == nil {
		return "", false
	}
	d := h.GetQuadsDecoder()
	bad, found := "", false
	check := func(t rdf.Term) {
		if b, ok := t.(rdf.BlankNode); ok && !found {
			if l := prov.GetBlankNodeString(b); !validLabel(l) {
				bad, found = l, true
			}
		}
	}
	for d.Next() {
		q := d.Quad()
		check(q.Triple.Subject)
		check(q.Triple.Object)
		if q.GraphName != nil {
			check(q.GraphName)
		}
	}
	return bad, found
}

func (g *gen) knownOrViolation(predicate, detail, class string) verdict {
	if f, ok := g.known[predicate]; ok {
		return verdict{"known", f.Key, detail, class}
	}
	return verdict{"violation", "", detail, class}
}

func (g *gen) evaluate(c *e2eCase) verdict {
	if c.timedOut {
		return verdict{"violation", "", "rdfkit pipe did not finish within its time limit (30 s; 150 s for the large documents): " + c.describe(), "timeout"}
	}
	if strings.HasPrefix(c.predDec, "panic:") || strings.HasPrefix(c.predEnc, "panic:") {
		return verdict{"violation", "", "the registry code panics when called in-process (" + c.predDec + " / " + c.predEnc + "): " + c.describe(), "registry-panic"}
	}
	if c.predDec == "-" || c.predEnc == "-" || strings.HasPrefix(c.predDec, "error:") || strings.HasPrefix(c.predEnc, "error:") {
		if c.exit == 0 {
			return verdict{"violation", "", "the registry resolves no type (" + c.predDec + "/" + c.predEnc + ") but the command succeeded: " + c.describe(), "unresolved-but-ok"}
		}
		return verdict{class: "unresolved-fails"}
	}
	decCti, encCti := untok(c.predDec), untok(c.predEnc)
	trueCti := formats[c.src.format].cti
	base := c.expectIRI
	if c.inBase != "" {
		base = c.inBase
	}
	if !paramsFit(c, encCti) {
		if c.exit == 0 {
			return verdict{"violation", "", "parameters of another encoder accepted by " + encCti + ": " + c.describe(), "param-mismatch-ok"}
		}
		return verdict{class: "param-mismatch-fails"}
	}
	if c.badParam {
		if c.exit == 0 {
			return verdict{"violation", "", "unknown --out-param accepted: " + c.describe(), "bad-param-ok"}
		}
		return verdict{class: "bad-param-fails"}
	}
	// the dataset stored in the document: what the library decoder of the document's own format reads
	ref, rerr := refDecode(trueCti, c.src.body, base)
	if rerr != nil {
		if c.exit == 0 && decCti == trueCti {
			return verdict{"violation", "", fmt.Sprintf("the %s decoder rejects the input (%v) but the command reported success: %s", decCti, rerr, c.describe()), "decoder-error-swallowed"}
		}
		return verdict{class: "source-undecodable"}
	}
	if _, isTarget := map[string]bool{"org.w3.n-quads": true, "org.w3.n-triples": true, "org.w3.turtle": true, "org.w3.rdf-json": true}[encCti]; !isTarget {
		return verdict{class: "dev-encoder"}
	}
	fed := ref // the statements the pipe hands to the encoder
	quadsTarget := encCti == "org.w3.n-quads"
	expected := ref
	if !quadsTarget {
		expected = defaultGraphOnly(ref) // the property: restricted to the default graph
	}
	writerIRI := "file:///dev/stdout"
	if c.outName != "" {
		writerIRI = "file://" + filepath.Join(g.scratch, fmt.Sprintf("c%d", c.id), "o", c.outName)
	}

	// the registry chose another decoder than the document's format
	misdetected := func(symptom string, silent bool) verdict {
		what := fmt.Sprintf("the document is %s but the registry resolves %s", trueCti, decCti)
		switch c.inMode {
		case "ext":
			// the file carries the registered extension of its format; a magic-byte resolver claimed it first
			return g.knownOrViolation("magic-overrides-extension", symptom+"; "+what+" although the file extension names the right format (magic bytes rank above the extension) — "+c.describe(), "magic-overrides-extension")
		case "sniff", "stdin-sniff":
			if us := unstableIRIs(base, ref); len(us) > 0 && (decCti == "org.w3.trig" || decCti == "org.w3.turtle") && (trueCti == "org.w3.n-triples" || trueCti == "org.w3.n-quads" || trueCti == "org.w3.turtle") {
				// the TriG fallback reads the same statements but resolves every IRI against the base (C12's D14 family)
				for _, k := range d14Keys(us[0]) {
					if f, ok := g.lookupKnown(k); ok {
						return verdict{"known", f.Key, symptom + "; " + what + " (fallback), whose decoder re-prints " + us[0] + " differently — " + c.describe(), "codec:" + k}
					}
				}
			}
			if !silent {
				return verdict{class: "undetectable-fails-loudly"} // nothing to go by; the command says so
			}
			return g.knownOrViolation("sniffed-as-other-format", symptom+"; "+what+" by content sniffing and the command reports success — "+c.describe(), "sniffed-as-other-format")
		}
		return verdict{"violation", "", symptom + "; " + what + " — " + c.describe(), "misresolved"}
	}
	rootCause := func(symptom string) verdict {
		if ok, why := codecOnly(c, encCti, fed, writerIRI); !ok {
			key := codecKey(c, encCti, fed, writerIRI)
			d := fmt.Sprintf("%s; root cause outside the registry/CLI: the target codec alone fails on this dataset with these options (%s) [class %s] — %s", symptom, why, key, c.describe())
			for _, k := range strings.Split(key, "/") {
				if f, ok := g.lookupKnown(k); ok {
					return verdict{"known", f.Key, d, "codec:" + k}
				}
			}
			return verdict{"violation", "", d, "codec:" + key}
		}
		if bytes.Contains(c.output, []byte(zeroUUID)) {
			d := symptom + "; anonymous nodes are labelled with the zero UUID (uuidStringProvider first-call defect D15) — " + c.describe()
			if f, ok := g.knownByKey["D15"]; ok {
				return verdict{"known", f.Key, d, "D15"}
			}
			return verdict{"violation", "", d, "D15"}
		}
		if encCti != "org.w3.rdf-json" {
			if l, bad := invalidPropagatedLabel(trueCti, c.src.body, base); bad {
				return g.knownOrViolation("label-not-valid-in-target", fmt.Sprintf("%s; the source label %q is handed through to a target whose grammar does not admit it — %s", symptom, l, c.describe()), "label-not-valid-in-target")
			}
		}
		return verdict{"violation", "", symptom + " — " + c.describe(), "wiring"}
	}
	fail := func(symptom string, silent bool) verdict {
		if decCti != trueCti {
			// harmless when the other decoder reads the same dataset (N-Triples or Turtle read as TriG)
			if other, err := refDecode(decCti, c.src.body, base); err != nil || !isoQuads(other, ref) {
				return misdetected(symptom, silent)
			}
		}
		return rootCause(symptom)
	}
	if c.exit != 0 {
		return fail(fmt.Sprintf("rdfkit pipe failed (exit %d: %s) although the %s decoder reads the input", c.exit, strings.TrimSpace(strings.SplitN(c.stderr, "\n", 2)[0]), trueCti), false)
	}
	got, derr := decodeOutput(encCti, c.output)
	if derr != nil {
		return fail(fmt.Sprintf("the output is not readable as %s: %v", encCti, derr), true)
	}
	if !isoQuads(got, expected) {
		if decCti == trueCti && !quadsTarget && hasNamedGraph(ref) && isoQuads(got, allTriples(ref)) {
			d := "triples-only target received the statements of named graphs (QuadAsTripleEncoder drops the graph name instead of the statement) — " + c.describe()
			return g.knownOrViolation("named-graph-to-triples-target", d, "D20")
		}
		return fail(fmt.Sprintf("output dataset (%d statements, %d blank nodes) is not isomorphic to the source dataset (%d statements, %d blank nodes)", len(got), countNodes(got), len(expected), countNodes(expected)), true)
	}
	// labels on the raw output: as many labels as blank nodes; no zero UUID; labels of an NT/NQ source survive
	var labels map[string]struct{}
	switch {
	case encCti == "org.w3.rdf-json":
		labels = rjLabels(c.output)
	case encCti == "org.w3.turtle" && !(c.ttl.buffered != nil && !*c.ttl.buffered && (c.ttl.resources == nil || !*c.ttl.resources)):
		labels = nil // the buffered / resources modes write some nodes anonymously ([ … ], [])
		if bytes.Contains(c.output, []byte(zeroUUID)) {
			return rootCause("output uses the zero UUID as a label")
		}
	default:
		labels = rawLabels(c.output)
	}
	if labels != nil {
		if _, z := labels[zeroUUID]; z {
			return rootCause("output uses the zero UUID as a label")
		}
		if len(labels) != countNodes(expected) {
			return verdict{"violation", "", fmt.Sprintf("raw output has %d distinct labels for %d blank nodes — %s", len(labels), countNodes(expected), c.describe()), "label-count"}
		}
		if (c.src.format == "nt" || c.src.format == "nq") && decCti == trueCti && (quadsTarget || c.src.format == "nt") {
			src := rawLabels(c.src.body)
			for l := range labels {
				if _, ok := src[l]; !ok {
					// not a violation of the property (labels are free) but of the modelled mechanism: the model hands
					// the labels of the decoding factory through (pipe_labels_injective, σ (bnString j v) = v)
					return verdict{"disagreement", "", fmt.Sprintf("label %q of the output does not occur in the source: the model hands source labels through (PropagateDecoderPipeBlankNodeStringProvider) — %s", l, c.describe()), "label-passthrough"}
				}
			}
		}
	}
	if decCti != trueCti {
		return verdict{class: "ok-other-decoder"}
	}
	return verdict{class: "ok"}
}

// ---------------------------------------------------------------- driver of the end-to-end part

func (g *gen) e2e(n int) {
	cases := make([]*e2eCase, n)
	nBig := 6 * *scale
	if *tier == "thorough" {
		nBig = 42 * *scale
	}
	if nBig > n/4 {
		nBig = n / 4
	}
	for i := range cases {
		switch {
		case i < nBig:
			h := g.bigHint(i)
			cases[i] = g.e2eCaseHint(i, &h)
		case i%8 == 3:
			h := g.nearbaseHint()
			cases[i] = g.e2eCaseHint(i, &h)
		case i%8 == 7:
			h := g.pnlocalHint()
			cases[i] = g.e2eCaseHint(i, &h)
		default:
			cases[i] = g.e2eCase(i)
		}
		predictTypes(cases[i])
	}
	workers := 8
	var wg sync.WaitGroup
	ch := make(chan *e2eCase)
	for w := 0; w < workers; w++ {
		wg.Add(1)
		go func() {
			defer wg.Done()
			for c := range ch {
				g.runCase(c)
			}
		}()
	}
	for _, c := range cases {
		ch <- c
	}
	close(ch)
	wg.Wait()
	// evaluation (in-process decoding) in parallel, reporting in order
	verdicts := make([]verdict, n)
	ch2 := make(chan int)
	for w := 0; w < workers; w++ {
		wg.Add(1)
		go func() {
			defer wg.Done()
			for i := range ch2 {
				verdicts[i] = g.evaluate(cases[i])
				cases[i].output = nil
			}
		}()
	}
	for i := range cases {
		ch2 <- i
	}
	close(ch2)
	wg.Wait()
	for i, c := range cases {
		v := verdicts[i]
		h := fnv.New64a()
		h.Write(c.src.body)
		canonical := fmt.Sprintf("pipe %s→%s in=%s out=%s params=%v doc=%x", c.src.format, c.target, c.inMode, c.outMode, c.outParam, h.Sum64())
		g.rep.Eval(canonical, len(c.src.body) > 0 && (v.class == "ok" || v.class == "ok-other-decoder" || v.kind != ""))
		g.rep.Count("e2e:source:" + c.src.format)
		g.rep.Count("e2e:origin:" + strings.SplitN(c.src.origin, ":", 2)[0])
		g.rep.Count("e2e:target:" + c.target)
		g.rep.Count("e2e:in:" + c.inMode)
		g.rep.Count("e2e:out:" + c.outMode)
		g.rep.Count("e2e:outcome:" + v.class)
		if c.family != "" {
			g.rep.Count("e2e:family:" + c.family)
			g.rep.Count("fam:" + c.family + ":outcome:" + v.class)
			g.rep.Count("fam:" + c.family + ":source:" + c.src.format)
		}
		for _, p := range c.outParam {
			g.rep.Count("e2e:param:" + strings.SplitN(p, "=", 2)[0])
		}
		if v.kind == "known" {
			g.knownSeen[v.key]++
			g.rep.Count("e2e:known:" + v.key)
		}
		if v.kind == "violation" || v.kind == "disagreement" || (v.kind == "known" && g.knownSeen[v.key] <= 3) {
			op := "rdfkit " + strings.Join(caseArgs(c), " ")
			doc := string(c.src.body)
			if len(doc) > 1500 {
				doc = doc[:1500] + "…"
			}
			g.rep.Add(vh.Case{Kind: v.kind, Key: v.key, Op: op, Detail: v.detail + "\nSOURCE DOCUMENT:\n" + doc})
			if v.kind == "violation" {
				g.saveReplay(c)
			}
		}
		os.RemoveAll(filepath.Join(g.scratch, fmt.Sprintf("c%d", c.id)))
	}
	for k, v := range bigStats.n {
		g.rep.Hist[k] += v
	}
}

func caseArgs(c *e2eCase) []string {
	a := []string{"pipe", "-i", "<" + c.inMode + ":" + c.inName + ">"}
	if c.inType != "" {
		a = append(a, "--in-type", c.inType)
	}
	if c.inBase != "" {
		a = append(a, "--in-base", c.inBase)
	}
	if c.outName != "" {
		a = append(a, "-o", c.outName)
	}
	if c.outType != "" {
		a = append(a, "--out-type", c.outType)
	}
	if c.outBase != "" {
		a = append(a, "--out-base", c.outBase)
	}
	for _, p := range c.outParam {
		a = append(a, "--out-param", p)
	}
	return a
}

// replay files: JSON with everything needed to run one case again (-replay)
type replayCase struct {
	Format, Origin, Body                                 string
	Target, InMode, InType, InName, InBase, Media, Dispo string
	OutMode, OutType, OutName, OutBase                   string
	OutParam                                             []string
	Ttl                                                  struct {
		Buffered, Resources, UseBase *bool
		Prefixes                     []string
	}
	Ascii    *bool
	BadParam bool
}

func (g *gen) saveReplay(c *e2eCase) {
	if g.replayDir == "" || g.replaysSaved >= 5 {
		return
	}
	g.replaysSaved++
	rc := replayCase{Format: c.src.format, Origin: c.src.origin, Body: string(c.src.body), Target: c.target, InMode: c.inMode, InType: c.inType,
		InName: c.inName, InBase: c.inBase, Media: c.media, Dispo: c.dispo, OutMode: c.outMode, OutType: c.outType, OutName: c.outName,
		OutBase: c.outBase, OutParam: c.outParam, Ascii: c.ascii, BadParam: c.badParam}
	rc.Ttl.Buffered, rc.Ttl.Resources, rc.Ttl.UseBase, rc.Ttl.Prefixes = c.ttl.buffered, c.ttl.resources, c.ttl.useBase, c.ttl.prefixes
	b, _ := json.MarshalIndent(rc, "", " ")
	os.MkdirAll(g.replayDir, 0o755)
	os.WriteFile(filepath.Join(g.replayDir, fmt.Sprintf("C18-case-seed%d-%d.json", g.seed, c.id)), b, 0o644)
}

func loadReplay(path string) (*e2eCase, error) {
	b, err := os.ReadFile(path)
	if err != nil {
		return nil, err
	}
	var rc replayCase
	if err := json.Unmarshal(b, &rc); err != nil {
		return nil, err
	}
	c := &e2eCase{src: sourceDoc{rc.Format, rc.Origin, []byte(rc.Body)}, target: rc.Target, inMode: rc.InMode, inType: rc.InType, inName: rc.InName,
		inBase: rc.InBase, media: rc.Media, dispo: rc.Dispo, outMode: rc.OutMode, outType: rc.OutType, outName: rc.OutName, outBase: rc.OutBase,
		outParam: rc.OutParam, ascii: rc.Ascii, badParam: rc.BadParam}
	c.ttl = ttlOpts{buffered: rc.Ttl.Buffered, resources: rc.Ttl.Resources, useBase: rc.Ttl.UseBase, prefixes: rc.Ttl.Prefixes}
	return c, nil
}

func sortedKeys(m map[string]struct{}) []string {
	var k []string
	for x := range m {
		k = append(k, x)
	}
	sort.Strings(k)
	return k
}
