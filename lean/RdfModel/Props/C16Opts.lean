/-
  C16 — option plumbing of the decoders with offset capture (`DecoderConfig.apply` folded over the option
  list of `NewDecoder`), about the executable model `Model/DecoderOpts.lean` the driver runs (op `offx.opts`).

  The property text quantifies over "configurations": the initial offset and the capture flag reach the
  decoder through an option LIST, each option a chain of setter calls. The theorems say that the
  effective configuration is the last-writer-wins merge per field, independent of how a chain of setters
  is cut into option values.
-/
import RdfModel.Model.DecoderOpts
namespace RdfModel.C16Opts
open RdfModel.DecOpts RdfModel.TW

theorem apply_empty_right (o : Cfg) : o.apply Cfg.empty = o := by
  cases o with
  | mk c i b f l => cases c <;> cases i <;> cases b <;> cases f <;> cases l <;> rfl

theorem apply_empty_left (s : Cfg) : Cfg.empty.apply s = s := by
  cases s; rfl

theorem apply_assoc (a b c : Cfg) : a.apply (b.apply c) = (a.apply b).apply c := by
  cases a with
  | mk c1 i1 b1 f1 l1 =>
    cases b with
    | mk c2 i2 b2 f2 l2 =>
      cases c1 <;> cases i1 <;> cases b1 <;> cases f1 <;> cases l1 <;>
        cases c2 <;> cases i2 <;> cases b2 <;> cases f2 <;> cases l2 <;> rfl

theorem foldl_apply (opts : List Cfg) (s : Cfg) :
    opts.foldl (fun s o => o.apply s) s = (compile opts).apply s := by
  induction opts generalizing s with
  | nil => simp [compile, apply_empty_left]
  | cons o os ih =>
    simp only [compile, List.foldl_cons]
    rw [ih (o.apply s), ih (o.apply Cfg.empty), apply_empty_right, apply_assoc]

/-- `NewDecoder(r, a..., b...)` is `NewDecoder(r, b...)`'s configuration applied on top of
    `NewDecoder(r, a...)`'s: the compiled option list is a monoid homomorphism into (`apply`, `{}`). -/
theorem compile_append (a b : List Cfg) : compile (a ++ b) = (compile b).apply (compile a) := by
  simp only [compile, List.foldl_append]
  exact foldl_apply b _

/-- last option of the list that sets the field `f` -/
def lastSet {α : Type} (f : Cfg → Option α) (opts : List Cfg) : Option α := opts.reverse.findSome? f

theorem lastSet_cons {α : Type} (f : Cfg → Option α) (o : Cfg) (opts : List Cfg) :
    lastSet f (o :: opts) = match lastSet f opts with | some v => some v | none => f o := by
  simp only [lastSet, List.reverse_cons, List.findSome?_append, List.findSome?_cons, List.findSome?_nil]
  cases List.findSome? f opts.reverse <;> cases f o <;> rfl

theorem foldl_field {α : Type} (f : Cfg → Option α)
    (hf : ∀ o s : Cfg, f (o.apply s) = match f o with | some v => some v | none => f s)
    (opts : List Cfg) (s : Cfg) :
    f (opts.foldl (fun s o => o.apply s) s) = match lastSet f opts with | some v => some v | none => f s := by
  induction opts generalizing s with
  | nil => simp [lastSet]
  | cons o os ih =>
    simp only [List.foldl_cons, ih, lastSet_cons, hf]
    cases lastSet f os <;> cases f o <;> rfl

/-- **apply_merge**: the compiled configuration is the last-writer-wins merge per field — each field has
    the value of the LAST option of the list that sets it (`nil` = unset everywhere), whatever the other
    fields of that or any other option are. In particular an option that sets only the capture flag
    cannot disturb an initial offset set by an earlier option (seeded defect C16r3-2). -/
theorem apply_merge (opts : List Cfg) :
    (compile opts).capture = lastSet (·.capture) opts ∧
    (compile opts).init = lastSet (·.init) opts ∧
    (compile opts).base = lastSet (·.base) opts ∧
    (compile opts).factory = lastSet (·.factory) opts ∧
    (compile opts).listener = lastSet (·.listener) opts := by
  refine ⟨?_, ?_, ?_, ?_, ?_⟩
  · have h := foldl_field (·.capture) (fun o s => by simp only [Cfg.apply]; cases o.capture <;> rfl) opts Cfg.empty
    unfold compile; rw [h]; cases lastSet (·.capture) opts <;> rfl
  · have h := foldl_field (·.init) (fun o s => by simp only [Cfg.apply]; cases o.init <;> rfl) opts Cfg.empty
    unfold compile; rw [h]; cases lastSet (·.init) opts <;> rfl
  · have h := foldl_field (·.base) (fun o s => by simp only [Cfg.apply]; cases o.base <;> rfl) opts Cfg.empty
    unfold compile; rw [h]; cases lastSet (·.base) opts <;> rfl
  · have h := foldl_field (·.factory) (fun o s => by simp only [Cfg.apply]; cases o.factory <;> rfl) opts Cfg.empty
    unfold compile; rw [h]; cases lastSet (·.factory) opts <;> rfl
  · have h := foldl_field (·.listener) (fun o s => by simp only [Cfg.apply]; cases o.listener <;> rfl) opts Cfg.empty
    unfold compile; rw [h]; cases lastSet (·.listener) opts <;> rfl

/-- a setter call is the application of the one-setter option -/
theorem set_eq_apply (s : Setter) (c : Cfg) : s.set c = (build [s]).apply c := by
  cases s <;> cases c <;> rfl

theorem build_eq_compile (ss : List Setter) : build ss = compile (ss.map (fun s => build [s])) := by
  simp only [build, compile, List.foldl_map]
  congr 1
  funext c s
  exact set_eq_apply s c

theorem build_append (a b : List Setter) : build (a ++ b) = (build b).apply (build a) := by
  rw [build_eq_compile, List.map_append, compile_append, ← build_eq_compile, ← build_eq_compile]

/-- **split_irrelevant**: cutting a chain of setter calls into any number of option values (in the same
    order) does not change the compiled configuration: `NewDecoder(r, C{}.A().B(), C{}.C())` =
    `NewDecoder(r, C{}.A().B().C())` = `NewDecoder(r, C{}.A(), C{}.B(), C{}.C())`. -/
theorem split_irrelevant (chunks : List (List Setter)) :
    compile (chunks.map build) = build chunks.flatten := by
  induction chunks with
  | nil => rfl
  | cons c cs ih =>
    have e : (c :: cs).map build = [build c] ++ cs.map build := rfl
    rw [e, compile_append, ih, List.flatten_cons, build_append]
    simp [compile, apply_empty_right]

theorem newDecoder_flatten (chunks : List (List Setter)) :
    newDecoder chunks = (build chunks.flatten).effective := by
  simp [newDecoder, split_irrelevant]

/-- a setter that can take an initial offset away again: a later `SetInitialTextOffset` or
    `SetCaptureTextOffsets(false)` -/
def touchesInitial : Setter → Bool
  | .capture v => !v
  | .initial _ => true
  | _ => false

theorem build_keeps (b : List Setter) (c : Cfg) (o : Offset)
    (hb : ∀ s ∈ b, touchesInitial s = false) (hc : c.capture = some true) (hi : c.init = some o) :
    (b.foldl (fun c s => s.set c) c).capture = some true ∧ (b.foldl (fun c s => s.set c) c).init = some o := by
  induction b generalizing c with
  | nil => exact ⟨hc, hi⟩
  | cons s ss ih =>
    simp only [List.foldl_cons]
    have hs := hb s (by simp)
    apply ih _ (fun t ht => hb t (List.mem_cons_of_mem _ ht))
    · cases s <;> simp_all [Setter.set, touchesInitial]
    · cases s <;> simp_all [Setter.set, touchesInitial]

/-- **initial_offset_survives**: once some option value calls `SetInitialTextOffset(o)`, every later
    setter in that or any later option value that is neither another `SetInitialTextOffset` nor
    `SetCaptureTextOffsets(false)` — e.g. `SetCaptureTextOffsets(true)`, listeners, base, factory — leaves
    the decoder with a text writer starting at exactly `o`. -/
theorem initial_offset_survives (pre post : List (List Setter)) (a b : List Setter) (o : Offset)
    (hb : ∀ s ∈ b, touchesInitial s = false)
    (hpost : ∀ c ∈ post, ∀ s ∈ c, touchesInitial s = false) :
    (newDecoder (pre ++ [a ++ [.initial o] ++ b] ++ post)).writer = some o := by
  rw [newDecoder_flatten]
  simp only [List.flatten_append, List.flatten_cons, List.flatten_nil, List.append_nil, List.append_assoc]
  have h := build_keeps (b ++ post.flatten) ((Setter.initial o).set (build (pre.flatten ++ a))) o
    (by
      intro s hs
      rcases List.mem_append.mp hs with h | h
      · exact hb s h
      · obtain ⟨c, hc, hsc⟩ := List.mem_flatten.mp h
        exact hpost c hc s hsc)
    (by simp [Setter.set]) (by simp [Setter.set])
  have e : build (pre.flatten ++ (a ++ (Setter.initial o :: (b ++ post.flatten)))) =
      (b ++ post.flatten).foldl (fun c s => s.set c) ((Setter.initial o).set (build (pre.flatten ++ a))) := by
    simp [build, List.foldl_append]
  have e' : pre.flatten ++ (a ++ ([Setter.initial o] ++ (b ++ post.flatten))) =
      pre.flatten ++ (a ++ (Setter.initial o :: (b ++ post.flatten))) := rfl
  rw [e', e]
  simp only [Cfg.effective, h.1, h.2]
  rfl

/-- the hypotheses are satisfiable by the seeded scenario: offset first, bare capture flag and a listener
    in later options -/
example : (newDecoder ([[.factory 0]] ++ [[] ++ [.initial ⟨4096, 12, 5⟩] ++ [.base 1]] ++
    [[.capture true], [.listener 2]])).writer = some ⟨4096, 12, 5⟩ :=
  initial_offset_survives _ _ _ _ _ (by decide) (by decide)

/-- capture off (never set, or last set to false) means no writer: no range can be reported -/
theorem no_writer_without_capture (chunks : List (List Setter))
    (h : (build chunks.flatten).capture ≠ some true) : (newDecoder chunks).writer = none := by
  rw [newDecoder_flatten]
  simp [Cfg.effective, h]

example : (newDecoder [[.initial ⟨7, 0, 7⟩], [.capture false]]).writer = none := by decide

/-- setters never produce an initial offset without a capture flag -/
theorem foldl_set_wf (ss : List Setter) (c : Cfg) (h : c.init ≠ none → c.capture ≠ none) :
    (ss.foldl (fun c s => s.set c) c).init ≠ none → (ss.foldl (fun c s => s.set c) c).capture ≠ none := by
  induction ss generalizing c with
  | nil => exact h
  | cons s ss ih =>
    simp only [List.foldl_cons]
    apply ih
    cases s <;> simp_all [Setter.set]

/-- **htmldefaults_forward_faithful** (repaired code, patch c16opts-1): re-issuing the compiled configuration
    on the inner `html.DocumentConfig` gives the HTML document exactly the writer and base the outer
    option list asked for. -/
theorem htmldefaults_forward_faithful (opts : List (List Setter)) :
    (newDecoderHtmlDefaults false opts).writer = (newDecoder opts).writer ∧
    (newDecoderHtmlDefaults false opts).base = (newDecoder opts).base := by
  simp only [newDecoderHtmlDefaults, newDecoder, split_irrelevant]
  have hw := foldl_set_wf opts.flatten Cfg.empty (by simp [Cfg.empty])
  change (build opts.flatten).init ≠ none → (build opts.flatten).capture ≠ none at hw
  generalize build opts.flatten = c at hw
  cases c with
  | mk c i b f l =>
    cases c with
    | none =>
      cases i with
      | none => cases b <;> simp [htmlDefaultsForward, build, Setter.set, Cfg.effective, Cfg.empty]
      | some o => exact absurd rfl (hw (by simp))
    | some v => cases v <;> cases i <;> cases b <;>
        simp [htmlDefaultsForward, build, Setter.set, Cfg.effective, Cfg.empty]

/-- the unrepaired forwarding order turns capture back on: `SetInitialTextOffset(o).SetCaptureTextOffsets(false)` -/
theorem htmldefaults_forward_fails_legacy :
    ∃ opts, (newDecoderHtmlDefaults true opts).writer ≠ (newDecoder opts).writer :=
  ⟨[[.initial ⟨7, 0, 7⟩, .capture false]], by decide⟩

end RdfModel.C16Opts
