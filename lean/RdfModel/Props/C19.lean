/-
  Property C19 — the in-memory dataset behaves as a mathematical set of quads (theorems only;
  helper lemmas live in RdfModel/Proofs/C19*.lean).

  All theorems are about `RdfModel.DS` (Model/Dataset.lean), the executable model the driver runs
  (component "ds"). The reference semantics is `Spec.QuadSet` (a plain set; quad equality is
  structural = RDF term equality component-wise, see `termEquals_iff_eq`).

  Quantifier: every finite history of the property's operations (`POp`) whose arguments are
  well-formed (`POp.WF`: non-nil terms, blank nodes with an identifier, literals with a tag exactly
  on the tagged datatypes) — no bound on the universe or the history length — and every list of
  matchers whatsoever (including matchers foreign to the repository: `custom`).

  Recorded assumptions (not proved): the 96-bit truncated SHA-256 is injective on the byte strings
  hashed (the model keys literal nodes by the byte string itself); `strconv.Quote` is prefix-free
  and never emits a raw LF (the model's `quote` is proved to be); Go map iteration visits every
  entry exactly once in some order (the model fixes insertion order; the theorems below are
  statements about membership and multiplicity, or equations between two results of the same
  traversal, so they hold for every order).
-/
import RdfModel.Props.C19Defs
import RdfModel.Proofs.C19
import RdfModel.Proofs.C19Eq
namespace RdfModel.C19
open RdfModel.DS
open RdfModel.Spec

/-! ## Term identity -/

/-- `"x"@en` -/
def exTaggedEnL : Literal := ⟨rdfLangString, [0x78], some (.lang [0x65, 0x6e])⟩
def exTaggedEn : Term := .lit exTaggedEnL

/-- The byte string `bindNode` hashes (`Datatype "\n" [tag line] LexicalForm`) is unambiguous on
    well-formed literals: equal keys, equal literals. -/
theorem literal_key_injective (a b : Literal) (ha : WFLiteral a) (hb : WFLiteral b)
    (h : litKeyBytes a = litKeyBytes b) : a = b :=
  Proofs.C19.literal_key_injective a b ha hb h

example : WFLiteral ⟨rdfLangString, [0x78], some (.lang [0x65, 0x6e])⟩ ∧ WFLiteral ⟨[0x61], [0x6c, 0x0a], none⟩ := by decide

/-- Outside the quantifier (documented, not a violation): ill-formed literals do collide.
    `"lang=\"en\"\nx"^^rdf:langString` *without* a tag hashes the same bytes as `"x"@en`;
    likewise a datatype IRI containing a line feed. -/
example : litKeyBytes ⟨rdfLangString, bLang ++ quote [0x65, 0x6e] ++ [0x0a, 0x78], none⟩
    = litKeyBytes ⟨rdfLangString, [0x78], some (.lang [0x65, 0x6e])⟩ := by decide
example : litKeyBytes ⟨[0x61, 0x0a, 0x62], [0x63], none⟩ = litKeyBytes ⟨[0x61], [0x62, 0x0a, 0x63], none⟩ := by decide

/-- Hence the class of the finding `literal-key-collision-illformed` (two DIFFERENT literals that the
    store cannot tell apart) contains only pairs with an ill-formed member. -/
theorem literal_key_collision_illformed (a b : Literal) (hne : a ≠ b)
    (h : litKeyBytes a = litKeyBytes b) : ¬ WFLiteral a ∨ ¬ WFLiteral b := by
  by_cases ha : WFLiteral a
  · by_cases hb : WFLiteral b
    · exact absurd (Proofs.C19.literal_key_injective a b ha hb h) hne
    · exact Or.inr hb
  · exact Or.inl ha

/-- … and the class is inhabited, with the set semantics visibly lost (finding C19-K2; replayed on the
    Go code by the harness corpus): after adding `s p "x"@en` and then `s p "lang=\"en\"\nx"^^rdf:langString`
    (no tag) the second add is swallowed, the iteration reports one quad, and `HasQuad` of the second
    answers `true` on a dataset it was never stored in. -/
def exCollL : Literal := ⟨rdfLangString, bLang ++ quote [0x65, 0x6e] ++ [0x0a, 0x78], none⟩
def exColl : Term := .lit exCollL

example : exCollL ≠ exTaggedEnL ∧ litKeyBytes exCollL = litKeyBytes exTaggedEnL ∧ ¬ WFLiteral exCollL := by decide

example :
    (run init [.addQuad ⟨some (.iri [0x61]), some (.iri [0x70]), some exTaggedEn, none⟩,
               .addQuad ⟨some (.iri [0x61]), some (.iri [0x70]), some exColl, none⟩,
               .iterQuads []]).2
      = [.unit, .unit, .quads [⟨.iri [0x61], .iri [0x70], exTaggedEn, none⟩]] ∧
    (run init [.addQuad ⟨some (.iri [0x61]), some (.iri [0x70]), some exTaggedEn, none⟩,
               .hasQuad ⟨some (.iri [0x61]), some (.iri [0x70]), some exColl, none⟩]).2
      = [.unit, .bool true] := by decide

/-- Two well-formed terms are interned as the same node only if they are the same term. -/
theorem intern_injective (a b : Term) (ha : WFTerm a) (hb : WFTerm b) (h : keyOf a = keyOf b) : a = b :=
  Proofs.C19.keyOf_injective a b ha hb h

/-- `TermEquals` (the three Go methods, blank-node identifiers compared by
    `EqualsBlankNodeIdentifier`, tags by `LiteralTag.Equals`) is equality of terms, and is false
    against nil. So the plain-set specification's quad equality *is* RDF term equality. -/
theorem termEquals_iff_eq (t : Term) (ht : WFTerm t) (u : Option Term) :
    t.termEquals u = true ↔ u = some t :=
  Proofs.C19.termEquals_iff t u (by intro id h; subst h; exact ht)

example : WFTerm (.bnode (some (.scoped 1 1))) ∧ WFTerm (.iri []) := by decide

/-- Outside the quantifier: a blank node without identifier is not `TermEquals` to itself, but the
    dataset interns it under the struct value and so treats it as equal to itself. -/
example : (Term.bnode none).termEquals (some (.bnode none)) = false ∧ keyOf (.bnode none) = keyOf (.bnode none) := by decide

/-! ### Equality beyond well-formed literals

The property's universe contains "literals differing only in datatype, tag or lexical form": two
literals that differ only in the PRESENCE of a tag (one of them is then not a well-formed RDF
literal) are different terms. The equality and matcher theorems therefore do not assume `WFLiteral`:
the hypothesis is `HasIdentity` (everything but the blank node without identifier). -/

/-- `Literal.TermEquals` is structural equality on ALL literals, ill-formed ones included: same
    datatype, same lexical form, same tag (presence, kind, language, direction). -/
theorem literal_equals_iff_eq (a b : Literal) :
    a.equals b = true ↔ a.dt = b.dt ∧ a.lex = b.lex ∧ a.tag = b.tag := by
  rw [Proofs.C19.Literal.equals_iff]
  obtain ⟨_, _, _⟩ := a; obtain ⟨_, _, _⟩ := b
  simp

/-- `TermEquals` is symmetric on every pair of terms (no hypothesis: a blank node without identifier
    equals nothing, from either side). -/
theorem termEquals_symm (t u : Term) : t.termEquals (some u) = u.termEquals (some t) :=
  Proofs.C19.termEquals_symm t u

/-- `termEquals_iff_eq` for every term with an identity: a literal of any shape, an IRI, a blank node
    with an identifier. -/
theorem termEquals_iff_eq_identity (t : Term) (ht : HasIdentity t) (u : Option Term) :
    t.termEquals u = true ↔ u = some t :=
  Proofs.C19.termEquals_iff_identity t ht u

/-- `"x"^^rdf:langString` without a tag (ill-formed, but a term with an identity) and `"x"@en` -/
def exUntagged : Term := .lit ⟨rdfLangString, [0x78], none⟩
def exTagged : Term := exTaggedEn

example : HasIdentity exUntagged ∧ ¬ WFTerm exUntagged ∧ WFTerm exTagged := by decide

/-- The two differ only in the presence of the tag: not equal, from either side (the asymmetric
    comparison of seeded defect C19r3-1 answers `true` for the first), and the store keeps them apart. -/
example : exUntagged.termEquals (some exTagged) = false ∧ exTagged.termEquals (some exUntagged) = false
    ∧ keyOf exUntagged ≠ keyOf exTagged := by decide

/-! ## Refinement -/

/-- After any history, the stored quads are exactly (as a multiset: `Perm` with a duplicate-free
    list) those a plain set would hold after the same history, and every output along the way —
    `HasQuad`/`HasTriple` answers, drained `NewQuadIterator`/`NewTripleIterator` results for
    arbitrary matcher lists, through the dataset or through per-graph views — agrees with the
    plain set's output (Booleans equal, iterations equal up to order, with multiplicity).
    Consequences: nothing lost, no duplicates, deletions of absent quads change nothing. -/
theorem refines_set (ops : List POp) (hwf : ∀ op ∈ ops, op.WF) :
    (abs (run init (ops.map POp.toOp)).1).Perm (QuadSet.run [] (ops.map POp.spec)).1 ∧
    (abs (run init (ops.map POp.toOp)).1).Nodup ∧
    OutsAgree (run init (ops.map POp.toOp)).2 (QuadSet.run [] (ops.map POp.spec)).2 :=
  Proofs.C19.refines_set ops hwf

def exQ1 : Quad := ⟨.iri [0x61], .iri [0x70], .lit ⟨rdfLangString, [0x78], some (.lang [0x65, 0x6e])⟩, none⟩
def exQ2 : Quad := ⟨.bnode (some (.scoped 1 1)), .iri [0x70], .bnode (some (.dflt 1)), some (.iri [0x67])⟩

/-- a non-trivial history satisfying the hypothesis -/
def exHistory : List POp :=
  [.addQuad exQ1, .viewAdd (some (.iri [0x67])) exQ2.triple, .addQuad exQ1, .deleteQuad exQ2, .hasQuad exQ1,
   .iterQuads [.triple (.subject (.equals (.iri [0x61]))), .object .isLiteral]]

example : ∀ op ∈ exHistory, op.WF := by decide

/-- A state reachable by a history of well-formed operations (the hypothesis of the theorems below). -/
theorem reachable_init : Reachable init := ⟨[], by simp, rfl⟩

theorem reachable_step {s : State} (h : Reachable s) (op : POp) (hop : op.WF) :
    Reachable (step s op.toOp).1 :=
  Proofs.C19.reachable_step h op hop

/-! ## Iteration -/

/-- `NewQuadIterator(ms...)` returns exactly the stored quads that satisfy all the matchers: a list
    equation with the traversal of the store, on all three paths of `newQuadIterator` (no matcher /
    exactly one triple-subject matcher = fast path / otherwise). Holds in every state. -/
theorem iterate_matchers (s : State) (ms : List QM) :
    iterQuads s ms = (abs s).filter (fun q => ms.all (fun m => m.matches q)) :=
  Proofs.C19.iterQuads_eq s ms

/-- The same for `GetGraph(g).NewTripleIterator(ms...)`: the triples of the stored quads of graph
    `g` that satisfy all the matchers (incl. the single-subject-matcher fast path). -/
theorem iterate_matchers_view {s : State} (h : Reachable s) (g : Option Term) (ms : List TrM) :
    (step s (.viewIter g ms)).2 = .triples
      ((((abs s).filter (fun q => decide (q.g = g))).map Quad.triple).filter
        (fun t => ms.all (fun m => m.matches t))) := by
  simp only [step]
  rw [Proofs.C19.viewTriples_eq (Proofs.C19.inv_of_reachable h).gkeys]

/-- No quad is reported twice, whatever the matchers; likewise for per-graph triple iteration. -/
theorem no_duplicates {s : State} (h : Reachable s) (ms : List QM) : (iterQuads s ms).Nodup :=
  Proofs.C19.nodup_iterQuads h ms

theorem no_duplicates_view {s : State} (h : Reachable s) (g : Option Term) (ms : List TrM) :
    (viewTriples (ensureGraph s g) g ms).Nodup :=
  Proofs.C19.nodup_viewTriples h g ms

/-- `HasQuad` answers membership in the stored set. -/
theorem has_iff_mem {s : State} (h : Reachable s) (q : Quad) (hq : WFQuad q) :
    (hasQuad s q.toIn).2 = .bool (decide (q ∈ abs s)) :=
  Proofs.C19.has_eq h q hq

/-- Deleting an absent quad leaves the stored quads (and their traversal order) untouched. -/
theorem delete_absent_noop {s : State} (h : Reachable s) (q : Quad) (hq : WFQuad q) (hn : q ∉ abs s) :
    abs (deleteQuad s q.toIn).1 = abs s ∧ (deleteQuad s q.toIn).2 = .unit :=
  Proofs.C19.delete_absent h q hq hn

example : WFQuad exQ1 ∧ exQ1 ∉ abs init := by decide

/-! ## Matchers and term equality -/

/-- `terms.Equals{u}` matches exactly `u`. -/
theorem equals_spec (u : Term) (hu : WFTerm u) (t : Option Term) :
    (TM.equals u).matches t = true ↔ t = some u :=
  Proofs.C19.equals_matches_iff u hu t

/-- `terms.EqualsOneOf(ts...)` — compiled maps or the single-IRI shortcut — matches `t` iff some
    expected term is `TermEquals` to `t`. No hypothesis: nil entries and blank nodes without
    identifier in `ts` never match, exactly as `TermEquals` says. -/
theorem equalsOneOf_spec (ts : List (Option Term)) (t : Option Term) :
    (equalsOneOf ts).matches t =
      ts.any (fun u => match u with | some u => u.termEquals t | none => false) :=
  Proofs.C19.equalsOneOf_spec ts t

/-- … hence, on well-formed expected terms, iff `t` is one of them. -/
theorem equalsOneOf_mem (ts : List Term) (hts : ∀ u ∈ ts, WFTerm u) (t : Option Term) :
    (equalsOneOf (ts.map some)).matches t = true ↔ ∃ u ∈ ts, t = some u :=
  Proofs.C19.equalsOneOf_matches_iff ts hts t

example : ∀ u ∈ [Term.iri [0x61], .lit ⟨[0x64], [0x78], none⟩], WFTerm u := by decide

/-- `equals_spec` / `equalsOneOf_mem` for expected terms of any shape that have an identity
    (ill-formed literals included). -/
theorem equals_spec_identity (u : Term) (hu : HasIdentity u) (t : Option Term) :
    (TM.equals u).matches t = true ↔ t = some u := by
  simp only [TM.matches]
  exact Proofs.C19.termEquals_iff_identity u hu t

theorem equalsOneOf_mem_identity (ts : List Term) (hts : ∀ u ∈ ts, HasIdentity u) (t : Option Term) :
    (equalsOneOf (ts.map some)).matches t = true ↔ ∃ u ∈ ts, t = some u :=
  Proofs.C19.equalsOneOf_matches_iff_identity ts hts t

example : ∀ u ∈ [exUntagged, Term.iri [0x71]], HasIdentity u := by decide

/-- The matchers built from the untagged literal do not select the tagged one (compiled form), and
    an iteration restricted to it over a dataset holding the tagged one is empty, as `HasQuad` says. -/
example : (equalsOneOf [some exUntagged, some (.iri [0x71])]).matches (some exTagged) = false
    ∧ (TM.equals exUntagged).matches (some exTagged) = false := by decide

example :
    (run init [.addQuad ⟨some (.iri [0x61]), some (.iri [0x70]), some exTagged, none⟩,
               .iterQuads [.object (.equals exUntagged)],
               .iterQuads [.triple (.object (equalsOneOf [some exUntagged, some (.iri [0x71])]))],
               .hasQuad ⟨some (.iri [0x61]), some (.iri [0x70]), some exUntagged, none⟩]).2
      = [.unit, .quads [], .quads [], .bool false] := by decide

/-! ## Per-graph views -/

/-- `GetGraph(g).AddTriple(t)` / `.DeleteTriple(t)` are *the same state transformer and output* as
    `AddQuad` / `DeleteQuad` with graph name `g` (any arguments, any state). -/
theorem view_consistency_write (s : State) (g : Option Term) (t : TripleIn) :
    step s (.viewAdd g t) = step s (.addQuad (t.asQuad g)) ∧
    step s (.viewDelete g t) = step s (.deleteQuad (t.asQuad g)) :=
  ⟨Proofs.C19.viewAdd_eq s g t, Proofs.C19.viewDelete_eq s g t⟩

/-- `GetGraph(g).HasTriple(t)` answers like `HasQuad` with graph name `g` and leaves the same quads
    stored (the two differ in which nodes and empty graphs they allocate: `GetGraph` creates the
    graph, after which `HasQuad` interns the three terms). -/
theorem view_consistency_has {s : State} (h : Reachable s) (g : Option Term) (t : Triple)
    (hg : WFGraphName g) (ht : WFTriple t) :
    (step s (.viewHas g (tripleIn t))).2 = (step s (.hasQuad (t.asQuad g).toIn)).2 ∧
    abs (step s (.viewHas g (tripleIn t))).1 = abs (step s (.hasQuad (t.asQuad g).toIn)).1 :=
  Proofs.C19.viewHas_eq h g t hg ht

/-! ## Residue of deletions -/

/-- Deleting the last statement of a subject leaves the subject's key in `assertedBySubject` (and
    the nodes, and an empty graph, stay allocated). By `refines_set` none of this is visible to the
    operations of the property. It *is* visible to `(*Graph).NewSubjectIterator`, which is not one
    of them: after add + delete it still reports the subject. -/
example :
    (run init [.addQuad exQ1.toIn, .deleteQuad exQ1.toIn, .viewSubjects none [], .iterQuads []]).2
      = [.unit, .unit, .terms [.iri [0x61]], .quads []] := by decide

end RdfModel.C19
