/-
  Proofs.C11RaFrame — frame lemmas for the RDFa decoder model: the resolver functions change neither the outcome flag,
  nor the statements, nor the list heap (`core`); the invariant `Inv` (no crash / nil term so far; every literal emitted or
  stored in a pending list is well-formed) and its preservation by `emit` / `pushList`.
  Core-only.
-/
import RdfModel.Model.RdfaDecoder
namespace RdfModel.Rdfad
open RdfModel RdfModel.Desc
open RdfModel.Mdd (Node Attr Bytes Subj fields trimSpace typeTokens textContent)

/-- what the theorems look at: outcome flag, statements, pending lists -/
def core (st : St) : Option Bad × List Stmt × List (List Obj) := (st.bad, st.out, st.lists)

/-- C06 for an object: a literal has a datatype, never rdf:dirLangString (the decoder has no direction), a language tag
    exactly when the datatype is rdf:langString, and the tag is not empty -/
def WFObj : Obj → Prop
  | .lit _ dt lang => dt ≠ [] ∧ dt ≠ rdfDirLangString ∧ (lang.isSome ↔ dt = rdfLangString) ∧ lang ≠ some []
  | _ => True

def Safe (st : St) : Prop := st.bad ≠ some .panic ∧ st.bad ≠ some .nilTerm

def Inv (st : St) : Prop :=
  Safe st ∧ (∀ t ∈ st.out, WFObj t.o) ∧ (∀ l ∈ st.lists, ∀ x ∈ l, WFObj x)

theorem Inv.of_core {st st' : St} (h : core st' = core st) (i : Inv st) : Inv st' := by
  simp only [core, Prod.mk.injEq] at h
  obtain ⟨hb, ho, hl⟩ := h
  unfold Inv Safe at *
  rw [hb, ho, hl]; exact i

theorem wf_subj_term (s : Subj) : WFObj s.term := by cases s <;> simp [Subj.term, WFObj]

/-! ### state primitives -/

@[simp] theorem core_fresh (st : St) : core st.fresh.2 = core st := rfl
@[simp] theorem core_ask (st : St) (k : Nat) (a b : Bytes) : core (st.ask k a b) = core st := rfl
@[simp] theorem core_setMap (st : St) (i : Nat) (m) : core (st.setMap i m) = core st := rfl
@[simp] theorem core_newMap (st : St) : core st.newMap.2 = core st := rfl
@[simp] theorem core_special (st : St) (k) : core { st with special := k } = core st := rfl
@[simp] theorem core_labels (st : St) (k) : core { st with labels := k } = core st := rfl
@[simp] theorem core_asks (st : St) (k) : core { st with asks := k } = core st := rfl
@[simp] theorem core_profile (st : St) (k) : core { st with profile := k } = core st := rfl
@[simp] theorem core_terms (st : St) (k) : core { st with terms := k } = core st := rfl
@[simp] theorem core_foundBase (st : St) (k) : core { st with foundBase := k } = core st := rfl
@[simp] theorem core_unordered (st : St) (k) : core { st with unordered := k } = core st := rfl

theorem Inv.emit {st : St} (i : Inv st) (s : Subj) (p : Bytes) (o : Obj) (ho : WFObj o) :
    Inv (st.emit (some s) p (some o)) := by
  obtain ⟨hs, ho', hl⟩ := i
  refine ⟨hs, ?_, hl⟩
  intro t ht
  simp only [St.emit, List.mem_append, List.mem_singleton] at ht
  rcases ht with ht | ht
  · exact ho' t ht
  · subst ht; exact ho

theorem getList_wf {st : St} (hl : ∀ l ∈ st.lists, ∀ x ∈ l, WFObj x) (i : Nat) : ∀ x ∈ st.getList i, WFObj x := by
  intro x hx
  unfold St.getList at hx
  rw [List.getD_eq_getElem?_getD] at hx
  cases h : st.lists[i]? with
  | none => rw [h] at hx; cases hx
  | some l => rw [h] at hx; exact hl l (List.mem_of_getElem? h) x hx

theorem Inv.pushList {st : St} (i : Inv st) (id : Nat) (o : Obj) (ho : WFObj o) : Inv (st.pushList id (some o)) := by
  obtain ⟨hs, ho', hl⟩ := i
  refine ⟨hs, ho', ?_⟩
  intro l hl'
  simp only [St.pushList] at hl'
  rcases List.mem_or_eq_of_mem_set hl' with h | h
  · exact hl l h
  · subst h
    intro x hx
    rcases List.mem_append.mp hx with hx | hx
    · exact getList_wf hl id x hx
    · simp only [List.mem_singleton] at hx; subst hx; exact ho

theorem Inv.newList {st : St} (i : Inv st) : Inv st.newList.2 := by
  obtain ⟨hs, ho', hl⟩ := i
  refine ⟨hs, ho', ?_⟩
  intro l hl'
  simp only [St.newList, List.mem_append, List.mem_singleton] at hl'
  rcases hl' with h | h
  · exact hl l h
  · subst h; intro x hx; cases hx

theorem Inv.ensureList {st : St} (i : Inv st) (m : Nat) (p : Bytes) : Inv (st.ensureList m p).2 := by
  unfold St.ensureList
  split
  · exact i
  · exact Inv.of_core (by rfl) i.newList

theorem Inv.failErr {st : St} (i : Inv st) : Inv (st.fail .err) := by
  obtain ⟨⟨h1, h2⟩, ho, hl⟩ := i
  refine ⟨⟨?_, ?_⟩, ho, hl⟩ <;> (simp only [St.fail]; split <;> simp_all)

/-! ### resolvers -/

@[simp] theorem core_bnodeRef (st : St) (v : Bytes) : core (bnodeRef st v).2 = core st := by
  unfold bnodeRef
  repeat' split
  all_goals rfl

@[simp] theorem core_tryResolve (E : Env) (st : St) (b) (c : Bool) (v : Bytes) :
    core (tryResolve E st b c v).2 = core st := by
  unfold tryResolve
  repeat' split
  all_goals rfl

@[simp] theorem core_resolvePlain (E : Env) (st : St) (v : Bytes) (b) (dv) (t : Bool) :
    core (resolvePlain E st v b dv t).2 = core st := by
  unfold resolvePlain
  have h := core_tryResolve E st b true v
  generalize tryResolve E st b true v = r at h ⊢
  obtain ⟨r1, r2⟩ := r
  simp only at h ⊢
  repeat' split
  all_goals exact h

@[simp] theorem core_resolveCurie (E : Env) (st : St) (pf) (v p r : Bytes) (b) (dv) :
    core (resolveCurie E st pf v p r b dv).2 = core st := by
  unfold resolveCurie
  have h := core_tryResolve E st b (containsPathish p) v
  generalize tryResolve E st b (containsPathish p) v = r at h ⊢
  obtain ⟨r1, r2⟩ := r
  simp only at h ⊢
  repeat' split
  all_goals first | rfl | exact h

@[simp] theorem core_resolveIRI (E : Env) (st : St) (pf) (v : Bytes) (b) (dv) (s t : Bool) :
    core (resolveIRI E st pf v b dv s t).2 = core st := by
  unfold resolveIRI
  repeat' split
  all_goals simp

@[simp] theorem core_resolveAsIRI (E : Env) (st : St) (pf) (v : Bytes) (dv) (t : Bool) :
    core (resolveAsIRI E st pf v dv t).2 = core st := by
  unfold resolveAsIRI
  split
  · rename_i h; have := core_resolveIRI E st pf v none dv false t; rw [h] at this; exact this
  · rename_i h _; have := core_resolveIRI E st pf v none dv false t
    generalize resolveIRI E st pf v none dv false t = r at *
    obtain ⟨r1, r2⟩ := r
    simp_all

@[simp] theorem core_resolveTokens (E : Env) (pf) (dv) (t : Bool) (ts : List Bytes) (st : St) :
    core (resolveTokens E pf dv t ts st).2 = core st := by
  induction ts generalizing st with
  | nil => rfl
  | cons x xs ih =>
    simp only [resolveTokens]
    rw [ih]; simp

@[simp] theorem core_filterRel (E : Env) (pf) (v) (st : St) : core (filterRel E pf v st).2 = core st := by
  unfold filterRel
  split
  · rfl
  · simp

@[simp] theorem core_res (E : Env) (st : St) (l : L) (v : Bytes) (s : Bool) : core (res E st l v s).2 = core st := by
  simp [res]

@[simp] theorem core_resOpt (E : Env) (st : St) (l : L) (v) (s : Bool) : core (resOpt E st l v s).2 = core st := by
  unfold resOpt; split <;> simp

theorem core_orElseSt {c} (r : Option Subj × St) (f : St → Option Subj × St) (hr : core r.2 = c)
    (hf : ∀ st, core st = c → core (f st).2 = c) : core (orElseSt r f).2 = c := by
  unfold orElseSt
  split
  · exact hr
  · exact hf _ hr

@[simp] theorem core_freshBn (st : St) : core (freshBn st).2 = core st := rfl

@[simp] theorem core_res3 (E : Env) (a : A) (l : L) (st : St) : core (res3 E a l st).2 = core st := by
  unfold res3
  apply core_orElseSt _ _ (by simp)
  intro st' h
  apply core_orElseSt _ _ (by simp [h])
  intro st'' h'
  simp [h']

@[simp] theorem core_res3First (E : Env) (a : A) (l : L) (st : St) : core (res3First E a l st).2 = core st := by
  unfold res3First
  repeat' split
  all_goals simp

theorem res_empty (E : Env) (st : St) (l : L) (s : Bool) : res E st l [] s = (some (.iri l.base), st) := by
  simp [res, resolveIRI]

end RdfModel.Rdfad
